//go:build verif

package regprocessor

// Correspondence + property oracle for C13: real registrations (RegisterBidirectional: v4 / v6 / dual
// stack / error exits / a failing zmq send; RegisterUnidirectional) and real ReloadSubnets calls on a
// real RegProcessor (no zmq socket: fake sender), interleaved at the points between the address
// selections.
//
// Deterministic part: the initial selector (version 0) is gate-controlled - every Select call on it
// parks the request until the harness releases it. The harness issues events (start thread i, release
// thread i) and waits after each one until the processor is *settled*: every started goroutine is
// finished, parked at the gate, or blocked in selectorMutex / zmqMutex (read from one stop-the-world
// goroutine dump, so there is no timing in the verdict). The same event list is a line for the Lean
// model, which runs the lock programs extracted from the source (CJ/Gen/LockPrograms.lean); a thread is
// described to the model by the shape of its path (entry point, selections performed, kind of exit),
// not by a path name.
// Stress part: ungated requests against concurrent reloads; in the thorough tier and in the targeted
// search also continuous stress (requests keep going against 1500 back-to-back reloads).
//
// Critical sections kept open: the write-side critical section of ReloadSubnets (the swap) and the read
// section of a request (the snapshot) contain no point at which a goroutine can be held, so "a request
// arrives while a reload is swapping" and "a request arrives while a reload waits for the write lock behind
// another request" cannot be produced with the gates above. Two white-box stand-ins do it: thread `w:hold`
// takes p.selectorMutex.Lock() itself, is held by the harness, and unlocks (the swap window of a reload,
// stretched); `h:read` does the same with RLock/RUnlock (a request in the middle of its snapshot). Requests
// and real reloads started meanwhile must be *blocked, not failed*, and complete successfully afterwards.
// The stress runs have the same stand-in as goroutines that keep taking the write lock for a few
// scheduler yields.
//
// Oracle (independent of the model): after all gates are released every request and every reload has
// completed (a started goroutine blocked in a lock of the processor with nothing left to run is a
// deadlock); every request and every reload that succeeds when it runs alone (established by running it
// alone at start-up) has succeeded - a request answered with an error because a reload was in progress has
// not been answered, and a reload that gave up has not completed -; and the addresses of one response come
// from one version of the subnet file.

import (
	"bufio"
	"bytes"
	"fmt"
	"io"
	"net"
	"os"
	"os/exec"
	"path/filepath"
	"regexp"
	"runtime"
	"sort"
	"strconv"
	"strings"
	"sync"
	"sync/atomic"
	"testing"
	"time"

	zmq "github.com/pebbe/zmq4"
	"github.com/refraction-networking/conjure/internal/vlib"
	"github.com/refraction-networking/conjure/pkg/core"
	"github.com/refraction-networking/conjure/pkg/metrics"
	"github.com/refraction-networking/conjure/pkg/phantoms"
	"github.com/refraction-networking/conjure/pkg/transports/wrapping/min"
	pb "github.com/refraction-networking/conjure/proto"
	log "github.com/sirupsen/logrus"
	"google.golang.org/protobuf/proto"
)

// ---------------------------------------------------------------------------------------------
// subnet files: version k of the configuration puts every phantom into networks that encode k

var c13Dir string

func c13File(k int) string {
	p := filepath.Join(c13Dir, fmt.Sprintf("phantoms_v%d.toml", k))
	if _, err := os.Stat(p); err == nil {
		return p
	}
	v4 := fmt.Sprintf("10.%d.%d.0/24", k/256, k%256)
	v6 := fmt.Sprintf("2001:db8:%x::/64", k)
	s := fmt.Sprintf(`
[Networks]
    [Networks.1]
        Generation = 1
        [[Networks.1.WeightedSubnets]]
            Weight = 1
            Subnets = ["%s", "%s"]
    [Networks.2]
        Generation = 2
        [[Networks.2.WeightedSubnets]]
            Weight = 1
            Subnets = ["%s"]
    [Networks.3]
        Generation = 3
        [[Networks.3.WeightedSubnets]]
            Weight = 1
            Subnets = ["%s"]
`, v4, v6, v4, v6)
	tmp := p + ".tmp"
	if err := os.WriteFile(tmp, []byte(s), 0o644); err != nil {
		panic(err)
	}
	if err := os.Rename(tmp, p); err != nil {
		panic(err)
	}
	return p
}

func c13Ver4(a uint32) int { return int(a>>16&0xff)*256 + int(a>>8&0xff) }
func c13Ver6(b []byte) int {
	if len(b) != 16 {
		return -1
	}
	return int(b[4])*256 + int(b[5])
}

// ---------------------------------------------------------------------------------------------
// request kinds: how the harness makes the real code take each kind of path. A kind is described to
// the model by its *shape* (entry point, address selections performed, kind of exit), never by the name
// of an extracted path: the driver finds the program with that shape in the regenerated table.

type c13Kind struct {
	uni       bool   // RegisterUnidirectional instead of RegisterBidirectional
	fams      string // the selections the request performs, in order: "46", "4", "6", ""
	exit      string // ok | sel (error right after the last selection) | late (error after the selections) | early (error before anything)
	tag       string // variant tag (not part of the shape)
	v4, v6    bool
	gen       uint32 // 1: both families, 2: v4 only (v6 selection fails), 3: v6 only (v4 selection fails), 99: unknown
	unknownTr bool   // transport not enabled: error exit after the selections
	noPayload bool   // no registration payload: error exit before the selections
	sendFail  bool   // publishing to zmq fails: error exit between zmqMutex.Lock/Unlock and the return
}

var c13Kinds = []c13Kind{
	{fams: "46", exit: "ok", v4: true, v6: true, gen: 1},
	{fams: "4", exit: "ok", v4: true, gen: 1},
	{fams: "6", exit: "ok", v6: true, gen: 1},
	{fams: "", exit: "ok", gen: 1},
	{fams: "46", exit: "sel", v4: true, v6: true, gen: 2},
	{fams: "4", exit: "sel", v4: true, gen: 3},
	{fams: "4", exit: "sel", tag: "d", v4: true, v6: true, gen: 3},
	{fams: "4", exit: "sel", tag: "g99", v4: true, v6: true, gen: 99},
	{fams: "6", exit: "sel", v6: true, gen: 2},
	{fams: "46", exit: "late", v4: true, v6: true, gen: 1, unknownTr: true},
	{fams: "4", exit: "late", v4: true, gen: 1, unknownTr: true},
	{fams: "6", exit: "late", v6: true, gen: 1, unknownTr: true},
	{fams: "", exit: "early", noPayload: true},
	// the publishing side (zmqMutex): a send that fails, unidirectional registrations
	{fams: "46", exit: "late", tag: "zf", v4: true, v6: true, gen: 1, sendFail: true},
	{fams: "4", exit: "late", tag: "zf", v4: true, gen: 1, sendFail: true},
	{uni: true, exit: "ok", v4: true, gen: 1},
	{uni: true, exit: "late", tag: "zf", v4: true, gen: 1, sendFail: true},
	{uni: true, exit: "early", noPayload: true, tag: "short"},
}

func (k c13Kind) spec() string {
	s := "q:" + k.fams + ":" + k.exit
	if k.uni {
		s = "u:" + k.exit
	}
	if k.tag != "" {
		s += ":" + k.tag
	}
	return s
}

func c13KindOf(spec string) (c13Kind, bool) {
	for _, k := range c13Kinds {
		if k.spec() == spec {
			return k, true
		}
	}
	return c13Kind{}, false
}

func (k c13Kind) fails() bool { return k.exit != "ok" }

// a send whose payload carries this marker (part of the shared secret) fails in the fake zmq socket
var c13FailMarker = []byte("ZMQFAIL!")

func c13Secret(i int) []byte {
	s := make([]byte, 32)
	for j := range s {
		s[j] = byte(i*131 + j*7 + 1)
	}
	return s
}

func (k c13Kind) secret(i int) []byte {
	s := c13Secret(i)
	if k.sendFail {
		copy(s, c13FailMarker)
	}
	if k.uni && k.noPayload {
		return s[:4] // shorter than a registration id: processC2SWrapper refuses it
	}
	return s
}

func (k c13Kind) request(i int) *pb.C2SWrapper {
	w := &pb.C2SWrapper{SharedSecret: k.secret(i)}
	if k.noPayload {
		return w
	}
	tr := pb.TransportType_Min
	if k.unknownTr {
		tr = pb.TransportType_Obfs4
	}
	covert := "192.0.2.1:443"
	w.RegistrationPayload = &pb.ClientToStation{
		Transport:           &tr,
		DecoyListGeneration: proto.Uint32(k.gen),
		CovertAddress:       &covert,
		V4Support:           proto.Bool(k.v4),
		V6Support:           proto.Bool(k.v6),
		ClientLibVersion:    proto.Uint32(core.CurrentClientLibraryVersion()),
	}
	return w
}

// ---------------------------------------------------------------------------------------------
// the gate-controlled selector (version 0 only; the real ReloadSubnets installs plain selectors)

type c13Gate struct {
	ch chan struct{}
}

type c13Gated struct {
	inner ipSelector
	mu    sync.Mutex
	gates map[string]*c13Gate // by conjure seed
}

func (g *c13Gated) Select(seed []byte, gen uint, ver uint, v6 bool) (*phantoms.PhantomIP, error) {
	ip, err := g.inner.Select(seed, gen, ver, v6)
	g.mu.Lock()
	gate := g.gates[string(seed)]
	g.mu.Unlock()
	if gate != nil {
		<-gate.ch // parked until the harness releases this request
	}
	return ip, err
}

type c13Sender struct{}

func (c13Sender) SendBytes(b []byte, f zmq.Flag) (int, error) {
	if bytes.Contains(b, c13FailMarker) {
		return 0, fmt.Errorf("verif: send refused")
	}
	return len(b), nil
}
func (c13Sender) Close() error { return nil }

var c13Metrics *metrics.Metrics

func c13Processor(gated bool) (*RegProcessor, *c13Gated) {
	os.Setenv("PHANTOM_SUBNET_LOCATION", c13File(0))
	sel, err := phantoms.GetPhantomSubnetSelector()
	if err != nil {
		panic(err)
	}
	p := &RegProcessor{sock: c13Sender{}, metrics: c13Metrics}
	var g *c13Gated
	if gated {
		g = &c13Gated{inner: sel, gates: map[string]*c13Gate{}}
		p.ipSelector = g
	} else {
		p.ipSelector = sel
	}
	if err := p.AddTransport(pb.TransportType_Min, min.Transport{}); err != nil {
		panic(err)
	}
	return p, g
}

// ---------------------------------------------------------------------------------------------
// baseline: which calls succeed when they run alone

// c13Solo: thread spec -> the call succeeds on a processor nobody else uses (on the initial selector and
// after one reload). The oracle demands success under concurrency exactly of these.
var c13Solo = map[string]bool{}

func c13Baseline(out *vlib.Out) {
	for _, k := range c13Kinds {
		ok := true
		for round := 0; round < 2 && ok; round++ {
			p, _ := c13Processor(false)
			if round == 1 {
				os.Setenv("PHANTOM_SUBNET_LOCATION", c13File(1))
				if err := p.ReloadSubnets(); err != nil {
					panic("c13: a reload alone failed: " + err.Error())
				}
			}
			func() {
				defer func() {
					if recover() != nil {
						ok = false
					}
				}()
				var err error
				if k.uni {
					err = p.RegisterUnidirectional(k.request(7), pb.RegistrationSource_API, net.ParseIP("198.51.100.7").To4())
				} else {
					_, err = p.RegisterBidirectional(k.request(7), pb.RegistrationSource_BidirectionalAPI, net.ParseIP("198.51.100.7").To4())
				}
				if err != nil {
					ok = false
				}
			}()
		}
		c13Solo[k.spec()] = ok
		if ok == k.fails() {
			out.Note(fmt.Sprintf("request kind %s is declared %q but alone it %s", k.spec(), k.exit, map[bool]string{true: "succeeds", false: "fails"}[ok]))
			out.Count("baseline:differs-from-declared-kind")
		}
	}
	p, _ := c13Processor(false)
	os.Setenv("PHANTOM_SUBNET_LOCATION", c13File(1))
	c13Solo["r:ok"] = p.ReloadSubnets() == nil
	os.Setenv("PHANTOM_SUBNET_LOCATION", filepath.Join(c13Dir, "does-not-exist.toml"))
	c13Solo["r:early"] = p.ReloadSubnets() == nil
	os.Setenv("PHANTOM_SUBNET_LOCATION", c13File(0))
}

// ---------------------------------------------------------------------------------------------
// goroutine states from one stop-the-world dump

func c13GID() int64 {
	var buf [64]byte
	n := runtime.Stack(buf[:], false)
	f := strings.Fields(string(buf[:n]))
	id, _ := strconv.ParseInt(f[1], 10, 64)
	return id
}

type c13GState int

const (
	c13Gone c13GState = iota
	c13Parked
	c13Blocked
	c13Busy
)

var c13DumpBuf = make([]byte, 1<<20)

// c13RawDump: goroutine id -> (status, text) for the ids asked for, from one stop-the-world dump.
func c13RawDump(ids map[int64]bool) map[int64][2]string {
	for {
		n := runtime.Stack(c13DumpBuf, true)
		if n < len(c13DumpBuf) {
			c13DumpBuf = c13DumpBuf[:n]
			break
		}
		c13DumpBuf = make([]byte, 2*len(c13DumpBuf))
	}
	res := map[int64][2]string{}
	for _, blk := range bytes.Split(c13DumpBuf, []byte("\n\n")) {
		if !bytes.HasPrefix(blk, []byte("goroutine ")) {
			continue
		}
		sp := bytes.IndexByte(blk[10:], ' ')
		if sp < 0 {
			continue
		}
		id, err := strconv.ParseInt(string(blk[10:10+sp]), 10, 64)
		if err != nil || !ids[id] {
			continue
		}
		s := string(blk)
		lb, rb := strings.IndexByte(s, '['), strings.IndexByte(s, ']')
		status := ""
		if lb >= 0 && rb > lb {
			status = s[lb+1 : rb]
			if c := strings.IndexByte(status, ','); c >= 0 {
				status = status[:c]
			}
		}
		res[id] = [2]string{status, s}
	}
	c13DumpBuf = c13DumpBuf[:cap(c13DumpBuf)]
	return res
}

// The wait-reason strings of a goroutine parked in a sync mutex differ between toolchains
// ("semacquire", "sync.RWMutex.RLock", ...). They are learnt at start-up from goroutines that the
// harness itself blocks in RLock / Lock / Mutex.Lock of scratch mutexes (c13Calibrate); the strings of
// the toolchains seen so far are the initial content.
var c13WaitStatus = map[string]bool{"sync.RWMutex.RLock": true, "sync.RWMutex.Lock": true, "sync.Mutex.Lock": true, "semacquire": true}

func c13Calibrate(t *testing.T) {
	var rwR, rwW sync.RWMutex
	var mu sync.Mutex
	rwR.Lock()  // a reader will wait
	rwW.RLock() // a writer will wait
	mu.Lock()
	type probe struct {
		gid   atomic.Int64
		frame string
		done  chan struct{}
	}
	probes := []*probe{{frame: "sync.(*RWMutex).RLock"}, {frame: "sync.(*RWMutex).Lock"}, {frame: "sync.(*Mutex).Lock"}}
	for i, pr := range probes {
		pr.done = make(chan struct{})
		ready := make(chan struct{})
		go func(i int, pr *probe) {
			pr.gid.Store(c13GID())
			close(ready)
			switch i {
			case 0:
				rwR.RLock()
				rwR.RUnlock()
			case 1:
				rwW.Lock()
				rwW.Unlock()
			case 2:
				mu.Lock()
				mu.Unlock()
			}
			close(pr.done)
		}(i, pr)
		<-ready
	}
	deadline := time.Now().Add(120 * time.Second)
	learnt := map[int]string{}
	for len(learnt) < len(probes) {
		ids := map[int64]bool{}
		for _, pr := range probes {
			ids[pr.gid.Load()] = true
		}
		raw := c13RawDump(ids)
		for i, pr := range probes {
			st := raw[pr.gid.Load()]
			switch st[0] {
			case "", "running", "runnable", "syscall", "idle", "dead", "copystack", "preempted":
				continue
			}
			if strings.Contains(st[1], pr.frame) {
				learnt[i] = st[0]
			}
		}
		if len(learnt) < len(probes) {
			if time.Now().After(deadline) {
				t.Fatalf("cannot recognise goroutines blocked in sync.RWMutex / sync.Mutex in the goroutine dump of this toolchain (learnt %v)", learnt)
			}
			time.Sleep(200 * time.Microsecond)
		}
	}
	for _, st := range learnt {
		c13WaitStatus[st] = true
	}
	rwR.Unlock()
	rwW.RUnlock()
	mu.Unlock()
	for _, pr := range probes {
		<-pr.done
	}
}

// c13Where: which lock of the processor a blocked goroutine waits for ("" = none of them).
func c13Where(text string) string {
	if strings.Contains(text, "(*Metrics)") || !(strings.Contains(text, "(*RegProcessor).") || strings.Contains(text, ".c13HolderBody")) {
		return ""
	}
	switch {
	case strings.Contains(text, "sync.(*RWMutex).RLock"):
		return "RLock"
	case strings.Contains(text, "sync.(*RWMutex).Lock"):
		return "Lock"
	case strings.Contains(text, "sync.(*Mutex).Lock"):
		return "zmqLock"
	}
	return ""
}

// c13Dump maps goroutine id -> (state, text) for the ids asked for.
func c13Dump(ids map[int64]bool) (map[int64]c13GState, map[int64]string) {
	states := map[int64]c13GState{}
	texts := map[int64]string{}
	for id, st := range c13RawDump(ids) {
		status, s := st[0], st[1]
		state := c13Busy
		switch {
		case status == "chan receive" && (strings.Contains(s, "(*c13Gated).Select") || strings.Contains(s, ".c13HoldGate(")):
			state = c13Parked
		case c13WaitStatus[status] && c13Where(s) != "":
			state = c13Blocked
		}
		states[id] = state
		texts[id] = s
	}
	return states, texts
}

// ---------------------------------------------------------------------------------------------
// one scenario

type c13Thread struct {
	spec     string
	reload   bool
	relOK    bool   // reload that is expected to load a file
	holder   string // "w" / "r": stand-in that keeps a write / read section of selectorMutex open at a gate
	kind     c13Kind
	started  bool
	gid      atomic.Int64
	done     atomic.Bool
	gate     *c13Gate
	resp     *pb.RegistrationResponse
	err      error
	panicked any
	relVer   int
}

type c13Scenario struct {
	p       *RegProcessor
	g       *c13Gated
	ths     []*c13Thread
	nextVer int
	verDone int
}

func c13ParseThreads(specs []string) ([]*c13Thread, error) {
	var ths []*c13Thread
	for i, s := range specs {
		t := &c13Thread{spec: s}
		switch {
		case s == "r:ok":
			t.reload, t.relOK = true, true
		case s == "r:early":
			t.reload = true
		case s == "w:hold":
			t.holder = "w"
		case s == "h:read":
			t.holder = "r"
		default:
			k, ok := c13KindOf(s)
			if !ok {
				return nil, fmt.Errorf("unknown thread spec %q", s)
			}
			t.kind = k
		}
		_ = i
		ths = append(ths, t)
	}
	return ths, nil
}

func newC13Scenario(specs []string) (*c13Scenario, error) {
	ths, err := c13ParseThreads(specs)
	if err != nil {
		return nil, err
	}
	p, g := c13Processor(true)
	sc := &c13Scenario{p: p, g: g, ths: ths}
	for i, t := range ths {
		if t.holder != "" {
			t.gate = &c13Gate{ch: make(chan struct{})}
			continue
		}
		if t.reload || t.kind.noPayload || t.kind.uni {
			continue
		}
		keys, err := core.GenSharedKeys(uint(core.CurrentClientLibraryVersion()), t.kind.secret(i), pb.TransportType_Min)
		if err != nil {
			return nil, err
		}
		t.gate = &c13Gate{ch: make(chan struct{})}
		g.gates[string(keys.ConjureSeed)] = t.gate
	}
	return sc, nil
}

func (sc *c13Scenario) start(i int) {
	t := sc.ths[i]
	t.started = true
	if t.reload {
		if t.relOK {
			sc.nextVer++
			t.relVer = sc.nextVer
			os.Setenv("PHANTOM_SUBNET_LOCATION", c13File(t.relVer))
		} else {
			os.Setenv("PHANTOM_SUBNET_LOCATION", filepath.Join(c13Dir, "does-not-exist.toml"))
		}
	}
	ready := make(chan struct{})
	go func() {
		t.gid.Store(c13GID())
		close(ready)
		defer t.done.Store(true)
		defer func() {
			if r := recover(); r != nil {
				t.panicked = r
			}
		}()
		if t.reload {
			t.err = sc.p.ReloadSubnets()
			return
		}
		if t.holder != "" {
			c13HolderBody(sc.p, t.holder == "w", t.gate.ch)
			return
		}
		if t.kind.uni {
			t.err = sc.p.RegisterUnidirectional(t.kind.request(i), pb.RegistrationSource_API, net.ParseIP("198.51.100.7").To4())
			return
		}
		t.resp, t.err = sc.p.RegisterBidirectional(t.kind.request(i), pb.RegistrationSource_BidirectionalAPI, net.ParseIP("198.51.100.7").To4())
	}()
	<-ready
}

// c13HolderBody: a critical section of selectorMutex kept open until the harness releases the gate.
//
//go:noinline
func c13HolderBody(p *RegProcessor, write bool, gate chan struct{}) {
	if write {
		p.selectorMutex.Lock()
		c13HoldGate(gate)
		p.selectorMutex.Unlock()
		return
	}
	p.selectorMutex.RLock()
	c13HoldGate(gate)
	p.selectorMutex.RUnlock()
}

//go:noinline
func c13HoldGate(gate chan struct{}) { <-gate }

// c13SettleLimit only guards the harness against hanging for ever; it is not part of any verdict (a run
// that does not settle is a harness failure, never an oracle failure). Generous, because the machine may
// be heavily loaded.
const c13SettleLimit = 5 * time.Minute

// settle waits until every started goroutine is finished, parked or blocked in a mutex of the processor.
func (sc *c13Scenario) settle() (map[int]c13GState, map[int]string, error) {
	deadline := time.Now().Add(c13SettleLimit)
	for spin := 0; ; spin++ {
		ids := map[int64]bool{}
		for _, t := range sc.ths {
			if t.started && !t.done.Load() {
				ids[t.gid.Load()] = true
			}
		}
		res := map[int]c13GState{}
		txt := map[int]string{}
		if len(ids) == 0 {
			return res, txt, nil
		}
		// Only the flags read BEFORE the dump count: a thread that was still alive then and has finished
		// since may have released a lock after the snapshot, so the snapshot's "blocked" would be stale.
		states, texts := c13Dump(ids)
		quiet := true
		for i, t := range sc.ths {
			if !t.started || !ids[t.gid.Load()] {
				continue // not started, or finished (and so released everything) before the snapshot
			}
			st, ok := states[t.gid.Load()]
			if !ok || st == c13Busy {
				// running, or exited between the flag read and the dump: look again
				quiet = false
				continue
			}
			res[i] = st
			txt[i] = texts[t.gid.Load()]
		}
		if quiet {
			return res, txt, nil
		}
		if time.Now().After(deadline) {
			return res, txt, fmt.Errorf("scenario did not settle within %v (a goroutine stayed runnable: machine overloaded?)", c13SettleLimit)
		}
		if spin < 50 {
			runtime.Gosched()
		} else {
			time.Sleep(50 * time.Microsecond)
		}
	}
}

func (sc *c13Scenario) reloadInFlight() bool {
	for _, t := range sc.ths {
		if t.reload && t.started && !t.done.Load() {
			return true
		}
	}
	return false
}

// enabled events in a settled state (a reload is started only when no other reload is in flight:
// the registrar's SIGHUP loop runs reloads one after the other).
func (sc *c13Scenario) enabled(states map[int]c13GState) []string {
	var evs []string
	for i, t := range sc.ths {
		if !t.started {
			if t.reload && sc.reloadInFlight() {
				continue
			}
			evs = append(evs, fmt.Sprintf("s%d", i))
		}
	}
	for i := range sc.ths {
		if states[i] == c13Parked {
			evs = append(evs, fmt.Sprintf("g%d", i))
		}
	}
	return evs
}

func (sc *c13Scenario) apply(ev string, states map[int]c13GState) error {
	i, err := strconv.Atoi(ev[1:])
	if err != nil || i < 0 || i >= len(sc.ths) {
		return fmt.Errorf("bad event %q", ev)
	}
	switch ev[0] {
	case 's':
		// events that do not apply in the current state are skipped (same rule in the model), so that
		// one event list can be run against different versions of the code
		if !sc.ths[i].started {
			sc.start(i)
		}
	case 'g':
		if states[i] == c13Parked {
			sc.ths[i].gate.ch <- struct{}{}
		}
	default:
		return fmt.Errorf("bad event %q", ev)
	}
	return nil
}

type c13Result struct {
	answer   string // canonical, same form as the Lean driver's
	enabled  []string
	deadlock []string // descriptions of goroutines blocked for good
	mixed    []string // responses whose addresses come from different versions
	refused  []string // requests / reloads that succeed alone and returned an error here
	panics   []string
	texts    map[int]string
}

// run applies the events, then releases every parked thread, lowest index first. With drain == false
// the run is a probe: it only reports the enabled events (and is abandoned) unless none is enabled, in
// which case it is a maximal sequence and its outcome is reported as usual.
func c13Run(specs, events []string, drain bool) (*c13Result, error) {
	sc, err := newC13Scenario(specs)
	if err != nil {
		return nil, err
	}
	states, texts, err := sc.settle()
	if err != nil {
		return nil, err
	}
	for _, ev := range events {
		if err := sc.apply(ev, states); err != nil {
			sc.abandon(states)
			return nil, err
		}
		if states, texts, err = sc.settle(); err != nil {
			return nil, err
		}
	}
	res := &c13Result{enabled: sc.enabled(states)}
	if !drain && len(res.enabled) > 0 {
		sc.abandon(states)
		return res, nil
	}
	for {
		lowest := -1
		for i := range sc.ths {
			if states[i] == c13Parked {
				lowest = i
				break
			}
		}
		if lowest < 0 {
			break
		}
		sc.ths[lowest].gate.ch <- struct{}{}
		if states, texts, err = sc.settle(); err != nil {
			return nil, err
		}
	}
	res.texts = texts
	var parts []string
	ver := 0
	for i, t := range sc.ths {
		switch {
		case !t.started:
			parts = append(parts, "idle")
		case !t.done.Load():
			parts = append(parts, "blocked")
			where := "request blocked in RLock"
			if t.reload {
				where = "reload blocked in Lock"
			} else if t.holder != "" {
				where = "stand-in critical section blocked in " + map[string]string{"w": "Lock", "r": "RLock"}[t.holder]
			} else if c13Where(texts[i]) == "zmqLock" {
				where = "request blocked in zmqMutex.Lock"
			}
			res.deadlock = append(res.deadlock, fmt.Sprintf("thread %d (%s): %s", i, t.spec, where))
		case t.panicked != nil:
			parts = append(parts, "panic")
			res.panics = append(res.panics, fmt.Sprintf("thread %d (%s): %v", i, t.spec, t.panicked))
		case t.holder != "":
			parts = append(parts, "done")
		case t.reload:
			parts = append(parts, "done")
			if t.err == nil {
				ver++
			} else if c13Solo[t.spec] {
				res.refused = append(res.refused, fmt.Sprintf("reload thread %d (%s) gave up: %v", i, t.spec, t.err))
			}
		case t.err != nil:
			parts = append(parts, "done:err")
			if c13Solo[t.spec] {
				res.refused = append(res.refused, fmt.Sprintf("request thread %d (%s) was answered with an error: %v", i, t.spec, t.err))
			}
		case t.kind.uni:
			parts = append(parts, "done:sent")
		default:
			var f []string
			k4, k6 := -1, -1
			if t.resp.Ipv4Addr != nil {
				k4 = c13Ver4(t.resp.GetIpv4Addr())
				f = append(f, fmt.Sprintf("4=%d", k4))
			}
			if t.resp.Ipv6Addr != nil {
				k6 = c13Ver6(t.resp.GetIpv6Addr())
				f = append(f, fmt.Sprintf("6=%d", k6))
			}
			if k4 >= 0 && k6 >= 0 && k4 != k6 {
				res.mixed = append(res.mixed, fmt.Sprintf("thread %d (%s): IPv4 phantom from version %d, IPv6 phantom from version %d", i, t.spec, k4, k6))
			}
			parts = append(parts, "done:"+strings.Join(f, "."))
		}
	}
	res.answer = strings.Join(parts, ";") + fmt.Sprintf("|ver=%d", ver)
	return res, nil
}

// abandon lets the goroutines of an exploration prefix run out: gates stay open from now on.
func (sc *c13Scenario) abandon(states map[int]c13GState) {
	for _, t := range sc.ths {
		if t.gate != nil {
			close(t.gate.ch)
		}
	}
}

// ---------------------------------------------------------------------------------------------
// reporting

var c13Deadlocks int

func c13Line(specs, events []string) string {
	return "rw|" + strings.Join(specs, ",") + "|" + strings.Join(events, ",")
}

func c13Report(out *vlib.Out, specs, events []string, res *c13Result) {
	line := c13Line(specs, events)
	nontrivial := strings.Contains(res.answer, "done:4") || strings.Contains(res.answer, "done:6")
	out.Case(line, res.answer, nontrivial)
	out.Checked()
	if len(res.deadlock) > 0 {
		c13Deadlocks++
		kinds := map[string]bool{}
		for _, d := range res.deadlock {
			switch {
			case strings.Contains(d, "reload blocked"):
				kinds["reload.Lock"] = true
			case strings.Contains(d, "zmqMutex"):
				kinds["request.zmqLock"] = true
			default:
				kinds["request.RLock"] = true
			}
		}
		var ks []string
		for k := range kinds {
			ks = append(ks, k)
		}
		sort.Strings(ks)
		out.OracleFail("C13:deadlock:"+strings.Join(ks, "+"),
			"registrar blocked for good after this interleaving: "+strings.Join(res.deadlock, "; "), line)
		out.Count("outcome:deadlock")
	} else {
		out.Count("outcome:all-complete")
	}
	if len(res.refused) > 0 {
		kind := "request"
		if strings.HasPrefix(res.refused[0], "reload") {
			kind = "reload"
		}
		out.OracleFail("C13:not-answered:"+kind,
			"a call that succeeds when it runs alone did not succeed next to the other threads of this interleaving (all of them completed): "+strings.Join(res.refused, "; "), line)
		out.Count("outcome:not-answered")
	}
	for _, m := range res.mixed {
		out.OracleFail("C13:mixed-versions", "one request used two versions of the subnet set: "+m, line)
	}
	for _, p := range res.panics {
		out.OracleFail("C13:panic", p, line)
	}
	out.Count(fmt.Sprintf("threads:%d", len(specs)))
	out.Count(fmt.Sprintf("events:%d", len(events)))
}

// explore enumerates every maximal event sequence of a thread set by re-execution; it returns false
// when the enumeration was cut short (budget, or enough deadlocks seen already).
func c13Explore(t *testing.T, out *vlib.Out, specs, prefix []string, budget *int, deadlocks *int) bool {
	if *budget <= 0 || c13Deadlocks >= 40 {
		return false
	}
	probe, err := c13Run(specs, prefix, false)
	if err != nil {
		t.Fatalf("scenario %s: %v", c13Line(specs, prefix), err)
	}
	if len(probe.enabled) == 0 {
		*budget--
		if len(probe.deadlock) > 0 {
			*deadlocks++
		}
		c13Report(out, specs, prefix, probe)
		return true
	}
	complete := true
	for _, ev := range probe.enabled {
		if !c13Explore(t, out, specs, append(append([]string(nil), prefix...), ev), budget, deadlocks) {
			complete = false
		}
	}
	return complete
}

// ---------------------------------------------------------------------------------------------
// stress: ungated requests against concurrent reloads

// c13StressContinuous: request goroutines keep going (cycling through their plan) until the
// reloaders are done, so that every reload's write-lock request meets requests in flight
var c13StressContinuous bool

// c13StressHolders: number of stand-in goroutines that keep taking the write lock of selectorMutex for a few
// scheduler yields (a stretched swap window), so that requests and reloads do arrive while it is held
var c13StressHolders int

func c13Stress(t *testing.T, out *vlib.Out, r *vlib.Rand, nReq, nRounds, nReload, nReloaders int) {
	p, _ := c13Processor(false)
	nHolders := c13StressHolders
	type worker struct {
		gid  atomic.Int64
		done atomic.Bool
		rel  bool
	}
	var workers []*worker
	var mixed, panics, refusedReq, refusedRel, requestsLeft atomic.Int64
	var firstMixed, firstRefusedReq, firstRefusedRel atomic.Value
	requestsLeft.Store(int64(nReq))
	succ := []c13Kind{}
	for _, k := range c13Kinds {
		succ = append(succ, k)
	}
	plans := make([][]c13Kind, nReq)
	for i := range plans {
		for j := 0; j < nRounds; j++ {
			if r.Chance(3, 5) {
				plans[i] = append(plans[i], c13Kinds[0]) // dual stack
			} else {
				plans[i] = append(plans[i], succ[r.Intn(len(succ))])
			}
		}
	}
	var verCtr atomic.Int64
	var reloadersLeft atomic.Int64
	reloadersLeft.Store(int64(nReloaders))
	startGate := make(chan struct{})
	for i := 0; i < nReq; i++ {
		w := &worker{}
		workers = append(workers, w)
		go func(i int) {
			w.gid.Store(c13GID())
			defer w.done.Store(true)
			defer requestsLeft.Add(-1)
			defer func() {
				if recover() != nil {
					panics.Add(1)
				}
			}()
			<-startGate
			notAnswered := func(k c13Kind, err error) {
				// the same call succeeds when nothing runs next to it
				if err != nil && c13Solo[k.spec()] && refusedReq.Add(1) == 1 {
					firstRefusedReq.Store(fmt.Sprintf("%s: %v", k.spec(), err))
				}
			}
			for j := 0; j < len(plans[i]) || (c13StressContinuous && reloadersLeft.Load() > 0); j++ {
				k := plans[i][j%len(plans[i])]
				if k.uni {
					notAnswered(k, p.RegisterUnidirectional(k.request(1000+i*nRounds+j%nRounds), pb.RegistrationSource_API, net.ParseIP("198.51.100.7").To4()))
					continue
				}
				resp, err := p.RegisterBidirectional(k.request(1000+i*nRounds+j%nRounds), pb.RegistrationSource_BidirectionalAPI, net.ParseIP("198.51.100.7").To4())
				notAnswered(k, err)
				if err != nil || resp == nil {
					continue
				}
				if resp.Ipv4Addr != nil && resp.Ipv6Addr != nil {
					k4, k6 := c13Ver4(resp.GetIpv4Addr()), c13Ver6(resp.GetIpv6Addr())
					if k4 != k6 {
						if mixed.Add(1) == 1 {
							firstMixed.Store(fmt.Sprintf("IPv4 phantom from version %d, IPv6 phantom from version %d", k4, k6))
						}
					}
				}
			}
		}(i)
	}
	for i := 0; i < nReloaders; i++ {
		w := &worker{rel: true}
		workers = append(workers, w)
		go func() {
			w.gid.Store(c13GID())
			defer w.done.Store(true)
			defer reloadersLeft.Add(-1)
			<-startGate
			for j := 0; j < nReload; j++ {
				v := int(verCtr.Add(1))
				os.Setenv("PHANTOM_SUBNET_LOCATION", c13File(v%60000+1))
				if err := p.ReloadSubnets(); err != nil && c13Solo["r:ok"] && refusedRel.Add(1) == 1 {
					firstRefusedRel.Store(err.Error())
				}
				if j%3 == 0 {
					runtime.Gosched()
				}
			}
		}()
	}
	for i := 0; i < nHolders; i++ {
		w := &worker{rel: true}
		workers = append(workers, w)
		go func(i int) {
			w.gid.Store(c13GID())
			defer w.done.Store(true)
			<-startGate
			for j := 0; j < 4000 && requestsLeft.Load() > 0; j++ {
				c13HolderBodyStress(p, 1+(i+j)%4)
				runtime.Gosched()
			}
		}(i)
	}
	time.Sleep(2 * time.Millisecond)
	close(startGate)
	params := fmt.Sprintf("stress|seed=%d|requests=%d|rounds=%d|reloads=%d|reloaders=%d", vlib.Seed(), nReq, nRounds, nReload, nReloaders)
	if c13StressContinuous {
		params += "|continuous=1"
	}
	if nHolders > 0 {
		params += fmt.Sprintf("|holders=%d", nHolders)
	}
	hard := time.Now().Add(10 * time.Minute)
	for {
		time.Sleep(20 * time.Millisecond)
		ids := map[int64]bool{}
		for _, w := range workers {
			if !w.done.Load() {
				ids[w.gid.Load()] = true
			}
		}
		if len(ids) == 0 {
			break
		}
		// verdict from one snapshot: every goroutine that was alive before the dump (flag read above) is in
		// the dump and blocked in a lock of the processor; the ones that finished earlier hold nothing
		states, texts := c13Dump(ids)
		stuck, nreq, nrel, nzmq := true, 0, 0, 0
		var sample string
		for _, w := range workers {
			gid := w.gid.Load()
			if !ids[gid] {
				continue
			}
			if st, ok := states[gid]; !ok || st != c13Blocked {
				stuck = false
				break
			}
			switch {
			case w.rel:
				nrel++
			case c13Where(texts[gid]) == "zmqLock":
				nzmq++
			default:
				nreq++
			}
			if sample == "" || w.rel {
				sample = texts[gid]
			}
		}
		if nreq+nrel+nzmq == 0 {
			stuck = false
		}
		if stuck {
			// every live goroutine waits for selectorMutex in one stop-the-world snapshot: nobody can wake them
			out.Checked()
			c13Deadlocks++
			var ks []string
			if nrel > 0 {
				ks = append(ks, "reload.Lock")
			}
			if nreq > 0 {
				ks = append(ks, "request.RLock")
			}
			if nzmq > 0 {
				ks = append(ks, "request.zmqLock")
			}
			out.OracleFail("C13:deadlock:"+strings.Join(ks, "+"),
				fmt.Sprintf("stress run blocked for good: %d request goroutine(s) in RLock, %d in zmqMutex.Lock and %d reload goroutine(s) in Lock, nothing runnable", nreq, nzmq, nrel), params)
			out.Count("stress:deadlock")
			if vlib.Replay() != "" {
				fmt.Println(sample)
			}
			return
		}
		if time.Now().After(hard) {
			t.Fatalf("stress run neither finished nor deadlocked within 10 minutes (%s)", params)
		}
	}
	out.Checked()
	out.Count("stress:all-complete")
	if n := refusedReq.Load(); n > 0 {
		out.OracleFail("C13:not-answered:request", fmt.Sprintf("%d request(s) that succeed when they run alone were answered with an error while reloads were running, e.g. %v", n, firstRefusedReq.Load()), params)
		out.Count("stress:not-answered")
	}
	if n := refusedRel.Load(); n > 0 {
		out.OracleFail("C13:not-answered:reload", fmt.Sprintf("%d reload(s) of an existing subnet file gave up while requests were running, e.g. %v", n, firstRefusedRel.Load()), params)
		out.Count("stress:not-answered")
	}
	if mixed.Load() > 0 {
		out.OracleFail("C13:mixed-versions", fmt.Sprintf("%d dual-stack response(s) mix two versions of the subnet set, e.g. %v", mixed.Load(), firstMixed.Load()), params)
	}
	if panics.Load() > 0 {
		out.OracleFail("C13:panic", fmt.Sprintf("%d request goroutine(s) panicked", panics.Load()), params)
	}
}

// c13HolderBodyStress: the write lock of selectorMutex held for a few scheduler yields.
//
//go:noinline
func c13HolderBodyStress(p *RegProcessor, yields int) {
	p.selectorMutex.Lock()
	for k := 0; k < yields; k++ {
		runtime.Gosched()
	}
	p.selectorMutex.Unlock()
}

// ---------------------------------------------------------------------------------------------
// model-guided search: ask the compiled Lean driver for a deadlocking event sequence

func c13AskModel(specs []string) (string, bool) { return c13AskDriver("rwevents", specs) }

func c13AskDriver(cmdName string, specs []string) (string, bool) {
	drv := filepath.Join(os.Getenv("VERIF_DIR"), "lean", ".lake", "build", "bin", "drv_C13")
	if _, err := os.Stat(drv); err != nil {
		return "", false
	}
	cmd := exec.Command(drv)
	cmd.Stdin = strings.NewReader(cmdName + "|" + strings.Join(specs, ",") + "\n")
	b, err := cmd.Output()
	if err != nil {
		return "", false
	}
	return strings.TrimSpace(string(b)), true
}

// ---------------------------------------------------------------------------------------------

func c13Setup(t *testing.T) {
	var err error
	c13Dir, err = os.MkdirTemp("", "verif-c13-")
	if err != nil {
		t.Fatal(err)
	}
	lg := log.New()
	lg.SetOutput(io.Discard)
	c13Metrics = metrics.NewMetrics(log.NewEntry(lg), 24*time.Hour)
	c13Calibrate(t)
}

var c13HoldersRe = regexp.MustCompile(`\|holders=(\d+)`)

func TestVerifC13(t *testing.T) {
	c13Setup(t)
	defer os.RemoveAll(c13Dir)
	out := vlib.Open("C13")
	defer out.Close()
	r := vlib.NewRand("C13")
	c13Baseline(out)

	if rp := vlib.Replay(); rp != "" {
		f, err := os.Open(rp)
		if err != nil {
			t.Fatal(err)
		}
		defer f.Close()
		scn := bufio.NewScanner(f)
		for scn.Scan() {
			line := strings.TrimSpace(scn.Text())
			switch {
			case strings.HasPrefix(line, "rw|"):
				p := strings.Split(line, "|")
				if len(p) != 3 {
					t.Fatalf("bad replay line %q", line)
				}
				specs := strings.Split(p[1], ",")
				var events []string
				if p[2] != "" {
					events = strings.Split(p[2], ",")
				}
				res, err := c13Run(specs, events, true)
				if err != nil {
					t.Fatal(err)
				}
				fmt.Printf("replay %s\n  outcome: %s\n", line, res.answer)
				for _, d := range res.deadlock {
					fmt.Println("  BLOCKED:", d)
				}
				for _, d := range res.refused {
					fmt.Println("  NOT ANSWERED:", d)
				}
				for i, s := range res.texts {
					fmt.Printf("  goroutine of thread %d:\n%s\n", i, s)
				}
				c13Report(out, specs, events, res)
			case strings.HasPrefix(line, "stress|"):
				var seed int64
				var a, b, c, d int
				if _, err := fmt.Sscanf(line, "stress|seed=%d|requests=%d|rounds=%d|reloads=%d|reloaders=%d", &seed, &a, &b, &c, &d); err != nil {
					t.Fatalf("bad replay line %q: %v", line, err)
				}
				c13StressContinuous = strings.Contains(line, "|continuous=1")
				c13StressHolders = 0
				if m := c13HoldersRe.FindStringSubmatch(line); m != nil {
					c13StressHolders, _ = strconv.Atoi(m[1])
				}
				c13Stress(t, out, r, a, b, c, d)
				c13StressContinuous, c13StressHolders = false, 0
			}
		}
		return
	}

	// 1. corpus: the interleavings the property names, written out
	corpus := [][2]string{
		{"q:46:ok,r:ok", "s0,s1,g0,g0"},       // reload lands between the two selections
		{"q:46:ok,r:ok", "s0,g0,s1,g0"},       // reload lands after the second selection
		{"q:46:ok,r:ok", "s1,s0"},             // reload first: the request runs on the reloaded selector
		{"q:4:ok,r:ok,q:6:ok", "s0,s1,s2,g0"}, // second request arrives behind a pending reload
		{"q:46:ok,r:ok,r:ok", "s0,s1,g0,s2"},  // two reloads, one after the other
		{"q:46:ok,q:46:ok,r:ok", "s0,s1,g0,s2,g1,g0,g1"},
		{"q:46:sel,r:ok", "s0,s1,g0,g0"},
		{"q:4:sel:d,r:ok", "s0,s1,g0"},
		{"q::early,r:ok,q::ok", "s0,s1,s2"},
		{"q:46:ok,r:early,r:ok", "s0,s1,g0,s2,g0"},
		{"q:46:late,r:ok", "s0,s1,g0,g0"},
		// the publishing lock: a failed send must not keep later registrations from being published
		{"q:46:late:zf,q:46:ok,r:ok", "s0,g0,g0,s1,s2,g1,g1"},
		{"u:late:zf,u:ok,q:4:ok", "s0,s1,s2,g2"},
		{"q:4:late:zf,u:ok,r:ok,u:early:short", "s0,s2,g0,s1,s3"},
		// critical sections kept open by the stand-ins: a request arrives while the write lock is held (the swap
		// window of a reload) - it waits and is answered; a request arrives while a real reload waits for the
		// write lock behind a read section - it waits behind the reload and is answered from the new set; a
		// reload arrives while a read section is open - it waits and completes
		{"w:hold,q:46:ok", "s0,s1,g0,g1,g1"},
		{"w:hold,q:4:ok,q:6:ok,r:ok", "s0,s1,s2,s3,g0"},
		{"h:read,r:ok,q:46:ok", "s0,s1,s2,g0"},
		{"h:read,r:ok,q:4:ok,u:ok", "s0,s1,s2,s3,g0,g2"},
		{"h:read,r:ok", "s0,s1,g0"},
		{"h:read,q:46:ok,r:ok", "s0,s1,g1,s2,g1,g0"},
		{"w:hold,h:read,q:6:ok", "s0,s1,s2,g0,g1"},
	}
	for _, c := range corpus {
		specs := strings.Split(c[0], ",")
		events := strings.Split(c[1], ",")
		res, err := c13Run(specs, events, true)
		if err != nil {
			t.Fatalf("corpus scenario %v: %v", c, err)
		}
		c13Report(out, specs, events, res)
		out.Count("gen:corpus")
	}

	// 2. exhaustive: every maximal event sequence of small thread sets
	reqSpecs := []string{}
	for _, k := range c13Kinds {
		reqSpecs = append(reqSpecs, k.spec())
	}
	var sets [][]string
	for _, a := range reqSpecs {
		sets = append(sets, []string{a, "r:ok"})
	}
	for _, a := range reqSpecs[:4] {
		sets = append(sets, []string{a, "r:ok", "r:ok"}, []string{a, "r:early", "r:ok"})
		for _, b := range reqSpecs[:6] {
			sets = append(sets, []string{a, b, "r:ok"})
		}
	}
	// a registration whose send fails, next to registrations that publish afterwards
	for _, a := range []string{"q:46:late:zf", "q:4:late:zf", "u:late:zf"} {
		for _, b := range []string{"q:46:ok", "q:4:ok", "u:ok"} {
			sets = append(sets, []string{a, b, "r:ok"})
		}
	}
	// every kind of request against an open write section, and behind a real reload that waits for an open
	// read section; reloads against open sections of either kind
	for _, a := range reqSpecs {
		sets = append(sets, []string{"w:hold", a}, []string{"h:read", "r:ok", a})
	}
	sets = append(sets, []string{"h:read", "r:ok"}, []string{"w:hold", "r:ok"}, []string{"h:read", "r:early", "q:4:ok"},
		[]string{"w:hold", "q:46:ok", "q:4:ok"}, []string{"w:hold", "q:46:ok", "r:ok"}, []string{"h:read", "w:hold", "q:46:ok"})
	if vlib.Tier() == "thorough" {
		for _, a := range reqSpecs[:4] {
			for _, b := range reqSpecs[:4] {
				sets = append(sets, []string{"w:hold", a, b, "r:ok"}, []string{"h:read", "r:ok", a, b})
			}
		}
		for _, a := range reqSpecs[:3] {
			for _, b := range reqSpecs[:5] {
				sets = append(sets, []string{a, b, "r:ok", "r:ok"})
			}
		}
		sets = append(sets, []string{"q:46:ok", "q:46:ok", "q:4:ok", "r:ok"}, []string{"q:46:ok", "q:4:ok", "q:6:ok", "r:ok"},
			[]string{"q:46:late:zf", "u:late:zf", "q:46:ok", "r:ok"})
	}
	budget := vlib.Budget(4000, 60000)
	for _, set := range sets {
		nd := 0
		complete := c13Explore(t, out, set, nil, &budget, &nd)
		out.Count("gen:exhaustive-sets")
		if complete {
			// the whole interleaving space of this thread set was run on the real processor:
			// compare "is there a deadlock" with the model's search over all fine-grained schedules
			ans := "none"
			if nd > 0 {
				ans = "deadlock"
			}
			out.Case("rwfind|"+strings.Join(set, ","), ans, true)
			out.Count("gen:exhaustive-sets-complete")
		}
		// model-guided: the Lean search's deadlocking event sequence (if any) replayed on the real processor
		if ans, ok := c13AskModel(set); ok && strings.HasPrefix(ans, "deadlock:") && c13Deadlocks < 40 {
			events := strings.Split(strings.TrimPrefix(ans, "deadlock:"), ".")
			res, err := c13Run(set, events, true)
			if err == nil {
				c13Report(out, set, events, res)
				out.Count("gen:model-guided")
			} else {
				out.Note("model-guided sequence not applicable on the implementation: " + c13Line(set, events) + ": " + err.Error())
			}
		}
		// … and the event sequence after which, in the model, a failed Try* acquisition has turned a thread away
		if ans, ok := c13AskDriver("rwrefuse", set); ok && strings.HasPrefix(ans, "refused:") {
			events := strings.Split(strings.TrimPrefix(ans, "refused:"), ".")
			res, err := c13Run(set, events, true)
			if err == nil {
				c13Report(out, set, events, res)
				out.Count("gen:model-guided-refusal")
			} else {
				out.Note("model-guided sequence not applicable on the implementation: " + c13Line(set, events) + ": " + err.Error())
			}
		}
	}

	// 3. random prefixes of larger thread sets, then drain
	nRand := vlib.Budget(150, 3000)
	for n := 0; n < nRand && c13Deadlocks < 40; n++ {
		var specs []string
		nq := r.Range(2, 5)
		for i := 0; i < nq; i++ {
			if r.Chance(1, 2) {
				specs = append(specs, "q:46:ok")
			} else {
				specs = append(specs, reqSpecs[r.Intn(len(reqSpecs))])
			}
		}
		nr := r.Range(1, 3)
		for i := 0; i < nr; i++ {
			if r.Chance(1, 6) {
				specs = append(specs, "r:early")
			} else {
				specs = append(specs, "r:ok")
			}
		}
		if r.Chance(1, 2) {
			specs = append(specs, []string{"w:hold", "h:read"}[r.Intn(2)])
			if r.Chance(1, 4) {
				specs = append(specs, []string{"w:hold", "h:read"}[r.Intn(2)])
			}
		}
		// shuffle positions so that reloads are not always last
		for i := len(specs) - 1; i > 0; i-- {
			j := r.Intn(i + 1)
			specs[i], specs[j] = specs[j], specs[i]
		}
		var events []string
		steps := r.Range(1, 14)
		for s := 0; s < steps; s++ {
			probe, err := c13Run(specs, events, false)
			if err != nil {
				t.Fatalf("scenario %s: %v", c13Line(specs, events), err)
			}
			if len(probe.enabled) == 0 {
				break
			}
			events = append(events, probe.enabled[r.Intn(len(probe.enabled))])
		}
		res, err := c13Run(specs, events, true)
		if err != nil {
			t.Fatalf("scenario %s: %v", c13Line(specs, events), err)
		}
		c13Report(out, specs, events, res)
		out.Count("gen:random")
	}

	// 4. stress
	rounds := vlib.Budget(3, 40)
	for i := 0; i < rounds && c13Deadlocks < 40; i++ {
		c13StressHolders = []int{0, 1, 2}[i%3]
		c13Stress(t, out, r, r.Range(4, 24), r.Range(20, 120), r.Range(20, 200), r.Range(1, 3))
		c13StressHolders = 0
	}
	// Continuous reload stress: lock windows that no gate can reach — e.g. between two acquisitions before
	// the first selection — only open under real concurrency, so the processor is hammered with
	// back-to-back reloads while the request goroutines keep going. Part of the thorough tier, and of the
	// targeted search (a proof obligation or the correspondence broke and nothing failed so far). The
	// verdict is the same settled-state check as above (one stop-the-world dump in which every live
	// goroutine waits for a lock of the processor), never a wall-clock bound.
	cont := 0
	if vlib.Tier() == "thorough" {
		cont = 10
	}
	if os.Getenv("VERIF_SEARCH") == "1" {
		cont = 12
	}
	if cont > 0 {
		c13StressContinuous = true
		for i := 0; i < cont && c13Deadlocks == 0; i++ {
			c13StressHolders = i % 2
			c13Stress(t, out, r, r.Range(10, 24), r.Range(50, 200), 1500, r.Range(1, 2))
			c13StressHolders = 0
			out.Count("gen:continuous-stress")
		}
		c13StressContinuous = false
	}
	{
		// what the model says about the extracted programs: a fine-grained deadlocking schedule, if there is one
		for _, set := range [][]string{{"q:46:ok", "r:ok"}, {"q:4:ok", "r:ok"}, {"q:46:sel", "r:ok"}, {"q:4:sel", "r:ok"}, {"q:46:late", "r:ok"}} {
			if ans, ok := c13AskDriver("rwsched", set); ok && strings.HasPrefix(ans, "deadlock:") {
				out.Note("model (Model.RW.findDeadlock over the extracted programs): threads " + strings.Join(set, ",") + " deadlock under the fine-grained schedule " + strings.TrimPrefix(ans, "deadlock:") + " (thread index per step)")
			}
			if ans, ok := c13AskDriver("rwrefsched", set); ok && strings.HasPrefix(ans, "refused:") {
				out.Note("model (Model.RW.findRefusal over the extracted programs): of the threads " + strings.Join(set, ",") + " one is turned away by a failed Try* acquisition under the fine-grained schedule " + strings.TrimPrefix(ans, "refused:") + " (thread index per step)")
			}
		}
	}
	out.Note(fmt.Sprintf("deterministic scenarios are settled by goroutine dumps (no timeouts in the verdict); gate only on selector version 0; %d deadlock(s) observed", c13Deadlocks))
}
