//go:build verif

package dnsregserver

// C13, the DNS registrar's side of the request path: the real DNSRegServer.processRequest in front of a real
// RegProcessor (no zmq; scripted first selector and sender, real ReloadSubnets and UpdateLatestCCGen for the
// reloads that land inside a selection), against the Lean model CJ/Model/DnsReq.lean (driver line `dnsreq|…`).
//
// Oracle (from the handler's return values, the sender and a recording wrapper around the processor - not from
// the model): every request that decodes gets a payload that decodes as a DnsResponse with Success and
// ClientconfOutdated set; Success iff the processor returned no error iff exactly one registration was published;
// a BidirectionalResponse iff Success and the request went through RegisterBidirectional, with an address for
// exactly the families asked for, all of one subnet set; the flag is the comparison of the client's generation
// with a generation the registrar held during the request (the one before or the one after the reload); a
// request that does not decode gets an error and no payload.

import (
	"bufio"
	"bytes"
	"errors"
	"fmt"
	"io"
	"net"
	"os"
	"path/filepath"
	"strings"
	"testing"
	"time"

	zmq "github.com/pebbe/zmq4"
	"github.com/refraction-networking/conjure/internal/vlib"
	"github.com/refraction-networking/conjure/pkg/metrics"
	"github.com/refraction-networking/conjure/pkg/phantoms"
	"github.com/refraction-networking/conjure/pkg/regserver/regprocessor"
	"github.com/refraction-networking/conjure/pkg/transports/wrapping/min"
	pb "github.com/refraction-networking/conjure/proto"
	log "github.com/sirupsen/logrus"
	"google.golang.org/protobuf/proto"
	"google.golang.org/protobuf/types/known/anypb"
)

var c13dDir string

// subnet file of version k knowing the generations gens; the addresses of version k are 10.<k/256>.<k%256>.x and 2001:db8:<k>::x
func c13dFile(k int, gens []int) string {
	p := filepath.Join(c13dDir, fmt.Sprintf("phantoms_v%d_%s.toml", k, strings.Trim(strings.Replace(fmt.Sprint(gens), " ", "_", -1), "[]")))
	if _, err := os.Stat(p); err == nil {
		return p
	}
	var b strings.Builder
	b.WriteString("[Networks]\n")
	for _, g := range gens {
		fmt.Fprintf(&b, "    [Networks.%d]\n        Generation = %d\n        [[Networks.%d.WeightedSubnets]]\n            Weight = 1\n            Subnets = [\"10.%d.%d.0/24\", \"2001:db8:%x::/64\"]\n",
			g, g, g, k/256, k%256, k)
	}
	if err := os.WriteFile(p, []byte(b.String()), 0o644); err != nil {
		panic(err)
	}
	return p
}

func c13dVer4(a uint32) int { return int(a>>16&0xff)*256 + int(a>>8&0xff) }
func c13dVer6(b []byte) int {
	if len(b) != 16 {
		return -1
	}
	return int(b[4])*256 + int(b[5])
}

type c13dAsk struct {
	v6       bool
	gen, ver int
}

type c13dSel struct {
	ver        int
	gens       map[int]bool
	out4, out6 string
	calls      int
	inCall     func(n int)
	asks       *[]c13dAsk
}

var c13dErrs = map[string]error{
	"other":   errors.New("c13d: scripted selection failure"),
	"missing": phantoms.ErrLegacyMissingAddrs,
	"v0":      phantoms.ErrLegacyV0SelectionBug,
	"addrsel": phantoms.ErrLegacyAddrSelectBug,
}

func (s *c13dSel) Select(seed []byte, gen uint, ver uint, v6 bool) (*phantoms.PhantomIP, error) {
	s.calls++
	*s.asks = append(*s.asks, c13dAsk{v6, int(gen), s.ver})
	if s.inCall != nil {
		s.inCall(s.calls)
	}
	if !s.gens[int(gen)] {
		return nil, fmt.Errorf("c13d: generation %d unknown", gen)
	}
	o := s.out4
	if v6 {
		o = s.out6
	}
	if o != "ok" {
		return nil, c13dErrs[o]
	}
	if v6 {
		return phantoms.IP(net.ParseIP(fmt.Sprintf("2001:db8:%x::7", s.ver)), true), nil
	}
	return phantoms.IP(net.IPv4(10, byte(s.ver/256), byte(s.ver%256), 7), true), nil
}

type c13dSender struct {
	fail bool
	n    int
}

func (s *c13dSender) SendBytes(b []byte, f zmq.Flag) (int, error) {
	if s.fail {
		return 0, errors.New("c13d: scripted send failure")
	}
	s.n++
	return len(b), nil
}
func (s *c13dSender) Close() error { return nil }

type c13dRec struct {
	p       *regprocessor.RegProcessor
	calls   string // one letter per call: b / u
	err     error
	resp    *pb.RegistrationResponse
	after   func()
}

func (c *c13dRec) RegisterUnidirectional(w *pb.C2SWrapper, s pb.RegistrationSource, a []byte) error {
	c.calls += "u"
	c.err = c.p.RegisterUnidirectional(w, s, a)
	if c.after != nil {
		c.after()
	}
	return c.err
}
func (c *c13dRec) RegisterBidirectional(w *pb.C2SWrapper, s pb.RegistrationSource, a []byte) (*pb.RegistrationResponse, error) {
	c.calls += "b"
	r, err := c.p.RegisterBidirectional(w, s, a)
	c.err, c.resp = err, r
	if c.after != nil {
		c.after()
	}
	return r, err
}

type c13dCase struct {
	src        int // RegistrationSource of the wrapper; -1 = field absent
	garbage    int // >0: the request is that many random bytes
	truncate   int // >0: the request is cut to that length
	payload    bool
	gen        int
	v4, v6     bool
	out4, out6 string
	transport  pb.TransportType
	badParams  bool
	secretLen  int
	send       bool
	cc         int    // latestCCGen when the request arrives
	ver        int
	gens       []int
	reload     string // "-", "in1", "in2", "bad1", "after" (the generation alone, after the processor returned)
	newVer     int
	newGens    []int
	newCC      int
}

func c13dGens(r *vlib.Rand) []int {
	var g []int
	for i := 1; i <= 6; i++ {
		if r.Chance(2, 3) {
			g = append(g, i)
		}
	}
	return g
}

var c13dSources = []int{int(pb.RegistrationSource_BidirectionalDNS), int(pb.RegistrationSource_DNS), int(pb.RegistrationSource_Unspecified),
	int(pb.RegistrationSource_API), int(pb.RegistrationSource_BidirectionalAPI), int(pb.RegistrationSource_Detector), -1}

func c13dRandom(r *vlib.Rand, i int) c13dCase {
	c := c13dCase{src: int(pb.RegistrationSource_BidirectionalDNS), payload: true, gen: r.Intn(7),
		v4: r.Chance(3, 4), v6: r.Chance(3, 4), out4: "ok", out6: "ok", transport: pb.TransportType_Min, secretLen: 32,
		send: true, cc: r.Intn(8), ver: 1 + r.Intn(300), reload: "-"}
	if r.Chance(1, 4) {
		c.src = c13dSources[r.Intn(len(c13dSources))]
	}
	c.gens = c13dGens(r)
	c.newGens = c13dGens(r)
	if len(c.newGens) == 0 {
		c.newGens = []int{1 + r.Intn(6)}
	}
	c.newVer = c.ver + 1 + r.Intn(5)
	c.newCC = r.Intn(9)
	outs := []string{"other", "missing", "v0", "addrsel"}
	m := 10
	if i%7 == 0 {
		m = 2
	}
	if r.Chance(1, m) {
		c.garbage = []int{0, 1, 5, 32, 33, 60, 200}[r.Intn(7)]
		if c.garbage == 0 {
			c.truncate = 1 + r.Intn(40)
		}
	}
	if r.Chance(1, m) {
		c.payload = false
	}
	if r.Chance(1, 5) {
		c.out4 = outs[r.Intn(4)]
	}
	if r.Chance(1, 5) {
		c.out6 = outs[r.Intn(4)]
	}
	if r.Chance(1, m) {
		c.transport = []pb.TransportType{pb.TransportType_Obfs4, pb.TransportType_Prefix, pb.TransportType_Null}[r.Intn(3)]
	}
	if r.Chance(1, m) {
		c.badParams = true
	}
	if r.Chance(1, m) {
		c.secretLen = []int{0, 1, 7, 8, 9, 16}[r.Intn(6)]
	}
	if r.Chance(1, m) {
		c.send = false
	}
	if r.Chance(1, 2) {
		c.reload = []string{"in1", "in2", "bad1", "after"}[r.Intn(4)]
	}
	return c
}

// the systematic part: source x families x outcome per family x reload point x client generation x registrar generation
func c13dGrid() []c13dCase {
	var l []c13dCase
	outs := []string{"ok", "other", "missing", "v0", "addrsel"}
	for _, src := range []int{int(pb.RegistrationSource_BidirectionalDNS), int(pb.RegistrationSource_DNS), -1} {
		bidi := src == int(pb.RegistrationSource_BidirectionalDNS)
		for fam := 0; fam < 4; fam++ {
			for _, o4 := range outs {
				for _, o6 := range outs {
					for _, rl := range []string{"-", "in1", "in2", "bad1", "after"} {
						for _, gen := range []int{1, 3, 5} {
							for _, cc := range []int{0, 3} {
								if !bidi && (o4 != "ok" || o6 != "ok" || (rl != "-" && rl != "after") || fam != 3) {
									continue
								}
								l = append(l, c13dCase{src: src, payload: true, gen: gen,
									v4: fam&1 != 0, v6: fam&2 != 0, out4: o4, out6: o6, transport: pb.TransportType_Min, secretLen: 32, send: true,
									cc: cc, ver: 7, gens: []int{1, 3}, reload: rl, newVer: 8, newGens: []int{1, 3, 5}, newCC: 5})
							}
						}
					}
				}
			}
		}
	}
	return l
}

func c13dSnap(v int, g []int) string {
	s := make([]string, len(g))
	for i, x := range g {
		s[i] = fmt.Sprint(x)
	}
	return fmt.Sprintf("%d:%s", v, strings.Join(s, "."))
}

type c13dResult struct {
	line, answer string
	ok           bool
	fails        [][2]string
}

func c13dRun(s *DNSRegServer, m *metrics.Metrics, c c13dCase, seed []byte) (res c13dResult) {
	var asks []c13dAsk
	sel := &c13dSel{ver: c.ver, gens: map[int]bool{}, out4: c.out4, out6: c.out6, asks: &asks}
	for _, g := range c.gens {
		sel.gens[g] = true
	}
	snd := &c13dSender{fail: !c.send}
	p := regprocessor.VerifC13NewProcessor(sel, snd, m)
	if err := p.AddTransport(pb.TransportType_Min, min.Transport{}); err != nil {
		panic(err)
	}
	s.latestCCGen = uint32(c.cc)
	at2v, at2g := c.ver, c.gens
	ccLater := c.cc
	reloadErr := ""
	// a whole reload round as main's SIGHUP handler makes it: the subnets, then the generation
	sel.inCall = func(n int) {
		switch {
		case c.reload == "in1" && n == 1, c.reload == "in2" && n == 2:
			os.Setenv("PHANTOM_SUBNET_LOCATION", c13dFile(c.newVer, c.newGens))
			if err := p.ReloadSubnets(); err != nil {
				reloadErr = err.Error()
			}
			s.UpdateLatestCCGen(uint32(c.newCC))
			ccLater = c.newCC
		case c.reload == "bad1" && n == 1:
			os.Setenv("PHANTOM_SUBNET_LOCATION", filepath.Join(c13dDir, "does-not-exist.toml"))
			if err := p.ReloadSubnets(); err == nil {
				reloadErr = "a reload from a missing file succeeded"
			}
			s.UpdateLatestCCGen(uint32(c.newCC))
			ccLater = c.newCC
		}
	}
	if c.reload == "in1" {
		at2v, at2g = c.newVer, c.newGens
	}
	rec := &c13dRec{p: p}
	if c.reload == "after" {
		ccLater = c.newCC
		rec.after = func() { s.UpdateLatestCCGen(uint32(c.newCC)) }
	}
	s.processor = rec

	// the request
	tr := c.transport
	covert := "192.0.2.99:443"
	w := &pb.C2SWrapper{SharedSecret: seed[:c.secretLen]}
	if c.src >= 0 {
		src := pb.RegistrationSource(c.src)
		w.RegistrationSource = &src
	}
	if c.payload {
		w.RegistrationPayload = &pb.ClientToStation{Transport: &tr, DecoyListGeneration: proto.Uint32(uint32(c.gen)), CovertAddress: &covert,
			V4Support: proto.Bool(c.v4), V6Support: proto.Bool(c.v6), ClientLibVersion: proto.Uint32(4)}
		if c.badParams {
			id := int32(3)
			a, _ := anypb.New(&pb.PrefixTransportParams{PrefixId: &id})
			w.RegistrationPayload.TransportParams = a
		}
	}
	body, _ := proto.Marshal(w)
	if c.garbage > 0 {
		body = append([]byte(nil), seed[32:32+c.garbage]...)
	} else if c.truncate > 0 && c.truncate < len(body) {
		body = body[:c.truncate]
	}
	parsed := &pb.C2SWrapper{}
	decodes := proto.Unmarshal(body, parsed) == nil
	pl := parsed.GetRegistrationPayload()
	hasPayload := decodes && pl != nil
	srcBd := decodes && parsed.GetRegistrationSource() == pb.RegistrationSource_BidirectionalDNS
	_, known := map[pb.TransportType]bool{pb.TransportType_Min: true}[pl.GetTransport()]
	paramsOK := false
	if known {
		_, err := min.Transport{}.ParseParams(uint(pl.GetClientLibVersion()), pl.GetTransportParams())
		paramsOK = err == nil
	}
	res.line = fmt.Sprintf("dnsreq|%s|%s|%s|%d|%s|%s|%s|%s|%s|%s|%d|%s|%d|%d|%s|%s|%s", vlib.B(decodes), vlib.B(srcBd),
		vlib.B(hasPayload), pl.GetDecoyListGeneration(), vlib.B(pl.GetV4Support()), vlib.B(pl.GetV6Support()),
		c.out4, c.out6, vlib.B(known), vlib.B(paramsOK), len(parsed.GetSharedSecret()), vlib.B(c.send), c.cc, ccLater,
		c13dSnap(c.ver, c.gens), c13dSnap(c.ver, c.gens), c13dSnap(at2v, at2g))

	var payload []byte
	var herr error
	panicked := func() (pv any) {
		defer func() { pv = recover() }()
		payload, herr = s.processRequest(body)
		return nil
	}()
	fail := func(sig, what string) { res.fails = append(res.fails, [2]string{sig, what}) }
	if panicked != nil {
		fail("C13:not-answered:dns", fmt.Sprintf("the handler panicked: %v", panicked))
		res.answer = "panic"
		return
	}
	if reloadErr != "" {
		fail("C13:not-answered:reload", "the reload that ran next to the request failed: "+reloadErr)
	}
	got := &pb.DnsResponse{}
	hasResp := herr == nil && payload != nil && proto.Unmarshal(payload, got) == nil
	bd := got.GetBidirectionalResponse()
	v4, v6, gcc := "-", "-", "-"
	if bd != nil {
		if bd.Ipv4Addr != nil {
			v4 = fmt.Sprint(c13dVer4(bd.GetIpv4Addr()))
		}
		if len(bd.Ipv6Addr) > 0 {
			v6 = fmt.Sprint(c13dVer6(bd.Ipv6Addr))
		}
		if bd.ClientConf != nil {
			gcc = fmt.Sprint(bd.ClientConf.GetGeneration())
		}
	}
	var as []string
	for _, a := range asks {
		f := "4"
		if a.v6 {
			f = "6"
		}
		as = append(as, fmt.Sprintf("%s:%d:%d", f, a.gen, a.ver))
	}
	called := rec.calls
	if called == "" {
		called = "-"
	}
	res.answer = fmt.Sprintf("resp=%s success=%s outdated=%s bd=%s v4=%s v6=%s cc=%s called=%s asked=%s sent=%d", vlib.B(hasResp),
		vlib.B(got.GetSuccess()), vlib.B(got.GetClientconfOutdated()), vlib.B(bd != nil), v4, v6, gcc, called, strings.Join(as, ","), snd.n)
	if herr == nil && !hasResp {
		res.answer += " undecodable-payload"
	}
	res.ok = hasResp && got.GetSuccess()

	// ---- the property, from the observations alone
	switch {
	case decodes && !hasResp:
		fail("C13:not-answered:dns", fmt.Sprintf("a request that decodes got no response payload (error %v, %d bytes)", herr, len(payload)))
	case !decodes && (herr == nil || payload != nil):
		fail("C13:partial-response:dns", fmt.Sprintf("a request that does not decode got a payload of %d bytes, error %v", len(payload), herr))
	}
	if !hasResp {
		if rec.calls != "" || snd.n != 0 {
			fail("C13:answer-and-registration-differ", fmt.Sprintf("no response, but the processor was called (%q) and %d registrations were published", rec.calls, snd.n))
		}
		return
	}
	if got.Success == nil || got.ClientconfOutdated == nil {
		fail("C13:partial-response:dns", fmt.Sprintf("a response without Success / ClientconfOutdated: %v", got))
	}
	if len(rec.calls) != 1 {
		fail("C13:answer-and-registration-differ", fmt.Sprintf("the processor was called %d times for one request (%q)", len(rec.calls), rec.calls))
	} else if got.GetSuccess() != (rec.err == nil) {
		fail("C13:success-status-on-error", fmt.Sprintf("Success=%v although the processor returned error %v", got.GetSuccess(), rec.err))
	}
	if got.GetSuccess() != (snd.n == 1) || snd.n > 1 {
		fail("C13:answer-and-registration-differ", fmt.Sprintf("Success=%v but %d registrations were published to the stations", got.GetSuccess(), snd.n))
	}
	if (bd != nil) != (got.GetSuccess() && rec.calls == "b") {
		fail("C13:partial-response:dns", fmt.Sprintf("Success=%v, processor calls %q, BidirectionalResponse present: %v", got.GetSuccess(), rec.calls, bd != nil))
	}
	if (rec.calls == "b") != srcBd {
		fail("C13:partial-response:dns", fmt.Sprintf("a request with source %v went through %q", parsed.GetRegistrationSource(), rec.calls))
	}
	if bd != nil {
		if (bd.Ipv4Addr != nil) != pl.GetV4Support() || (len(bd.Ipv6Addr) > 0) != pl.GetV6Support() {
			fail("C13:partial-response:dns", fmt.Sprintf("the client supports v4=%v v6=%v, the response has v4=%s v6=%s", pl.GetV4Support(), pl.GetV6Support(), v4, v6))
		}
		if v4 != "-" && v6 != "-" && v4 != v6 {
			fail("C13:mixed-versions", fmt.Sprintf("one response with an IPv4 phantom of subnet set %s and an IPv6 phantom of subnet set %s", v4, v6))
		}
	}
	cg := int(pl.GetDecoyListGeneration())
	if od := got.GetClientconfOutdated(); od != (cg < c.cc) && od != (cg < ccLater) {
		fail("C13:outdated-flag-wrong", fmt.Sprintf("client generation %d, registrar generation %d (then %d), ClientconfOutdated=%v", cg, c.cc, ccLater, od))
	}
	return
}

type c13dPlain c13dCase

func (c c13dCase) String() string { return fmt.Sprintf("%+v", c13dPlain(c)) }

func TestVerifC13DNS(t *testing.T) {
	out := vlib.Open("C13D")
	defer out.Close()
	var err error
	c13dDir, err = os.MkdirTemp("", "verif-c13d-")
	if err != nil {
		t.Fatal(err)
	}
	defer os.RemoveAll(c13dDir)
	keep := os.Getenv("PHANTOM_SUBNET_LOCATION")
	defer os.Setenv("PHANTOM_SUBNET_LOCATION", keep)
	lg := log.New()
	lg.SetOutput(io.Discard)
	m := metrics.NewMetrics(log.NewEntry(lg), 24*time.Hour)
	s := &DNSRegServer{logger: lg, metrics: m}

	only := map[int]bool{}
	if rp := vlib.Replay(); rp != "" {
		f, err := os.Open(rp)
		if err != nil {
			t.Fatal(err)
		}
		defer f.Close()
		scn := bufio.NewScanner(f)
		scn.Buffer(make([]byte, 1<<20), 1<<20)
		for scn.Scan() {
			var seed int64
			var n int
			if k, _ := fmt.Sscanf(scn.Text(), "c13d|seed=%d|n=%d|", &seed, &n); k == 2 {
				os.Setenv("VERIF_SEED", fmt.Sprint(seed))
				only[n] = true
			}
		}
		if len(only) == 0 {
			return
		}
	}
	grid := c13dGrid()
	N := len(grid) + vlib.Budget(5000, 50000)
	for i := 0; i < N; i++ {
		if len(only) > 0 && !only[i] {
			continue
		}
		r := vlib.NewRand(fmt.Sprintf("C13D/%d", i))
		var c c13dCase
		if i < len(grid) {
			c = grid[i]
		} else {
			c = c13dRandom(r, i)
		}
		res := c13dRun(s, m, c, r.Bytes(300))
		out.Case(res.line, res.answer, res.ok)
		out.Checked()
		f := strings.Fields(res.answer)
		if len(f) > 7 {
			out.Count("c13d:" + f[0] + ":" + f[1] + ":" + f[2] + ":" + f[7])
		}
		out.Count("c13d:reload:" + c.reload)
		out.Count(fmt.Sprintf("c13d:source:%d", c.src))
		out.Count("c13d:sel:" + c.out4 + "/" + c.out6)
		if len(only) > 0 {
			fmt.Printf("REPLAY c13d #%d: %s\n  case   %s\n  answer %s\n", i, c, res.line, res.answer)
		}
		for _, fl := range res.fails {
			if len(only) > 0 {
				fmt.Printf("  ORACLE %s: %s\n", fl[0], fl[1])
			}
			out.OracleFail(fl[0], "DNS registrar: "+fl[1]+" ["+res.line+"]", fmt.Sprintf("c13d|seed=%d|n=%d|%s", vlib.Seed(), i, res.line))
		}
	}
	_ = bytes.Equal
}
