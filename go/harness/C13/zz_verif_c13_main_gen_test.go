//go:build verif

package main

// C13 main() harness, part 3: the parent - scenario generation, child processes, reporting.

import (
	"bufio"
	"encoding/json"
	"fmt"
	"os"
	"os/exec"
	"path/filepath"
	"sort"
	"strings"
	"sync"
	"testing"
	"time"

	"github.com/refraction-networking/conjure/internal/vlib"
)

var (
	c13mEntries = []string{"a", "u", "d", "e"}
	c13mFams    = []string{"46", "4", "6"}
	// generations a client may claim: below every ClientConf generation (and in every subnet file), the
	// ClientConf generations the scenarios move between, above every ClientConf generation (and in every
	// subnet file), in no subnet file at all
	c13mGens = []int{90, 100, 101, 102, 9000, 7777}
)

func c13mAllKinds() []string {
	var ks []string
	for _, e := range c13mEntries {
		for _, f := range c13mFams {
			for _, g := range c13mGens {
				ks = append(ks, fmt.Sprintf("%s%sg%d", e, f, g))
			}
		}
	}
	return ks
}

// reload kinds: the files of one reload, as the F event spells them (without gates)
var c13mReloads = []struct{ name, files string }{
	{"valid", "v%d.100/g100/ok"},
	{"valid-new-generation", "v%d.100.101/g101/ok"},
	{"valid-new-generation-old-dropped", "v%d.101/g101/ok"},
	{"valid-subnets-ahead", "v%d.100.101/g100/ok"},
	{"valid-clientconf-ahead", "v%d.100/g101/ok"},
	{"subnets-malformed", "bad/g100/ok"},
	{"subnets-malformed-new-generation", "bad/g101/ok"},
	{"subnets-missing", "none/g100/ok"},
	{"subnets-directory", "dir/g101/ok"},
	{"clientconf-malformed", "v%d.100.101/bad/ok"},
	{"clientconf-missing", "v%d.100/none/ok"},
	{"configuration-malformed", "v%d.100.101/g101/bad"},
	{"unchanged", "same/same/ok"},
}

func c13mFilesOf(i, ver int, gates string) string {
	f := c13mReloads[i].files
	if strings.Contains(f, "%d") {
		f = fmt.Sprintf(f, ver)
	}
	// a pipe gate needs a file that is read: no `s` gate on a missing file or a directory
	if strings.HasPrefix(f, "none/") || strings.HasPrefix(f, "dir/") {
		gates = strings.ReplaceAll(gates, "s", "")
	}
	if strings.Contains(f, "/none/") {
		gates = strings.ReplaceAll(gates, "k", "")
	}
	if gates != "" {
		f += "/" + gates
	}
	return "F:" + f
}

type c13mGen struct {
	r     *vlib.Rand
	kinds []string
	next  int // rotating cursor over the kinds, so that the enumerated scenarios cover all of them
	qid   int
}

func (g *c13mGen) kind() string {
	k := g.kinds[g.next%len(g.kinds)]
	g.next += 7 // coprime to the number of kinds (72)
	return k
}

func (g *c13mGen) q(kind string) string {
	g.qid++
	return fmt.Sprintf("Q%d:%s", g.qid, kind)
}

// requests sent at one point of a scenario: the kinds the property names (dual stack, outdated / current
// client through the API) plus n from the rotation
func (g *c13mGen) burst(n int, always ...string) []string {
	var evs []string
	for _, k := range always {
		evs = append(evs, g.q(k))
	}
	for i := 0; i < n; i++ {
		evs = append(evs, g.q(g.kind()))
	}
	return evs
}

// one reload with the given gates and requests at every gate and after the last one
func (g *c13mGen) reload(i, ver int, gates string, n int) []string {
	evs := []string{c13mFilesOf(i, ver, gates), "H"}
	for _, gt := range []string{"c", "k", "s"} {
		if strings.Contains(gates, gt) {
			evs = append(evs, g.burst(n, "a46g90", "a46g100")...)
			evs = append(evs, "G"+gt)
		}
	}
	return append(evs, g.burst(n)...)
}

func c13mLine(evs []string) string { return "main|" + strings.Join(evs, ";") }

func c13mCorpus() []string {
	return []string{
		// a reload held at each of its three files, registrations at every stop
		"main|F:v1.100/g100/ok/cks;H;Q1:a46g100;Q2:d46g100;Gc;Q3:a4g90;Q4:u4g100;Gk;Q5:a6g9000;Q6:e4g100;Gs;Q7:a46g100",
		// a new ClientConf generation arrives together with its subnets; outdated and current clients while the subnet file is being read
		"main|F:v1.100.101/g101/ok/s;H;Q1:a46g90;Q2:a4g100;Q3:a6g100;Q4:a46g101;Q5:d46g100;Q6:d46g90;Gs;Q7:a46g90;Q8:a46g100",
		"main|F:v1.100.101/g101/ok/ks;H;Q1:a46g90;Gk;Q2:a46g90;Q3:a4g100;Gs;Q4:a6g90",
		// the same step by step, twice in a row
		"main|F:v1.100.101/g101/ok/s;H;Q1:a46g100;Gs;F:v2.100.101.102/g102/ok/s;H;Q2:a46g100;Q3:a46g101;Q4:a4g90;Gs;Q5:a46g101",
		// a refused reload, then a corrected one: every way a reload can be refused
		"main|F:bad/g100/ok;H;Q1:a46g100;F:v2.100/g100/ok;H;Q2:a46g100",
		"main|F:none/g100/ok;H;Q1:a46g100;F:v2.100/g100/ok;H;Q2:a46g100",
		"main|F:dir/g100/ok;H;Q1:d46g100;F:v2.100/g100/ok;H;Q2:d46g100",
		"main|F:v1.100/bad/ok;H;Q1:a46g100;F:v2.100/g100/ok;H;Q2:a46g100",
		"main|F:v1.100/none/ok;H;Q1:a46g100;F:v2.100/g100/ok;H;Q2:a46g100",
		"main|F:v1.100/g100/bad;H;Q1:a46g100;F:v2.100/g100/ok;H;Q2:a46g100",
		"main|F:bad/g101/ok/s;H;Q1:a46g90;Q2:a46g100;Gs;Q3:a46g100;F:bad/g100/ok;H;F:v3.100/g100/ok;H;Q4:a4g100",
		"main|F:bad/g100/ok;H;F:none/g100/ok;H;F:v1.100/bad/ok;H;F:v2.100/g100/ok;H;Q1:a46g100",
		// a request held at each of its log lines while a reload with a new ClientConf arrives
		"main|P1:a46g90@1;F:v1.100.101/g101/ok;H;Q2:a46g100;Q3:d4g100;L1",
		"main|P1:a46g90@2;F:v1.100.101/g101/ok;H;Q2:a46g100;Q3:d4g100;L1;Q4:a46g90",
		"main|P1:a46g90@3;F:v1.100.101/g101/ok;H;Q2:a46g100;Q3:d4g100;L1",
		"main|P1:a46g100@2;F:v1.100/g100/ok;H;L1;Q2:a46g100",
		"main|P1:a46g9000@2;F:v1.100.101/g101/ok;H;L1",
		"main|P1:a46g90@2;P2:a4g100@2;F:v1.100.101/g101/ok;H;L2;L1",
		"main|P1:d46g100@1;F:v1.100/g101/ok;H;Q2:d46g100;L1",
		"main|P1:u4g100@1;F:v1.100.101/g101/ok;H;L1",
		// two reloads while a request is held outside every lock
		"main|P1:a46g100@1;F:v1.100/g100/ok;H;F:v2.100/g100/ok;H;L1",
		"main|P1:a46g100@3;F:v1.100/g100/ok;H;F:bad/g100/ok;H;L1",
		// a held request and a held reload
		"main|P1:a46g90@2;F:v1.100.101/g101/ok/s;H;Q2:a46g90;Gs;L1;Q3:a4g90",
		"main|F:v1.100.101/g101/ok/s;H;P1:a46g90@2;Gs;Q2:a6g100;L1",
		"main|P1:a46g90@2;F:bad/g101/ok;H;L1;Q2:a46g100",
		// ungated: requests keep coming while a chain of reloads moves the generation on
		"main|S40:a46g90,a46g100,d46g100,u4g100,a6g9000;F:v1.100.101/g101/ok;H;F:v2.100.101.102/g102/ok;H;F:v3.100.101.102/g102/ok;H",
	}
}

func c13mScenarios(r *vlib.Rand) []string {
	g := &c13mGen{r: r, kinds: c13mAllKinds()}
	lines := c13mCorpus()
	quick := vlib.Tier() != "thorough"
	// every reload kind x gate set, requests at every stop
	gateSets := []string{"", "s", "c", "k", "cks"}
	if quick {
		gateSets = []string{"s", "cks"}
	}
	for i := range c13mReloads {
		for _, gs := range gateSets {
			g.qid = 0
			lines = append(lines, c13mLine(g.reload(i, 1, gs, 2)))
		}
	}
	// every ordered pair of reload kinds (a history): the second one has to behave as if it were the first
	for i := range c13mReloads {
		for j := range c13mReloads {
			if quick && (i+2*j)%5 != 0 {
				continue
			}
			g.qid = 0
			evs := append(g.reload(i, 1, "", 1), g.reload(j, 2, "s", 1)...)
			lines = append(lines, c13mLine(evs))
		}
	}
	// a request held at its j-th log line x reload kind
	parkKinds := []string{"a46g90", "a46g100", "a4g9000", "a6g7777", "u46g100", "d46g100", "e6g90"}
	for pi, pk := range parkKinds {
		for at := 1; at <= 3; at++ {
			for i := range c13mReloads {
				if quick && (pi+at+i)%4 != 0 {
					continue
				}
				g.qid = 1
				evs := []string{fmt.Sprintf("P1:%s@%d", pk, at)}
				evs = append(evs, g.reload(i, 1, []string{"", "s"}[(pi+at+i)%2], 1)...)
				evs = append(evs, "L1")
				evs = append(evs, g.burst(1, "a46g90")...)
				lines = append(lines, c13mLine(evs))
			}
		}
	}
	// random histories
	n := vlib.Budget(40, 700)
	for s := 0; s < n; s++ {
		g.qid = 0
		var evs []string
		var parked []string
		nrel := r.Range(1, 4)
		for k := 0; k < nrel; k++ {
			if r.Chance(1, 3) && len(parked) < 2 {
				g.qid++
				id := fmt.Sprint(g.qid)
				evs = append(evs, fmt.Sprintf("P%s:%s@%d", id, g.kinds[r.Intn(len(g.kinds))], r.Range(1, 3)))
				parked = append(parked, id)
			}
			gates := ""
			for _, gt := range []string{"c", "k", "s"} {
				if r.Chance(1, 3) {
					gates += gt
				}
			}
			var i int
			if r.Chance(1, 2) {
				i = r.Intn(5) // valid ones
			} else {
				i = r.Intn(len(c13mReloads))
			}
			evs = append(evs, g.reload(i, k+1, gates, r.Range(0, 2))...)
			if len(parked) > 0 && r.Chance(1, 2) {
				evs = append(evs, "L"+parked[0])
				parked = parked[1:]
			}
		}
		lines = append(lines, c13mLine(evs))
	}
	// ungated stress over consistent chains (every kind used is answered by every configuration of the chain)
	ns := vlib.Budget(2, 12)
	for s := 0; s < ns; s++ {
		kinds := []string{"a46g90", "a46g100", "d46g100", "u4g100", "a6g9000", "a4g90", "e46g90", "d6g9000"}
		per := r.Range(30, 120)
		evs := []string{fmt.Sprintf("S%d:%s", per, strings.Join(kinds[:r.Range(3, len(kinds))], ","))}
		chain := r.Range(3, 8)
		for k := 1; k <= chain; k++ {
			gen := 100 + (k+1)/2
			if gen > 103 {
				gen = 103
			}
			gens := "100"
			for x := 101; x <= gen; x++ {
				gens += fmt.Sprintf(".%d", x)
			}
			ccg := 100 + k/2
			if ccg > gen {
				ccg = gen
			}
			evs = append(evs, fmt.Sprintf("F:v%d.%s/g%d/ok", k, gens, ccg), "H")
		}
		lines = append(lines, c13mLine(evs))
	}
	return lines
}

// ---------------------------------------------------------------------------------------------
// children

func c13mSpawn(t *testing.T, list string, from int, results chan<- *c13mResult) (last *c13mResult, err error) {
	cmd := exec.Command(os.Args[0], "-test.run", "^TestVerifC13Main$", "-test.v", "-test.timeout", "60m")
	cmd.Env = append(os.Environ(), "C13M_CHILD_LIST="+list, fmt.Sprintf("C13M_CHILD_FROM=%d", from))
	stdout, err := cmd.StdoutPipe()
	if err != nil {
		return nil, err
	}
	var stderr strings.Builder
	cmd.Stderr = &stderr
	if err := cmd.Start(); err != nil {
		return nil, err
	}
	sc := bufio.NewScanner(stdout)
	sc.Buffer(make([]byte, 1<<20), 1<<26)
	var tail []string
	for sc.Scan() {
		line := sc.Text()
		if !strings.HasPrefix(line, "C13M-RESULT\t") {
			if len(tail) < 60 {
				tail = append(tail, line)
			}
			continue
		}
		res := &c13mResult{}
		if err := json.Unmarshal([]byte(strings.TrimPrefix(line, "C13M-RESULT\t")), res); err != nil {
			continue
		}
		last = res
		results <- res
	}
	werr := cmd.Wait()
	if werr != nil {
		return last, fmt.Errorf("%v; output: %s %s", werr, strings.Join(tail, " | "), stderr.String())
	}
	return last, nil
}

// c13mRunList runs the scenarios of lines[lo:hi] in children of one lane; a child whose registrar has become
// unusable (blocked, exited) is replaced for the scenarios that remain.
func c13mRunList(t *testing.T, list string, lines []string, lo, hi int, results chan<- *c13mResult) {
	from := lo
	startFails := 0
	for from < hi {
		// the child runs to the end of the file; lanes are separate files
		last, err := c13mSpawn(t, list, from, results)
		switch {
		case last != nil && last.Idx == -1:
			// the registrar did not start (port taken by somebody else?): try again
			startFails++
			if startFails > 3 {
				results <- &c13mResult{Idx: from, Line: lines[from], Harness: "the registrar did not start: " + last.Harness, Fatal: true}
				return
			}
		case last == nil || (err != nil && !last.Fatal):
			// the child died without reporting the scenario it was running
			idx := from
			if last != nil {
				idx = last.Idx + 1
			}
			if idx >= hi {
				return
			}
			if c13mHarnessCrash(fmt.Sprint(err)) {
				// a panic in the harness's own code is not the registrar's doing
				results <- &c13mResult{Idx: idx, Line: lines[idx], Fatal: true, Harness: fmt.Sprintf("the child process crashed in the harness: %v", err)}
			} else {
				results <- &c13mResult{Idx: idx, Line: lines[idx], Fatal: true, Verdicts: []c13mVerdict{{"C13:registrar-exited",
					fmt.Sprintf("the process of the registrar ended while this scenario was running: %v", err)}}}
			}
			from = idx + 1
		default:
			from = last.Idx + 1
		}
	}
}

// c13mHarnessCrash: the child was killed by a Go panic whose innermost frames are the harness's own
func c13mHarnessCrash(output string) bool {
	i := strings.Index(output, "panic: ")
	if i < 0 {
		return false
	}
	trace := output[i:]
	if j := strings.Index(trace, "\n\n"); j > 0 {
		trace = trace[:j] // the panicking goroutine
	}
	h := strings.Index(trace, "zz_verif_c13_main")
	r := strings.Index(trace, "refraction-networking/conjure/pkg/")
	m := strings.Index(trace, "/main.go:")
	if h < 0 {
		return false
	}
	return (r < 0 || h < r) && (m < 0 || h < m)
}

func c13mReport(out *vlib.Out, res *c13mResult, verbose bool) (harness string) {
	out.Checked()
	out.Count("main:scenarios")
	if res.Ms > 1500 {
		out.Note(fmt.Sprintf("slow scenario (%d ms): %s", res.Ms, res.Line))
	}
	for k, v := range res.Counts {
		for i := 0; i < v && i < 1; i++ {
			out.Count("main:" + k)
		}
		if k == "judged" || k == "probe-rounds" {
			for i := 0; i < v; i++ {
				out.Checked()
			}
		}
	}
	for _, ev := range strings.Split(strings.TrimPrefix(res.Line, "main|"), ";") {
		if ev != "" {
			out.Count("main:event:" + ev[:1])
		}
	}
	for _, c := range res.Cases {
		out.Case(c[0], c[1], strings.HasPrefix(c[1], "ok:"))
		out.Count("main:case:" + strings.Split(c[0], "|")[5])
	}
	for _, v := range res.Verdicts {
		what := v.What
		if res.Dump != "" && strings.HasPrefix(v.Sig, "C13:deadlock") {
			what += " ⏎ " + strings.ReplaceAll(res.Dump, "\n", " ⏎ ")
		}
		out.OracleFail(v.Sig, what, res.Line)
		out.Count("main:verdict:" + v.Sig)
	}
	if verbose {
		fmt.Printf("replay %s\n", res.Line)
		for _, tl := range res.Trace {
			fmt.Println("   ", tl)
		}
		for _, v := range res.Verdicts {
			fmt.Printf("  VERDICT %s: %s\n", v.Sig, v.What)
		}
		if res.Dump != "" {
			fmt.Println(res.Dump)
		}
	}
	return res.Harness
}

func TestVerifC13Main(t *testing.T) {
	if list := os.Getenv("C13M_CHILD_LIST"); list != "" {
		from := 0
		fmt.Sscan(os.Getenv("C13M_CHILD_FROM"), &from)
		c13mChild(list, from)
		return
	}
	out := vlib.Open("C13M")
	defer out.Close()
	r := vlib.NewRand("C13M")
	dir, err := os.MkdirTemp("", "verif-c13m-lists-")
	if err != nil {
		t.Fatal(err)
	}
	defer os.RemoveAll(dir)

	var lines []string
	verbose := false
	if rp := vlib.Replay(); rp != "" {
		data, err := os.ReadFile(rp)
		if err != nil {
			t.Fatal(err)
		}
		for _, l := range strings.Split(string(data), "\n") {
			if l = strings.TrimSpace(l); strings.HasPrefix(l, "main|") {
				lines = append(lines, l)
			}
		}
		verbose = true
		if len(lines) == 0 {
			return
		}
	} else {
		lines = c13mScenarios(r)
	}
	lanes := 3
	if vlib.Tier() == "thorough" {
		lanes = 4
	}
	if verbose || len(lines) < lanes {
		lanes = 1
	}
	// lane l runs the scenarios l, l+lanes, l+2*lanes, … (each lane is a list file of its own)
	results := make(chan *c13mResult, 1024)
	var wg sync.WaitGroup
	laneLines := make([][]string, lanes)
	for i, l := range lines {
		laneLines[i%lanes] = append(laneLines[i%lanes], l)
	}
	for l := 0; l < lanes; l++ {
		list := filepath.Join(dir, fmt.Sprintf("lane%d.txt", l))
		if err := os.WriteFile(list, []byte(strings.Join(laneLines[l], "\n")+"\n"), 0o600); err != nil {
			t.Fatal(err)
		}
		wg.Add(1)
		go func(l int, list string) {
			defer wg.Done()
			c13mRunList(t, list, laneLines[l], 0, len(laneLines[l]), results)
		}(l, list)
	}
	go func() { wg.Wait(); close(results) }()
	t0 := time.Now()
	var harness []string
	n := 0
	for res := range results {
		n++
		if h := c13mReport(out, res, verbose); h != "" {
			harness = append(harness, fmt.Sprintf("%s: %s ⏎ %s", res.Line, h, res.Dump))
		}
	}
	sort.Strings(harness)
	out.Note(fmt.Sprintf("main() harness: %d scenarios of %d in %d lane(s), %.1fs; every scenario starts with a reload to a known configuration, ends with a valid reload that has to take effect, and is judged against probe rounds at its quiescent points", n, len(lines), lanes, time.Since(t0).Seconds()))
	if len(harness) > 0 {
		t.Fatalf("the harness itself failed on %d scenario(s):\n%s", len(harness), strings.Join(harness[:min(len(harness), 5)], "\n"))
	}
	if n < len(lines) {
		fatal := false
		_ = fatal
		out.Note(fmt.Sprintf("%d scenario(s) were not run", len(lines)-n))
	}
}
