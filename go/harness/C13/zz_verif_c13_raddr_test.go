//go:build verif

package apiregserver

// C13, which address a request is attributed to: the real getRemoteAddr against CJ/Model/RemoteAddr.lean (driver
// line `raddr|…`).  Requests are built from a structure the generator keeps (connection address, X-Forwarded-For
// lines, each a list of entries with optional blanks around them); the oracle computes the expected address from
// that structure - the entry a CDN / Caddy setup means (last entry of the last line; the one before it when the
// connection comes from the loopback address and there are several), the connection's address when that entry is
// not an address - and a request whose connection address is valid must never end up without an address (it would
// be refused with 400 however valid it is).  A malformed stream (random ASCII) is compared with the model only.

import (
	"fmt"
	"net"
	"net/http/httptest"
	"os"
	"strings"

	"github.com/refraction-networking/conjure/internal/vlib"
)

var c13rRemotes = []string{"198.51.100.7:4455", "127.0.0.1:99", "[::1]:80", "::1", "127.0.0.1", "bogus", "", ":80",
	"[::ffff:127.0.0.1]:1", "localhost:80", "[2001:db8::9]:1", "203.0.113.5", "198.51.100.7", "127.0.0.2:1", "[::1]", "::1:80", "1.2.3.4:", "[fe80::1%eth0]:5"}
var c13rEntries = []string{"203.0.113.77", "198.51.100.1", "2001:db8::5", "::ffff:10.1.2.3", "127.0.0.1", "::1", "junk", "", "1.2.3", "1.2.3.4:80",
	"[::1]", "fe80::1%eth0", "01.2.3.4", "1.2.3.256", "2001:db8:::5", "0.0.0.0", "::"}
var c13rBlanks = []string{"", "", " ", "  ", "\t", " \t "}

type c13rCase struct {
	remote string
	lines  [][]string // entries per X-Forwarded-For line, blanks included
	raw    []string   // malformed stream: the header lines as they are
}

func c13rGen(r *vlib.Rand, i int) c13rCase {
	c := c13rCase{remote: c13rRemotes[0]}
	if r.Chance(1, 2) {
		c.remote = c13rRemotes[r.Intn(len(c13rRemotes))]
	}
	if i%7 == 0 {
		alphabet := "0123456789.:,, \tabcdef[]%"
		for n := r.Intn(3); n >= 0; n-- {
			b := make([]byte, r.Intn(24))
			for k := range b {
				b[k] = alphabet[r.Intn(len(alphabet))]
			}
			c.raw = append(c.raw, string(b))
		}
		return c
	}
	nl := []int{0, 1, 1, 1, 2, 3}[r.Intn(6)]
	for l := 0; l < nl; l++ {
		var es []string
		for n := []int{1, 1, 2, 2, 3, 4}[r.Intn(6)]; n > 0; n-- {
			e := c13rEntries[r.Intn(3)]
			if r.Chance(1, 3) {
				e = c13rEntries[r.Intn(len(c13rEntries))]
			}
			es = append(es, c13rBlanks[r.Intn(len(c13rBlanks))]+e+c13rBlanks[r.Intn(len(c13rBlanks))])
		}
		c.lines = append(c.lines, es)
	}
	return c
}

func c13rHex(s string) string {
	if s == "" {
		return "-"
	}
	return fmt.Sprintf("%x", s)
}

func c13rIP(ip net.IP) string {
	if ip == nil {
		return "nil"
	}
	return fmt.Sprintf("%x", []byte(ip.To16()))
}

func c13aAddrCases(out *vlib.Out) {
	N := vlib.Budget(4000, 40000)
	only := -1
	if rp := vlib.Replay(); rp != "" {
		only = -2
		data, _ := os.ReadFile(rp)
		for _, ln := range strings.Split(string(data), "\n") {
			var seed int64
			var n int
			if k, _ := fmt.Sscanf(ln, "c13r|seed=%d|n=%d|", &seed, &n); k == 2 {
				only = n
				os.Setenv("VERIF_SEED", fmt.Sprint(seed))
			}
		}
		if only == -2 {
			return
		}
	}
	for i := 0; i < N; i++ {
		if only >= 0 && i != only {
			continue
		}
		r := vlib.NewRand(fmt.Sprintf("C13R/%d", i))
		c := c13rGen(r, i)
		values := c.raw
		for _, es := range c.lines {
			values = append(values, strings.Join(es, ","))
		}
		req := httptest.NewRequest("POST", "/register", nil)
		req.RemoteAddr = c.remote
		for _, v := range values {
			req.Header.Add("X-Forwarded-For", v)
		}
		var got net.IP
		panicked := func() (pv any) {
			defer func() { pv = recover() }()
			got = getRemoteAddr(req)
			return nil
		}()
		hv := make([]string, len(values))
		for k, v := range values {
			hv[k] = c13rHex(v)
			if v == "" {
				hv[k] = ""
			}
		}
		vs := strings.Join(hv, ",")
		if len(values) == 0 {
			vs = "-"
		}
		line := fmt.Sprintf("raddr|%s|%s", c13rHex(c.remote), vs)
		replay := fmt.Sprintf("c13r|seed=%d|n=%d|%s", vlib.Seed(), i, line)
		if panicked != nil {
			out.Case(line, "panic", true)
			out.OracleFail("C13:not-answered:api", fmt.Sprintf("getRemoteAddr panicked on %q / %q: %v", c.remote, values, panicked), replay)
			continue
		}
		out.Case(line, c13rIP(got), got != nil)
		out.Checked()

		// ---- the expected address, from the generator's structure
		host := c.remote
		if h, _, err := net.SplitHostPort(c.remote); err == nil && h != "" {
			host = h
		}
		conn := net.ParseIP(host)
		out.Count(fmt.Sprintf("c13r:conn-valid=%v:lines=%d:raw=%v:addr=%v", conn != nil, len(values), c.raw != nil, got != nil))
		if conn != nil && got == nil {
			out.OracleFail("C13:client-address-wrong", fmt.Sprintf("connection address %q is valid, but the request is left without an address (headers %q)", c.remote, values), replay)
		}
		if c.raw != nil {
			continue
		}
		want := conn
		if len(c.lines) > 0 {
			es := c.lines[len(c.lines)-1]
			e := es[len(es)-1]
			if len(es) > 1 && conn != nil && conn.IsLoopback() && (conn.Equal(net.IPv4(127, 0, 0, 1)) || conn.Equal(net.IPv6loopback)) {
				e = es[len(es)-2]
			}
			if ip := net.ParseIP(strings.Trim(e, " \t")); ip != nil {
				want = ip
			}
		}
		if !want.Equal(got) && !(want == nil && got == nil) {
			out.OracleFail("C13:client-address-wrong", fmt.Sprintf("connection %q, X-Forwarded-For lines %q: the request is attributed to %v, the entry meant is %v", c.remote, values, got, want), replay)
		}
		if only >= 0 {
			fmt.Printf("REPLAY c13r #%d: remote %q lines %q -> %v (expected %v)\n", i, c.remote, values, got, want)
		}
	}
}
