//go:build verif

package main

// C13 main() harness, part 2: the child process - one registrar, scenarios run one after the other.

import (
	"bufio"
	"encoding/json"
	"fmt"
	"io"
	"net"
	"os"
	"path/filepath"
	"runtime"
	"sort"
	"strconv"
	"strings"
	"syscall"
	"time"

	"github.com/refraction-networking/conjure/pkg/registrars/dns-registrar/encryption"
	"github.com/refraction-networking/conjure/pkg/registrars/dns-registrar/requester"
	pb "github.com/refraction-networking/conjure/proto"
	log "github.com/sirupsen/logrus"
	"google.golang.org/protobuf/proto"
)

type c13mVerdict struct {
	Sig  string `json:"sig"`
	What string `json:"what"`
}

type c13mResult struct {
	Idx      int            `json:"idx"`
	Line     string         `json:"line"`
	Verdicts []c13mVerdict  `json:"verdicts"`
	Counts   map[string]int `json:"counts"`
	Fatal    bool           `json:"fatal"`   // the registrar of this child cannot be used any further
	Harness  string         `json:"harness"` // the harness itself failed (never an oracle failure)
	Dump     string         `json:"dump"`
	Trace    []string       `json:"trace"`
	Ms       int64          `json:"ms"`
	Cases    [][2]string    `json:"cases"` // correspondence cases: line for the Lean driver, what the registrar answered
}

// c13mLimit only guards the harness against hanging for ever (a run that does not settle is a harness
// failure, never an oracle failure); c13mHupLimit is the one bound that enters a verdict: an idle SIGHUP
// goroutine that has not picked up a delivered signal for this long never will.
const (
	c13mLimit    = 5 * time.Minute
	c13mHupLimit = 90 * time.Second
)

const c13mEffectNew, c13mEffectOld = "a46g9000", "a46g90"

type c13mFiles struct {
	sub, cc, conf, gates string
}

// c13mCfg: a configuration of the registrar as far as the answers depend on it
type c13mCfg struct {
	ver  int
	gens []int
	cc   int
}

// c13mPredict: what the registrar answers to a request kind under a configuration - the harness's own account
// of the documented behaviour (the API registrar replaces the generation of an outdated client by that of its
// ClientConf; a generation has to be in the subnet file), checked against every probe round.
func c13mPredict(k c13mKind, c c13mCfg) string {
	in := func(g int) bool {
		if g == c13mGenOld || g == c13mGenFuture {
			return true
		}
		for _, x := range c.gens {
			if x == g {
				return true
			}
		}
		return false
	}
	addrs := func() string {
		var f []string
		if k.v4 {
			f = append(f, fmt.Sprintf("4=%d", c.ver))
		}
		if k.v6 {
			f = append(f, fmt.Sprintf("6=%d", c.ver))
		}
		return "ok:" + strings.Join(f, ".")
	}
	switch k.entry {
	case 'a':
		g := int(k.gen)
		if g < c.cc {
			g = c.cc
		}
		if in(g) {
			return addrs()
		}
		return "fail"
	case 'd':
		if in(int(k.gen)) {
			return addrs()
		}
		return "fail"
	}
	return "ok"
}

type c13mRun struct {
	e      *c13mEnv
	res    *c13mResult
	reqs   map[string]*c13mReq
	all    []*c13mReq
	kinds  []string
	probes []map[string]string
	full   []map[string]string
	vers   [][]int // versions installed by valid reloads, per probe window (index = number of probes done when the reload started)
	// the configuration a reload passes through between its two steps - the new subnet set with the ClientConf
	// generation that was in force before -, per probe window
	mid     [][]c13mCfg
	gensOf  map[int][]int // version of a subnet file -> its generations
	ccMeas  int           // ClientConf generation in force, as the last probe round measured it (-1: unknown)
	curGens []int

	next                  c13mFiles
	conf, cc, sub         *c13mFeeder
	hupPending            bool
	hupAt                 time.Time
	inFlight              bool
	curValid              bool
	curVer, curCC         int
	expVer, expCC         int
	needProbe             bool
	subOnDisk, ccOnDisk   bool // the regular files hold valid content
	lastSub               string
	lastSubVer, lastCCGen int
	stress                int // live stress workers
	stressDone            chan struct{}
	stopped               bool
	wake                  chan struct{} // a request has been answered
	// correspondence with the reload goroutine's model (scenarios without parked requests and stress only)
	noCases bool
	measVer int       // version of the subnet file in force, as the last probe round measured it (-1: unknown)
	ctx     *c13mCtx  // the reload in flight (or the last one completed, until the probe round after it)
	ctxDone bool
}

// c13mCtx: a reload as the model sees it - the configuration it started from (measured) and what it brings
type c13mCtx struct {
	oldVer, oldCC  int
	oldGens        []int
	subOK, ccOK    bool
	newVer, newCC  int
	newGens        []int
}

func c13mGensText(g []int) string {
	all := append([]int{c13mGenOld, c13mGenFuture}, g...)
	sort.Ints(all)
	var f []string
	for i, x := range all {
		if i > 0 && all[i-1] == x {
			continue
		}
		f = append(f, strconv.Itoa(x))
	}
	return strings.Join(f, ".")
}

// caseLine: the line for the Lean driver and the canonical form of the answer ("" = not expressible)
func (c *c13mCtx) caseLine(phase string, k c13mKind, judged string) (string, string) {
	if c == nil || c.oldVer < 0 || c.oldCC < 0 || (c.subOK && c.ccOK && c.newVer == c.oldVer) {
		return "", ""
	}
	ns, ng := "-", "-"
	if c.subOK {
		ns = c13mGensText(c.newGens)
	}
	if c.ccOK {
		ng = strconv.Itoa(c.newCC)
	}
	ans := ""
	switch {
	case judged == "fail":
		ans = "fail"
	case k.entry == 'u' || k.entry == 'e':
		if judged == "ok" {
			ans = "ok"
		}
	case strings.HasPrefix(judged, "ok:") && !strings.Contains(judged, "missing"):
		v, err := strconv.Atoi(judged[strings.LastIndexByte(judged, '=')+1:])
		if err == nil && v == c.oldVer {
			ans = "ok:old"
		} else if err == nil && c.subOK && c.ccOK && v == c.newVer {
			ans = "ok:new"
		}
	}
	if ans == "" {
		return "", ""
	}
	return fmt.Sprintf("gate|%s|%d|%s|%s|%s|%c|%d", c13mGensText(c.oldGens), c.oldCC, ns, ng, phase, k.entry, k.gen), ans
}


func (r *c13mRun) count(k string) { r.res.Counts[k]++ }

func (r *c13mRun) trace(f string, a ...any) {
	if len(r.res.Trace) < 400 {
		r.res.Trace = append(r.res.Trace, fmt.Sprintf(f, a...))
	}
}

func (r *c13mRun) verdict(sig, what string, fatal bool) {
	for _, v := range r.res.Verdicts {
		if v.Sig == sig && v.What == what {
			return
		}
	}
	r.res.Verdicts = append(r.res.Verdicts, c13mVerdict{sig, what})
	if fatal {
		r.res.Fatal = true
		r.stopped = true
	}
}

func (r *c13mRun) harness(msg string) {
	if r.res.Harness == "" {
		r.res.Harness = msg
	}
	r.res.Fatal = true
	r.stopped = true
}

func (r *c13mRun) outstanding() (n int, dns []*c13mReq) {
	for _, q := range r.reqs {
		if q.started.Load() && !q.done.Load() {
			n++
			if q.kind.entry == 'd' || q.kind.entry == 'e' {
				dns = append(dns, q)
			}
		}
	}
	return
}

func c13mBlockedDesc(s c13mSnap) (string, string) {
	kinds := map[string]bool{}
	var parts []string
	if s.handler == c13mHBlocked {
		op, fn := c13mWhere(s.handlerText)
		kinds["reload."+op] = true
		parts = append(parts, fmt.Sprintf("the SIGHUP goroutine is blocked in %s (called from %s)", op, fn))
	}
	for _, g := range s.blocked {
		op, fn := c13mWhere(g.text)
		kinds["request."+op] = true
		parts = append(parts, fmt.Sprintf("a request goroutine is blocked in %s (called from %s)", op, fn))
	}
	var ks []string
	for k := range kinds {
		ks = append(ks, k)
	}
	sort.Strings(ks)
	return strings.Join(ks, "+"), strings.Join(parts, "; ")
}

func c13mDumpText(s c13mSnap) string {
	t := s.handlerText
	for _, g := range s.blocked {
		t += "\n\n" + g.text
	}
	if len(t) > 6000 {
		t = t[:6000]
	}
	return t
}

// settle waits until the registrar is settled (see the head of part 1). strict = every unanswered request
// must be visible as a parked or blocked goroutine; otherwise (stress workers are running) only the SIGHUP
// goroutine has to be quiet, or everything has to be stuck.
func (r *c13mRun) settle() (c13mSnap, bool) {
	deadline := time.Now().Add(c13mLimit)
	var mismatchSince time.Time
	lostRounds := 0
	for spin := 0; ; spin++ {
		// a stop-the-world dump slows everything down: give a request that is on its way a moment to be answered first
		if n, _ := r.outstanding(); n > 0 && spin < 40 {
			select {
			case <-r.wake:
			case <-time.After(time.Duration(100+50*spin) * time.Microsecond):
			}
		}
		if x := r.e.exited.Load(); x != nil {
			r.verdict("C13:registrar-exited", "the registrar asked the process to exit while it was handling a reload or a request: "+x.(string), true)
			return c13mSnap{}, false
		}
		out, dns := r.outstanding()
		s := r.e.snapshot()
		quiet := true
		if r.hupPending {
			switch {
			case r.conf.opened.Load():
				r.hupPending, r.inFlight = false, true
				continue
			case s.handler == c13mHGone:
				r.verdict("C13:reload-ignored", "SIGHUP was sent but the goroutine that handles it has ended: this reload and every later one is dropped", true)
				return s, false
			case s.handler == c13mHIdle && time.Since(r.hupAt) > c13mHupLimit:
				r.verdict("C13:reload-ignored", fmt.Sprintf("SIGHUP was sent %v ago; the goroutine that handles it is idle and has not started to load the configuration", c13mHupLimit), true)
				r.res.Dump = c13mDumpText(s)
				return s, false
			}
			quiet = false
		} else {
			switch s.handler {
			case c13mHBusy:
				quiet = false
			case c13mHIO:
				if !(r.conf.holding() || r.cc.holding() || r.sub.holding()) {
					quiet = false
				}
			case c13mHGone:
				r.verdict("C13:reload-ignored", "the goroutine that handles SIGHUP has ended: every later reload is dropped", true)
				return s, false
			case c13mHIdle:
				if r.inFlight {
					r.reloadDone()
				}
			}
		}
		visible := s.parked + len(s.blocked)
		if r.stress > 0 {
			// stress workers keep sending: settled when the SIGHUP goroutine is idle again or held at a pipe, or
			// when it is blocked and so is every unanswered request (nobody is left to release anything)
			stuck := s.busy == 0 && visible == out && out > 0
			if quiet && s.handler == c13mHBlocked && !stuck {
				quiet = false
			}
		} else {
			if s.busy > 0 || visible != out {
				quiet = false
			}
			if s.busy == 0 && visible < out && len(dns) > 0 {
				// a request that the registrar does not know of: a lost datagram?
				if mismatchSince.IsZero() {
					mismatchSince = time.Now()
				} else if time.Since(mismatchSince) > 15*time.Second {
					// a datagram lost on the loopback interface is rare; the same requests lost three times in a row,
					// with the registrar idle each time, are requests the registrar does not answer
					lostRounds++
					if lostRounds >= 3 {
						r.verdict("C13:not-answered:dns", fmt.Sprintf("the registrar is idle, yet %d DNS request(s) - sent, and re-sent %d times over 45 s - have no answer: the DNS registrar does not answer them", out-visible, lostRounds-1), true)
						return s, false
					}
					for _, q := range dns {
						if q.dns != nil {
							_ = q.dns.Close()
						}
					}
					r.count("dns:datagram-lost")
					mismatchSince = time.Time{}
				}
			} else {
				mismatchSince = time.Time{}
			}
		}
		if quiet {
			return s, true
		}
		if time.Now().After(deadline) {
			r.harness(fmt.Sprintf("the registrar did not settle within %v (handler state %d, %d busy, %d parked, %d blocked, %d unanswered)", c13mLimit, s.handler, s.busy, s.parked, len(s.blocked), out))
			r.res.Dump = c13mDumpText(s)
			return s, false
		}
		switch {
		case spin < 100:
			runtime.Gosched()
		case spin < 2000:
			time.Sleep(50 * time.Microsecond)
		default:
			time.Sleep(time.Millisecond)
		}
	}
}

func (r *c13mRun) reloadDone() {
	r.inFlight = false
	for _, f := range []*c13mFeeder{r.conf, r.cc, r.sub} {
		f.stop()
	}
	r.conf, r.cc, r.sub = nil, nil, nil
	logs := r.e.hook.takeHandlerLogs()
	r.trace("reload complete; handler logged %q", logs)
	if r.curValid {
		r.expVer, r.expCC = r.curVer, r.curCC
		w := len(r.probes)
		for len(r.vers) <= w {
			r.vers = append(r.vers, nil)
		}
		r.vers[w] = append(r.vers[w], r.curVer)
	} else {
		r.expCC = -1
	}
	r.needProbe = true
	r.ctxDone = true
	r.count("reload:completed")
}

func (r *c13mRun) send(q *c13mReq) {
	q.lo = len(r.probes) - 1
	q.sentAt = time.Now()
	if !q.probe && r.ctx != nil && r.inFlight && !r.ctxDone {
		switch {
		case r.conf.holding() || r.cc.holding():
			q.ctx, q.phase = r.ctx, "before"
		case r.sub.holding() && r.ctx.subOK && r.ctx.ccOK:
			q.ctx, q.phase = r.ctx, "subnets"
		}
	}
	q.started.Store(true)
	r.reqs[q.id] = q
	if !q.probe {
		r.all = append(r.all, q)
	}
	go func() {
		for try := 0; try < 3; try++ {
			r.e.perform(q)
			if !(q.judged == "noanswer" && (q.kind.entry == 'd' || q.kind.entry == 'e')) {
				break
			}
		}
		q.done.Store(true)
		select {
		case r.wake <- struct{}{}:
		default:
		}
	}()
}

// probe: every request kind of the scenario, one at a time, against the configuration in force
func (r *c13mRun) probe() bool {
	round, full := map[string]string{}, map[string]string{}
	for _, q := range r.all {
		if q.hi == 0 && q.done.Load() {
			q.hi = len(r.probes) // the first probe round after the request was answered
		}
	}
	for i, ks := range r.kinds {
		k, _ := c13mParseKind(ks)
		q := &c13mReq{id: fmt.Sprintf("probe%d.%d", len(r.probes), i), kind: k, probe: true}
		r.send(q)
		s, ok := r.settle()
		if !ok {
			return false
		}
		if !q.done.Load() {
			sig, what := c13mBlockedDesc(s)
			r.verdict("C13:deadlock:"+sig, "a request sent on its own after the reload had completed is blocked for good: "+what, true)
			r.res.Dump = c13mDumpText(s)
			return false
		}
		delete(r.reqs, q.id)
		round[ks], full[ks] = q.judged, q.outcome
		if q.mixed {
			r.verdict("C13:mixed-versions", "a request sent on its own got addresses from two versions of the subnet file: "+q.outcome, false)
		}
	}
	r.probes, r.full = append(r.probes, round), append(r.full, full)
	r.needProbe = false
	r.count("probe-rounds")
	r.trace("probe %d: %v", len(r.probes)-1, full)
	if r.expVer >= 0 {
		want := fmt.Sprintf("ok:4=%d.6=%d", r.expVer, r.expVer)
		if round[c13mEffectNew] != want {
			if r.curValid {
				r.verdict("C13:reload-ignored", fmt.Sprintf("a reload whose configuration, ClientConf and subnet file (version %d) are all valid has completed, but a registration is answered %q instead of from version %d", r.expVer, full[c13mEffectNew], r.expVer), false)
			} else {
				r.verdict("C13:not-answered:after-refused-reload", fmt.Sprintf("after a reload that could not load its files a registration that was answered from version %d before is answered %q", r.expVer, full[c13mEffectNew]), false)
			}
		}
	}
	r.ccMeas = -1
	if i := strings.Index(full[c13mEffectOld], ":cc="); i >= 0 {
		if n, err := strconv.Atoi(full[c13mEffectOld][i+4:]); err == nil {
			r.ccMeas = n
		}
	}
	// the harness's account of the answers, checked against what was measured
	if v := round[c13mEffectNew]; strings.HasPrefix(v, "ok:4=") && r.ccMeas >= 0 {
		if ver, err := strconv.Atoi(v[5:strings.IndexByte(v, '.')]); err == nil {
			if gens, ok := r.gensOf[ver]; ok {
				for _, ks := range r.kinds {
					k, _ := c13mParseKind(ks)
					if want := c13mPredict(k, c13mCfg{ver, gens, r.ccMeas}); want != round[ks] {
						r.count("harness-account-differs")
						r.trace("harness account: %s under version %d / ClientConf %d is %q, measured %q", ks, ver, r.ccMeas, want, round[ks])
					}
				}
			}
		}
	}
	r.measVer = -1
	if v := round[c13mEffectNew]; strings.HasPrefix(v, "ok:4=") {
		if ver, err := strconv.Atoi(v[5:strings.IndexByte(v, '.')]); err == nil {
			r.measVer = ver
		}
	}
	if r.ctx != nil && r.ctxDone && !r.noCases {
		// the complete round, applied by the model to the configuration measured before the reload
		for _, ks := range r.kinds {
			k, _ := c13mParseKind(ks)
			if line, ans := r.ctx.caseLine("after", k, round[ks]); line != "" {
				r.res.Cases = append(r.res.Cases, [2]string{line, ans})
			}
		}
	}
	r.ctx = nil
	consistent := false
	for _, g := range r.curGens {
		if g == r.expCC {
			consistent = true
		}
	}
	if r.expCC >= 0 && r.curValid && consistent {
		if !strings.HasSuffix(full[c13mEffectOld], fmt.Sprintf(":cc=%d", r.expCC)) {
			r.verdict("C13:reload-ignored", fmt.Sprintf("a reload whose files are all valid (ClientConf generation %d) has completed, but an outdated client is answered %q", r.expCC, full[c13mEffectOld]), false)
		}
	}
	r.expCC = -1
	return true
}

func (r *c13mRun) hup() bool {
	f := r.next
	e := r.e
	valid := true
	// subnet file
	subPath := e.subFile
	gateS := strings.Contains(f.gates, "s")
	var subContent string
	switch {
	case strings.HasPrefix(f.sub, "v"):
		parts := strings.Split(f.sub[1:], ".")
		k, err := strconv.Atoi(parts[0])
		if err != nil {
			r.harness("bad subnet spec " + f.sub)
			return false
		}
		var gens []int
		for _, p := range parts[1:] {
			g, err := strconv.Atoi(p)
			if err != nil {
				r.harness("bad subnet spec " + f.sub)
				return false
			}
			gens = append(gens, g)
		}
		subContent = c13mSubnets(k, gens)
		r.lastSub, r.lastSubVer, r.subOnDisk = subContent, k, true
		r.curVer, r.curGens = k, gens
		r.gensOf[k] = gens
	case f.sub == "bad":
		subContent = "[Networks\n  this is not toml\n"
		valid = false
		r.subOnDisk = false
	case f.sub == "none":
		subPath, gateS, valid = filepath.Join(e.dir, "no-such-subnets.toml"), false, false
	case f.sub == "dir":
		subPath, gateS, valid = e.subDir, false, false
	case f.sub == "same":
		if r.lastSub == "" {
			valid = false
		}
		subContent = r.lastSub
		r.curVer, r.curGens = r.lastSubVer, r.gensOf[r.lastSubVer]
		r.subOnDisk = r.lastSub != ""
	default:
		r.harness("bad subnet spec " + f.sub)
		return false
	}
	if subPath == e.subFile {
		if gateS {
			subPath = e.subFifo
			r.sub = c13mFeed(e.subFifo, []byte(subContent), true)
		} else if err := c13mWrite(e.subFile, []byte(subContent)); err != nil {
			r.harness(err.Error())
			return false
		}
	}
	os.Setenv("PHANTOM_SUBNET_LOCATION", subPath)
	// ClientConf
	ccPath := e.ccFile
	gateK := strings.Contains(f.gates, "k")
	var ccContent []byte
	switch {
	case strings.HasPrefix(f.cc, "g"):
		g, err := strconv.Atoi(f.cc[1:])
		if err != nil {
			r.harness("bad ClientConf spec " + f.cc)
			return false
		}
		ccContent, _ = proto.Marshal(&pb.ClientConf{Generation: proto.Uint32(uint32(g))})
		r.lastCCGen, r.ccOnDisk = g, true
		r.curCC = g
	case f.cc == "bad":
		ccContent = []byte{0xff, 0xff, 0xff, 0xff, 0xff, 0xff, 0xff, 0xff, 0xff, 0xff, 0xff, 0x01}
		valid = false
		r.ccOnDisk = false
	case f.cc == "none":
		ccPath, gateK, valid = filepath.Join(e.dir, "no-such-clientconf"), false, false
	case f.cc == "same":
		if r.lastCCGen < 0 {
			valid = false
		}
		ccContent, _ = proto.Marshal(&pb.ClientConf{Generation: proto.Uint32(uint32(r.lastCCGen))})
		r.curCC = r.lastCCGen
		r.ccOnDisk = r.lastCCGen >= 0
	default:
		r.harness("bad ClientConf spec " + f.cc)
		return false
	}
	if ccPath == e.ccFile {
		if gateK {
			ccPath = e.ccFifo
			r.cc = c13mFeed(e.ccFifo, ccContent, true)
		} else if err := c13mWrite(e.ccFile, ccContent); err != nil {
			r.harness(err.Error())
			return false
		}
	}
	if f.conf != "ok" {
		valid = false
	}
	r.conf = c13mFeed(e.confFifo, []byte(e.confText(ccPath, f.conf != "ok")), strings.Contains(f.gates, "c"))
	r.ctx, r.ctxDone = nil, false
	if g, ok := r.gensOf[r.measVer]; ok && r.ccMeas >= 0 && !r.noCases {
		ctx := &c13mCtx{oldVer: r.measVer, oldCC: r.ccMeas, oldGens: g}
		ctx.ccOK = f.conf == "ok" && r.ccOnDisk && f.cc != "none" && f.cc != "bad"
		ctx.subOK = r.subOnDisk && (strings.HasPrefix(f.sub, "v") || f.sub == "same")
		ctx.newVer, ctx.newGens, ctx.newCC = r.curVer, r.curGens, r.curCC
		r.ctx = ctx
	}
	r.curValid = valid
	if r.subOnDisk && (strings.HasPrefix(f.sub, "v") || f.sub == "same") && r.ccMeas >= 0 {
		w := len(r.probes)
		for len(r.mid) <= w {
			r.mid = append(r.mid, nil)
		}
		r.mid[w] = append(r.mid[w], c13mCfg{ver: r.curVer, gens: r.curGens, cc: r.ccMeas})
	}
	r.hupPending, r.hupAt = true, time.Now()
	r.count("reload:" + map[bool]string{true: "valid", false: "refused"}[valid])
	if err := syscall.Kill(os.Getpid(), syscall.SIGHUP); err != nil {
		r.harness(err.Error())
		return false
	}
	return true
}

func (r *c13mRun) afterEvent() bool {
	s, ok := r.settle()
	if !ok {
		return false
	}
	if r.needProbe && r.stress == 0 && s.handler == c13mHIdle && len(s.blocked) == 0 {
		if out, _ := r.outstanding(); out == s.parked {
			return r.probe()
		}
	}
	return true
}

func (r *c13mRun) event(ev string) bool {
	r.trace("event %s", ev)
	switch {
	case strings.HasPrefix(ev, "F:"):
		p := strings.Split(ev[2:], "/")
		if len(p) < 3 {
			r.harness("bad event " + ev)
			return false
		}
		r.next = c13mFiles{sub: p[0], cc: p[1], conf: p[2]}
		if len(p) > 3 {
			r.next.gates = p[3]
		}
		return true
	case ev == "H":
		if r.inFlight || r.hupPending {
			r.count("event:skipped")
			return true
		}
		if s := r.e.snapshot(); s.handler != c13mHIdle {
			r.count("event:skipped")
			return true
		}
		if !r.hup() {
			return false
		}
	case ev == "Gc":
		r.conf.open()
	case ev == "Gk":
		r.cc.open()
	case ev == "Gs":
		r.sub.open()
	case strings.HasPrefix(ev, "Q"), strings.HasPrefix(ev, "P"):
		c := strings.IndexByte(ev, ':')
		if c < 0 {
			r.harness("bad event " + ev)
			return false
		}
		spec, at := ev[c+1:], 0
		if ev[0] == 'P' {
			i := strings.IndexByte(spec, '@')
			if i < 0 {
				r.harness("bad event " + ev)
				return false
			}
			at, _ = strconv.Atoi(spec[i+1:])
			spec = spec[:i]
		}
		k, err := c13mParseKind(spec)
		if err != nil {
			r.harness(err.Error())
			return false
		}
		q := &c13mReq{id: ev[1:c], kind: k}
		if at > 0 {
			q.arm = r.e.hook.arm(k.frame(), at)
		}
		r.send(q)
		if !r.afterEvent() {
			return false
		}
		if q.arm != nil && q.done.Load() {
			r.e.hook.disarm(q.arm)
			q.arm = nil
		}
		r.count("request:" + string(k.entry))
		return true
	case strings.HasPrefix(ev, "L"):
		q := r.reqs[ev[1:]]
		if q == nil || q.arm == nil {
			r.count("event:skipped")
			return true
		}
		close(q.arm.release)
		r.e.hook.disarm(q.arm)
		q.arm = nil
	case strings.HasPrefix(ev, "S"):
		c := strings.IndexByte(ev, ':')
		n, err := strconv.Atoi(ev[1:max(c, 1)])
		if c < 0 || err != nil {
			r.harness("bad event " + ev)
			return false
		}
		kinds := strings.Split(ev[c+1:], ",")
		if r.stressDone == nil {
			r.stressDone = make(chan struct{}, 1024)
		}
		for wi, ks := range kinds {
			k, err := c13mParseKind(ks)
			if err != nil {
				r.harness(err.Error())
				return false
			}
			r.stress++
			lo := len(r.probes) - 1
			reqs := make([]*c13mReq, n)
			for i := range reqs {
				reqs[i] = &c13mReq{id: fmt.Sprintf("s%d.%d.%d", len(r.all), wi, i), kind: k, stress: true, lo: lo}
				r.reqs[reqs[i].id] = reqs[i]
				r.all = append(r.all, reqs[i])
			}
			go func() {
				for _, q := range reqs {
					q.started.Store(true)
					r.e.perform(q)
					q.done.Store(true)
				}
				r.stressDone <- struct{}{}
			}()
		}
		r.count("stress:workers")
		return true
	default:
		r.harness("bad event " + ev)
		return false
	}
	return r.afterEvent()
}

// finishStress waits for the stress workers (or for the registrar to be stuck)
func (r *c13mRun) finishStress() bool {
	for r.stress > 0 {
		select {
		case <-r.stressDone:
			r.stress--
		case <-time.After(20 * time.Millisecond):
			out, _ := r.outstanding()
			s := r.e.snapshot()
			if s.busy == 0 && s.parked+len(s.blocked) == out && len(s.blocked) > 0 && (s.handler == c13mHBlocked || s.handler == c13mHIdle) {
				// every unanswered request is blocked in a mutex and nobody is left to release it
				s2 := r.e.snapshot()
				if s2.busy == 0 && len(s2.blocked) == len(s.blocked) {
					sig, what := c13mBlockedDesc(s2)
					r.verdict("C13:deadlock:"+sig, "stress run blocked for good: "+what, true)
					r.res.Dump = c13mDumpText(s2)
					return false
				}
			}
		}
	}
	return true
}

func (r *c13mRun) drain() bool {
	for _, g := range []string{"Gc", "Gk", "Gs"} {
		var f *c13mFeeder
		switch g {
		case "Gc":
			f = r.conf
		case "Gk":
			f = r.cc
		default:
			f = r.sub
		}
		if f != nil && f.gated && !f.released.Load() {
			if !r.event(g) {
				return false
			}
		}
		// a gate further down the reload may only be reached now
		if _, ok := r.settle(); !ok {
			return false
		}
	}
	// pipes the handler has reached after the loop above looked at them
	for i := 0; i < 3; i++ {
		for _, f := range []*c13mFeeder{r.conf, r.cc, r.sub} {
			if f != nil {
				f.open()
			}
		}
		if _, ok := r.settle(); !ok {
			return false
		}
	}
	var ids []string
	for id, q := range r.reqs {
		if q.arm != nil {
			ids = append(ids, id)
		}
	}
	sort.Strings(ids)
	for _, id := range ids {
		if !r.event("L" + id) {
			return false
		}
	}
	if !r.finishStress() {
		return false
	}
	s, ok := r.settle()
	if !ok {
		return false
	}
	out, _ := r.outstanding()
	if out > 0 || s.handler == c13mHBlocked {
		sig, what := c13mBlockedDesc(s)
		r.verdict("C13:deadlock:"+sig, "every gate has been released and the registrar is blocked for good: "+what, true)
		r.res.Dump = c13mDumpText(s)
		return false
	}
	if r.inFlight {
		r.harness("a reload is still in flight after the drain")
		return false
	}
	if !r.probe() {
		return false
	}
	return true
}

func (r *c13mRun) judge() {
	for _, q := range r.all {
		if !q.done.Load() {
			continue
		}
		r.count("judged")
		if q.ctx != nil && !r.noCases && !q.mixed {
			if line, ans := q.ctx.caseLine(q.phase, q.kind, q.judged); line != "" {
				r.res.Cases = append(r.res.Cases, [2]string{line, ans})
			}
		}
		if q.mixed {
			r.verdict("C13:mixed-versions", fmt.Sprintf("request %s (%s): the addresses of one response come from two versions of the subnet file: %s", q.id, q.kind.spec, q.outcome), false)
			continue
		}
		lo, hi := max(q.lo, 0), q.hi
		if hi <= 0 || hi >= len(r.probes) {
			hi = len(r.probes) - 1
		}
		allowed := map[string]bool{}
		okVers := map[int]bool{}
		anyOK := false
		for p := lo; p <= hi; p++ {
			j := r.probes[p][q.kind.spec]
			allowed[j] = true
			if strings.HasPrefix(j, "ok") {
				anyOK = true
			}
			if p < len(r.vers) {
				for _, v := range r.vers[p] {
					okVers[v] = true
				}
			}
			if p < len(r.mid) {
				// between the two steps of a reload: the new subnet set, the ClientConf generation still the old one
				for _, c := range r.mid[p] {
					j := c13mPredict(q.kind, c)
					if j == q.judged && !allowed[j] {
						r.count("answered-between-the-two-steps-of-a-reload")
					}
					allowed[j] = true
				}
			}
		}
		if allowed[q.judged] {
			continue
		}
		answered := strings.HasPrefix(q.judged, "ok")
		switch {
		case !answered:
			var al []string
			for a := range allowed {
				al = append(al, a)
			}
			sort.Strings(al)
			r.verdict("C13:not-answered:request", fmt.Sprintf("request %s (%s) sent while a reload was in progress was answered %q; alone against the configuration before / after the reload it is answered %v", q.id, q.kind.spec, q.outcome, al), false)
		case answered && anyOK:
			// answered from a version that no probe round saw: fine if a valid reload in the window installed it
			fine := false
			for v := range okVers {
				if strings.HasSuffix(q.judged, fmt.Sprintf("=%d", v)) && !strings.Contains(q.judged, "missing") {
					fine = true
				}
			}
			if !fine && (q.kind.entry == 'a' || q.kind.entry == 'd') {
				r.verdict("C13:not-answered:request", fmt.Sprintf("request %s (%s) was answered %q, which is neither what the configuration before nor what the configuration after the reload answers", q.id, q.kind.spec, q.outcome), false)
			}
		default:
			r.count("answered-although-alone-it-fails")
		}
	}
}

func (e *c13mEnv) runScenario(idx int, line string) *c13mResult {
	res := &c13mResult{Idx: idx, Line: line, Counts: map[string]int{}}
	r := &c13mRun{e: e, res: res, reqs: map[string]*c13mReq{}, expVer: -1, expCC: -1, lastCCGen: -1, wake: make(chan struct{}, 1), gensOf: map[int][]int{}, ccMeas: -1, measVer: -1}
	if !strings.HasPrefix(line, "main|") {
		r.harness("bad scenario line")
		return res
	}
	events := strings.Split(strings.TrimPrefix(line, "main|"), ";")
	kinds := map[string]bool{c13mEffectNew: true, c13mEffectOld: true}
	for _, ev := range events {
		if ev != "" && (ev[0] == 'P' || ev[0] == 'S') {
			r.noCases = true // a held request may keep the reload goroutine between two of its steps
		}
		if c := strings.IndexByte(ev, ':'); c >= 0 && strings.ContainsRune("QPS", rune(ev[0])) {
			for _, ks := range strings.Split(ev[c+1:], ",") {
				if i := strings.IndexByte(ks, '@'); i >= 0 {
					ks = ks[:i]
				}
				kinds[ks] = true
			}
		}
	}
	for k := range kinds {
		if _, err := c13mParseKind(k); err != nil {
			r.harness(err.Error())
			return res
		}
		r.kinds = append(r.kinds, k)
	}
	sort.Strings(r.kinds)
	e.hook.takeHandlerLogs()
	// preamble: a known configuration
	for _, ev := range []string{"F:v0.100/g100/ok", "H"} {
		if !r.event(ev) {
			return res
		}
	}
	if len(r.probes) == 0 {
		r.harness("the preamble reload did not complete")
		return res
	}
	for _, ev := range events {
		if ev == "" {
			continue
		}
		if !r.event(ev) || r.stopped {
			return res
		}
	}
	if !r.drain() {
		return res
	}
	for _, q := range r.all {
		if q.hi == 0 {
			q.hi = len(r.probes) - 1
		}
	}
	// every scenario ends with a reload whose files are all valid: it has to take effect
	for _, ev := range []string{"F:v200.100.101.102.103.110/g110/ok", "H"} {
		if !r.event(ev) {
			return res
		}
	}
	if r.needProbe || r.inFlight {
		s, _ := r.settle()
		sig, what := c13mBlockedDesc(s)
		if sig != "" {
			r.verdict("C13:deadlock:"+sig, "the closing reload does not complete: "+what, true)
		} else {
			r.harness("the closing reload did not complete")
		}
		return res
	}
	r.judge()
	return res
}

// ---------------------------------------------------------------------------------------------
// child process

func c13mStart() (*c13mEnv, error) {
	dir, err := os.MkdirTemp("", "verif-c13m-")
	if err != nil {
		return nil, err
	}
	e := &c13mEnv{dir: dir, confFifo: filepath.Join(dir, "reg_config.toml"), ccFile: filepath.Join(dir, "ClientConf"), ccFifo: filepath.Join(dir, "ClientConf.pipe"),
		subFile: filepath.Join(dir, "phantom_subnets.toml"), subFifo: filepath.Join(dir, "phantom_subnets.pipe"), subDir: filepath.Join(dir, "subnets.d"), keyPath: filepath.Join(dir, "privkey")}
	for _, p := range []string{e.confFifo, e.ccFifo, e.subFifo} {
		if err := syscall.Mkfifo(p, 0o600); err != nil {
			return nil, err
		}
	}
	if err := os.Mkdir(e.subDir, 0o700); err != nil {
		return nil, err
	}
	key := make([]byte, 64)
	for i := range key {
		key[i] = byte(7 + i*3)
	}
	if err := c13mWrite(e.keyPath, key); err != nil {
		return nil, err
	}
	e.dnsPub = encryption.PubkeyFromPrivkey(key[:32])
	e.apiPort, e.zmqPort, e.dnsPort = c13mFreeTCP(), c13mFreeTCP(), c13mFreeUDP()
	if err := c13mWrite(e.subFile, []byte(c13mSubnets(0, []int{100}))); err != nil {
		return nil, err
	}
	cc, _ := proto.Marshal(&pb.ClientConf{Generation: proto.Uint32(100)})
	if err := c13mWrite(e.ccFile, cc); err != nil {
		return nil, err
	}
	os.Setenv("PHANTOM_SUBNET_LOCATION", e.subFile)
	if err := c13mCalibrate(); err != nil {
		return nil, err
	}
	e.hook = &c13mHook{}
	e.dnsPool = make(chan *requester.Requester, 64)
	log.SetOutput(io.Discard)
	log.AddHook(e.hook)
	startup := true
	log.StandardLogger().ExitFunc = func(code int) {
		buf := make([]byte, 4096)
		n := runtime.Stack(buf, false)
		e.exited.Store(fmt.Sprintf("exit(%d) from %s", code, strings.ReplaceAll(string(buf[:n]), "\n", " | ")))
		_ = startup
		runtime.Goexit()
	}
	os.Args = []string{"registration-server", "-config", e.confFifo}
	feed := c13mFeed(e.confFifo, []byte(e.confText(e.ccFile, false)), false)
	go main()
	deadline := time.Now().Add(2 * time.Minute)
	for {
		if x := e.exited.Load(); x != nil {
			return nil, fmt.Errorf("the registrar did not start: %s", x)
		}
		c, err := net.DialTimeout("tcp", fmt.Sprintf("127.0.0.1:%d", e.apiPort), time.Second)
		if err == nil {
			c.Close()
			break
		}
		if time.Now().After(deadline) {
			return nil, fmt.Errorf("the registrar did not start: %v", err)
		}
		time.Sleep(2 * time.Millisecond)
	}
	feed.stop()
	// the goroutine that main() starts for the signals: the only goroutine created by main.main
	for {
		var found []c13mG
		for _, g := range c13mDumpAll() {
			if strings.Contains(g.text, "created by "+c13mMainPkg+".main ") {
				found = append(found, g)
			}
		}
		if len(found) == 1 && found[0].status == "chan receive" {
			e.handlerGID = found[0].id
			e.hook.handlerGID.Store(found[0].id)
			break
		}
		if time.Now().After(deadline) {
			return nil, fmt.Errorf("cannot identify the SIGHUP goroutine of main() (%d candidates)", len(found))
		}
		time.Sleep(time.Millisecond)
	}
	startup = false
	return e, nil
}

// c13mChild runs the scenarios of the list file from index `from` on and prints one result line each.
func c13mChild(listFile string, from int) {
	w := bufio.NewWriter(os.Stdout)
	emit := func(res *c13mResult) {
		b, _ := json.Marshal(res)
		fmt.Fprintf(w, "\nC13M-RESULT\t%s\n", b)
		w.Flush()
	}
	data, err := os.ReadFile(listFile)
	if err != nil {
		emit(&c13mResult{Idx: from, Harness: err.Error(), Fatal: true})
		return
	}
	lines := strings.Split(strings.TrimSpace(string(data)), "\n")
	e, err := c13mStart()
	if err != nil {
		emit(&c13mResult{Idx: -1, Harness: "start: " + err.Error(), Fatal: true})
		return
	}
	defer os.RemoveAll(e.dir)
	for i := from; i < len(lines); i++ {
		t0 := time.Now()
		res := e.runScenario(i, lines[i])
		res.Ms = time.Since(t0).Milliseconds()
		res.Counts["goroutines"] = runtime.NumGoroutine()
		emit(res)
		if res.Fatal {
			return
		}
	}
}
