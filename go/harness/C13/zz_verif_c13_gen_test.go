//go:build verif

package regprocessor

// Tie 1 for C13: extracts, from the source of this package, the lock-operation program of every
// path through RegProcessor.processBdReq and RegProcessor.ReloadSubnets and writes them as Lean
// definitions (CJ/Gen/LockPrograms.lean). Standard library go/ast only.
//
// A program is the sequence of operations on RegProcessor.selectorMutex (rlock, runlock, lock,
// unlock), of evaluations of / assignments to the field RegProcessor.ipSelector (readSel, swapSel)
// and of calls of Select (select) in execution order along one path; deferred calls are expanded at
// every function exit in LIFO order; calls of other RegProcessor methods that contain such
// operations are inlined. Anything the walker cannot order (lock operations in loops, switches,
// goroutines, stored closures, the mutex escaping) makes the extraction fail rather than guess.

import (
	"bytes"
	"fmt"
	"go/ast"
	"go/parser"
	"go/printer"
	"go/token"
	"os"
	"path/filepath"
	"sort"
	"strings"
	"testing"
)

const (
	lpRecv  = "RegProcessor"
	lpMutex = "selectorMutex"
	lpField = "ipSelector"
)

type lpState struct {
	ops    []string
	defers [][]string
	name   []string
}

func (s lpState) clone() lpState {
	c := lpState{ops: append([]string(nil), s.ops...), name: append([]string(nil), s.name...)}
	for _, d := range s.defers {
		c.defers = append(c.defers, append([]string(nil), d...))
	}
	return c
}

func (s lpState) key() string {
	var b strings.Builder
	b.WriteString(strings.Join(s.name, "+") + "|" + strings.Join(s.ops, ",") + "|")
	for _, d := range s.defers {
		b.WriteString(strings.Join(d, ",") + ";")
	}
	return b.String()
}

type lpPath struct {
	name []string
	ops  []string
}

type lpEx struct {
	fset  *token.FileSet
	funcs map[string]*ast.FuncDecl
	errs  []string
	sink  *[]lpPath
	depth int
	memo  map[ast.Node]bool
}

func (x *lpEx) fail(n ast.Node, msg string) {
	x.errs = append(x.errs, fmt.Sprintf("%s: %s", x.fset.Position(n.Pos()), msg))
}

func lpLockOpOf(method string) string {
	switch method {
	case "RLock":
		return "rlock"
	case "RUnlock":
		return "runlock"
	case "Lock":
		return "lock"
	case "Unlock":
		return "unlock"
	}
	return ""
}

// hasOps: does the subtree contain anything that contributes to a lock program?
func (x *lpEx) hasOps(n ast.Node) bool {
	if n == nil {
		return false
	}
	if v, ok := x.memo[n]; ok {
		return v
	}
	found := false
	ast.Inspect(n, func(m ast.Node) bool {
		if found {
			return false
		}
		switch e := m.(type) {
		case *ast.SelectorExpr:
			if e.Sel.Name == lpMutex || e.Sel.Name == lpField {
				found = true
			}
		case *ast.CallExpr:
			if se, ok := e.Fun.(*ast.SelectorExpr); ok {
				if se.Sel.Name == "Select" {
					found = true
				}
				if fd, ok := x.funcs[se.Sel.Name]; ok && x.isRecvExpr(se.X) && x.depth < 4 {
					x.depth++
					if x.hasOps(fd.Body) {
						found = true
					}
					x.depth--
				}
			}
		}
		return !found
	})
	x.memo[n] = found
	return found
}

func (x *lpEx) isRecvExpr(e ast.Expr) bool {
	// a plain identifier (the receiver variable); methods of other values with the same name are
	// told apart by the receiver type only approximately: the identifier must not be a package name.
	id, ok := e.(*ast.Ident)
	return ok && id.Obj != nil
}

func lpContainsReturn(n ast.Node) bool {
	found := false
	ast.Inspect(n, func(m ast.Node) bool {
		switch m.(type) {
		case *ast.ReturnStmt:
			found = true
		case *ast.FuncLit:
			return false
		}
		return !found
	})
	return found
}

func (x *lpEx) src(n ast.Node) string {
	var b bytes.Buffer
	_ = printer.Fprint(&b, x.fset, n)
	return b.String()
}

func (x *lpEx) label(cond ast.Expr) string {
	s := x.src(cond)
	switch {
	case strings.Contains(s, "V4Support"):
		return "v4"
	case strings.Contains(s, "V6Support"):
		return "v6"
	case strings.ReplaceAll(s, " ", "") == "err!=nil":
		return "err"
	}
	var b strings.Builder
	for _, r := range s {
		if r >= 'a' && r <= 'z' || r >= 'A' && r <= 'Z' || r >= '0' && r <= '9' {
			b.WriteRune(r)
		}
	}
	return b.String()
}

// expr appends, to every state, the operations of evaluating e (in evaluation order).
func (x *lpEx) expr(e ast.Node, in []lpState) []lpState {
	if e == nil || !x.hasOps(e) {
		return in
	}
	switch v := e.(type) {
	case *ast.CallExpr:
		if se, ok := v.Fun.(*ast.SelectorExpr); ok {
			// mutex operation
			if inner, ok := se.X.(*ast.SelectorExpr); ok && inner.Sel.Name == lpMutex {
				op := lpLockOpOf(se.Sel.Name)
				if op == "" {
					x.fail(v, "unsupported operation on the selector mutex: "+se.Sel.Name)
					return in
				}
				return lpAppendOp(in, op)
			}
			// receiver first, then the arguments, then the call itself
			in = x.expr(se.X, in)
			for _, a := range v.Args {
				in = x.expr(a, in)
			}
			if se.Sel.Name == "Select" {
				return lpAppendOp(in, "select")
			}
			if fd, ok := x.funcs[se.Sel.Name]; ok && x.isRecvExpr(se.X) && x.hasOps(fd.Body) {
				return x.inline(fd, in)
			}
			return in
		}
		in = x.expr(v.Fun, in)
		for _, a := range v.Args {
			in = x.expr(a, in)
		}
		return in
	case *ast.SelectorExpr:
		if v.Sel.Name == lpMutex {
			x.fail(v, "the selector mutex is used other than through RLock/RUnlock/Lock/Unlock")
			return in
		}
		in = x.expr(v.X, in)
		if v.Sel.Name == lpField {
			return lpAppendOp(in, "readSel")
		}
		return in
	case *ast.FuncLit:
		x.fail(v, "closure containing lock or selector operations outside defer")
		return in
	case *ast.ParenExpr:
		return x.expr(v.X, in)
	case *ast.UnaryExpr:
		if v.Op == token.AND && x.hasOps(v.X) {
			x.fail(v, "address of the selector or its mutex taken")
			return in
		}
		return x.expr(v.X, in)
	case *ast.BinaryExpr:
		if v.Op == token.LAND || v.Op == token.LOR {
			if x.hasOps(v.Y) {
				x.fail(v, "lock or selector operation under a short-circuit operator")
				return in
			}
		}
		in = x.expr(v.X, in)
		return x.expr(v.Y, in)
	case *ast.StarExpr:
		return x.expr(v.X, in)
	case *ast.IndexExpr:
		in = x.expr(v.X, in)
		return x.expr(v.Index, in)
	case *ast.TypeAssertExpr:
		return x.expr(v.X, in)
	case *ast.KeyValueExpr:
		in = x.expr(v.Key, in)
		return x.expr(v.Value, in)
	case *ast.CompositeLit:
		for _, el := range v.Elts {
			in = x.expr(el, in)
		}
		return in
	case *ast.SliceExpr:
		in = x.expr(v.X, in)
		in = x.expr(v.Low, in)
		in = x.expr(v.High, in)
		return x.expr(v.Max, in)
	case *ast.Ident, *ast.BasicLit:
		return in
	}
	x.fail(e, fmt.Sprintf("unsupported expression form %T with lock or selector operations", e))
	return in
}

func lpAppendOp(in []lpState, op string) []lpState {
	out := make([]lpState, len(in))
	for i, s := range in {
		c := s.clone()
		c.ops = append(c.ops, op)
		out[i] = c
	}
	return out
}

func lpDedup(in []lpState) []lpState {
	seen := map[string]bool{}
	var out []lpState
	for _, s := range in {
		k := s.key()
		if !seen[k] {
			seen[k] = true
			out = append(out, s)
		}
	}
	return out
}

func (x *lpEx) terminate(states []lpState, suffix string) {
	for _, s := range states {
		ops := append([]string(nil), s.ops...)
		for i := len(s.defers) - 1; i >= 0; i-- {
			ops = append(ops, s.defers[i]...)
		}
		name := append([]string(nil), s.name...)
		if suffix != "" {
			name = append(name, suffix)
		}
		*x.sink = append(*x.sink, lpPath{name: name, ops: ops})
	}
}

// inline runs the callee on every state; the callee's exits become the caller's continuations.
func (x *lpEx) inline(fd *ast.FuncDecl, in []lpState) []lpState {
	if x.depth >= 4 {
		x.fail(fd, "inlining depth exceeded")
		return in
	}
	var out []lpState
	for _, s := range in {
		var sub []lpPath
		saved := x.sink
		x.sink = &sub
		x.depth++
		ft := x.stmts(fd.Body.List, []lpState{{ops: s.ops, name: s.name}}, 0)
		x.terminate(ft, "")
		x.depth--
		x.sink = saved
		for _, p := range sub {
			// a "return" marker of the callee is not an exit of the caller
			var nm []string
			for _, c := range p.name {
				if c != "return" {
					nm = append(nm, c)
				}
			}
			c := s.clone()
			c.ops = p.ops
			c.name = nm
			out = append(out, c)
		}
	}
	return lpDedup(out)
}

// deferredOps: the operations a deferred call performs when it runs.
func (x *lpEx) deferredOps(d *ast.DeferStmt) []string {
	var body []ast.Stmt
	if fl, ok := d.Call.Fun.(*ast.FuncLit); ok {
		body = fl.Body.List
	} else {
		body = []ast.Stmt{&ast.ExprStmt{X: d.Call}}
	}
	var sub []lpPath
	saved := x.sink
	x.sink = &sub
	ft := x.stmts(body, []lpState{{}}, 0)
	x.terminate(ft, "")
	x.sink = saved
	var progs [][]string
	seen := map[string]bool{}
	for _, p := range sub {
		k := strings.Join(p.ops, ",")
		if !seen[k] {
			seen[k] = true
			progs = append(progs, p.ops)
		}
	}
	if len(progs) != 1 {
		x.fail(d, "deferred function with branching lock operations")
		return nil
	}
	return progs[0]
}

// stmts executes a statement list on a set of states; nest = number of enclosing branching ifs.
func (x *lpEx) stmts(list []ast.Stmt, in []lpState, nest int) []lpState {
	cur := in
	for _, st := range list {
		if len(cur) == 0 {
			return cur
		}
		cur = lpDedup(x.stmt(st, cur, nest))
	}
	return cur
}

func (x *lpEx) stmt(st ast.Stmt, in []lpState, nest int) []lpState {
	switch v := st.(type) {
	case *ast.ReturnStmt:
		for _, r := range v.Results {
			in = x.expr(r, in)
		}
		x.terminate(in, "")
		return nil
	case *ast.DeferStmt:
		if !x.hasOps(v) {
			return in
		}
		// arguments of a deferred call are evaluated now; the call itself at exit
		if _, ok := v.Call.Fun.(*ast.FuncLit); !ok {
			for _, a := range v.Call.Args {
				in = x.expr(a, in)
			}
		}
		ops := x.deferredOps(v)
		out := make([]lpState, len(in))
		for i, s := range in {
			c := s.clone()
			c.defers = append(c.defers, ops)
			out[i] = c
		}
		return out
	case *ast.ExprStmt:
		return x.expr(v.X, in)
	case *ast.AssignStmt:
		for _, r := range v.Rhs {
			in = x.expr(r, in)
		}
		for _, l := range v.Lhs {
			if se, ok := l.(*ast.SelectorExpr); ok && se.Sel.Name == lpField {
				in = x.expr(se.X, in)
				in = lpAppendOp(in, "swapSel")
				continue
			}
			in = x.expr(l, in)
		}
		return in
	case *ast.DeclStmt:
		if gd, ok := v.Decl.(*ast.GenDecl); ok {
			for _, sp := range gd.Specs {
				if vs, ok := sp.(*ast.ValueSpec); ok {
					for _, e := range vs.Values {
						in = x.expr(e, in)
					}
				}
			}
		}
		return in
	case *ast.BlockStmt:
		return x.stmts(v.List, in, nest)
	case *ast.IfStmt:
		if v.Init != nil {
			in = x.stmt(v.Init, in, nest)
		}
		in = x.expr(v.Cond, in)
		ops := x.hasOps(v.Body) || (v.Else != nil && x.hasOps(v.Else))
		ret := lpContainsReturn(v)
		if !ops && !ret {
			return in
		}
		if !ops && nest == 0 {
			// an exit that does not depend on the lock structure: one extra path, no new branch name
			x.terminate(in, "return")
			return in
		}
		// branch
		lab := x.label(v.Cond)
		var yes []lpState
		for _, s := range in {
			c := s.clone()
			c.name = append(c.name, lab)
			yes = append(yes, c)
		}
		out := x.stmts(v.Body.List, yes, nest+1)
		if v.Else != nil {
			out = append(out, x.stmt(v.Else, in, nest+1)...)
		} else {
			out = append(out, in...)
		}
		return out
	case *ast.ForStmt, *ast.RangeStmt, *ast.SwitchStmt, *ast.TypeSwitchStmt, *ast.SelectStmt:
		if x.hasOps(v) {
			x.fail(v, "lock or selector operation inside a loop or switch: not supported by the extractor")
			return in
		}
		if lpContainsReturn(v) {
			x.terminate(in, "return")
		}
		return in
	case *ast.GoStmt:
		if x.hasOps(v) {
			x.fail(v, "lock or selector operation in a goroutine started here")
		}
		return in
	case *ast.LabeledStmt:
		if x.hasOps(v) {
			x.fail(v, "labelled statement with lock or selector operations")
			return in
		}
		return x.stmt(v.Stmt, in, nest)
	case *ast.BranchStmt:
		if v.Tok == token.GOTO {
			x.fail(v, "goto")
		}
		return in
	case *ast.IncDecStmt:
		return x.expr(v.X, in)
	case *ast.SendStmt:
		in = x.expr(v.Chan, in)
		return x.expr(v.Value, in)
	case *ast.EmptyStmt:
		return in
	}
	if x.hasOps(st) {
		x.fail(st, fmt.Sprintf("unsupported statement form %T with lock or selector operations", st))
	}
	return in
}

func lpExtract(dir string, method string) ([]lpPath, []string) {
	fset := token.NewFileSet()
	x := &lpEx{fset: fset, funcs: map[string]*ast.FuncDecl{}, memo: map[ast.Node]bool{}}
	files, _ := filepath.Glob(filepath.Join(dir, "*.go"))
	sort.Strings(files)
	for _, f := range files {
		if strings.HasSuffix(f, "_test.go") {
			continue
		}
		af, err := parser.ParseFile(fset, f, nil, 0)
		if err != nil {
			return nil, []string{err.Error()}
		}
		for _, d := range af.Decls {
			fd, ok := d.(*ast.FuncDecl)
			if !ok || fd.Recv == nil || len(fd.Recv.List) != 1 || fd.Body == nil {
				continue
			}
			t := fd.Recv.List[0].Type
			if st, ok := t.(*ast.StarExpr); ok {
				t = st.X
			}
			if id, ok := t.(*ast.Ident); ok && id.Name == lpRecv {
				x.funcs[fd.Name.Name] = fd
			}
		}
	}
	fd, ok := x.funcs[method]
	if !ok {
		return nil, []string{"method " + lpRecv + "." + method + " not found"}
	}
	var paths []lpPath
	x.sink = &paths
	ft := x.stmts(fd.Body.List, []lpState{{}}, 0)
	x.terminate(ft, "")
	// canonical: name -> program; equal names with different programs get an index
	byName := map[string][][]string{}
	for _, p := range paths {
		n := strings.Join(p.name, "+")
		if n == "" {
			n = "base"
		}
		dup := false
		for _, q := range byName[n] {
			if strings.Join(q, ",") == strings.Join(p.ops, ",") {
				dup = true
			}
		}
		if !dup {
			byName[n] = append(byName[n], p.ops)
		}
	}
	var names []string
	for n := range byName {
		names = append(names, n)
	}
	sort.Strings(names)
	var out []lpPath
	for _, n := range names {
		for i, ops := range byName[n] {
			nm := n
			if i > 0 {
				nm = fmt.Sprintf("%s#%d", n, i+1)
			}
			out = append(out, lpPath{name: []string{nm}, ops: ops})
		}
	}
	return out, x.errs
}

func lpLean(paths []lpPath) string {
	var b strings.Builder
	for i, p := range paths {
		var ops []string
		for _, o := range p.ops {
			ops = append(ops, "."+o)
		}
		sep := ","
		if i == len(paths)-1 {
			sep = ""
		}
		fmt.Fprintf(&b, "  (%q, [%s])%s\n", p.name[0], strings.Join(ops, ", "), sep)
	}
	return b.String()
}

func TestVerifC13Gen(t *testing.T) {
	bd, e1 := lpExtract(".", "processBdReq")
	rl, e2 := lpExtract(".", "ReloadSubnets")
	if errs := append(e1, e2...); len(errs) > 0 {
		t.Fatalf("lock-program extraction failed:\n%s", strings.Join(errs, "\n"))
	}
	if len(bd) == 0 || len(rl) == 0 {
		t.Fatalf("no paths extracted (processBdReq %d, ReloadSubnets %d)", len(bd), len(rl))
	}
	var b strings.Builder
	b.WriteString("import CJ.Model.RW\n")
	b.WriteString("/-! GENERATED on every run of `./check C13` by go/harness/C13/zz_verif_c13_gen_test.go from\n")
	b.WriteString("pkg/regserver/regprocessor/*.go (go/ast) — do not edit.  One entry per path through the method:\n")
	b.WriteString("(branches taken, operations on `selectorMutex` / `ipSelector` in execution order, `defer` expanded at exit). -/\n")
	b.WriteString("namespace CJ.Gen\nopen CJ.RW\n\n")
	b.WriteString("/-- paths through `RegProcessor.processBdReq` -/\n")
	b.WriteString("def bdReqPaths : List (String × List Op) := [\n" + lpLean(bd) + "]\n\n")
	b.WriteString("/-- paths through `RegProcessor.ReloadSubnets` -/\n")
	b.WriteString("def reloadPaths : List (String × List Op) := [\n" + lpLean(rl) + "]\n\n")
	b.WriteString("def bdReqPrograms : List (List Op) := bdReqPaths.map (·.2)\n")
	b.WriteString("def reloadPrograms : List (List Op) := reloadPaths.map (·.2)\n\n")
	b.WriteString("end CJ.Gen\n")
	out := os.Getenv("VERIF_OUT")
	if out == "" {
		out = os.TempDir()
	}
	if err := os.WriteFile(filepath.Join(out, "LockPrograms.lean"), []byte(b.String()), 0o644); err != nil {
		t.Fatal(err)
	}
	t.Logf("\n%s", b.String())
}
