//go:build verif

package regprocessor

// Tie 1 for C13: extracts, from the source of this package, the lock-operation program of every path
// through every *entry point* of the package that touches a given mutex, and writes them as Lean
// definitions (CJ/Gen/LockPrograms.lean). Standard library go/ast only.
//
// The extractor is parameterised by a lock (lpSpec): the mutex field, the field it guards and the
// method whose calls are recorded. It is run twice: selectorMutex / ipSelector / Select and zmqMutex.
//
// Entry points (roots) are all exported functions and methods (plus init / main) of the package whose
// body, with the calls it makes inlined, contains an operation on the lock: code outside the package
// cannot name the unexported mutex, so every acquisition happens below one of them. Unexported
// functions and methods are inlined at their call sites (methods are resolved by the declared type of
// the receiver expression, functions by name).
//
// A program is the sequence of operations on the mutex (rlock, runlock, lock, unlock), of evaluations
// of / assignments to the guarded field (readSel, swapSel) and of calls of the recorded method (select)
// in execution order along one path; deferred calls are expanded at every function exit in LIFO order.
// Anything the walker cannot order (lock operations in loops, switches, goroutines, stored closures,
// the mutex escaping) makes the extraction fail rather than guess.
//
// The kind of an acquisition is part of the program: RLock / Lock wait (rlock, lock); TryRLock / TryLock
// do not (tryrlock, trylock) and have two outcomes. A Try* call must be the condition of an if (possibly
// negated): the branch taken when the lock was acquired continues the program after the try operation;
// the branch taken when it was not is the *failure branch*. In the model a failed try ends the thread as
// "refused" (the entry point gave up), so the failure branch must reach the exit of the entry point
// without any further operation (deferred ones included); otherwise the extraction fails. The failure
// path is not a table entry of its own (it is the other outcome of the try operation of the success
// path); in the lock-order table, which has no outcomes, it is listed without the try operation.
//
// Coverage obligation: every SelectorExpr in the non-test sources that names the mutex or the guarded
// field must have been visited from a root, or be an access through a variable that the same function
// has just constructed (composite literal / new / constructor call: the object is not shared yet).
// Anything else (an operation in a function that no entry point reaches, behind a method value, in a
// package-level initialiser) fails the extraction with the list of positions.

import (
	"bytes"
	"fmt"
	"go/ast"
	"go/parser"
	"go/printer"
	"go/token"
	"os"
	"path/filepath"
	"sort"
	"strings"
	"testing"
)

type lpSpec struct {
	mutex string   // field name of the mutex
	more  []string // further mutexes (lock-order run): their operations are recorded as op@1, op@2, …, those of mutex as op@0
	field string   // field it guards ("" = none)
	call  string   // method whose calls are recorded as `select` ("" = none)
}

var (
	lpSelector = lpSpec{mutex: "selectorMutex", field: "ipSelector", call: "Select"}
	lpZmq      = lpSpec{mutex: "zmqMutex"}
	// both mutexes in one program, lock operations only: which lock is requested while which is held
	lpOrder = lpSpec{mutex: "selectorMutex", more: []string{"zmqMutex"}}
)

// mutexIndex: 0 for the spec's mutex, k for more[k-1], -1 for any other name.
func (sp lpSpec) mutexIndex(name string) int {
	if name == sp.mutex {
		return 0
	}
	for i, m := range sp.more {
		if m == name {
			return i + 1
		}
	}
	return -1
}

type lpState struct {
	ops    []string
	defers [][]string
	name   []string
	fams   []int
	early  bool
	failAt int // 1 + number of operations performed when a Try* acquisition failed on this path; 0 = none did
}

func (s lpState) clone() lpState {
	c := lpState{ops: append([]string(nil), s.ops...), name: append([]string(nil), s.name...),
		fams: append([]int(nil), s.fams...), early: s.early, failAt: s.failAt}
	for _, d := range s.defers {
		c.defers = append(c.defers, append([]string(nil), d...))
	}
	return c
}

func (s lpState) key() string {
	var b strings.Builder
	fmt.Fprintf(&b, "%s|%v|%v|%d|%s|", strings.Join(s.name, "+"), s.fams, s.early, s.failAt, strings.Join(s.ops, ","))
	for _, d := range s.defers {
		b.WriteString(strings.Join(d, ",") + ";")
	}
	return b.String()
}

// lpPath is one path through a root: the structural attributes the driver uses to find the program
// of a request kind (families whose selection block was entered, early exit or straight through to
// the last statement of every function on the way) and the operations. The name (branch labels) is
// informational only.
type lpPath struct {
	root   string
	name   []string
	fams   []int
	early  bool
	ops    []string
	failAt int // as lpState.failAt
}

// lpPkg: the parsed non-test sources of the package.
type lpPkg struct {
	fset  *token.FileSet
	files []*ast.File
	// "Type.method" for methods, ".func" for package-level functions
	funcs map[string]*ast.FuncDecl
	keys  []string
}

func lpLoad(dir string) (*lpPkg, error) {
	pk := &lpPkg{fset: token.NewFileSet(), funcs: map[string]*ast.FuncDecl{}}
	files, _ := filepath.Glob(filepath.Join(dir, "*.go"))
	sort.Strings(files)
	for _, f := range files {
		if strings.HasSuffix(f, "_test.go") {
			continue
		}
		af, err := parser.ParseFile(pk.fset, f, nil, 0)
		if err != nil {
			return nil, err
		}
		pk.files = append(pk.files, af)
		for _, d := range af.Decls {
			fd, ok := d.(*ast.FuncDecl)
			if !ok || fd.Body == nil {
				continue
			}
			key := "." + fd.Name.Name
			if fd.Recv != nil {
				if len(fd.Recv.List) != 1 {
					continue
				}
				key = lpTypeName(fd.Recv.List[0].Type) + "." + fd.Name.Name
			}
			if fd.Name.Name == "init" && fd.Recv == nil {
				key = fmt.Sprintf(".init@%d", fd.Pos()) // there may be several
			}
			pk.funcs[key] = fd
			pk.keys = append(pk.keys, key)
		}
	}
	sort.Strings(pk.keys)
	return pk, nil
}

// lpTypeName: the type name of a receiver / parameter type expression (*T, T, T[...]); "" otherwise.
func lpTypeName(t ast.Expr) string {
	for {
		switch v := t.(type) {
		case *ast.StarExpr:
			t = v.X
			continue
		case *ast.ParenExpr:
			t = v.X
			continue
		case *ast.IndexExpr:
			t = v.X
			continue
		case *ast.Ident:
			return v.Name
		}
		return ""
	}
}

type lpEx struct {
	pk      *lpPkg
	spec    lpSpec
	errs    []string
	sink    *[]lpPath
	depth   int
	memo    map[ast.Node]bool
	busy    map[*ast.FuncDecl]bool
	last    []ast.Stmt         // per function being executed: the last statement of its body
	visited map[token.Pos]bool // SelectorExpr nodes (mutex / field) reached from a root
}

func (x *lpEx) fail(n ast.Node, msg string) {
	x.errs = append(x.errs, fmt.Sprintf("%s: %s", x.pk.fset.Position(n.Pos()), msg))
}

func lpLockOpOf(method string) string {
	switch method {
	case "RLock":
		return "rlock"
	case "RUnlock":
		return "runlock"
	case "Lock":
		return "lock"
	case "Unlock":
		return "unlock"
	case "TryRLock":
		return "tryrlock"
	case "TryLock":
		return "trylock"
	}
	return ""
}

// tryCond: cond is `X.mutex.TryRLock()` / `X.mutex.TryLock()` on a lock of the spec, possibly negated and
// parenthesised: the call, the selector naming the mutex, and whether the condition is true when the
// acquisition FAILED.
func (x *lpEx) tryCond(cond ast.Expr) (call *ast.CallExpr, inner *ast.SelectorExpr, neg bool) {
	for {
		switch v := cond.(type) {
		case *ast.ParenExpr:
			cond = v.X
			continue
		case *ast.UnaryExpr:
			if v.Op == token.NOT {
				neg = !neg
				cond = v.X
				continue
			}
		case *ast.CallExpr:
			if se, ok := v.Fun.(*ast.SelectorExpr); ok && len(v.Args) == 0 {
				if in, ok := se.X.(*ast.SelectorExpr); ok && x.spec.mutexIndex(in.Sel.Name) >= 0 && !x.isFresh(in.X) {
					if op := lpLockOpOf(se.Sel.Name); op == "tryrlock" || op == "trylock" {
						return v, in, neg
					}
				}
			}
		}
		return nil, nil, false
	}
}

func (x *lpEx) isSite(e *ast.SelectorExpr) bool {
	return x.spec.mutexIndex(e.Sel.Name) >= 0 || (x.spec.field != "" && e.Sel.Name == x.spec.field)
}

// declType: the declared type name of an identifier that is a receiver or a parameter; "" otherwise.
func lpDeclType(e ast.Expr) string {
	id, ok := e.(*ast.Ident)
	if !ok || id.Obj == nil || id.Obj.Kind != ast.Var {
		return ""
	}
	if f, ok := id.Obj.Decl.(*ast.Field); ok {
		return lpTypeName(f.Type)
	}
	return ""
}

// callee resolves a call to a function of this package: methods by the declared type of the receiver
// expression (a receiver or parameter identifier) plus method name, package-level functions by name.
func (x *lpEx) callee(c *ast.CallExpr) *ast.FuncDecl {
	switch f := c.Fun.(type) {
	case *ast.SelectorExpr:
		if t := lpDeclType(f.X); t != "" {
			return x.pk.funcs[t+"."+f.Sel.Name]
		}
	case *ast.Ident:
		if f.Obj == nil || f.Obj.Kind == ast.Fun {
			return x.pk.funcs["."+f.Name]
		}
	case *ast.ParenExpr:
		return x.callee(&ast.CallExpr{Fun: f.X, Args: c.Args})
	}
	return nil
}

// isFresh: e is a local variable that the enclosing function has just constructed — defined by
// `v := &T{…}`, `v := T{…}`, `v := new(T)`, or `v, … := f(…)` with f a package-level function of this
// package that takes no parameter of a type with methods in this package (a constructor). Accesses
// through such a variable happen before the object is shared and carry no lock obligation.
func (x *lpEx) isFresh(e ast.Expr) bool {
	id, ok := e.(*ast.Ident)
	if !ok || id.Obj == nil || id.Obj.Kind != ast.Var {
		return false
	}
	var rhs []ast.Expr
	idx := -1
	switch d := id.Obj.Decl.(type) {
	case *ast.AssignStmt:
		if d.Tok != token.DEFINE {
			return false
		}
		rhs = d.Rhs
		for i, l := range d.Lhs {
			if li, ok := l.(*ast.Ident); ok && li.Obj == id.Obj {
				idx = i
			}
		}
	case *ast.ValueSpec:
		rhs = d.Values
		for i, n := range d.Names {
			if n.Obj == id.Obj {
				idx = i
			}
		}
	default:
		return false
	}
	if idx < 0 || len(rhs) == 0 {
		return false
	}
	var r ast.Expr
	if len(rhs) == 1 {
		r = rhs[0]
		if _, isCall := r.(*ast.CallExpr); !isCall && idx != 0 {
			return false
		}
	} else if idx < len(rhs) {
		r = rhs[idx]
	} else {
		return false
	}
	if u, ok := r.(*ast.UnaryExpr); ok && u.Op == token.AND {
		r = u.X
	}
	switch v := r.(type) {
	case *ast.CompositeLit:
		return true
	case *ast.CallExpr:
		if fid, ok := v.Fun.(*ast.Ident); ok {
			if fid.Name == "new" && fid.Obj == nil {
				return true
			}
			if fid.Obj == nil || fid.Obj.Kind == ast.Fun {
				if fd := x.pk.funcs["."+fid.Name]; fd != nil {
					for _, p := range fd.Type.Params.List {
						if t := lpTypeName(p.Type); t != "" && x.hasMethods(t) {
							return false
						}
					}
					return true
				}
			}
		}
	}
	return false
}

func (x *lpEx) hasMethods(typ string) bool {
	for _, k := range x.pk.keys {
		if strings.HasPrefix(k, typ+".") {
			return true
		}
	}
	return false
}

// hasOps: does the subtree contain anything that contributes to a lock program?
func (x *lpEx) hasOps(n ast.Node) bool {
	if n == nil {
		return false
	}
	if v, ok := x.memo[n]; ok {
		return v
	}
	found := false
	ast.Inspect(n, func(m ast.Node) bool {
		if found {
			return false
		}
		switch e := m.(type) {
		case *ast.SelectorExpr:
			if x.isSite(e) && !x.isFresh(e.X) {
				found = true
			}
		case *ast.CallExpr:
			if se, ok := e.Fun.(*ast.SelectorExpr); ok && x.spec.call != "" && se.Sel.Name == x.spec.call {
				found = true
			}
			if fd := x.callee(e); fd != nil && !x.busy[fd] {
				x.busy[fd] = true
				if x.hasOps(fd.Body) {
					found = true
				}
				delete(x.busy, fd)
			}
		}
		return !found
	})
	x.memo[n] = found
	return found
}

func lpContainsReturn(n ast.Node) bool {
	found := false
	ast.Inspect(n, func(m ast.Node) bool {
		switch m.(type) {
		case *ast.ReturnStmt:
			found = true
		case *ast.FuncLit:
			return false
		}
		return !found
	})
	return found
}

func (x *lpEx) src(n ast.Node) string {
	var b bytes.Buffer
	_ = printer.Fprint(&b, x.pk.fset, n)
	return b.String()
}

// label: (informational branch label, address family whose selection block the branch guards or 0).
// The families are recognised by the protobuf getters / fields of the request (V4Support, V6Support).
func (x *lpEx) label(cond ast.Expr) (string, int) {
	s := x.src(cond)
	// a condition on a local flag: look at the expression the flag was defined by
	full := s
	ast.Inspect(cond, func(m ast.Node) bool {
		if id, ok := m.(*ast.Ident); ok && id.Obj != nil && id.Obj.Kind == ast.Var {
			if as, ok := id.Obj.Decl.(*ast.AssignStmt); ok {
				full += " " + x.src(as)
			}
		}
		return true
	})
	switch {
	case strings.Contains(full, "V4Support") && strings.Contains(full, "V6Support"):
		// both: not a per-family block
	case strings.Contains(full, "V4Support"):
		return "v4", 4
	case strings.Contains(full, "V6Support"):
		return "v6", 6
	}
	switch {
	case strings.ReplaceAll(s, " ", "") == "err!=nil":
		return "err", 0
	}
	var b strings.Builder
	for _, r := range s {
		if r >= 'a' && r <= 'z' || r >= 'A' && r <= 'Z' || r >= '0' && r <= '9' {
			b.WriteRune(r)
		}
	}
	if b.Len() > 24 {
		return b.String()[:24], 0
	}
	return b.String(), 0
}

// expr appends, to every state, the operations of evaluating e (in evaluation order).
func (x *lpEx) expr(e ast.Node, in []lpState) []lpState {
	if e == nil || !x.hasOps(e) {
		return in
	}
	switch v := e.(type) {
	case *ast.CallExpr:
		if se, ok := v.Fun.(*ast.SelectorExpr); ok {
			// mutex operation
			if inner, ok := se.X.(*ast.SelectorExpr); ok && x.spec.mutexIndex(inner.Sel.Name) >= 0 && !x.isFresh(inner.X) {
				op := lpLockOpOf(se.Sel.Name)
				if op == "" {
					x.fail(v, "unsupported operation on the mutex: "+se.Sel.Name)
					return in
				}
				if op == "tryrlock" || op == "trylock" {
					// reached only when the call is not itself the condition of an if (see stmt)
					x.fail(v, se.Sel.Name+" whose result is not tested directly by the condition of an if: the walker cannot tell the branch that holds the lock from the one that does not")
					return in
				}
				if len(x.spec.more) > 0 {
					op = fmt.Sprintf("%s@%d", op, x.spec.mutexIndex(inner.Sel.Name))
				}
				in = x.expr(inner.X, in)
				x.visited[inner.Pos()] = true
				return lpAppendOp(in, op)
			}
			// receiver first, then the arguments, then the call itself
			in = x.expr(se.X, in)
			for _, a := range v.Args {
				in = x.expr(a, in)
			}
			if x.spec.call != "" && se.Sel.Name == x.spec.call {
				return lpAppendOp(in, "select")
			}
			if fd := x.callee(v); fd != nil && x.hasOps(fd.Body) {
				return x.inline(fd, in)
			}
			return in
		}
		if _, ok := v.Fun.(*ast.FuncLit); ok {
			x.fail(v, "immediately invoked closure containing lock operations")
			return in
		}
		in = x.expr(v.Fun, in)
		for _, a := range v.Args {
			in = x.expr(a, in)
		}
		if fd := x.callee(v); fd != nil && x.hasOps(fd.Body) {
			return x.inline(fd, in)
		}
		return in
	case *ast.SelectorExpr:
		if x.isSite(v) && x.isFresh(v.X) {
			return in
		}
		if x.spec.mutexIndex(v.Sel.Name) >= 0 {
			x.fail(v, "the mutex is used other than through RLock/RUnlock/Lock/Unlock")
			return in
		}
		in = x.expr(v.X, in)
		if x.spec.field != "" && v.Sel.Name == x.spec.field {
			x.visited[v.Pos()] = true
			return lpAppendOp(in, "readSel")
		}
		return in
	case *ast.FuncLit:
		x.fail(v, "closure containing lock operations outside defer")
		return in
	case *ast.ParenExpr:
		return x.expr(v.X, in)
	case *ast.UnaryExpr:
		if v.Op == token.AND && x.hasOps(v.X) {
			x.fail(v, "address of the guarded field or its mutex taken")
			return in
		}
		return x.expr(v.X, in)
	case *ast.BinaryExpr:
		if v.Op == token.LAND || v.Op == token.LOR {
			if x.hasOps(v.Y) {
				x.fail(v, "lock operation under a short-circuit operator")
				return in
			}
		}
		in = x.expr(v.X, in)
		return x.expr(v.Y, in)
	case *ast.StarExpr:
		return x.expr(v.X, in)
	case *ast.IndexExpr:
		in = x.expr(v.X, in)
		return x.expr(v.Index, in)
	case *ast.TypeAssertExpr:
		return x.expr(v.X, in)
	case *ast.KeyValueExpr:
		in = x.expr(v.Key, in)
		return x.expr(v.Value, in)
	case *ast.CompositeLit:
		for _, el := range v.Elts {
			in = x.expr(el, in)
		}
		return in
	case *ast.SliceExpr:
		in = x.expr(v.X, in)
		in = x.expr(v.Low, in)
		in = x.expr(v.High, in)
		return x.expr(v.Max, in)
	case *ast.Ident, *ast.BasicLit:
		return in
	}
	x.fail(e, fmt.Sprintf("unsupported expression form %T with lock operations", e))
	return in
}

func lpAppendOp(in []lpState, op string) []lpState {
	out := make([]lpState, len(in))
	for i, s := range in {
		c := s.clone()
		c.ops = append(c.ops, op)
		out[i] = c
	}
	return out
}

func lpDedup(in []lpState) []lpState {
	seen := map[string]bool{}
	var out []lpState
	for _, s := range in {
		k := s.key()
		if !seen[k] {
			seen[k] = true
			out = append(out, s)
		}
	}
	return out
}

// terminate: the states leave the function being executed; early = through a return that is not the
// last statement of its body.
func (x *lpEx) terminate(states []lpState, suffix string, early bool) {
	for _, s := range states {
		ops := append([]string(nil), s.ops...)
		for i := len(s.defers) - 1; i >= 0; i-- {
			ops = append(ops, s.defers[i]...)
		}
		name := append([]string(nil), s.name...)
		if suffix != "" {
			name = append(name, suffix)
		}
		*x.sink = append(*x.sink, lpPath{name: name, ops: ops, fams: append([]int(nil), s.fams...), early: s.early || early, failAt: s.failAt})
	}
}

// run executes a function body from the given states and returns its exits.
func (x *lpEx) run(body *ast.BlockStmt, in []lpState) []lpPath {
	var sub []lpPath
	saved := x.sink
	x.sink = &sub
	var last ast.Stmt
	if n := len(body.List); n > 0 {
		last = body.List[n-1]
	}
	x.last = append(x.last, last)
	ft := x.stmts(body.List, in, 0)
	x.terminate(ft, "", false)
	x.last = x.last[:len(x.last)-1]
	x.sink = saved
	return sub
}

// inline runs the callee on every state; the callee's exits become the caller's continuations.
func (x *lpEx) inline(fd *ast.FuncDecl, in []lpState) []lpState {
	if x.depth >= 6 {
		x.fail(fd, "inlining depth exceeded (recursion?)")
		return in
	}
	var out []lpState
	for _, s := range in {
		x.depth++
		sub := x.run(fd.Body, []lpState{{ops: s.ops, name: s.name, fams: s.fams, early: s.early, failAt: s.failAt}})
		x.depth--
		for _, p := range sub {
			// a "return" marker of the callee is not an exit of the caller
			var nm []string
			for _, c := range p.name {
				if c != "return" {
					nm = append(nm, c)
				}
			}
			c := s.clone()
			c.ops = p.ops
			c.name = nm
			c.fams = p.fams
			c.early = p.early
			c.failAt = p.failAt
			out = append(out, c)
		}
	}
	return lpDedup(out)
}

// deferredOps: the operations a deferred call performs when it runs.
func (x *lpEx) deferredOps(d *ast.DeferStmt) []string {
	var body *ast.BlockStmt
	if fl, ok := d.Call.Fun.(*ast.FuncLit); ok {
		body = fl.Body
	} else {
		// the arguments were evaluated at the defer statement; only the call itself runs at exit
		body = &ast.BlockStmt{List: []ast.Stmt{&ast.ExprStmt{X: &ast.CallExpr{Fun: d.Call.Fun}}}}
	}
	sub := x.run(body, []lpState{{}})
	var progs [][]string
	seen := map[string]bool{}
	for _, p := range sub {
		k := strings.Join(p.ops, ",")
		if !seen[k] {
			seen[k] = true
			progs = append(progs, p.ops)
		}
	}
	if len(progs) != 1 {
		x.fail(d, "deferred function with branching lock operations")
		return nil
	}
	return progs[0]
}

// stmts executes a statement list on a set of states; nest = number of enclosing branching ifs.
func (x *lpEx) stmts(list []ast.Stmt, in []lpState, nest int) []lpState {
	cur := in
	for _, st := range list {
		if len(cur) == 0 {
			return cur
		}
		cur = lpDedup(x.stmt(st, cur, nest))
	}
	return cur
}

func (x *lpEx) isLast(st ast.Stmt) bool {
	return len(x.last) > 0 && x.last[len(x.last)-1] == st
}

func (x *lpEx) stmt(st ast.Stmt, in []lpState, nest int) []lpState {
	switch v := st.(type) {
	case *ast.ReturnStmt:
		for _, r := range v.Results {
			in = x.expr(r, in)
		}
		x.terminate(in, "", !x.isLast(v))
		return nil
	case *ast.DeferStmt:
		if !x.hasOps(v) {
			return in
		}
		// arguments of a deferred call are evaluated now; the call itself at exit
		if _, ok := v.Call.Fun.(*ast.FuncLit); !ok {
			for _, a := range v.Call.Args {
				in = x.expr(a, in)
			}
		}
		ops := x.deferredOps(v)
		out := make([]lpState, len(in))
		for i, s := range in {
			c := s.clone()
			c.defers = append(c.defers, ops)
			out[i] = c
		}
		return out
	case *ast.ExprStmt:
		return x.expr(v.X, in)
	case *ast.AssignStmt:
		for _, r := range v.Rhs {
			in = x.expr(r, in)
		}
		for _, l := range v.Lhs {
			if se, ok := l.(*ast.SelectorExpr); ok && x.spec.field != "" && se.Sel.Name == x.spec.field {
				if x.isFresh(se.X) {
					continue
				}
				in = x.expr(se.X, in)
				x.visited[se.Pos()] = true
				in = lpAppendOp(in, "swapSel")
				continue
			}
			in = x.expr(l, in)
		}
		return in
	case *ast.DeclStmt:
		if gd, ok := v.Decl.(*ast.GenDecl); ok {
			for _, sp := range gd.Specs {
				if vs, ok := sp.(*ast.ValueSpec); ok {
					for _, e := range vs.Values {
						in = x.expr(e, in)
					}
				}
			}
		}
		return in
	case *ast.BlockStmt:
		return x.stmts(v.List, in, nest)
	case *ast.IfStmt:
		if v.Init != nil {
			in = x.stmt(v.Init, in, nest)
		}
		if call, inner, neg := x.tryCond(v.Cond); call != nil {
			// a non-waiting acquisition: one branch holds the lock, the other does not
			op := lpLockOpOf(call.Fun.(*ast.SelectorExpr).Sel.Name)
			if len(x.spec.more) > 0 {
				op = fmt.Sprintf("%s@%d", op, x.spec.mutexIndex(inner.Sel.Name))
			}
			in = x.expr(inner.X, in)
			x.visited[inner.Pos()] = true
			got := lpAppendOp(in, op)
			for i := range got {
				got[i].name = append(got[i].name, "try")
			}
			var failed []lpState
			for _, s := range in {
				c := s.clone()
				c.name = append(c.name, "tryfail")
				if c.failAt == 0 {
					c.failAt = 1 + len(c.ops)
				}
				failed = append(failed, c)
			}
			thenIn, elseIn := got, failed
			if neg {
				thenIn, elseIn = failed, got
			}
			out := x.stmts(v.Body.List, thenIn, nest+1)
			if v.Else != nil {
				out = append(out, x.stmt(v.Else, elseIn, nest+1)...)
			} else {
				out = append(out, elseIn...)
			}
			return out
		}
		in = x.expr(v.Cond, in)
		ops := x.hasOps(v.Body) || (v.Else != nil && x.hasOps(v.Else))
		ret := lpContainsReturn(v)
		if !ops && !ret {
			return in
		}
		if !ops && nest == 0 {
			// an exit that does not depend on the lock structure: one extra path, no new branch name
			x.terminate(in, "return", true)
			return in
		}
		// branch
		lab, fam := x.label(v.Cond)
		var yes []lpState
		for _, s := range in {
			c := s.clone()
			c.name = append(c.name, lab)
			if fam != 0 {
				c.fams = append(c.fams, fam)
			}
			yes = append(yes, c)
		}
		out := x.stmts(v.Body.List, yes, nest+1)
		if v.Else != nil {
			out = append(out, x.stmt(v.Else, in, nest+1)...)
		} else {
			out = append(out, in...)
		}
		return out
	case *ast.ForStmt, *ast.RangeStmt, *ast.SwitchStmt, *ast.TypeSwitchStmt, *ast.SelectStmt:
		if x.hasOps(v) {
			x.fail(v, "lock operation inside a loop or switch: not supported by the extractor")
			return in
		}
		if lpContainsReturn(v) {
			x.terminate(in, "return", true)
		}
		return in
	case *ast.GoStmt:
		if x.hasOps(v) {
			x.fail(v, "lock operation in a goroutine started here")
		}
		return in
	case *ast.LabeledStmt:
		if x.hasOps(v) {
			x.fail(v, "labelled statement with lock operations")
			return in
		}
		return x.stmt(v.Stmt, in, nest)
	case *ast.BranchStmt:
		if v.Tok == token.GOTO {
			x.fail(v, "goto")
		}
		return in
	case *ast.IncDecStmt:
		return x.expr(v.X, in)
	case *ast.SendStmt:
		in = x.expr(v.Chan, in)
		return x.expr(v.Value, in)
	case *ast.EmptyStmt:
		return in
	}
	if x.hasOps(st) {
		x.fail(st, fmt.Sprintf("unsupported statement form %T with lock operations", st))
	}
	return in
}

// lpCoverage: per name (mutex, guarded field) the number of SelectorExpr occurrences in the non-test
// sources, how many were reached from the roots and how many are accesses through a variable that the
// same function has just constructed; everything else is reported.
type lpCov struct {
	name                   string
	total, visited, exempt int
}

func (x *lpEx) coverage() ([]lpCov, []string) {
	names := append([]string{x.spec.mutex}, x.spec.more...)
	if x.spec.field != "" {
		names = append(names, x.spec.field)
	}
	cov := map[string]*lpCov{}
	for _, n := range names {
		cov[n] = &lpCov{name: n}
	}
	var missing []string
	for _, af := range x.pk.files {
		ast.Inspect(af, func(m ast.Node) bool {
			se, ok := m.(*ast.SelectorExpr)
			if !ok || !x.isSite(se) {
				return true
			}
			c := cov[se.Sel.Name]
			c.total++
			switch {
			case x.visited[se.Pos()]:
				c.visited++
			case x.isFresh(se.X):
				c.exempt++
			default:
				missing = append(missing, fmt.Sprintf("%s: %s is used here, but no path from an exported entry point of the package reaches this expression (coverage obligation of the extractor)",
					x.pk.fset.Position(se.Pos()), x.src(se)))
			}
			return true
		})
	}
	var out []lpCov
	for _, n := range names {
		out = append(out, *cov[n])
	}
	return out, missing
}

func lpIsRoot(key string, fd *ast.FuncDecl) bool {
	n := fd.Name.Name
	return ast.IsExported(n) || (fd.Recv == nil && (n == "init" || n == "main"))
}

// lpExtract: the paths through every root of the package for one lock, in order of discovery (roots in
// sorted order, exits of one root in execution order), duplicates (same root, families, exit kind and
// operations) removed; the coverage figures; errors.
func lpExtract(pk *lpPkg, spec lpSpec) ([]lpPath, []lpCov, []string) {
	x := &lpEx{pk: pk, spec: spec, memo: map[ast.Node]bool{}, busy: map[*ast.FuncDecl]bool{}, visited: map[token.Pos]bool{}}
	var out []lpPath
	for _, key := range pk.keys {
		fd := pk.funcs[key]
		if !lpIsRoot(key, fd) || !x.hasOps(fd.Body) {
			continue
		}
		root := strings.TrimPrefix(key, ".")
		if i := strings.Index(root, "@"); i >= 0 {
			root = root[:i]
		}
		seen := map[string]bool{}
		for _, p := range x.run(fd.Body, []lpState{{}}) {
			if p.failAt > 0 && len(spec.more) == 0 {
				// the failure branch of a Try*: the other outcome of the try operation of the success path, which
				// the model ends there ("refused"); it must not do anything else before the entry point returns
				if extra := p.ops[p.failAt-1:]; len(extra) > 0 {
					x.errs = append(x.errs, fmt.Sprintf("%s: %s: after a Try* acquisition failed the path goes on to %s: not representable in the linear lock programs (the model ends a thread whose try failed)",
						pk.fset.Position(fd.Pos()), root, strings.Join(extra, ", ")))
				}
				continue
			}
			k := fmt.Sprintf("%v|%v|%s", p.fams, p.early, strings.Join(p.ops, ","))
			if seen[k] {
				continue
			}
			seen[k] = true
			p.root = root
			out = append(out, p)
		}
	}
	cov, missing := x.coverage()
	return out, cov, append(x.errs, missing...)
}

func lpLean(paths []lpPath) string {
	var b strings.Builder
	for i, p := range paths {
		var ops []string
		for _, o := range p.ops {
			ops = append(ops, "."+o)
		}
		var fams []string
		for _, f := range p.fams {
			fams = append(fams, fmt.Sprint(f))
		}
		name := strings.Join(p.name, "+")
		if name == "" {
			name = "base"
		}
		sep := ","
		if i == len(paths)-1 {
			sep = ""
		}
		fmt.Fprintf(&b, "  { root := %q, name := %q, fams := [%s], early := %v, ops := [%s] }%s\n",
			p.root, name, strings.Join(fams, ", "), p.early, strings.Join(ops, ", "), sep)
	}
	return b.String()
}

func lpLeanOrder(paths []lpPath) string {
	var b strings.Builder
	seen := map[string]bool{}
	var rows []string
	for _, p := range paths {
		var ops []string
		for _, o := range p.ops {
			i := strings.Index(o, "@")
			ops = append(ops, fmt.Sprintf("(%s, .%s)", o[i+1:], o[:i]))
		}
		row := fmt.Sprintf("  (%q, [%s])", p.root, strings.Join(ops, ", "))
		if !seen[row] {
			seen[row] = true
			rows = append(rows, row)
		}
	}
	b.WriteString(strings.Join(rows, ",\n"))
	if len(rows) > 0 {
		b.WriteString("\n")
	}
	return b.String()
}

func lpGenerate(dir string) (string, []string) {
	pk, err := lpLoad(dir)
	if err != nil {
		return "", []string{err.Error()}
	}
	sel, cov1, e1 := lpExtract(pk, lpSelector)
	zmq, cov2, e2 := lpExtract(pk, lpZmq)
	ord, _, e3 := lpExtract(pk, lpOrder)
	errs := append(e1, e2...)
	known := map[string]bool{}
	for _, e := range errs {
		known[e] = true
	}
	for _, e := range e3 {
		if !known[e] {
			errs = append(errs, e)
		}
	}
	if len(sel) == 0 {
		errs = append(errs, "no entry point of the package operates on "+lpSelector.mutex)
	}
	if len(zmq) == 0 {
		errs = append(errs, "no entry point of the package operates on "+lpZmq.mutex)
	}
	if len(errs) > 0 {
		return "", errs
	}
	var b strings.Builder
	b.WriteString("import CJ.Model.RW\n")
	b.WriteString("/-! GENERATED on every run of `./check C13` by go/harness/C13/zz_verif_c13_gen_test.go from\n")
	b.WriteString("pkg/regserver/regprocessor/*.go (go/ast) — do not edit.  One entry per path through every exported\n")
	b.WriteString("entry point of the package that (with its callees inlined) operates on the lock: families whose\n")
	b.WriteString("selection block is entered, early exit or straight through, operations in execution order (`defer`\n")
	b.WriteString("expanded at exit).  `coverage`: per name (occurrences in the sources, reached from the entry points,\n")
	b.WriteString("accesses to an object under construction). -/\n")
	b.WriteString("namespace CJ.Gen\nopen CJ.RW\n\n")
	b.WriteString("/-- paths that operate on `RegProcessor.selectorMutex` / `ipSelector` / call `Select` -/\n")
	b.WriteString("def selectorPaths : List Path := [\n" + lpLean(sel) + "]\n\n")
	b.WriteString("/-- paths that operate on `RegProcessor.zmqMutex` -/\n")
	b.WriteString("def zmqPaths : List Path := [\n" + lpLean(zmq) + "]\n\n")
	b.WriteString("/-- both mutexes in one program, lock operations only (0 = `selectorMutex`, 1 = `zmqMutex`) -/\n")
	b.WriteString("def lockOrderPaths : List (String × List (Nat × Op)) := [\n" + lpLeanOrder(ord) + "]\n\n")
	b.WriteString("def selectorPrograms : List (List Op) := selectorPaths.map (·.ops)\n")
	b.WriteString("def zmqPrograms : List (List Op) := zmqPaths.map (·.ops)\n\n")
	b.WriteString("def coverage : List (String × Nat × Nat × Nat) := [\n")
	all := append(cov1, cov2...)
	for i, c := range all {
		sep := ","
		if i == len(all)-1 {
			sep = ""
		}
		fmt.Fprintf(&b, "  (%q, %d, %d, %d)%s\n", c.name, c.total, c.visited, c.exempt, sep)
	}
	b.WriteString("]\n\nend CJ.Gen\n")
	return b.String(), nil
}

func TestVerifC13Gen(t *testing.T) {
	src, errs := lpGenerate(".")
	if len(errs) > 0 {
		t.Fatalf("lock-program extraction failed:\n%s", strings.Join(errs, "\n"))
	}
	out := os.Getenv("VERIF_OUT")
	if out == "" {
		out = os.TempDir()
	}
	if err := os.WriteFile(filepath.Join(out, "LockPrograms.lean"), []byte(src), 0o644); err != nil {
		t.Fatal(err)
	}
	t.Logf("\n%s", src)
}
