//go:build verif

package main

// C13, the whole reload path: the real main() of the registration server runs in-process (in a child of
// the test process), is reloaded with real SIGHUPs and serves real API (HTTP) and DNS (UDP) registrations.
//
// What is controlled, and how (no sleeps in any verdict):
//   - the configuration file (-config) is a named pipe: a reload has *started* when the handler has opened
//     it for reading, and the harness decides when the handler gets the content (gate `c`); the ClientConf
//     file and the phantom-subnet file can be named pipes as well (gates `k`, `s`), so the handler can be
//     held inside loadConfig and inside ReloadSubnets while registrations are sent;
//   - a logrus hook on the standard logger parks a chosen request goroutine at its j-th log line (the
//     points between the steps of a request: before the generation check, inside it, after the processor);
//   - after every event the harness waits until the registrar is *settled*: one stop-the-world goroutine
//     dump in which the SIGHUP goroutine is idle (receiving from its channel), held at a pipe, or blocked
//     in a sync mutex, and every unanswered request is visible as a goroutine parked at the hook or blocked
//     in a sync mutex.
//
// Oracles (independent of any model):
//   - C13:deadlock:*         after every gate has been released something is still blocked in a mutex
//   - C13:not-answered:*     a request's outcome (answered or not, and from which version of the subnet
//                            file both addresses come) is not one of the outcomes that the same request has
//                            when it runs alone against one of the configurations in force before / after the
//                            reloads it overlapped (measured by probe rounds at every quiescent point)
//   - C13:mixed-versions     the two addresses of one response come from two versions of the subnet file
//   - C13:reload-ignored     a reload whose files are all valid has no effect (also: the SIGHUP goroutine
//                            has ended, or does not pick the signal up); every scenario ends with such a reload
//   - C13:registrar-exited   the reload path ended the process
//
// Scenario line (replayable): main|<event>;<event>;…
//   F:<sub>/<cc>/<conf>[/<gates>]  files for the next reload. sub: v<k>[.<gen>…] | bad | none | dir | same;
//                                  cc: g<N> | bad | none | same; conf: ok | bad; gates: subset of "cks"
//   H            send SIGHUP, wait until the handler has picked it up and the registrar is settled
//   Gc Gk Gs     release a pipe gate
//   Q<id>:<kind> send a request and wait until it is answered or blocked
//   P<id>:<kind>@<j>  send a request that is parked at its j-th log line
//   L<id>        release a parked request
//   S<n>:<kinds> n requests of each kind (comma separated) sent concurrently with everything that follows
//                up to the next quiescent point (ungated stress)
// Request kind: <entry><families>g<generation>; entry a = API bidirectional, u = API unidirectional,
// d = DNS bidirectional, e = DNS unidirectional; families 4 | 6 | 46.

import (
	"bytes"
	"encoding/binary"
	"fmt"
	"io"
	"net"
	"net/http"
	"os"
	"reflect"
	"runtime"
	"sort"
	"strconv"
	"strings"
	"sync"
	"sync/atomic"
	"syscall"
	"time"

	"github.com/refraction-networking/conjure/pkg/core"
	"github.com/refraction-networking/conjure/pkg/registrars/dns-registrar/requester"
	pb "github.com/refraction-networking/conjure/proto"
	log "github.com/sirupsen/logrus"
	"google.golang.org/protobuf/proto"
)

// ---------------------------------------------------------------------------------------------
// files

const (
	c13mGenOld    = 90   // in every valid subnet file, below every ClientConf generation
	c13mGenFuture = 9000 // in every valid subnet file, above every ClientConf generation
	c13mDomain    = "r.example.com"
)

func c13mSubnets(k int, gens []int) string {
	all := map[int]bool{c13mGenOld: true, c13mGenFuture: true}
	for _, g := range gens {
		all[g] = true
	}
	var gs []int
	for g := range all {
		gs = append(gs, g)
	}
	sort.Ints(gs)
	var b strings.Builder
	b.WriteString("[Networks]\n")
	for _, g := range gs {
		fmt.Fprintf(&b, "  [Networks.%d]\n    Generation = %d\n    [[Networks.%d.WeightedSubnets]]\n      Weight = 1\n      Subnets = [\"10.%d.%d.0/24\", \"2001:db8:%x::/64\"]\n",
			g, g, g, k/256, k%256, k)
	}
	return b.String()
}

func c13mVer4(a uint32) int { return int(a>>16&0xff)*256 + int(a>>8&0xff) }
func c13mVer6(b []byte) int {
	if len(b) != 16 {
		return -1
	}
	return int(b[4])*256 + int(b[5])
}

type c13mEnv struct {
	dir                       string
	confFifo                  string
	ccFile, ccFifo            string
	subFile, subFifo, subDir  string
	keyPath                   string
	apiPort, zmqPort, dnsPort int
	dnsPub                    []byte
	hook                      *c13mHook
	handlerGID                int64
	exited                    atomic.Value // string: the process was asked to exit (logrus ExitFunc)
	secretCtr                 atomic.Uint64
	dnsPool                   chan *requester.Requester
}

func c13mWrite(path string, data []byte) error {
	tmp := path + ".tmp"
	if err := os.WriteFile(tmp, data, 0o600); err != nil {
		return err
	}
	return os.Rename(tmp, path)
}

func c13mFreeTCP() int {
	l, err := net.Listen("tcp", "127.0.0.1:0")
	if err != nil {
		panic(err)
	}
	defer l.Close()
	return l.Addr().(*net.TCPAddr).Port
}

func c13mFreeUDP() int {
	c, err := net.ListenPacket("udp", "127.0.0.1:0")
	if err != nil {
		panic(err)
	}
	defer c.Close()
	return c.LocalAddr().(*net.UDPAddr).Port
}

func (e *c13mEnv) confText(ccPath string, bad bool) string {
	if bad {
		return "log_level = \"trace\"\napi_port = [this is not toml\n"
	}
	return fmt.Sprintf(`
log_level = "trace"
log_metrics_interval = 3600
api_port = %d
zmq_port = %d
zmq_bind_addr = "127.0.0.1"
zmq_privkey_path = %q
zmq_auth_type = "NULL"
dns_listen_addr = "127.0.0.1:%d"
domain = %q
dns_private_key_path = %q
clientconf_path = %q
`, e.apiPort, e.zmqPort, e.keyPath, e.dnsPort, c13mDomain, e.keyPath, ccPath)
}

// ---------------------------------------------------------------------------------------------
// pipe feeders: the write end of a named pipe the registrar reads a file from

type c13mFeeder struct {
	path     string
	content  []byte
	gated    bool
	opened   atomic.Bool // the registrar has opened the pipe for reading
	released atomic.Bool // the content has been written and the pipe closed
	release  chan struct{}
	cancel   chan struct{}
	done     chan struct{}
}

func c13mFeed(path string, content []byte, gated bool) *c13mFeeder {
	f := &c13mFeeder{path: path, content: content, gated: gated, release: make(chan struct{}), cancel: make(chan struct{}), done: make(chan struct{})}
	go func() {
		defer close(f.done)
		var fd int
		for spin := 0; ; spin++ {
			var err error
			fd, err = syscall.Open(path, syscall.O_WRONLY|syscall.O_NONBLOCK, 0)
			if err == nil {
				break
			}
			select {
			case <-f.cancel:
				return
			default:
			}
			if spin < 200 {
				runtime.Gosched()
			} else {
				time.Sleep(200 * time.Microsecond)
			}
		}
		if !gated {
			f.released.Store(true)
		}
		f.opened.Store(true)
		w := os.NewFile(uintptr(fd), path)
		if gated {
			select {
			case <-f.release:
			case <-f.cancel:
			}
		}
		// `released` is set before the content is written (by open / stop): from then on the reader is not
		// considered held at this pipe any more
		f.released.Store(true)
		_, _ = w.Write(f.content)
		_ = w.Close()
	}()
	return f
}

func (f *c13mFeeder) holding() bool { return f != nil && f.opened.Load() && !f.released.Load() }

func (f *c13mFeeder) open() {
	if f == nil {
		return
	}
	f.released.Store(true)
	select {
	case <-f.release:
	default:
		close(f.release)
	}
}

func (f *c13mFeeder) stop() {
	if f == nil {
		return
	}
	select {
	case <-f.cancel:
	default:
		close(f.cancel)
	}
	<-f.done
}

// ---------------------------------------------------------------------------------------------
// the log hook: parks a request goroutine at its j-th log line

func c13mGID() int64 {
	var buf [64]byte
	n := runtime.Stack(buf[:], false)
	f := strings.Fields(string(buf[:n]))
	id, _ := strconv.ParseInt(f[1], 10, 64)
	return id
}

var c13mReqFrames = []string{"(*APIRegServer).registerBidirectional(", "(*APIRegServer).register(", "(*DNSRegServer).processRequest("}

type c13mArm struct {
	frame   string // which entry point the request goes through
	at      int
	gid     int64
	n       int
	parked  atomic.Bool
	release chan struct{}
}

type c13mHook struct {
	mu          sync.Mutex
	arms        []*c13mArm
	handlerGID  atomic.Int64
	handlerLogs []string
}

func (h *c13mHook) Levels() []log.Level { return log.AllLevels }

func (h *c13mHook) Fire(e *log.Entry) error {
	gid := c13mGID()
	if gid == h.handlerGID.Load() {
		h.mu.Lock()
		if len(h.handlerLogs) < 200 {
			h.handlerLogs = append(h.handlerLogs, e.Message)
		}
		h.mu.Unlock()
		return nil
	}
	h.mu.Lock()
	var mine *c13mArm
	for _, a := range h.arms {
		if a.gid == gid {
			mine = a
		}
	}
	if mine == nil {
		for _, a := range h.arms {
			if a.gid == 0 {
				buf := make([]byte, 16384)
				n := runtime.Stack(buf, false)
				if bytes.Contains(buf[:n], []byte(a.frame)) {
					a.gid = gid
					mine = a
				}
				break
			}
		}
	}
	park := false
	if mine != nil {
		mine.n++
		park = mine.n == mine.at
	}
	h.mu.Unlock()
	if park {
		mine.parked.Store(true)
		c13mHookGate(mine.release)
		mine.parked.Store(false)
	}
	return nil
}

//go:noinline
func c13mHookGate(ch chan struct{}) { <-ch }

func (h *c13mHook) arm(frame string, at int) *c13mArm {
	a := &c13mArm{frame: frame, at: at, release: make(chan struct{})}
	h.mu.Lock()
	h.arms = append(h.arms, a)
	h.mu.Unlock()
	return a
}

func (h *c13mHook) disarm(a *c13mArm) {
	h.mu.Lock()
	for i, x := range h.arms {
		if x == a {
			h.arms = append(h.arms[:i], h.arms[i+1:]...)
			break
		}
	}
	h.mu.Unlock()
}

func (h *c13mHook) takeHandlerLogs() []string {
	h.mu.Lock()
	defer h.mu.Unlock()
	l := h.handlerLogs
	h.handlerLogs = nil
	return l
}

// ---------------------------------------------------------------------------------------------
// goroutine states from one stop-the-world dump

var c13mDumpBuf = make([]byte, 1<<20)

type c13mG struct {
	id     int64
	status string
	text   string
}

func c13mDumpAll() []c13mG {
	for {
		n := runtime.Stack(c13mDumpBuf, true)
		if n < len(c13mDumpBuf) {
			c13mDumpBuf = c13mDumpBuf[:n]
			break
		}
		c13mDumpBuf = make([]byte, 2*len(c13mDumpBuf))
	}
	var res []c13mG
	for _, blk := range bytes.Split(c13mDumpBuf, []byte("\n\n")) {
		if !bytes.HasPrefix(blk, []byte("goroutine ")) {
			continue
		}
		sp := bytes.IndexByte(blk[10:], ' ')
		if sp < 0 {
			continue
		}
		id, err := strconv.ParseInt(string(blk[10:10+sp]), 10, 64)
		if err != nil {
			continue
		}
		s := string(blk)
		lb, rb := strings.IndexByte(s, '['), strings.IndexByte(s, ']')
		status := ""
		if lb >= 0 && rb > lb {
			status = s[lb+1 : rb]
			if c := strings.IndexByte(status, ','); c >= 0 {
				status = status[:c]
			}
		}
		res = append(res, c13mG{id: id, status: status, text: s})
	}
	c13mDumpBuf = c13mDumpBuf[:cap(c13mDumpBuf)]
	return res
}

// wait-reason strings of goroutines blocked in sync.RWMutex / sync.Mutex (learnt from probes at start-up)
var c13mWaitStatus = map[string]bool{"sync.RWMutex.RLock": true, "sync.RWMutex.Lock": true, "sync.Mutex.Lock": true, "semacquire": true}

func c13mCalibrate() error {
	var rwR, rwW sync.RWMutex
	var mu sync.Mutex
	rwR.Lock()
	rwW.RLock()
	mu.Lock()
	frames := []string{"sync.(*RWMutex).RLock", "sync.(*RWMutex).Lock", "sync.(*Mutex).Lock"}
	gids := make([]atomic.Int64, 3)
	done := make(chan struct{}, 3)
	for i := 0; i < 3; i++ {
		ready := make(chan struct{})
		go func(i int) {
			gids[i].Store(c13mGID())
			close(ready)
			switch i {
			case 0:
				rwR.RLock()
				rwR.RUnlock()
			case 1:
				rwW.Lock()
				rwW.Unlock()
			case 2:
				mu.Lock()
				mu.Unlock()
			}
			done <- struct{}{}
		}(i)
		<-ready
	}
	deadline := time.Now().Add(2 * time.Minute)
	learnt := map[int]string{}
	for len(learnt) < 3 {
		for _, g := range c13mDumpAll() {
			for i := range gids {
				if g.id != gids[i].Load() {
					continue
				}
				switch g.status {
				case "", "running", "runnable", "syscall", "idle", "dead", "copystack", "preempted":
					continue
				}
				if strings.Contains(g.text, frames[i]) {
					learnt[i] = g.status
				}
			}
		}
		if len(learnt) < 3 {
			if time.Now().After(deadline) {
				return fmt.Errorf("cannot recognise goroutines blocked in sync mutexes in the goroutine dump (learnt %v)", learnt)
			}
			time.Sleep(200 * time.Microsecond)
		}
	}
	for _, st := range learnt {
		c13mWaitStatus[st] = true
	}
	rwR.Unlock()
	rwW.RUnlock()
	mu.Unlock()
	for i := 0; i < 3; i++ {
		<-done
	}
	return nil
}

// c13mMainPkg: the name the package under test has in stack traces of the test binary ("…/cmd/regserver")
var c13mMainPkg = func() string {
	n := runtime.FuncForPC(reflect.ValueOf(main).Pointer()).Name()
	return strings.TrimSuffix(n, ".main")
}()

// which sync operation a blocked goroutine waits in, and the innermost function of the repository on its stack
func c13mWhere(text string) (string, string) {
	op := ""
	switch {
	case strings.Contains(text, "sync.(*RWMutex).RLock"):
		op = "RLock"
	case strings.Contains(text, "sync.(*RWMutex).Lock"):
		op = "Lock"
	case strings.Contains(text, "sync.(*Mutex).Lock"):
		op = "MutexLock"
	}
	fn := ""
	for _, ln := range strings.Split(text, "\n") {
		if strings.HasPrefix(ln, "github.com/refraction-networking/conjure/pkg/") || (strings.HasPrefix(ln, c13mMainPkg+".") && !strings.Contains(ln, "c13m")) {
			fn = ln
			if i := strings.LastIndex(fn, "("); i > 0 {
				fn = fn[:i]
			}
			if i := strings.LastIndex(fn, "/"); i >= 0 {
				fn = fn[i+1:]
			}
			break
		}
	}
	return op, fn
}

type c13mHState int

const (
	c13mHGone c13mHState = iota
	c13mHIdle
	c13mHBlocked
	c13mHIO
	c13mHBusy
)

type c13mSnap struct {
	handler     c13mHState
	handlerText string
	parked      int
	blocked     []c13mG
	busy        int
}

func (e *c13mEnv) snapshot() c13mSnap {
	var s c13mSnap
	for _, g := range c13mDumpAll() {
		if g.id == e.handlerGID {
			s.handlerText = g.text
			switch {
			case g.status == "chan receive" && !strings.Contains(g.text, "refraction-networking/conjure/pkg/") && !strings.Contains(g.text, "c13mHook"):
				s.handler = c13mHIdle
			case c13mWaitStatus[g.status] && strings.Contains(g.text, "sync.(*"):
				s.handler = c13mHBlocked
			case g.status == "IO wait" || g.status == "syscall":
				s.handler = c13mHIO
			default:
				s.handler = c13mHBusy
			}
			continue
		}
		isReq := false
		for _, f := range c13mReqFrames {
			if strings.Contains(g.text, f) {
				isReq = true
			}
		}
		if !isReq {
			continue
		}
		switch {
		case g.status == "chan receive" && strings.Contains(g.text, "c13mHookGate("):
			s.parked++
		case c13mWaitStatus[g.status] && strings.Contains(g.text, "sync.(*"):
			s.blocked = append(s.blocked, g)
		default:
			s.busy++
		}
	}
	return s
}

// ---------------------------------------------------------------------------------------------
// requests

type c13mKind struct {
	spec   string
	entry  byte // a u d e
	v4, v6 bool
	gen    uint32
}

func c13mParseKind(s string) (c13mKind, error) {
	k := c13mKind{spec: s}
	if len(s) < 4 {
		return k, fmt.Errorf("bad request kind %q", s)
	}
	k.entry = s[0]
	if !strings.ContainsRune("aude", rune(k.entry)) {
		return k, fmt.Errorf("bad request kind %q", s)
	}
	i := strings.IndexByte(s, 'g')
	if i < 2 {
		return k, fmt.Errorf("bad request kind %q", s)
	}
	switch s[1:i] {
	case "4":
		k.v4 = true
	case "6":
		k.v6 = true
	case "46":
		k.v4, k.v6 = true, true
	default:
		return k, fmt.Errorf("bad request kind %q", s)
	}
	g, err := strconv.ParseUint(s[i+1:], 10, 32)
	if err != nil {
		return k, fmt.Errorf("bad request kind %q", s)
	}
	k.gen = uint32(g)
	return k, nil
}

func (k c13mKind) frame() string {
	switch k.entry {
	case 'a':
		return c13mReqFrames[0]
	case 'u':
		return c13mReqFrames[1]
	}
	return c13mReqFrames[2]
}

type c13mReq struct {
	id      string
	kind    c13mKind
	started atomic.Bool
	done    atomic.Bool
	outcome string // full canonical outcome
	judged  string // what the oracle compares: answered or not, and the version(s) of the subnet file
	mixed   bool
	lo, hi  int // probe rounds that delimit the request
	arm     *c13mArm
	dns     *requester.Requester
	sentAt  time.Time
	probe   bool
	stress  bool
	ctx     *c13mCtx // the reload that was in flight when the request was sent, and where it was held
	phase   string
}

func (e *c13mEnv) wrapper(k c13mKind) *pb.C2SWrapper {
	secret := make([]byte, 32)
	binary.BigEndian.PutUint64(secret, e.secretCtr.Add(1))
	copy(secret[8:], "verif-c13-main-request..")
	tr := pb.TransportType_Min
	w := &pb.C2SWrapper{
		SharedSecret: secret,
		RegistrationPayload: &pb.ClientToStation{
			Transport:           &tr,
			DecoyListGeneration: proto.Uint32(k.gen),
			CovertAddress:       proto.String("192.0.2.1:443"),
			V4Support:           proto.Bool(k.v4),
			V6Support:           proto.Bool(k.v6),
			ClientLibVersion:    proto.Uint32(core.CurrentClientLibraryVersion()),
		},
	}
	switch k.entry {
	case 'd':
		src := pb.RegistrationSource_BidirectionalDNS
		w.RegistrationSource = &src
	case 'e':
		src := pb.RegistrationSource_DNS
		w.RegistrationSource = &src
	}
	return w
}

func c13mAddrs(rr *pb.RegistrationResponse, k c13mKind) (string, bool) {
	var f []string
	k4, k6 := -1, -1
	if rr.Ipv4Addr != nil {
		k4 = c13mVer4(rr.GetIpv4Addr())
		f = append(f, fmt.Sprintf("4=%d", k4))
	}
	if len(rr.GetIpv6Addr()) > 0 {
		k6 = c13mVer6(rr.GetIpv6Addr())
		f = append(f, fmt.Sprintf("6=%d", k6))
	}
	if (k.v4 && k4 < 0) || (k.v6 && k6 < 0) {
		f = append(f, "missing")
	}
	return strings.Join(f, "."), k4 >= 0 && k6 >= 0 && k4 != k6
}

// perform runs one request to completion (in the caller's goroutine).
func (e *c13mEnv) perform(r *c13mReq) {
	k := r.kind
	body, err := proto.Marshal(e.wrapper(k))
	if err != nil {
		r.outcome, r.judged = "harness:"+err.Error(), "harness"
		return
	}
	switch k.entry {
	case 'a', 'u':
		path := "/register-bidirectional"
		if k.entry == 'u' {
			path = "/register"
		}
		client := &http.Client{Transport: &http.Transport{DisableKeepAlives: true}}
		resp, err := client.Post(fmt.Sprintf("http://127.0.0.1:%d%s", e.apiPort, path), "application/octet-stream", bytes.NewReader(body))
		if err != nil {
			r.outcome, r.judged = "noanswer:"+err.Error(), "noanswer"
			return
		}
		raw, _ := io.ReadAll(resp.Body)
		resp.Body.Close()
		if k.entry == 'u' {
			if resp.StatusCode == http.StatusNoContent {
				r.outcome, r.judged = "ok", "ok"
			} else {
				r.outcome, r.judged = fmt.Sprintf("fail:%d", resp.StatusCode), "fail"
			}
			return
		}
		if resp.StatusCode != http.StatusOK {
			r.outcome, r.judged = fmt.Sprintf("fail:%d", resp.StatusCode), "fail"
			return
		}
		rr := &pb.RegistrationResponse{}
		if err := proto.Unmarshal(raw, rr); err != nil {
			r.outcome, r.judged = "fail:undecodable", "fail"
			return
		}
		a, mixed := c13mAddrs(rr, k)
		r.mixed = mixed
		cc := "-"
		if rr.ClientConf != nil {
			cc = fmt.Sprint(rr.GetClientConf().GetGeneration())
		}
		r.outcome, r.judged = "ok:"+a+":cc="+cc, "ok:"+a
	default:
		// Requesters are reused (one exchange at a time each): the library leaves the send loop of a requester
		// behind for good, so a requester per request would fill the process with goroutines.
		var rq *requester.Requester
		select {
		case rq = <-e.dnsPool:
		default:
			var err error
			rq, err = requester.NewRequester(&requester.Config{TransportMethod: requester.UDP, Target: fmt.Sprintf("127.0.0.1:%d", e.dnsPort), BaseDomain: c13mDomain, Pubkey: e.dnsPub})
			if err != nil {
				r.outcome, r.judged = "harness:"+err.Error(), "harness"
				return
			}
		}
		r.dns = rq
		raw, err := rq.RequestAndRecv(body)
		if err != nil {
			_ = rq.Close()
			r.outcome, r.judged = "noanswer:"+err.Error(), "noanswer"
			return
		}
		select {
		case e.dnsPool <- rq:
		default:
			_ = rq.Close()
		}
		dr := &pb.DnsResponse{}
		if err := proto.Unmarshal(raw, dr); err != nil {
			r.outcome, r.judged = "fail:undecodable", "fail"
			return
		}
		if !dr.GetSuccess() {
			r.outcome, r.judged = "fail", "fail"
			return
		}
		if k.entry == 'e' {
			r.outcome, r.judged = fmt.Sprintf("ok:out=%v", dr.GetClientconfOutdated()), "ok"
			return
		}
		if dr.BidirectionalResponse == nil {
			r.outcome, r.judged = "fail:no-response-body", "fail"
			return
		}
		a, mixed := c13mAddrs(dr.BidirectionalResponse, k)
		r.mixed = mixed
		r.outcome, r.judged = fmt.Sprintf("ok:%s:out=%v", a, dr.GetClientconfOutdated()), "ok:"+a
	}
}
