//go:build verif

package apiregserver

// C13, the request path beyond the locks: the real APIRegServer.registerBidirectional / register in front of a
// real RegProcessor (no zmq; scripted first selector and sender, real ReloadSubnets for the reloads that land
// inside a selection), against the Lean model CJ/Model/BdReq.lean (driver line `bdreq|…`).
//
// Oracle (computed from the HTTP answer, the sender and a recording wrapper around the processor - not from the
// model): the handler returns with one status of the fixed set; a success status iff the processor returned no
// error, and then exactly one registration was published; a RegistrationResponse in the body iff the status is
// 200, with an address for exactly the families asked for; the addresses of one response come from one subnet
// set; an outdated client is sent the server's ClientConf.

import (
	"bufio"
	"bytes"
	"errors"
	"fmt"
	"io"
	"net"
	"net/http/httptest"
	"os"
	"path/filepath"
	"strings"
	"testing"
	"time"

	zmq "github.com/pebbe/zmq4"
	"github.com/refraction-networking/conjure/internal/vlib"
	"github.com/refraction-networking/conjure/pkg/metrics"
	"github.com/refraction-networking/conjure/pkg/phantoms"
	"github.com/refraction-networking/conjure/pkg/regserver/regprocessor"
	"github.com/refraction-networking/conjure/pkg/transports/wrapping/min"
	pb "github.com/refraction-networking/conjure/proto"
	log "github.com/sirupsen/logrus"
	"google.golang.org/protobuf/proto"
	"google.golang.org/protobuf/types/known/anypb"
)

var c13aDir string

// subnet file of version k knowing the generations gens; the addresses of version k are 10.<k/256>.<k%256>.x and 2001:db8:<k>::x
func c13aFile(k int, gens []int) string {
	p := filepath.Join(c13aDir, fmt.Sprintf("phantoms_v%d_%s.toml", k, strings.Trim(strings.Replace(fmt.Sprint(gens), " ", "_", -1), "[]")))
	if _, err := os.Stat(p); err == nil {
		return p
	}
	var b strings.Builder
	b.WriteString("[Networks]\n")
	for _, g := range gens {
		fmt.Fprintf(&b, "    [Networks.%d]\n        Generation = %d\n        [[Networks.%d.WeightedSubnets]]\n            Weight = 1\n            Subnets = [\"10.%d.%d.0/24\", \"2001:db8:%x::/64\"]\n",
			g, g, g, k/256, k%256, k)
	}
	if err := os.WriteFile(p, []byte(b.String()), 0o644); err != nil {
		panic(err)
	}
	return p
}

func c13aVer4(a uint32) int { return int(a>>16&0xff)*256 + int(a>>8&0xff) }
func c13aVer6(b []byte) int {
	if len(b) != 16 {
		return -1
	}
	return int(b[4])*256 + int(b[5])
}

type c13aAsk struct {
	v6       bool
	gen, ver int
}

// the scripted first selector: version, generations it knows, outcome per family, a hook run inside the n-th call
type c13aSel struct {
	ver          int
	gens         map[int]bool
	out4, out6   string
	calls        int
	inCall       func(n int)
	asks         *[]c13aAsk
}

var c13aErrs = map[string]error{
	"other":   errors.New("c13a: scripted selection failure"),
	"missing": phantoms.ErrLegacyMissingAddrs,
	"v0":      phantoms.ErrLegacyV0SelectionBug,
	"addrsel": phantoms.ErrLegacyAddrSelectBug,
}

func (s *c13aSel) Select(seed []byte, gen uint, ver uint, v6 bool) (*phantoms.PhantomIP, error) {
	s.calls++
	*s.asks = append(*s.asks, c13aAsk{v6, int(gen), s.ver})
	if s.inCall != nil {
		s.inCall(s.calls)
	}
	if !s.gens[int(gen)] {
		return nil, fmt.Errorf("c13a: generation %d unknown", gen)
	}
	o := s.out4
	if v6 {
		o = s.out6
	}
	if o != "ok" {
		return nil, c13aErrs[o]
	}
	if v6 {
		return phantoms.IP(net.ParseIP(fmt.Sprintf("2001:db8:%x::7", s.ver)), true), nil
	}
	return phantoms.IP(net.IPv4(10, byte(s.ver/256), byte(s.ver%256), 7), true), nil
}

type c13aSender struct {
	fail bool
	n    int
}

func (s *c13aSender) SendBytes(b []byte, f zmq.Flag) (int, error) {
	if s.fail {
		return 0, errors.New("c13a: scripted send failure")
	}
	s.n++
	return len(b), nil
}
func (s *c13aSender) Close() error { return nil }

// recording wrapper: what the processor returned to the handler
type c13aRec struct {
	p      *regprocessor.RegProcessor
	called int
	err    error
	gen    uint32
}

func (c *c13aRec) RegisterUnidirectional(w *pb.C2SWrapper, s pb.RegistrationSource, a []byte) error {
	c.called++
	c.err = c.p.RegisterUnidirectional(w, s, a)
	return c.err
}
func (c *c13aRec) RegisterBidirectional(w *pb.C2SWrapper, s pb.RegistrationSource, a []byte) (*pb.RegistrationResponse, error) {
	c.called++
	c.gen = w.GetRegistrationPayload().GetDecoyListGeneration()
	r, err := c.p.RegisterBidirectional(w, s, a)
	c.err = err
	return r, err
}

type c13aCase struct {
	bidi                      bool
	remote, xff, method       string
	garbage                   int // >0: the body is that many random bytes
	truncate                  int // >0: the body is cut to that length
	payload                   bool
	gen                       int
	v4, v6                    bool
	out4, out6                string
	transport                 pb.TransportType
	badParams                 bool
	secretLen                 int
	send                      bool
	cc                        int // server ClientConf generation, -1 = none
	ver                       int
	gens                      []int
	reload                    string // "-", "in1", "in2", "bad1" (a reload that fails inside the first selection)
	newVer                    int
	newGens                   []int
}

func c13aGens(r *vlib.Rand) []int {
	var g []int
	for i := 1; i <= 6; i++ {
		if r.Chance(2, 3) {
			g = append(g, i)
		}
	}
	return g
}

func c13aRandom(r *vlib.Rand, i int) c13aCase {
	c := c13aCase{bidi: r.Chance(4, 5), remote: "198.51.100.7:4455", method: "POST", payload: true, gen: r.Intn(7),
		v4: r.Chance(3, 4), v6: r.Chance(3, 4), out4: "ok", out6: "ok", transport: pb.TransportType_Min, secretLen: 32,
		send: true, cc: 3, ver: 1 + r.Intn(300), reload: "-"}
	c.gens = c13aGens(r)
	c.newGens = c13aGens(r)
	if len(c.newGens) == 0 {
		c.newGens = []int{1 + r.Intn(6)}
	}
	c.newVer = c.ver + 1 + r.Intn(5)
	outs := []string{"other", "missing", "v0", "addrsel"}
	// mostly valid, each dimension off with a small probability; a malformed stream every 7th case
	m := 10
	if i%7 == 0 {
		m = 2
	}
	if r.Chance(1, m) {
		c.remote = []string{"bogus", "", "[2001:db8::9]:1", "203.0.113.5", ":80"}[r.Intn(5)]
	}
	if r.Chance(1, m) {
		c.xff = []string{"203.0.113.77", "junk", "198.51.100.1, 203.0.113.9", ""}[r.Intn(4)]
	}
	if r.Chance(1, m) {
		c.method = []string{"GET", "PUT", "HEAD", "post"}[r.Intn(4)]
	}
	if r.Chance(1, m) {
		c.garbage = []int{0, 5, 32, 33, 34, 60, 200}[r.Intn(7)]
		if c.garbage == 0 {
			c.truncate = 1 + r.Intn(40)
		}
	}
	if r.Chance(1, m) {
		c.payload = false
	}
	if r.Chance(1, 5) {
		c.out4 = outs[r.Intn(4)]
	}
	if r.Chance(1, 5) {
		c.out6 = outs[r.Intn(4)]
	}
	if r.Chance(1, m) {
		c.transport = []pb.TransportType{pb.TransportType_Obfs4, pb.TransportType_Prefix, pb.TransportType_Null}[r.Intn(3)]
	}
	if r.Chance(1, m) {
		c.badParams = true
	}
	if r.Chance(1, m) {
		c.secretLen = []int{0, 1, 7, 8, 9, 16}[r.Intn(6)]
	}
	if r.Chance(1, m) {
		c.send = false
	}
	if r.Chance(1, 3) {
		c.cc = []int{-1, 0, 1, 5, 6, 9}[r.Intn(6)]
	}
	if r.Chance(1, 2) {
		c.reload = []string{"in1", "in2", "bad1"}[r.Intn(3)]
	}
	return c
}

// the systematic part: entry point x families x outcome per family x reload point x client generation x server generation
func c13aGrid() []c13aCase {
	var l []c13aCase
	outs := []string{"ok", "other", "missing", "v0", "addrsel"}
	for _, bidi := range []bool{true, false} {
		for fam := 0; fam < 4; fam++ {
			for _, o4 := range outs {
				for _, o6 := range outs {
					for _, rl := range []string{"-", "in1", "in2", "bad1"} {
						for _, gen := range []int{1, 3, 5} {
							for _, cc := range []int{-1, 3} {
								if !bidi && (o4 != "ok" || o6 != "ok" || rl != "-" || gen != 1) {
									continue
								}
								l = append(l, c13aCase{bidi: bidi, remote: "198.51.100.7:4455", method: "POST", payload: true, gen: gen,
									v4: fam&1 != 0, v6: fam&2 != 0, out4: o4, out6: o6, transport: pb.TransportType_Min, secretLen: 32, send: true,
									cc: cc, ver: 7, gens: []int{1, 3}, reload: rl, newVer: 8, newGens: []int{1, 3, 5}})
							}
						}
					}
				}
			}
		}
	}
	return l
}

func c13aSnap(v int, g []int) string {
	s := make([]string, len(g))
	for i, x := range g {
		s[i] = fmt.Sprint(x)
	}
	return fmt.Sprintf("%d:%s", v, strings.Join(s, "."))
}

type c13aResult struct {
	line, answer string
	ok           bool
	fails        [][2]string
}

func c13aRun(s *APIRegServer, m *metrics.Metrics, c c13aCase, seed []byte) (res c13aResult) {
	var asks []c13aAsk
	sel := &c13aSel{ver: c.ver, gens: map[int]bool{}, out4: c.out4, out6: c.out6, asks: &asks}
	for _, g := range c.gens {
		sel.gens[g] = true
	}
	snd := &c13aSender{fail: !c.send}
	p := regprocessor.VerifC13NewProcessor(sel, snd, m)
	if err := p.AddTransport(pb.TransportType_Min, min.Transport{}); err != nil {
		panic(err)
	}
	// the selector installed when the second selection runs
	at2v, at2g := c.ver, c.gens
	reloadErr := ""
	sel.inCall = func(n int) {
		switch {
		case c.reload == "in1" && n == 1, c.reload == "in2" && n == 2:
			os.Setenv("PHANTOM_SUBNET_LOCATION", c13aFile(c.newVer, c.newGens))
			if err := p.ReloadSubnets(); err != nil {
				reloadErr = err.Error()
			}
		case c.reload == "bad1" && n == 1:
			os.Setenv("PHANTOM_SUBNET_LOCATION", filepath.Join(c13aDir, "does-not-exist.toml"))
			if err := p.ReloadSubnets(); err == nil {
				reloadErr = "a reload from a missing file succeeded"
			}
		}
	}
	if c.reload == "in1" && len(c.newGens) > 0 {
		at2v, at2g = c.newVer, c.newGens
	}
	rec := &c13aRec{p: p}
	s.processor = rec
	if c.cc < 0 {
		s.latestClientConf = nil
	} else {
		s.latestClientConf = &pb.ClientConf{Generation: proto.Uint32(uint32(c.cc))}
	}

	// the request
	tr := c.transport
	covert := "192.0.2.99:443"
	w := &pb.C2SWrapper{SharedSecret: seed[:c.secretLen]}
	if c.payload {
		w.RegistrationPayload = &pb.ClientToStation{Transport: &tr, DecoyListGeneration: proto.Uint32(uint32(c.gen)), CovertAddress: &covert,
			V4Support: proto.Bool(c.v4), V6Support: proto.Bool(c.v6), ClientLibVersion: proto.Uint32(4)}
		if c.badParams {
			id := int32(3)
			a, _ := anypb.New(&pb.PrefixTransportParams{PrefixId: &id})
			w.RegistrationPayload.TransportParams = a
		}
	} else {
		w.RegistrationAddress = bytes.Repeat([]byte{9}, 40) // keeps the body above the minimum length
	}
	body, _ := proto.Marshal(w)
	if c.garbage > 0 {
		body = append([]byte(nil), seed[32:32+c.garbage]...)
	} else if c.truncate > 0 && c.truncate < len(body) {
		body = body[:c.truncate]
	}
	parsed := &pb.C2SWrapper{}
	decodes := proto.Unmarshal(body, parsed) == nil
	path := "/register"
	if c.bidi {
		path = "/register-bidirectional"
	}
	r := httptest.NewRequest(c.method, path, bytes.NewReader(body))
	r.RemoteAddr = c.remote
	if c.xff != "" {
		r.Header.Add("X-Forwarded-For", c.xff)
	}
	addrOK := getRemoteAddr(r) != nil
	// what the model is told about the decoded wrapper (the handler works on what it decoded)
	pl := parsed.GetRegistrationPayload()
	hasPayload := decodes && pl != nil
	_, known := map[pb.TransportType]bool{pb.TransportType_Min: true}[pl.GetTransport()]
	paramsOK := false
	if known {
		_, err := min.Transport{}.ParseParams(uint(pl.GetClientLibVersion()), pl.GetTransportParams())
		paramsOK = err == nil
	}
	kind := "u"
	if c.bidi {
		kind = "b"
	}
	cc := "-"
	if c.cc >= 0 {
		cc = fmt.Sprint(c.cc)
	}
	res.line = fmt.Sprintf("bdreq|%s|%s|%s|%d|%s|%s|%d|%s|%s|%s|%s|%s|%s|%d|%s|%s|%s|%s|%s", kind, vlib.B(addrOK), vlib.B(c.method == "POST"),
		len(body), vlib.B(decodes), vlib.B(hasPayload), pl.GetDecoyListGeneration(), vlib.B(pl.GetV4Support()), vlib.B(pl.GetV6Support()),
		c.out4, c.out6, vlib.B(known), vlib.B(paramsOK), len(parsed.GetSharedSecret()), vlib.B(c.send), cc,
		c13aSnap(c.ver, c.gens), c13aSnap(c.ver, c.gens), c13aSnap(at2v, at2g))

	rw := httptest.NewRecorder()
	panicked := func() (pv any) {
		defer func() { pv = recover() }()
		if c.bidi {
			s.registerBidirectional(rw, r)
		} else {
			s.register(rw, r)
		}
		return nil
	}()
	fail := func(sig, what string) { res.fails = append(res.fails, [2]string{sig, what}) }
	if panicked != nil {
		fail("C13:not-answered:api", fmt.Sprintf("the handler panicked: %v", panicked))
		res.answer = "panic"
		return
	}
	if reloadErr != "" {
		fail("C13:not-answered:reload", "the reload that ran next to the request failed: "+reloadErr)
	}
	hr := rw.Result()
	b, _ := io.ReadAll(hr.Body)
	hr.Body.Close()
	status := hr.StatusCode
	got := &pb.RegistrationResponse{}
	hasResp := len(b) > 0 && proto.Unmarshal(b, got) == nil && (got.Ipv4Addr != nil || len(got.Ipv6Addr) > 0 || got.DstPort != nil || got.ClientConf != nil)
	v4, v6, gcc := "-", "-", "-"
	if hasResp {
		if got.Ipv4Addr != nil {
			v4 = fmt.Sprint(c13aVer4(got.GetIpv4Addr()))
		}
		if len(got.Ipv6Addr) > 0 {
			v6 = fmt.Sprint(c13aVer6(got.Ipv6Addr))
		}
		if got.ClientConf != nil {
			gcc = fmt.Sprint(got.ClientConf.GetGeneration())
		}
	}
	var as []string
	for _, a := range asks {
		f := "4"
		if a.v6 {
			f = "6"
		}
		as = append(as, fmt.Sprintf("%s:%d:%d", f, a.gen, a.ver))
	}
	sent := fmt.Sprint(snd.n)
	res.answer = fmt.Sprintf("status=%d v4=%s v6=%s cc=%s body=%s called=%s asked=%s sent=%s", status, v4, v6, gcc, vlib.B(hasResp),
		vlib.B(rec.called > 0), strings.Join(as, ","), sent)
	if rec.called > 1 {
		res.answer += fmt.Sprintf(" calls=%d", rec.called)
	}

	// ---- the property, from the observations alone
	okStatus := 204
	if c.bidi {
		okStatus = 200
	}
	res.ok = status == okStatus
	switch status {
	case 200, 204, 400, 405, 500:
	default:
		fail("C13:not-answered:api", fmt.Sprintf("the handler ended with status %d", status))
	}
	success := status >= 200 && status < 300
	switch {
	case rec.called == 0 && success:
		fail("C13:success-status-on-error", fmt.Sprintf("status %d although the processor was never called", status))
	case rec.called > 0 && rec.err != nil && success:
		fail("C13:success-status-on-error", fmt.Sprintf("status %d although the processor returned %q", status, rec.err))
	case rec.called > 0 && rec.err == nil && status != okStatus:
		fail("C13:error-status-on-success", fmt.Sprintf("status %d although the processor registered the client", status))
	case rec.called > 0 && rec.err != nil && status != 400 && status != 500:
		fail("C13:not-answered:api", fmt.Sprintf("status %d for the processor error %q", status, rec.err))
	}
	if success != (snd.n == 1) || snd.n > 1 {
		fail("C13:answer-and-registration-differ", fmt.Sprintf("status %d but %d registrations were published to the stations", status, snd.n))
	}
	if hasResp != (status == 200) {
		fail("C13:partial-response", fmt.Sprintf("status %d, registration response in the body: %v (%v)", status, hasResp, got))
	}
	if status == 200 && hasResp && c.bidi {
		if (got.Ipv4Addr != nil) != pl.GetV4Support() || (len(got.Ipv6Addr) > 0) != pl.GetV6Support() {
			fail("C13:partial-response", fmt.Sprintf("the client supports v4=%v v6=%v, the response has v4=%s v6=%s", pl.GetV4Support(), pl.GetV6Support(), v4, v6))
		}
		if v4 != "-" && v6 != "-" && v4 != v6 {
			fail("C13:mixed-versions", fmt.Sprintf("one response with an IPv4 phantom of subnet set %s and an IPv6 phantom of subnet set %s", v4, v6))
		}
		if c.cc >= 0 && int(pl.GetDecoyListGeneration()) < c.cc && (got.ClientConf == nil || int(got.ClientConf.GetGeneration()) != c.cc) {
			fail("C13:outdated-client-not-updated", fmt.Sprintf("client generation %d, server generation %d, ClientConf in the response: %s", pl.GetDecoyListGeneration(), c.cc, gcc))
		}
	}
	return
}

type c13aPlain c13aCase

func (c c13aCase) String() string { return fmt.Sprintf("%+v", c13aPlain(c)) }

func TestVerifC13API(t *testing.T) {
	out := vlib.Open("C13A")
	defer out.Close()
	var err error
	c13aDir, err = os.MkdirTemp("", "verif-c13a-")
	if err != nil {
		t.Fatal(err)
	}
	defer os.RemoveAll(c13aDir)
	keep := os.Getenv("PHANTOM_SUBNET_LOCATION")
	defer os.Setenv("PHANTOM_SUBNET_LOCATION", keep)
	lg := log.New()
	lg.SetOutput(io.Discard)
	m := metrics.NewMetrics(log.NewEntry(lg), 24*time.Hour)
	s := &APIRegServer{logger: lg, metrics: m}
	c13aAddrCases(out) // which address a request is attributed to (zz_verif_c13_raddr_test.go)

	only := map[int]bool{}
	if rp := vlib.Replay(); rp != "" {
		f, err := os.Open(rp)
		if err != nil {
			t.Fatal(err)
		}
		defer f.Close()
		scn := bufio.NewScanner(f)
		scn.Buffer(make([]byte, 1<<20), 1<<20)
		for scn.Scan() {
			var seed int64
			var n int
			if k, _ := fmt.Sscanf(scn.Text(), "c13a|seed=%d|n=%d|", &seed, &n); k == 2 {
				os.Setenv("VERIF_SEED", fmt.Sprint(seed))
				only[n] = true
			}
		}
		if len(only) == 0 {
			return
		}
	}
	grid := c13aGrid()
	N := len(grid) + vlib.Budget(6000, 60000)
	for i := 0; i < N; i++ {
		if len(only) > 0 && !only[i] {
			continue
		}
		r := vlib.NewRand(fmt.Sprintf("C13A/%d", i))
		var c c13aCase
		if i < len(grid) {
			c = grid[i]
		} else {
			c = c13aRandom(r, i)
		}
		res := c13aRun(s, m, c, r.Bytes(300))
		out.Case(res.line, res.answer, res.ok)
		out.Checked()
		f := strings.Fields(res.answer)
		out.Count("c13a:" + map[bool]string{true: "bidi", false: "uni"}[c.bidi] + ":" + f[0])
		out.Count("c13a:reload:" + c.reload)
		if c.bidi {
			out.Count(fmt.Sprintf("c13a:families:v4=%v,v6=%v", c.v4, c.v6))
			out.Count("c13a:sel:" + c.out4 + "/" + c.out6)
		}
		if len(only) > 0 {
			fmt.Printf("REPLAY c13a #%d: %s\n  case   %s\n  answer %s\n", i, c, res.line, res.answer)
		}
		for _, fl := range res.fails {
			if len(only) > 0 {
				fmt.Printf("  ORACLE %s: %s\n", fl[0], fl[1])
			}
			out.OracleFail(fl[0], "API registrar: "+fl[1]+" ["+res.line+"]", fmt.Sprintf("c13a|seed=%d|n=%d|%s", vlib.Seed(), i, res.line))
		}
	}
}
