//go:build verif

package regprocessor

// Support for the C13 harness that lives in pkg/regserver/apiregserver (the request path beyond the locks);
// exists only in the scratch copy the check works on.  A RegProcessor without zmq whose first phantom selector
// and whose sender are the harness's; everything else - the mutexes, ReloadSubnets, the request path - is the
// package's own code.

import "github.com/refraction-networking/conjure/pkg/metrics"

func VerifC13NewProcessor(sel ipSelector, snd zmqSender, m *metrics.Metrics) *RegProcessor {
	return &RegProcessor{ipSelector: sel, sock: snd, metrics: m}
}
