//go:build verif

package main

// C03 — a connection to a phantom that never presents a valid tag gets no byte back and is not
// closed before the randomised 5-10 s classification deadline; the station keeps reading.
//
// The real handleNewTCPConn is driven by a recording connection with virtual time (scripted
// segments, then the deadline once the script is exhausted; every method call is recorded) against
// phantoms with no / unvalidated / one / ~65 registrations, and — concurrently, in real time — by
// loopback TCP sockets. Oracle (independent of the Lean model): zero Write calls, no Close, no
// deadline change after the single arming, armed deadline in [5 s, 10 s), every scripted byte was
// read, the handler returned only after the connection reported the deadline / EOF / reset / a read
// failure, no transport reported an error or a match. Correspondence: observed call trace vs the
// trace the Lean model computes from the same read results and verdicts.

import (
	"errors"
	"fmt"
	"io"
	"net"
	"os"
	"strings"
	"sync"
	"sync/atomic"
	"syscall"
	"testing"
	"time"

	"github.com/refraction-networking/conjure/internal/vlib"
	"github.com/refraction-networking/conjure/pkg/transports/wrapping/prefix"
	pb "github.com/refraction-networking/conjure/proto"
)

type c03Case struct {
	phantom string
	geo     string // ok unk cc asn nonip
	evs     []c34Ev
	tagged  bool // the stream carries a valid tag for this phantom: outside the property, correspondence only
	class   string
	world   int
	// zz_verif_c03_geo_test.go: the source as the GeoIP database sees it, and statistics-epoch resets
	peer   string // the peer address ("" = rotating, as before); "a.b.c.d/16" = IPv4 in 16-byte form
	src    string // "cc:asn" answered by the scripted GeoIP stand-in ("" = the world's database)
	resets string // "P0,R2,Q1": PrintAndReset / Reset before the k-th read, PrintAndReset before the k-th classification call
	// zz_verif_c03_reload_test.go: configuration reloads between the start-up state and the connection
	reloads string // "kkkk,kkmk": <config><subnets><asn path><cc path> per reload
}

func (c c03Case) replay(seed int64) string {
	return fmt.Sprintf("c03|seed=%d|world=%d|phantom=%s|geo=%s|tagged=%s|class=%s|peer=%s|src=%s|resets=%s|reloads=%s|script=%s", seed, c.world, c.phantom, c.geo, vlib.B(c.tagged), c.class,
		c.peer, c.src, c.resets, c.reloads, c34EvString(c.evs))
}

var c03Remote = &net.TCPAddr{IP: net.IPv4(203, 0, 113, 99), Port: 40404}

type c03PipeAddr struct{}

func (c03PipeAddr) Network() string { return "pipe" }
func (c03PipeAddr) String() string  { return "pipe" }

var (
	c03FailMu sync.Mutex
	c03Fails  []string
	// probes that took more than 2 s of real time on the virtual-time connection (the handler sleeps
	// instead of reading): after a handful — and only when an oracle failure is already recorded — the
	// generators stop, so that the run ends and reports
	c03Slow atomic.Int32
)

func c03Fail(out *vlib.Out, sig, what, replay string) {
	c03FailMu.Lock()
	c03Fails = append(c03Fails, sig+" — "+what)
	c03FailMu.Unlock()
	out.OracleFail(sig, what, replay)
}

// c03Check evaluates the property on the recorded calls of one finished (or hung) run; it reports
// whether the oracle failed.
func c03Check(out *vlib.Out, c *c03Case, run *c34Run, cn c34Canon, hung bool) (failed bool) {
	if run.panicked != nil {
		// nothing recovers a handler goroutine in the station: the process dies, this connection and every
		// other open connection is closed at once - whatever the stream was
		c03Fail(out, "C03:panic", fmt.Sprintf("panic: the handler panicked (the station process dies and closes every open connection at once): %v (class %s, phantom %s, %d registrations, peer %s, source %q, resets %q, reloads before the connection %q)",
			run.panicked, c.class, c.phantom, run.count, run.conn.remote, c.src, c.resets, c.reloads), c.replay(vlib.Seed()))
		return true
	}
	if c.geo == "cc" || c.geo == "asn" || c.geo == "nonip" {
		out.Count("oracle:skipped-geoip-hypothesis")
		return
	}
	rp := c.replay(vlib.Seed())
	if c.tagged {
		// a registered tag was presented (outside the property): still nothing may be written or closed,
		// and the handler may not return before the deadline it armed
		out.Count("oracle:valid-tag-reduced")
		var armed time.Time
		for _, e := range run.conn.log.snapshot() {
			switch e.kind {
			case 'W':
				failed = true
				c03Fail(out, "C03:error-path-write", "bytes written on the transport-error path", rp)
			case 'C':
				failed = true
				c03Fail(out, "C03:error-path-close", "Close on the transport-error path", rp)
			case 'D':
				if armed.IsZero() {
					armed = e.dl
				}
			}
		}
		if cn.sawErr && (hung || armed.IsZero() || run.tRet.Before(armed)) {
			failed = true
			c03Fail(out, "C03:error-path-early-return", "the handler returned before the deadline after a transport error", rp)
		}
		return
	}
	out.Checked()
	fail := func(what, detail string) {
		failed = true
		c03Fail(out, "C03:"+what, fmt.Sprintf("%s: %s (class %s, phantom %s, %d registrations)", what, detail, c.class, c.phantom, run.count), rp)
	}
	if hung {
		fail("hang", "the handler did not return 30 s after the connection reported the deadline")
		return
	}
	if run.panicked != nil {
		fail("panic", fmt.Sprint(run.panicked))
		return
	}
	ents := run.conn.log.snapshot()
	var nD, total int
	var lastRead *c34Ent
	for i := range ents {
		e := &ents[i]
		if e.inWrap && e.kind != 'W' {
			// a transport that has not identified itself may look at the buffered bytes only
			fail("transport-touched-connection", fmt.Sprintf("a transport called %q on the connection while classifying an untagged stream", string(e.kind)))
			return
		}
		switch e.kind {
		case 'W':
			fail("write", fmt.Sprintf("%d bytes written to the peer", e.n))
			return
		case 'C':
			fail("close", "Close called on the client connection")
			return
		case 'r', 'w':
			fail("deadline-changed", "SetReadDeadline / SetWriteDeadline called on the client connection")
			return
		case 'Z':
			fail("deadline-changed", "the deadline was cleared")
			return
		case 'D':
			nD++
			if nD > 1 {
				fail("deadline-changed", "the deadline was armed a second time")
				return
			}
			if i != 0 {
				fail("deadline-late", "the deadline was armed after the first read")
				return
			}
			if e.dl.Sub(run.t0) < 5*time.Second || e.dl.Sub(e.at) >= 10*time.Second {
				fail("deadline-range", fmt.Sprintf("armed %v after the call", e.dl.Sub(e.at)))
				return
			}
		case 'R':
			total += e.n
			lastRead = e
		case 'M':
			fail("matched-without-tag", "a registration was marked active")
			return
		}
	}
	if cn.found >= 0 {
		fail("matched-without-tag", fmt.Sprintf("transport %d found registration %d", cn.foundTid, cn.found))
		return
	}
	if cn.sawErr {
		fail("transport-error-without-tag", "a transport answered an unexpected error: the handler sleeps instead of reading")
		return
	}
	if nD != 1 {
		fail("deadline-not-armed", "no deadline was armed")
		return
	}
	if run.conn.noDLRead {
		fail("deadline-not-armed", "a read was issued with no deadline armed")
		return
	}
	want, wantEnd := 0, "to"
	for _, ev := range c.evs {
		if ev.kind != "d" {
			wantEnd = ev.kind
			break
		}
		want += len(ev.data)
	}
	last := ents[len(ents)-1]
	if lastRead == nil || last.kind != 'R' || last.res == "" {
		fail("early-return", "the handler returned although the last read had not reported the deadline, EOF, a reset or a failure")
		return
	}
	if last.res != wantEnd {
		fail("early-return", fmt.Sprintf("the handler returned on %q, the connection ends with %q", last.res, wantEnd))
		return
	}
	if total != want {
		fail("stopped-reading", fmt.Sprintf("read %d of the %d bytes the peer sent", total, want))
	}
	return
}

func c03Failed() bool {
	c03FailMu.Lock()
	defer c03FailMu.Unlock()
	return len(c03Fails) > 0
}

// c03GiveUp: the generators may stop early only when the run already has an oracle failure to report
// (a handler that sleeps makes every further probe take seconds); slowness alone never reduces coverage.
func c03GiveUp() bool { return c03Slow.Load() >= 5 && c03Failed() }

// c03StallLimit: on the virtual-time connection every read is answered at once, so a handler that does
// what the property says needs microseconds of real time per probe. A probe that takes longer than this
// (the handler sleeps instead of reading: the shortest deadline is 5 s) is run again, twice; only if it
// stalls every time is it reported.
const c03StallLimit = 3 * time.Second

func c03Run(out *vlib.Out, w *c34World, c *c03Case, limit time.Duration) {
	for attempt := 0; ; attempt++ {
		failed, took := c03RunOnce(out, w, c, limit, attempt == 0)
		if c.tagged || failed || took <= c03StallLimit {
			return
		}
		out.Count("stalled-probe(>3s)")
		if attempt == 2 {
			c03Fail(out, "C03:stalled-instead-of-reading", fmt.Sprintf("the handler took %v of real time, three times in a row, on a connection that answers every read at once: it does not keep reading (class %s, phantom %s)",
				took.Round(time.Millisecond), c.class, c.phantom), c.replay(vlib.Seed()))
			return
		}
	}
}

func c03RunOnce(out *vlib.Out, w *c34World, c *c03Case, limit time.Duration, record bool) (failed bool, took time.Duration) {
	var remote net.Addr = c34Peer(40404)
	if c.peer != "" {
		remote = c03ParsePeer(c.peer)
	}
	geo := c.geo
	if geo == "nonip" {
		remote, geo = c03PipeAddr{}, "ok"
	}
	x := c03XOf(w)
	cc, asn, geoOK := x.installGeo(c, geo, remote)
	if c.reloads != "" {
		var bad bool
		if cc, asn, geoOK, bad = x.reloadHistory(out, c, remote, cc, asn, geoOK, record); bad {
			return true, 0
		}
	}
	conn, hooked, atStart, err := x.conn(c, remote)
	if err != nil {
		c03Fail(out, "C03:harness", err.Error(), c.replay(vlib.Seed()))
		return true, 0
	}
	for _, rs := range atStart {
		x.reset(rs.kind == 'P')
	}
	snap := x.snap(asn)
	began := time.Now()
	run, done := w.start(conn, c.phantom, geo)
	hung := false
	select {
	case <-done:
	case <-time.After(limit):
		hung = true
		close(conn.finish)
		conn.Close()
		<-done
	}
	took = time.Since(began)
	if !c.tagged && took > 2*time.Second {
		c03Slow.Add(1)
		out.Count("slow-probe(>2s)")
	}
	if hooked != nil {
		conn.noDLRead = hooked.s.noDLRead
	}
	cn := w.canon(run)
	failed = c03Check(out, c, run, cn, hung)
	if p := x.takeResetPanic(); p != nil {
		failed = true
		c03Fail(out, "C03:panic", fmt.Sprintf("panic: the statistics loop (PrintAndReset / Reset) panicked while this connection was being handled (the station process dies and closes every open connection at once): %v (class %s, phantom %s, peer %s, source %q, resets %q)",
			p, c.class, c.phantom, remote, c.src, c.resets), c.replay(vlib.Seed()))
	}
	if !record {
		return
	}
	out.Case(cn.modelLine, cn.implOut, cn.nontriv)
	// the statistics transitions of this connection against the model's (no reset in the middle: the
	// counters of the whole connection are then still there)
	if hooked == nil && !hung && run.panicked == nil && run.returned {
		if !geoOK {
			cc = ""
		}
		if line, ok := c03StatsLine(cn.modelLine, net.ParseIP(c.phantom).To4() != nil, cc); ok {
			out.Case(line, c03SnapDiff(snap, x.snap(asn)), geoOK)
		}
	}
	out.Count("geodb:" + x.dbKind)
	switch {
	case !geoOK:
		out.Count("source:lookup-fails")
	case cc == "":
		out.Count("source:no-country")
	case cc == "unk":
		out.Count("source:unk")
	case asn == 0:
		out.Count("source:country-without-asn")
	default:
		out.Count("source:country+asn")
	}
	if c.resets != "" {
		for _, f := range strings.Split(c.resets, ",") {
			if f[1:] == "0" {
				out.Count("reset:before-connection")
			} else {
				out.Count("reset:" + map[byte]string{'P': "before-a-read", 'R': "before-a-read", 'Q': "before-a-classification", 'N': "before-a-read+connection-on-other-family"}[f[0]])
			}
		}
	}
	out.Count("class:" + c.class)
	switch c.phantom {
	case c34PhMany:
		out.Count("phantom:many")
	case c34PhNone:
		out.Count("phantom:none")
	case c34PhInvalid:
		out.Count("phantom:unvalidated-only")
	case c34PhV6:
		out.Count("phantom:v6")
	default:
		out.Count("phantom:one")
	}
	out.Count("geo:" + c.geo)
	toks := strings.Fields(cn.implOut)
	for _, tk := range toks {
		if strings.HasPrefix(tk, "E:") {
			out.Count("end:" + tk[2:])
		}
	}
	switch {
	case cn.found >= 0:
		out.Count("branch:found")
	case cn.sawErr:
		out.Count("branch:transport-error-sleep")
	case run.count < 1:
		out.Count("branch:count-zero-discard")
	case strings.Count(cn.modelLine, ":N") >= len(w.tids):
		out.Count("branch:ran-out-of-transports-discard")
	default:
		out.Count("branch:read-until-error")
	}
	return
}

// ---- generators

func c03Segment(r *vlib.Rand, data []byte) []c34Ev {
	var evs []c34Ev
	if len(data) == 0 {
		return nil
	}
	var cuts []int
	switch s := r.Intn(10); {
	case s < 2: // one segment (the connection still hands out at most one read buffer at a time)
	case s < 4 && len(data) <= 300: // tiny segments
		for p := r.Range(1, 3); p < len(data); p += r.Range(1, 3) {
			cuts = append(cuts, p)
		}
	case s < 6: // MSS-like
		mss := []int{536, 1220, 1448, 1460}[r.Intn(4)]
		for p := mss; p < len(data); p += mss {
			cuts = append(cuts, p)
		}
	default:
		for k := r.Range(1, 6); k > 0; k-- {
			cuts = append(cuts, r.Range(1, len(data)))
		}
		for i := 1; i < len(cuts); i++ {
			for k := i; k > 0 && cuts[k] < cuts[k-1]; k-- {
				cuts[k], cuts[k-1] = cuts[k-1], cuts[k]
			}
		}
	}
	for _, ch := range c34Cut(data, cuts) {
		evs = append(evs, c34Ev{kind: "d", data: ch})
		if r.Chance(1, 60) {
			evs = append(evs, c34Ev{kind: "d"}) // a read that returns 0 bytes and no error
		}
	}
	return evs
}

func c03End(r *vlib.Rand, evs []c34Ev) []c34Ev {
	switch k := r.Intn(20); {
	case k < 12: // silence: the deadline
	case k < 15:
		evs = append(evs, c34Ev{kind: "eof"})
	case k < 18:
		evs = append(evs, c34Ev{kind: "rst"})
	default:
		evs = append(evs, c34Ev{kind: "err"})
	}
	return evs
}

func c03Lookalike(r *vlib.Rand) []byte {
	switch r.Intn(9) {
	case 0: // TLS 1.2 ClientHello-ish record
		n := r.Range(40, 600)
		b := []byte{0x16, 0x03, 0x01, byte(n >> 8), byte(n), 0x01, 0x00, byte((n - 4) >> 8), byte(n - 4), 0x03, 0x03}
		return append(b, r.Bytes(n-6)...)
	case 1: // exactly the record header the prefix transport uses, then random
		return append([]byte("\x16\x03\x03\x40\x00\x01"), r.Bytes(r.Range(0, 700))...)
	case 2:
		return []byte("GET / HTTP/1.1\r\nHost: example.com\r\nUser-Agent: curl/8.5.0\r\nAccept: */*\r\n\r\n")
	case 3:
		return append([]byte("POST / HTTP/1.1\r\nHost: example.com\r\nContent-Length: 300\r\n\r\n"), r.Bytes(300)...)
	case 4:
		return append([]byte("GET /index.html HTTP/1.0\r\n\r\n"), r.Bytes(r.Intn(100))...)
	case 5:
		return append([]byte("SSH-2.0-OpenSSH_8.9p1 Ubuntu-3ubuntu0.6\r\n"), r.Bytes(r.Range(0, 1200))...)
	case 6: // DNS over TCP query
		q := append([]byte{0x00, 0x1d, 0x12, 0x34, 0x01, 0x00, 0x00, 0x01, 0, 0, 0, 0, 0, 0}, []byte("\x07example\x03com\x00\x00\x01\x00\x01")...)
		return q
	case 7: // the DNS-shaped prefix of the prefix transport, then a plausible rest
		return append([]byte("\x05\xDC\x5F\xE0\x01\x20"), r.Bytes(r.Range(0, 1500))...)
	default: // obfs4-sized uniformly random handshake
		return r.Bytes([]int{r.Range(64, 600), r.Range(64, 600), r.Range(600, 8192)}[r.Intn(3)])
	}
}

// c03DegenerateTags: 64-byte tag windows whose first half (the Elligator representative / curve
// point) is degenerate.
func c03DegenerateTags(r *vlib.Rand) [][]byte {
	hexes := []string{
		"0000000000000000000000000000000000000000000000000000000000000000",
		"0100000000000000000000000000000000000000000000000000000000000000",
		"e0eb7a7c3b41b8ae1656e3faf19fc46ada098deb9c32b1fd866205165f49b800",
		"5f9c95bca3508c24b1d0b1559c83ef5b04445cc4581c8e86d8224eddd09f1157",
		"ecffffffffffffffffffffffffffffffffffffffffffffffffffffffffffff7f",
		"edffffffffffffffffffffffffffffffffffffffffffffffffffffffffffff7f",
		"eeffffffffffffffffffffffffffffffffffffffffffffffffffffffffffff7f",
		"ffffffffffffffffffffffffffffffffffffffffffffffffffffffffffffffff",
	}
	var out [][]byte
	for _, h := range hexes {
		rep := make([]byte, 32)
		fmt.Sscanf(h, "%x", &rep)
		out = append(out, append(append([]byte(nil), rep...), make([]byte, 32)...))
		out = append(out, append(append([]byte(nil), rep...), r.Bytes(32)...))
		// the same with the two padding bits of the representative set
		rep2 := append([]byte(nil), rep...)
		rep2[31] |= 0xC0
		out = append(out, append(rep2, r.Bytes(32)...))
	}
	return out
}

func c03FlipBit(b []byte, bit int) []byte {
	c := append([]byte(nil), b...)
	c[bit/8] ^= 1 << uint(bit%8)
	return c
}

// tagBits lists the bit positions of a flight whose flip invalidates the tag.
//   - obfs4: the representative and the mark; flips in the padding or the MAC leave the mark valid —
//     the connection then *does* present a registered mark and is outside this property;
//   - prefix: everything except the two top bits of the Elligator representative (tag byte 31, bits 6
//     and 7): the client randomises them and the station masks them (`representative[31] &= 0x3F`),
//     they are padding, not tag — a flight with one of them flipped is still a valid flight.
func c03TagBits(reg *c34Reg, flight []byte) (out, padding []int) {
	add := func(lo, hi int) {
		for i := lo * 8; i < hi*8; i++ {
			out = append(out, i)
		}
	}
	switch reg.tt {
	case pb.TransportType_Obfs4:
		add(0, 32)
		add(len(flight)-32, len(flight)-16)
	case pb.TransportType_Prefix:
		off := len(flight) - 64
		for i := 0; i < len(flight)*8; i++ {
			if i == (off+31)*8+6 || i == (off+31)*8+7 {
				padding = append(padding, i)
			} else {
				out = append(out, i)
			}
		}
	default:
		add(0, len(flight))
	}
	return
}

func c03Phantoms(r *vlib.Rand, nPairs int) string {
	switch r.Intn(8) {
	case 0, 1:
		return c34PhNone
	case 2:
		return c34PhInvalid
	case 3, 4:
		return c34PhOne(r.Intn(nPairs))
	case 5:
		return c34PhV6
	default:
		return c34PhMany
	}
}

type c03Gen struct {
	r       *vlib.Rand
	w       *c34World
	clients []*c34Reg
	emit    func(c c03Case)
}

func (g *c03Gen) probe(class, phantom string, data []byte) {
	c := c03Case{phantom: phantom, geo: "ok", evs: c03End(g.r, c03Segment(g.r, data)), class: class}
	g.dress(&c)
	g.dressReloads(&c)
	g.emit(c)
}

func (g *c03Gen) anyPhantom() string { return c03Phantoms(g.r, g.w.nPairs) }

func (g *c03Gen) flight(reg *c34Reg, override int32) []byte {
	ws, err := g.w.flightWrites(reg, override)
	if err != nil {
		panic(err)
	}
	if reg.tt == pb.TransportType_Obfs4 {
		return ws[0]
	}
	return c34Concat(ws)
}

func (g *c03Gen) corpus() {
	r := g.r
	// nothing at all, on every kind of phantom, ending in every way
	for _, ph := range []string{c34PhNone, c34PhInvalid, c34PhOne(0), c34PhMany, c34PhV6} {
		for _, end := range []string{"", "eof", "rst", "err", "to"} {
			var evs []c34Ev
			if end != "" {
				evs = []c34Ev{{kind: end}}
			}
			g.emit(c03Case{phantom: ph, geo: "ok", evs: evs, class: "empty"})
		}
		g.emit(c03Case{phantom: ph, geo: "unk", evs: []c34Ev{{kind: "d", data: r.Bytes(100)}}, class: "geo-unknown-country"})
	}
	// the trace of DESIGN.md §7: 100 + 9000 random bytes against a phantom without registrations
	g.emit(c03Case{phantom: c34PhNone, geo: "ok", evs: []c34Ev{{kind: "d", data: r.Bytes(100)}, {kind: "d", data: r.Bytes(9000)}}, class: "random"})
	// exactly-threshold lengths of uniformly random bytes, one segment and byte-wise around the threshold
	for _, n := range []int{1, 31, 32, 33, 63, 64, 65, 84, 85, 86, 4095, 4096, 4097, 8191, 8192, 8193, 16384} {
		for _, ph := range []string{c34PhNone, c34PhInvalid, c34PhOne(1), c34PhMany} {
			d := r.Bytes(n)
			g.emit(c03Case{phantom: ph, geo: "ok", evs: []c34Ev{{kind: "d", data: d}}, class: "threshold-length"})
			if n > 2 {
				g.emit(c03Case{phantom: ph, geo: "ok", evs: []c34Ev{{kind: "d", data: d[:n-1]}, {kind: "d", data: d[n-1:]}, {kind: "d", data: r.Bytes(1)}}, class: "threshold-length"})
			}
		}
	}
	// the GeoIP hypothesis: failing lookups / a non-IP remote address (handler returns at once; no oracle)
	for _, geo := range []string{"cc", "asn", "nonip"} {
		g.emit(c03Case{phantom: c34PhMany, geo: geo, evs: []c34Ev{{kind: "d", data: r.Bytes(50)}}, class: "geoip-failure"})
	}
}

func (g *c03Gen) staticPrefixes(thorough bool) {
	r := g.r
	for _, pid := range c34PrefixIDs {
		st := prefix.DefaultPrefixes[prefix.PrefixID(pid)].Bytes()
		// every static prefix followed by garbage of the lengths around its tag thresholds
		for _, n := range []int{0, 1, 32, 63, 64, 65, 200, r.Range(66, 9000)} {
			for _, ph := range []string{c34PhNone, c34PhOne(2 + int(pid)), c34PhMany} {
				g.probe("static-prefix+garbage", ph, append(append([]byte(nil), st...), r.Bytes(n)...))
			}
		}
		// degenerate tags: all-zero / all-one windows and encodings of low-order curve points, which the
		// tag obfuscator's key agreement rejects with an error of its own — the station must treat them
		// like any other garbage (keep reading), also when registrations exist on the phantom
		for _, tag := range c03DegenerateTags(r) {
			for _, ph := range []string{c34PhOne(2 + int(pid)), c34PhMany} {
				g.probe("degenerate-tag", ph, append(append([]byte(nil), st...), tag...))
				g.probe("degenerate-tag", ph, append(append(append([]byte(nil), st...), tag...), r.Bytes(r.Range(1, 300))...))
			}
		}
		// every proper prefix of the static match: alone, and followed by diverging garbage
		for k := 1; k < len(st); k++ {
			g.probe("partial-static-prefix", g.anyPhantom(), st[:k])
			if thorough || r.Chance(1, 2) {
				g.probe("partial-static-prefix", c34PhMany, append(append([]byte(nil), st[:k]...), r.Bytes(r.Range(1, 150))...))
			}
		}
	}
}

func (g *c03Gen) flips(thorough bool) {
	r := g.r
	for _, reg := range g.clients {
		// the flush policy does not change the flight's bytes; the port mode does not either (quick skips it)
		if reg.tt == pb.TransportType_Prefix && (reg.flush != 0 || (reg.randPort && !thorough)) {
			continue
		}
		fl := g.flight(reg, -2)
		tb, pad := c03TagBits(reg, fl)
		nbits := len(tb)
		for _, b := range pad {
			// still a valid flight: the registration is found (correspondence only, outside the property)
			g.emit(c03Case{phantom: reg.phantom, geo: "ok", tagged: true, class: "padding-bit-flipped-still-valid",
				evs: c03Segment(r, c03FlipBit(g.flight(reg, -2), b))})
		}
		step := 1
		if !thorough {
			step = 8 // quick: one bit of every byte, rotating
		}
		for i, k := r.Intn(step), 0; i < nbits; i, k = i+step, k+1 {
			if k%16 == 0 {
				fl = g.flight(reg, -2) // a fresh flight (new ephemeral keys, new padding) now and then
			}
			tb, _ = c03TagBits(reg, fl)
			d := c03FlipBit(fl, tb[i])
			if reg.tt != pb.TransportType_Obfs4 && r.Chance(1, 3) {
				d = append(d, r.Bytes(r.Range(1, 300))...) // "early data" behind the damaged flight
			}
			g.probe("genuine-flight-bit-flipped:"+reg.tname(), reg.phantom, d)
		}
	}
}

func (g *c03Gen) wrongPlace(thorough bool) {
	r := g.r
	for ci, reg := range g.clients {
		if !thorough && reg.tt == pb.TransportType_Prefix && (reg.flush != 0 || reg.randPort) {
			continue
		}
		fl := g.flight(reg, -2)
		others := []string{c34PhNone, c34PhInvalid, c34PhV6}
		if reg.phantom == c34PhMany {
			others = append(others, c34PhOne(((ci/2)+1)%g.w.nPairs))
		} else {
			others = append(others, c34PhOne(((ci/2)+3)%g.w.nPairs))
		}
		for _, ph := range others {
			if ph == reg.phantom {
				continue // its own phantom (clients on the IPv6 phantom)
			}
			g.probe("genuine-flight-wrong-phantom:"+reg.tname(), ph, append(append([]byte(nil), fl...), r.Bytes(r.Intn(40))...))
		}
		// truncated genuine flights: every proper prefix (min, prefix), sampled (obfs4)
		if reg.phantom != c34PhMany && !thorough {
			continue
		}
		if reg.tt == pb.TransportType_Obfs4 {
			for _, k := range []int{1, 31, 32, 33, 63, 64, 65, len(fl) - 33, len(fl) - 32, len(fl) - 17, len(fl) - 16, len(fl) - 1, r.Range(1, len(fl)-1)} {
				if k > 0 && k < len(fl) {
					g.probe("genuine-flight-truncated:obfs4", reg.phantom, fl[:k])
				}
			}
			continue
		}
		for k := 1; k < len(fl); k++ {
			if thorough || k%3 == ci%3 || k >= len(fl)-2 {
				g.probe("genuine-flight-truncated:"+reg.tname(), reg.phantom, fl[:k])
			}
		}
	}
	// flights of registrations that were tracked but never validated, to their own phantom
	for _, reg := range g.w.regs {
		if !reg.valid {
			for k := 0; k < 3; k++ {
				g.probe("unvalidated-registration-flight:"+reg.tname(), reg.phantom, append(g.flight(reg, -2), r.Bytes(r.Intn(30))...))
			}
		}
	}
}

func (g *c03Gen) random(n int) {
	r := g.r
	for i := 0; i < n; i++ {
		var d []byte
		class := "random"
		switch k := r.Intn(50); {
		case k < 15:
			d = r.Bytes(r.Range(0, 100))
		case k < 30:
			d = r.Bytes(r.Range(100, 1500))
		case k < 34:
			d = r.Bytes(r.Range(1500, 4096))
		case k < 36:
			d = r.Bytes(r.Range(4096, 16384))
		case k < 37:
			d = r.Bytes([]int{32, 64, 8192, 16384}[r.Intn(4)])
		default:
			d = c03Lookalike(r)
			class = "protocol-lookalike"
		}
		g.probe(class, g.anyPhantom(), d)
	}
}

// ---- tagged streams that end in the transport-error path (sleep until the deadline): the stream
// carries a registered tag under the wrong prefix, so it is outside the property; the run checks
// the model's `err` branch against the real code (in real time, concurrently with everything else)
func c03ErrorPath(out *vlib.Out, n int, wg *sync.WaitGroup) {
	for i := 0; i < n; i++ {
		wg.Add(1)
		go func(i int) {
			defer wg.Done()
			c03EnvMu.RLock()
			w, err := newC34World(fmt.Sprintf("C03/err%d", i), "")
			c03EnvMu.RUnlock()
			if err != nil {
				out.Note("error-path world: " + err.Error())
				return
			}
			reg, err := w.addReg(pb.TransportType_Prefix, int32(prefix.GetLong), 0, false, c34PhMany, true, w.newSecret())
			if err != nil {
				out.Note("error-path registration: " + err.Error())
				return
			}
			if _, err := w.addReg(pb.TransportType_Min, 0, 0, false, c34PhMany, true, w.newSecret()); err != nil {
				out.Note("error-path registration: " + err.Error())
				return
			}
			ws, err := w.flightWrites(reg, int32(prefix.Min)) // registered with GetLong, connects with the Min prefix
			if err != nil {
				out.Note("error-path flight: " + err.Error())
				return
			}
			fl := c34Concat(ws)
			cut := 1 + i*7%(len(fl)-1)
			c := c03Case{phantom: c34PhMany, geo: "ok", tagged: true, class: "wrong-prefix-registered-tag", world: -1 - i,
				evs: []c34Ev{{kind: "d", data: fl[:cut]}, {kind: "d", data: fl[cut:]}, {kind: "d", data: []byte("more")}}}
			c03Run(out, w, &c, 40*time.Second)
		}(i)
	}
}

// ---- real loopback sockets, real time
//
// Probes are dialled to a listener on 127.0.0.1 and one on [::1] (an IPv6 peer address). The accepting
// side hands every other connection to the handler as the RAW *net.TCPConn — the type the station's
// accept loop passes, so that code behind a `clientConn.(*net.TCPConn)` assertion runs — and the others
// wrapped in the recording connection (call log, model line). The phantom rotates per connection among
// the many-registrations phantom, a phantom without registrations (the count<1 drain), one with only
// unvalidated registrations, one with a single registration and the IPv6 phantom. The client side
// observes what a prober can: no byte ever arrives, the connection is not closed before 5 s, and it ends
// with an orderly close (FIN), not a reset.
type c03RealRun struct {
	run     *c34Run
	raw     bool
	phantom string
	k       int
}

func c03RealSockets(out *vlib.Out, n int, wg *sync.WaitGroup) {
	wg.Add(1)
	go func() {
		defer wg.Done()
		c03EnvMu.RLock()
		w, err := newC34World("C03/real", "")
		c03EnvMu.RUnlock()
		if err != nil {
			out.Note("real sockets: " + err.Error())
			return
		}
		// the station's real MaxMind reader on hand-built databases that know the loopback peers
		// (127.0.0.1 and ::1 lie in different ASNs), and a statistics loop that starts a new epoch
		// every 150 ms while the probes are being handled
		x, err := c03SetupWorld(w, -1)
		if err != nil {
			c03Fail(out, "C03:harness", "real sockets: "+err.Error(), "c03real|setup")
			return
		}
		w.rm.GeoIP = x.db
		if _, err := w.populate(); err != nil {
			out.Note("real sockets: " + err.Error())
			return
		}
		stopStats := make(chan struct{})
		var statsDone sync.WaitGroup
		statsDone.Add(1)
		go func() {
			defer statsDone.Done()
			for k := 0; ; k++ {
				select {
				case <-stopStats:
					return
				case <-time.After(150 * time.Millisecond):
					x.reset(k%2 == 0)
					out.Count("real-socket:stats-epoch")
					// and a configuration reload every 300 ms: successful ones and ones that fail in every way
					if k%2 == 1 {
						toks := []string{"kkkk", "kkmk", "kkkx", "mkkk", "kmkk", "kkjd", "tkuu", "kkkk", "bkkk", "kkdk"}
						tok := toks[(k/2)%len(toks)]
						rl, _ := c03ParseReloads(tok)
						if p := x.reload(rl[0]); p != nil {
							c03Fail(out, "C03:panic", fmt.Sprintf("real sockets: the configuration reload %s panicked while probes were being handled (the station process dies and closes every open connection at once): %v", tok, p),
								fmt.Sprintf("c03real|seed=%d|reload=%s", vlib.Seed(), tok))
						}
						out.Count("real-socket:reload")
					}
				}
			}
		}()
		defer func() { close(stopStats); statsDone.Wait() }()
		var lns []net.Listener
		for _, a := range []string{"127.0.0.1:0", "[::1]:0"} {
			ln, err := net.Listen("tcp", a)
			if err != nil {
				out.Note("real sockets: no listener on " + a + ": " + err.Error())
				out.Count("real-socket:no-listener:" + a)
				continue
			}
			defer ln.Close()
			lns = append(lns, ln)
		}
		if len(lns) == 0 {
			return
		}
		phantoms := []string{c34PhMany, c34PhNone, c34PhInvalid, c34PhOne(0), c34PhV6}
		r := vlib.NewRand("C03/real")
		type probe struct {
			data  []byte
			segs  int
			style string // silent | eof | rst
		}
		var inner sync.WaitGroup
		var srvMu sync.Mutex
		var accepted int
		srv := map[string]*c03RealRun{} // by client address
		for _, ln := range lns {
			ln := ln
			go func() {
				for {
					c, err := ln.Accept()
					if err != nil {
						return
					}
					inner.Add(1)
					go func() {
						defer inner.Done()
						srvMu.Lock()
						k := accepted
						accepted++
						srvMu.Unlock()
						rr := &c03RealRun{raw: k%2 == 1, phantom: phantoms[(k/2)%len(phantoms)], k: k}
						ip := net.ParseIP(rr.phantom)
						var hc net.Conn = c
						var conn *c34Conn
						if !rr.raw {
							conn = newC34Real(c, c.RemoteAddr())
							hc = conn
						}
						rr.run = &c34Run{conn: conn, phantom: rr.phantom, geoMode: "ok", count: w.rm.CountRegistrations(ip), t0: time.Now()}
						srvMu.Lock()
						srv[c.RemoteAddr().String()] = rr
						srvMu.Unlock()
						func() {
							// a panic of the handler is a crash of the station: recorded, and the connection
							// closed at once (as the dying process would)
							defer func() {
								if p := recover(); p != nil {
									srvMu.Lock()
									rr.run.panicked = p
									srvMu.Unlock()
								}
							}()
							w.cm.handleNewTCPConn(w.rm, hc, ip)
						}()
						srvMu.Lock()
						rr.run.tRet, rr.run.returned = time.Now(), true
						srvMu.Unlock()
						c.Close() // what handleNewConn's deferred Close does
					}()
				}
			}()
		}
		for i := 0; i < n; i++ {
			p := probe{data: c03Lookalike(r), segs: r.Range(1, 4), style: "silent"}
			if r.Chance(1, 4) {
				p.data = r.Bytes(r.Range(0, 16384))
			}
			if r.Chance(1, 8) {
				p.style = []string{"eof", "rst"}[r.Intn(2)]
			}
			ln := lns[0]
			if len(lns) > 1 && i%3 == 2 {
				ln = lns[1] // a third of the probes from an IPv6 peer address
			}
			inner.Add(1)
			go func(i int, p probe, addr string) {
				defer inner.Done()
				start := time.Now()
				c, err := net.Dial("tcp", addr)
				if err != nil {
					out.Note("real sockets dial: " + err.Error())
					return
				}
				defer c.Close()
				local := c.LocalAddr().String()
				per := (len(p.data) + p.segs - 1) / p.segs
				for off := 0; off < len(p.data); off += per {
					end := off + per
					if end > len(p.data) {
						end = len(p.data)
					}
					if _, err := c.Write(p.data[off:end]); err != nil {
						break
					}
					time.Sleep(time.Duration(10+i%50) * time.Millisecond)
				}
				switch p.style {
				case "eof":
					c.(*net.TCPConn).CloseWrite()
				case "rst":
					c.(*net.TCPConn).SetLinger(0)
					c.Close()
				}
				var got []byte
				var endAt time.Time
				var rerr error
				if p.style != "rst" {
					_ = c.SetReadDeadline(start.Add(40 * time.Second))
					got, rerr = io.ReadAll(c)
					endAt = time.Now()
				}
				// wait for the server side to finish and evaluate
				var rr *c03RealRun
				for k := 0; k < 4000; k++ {
					srvMu.Lock()
					rr = srv[local]
					finished := rr != nil && rr.run.returned
					srvMu.Unlock()
					if finished {
						break
					}
					time.Sleep(10 * time.Millisecond)
				}
				rp := fmt.Sprintf("c03real|seed=%d|probe=%d|peer=%s|style=%s|segs=%d|data=%s", vlib.Seed(), i, local, p.style, p.segs, vlib.Hex(p.data))
				out.Checked()
				srvMu.Lock()
				finished := rr != nil && rr.run.returned
				srvMu.Unlock()
				if !finished {
					c03Fail(out, "C03:hang", "real socket: the handler had not returned after 40 s", rp)
					return
				}
				run := rr.run
				how := "recorded connection"
				if rr.raw {
					how = "raw *net.TCPConn"
				}
				where := fmt.Sprintf("%s, phantom %s (%d registrations), peer %s", how, rr.phantom, run.count, local)
				rp = strings.Replace(rp, "|style=", fmt.Sprintf("|accepted=%d|phantom=%s|raw=%s|style=", rr.k, rr.phantom, vlib.B(rr.raw)), 1)
				if run.panicked != nil {
					c03Fail(out, "C03:panic", fmt.Sprintf("real socket: the handler panicked %v after the connection was accepted (the station process dies and closes every open connection at once): %v (%s; GeoIP: the real MaxMind reader; statistics epochs of 150 ms)",
						run.tRet.Sub(run.t0).Round(time.Millisecond), run.panicked, where), rp)
					return
				}
				if len(got) > 0 {
					c03Fail(out, "C03:write", fmt.Sprintf("real socket: the peer received %d bytes (%s)", len(got), where), rp)
				}
				if p.style == "silent" {
					if d := endAt.Sub(start); d < 5*time.Second {
						c03Fail(out, "C03:early-close", fmt.Sprintf("real socket: connection ended after %v (%s)", d, where), rp)
					}
					if d := run.tRet.Sub(run.t0); d < 5*time.Second {
						c03Fail(out, "C03:early-return", fmt.Sprintf("real socket: handler returned after %v (%s)", d, where), rp)
					} else if d > 12*time.Second {
						out.Count("real-socket:returned-later-than-12s")
					}
					// everything the peer sent was read long before the deadline, so the close is orderly; a
					// reset here means data was left unread or the socket was set to abort
					if errors.Is(rerr, syscall.ECONNRESET) {
						c03Fail(out, "C03:reset-instead-of-close", fmt.Sprintf("real socket: the connection was reset, not closed (%s)", where), rp)
					}
				}
				out.Count("class:real-socket-" + p.style)
				phName := map[string]string{c34PhMany: "many", c34PhNone: "none", c34PhInvalid: "unvalidated-only", c34PhV6: "v6"}[rr.phantom]
				if phName == "" {
					phName = "one"
				}
				out.Count("real-socket:phantom:" + phName)
				if strings.HasPrefix(local, "[") {
					out.Count("real-socket:peer-v6")
				} else {
					out.Count("real-socket:peer-v4")
				}
				if rr.raw {
					out.Count("real-socket:raw-tcpconn")
					return
				}
				out.Count("real-socket:recorded")
				// the recorded reads are the script of the model line
				cn := w.canon(run)
				for _, e := range run.conn.log.snapshot() {
					if e.kind == 'W' || e.kind == 'C' || e.kind == 'Z' || e.kind == 'r' || e.kind == 'w' {
						c03Fail(out, "C03:"+map[byte]string{'W': "write", 'C': "close", 'Z': "deadline-changed", 'r': "deadline-changed", 'w': "deadline-changed"}[e.kind],
							"real socket: call "+string(e.kind)+" on the client connection ("+where+")", rp)
					}
				}
				out.Case(cn.modelLine, cn.implOut, true)
			}(i, p, ln.Addr().String())
			time.Sleep(2 * time.Millisecond)
		}
		inner.Wait()
		if p := x.takeResetPanic(); p != nil {
			c03Fail(out, "C03:panic", fmt.Sprintf("real sockets: the statistics loop (PrintAndReset / Reset) panicked while probes were being handled (the station process dies and closes every open connection at once): %v", p),
				fmt.Sprintf("c03real|seed=%d|statistics-loop", vlib.Seed()))
		}
	}()
}

func TestVerifC03(t *testing.T) {
	out := vlib.Open("C03")
	defer out.Close()
	restore := c34Silence()
	defer restore()
	if rp := vlib.Replay(); rp != "" {
		c03Replay(t, out, rp)
		return
	}
	thorough := vlib.Tier() == "thorough"
	out.Note("C03: bit-flip probes exclude the two padding bits of the prefix tag (byte 31, bits 6-7, masked by the station) and, for obfs4, the padding/MAC (the mark stays valid); GeoIP-failure cases are correspondence-only (hypothesis of the property)")
	var bg sync.WaitGroup
	c03ErrorPath(out, vlib.Budget(2, 8), &bg)
	c03RealSockets(out, vlib.Budget(40, 300), &bg)

	nW := 6
	var wg sync.WaitGroup
	errs := make(chan error, nW+1)
	worlds := make([]*c34World, nW)
	clientsOf := make([][]*c34Reg, nW)
	for wi := 0; wi < nW; wi++ {
		w, err := newC34World(fmt.Sprintf("C03/%d", wi), "")
		if err != nil {
			t.Fatal(err)
		}
		if _, err := c03SetupWorld(w, wi); err != nil {
			t.Fatal(err)
		}
		if clientsOf[wi], err = w.populate(); err != nil {
			t.Fatal(err)
		}
		worlds[wi] = w
	}
	// one generator per world (flights are built from that world's secrets); the generated cases of
	// world wi are executed by worker wi
	chans := make([]chan c03Case, nW)
	for wi := 0; wi < nW; wi++ {
		chans[wi] = make(chan c03Case, 256)
		wg.Add(1)
		go func(wi int) {
			defer wg.Done()
			for c := range chans[wi] {
				if c03GiveUp() {
					out.Count("skipped-after-5-slow-probes-and-an-oracle-failure")
					continue
				}
				c.world = wi
				c03Run(out, worlds[wi], &c, 60*time.Second)
			}
		}(wi)
	}
	gens := make([]*c03Gen, nW)
	for wi := 0; wi < nW; wi++ {
		wi := wi
		gens[wi] = &c03Gen{r: vlib.NewRand(fmt.Sprintf("C03/gen%d", wi)), w: worlds[wi], clients: clientsOf[wi], emit: func(c c03Case) {
			if c03GiveUp() {
				out.Count("skipped-after-5-slow-probes-and-an-oracle-failure")
				return
			}
			chans[wi] <- c
		}}
	}
	var gwg sync.WaitGroup
	for wi := 0; wi < nW; wi++ {
		gwg.Add(1)
		go func(wi int) {
			defer gwg.Done()
			defer close(chans[wi])
			defer func() {
				if p := recover(); p != nil {
					errs <- fmt.Errorf("generator %d: %v", wi, p)
				}
			}()
			g := gens[wi]
			switch wi {
			case 0:
				g.corpus()
				g.staticPrefixes(thorough)
			case 1:
				g.flips(thorough)
			case 2:
				g.wrongPlace(thorough)
			case 3, 4, 5:
				// scripted GeoIP stand-in / the real MaxMind reader / the real EmptyDatabase
				g.statsEpochs(thorough)
				// reload histories before the probe: start-up database = stand-in / real reader / real EmptyDatabase
				g.reloadHistories(thorough, wi != 4, wi == 4)
			}
			g.random(vlib.Budget(2500, 12000))
		}(wi)
	}
	gwg.Wait()
	wg.Wait()
	bg.Wait()
	// the clock (zz_verif_c03_time_test.go): alone, math/rand is seeded per connection
	c03Timed(out, worlds[0], thorough)
	select {
	case err := <-errs:
		restore()
		t.Fatal(err)
	default:
	}
}

// c03Replay re-runs `c03|…` lines of a replay file on the implementation.
func c03Replay(t *testing.T, out *vlib.Out, path string) {
	lines, err := c34ReplayLines(path, "c03")
	if err != nil {
		t.Fatal(err)
	}
	reals, _ := c34ReplayLines(path, "c03real")
	worlds := map[string]*c34World{}
	for _, m := range lines {
		os.Setenv("VERIF_SEED", m["seed"])
		key := m["seed"] + "/" + m["world"]
		w := worlds[key]
		if w == nil {
			var wi int
			fmt.Sscan(m["world"], &wi)
			if wi < 0 {
				t.Logf("replay: world %d is a background world; the case is re-generated by a full run", wi)
				continue
			}
			if w, err = newC34World(fmt.Sprintf("C03/%d", wi), ""); err != nil {
				t.Fatal(err)
			}
			if _, err = c03SetupWorld(w, wi); err != nil {
				t.Fatal(err)
			}
			if _, err = w.populate(); err != nil {
				t.Fatal(err)
			}
			worlds[key] = w
		}
		evs, err := c34ParseEvs(m["script"])
		if err != nil {
			t.Fatal(err)
		}
		c := c03Case{phantom: m["phantom"], geo: m["geo"], tagged: m["tagged"] == "1", class: m["class"], evs: evs, peer: m["peer"], src: m["src"], resets: m["resets"], reloads: m["reloads"]}
		fmt.Sscan(m["world"], &c.world)
		c03Run(out, w, &c, 60*time.Second)
		fmt.Fprintf(os.Stderr, "REPLAY c03 class=%s phantom=%s geo=%s peer=%s src=%s resets=%s reloads=%s events=%d\n", c.class, c.phantom, c.geo, c.peer, c.src, c.resets, c.reloads, len(evs))
	}
	if len(reals) > 0 {
		var bg sync.WaitGroup
		c03RealSockets(out, 20, &bg)
		bg.Wait()
	}
	if err := c03TimedReplay(out, path); err != nil {
		t.Fatal(err)
	}
	if len(c03Fails) == 0 {
		fmt.Fprintln(os.Stderr, "REPLAY c03: the property held on every replayed case")
	}
	for _, f := range c03Fails {
		fmt.Fprintln(os.Stderr, "REPLAY c03 ORACLE FAILURE:", f)
	}
}
