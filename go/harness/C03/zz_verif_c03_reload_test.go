//go:build verif

package main

// C03 — the station state the connection arrives in: configuration reloads before the probe.
//
// handleNewTCPConn reads reloadable station state before it arms the deadline: GeoIPDatabase().CC and
// .ASN.  A SIGHUP makes main's loop call cj.ParseConfig() and, when that succeeds,
// regManager.OnReload(newConf.RegConfig), which re-reads the phantom subnet file, replaces the block /
// allow lists and asks geoip.New for a new database.  Every one of these steps can fail (the
// configuration file is missing / not TOML / has a blocklist entry that does not parse; the subnet file
// is missing / not TOML; a database path is not set, or points at a file that is missing, a directory,
// not a MaxMind file, or truncated — a database update in progress).  Whatever happened, the next
// connection must be handled as the property says: a handler that panics there kills the station and
// closes every open connection at once.
//
// Dimension added here (replay field `reloads=` of a `c03|…` line): a history of reloads, each a
// four-letter token <config><subnets><asn path><cc path>, performed with the station's own ParseConfig
// and OnReload on real files, between the installation of the start-up database and the connection.
// After the history the probe runs with all the C03 oracles (no byte, no close, deadline armed once in
// 5-10 s, read until the first read error, no panic).  Correspondence: `reloadenv|<tokens>` — the
// database in force (told apart by its type and by what it answers for a reference address) and the
// number of selector replacements against the Lean model CJ.ReloadEnv.run (`reloadenv|<start-up database>|<tokens>`).

import (
	"fmt"
	"net"
	"os"
	"path/filepath"
	"strings"
	"sync"

	"github.com/refraction-networking/conjure/internal/vlib"
	"github.com/refraction-networking/conjure/pkg/station/geoip"
	cj "github.com/refraction-networking/conjure/pkg/station/lib"
)

// c03EnvMu: CJ_STATION_CONFIG and PHANTOM_SUBNET_LOCATION are process-wide.  A reload holds the write
// lock while they point at its files; whoever builds a registration manager holds the read lock.
var c03EnvMu sync.RWMutex

const (
	c03CfgKinds = "kmtb"   // parses | missing | not TOML | bad blocklist entry
	c03SubKinds = "kmt"    // parses | missing | not TOML
	c03DBKinds  = "ukmdjx" // not set | opens | missing | a directory | not a MaxMind file | truncated
)

type c03Reload struct{ cfg, sub, asn, cc byte }

func (r c03Reload) String() string { return string([]byte{r.cfg, r.sub, r.asn, r.cc}) }

func c03ParseReloads(s string) ([]c03Reload, error) {
	if s == "" {
		return nil, nil
	}
	var out []c03Reload
	for _, f := range strings.Split(s, ",") {
		if len(f) != 4 || !strings.ContainsRune(c03CfgKinds, rune(f[0])) || !strings.ContainsRune(c03SubKinds, rune(f[1])) ||
			!strings.ContainsRune(c03DBKinds, rune(f[2])) || !strings.ContainsRune(c03DBKinds, rune(f[3])) {
			return nil, fmt.Errorf("bad reload %q", f)
		}
		out = append(out, c03Reload{f[0], f[1], f[2], f[3]})
	}
	return out, nil
}

// ---------------------------------------------------------------------------------------------
// the files

var (
	c03RlOnce sync.Once
	c03RlDir  string
	c03RlErr  error
	c03RlSeq  int
)

func c03ReloadFiles() (string, error) {
	c03RlOnce.Do(func() {
		if _, c03RlErr = c03RealGeoIP(); c03RlErr != nil { // writes cc.mmdb / asn.mmdb into c03DBDir
			return
		}
		c03RlDir = filepath.Join(c03DBDir, "reload")
		if c03RlErr = os.MkdirAll(filepath.Join(c03RlDir, "adir"), 0o755); c03RlErr != nil {
			return
		}
		junk := vlib.NewRand("C03/reload-junk").Bytes(4096)
		files := map[string][]byte{"junk.mmdb": junk, "bad.toml": []byte("geoip_cc_db_path = [\"unterminated\n[[[\n"), "empty.mmdb": {}}
		for _, n := range []string{"cc", "asn"} {
			b, err := os.ReadFile(filepath.Join(c03DBDir, n+".mmdb"))
			if err != nil {
				c03RlErr = err
				return
			}
			files["trunc-"+n+".mmdb"] = b[:len(b)/2] // the metadata section is at the end of the file
		}
		for n, b := range files {
			if c03RlErr = os.WriteFile(filepath.Join(c03RlDir, n), b, 0o644); c03RlErr != nil {
				return
			}
		}
		// what the generator calls "broken" must be refused by the station's own geoip.New, "opens" accepted:
		// otherwise the dimension would silently test something else
		for _, k := range "mdjx" {
			for _, half := range []string{"asn", "cc"} {
				conf := &geoip.DBConfig{}
				if half == "asn" {
					conf.ASNDBPath = c03DBPath(byte(k), half)
				} else {
					conf.CCDBPath = c03DBPath(byte(k), half)
				}
				if db, err := geoip.New(conf); err == nil || db != nil {
					c03RlErr = fmt.Errorf("reload files: geoip.New accepts the %s file of kind %c (%v, %v)", half, k, db, err)
					return
				}
			}
		}
	})
	return c03RlDir, c03RlErr
}

func c03DBPath(kind byte, half string) string {
	switch kind {
	case 'k':
		return filepath.Join(c03DBDir, half+".mmdb")
	case 'm':
		return filepath.Join(c03RlDir, "absent-"+half+".mmdb")
	case 'd':
		return filepath.Join(c03RlDir, "adir")
	case 'j':
		return filepath.Join(c03RlDir, "junk.mmdb")
	case 'x':
		return filepath.Join(c03RlDir, "trunc-"+half+".mmdb")
	}
	return ""
}

// ---------------------------------------------------------------------------------------------
// one reload: the body of the SIGHUP loop of cmd/application/main.go on the files of the token

func (x *c03X) reload(r c03Reload) (panicked any) {
	dir, err := c03ReloadFiles()
	if err != nil {
		return "harness: " + err.Error()
	}
	c03EnvMu.Lock()
	defer c03EnvMu.Unlock()
	c03RlSeq++
	cfgPath := filepath.Join(dir, fmt.Sprintf("station-%d.toml", c03RlSeq%8))
	var cfg strings.Builder
	if r.asn != 'u' {
		fmt.Fprintf(&cfg, "geoip_asn_db_path = %q\n", c03DBPath(r.asn, "asn"))
	}
	if r.cc != 'u' {
		fmt.Fprintf(&cfg, "geoip_cc_db_path = %q\n", c03DBPath(r.cc, "cc"))
	}
	cfg.WriteString("covert_blocklist_subnets = [\"10.0.0.0/8\", \"fc00::/7\"]\nphantom_blocklist = [\"203.0.113.0/28\"]\n")
	switch r.cfg {
	case 'm':
		cfgPath = filepath.Join(dir, "absent-station.toml")
	case 't':
		cfgPath = filepath.Join(dir, "bad.toml")
	case 'b':
		cfg.WriteString("covert_allowlist_subnets = [\"192.0.2.0/33\"]\n")
	}
	if r.cfg == 'k' || r.cfg == 'b' {
		if err := os.WriteFile(cfgPath, []byte(cfg.String()), 0o644); err != nil {
			return "harness: " + err.Error()
		}
	}
	oldCfg, hadCfg := os.LookupEnv("CJ_STATION_CONFIG")
	oldSub := os.Getenv("PHANTOM_SUBNET_LOCATION")
	os.Setenv("CJ_STATION_CONFIG", cfgPath)
	switch r.sub {
	case 'm':
		os.Setenv("PHANTOM_SUBNET_LOCATION", filepath.Join(dir, "absent-subnets.toml"))
	case 't':
		os.Setenv("PHANTOM_SUBNET_LOCATION", filepath.Join(dir, "bad.toml"))
	}
	defer func() {
		os.Setenv("PHANTOM_SUBNET_LOCATION", oldSub)
		if hadCfg {
			os.Setenv("CJ_STATION_CONFIG", oldCfg)
		} else {
			os.Unsetenv("CJ_STATION_CONFIG")
		}
		panicked = recover()
	}()
	// cmd/application/main.go: "Use SigHUP to indicate config reload"
	newConf, err := cj.ParseConfig()
	if err != nil {
		return nil
	}
	x.w.rm.OnReload(newConf.RegConfig)
	return nil
}

// ---------------------------------------------------------------------------------------------
// ground truth (bookkeeping of the harness, independent of the Lean model): which database a history
// leaves in force and what it answers

func c03ReloadInstalls(r c03Reload) (kind string, ok bool) {
	if r.cfg != 'k' {
		return "", false
	}
	opens := func(k byte) bool { return k == 'k' }
	switch {
	case r.asn == 'u' && r.cc == 'u':
		return "empty", true
	case (r.asn != 'u' && !opens(r.asn)) || (r.cc != 'u' && !opens(r.cc)):
		return "", false
	case r.asn == 'k' && r.cc == 'k':
		return "mmdb", true
	case r.asn == 'k':
		return "asnonly", true
	}
	return "cconly", true
}

// c03Recorded: what the hand-built database files say about an address (longest prefix)
func c03Recorded(ip net.IP) (cc string, asn uint) {
	bestCC, bestASN := -1, -1
	for _, rec := range c03GeoRecs {
		_, n, err := net.ParseCIDR(rec.cidr)
		if err != nil || !n.Contains(ip) || (n.IP.To4() != nil) != (ip.To4() != nil) {
			continue
		}
		ones, _ := n.Mask.Size()
		if rec.cc != "" && ones > bestCC {
			bestCC, cc = ones, rec.cc
		}
		if rec.asn != 0 && ones > bestASN {
			bestASN, asn = ones, rec.asn
		}
	}
	return
}

var c03RefAddr = net.ParseIP("203.0.113.99") // US / 64500 in the hand-built files

// c03DBLabel names the database in force by what the handler can see of it
func c03DBLabel(db, initial geoip.Database) (label string) {
	defer func() {
		if p := recover(); p != nil {
			label = fmt.Sprintf("panics(%v)", p)
		}
	}()
	if db == nil {
		return "nil"
	}
	if _, ok := db.(*geoip.EmptyDatabase); ok { // (a zero-size type: its pointers cannot be told apart)
		return "empty"
	}
	if db == initial {
		return "init"
	}
	cc, err1 := db.CC(c03RefAddr)
	asn, err2 := db.ASN(c03RefAddr)
	switch {
	case err1 != nil || err2 != nil:
		return fmt.Sprintf("lookup-fails(%v,%v)", err1, err2)
	case cc == "US" && asn == 64500:
		return "mmdb"
	case cc == "US" && asn == 0:
		return "cconly"
	case cc == "" && asn == 64500:
		return "asnonly"
	}
	return fmt.Sprintf("other(%q,%d)", cc, asn)
}

// reloadHistory performs the reloads of the case (after installGeo put the start-up database in force)
// and returns what the database in force will answer for the peer.
func (x *c03X) reloadHistory(out *vlib.Out, c *c03Case, remote net.Addr, cc string, asn uint, geoOK, record bool) (string, uint, bool, bool) {
	rs, err := c03ParseReloads(c.reloads)
	if err != nil {
		c03Fail(out, "C03:harness", err.Error(), c.replay(vlib.Seed()))
		return cc, asn, geoOK, true
	}
	initial := x.w.rm.GeoIPDatabase()
	kind, sel := "init", 0
	initLabel := "init"
	if _, ok := initial.(*geoip.EmptyDatabase); ok {
		initLabel = "empty"
	}
	selBefore := x.w.rm.PhantomSelector
	for _, r := range rs {
		if p := x.reload(r); p != nil {
			c03Fail(out, "C03:panic", fmt.Sprintf("panic: the configuration reload %s panicked (main's goroutine: the station process dies and closes every open connection at once): %v (class %s, reloads %q)",
				r, p, c.class, c.reloads), c.replay(vlib.Seed()))
			return cc, asn, geoOK, true
		}
		if x.w.rm.PhantomSelector != selBefore {
			sel++
			selBefore = x.w.rm.PhantomSelector
		}
		if k, ok := c03ReloadInstalls(r); ok {
			kind = k
			out.Count("reload:installs-" + k)
		} else if r.cfg != 'k' {
			out.Count("reload:config-fails-" + string(r.cfg))
		} else {
			out.Count("reload:database-fails-asn:" + string(r.asn) + "-cc:" + string(r.cc))
		}
		if r.sub != 'k' && r.cfg == 'k' {
			out.Count("reload:subnet-file-fails-" + string(r.sub))
		}
	}
	if record {
		out.Case("reloadenv|"+initLabel+"|"+c.reloads, fmt.Sprintf("db=%s;sel=%d", c03DBLabel(x.w.rm.GeoIPDatabase(), initial), sel), true)
		out.Count(fmt.Sprintf("reload:history-length-%d", len(rs)))
		out.Count("reload:database-in-force-" + kind)
	}
	ta, isTCP := remote.(*net.TCPAddr)
	if kind == "init" || !isTCP {
		return cc, asn, geoOK, false
	}
	rcc, rasn := c03Recorded(ta.IP)
	switch kind {
	case "empty":
		return "", 0, true, false
	case "cconly":
		return rcc, 0, true, false
	case "asnonly":
		return "", rasn, true, false
	}
	return rcc, rasn, true, false
}

// ---------------------------------------------------------------------------------------------
// generators

func (g *c03Gen) reloadProbe(class, reloads string, thorough bool) {
	r := g.r
	phs := []string{c34PhMany, c34PhNone, c34PhV6, c34PhInvalid, c34PhOne(0)}
	if !thorough {
		phs = []string{phs[r.Intn(len(phs))]}
	}
	for _, ph := range phs {
		var evs []c34Ev
		switch r.Intn(4) {
		case 0: // nothing at all
		case 1:
			evs = []c34Ev{{kind: "d", data: r.Bytes(r.Range(1, 700))}}
		default:
			evs = c03Segment(r, r.Bytes(r.Range(1, 3000)))
		}
		c := c03Case{phantom: ph, geo: "ok", evs: c03End(r, evs), class: class, reloads: reloads}
		x := c03XOf(g.w)
		if x.dbKind != "standin" {
			c.peer = c03StatPeers[r.Intn(len(c03StatPeers))]
		} else {
			ss := g.sources()
			so := ss[r.Intn(len(ss))]
			c.src, c.peer = so.src, so.peer
		}
		g.emit(c)
	}
}

func c03RandReload(r *vlib.Rand) c03Reload {
	pick := func(s string, okWeight int) byte { // the first two letters of the database kinds are "not set" and "opens"
		if r.Intn(10) < okWeight {
			return 'k'
		}
		return s[r.Intn(len(s))]
	}
	return c03Reload{pick(c03CfgKinds, 7), pick(c03SubKinds, 7), pick(c03DBKinds, 4), pick(c03DBKinds, 4)}
}

// reloadHistories: every single reload (4 x 3 x 6 x 6 tokens); every ordered pair of representative
// reloads (each way of succeeding, each way of failing); random histories of up to six reloads.
func (g *c03Gen) reloadHistories(thorough, singles, pairs bool) {
	for _, cf := range c03CfgKinds {
		if !singles && !thorough {
			break
		}
		for _, sb := range c03SubKinds {
			for _, a := range c03DBKinds {
				for _, c := range c03DBKinds {
					g.reloadProbe("reload:single", string([]rune{cf, sb, a, c}), thorough)
				}
			}
		}
	}
	reps := []string{"kkkk", "kkuu", "kkku", "kkuk", "kmkk", // install: both files, none (empty database), one half; with a bad subnet file
		"kkmk", "kkkm", "kkdk", "kkkj", "kkxk", "kkkx", "kkju", "kkum", "ktmd", // geoip.New fails: each file, each way
		"mkkk", "tkkk", "bkkk", "bmxj"} // ParseConfig fails
	for _, a := range reps {
		if !pairs && !thorough {
			break
		}
		for _, b := range reps {
			g.reloadProbe("reload:pair", a+","+b, false)
		}
	}
	for i, n := 0, vlib.Budget(150, 1500); i < n; i++ {
		var toks []string
		for k, l := 0, g.r.Range(1, 6); k < l; k++ {
			toks = append(toks, c03RandReload(g.r).String())
		}
		g.reloadProbe("reload:history", strings.Join(toks, ","), false)
	}
}

// dressReloads: now and then a probe of the other generators arrives after a short reload history
func (g *c03Gen) dressReloads(c *c03Case) {
	if c.geo != "ok" || c.tagged || !g.r.Chance(1, 16) {
		return
	}
	var toks []string
	for k, l := 0, g.r.Range(1, 3); k < l; k++ {
		toks = append(toks, c03RandReload(g.r).String())
	}
	c.reloads = strings.Join(toks, ",")
}
