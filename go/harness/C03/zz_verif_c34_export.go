//go:build verif

package lib

// White-box accessors for the C03 / C04 harnesses, which live in package main of cmd/application and
// cannot reach the unexported registry fields. This file exists only in the scratch copy of the
// repository made by /verif/check (copied into pkg/station/lib), never in /repo.

// VerifC34StubDetector replaces the two detector announcements (Redis publish) of a registration
// manager by callbacks. The callbacks run under the registry lock and must not call back into it.
func VerifC34StubDetector(rm *RegistrationManager, onNew, onUpd func(*DecoyRegistration)) {
	r := rm.registeredDecoys
	r.m.Lock()
	defer r.m.Unlock()
	r.registerForDetector = onNew
	r.updateInDetector = onUpd
}

func verifC34Timeout(rm *RegistrationManager, reg *DecoyRegistration) *DecoyTimeout {
	r := rm.registeredDecoys
	t, ok := r.transports[reg.Transport]
	if !ok {
		return nil
	}
	ph, id := reg.PhantomIp.String(), t.GetIdentifier(reg)
	// by the registry's own key, so that the record's bookkeeping fields are not named here
	return r.decoysTimeouts[timeoutIndex(ph, id)]
}

// VerifC34TimeoutUsed reports whether a timeout record exists for the registration and whether it
// is marked used.
func VerifC34TimeoutUsed(rm *RegistrationManager, reg *DecoyRegistration) (exists, used bool) {
	r := rm.registeredDecoys
	r.m.RLock()
	defer r.m.RUnlock()
	to := verifC34Timeout(rm, reg)
	if to == nil {
		return false, false
	}
	return true, to.status == regStatusUsed
}

// VerifC34ResetUnused puts the timeout record of the registration back to "unused" so that the next
// connection's effect can be observed.
func VerifC34ResetUnused(rm *RegistrationManager, reg *DecoyRegistration) {
	r := rm.registeredDecoys
	r.m.Lock()
	defer r.m.Unlock()
	if to := verifC34Timeout(rm, reg); to != nil {
		to.status = regStatusUnused
	}
}
