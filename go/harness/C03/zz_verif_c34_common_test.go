//go:build verif

package main

// Shared machinery of the C03 and C04 harnesses (copied into cmd/application of the scratch copy by
// both plans): a recording net.Conn (scripted with virtual time, or wrapping a real connection),
// recording wrappers around the real wrapping transports, a registry "world" with real
// registrations of every transport / parameter set, real client-side flight builders, a loopback
// echo covert, and the canonicalisation of the observed call trace into the line protocol of the
// Lean connection-handler model (`conn|geo|count|tids|events|passes`).

import (
	"sync/atomic"
	"bytes"
	"context"
	"encoding/hex"
	"errors"
	"fmt"
	"io"
	"net"
	"os"
	"strconv"
	"strings"
	"sync"
	"syscall"
	"time"

	"github.com/refraction-networking/conjure/internal/conjurepath"
	"github.com/refraction-networking/conjure/internal/vlib"
	"github.com/refraction-networking/conjure/pkg/core"
	cj "github.com/refraction-networking/conjure/pkg/station/lib"
	"github.com/refraction-networking/conjure/pkg/transports"
	"github.com/refraction-networking/conjure/pkg/transports/wrapping/min"
	"github.com/refraction-networking/conjure/pkg/transports/wrapping/obfs4"
	"github.com/refraction-networking/conjure/pkg/transports/wrapping/prefix"
	pb "github.com/refraction-networking/conjure/proto"
	"golang.org/x/crypto/curve25519"
	"google.golang.org/protobuf/proto"
	"google.golang.org/protobuf/types/known/anypb"
)

// ---------------------------------------------------------------------------------------------
// call log

type c34Ent struct {
	kind    byte // D setdeadline(non-zero) Z setdeadline(zero) r setreaddeadline w setwritedeadline R read W write C close Q query M markactive
	n       int
	data    []byte
	res     string // R: "" (data) | eof | rst | to | err | closed
	tid     int
	verdict string // Q: T N E F<reg>.<consumed>
	reg     int
	inWrap  bool          // the call was made while a transport's WrapConnection was running
	at      time.Time     // real time of the call
	dl      time.Time     // D / r / w: the deadline value
	left    []byte        // Q found: what stayed in the buffer after the transport consumed its part
}

type c34Log struct {
	mu     sync.Mutex
	ents   []c34Ent
	inWrap bool
}

func (l *c34Log) add(e c34Ent) {
	l.mu.Lock()
	e.inWrap = l.inWrap && e.kind != 'Q'
	e.at = time.Now()
	l.ents = append(l.ents, e)
	l.mu.Unlock()
}

func (l *c34Log) setWrap(b bool) {
	l.mu.Lock()
	l.inWrap = b
	l.mu.Unlock()
}

func (l *c34Log) snapshot() []c34Ent {
	l.mu.Lock()
	defer l.mu.Unlock()
	return append([]c34Ent(nil), l.ents...)
}

// ---------------------------------------------------------------------------------------------
// scripted events

type c34Ev struct {
	kind string // d eof rst to err
	data []byte
}

func c34EvString(evs []c34Ev) string {
	var sb strings.Builder
	for i, e := range evs {
		if i > 0 {
			sb.WriteByte(';')
		}
		if e.kind == "d" {
			sb.WriteString("d")
			sb.WriteString(vlib.Hex(e.data))
		} else {
			sb.WriteString(e.kind)
		}
	}
	return sb.String()
}

func c34ParseEvs(s string) ([]c34Ev, error) {
	var out []c34Ev
	if s == "" {
		return nil, nil
	}
	for _, f := range strings.Split(s, ";") {
		switch {
		case f == "eof" || f == "rst" || f == "to" || f == "err":
			out = append(out, c34Ev{kind: f})
		case strings.HasPrefix(f, "d"):
			h := f[1:]
			var b []byte
			if h != "-" {
				var err error
				if b, err = hex.DecodeString(h); err != nil {
					return nil, err
				}
			}
			out = append(out, c34Ev{kind: "d", data: b})
		default:
			return nil, fmt.Errorf("bad event %q", f)
		}
	}
	return out, nil
}

func c34ErrFor(kind string) error {
	switch kind {
	case "eof":
		return io.EOF
	case "rst":
		return &net.OpError{Op: "read", Net: "tcp", Err: os.NewSyscallError("read", syscall.ECONNRESET)}
	case "to":
		return &net.OpError{Op: "read", Net: "tcp", Err: os.ErrDeadlineExceeded}
	default:
		return &net.OpError{Op: "read", Net: "tcp", Err: os.NewSyscallError("read", syscall.EIO)}
	}
}

func c34ErrKind(err error) string {
	var ne net.Error
	switch {
	case err == nil:
		return ""
	case errors.Is(err, io.EOF):
		return "eof"
	case errors.Is(err, syscall.ECONNRESET):
		return "rst"
	case errors.Is(err, net.ErrClosed), errors.Is(err, io.ErrClosedPipe), errors.Is(err, os.ErrClosed):
		return "closed"
	case errors.As(err, &ne) && ne.Timeout():
		return "to"
	default:
		return "err"
	}
}

// ---------------------------------------------------------------------------------------------
// the recording connection

type c34Conn struct {
	log    *c34Log
	remote net.Addr
	inner  net.Conn // real mode when non-nil

	mu       sync.Mutex
	script   []c34Ev
	pos, off int
	relay    bool // a transport found a registration: an exhausted script now means "the client waits"
	finish   chan struct{}
	closedCh chan struct{}
	closed   bool
	readDL   time.Time
	noDLRead bool // a read hit the end of the script while no deadline was armed
	written  []byte
	wcond    *sync.Cond
}

func newC34Scripted(script []c34Ev, remote net.Addr) *c34Conn {
	c := &c34Conn{log: &c34Log{}, remote: remote, script: script, finish: make(chan struct{}), closedCh: make(chan struct{})}
	c.wcond = sync.NewCond(&c.mu)
	return c
}

func newC34Real(inner net.Conn, remote net.Addr) *c34Conn {
	c := &c34Conn{log: &c34Log{}, remote: remote, inner: inner, finish: make(chan struct{}), closedCh: make(chan struct{})}
	c.wcond = sync.NewCond(&c.mu)
	return c
}

func (c *c34Conn) logRead(p []byte, n int, err error) {
	c.log.add(c34Ent{kind: 'R', n: n, data: append([]byte(nil), p[:n]...), res: c34ErrKind(err)})
}

func (c *c34Conn) Read(p []byte) (int, error) {
	if c.inner != nil {
		n, err := c.inner.Read(p)
		c.logRead(p, n, err)
		return n, err
	}
	c.mu.Lock()
	if c.closed {
		c.mu.Unlock()
		c.logRead(p, 0, net.ErrClosed)
		return 0, net.ErrClosed
	}
	if c.pos < len(c.script) {
		ev := c.script[c.pos]
		if ev.kind == "d" {
			n := copy(p, ev.data[c.off:])
			c.off += n
			if c.off >= len(ev.data) {
				c.pos++
				c.off = 0
			}
			c.mu.Unlock()
			c.logRead(p, n, nil)
			return n, nil
		}
		c.mu.Unlock()
		err := c34ErrFor(ev.kind)
		c.logRead(p, 0, err)
		return 0, err
	}
	// script exhausted
	if c.relay {
		c.mu.Unlock()
		select {
		case <-c.finish:
			c.logRead(p, 0, io.EOF)
			return 0, io.EOF
		case <-c.closedCh:
			c.logRead(p, 0, net.ErrClosed)
			return 0, net.ErrClosed
		}
	}
	if c.readDL.IsZero() {
		c.noDLRead = true
	}
	c.mu.Unlock()
	err := c34ErrFor("to") // virtual time: the peer stays silent, the clock jumps to the armed deadline
	c.logRead(p, 0, err)
	return 0, err
}

func (c *c34Conn) Write(p []byte) (int, error) {
	c.log.add(c34Ent{kind: 'W', n: len(p), data: append([]byte(nil), p...)})
	if c.inner != nil {
		return c.inner.Write(p)
	}
	c.mu.Lock()
	defer c.mu.Unlock()
	if c.closed {
		return 0, net.ErrClosed
	}
	c.written = append(c.written, p...)
	c.wcond.Broadcast()
	return len(p), nil
}

func (c *c34Conn) Close() error {
	c.log.add(c34Ent{kind: 'C'})
	if c.inner != nil {
		return c.inner.Close()
	}
	c.mu.Lock()
	defer c.mu.Unlock()
	if !c.closed {
		c.closed = true
		close(c.closedCh)
		c.wcond.Broadcast()
	}
	return nil
}

func (c *c34Conn) LocalAddr() net.Addr  { return &net.TCPAddr{IP: net.IPv4(127, 0, 0, 1), Port: 41245} }
func (c *c34Conn) RemoteAddr() net.Addr { return c.remote }

func (c *c34Conn) SetDeadline(t time.Time) error {
	k := byte('D')
	if t.IsZero() {
		k = 'Z'
	}
	c.log.add(c34Ent{kind: k, dl: t})
	if c.inner != nil {
		return c.inner.SetDeadline(t)
	}
	c.mu.Lock()
	c.readDL = t
	c.mu.Unlock()
	return nil
}

func (c *c34Conn) SetReadDeadline(t time.Time) error {
	c.log.add(c34Ent{kind: 'r', dl: t})
	if c.inner != nil {
		return c.inner.SetReadDeadline(t)
	}
	c.mu.Lock()
	c.readDL = t
	c.mu.Unlock()
	return nil
}

func (c *c34Conn) SetWriteDeadline(t time.Time) error {
	c.log.add(c34Ent{kind: 'w', dl: t})
	if c.inner != nil {
		return c.inner.SetWriteDeadline(t)
	}
	return nil
}

// waitWritten blocks until at least n bytes were written to the scripted connection, it was closed,
// or the real-time limit passed.
func (c *c34Conn) waitWritten(n int, limit time.Duration) bool {
	deadline := time.Now().Add(limit)
	stop := time.AfterFunc(limit, func() { c.mu.Lock(); c.wcond.Broadcast(); c.mu.Unlock() })
	defer stop.Stop()
	c.mu.Lock()
	defer c.mu.Unlock()
	for len(c.written) < n && !c.closed && time.Now().Before(deadline) {
		c.wcond.Wait()
	}
	return len(c.written) >= n
}

func (c *c34Conn) writtenCopy() []byte {
	c.mu.Lock()
	defer c.mu.Unlock()
	return append([]byte(nil), c.written...)
}

// ---------------------------------------------------------------------------------------------
// recording wrapper around a real wrapping transport

type c34Tr struct {
	cj.WrappingTransport
	tid int
	w   *c34World
}

func (t c34Tr) WrapConnection(data *bytes.Buffer, c net.Conn, ip net.IP, rm transports.RegManager) (transports.Registration, net.Conn, error) {
	rc, ok := c.(*c34Conn)
	if !ok {
		return t.WrappingTransport.WrapConnection(data, c, ip, rm)
	}
	before := data.Len()
	rc.log.setWrap(true)
	reg, wrapped, err := t.WrappingTransport.WrapConnection(data, c, ip, rm)
	rc.log.setWrap(false)
	e := c34Ent{kind: 'Q', tid: t.tid, n: before, reg: -1}
	switch {
	case err == nil:
		e.reg = t.w.regIndex(reg)
		e.verdict = fmt.Sprintf("F%d.%d", e.reg, before-data.Len())
		e.left = append([]byte(nil), data.Bytes()...)
		rc.mu.Lock()
		rc.relay = true
		rc.mu.Unlock()
	case errors.Is(err, transports.ErrTryAgain):
		e.verdict = "T"
	case errors.Is(err, transports.ErrNotTransport):
		e.verdict = "N"
	default:
		e.verdict = "E"
	}
	rc.log.add(e)
	return reg, wrapped, err
}

// ---------------------------------------------------------------------------------------------
// GeoIP stand-in

type c34Geo struct{ mode string } // ok unk cc asn

func (g *c34Geo) CC(ip net.IP) (string, error) {
	switch g.mode {
	case "cc":
		return "", errors.New("verif: cc lookup failed")
	case "unk":
		return "unk", nil
	}
	return "US", nil
}

func (g *c34Geo) ASN(ip net.IP) (uint, error) {
	if g.mode == "asn" {
		return 0, errors.New("verif: asn lookup failed")
	}
	return 64500, nil
}

// ---------------------------------------------------------------------------------------------
// loopback echo covert: records what it receives, echoes it back

type c34Covert struct {
	ln   net.Listener
	addr string
	mu   sync.Mutex
	cur  *c34CovertConn
	all  []*c34CovertConn
}

type c34CovertConn struct {
	mu   sync.Mutex
	got  []byte
	done chan struct{}
}

func newC34Covert(ip string) (*c34Covert, error) {
	ln, err := net.Listen("tcp", ip+":0")
	if err != nil {
		ln, err = net.Listen("tcp", "127.0.0.1:0")
		if err != nil {
			return nil, err
		}
	}
	cv := &c34Covert{ln: ln, addr: ln.Addr().String()}
	go func() {
		for {
			c, err := ln.Accept()
			if err != nil {
				return
			}
			cc := &c34CovertConn{done: make(chan struct{})}
			cv.mu.Lock()
			cv.all = append(cv.all, cc)
			cv.mu.Unlock()
			go func() {
				defer close(cc.done)
				defer c.Close()
				buf := make([]byte, 32*1024)
				for {
					n, err := c.Read(buf)
					if n > 0 {
						cc.mu.Lock()
						cc.got = append(cc.got, buf[:n]...)
						cc.mu.Unlock()
						if _, werr := c.Write(buf[:n]); werr != nil {
							return
						}
					}
					if err != nil {
						return
					}
				}
			}()
		}
	}()
	return cv, nil
}

// take returns the covert-side connections accepted since the last call; it waits (up to the
// limit) until at least `expect` were accepted — a dial succeeds before the accept loop has run.
func (cv *c34Covert) take(expect int, limit time.Duration) []*c34CovertConn {
	deadline := time.Now().Add(limit)
	for {
		cv.mu.Lock()
		if len(cv.all) >= expect || time.Now().After(deadline) {
			out := cv.all
			cv.all = nil
			cv.mu.Unlock()
			return out
		}
		cv.mu.Unlock()
		time.Sleep(50 * time.Microsecond)
	}
}

func (cc *c34CovertConn) received(limit time.Duration) ([]byte, bool) {
	select {
	case <-cc.done:
	case <-time.After(limit):
		cc.mu.Lock()
		defer cc.mu.Unlock()
		return append([]byte(nil), cc.got...), false
	}
	cc.mu.Lock()
	defer cc.mu.Unlock()
	return append([]byte(nil), cc.got...), true
}

// ---------------------------------------------------------------------------------------------
// world: a registration manager with the real transports and real registrations

type c34Reg struct {
	idx      int
	secret   []byte
	tt       pb.TransportType
	prefixID int32
	flush    int32
	randPort bool
	phantom  string
	valid    bool
	libver   uint // client library version the registration was made with
	reg      *cj.DecoyRegistration
}

func (r *c34Reg) tname() string {
	switch r.tt {
	case pb.TransportType_Min:
		return "min"
	case pb.TransportType_Obfs4:
		return "obfs4"
	default:
		return "prefix"
	}
}

type c34World struct {
	rm       *cj.RegistrationManager
	cm       *connManager
	geo      *c34Geo
	privs    [][32]byte // the station's private keys, in the order the prefix transport tries them
	pub      [32]byte   // public key the clients of this world are built for: that of the LAST station key
	regs     []*c34Reg
	byPtr    map[*cj.DecoyRegistration]int
	cur      *c34Log // the log of the connection being handled (one at a time per world)
	covert   *c34Covert
	libver   uint
	tids     []int
	nSecrets int
	nPairs   int // populate(): clients 0..2*nPairs-1 come in pairs (many-phantom, alone)
	dead     string // set when a handler of this world hung (its connection manager's state is then unusable)
	tcpLn    net.Listener // loopback listener for the raw-TCP carrier (created on first use)
	r        *vlib.Rand
}

const (
	c34PhMany    = "192.0.2.10"  // every kind of registration
	c34PhNone    = "192.0.2.11"  // no registration
	c34PhInvalid = "192.0.2.12"  // tracked but not validated registrations only
	c34PhV6      = "2001:db8::10" // a few registrations on an IPv6 phantom
)

func c34PhOne(i int) string { return fmt.Sprintf("198.51.%d.%d", 100+i/250, 1+i%250) }

var c34EnvOnce sync.Once

func newC34World(stream string, covertIP string) (*c34World, error) {
	c34EnvOnce.Do(func() {
		os.Setenv("PHANTOM_SUBNET_LOCATION", conjurepath.Root+"/pkg/station/lib/test/phantom_subnets.toml")
	})
	w := &c34World{byPtr: map[*cj.DecoyRegistration]int{}, libver: uint(core.CurrentClientLibraryVersion()), r: vlib.NewRand("world:" + stream)}
	w.rm = cj.NewRegistrationManager(&cj.RegConfig{})
	if w.rm == nil {
		return nil, errors.New("NewRegistrationManager returned nil")
	}
	w.geo = &c34Geo{mode: "ok"}
	w.rm.GeoIP = w.geo
	w.cm = newConnManager(nil)
	cj.VerifC34StubDetector(w.rm, func(*cj.DecoyRegistration) {}, func(d *cj.DecoyRegistration) {
		if l := w.cur; l != nil {
			idx, ok := w.byPtr[d]
			if !ok {
				idx = -1
			}
			l.add(c34Ent{kind: 'M', reg: idx})
		}
	})
	// Station keys: worlds with an odd number (and the real-socket world) run with TWO station keys and
	// build their clients for the second one — the prefix transport must try every key in turn.
	nKeys := 1
	if strings.HasSuffix(stream, "real") {
		nKeys = 2
	} else if i := strings.LastIndexByte(stream, '/'); i >= 0 {
		if n, err := strconv.Atoi(stream[i+1:]); err == nil && n%2 == 1 {
			nKeys = 2
		}
	}
	for k := 0; k < nKeys; k++ {
		var priv [32]byte
		copy(priv[:], w.r.Bytes(32))
		priv[0] &= 248
		priv[31] &= 127
		priv[31] |= 64
		pub, err := curve25519.X25519(priv[:], curve25519.Basepoint)
		if err != nil {
			return nil, err
		}
		w.privs = append(w.privs, priv)
		copy(w.pub[:], pub)
	}
	var err error
	pt, err := prefix.Default(w.privs)
	if err != nil {
		return nil, err
	}
	for _, e := range []struct {
		tt pb.TransportType
		t  cj.WrappingTransport
	}{{pb.TransportType_Min, min.Transport{}}, {pb.TransportType_Obfs4, obfs4.Transport{}}, {pb.TransportType_Prefix, pt}} {
		if err := w.rm.AddTransport(e.tt, c34Tr{WrappingTransport: e.t, tid: int(e.tt), w: w}); err != nil {
			return nil, err
		}
		w.tids = append(w.tids, int(e.tt))
	}
	if covertIP != "" {
		if w.covert, err = newC34Covert(covertIP); err != nil {
			return nil, err
		}
	}
	return w, nil
}

func (w *c34World) regIndex(r transports.Registration) int {
	d, ok := r.(*cj.DecoyRegistration)
	if !ok {
		return -1
	}
	if i, ok := w.byPtr[d]; ok {
		return i
	}
	return -1
}

func (w *c34World) newSecret() []byte {
	w.nSecrets++
	return w.r.Bytes(32)
}

// clientParams builds the parameters message the real client transport would register with.
func (w *c34World) clientParams(r *c34Reg) (proto.Message, error) {
	switch r.tt {
	case pb.TransportType_Prefix:
		ct := &prefix.ClientTransport{}
		if err := ct.SetParams(&prefix.ClientParams{PrefixID: r.prefixID, FlushPolicy: r.flush, RandomizeDstPort: r.randPort}); err != nil {
			return nil, err
		}
		if err := ct.Prepare(context.Background(), nil); err != nil {
			return nil, err
		}
		return ct.GetParams()
	default:
		rp := r.randPort
		return &pb.GenericTransportParams{RandomizeDstPort: &rp}, nil
	}
}

// addReg creates a real registration (NewRegistration, as the ingest path does), pins it to the
// phantom, and tracks (valid=false) or registers (valid=true) it.
func (w *c34World) addReg(tt pb.TransportType, prefixID, flush int32, randPort bool, phantom string, valid bool, secret []byte) (*c34Reg, error) {
	return w.addRegV(w.libver, tt, prefixID, flush, randPort, phantom, valid, secret)
}

// addRegV: the same for a client of library version libver (older clients derive the transport keys
// differently — core.GenSharedKeys — and the station parses their parameters differently).
func (w *c34World) addRegV(libver uint, tt pb.TransportType, prefixID, flush int32, randPort bool, phantom string, valid bool, secret []byte) (*c34Reg, error) {
	r := &c34Reg{idx: len(w.regs), secret: secret, tt: tt, prefixID: prefixID, flush: flush, randPort: randPort, phantom: phantom, valid: valid, libver: libver}
	keys, err := core.GenSharedKeys(libver, secret, tt)
	if err != nil {
		return nil, err
	}
	params, err := w.clientParams(r)
	if err != nil {
		return nil, err
	}
	v := uint32(libver)
	covert := "127.0.0.1:9"
	if w.covert != nil {
		covert = w.covert.addr
	}
	gen := uint32(1)
	c2s := &pb.ClientToStation{ClientLibVersion: &v, Transport: &tt, CovertAddress: &covert, DecoyListGeneration: &gen}
	if params != nil {
		any, err := anypb.New(params)
		if err != nil {
			return nil, err
		}
		c2s.TransportParams = any
	}
	src := pb.RegistrationSource_API
	reg, err := w.rm.NewRegistration(c2s, &keys, false, &src)
	if err != nil {
		return nil, err
	}
	reg.PhantomIp = net.ParseIP(phantom)
	if valid {
		w.rm.AddRegistration(reg)
	} else if err := w.rm.TrackRegistration(reg); err != nil {
		return nil, err
	}
	r.reg = reg
	w.byPtr[reg] = r.idx
	w.regs = append(w.regs, r)
	return r, nil
}

var c34PrefixIDs = []int32{int32(prefix.Min), int32(prefix.GetLong), int32(prefix.PostLong), int32(prefix.HTTPResp),
	int32(prefix.TLSClientHello), int32(prefix.TLSServerHello), int32(prefix.TLSAlertWarning), int32(prefix.TLSAlertFatal),
	int32(prefix.DNSOverTCP), int32(prefix.OpenSSH2)}

var c34Flushes = []int32{prefix.DefaultFlush, prefix.NoAddedFlush, prefix.FlushAfterPrefix}

// populate registers, for every transport and parameter set, one client on the "many" phantom and the
// same client alone on a phantom of its own; plus unvalidated registrations and an IPv6 phantom.
// Returns the clients in a fixed order (pairs: index 2k on the many-phantom, 2k+1 alone).
func (w *c34World) populate() ([]*c34Reg, error) {
	var clients []*c34Reg
	add := func(tt pb.TransportType, pid, fl int32, rp bool) error {
		sec := w.newSecret()
		a, err := w.addReg(tt, pid, fl, rp, c34PhMany, true, sec)
		if err != nil {
			return err
		}
		b, err := w.addReg(tt, pid, fl, rp, c34PhOne(len(clients)/2), true, sec)
		if err != nil {
			return err
		}
		clients = append(clients, a, b)
		return nil
	}
	for _, rp := range []bool{false, true} {
		if err := add(pb.TransportType_Min, 0, 0, rp); err != nil {
			return nil, err
		}
		if err := add(pb.TransportType_Obfs4, 0, 0, rp); err != nil {
			return nil, err
		}
		for _, pid := range c34PrefixIDs {
			for _, fl := range c34Flushes {
				if err := add(pb.TransportType_Prefix, pid, fl, rp); err != nil {
					return nil, err
				}
			}
		}
	}
	// tracked, never validated
	for _, tt := range []pb.TransportType{pb.TransportType_Min, pb.TransportType_Obfs4, pb.TransportType_Prefix} {
		if _, err := w.addReg(tt, int32(prefix.GetLong), 0, false, c34PhInvalid, false, w.newSecret()); err != nil {
			return nil, err
		}
	}
	for _, tt := range []pb.TransportType{pb.TransportType_Min, pb.TransportType_Obfs4, pb.TransportType_Prefix} {
		r6, err := w.addReg(tt, int32(prefix.TLSClientHello), 0, true, c34PhV6, true, w.newSecret())
		if err != nil {
			return nil, err
		}
		// clients on an IPv6 phantom (the handler keeps separate per-family statistics and code paths)
		clients = append(clients, r6)
	}
	w.nPairs = (len(clients) - 3) / 2
	// clients of older library versions (the station accepts them): min and obfs4 from the versions before
	// the HKDF phantom selection (0), before port randomisation (2) and before the shared-keys refactoring
	// (3); prefix needs at least version 3. Among the other registrations of the many-phantom.
	for _, e := range []struct {
		v  uint
		tt pb.TransportType
	}{{0, pb.TransportType_Min}, {2, pb.TransportType_Min}, {3, pb.TransportType_Min},
		{0, pb.TransportType_Obfs4}, {2, pb.TransportType_Obfs4}, {3, pb.TransportType_Obfs4}, {3, pb.TransportType_Prefix}} {
		rv, err := w.addRegV(e.v, e.tt, int32(prefix.Min), 0, false, c34PhMany, true, w.newSecret())
		if err != nil {
			return nil, fmt.Errorf("client library version %d, %v: %w", e.v, e.tt, err)
		}
		clients = append(clients, rv)
	}
	return clients, nil
}

// ---------------------------------------------------------------------------------------------
// client side: real client transports

// capConn records what a client transport writes; reads fail at once (the peer is absent).
type c34Cap struct {
	writes [][]byte
}

func (c *c34Cap) Read(p []byte) (int, error)         { return 0, io.EOF }
func (c *c34Cap) Write(p []byte) (int, error)        { c.writes = append(c.writes, append([]byte(nil), p...)); return len(p), nil }
func (c *c34Cap) Close() error                       { return nil }
func (c *c34Cap) LocalAddr() net.Addr                { return &net.TCPAddr{IP: net.IPv4(10, 1, 1, 1), Port: 40000} }
func (c *c34Cap) RemoteAddr() net.Addr               { return &net.TCPAddr{IP: net.IPv4(192, 0, 2, 10), Port: 443} }
func (c *c34Cap) SetDeadline(t time.Time) error      { return nil }
func (c *c34Cap) SetReadDeadline(t time.Time) error  { return nil }
func (c *c34Cap) SetWriteDeadline(t time.Time) error { return nil }

type c34ClientTransport interface {
	WrapConn(conn net.Conn) (net.Conn, error)
}

// clientTransport builds the prepared real client transport for a registration. prefixOverride ≥ -1
// replaces the prefix id (used to build wrong-prefix flights).
func (w *c34World) clientTransport(r *c34Reg, prefixOverride int32) (c34ClientTransport, error) {
	switch r.tt {
	case pb.TransportType_Min:
		ct := &min.ClientTransport{}
		rp := r.randPort
		if err := ct.SetParams(&pb.GenericTransportParams{RandomizeDstPort: &rp}); err != nil {
			return nil, err
		}
		if err := ct.Prepare(context.Background(), nil); err != nil {
			return nil, err
		}
		if err := ct.PrepareKeys(w.pub, r.secret, nil); err != nil {
			return nil, err
		}
		return ct, nil
	case pb.TransportType_Obfs4:
		ct := &obfs4.ClientTransport{}
		rp := r.randPort
		if err := ct.SetParams(&pb.GenericTransportParams{RandomizeDstPort: &rp}); err != nil {
			return nil, err
		}
		if err := ct.Prepare(context.Background(), nil); err != nil {
			return nil, err
		}
		keys, err := core.GenSharedKeys(r.libver, r.secret, r.tt)
		if err != nil {
			return nil, err
		}
		if err := ct.PrepareKeys(w.pub, r.secret, keys.TransportReader); err != nil {
			return nil, err
		}
		return ct, nil
	default:
		ct := &prefix.ClientTransport{}
		pid := r.prefixID
		if prefixOverride >= -1 {
			pid = prefixOverride
		}
		if err := ct.SetParams(&prefix.ClientParams{PrefixID: pid, FlushPolicy: r.flush, RandomizeDstPort: r.randPort}); err != nil {
			return nil, err
		}
		if err := ct.Prepare(context.Background(), nil); err != nil {
			return nil, err
		}
		if err := ct.PrepareKeys(w.pub, r.secret, nil); err != nil {
			return nil, err
		}
		return ct, nil
	}
}

// flightWrites runs the real client transport against a capturing connection and returns the
// writes of the first flight (for obfs4: the client handshake; the client then fails waiting for
// the server, which is fine).
func (w *c34World) flightWrites(r *c34Reg, prefixOverride int32) ([][]byte, error) {
	ct, err := w.clientTransport(r, prefixOverride)
	if err != nil {
		return nil, err
	}
	cp := &c34Cap{}
	_, werr := ct.WrapConn(cp)
	if len(cp.writes) == 0 {
		return nil, fmt.Errorf("client transport wrote nothing: %v", werr)
	}
	if r.tt != pb.TransportType_Obfs4 && werr != nil {
		return nil, werr
	}
	return cp.writes, nil
}

func c34Concat(ws [][]byte) []byte {
	var out []byte
	for _, b := range ws {
		out = append(out, b...)
	}
	return out
}

// ---------------------------------------------------------------------------------------------
// running the handler and canonicalising what was observed

type c34Run struct {
	conn     *c34Conn
	phantom  string
	geoMode  string
	count    int
	t0       time.Time // just before the handler was called
	tRet     time.Time // when it returned
	returned bool
	panicked any
}

// start runs the real handleNewTCPConn on the recording connection in a goroutine.
func (w *c34World) start(conn *c34Conn, phantom, geoMode string) (*c34Run, chan struct{}) {
	return w.startOn(conn, conn, phantom, geoMode)
}

// startOn hands `hc` to the handler — the recording connection itself, or the raw connection it wraps
// (a *net.TCPConn, the type the station's accept loop passes; then only MarkActive is recorded).
func (w *c34World) startOn(hc net.Conn, conn *c34Conn, phantom, geoMode string) (*c34Run, chan struct{}) {
	w.geo.mode = geoMode
	w.cur = conn.log
	ip := net.ParseIP(phantom)
	run := &c34Run{conn: conn, phantom: phantom, geoMode: geoMode, count: w.rm.CountRegistrations(ip)}
	done := make(chan struct{})
	run.t0 = time.Now()
	go func() {
		defer close(done)
		defer func() {
			if p := recover(); p != nil {
				run.panicked = p
			}
			run.tRet = time.Now()
			run.returned = true
		}()
		w.cm.handleNewTCPConn(w.rm, hc, ip)
	}()
	return run, done
}

// tcpPair returns the two ends of a fresh loopback TCP connection (client side, station side).
func (w *c34World) tcpPair() (net.Conn, net.Conn, error) {
	if w.tcpLn == nil {
		ln, err := net.Listen("tcp", "127.0.0.1:0")
		if err != nil {
			return nil, nil, err
		}
		w.tcpLn = ln
	}
	a, err := net.Dial("tcp", w.tcpLn.Addr().String())
	if err != nil {
		return nil, nil, err
	}
	b, err := w.tcpLn.Accept()
	if err != nil {
		a.Close()
		return nil, nil, err
	}
	return a, b, nil
}

// c34Peer cycles the peer (client) address through the forms a TCP peer address takes: a 4-byte
// IPv4 address, an IPv6 address, and an IPv4 address in 16-byte form. The handler's behaviour must
// not depend on the peer's address family.
var c34PeerN atomic.Int64

func c34Peer(port int) *net.TCPAddr {
	switch c34PeerN.Add(1) % 3 {
	case 0:
		return &net.TCPAddr{IP: net.IPv4(203, 0, 113, 99).To4(), Port: port}
	case 1:
		return &net.TCPAddr{IP: net.ParseIP("2001:db8:85a3::8a2e:370:7334"), Port: port}
	}
	return &net.TCPAddr{IP: net.IPv4(203, 0, 113, 98), Port: port}
}

func c34GeoField(mode string, remote net.Addr) string {
	if _, ok := remote.(*net.TCPAddr); !ok {
		return "nonip"
	}
	switch mode {
	case "cc", "asn":
		return mode
	}
	return "ok"
}

type c34Canon struct {
	modelLine string
	implOut   string
	found     int    // registration index found, -1 if none
	marked    int    // registration index marked active (MarkActive), -1 if none
	foundTid  int    // transport that found it
	consumed  int    // bytes the transport consumed
	rawStream []byte // leftover ++ raw reads after the match
	nontriv   bool
	inWrapIO  bool // a transport read from / wrote to the connection while wrapping (obfs4 handshake does write)
	sawErr    bool // some transport answered an unexpected error
}

// canon turns the call log of a finished run into the model line and the implementation's answer.
func (w *c34World) canon(run *c34Run) c34Canon {
	ents := run.conn.log.snapshot()
	out := c34Canon{found: -1, marked: -1}
	var toks []string
	var evs []string
	var passes [][]string
	var armed time.Time
	evDone := false   // a terminal event was seen: nothing after it is an event
	matched := false  // M seen: the call-by-call trace stops, the proxy's own calls follow
	foundSeen := false
	for _, e := range ents {
		switch e.kind {
		case 'R':
			if e.inWrap {
				out.inWrapIO = true
				continue
			}
			if !evDone {
				if e.res == "" {
					evs = append(evs, "d"+vlib.Hex(e.data))
				} else {
					k := e.res
					if k == "closed" {
						k = "err"
					}
					evs = append(evs, k)
					evDone = true
				}
			}
			if foundSeen {
				if e.res == "" {
					out.rawStream = append(out.rawStream, e.data...)
				}
				continue
			}
			if e.res == "" {
				toks = append(toks, fmt.Sprintf("R%d", e.n))
				passes = append(passes, nil)
			} else {
				k := e.res
				if k == "closed" {
					k = "err"
				}
				toks = append(toks, "E:"+k)
			}
		case 'Q':
			toks = append(toks, fmt.Sprintf("Q%d:%d:%s", e.tid, e.n, e.verdict))
			if len(passes) == 0 {
				passes = append(passes, nil) // a query before any read: cannot be expressed, shows as a mismatch
			}
			passes[len(passes)-1] = append(passes[len(passes)-1], fmt.Sprintf("%d:%s", e.tid, e.verdict))
			if e.verdict == "E" {
				out.sawErr = true
			}
			if strings.HasPrefix(e.verdict, "F") {
				foundSeen = true
				out.found, out.foundTid, out.consumed = e.reg, e.tid, 0
				fmt.Sscanf(e.verdict[strings.IndexByte(e.verdict, '.')+1:], "%d", &out.consumed)
				out.rawStream = append(out.rawStream, e.left...)
			}
		case 'D':
			if e.inWrap || matched {
				continue
			}
			toks = append(toks, "D")
			if armed.IsZero() {
				armed = e.dl
			}
		case 'Z':
			if e.inWrap || matched {
				continue
			}
			toks = append(toks, "Z")
		case 'M':
			toks = append(toks, fmt.Sprintf("M%d", e.reg))
			matched = true
			out.marked = e.reg
		case 'W':
			if e.inWrap {
				out.inWrapIO = true
			}
		}
	}
	// drop trailing empty passes (reads of the discard loop)
	for len(passes) > 0 && len(passes[len(passes)-1]) == 0 {
		passes = passes[:len(passes)-1]
	}
	ps := make([]string, len(passes))
	for i, p := range passes {
		ps[i] = strings.Join(p, ",")
	}
	if out.sawErr && !matched && run.returned && !armed.IsZero() && !run.tRet.Before(armed) {
		// the handler returned, without a further read, not before the armed deadline: it slept
		if last := ents[len(ents)-1]; last.kind == 'Q' && last.verdict == "E" {
			toks = append(toks, "S")
		}
	}
	if matched {
		toks = append(toks, fmt.Sprintf("P%d:%d:%016x", out.found, len(out.rawStream), c34Fnv(out.rawStream)))
	}
	if run.returned {
		toks = append(toks, ".")
	}
	tids := make([]string, len(w.tids))
	for i, t := range w.tids {
		tids[i] = strconv.Itoa(t)
	}
	out.modelLine = fmt.Sprintf("conn|%s|%d|%s|%s|%s", c34GeoField(run.geoMode, run.conn.remote), run.count,
		strings.Join(tids, ","), strings.Join(evs, ";"), strings.Join(ps, ";"))
	out.implOut = strings.Join(toks, " ")
	out.nontriv = len(toks) > 1
	return out
}

func c34Fnv(b []byte) uint64 {
	h := uint64(0xcbf29ce484222325)
	for _, x := range b {
		h = (h ^ uint64(x)) * 0x100000001b3
	}
	return h
}

// cut splits b at the given ascending positions (each in (0, len(b))).
func c34Cut(b []byte, cuts []int) [][]byte {
	var out [][]byte
	prev := 0
	for _, c := range cuts {
		if c <= prev || c >= len(b) {
			continue
		}
		out = append(out, b[prev:c])
		prev = c
	}
	return append(out, b[prev:])
}

func c34Ints(s string) []int {
	var out []int
	for _, f := range strings.Split(s, ",") {
		if f == "" {
			continue
		}
		n, err := strconv.Atoi(f)
		if err == nil {
			out = append(out, n)
		}
	}
	return out
}

func c34IntsString(l []int) string {
	s := make([]string, len(l))
	for i, v := range l {
		s[i] = strconv.Itoa(v)
	}
	return strings.Join(s, ",")
}

// silence stdout (the handler logs every connection error there) for the duration of a harness
func c34Silence() func() {
	old := os.Stdout
	devnull, err := os.OpenFile(os.DevNull, os.O_WRONLY, 0)
	if err != nil {
		return func() {}
	}
	os.Stdout = devnull
	return func() { os.Stdout = old; devnull.Close() }
}

// replay lines: `#` comments are skipped; fields are `key=value` separated by `|` after the kind
func c34ReplayLines(path, kind string) ([]map[string]string, error) {
	b, err := os.ReadFile(path)
	if err != nil {
		return nil, err
	}
	var out []map[string]string
	for _, line := range strings.Split(string(b), "\n") {
		line = strings.TrimSpace(line)
		if !strings.HasPrefix(line, kind+"|") {
			continue
		}
		m := map[string]string{}
		for _, f := range strings.Split(line, "|")[1:] {
			if i := strings.IndexByte(f, '='); i > 0 {
				m[f[:i]] = f[i+1:]
			}
		}
		out = append(out, m)
	}
	return out, nil
}
