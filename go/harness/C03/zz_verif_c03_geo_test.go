//go:build verif

package main

// C03 — the GeoIP database and the statistics epoch as dimensions of the worlds.
//
// Before the first read handleNewTCPConn asks the GeoIP database for the country code and the ASN of
// the source, and around every read and every classification pass it moves the connection through
// the connection statistics: per address family, and — when the country code is not empty — in a
// per-ASN record kept in a map per family.  The maps are replaced by PrintAndReset / Reset (the
// station's statistics loop: a new epoch), so a transition can meet a missing record at any point of
// a connection's life.  None of this may have any influence on what the probed connection sees: a
// nil record there is a nil-pointer panic in a goroutine nobody recovers, i.e. the station process
// dies and EVERY open connection is closed at once.
//
// Dimensions added here (all replayable: fields peer / src / resets of a `c03|…` line):
//   - which database answers: the scripted stand-in (any country code incl. "" and "unk", any ASN),
//     the station's real EmptyDatabase, the station's real MaxMind reader on hand-built database files
//     with records for some of the peers (answers then depend on the peer address);
//   - the source: a never-seen ASN, an ASN seen on an IPv4 phantom / only on an IPv6 phantom earlier in
//     the epoch, no country, "unk", a country without ASN;
//   - the phantom's address family x how many reads the probe arrives in (incl. zero-length reads,
//     enough bytes to run out of transports) x how the peer ends;
//   - epoch resets (Reset or PrintAndReset): before the connection, before any one read (incl. the
//     read that ends the connection), before any one classification call, before every read.
//
// For runs without a reset in the middle the statistics transitions the connection went through
// (white-box: the counter differences of the four records involved) are compared with the Lean
// model's transition log (`connstats|…` lines): the model of the statistics is tied to the code.

import (
	"bytes"
	"errors"
	"fmt"
	"io"
	"net"
	"os"
	"path/filepath"
	"reflect"
	"sort"
	"strconv"
	"strings"
	"sync"
	"time"

	"github.com/refraction-networking/conjure/internal/vlib"
	"github.com/refraction-networking/conjure/pkg/station/geoip"
	cj "github.com/refraction-networking/conjure/pkg/station/lib"
	"github.com/refraction-networking/conjure/pkg/station/log"
	"github.com/refraction-networking/conjure/pkg/transports"
)

// ---------------------------------------------------------------------------------------------
// scripted GeoIP stand-in with per-connection answers

type c03Geo struct {
	cc   string
	asn  uint
	mode string // ok | cc | asn (a failing lookup)
}

func (g *c03Geo) CC(ip net.IP) (string, error) {
	if g.mode == "cc" {
		return "", errors.New("verif: cc lookup failed")
	}
	return g.cc, nil
}

func (g *c03Geo) ASN(ip net.IP) (uint, error) {
	if g.mode == "asn" {
		return 0, errors.New("verif: asn lookup failed")
	}
	return g.asn, nil
}

// c03ParseSrc: "cc:asn" (cc may be empty)
func c03ParseSrc(s string) (cc string, asn uint, err error) {
	i := strings.LastIndexByte(s, ':')
	if i < 0 {
		return "", 0, fmt.Errorf("bad src %q", s)
	}
	n, err := strconv.ParseUint(s[i+1:], 10, 32)
	return s[:i], uint(n), err
}

// ---------------------------------------------------------------------------------------------
// hand-built MaxMind databases WITH records (format: MaxMind DB 2.0; IPv6 tree, 24-bit records)

type c03Trie struct{ nodes [][2]int } // child: 0 empty, >0 node index, <0 data record at offset -(c+1)

func (t *c03Trie) insert(ip16 []byte, plen, dataOff int) {
	if len(t.nodes) == 0 {
		t.nodes = append(t.nodes, [2]int{})
	}
	n := 0
	for i := 0; i < plen; i++ {
		bit := int(ip16[i/8]>>(7-uint(i%8))) & 1
		if i == plen-1 {
			t.nodes[n][bit] = -(dataOff + 1)
			return
		}
		c := t.nodes[n][bit]
		if c <= 0 {
			t.nodes = append(t.nodes, [2]int{})
			c = len(t.nodes) - 1
			t.nodes[n][bit] = c
		}
		n = c
	}
}

func (t *c03Trie) bytes() []byte {
	nc := len(t.nodes)
	var b []byte
	for _, nd := range t.nodes {
		for _, c := range nd {
			v := nc
			if c > 0 {
				v = c
			} else if c < 0 {
				v = nc + 16 + (-c - 1)
			}
			b = append(b, byte(v>>16), byte(v>>8), byte(v))
		}
	}
	return b
}

func c03MMStr(b []byte, s string) []byte {
	if len(s) >= 29 { // sizes 29..284: 29 in the control byte, the rest in the next byte
		b = append(b, byte(2<<5|29), byte(len(s)-29))
	} else {
		b = append(b, byte(2<<5|len(s)))
	}
	return append(b, s...)
}

// c03Net16 returns the 16-byte tree key and prefix length of a CIDR; IPv4 networks live under ::/96
func c03Net16(cidr string) ([]byte, int) {
	_, n, err := net.ParseCIDR(cidr)
	if err != nil {
		panic(err)
	}
	ones, _ := n.Mask.Size()
	if v4 := n.IP.To4(); v4 != nil {
		k := make([]byte, 16)
		copy(k[12:], v4)
		return k, 96 + ones
	}
	return []byte(n.IP.To16()), ones
}

type c03GeoRec struct {
	cidr string
	cc   string // "" = no record in the country database
	asn  uint   // 0 = no record in the ASN database
}

// the peers of the real-database worlds and what the databases know about them
var c03GeoRecs = []c03GeoRec{
	{"203.0.113.99/32", "US", 64500},
	{"203.0.113.98/32", "IR", 0},
	{"2001:db8:85a3::/48", "DE", 64501},
	{"198.18.0.0/15", "", 64777},
	{"203.0.114.0/24", "CN", 64502},
	{"2001:db8:77::/48", "CN", 64502}, // the same ASN as an IPv4 network
	{"127.0.0.0/8", "US", 64510},      // the loopback peers of the real-socket probes
	{"::1/128", "DE", 64511},
}

func c03MMDB(dbType string, recs []c03GeoRec) []byte {
	var data []byte
	t := &c03Trie{}
	for _, r := range recs {
		off := len(data)
		switch dbType {
		case "GeoLite2-Country":
			if r.cc == "" {
				continue
			}
			data = append(data, 7<<5|1)
			data = c03MMStr(data, "country")
			data = append(data, 7<<5|1)
			data = c03MMStr(data, "iso_code")
			data = c03MMStr(data, r.cc)
		case "GeoLite2-ASN":
			if r.asn == 0 {
				continue
			}
			data = append(data, 7<<5|2)
			data = c03MMStr(data, "autonomous_system_number")
			data = append(data, 6<<5|4, byte(r.asn>>24), byte(r.asn>>16), byte(r.asn>>8), byte(r.asn))
			data = c03MMStr(data, "autonomous_system_organization")
			data = c03MMStr(data, "VERIF-AS")
		}
		k, plen := c03Net16(r.cidr)
		t.insert(k, plen, off)
	}
	if len(t.nodes) == 0 {
		t.nodes = append(t.nodes, [2]int{})
	}
	b := t.bytes()
	b = append(b, make([]byte, 16)...)
	b = append(b, data...)
	b = append(b, "\xab\xcd\xefMaxMind.com"...)
	u16 := func(v int) { b = append(b, 5<<5|2, byte(v>>8), byte(v)) }
	b = append(b, 7<<5|9)
	b = c03MMStr(b, "binary_format_major_version")
	u16(2)
	b = c03MMStr(b, "binary_format_minor_version")
	u16(0)
	b = c03MMStr(b, "build_epoch")
	b = append(b, 4, 2, 0x65, 0, 0, 0)
	b = c03MMStr(b, "database_type")
	b = c03MMStr(b, dbType)
	b = c03MMStr(b, "description")
	b = append(b, 7<<5|0)
	b = c03MMStr(b, "ip_version")
	u16(6)
	b = c03MMStr(b, "languages")
	b = append(b, 0, 4)
	b = c03MMStr(b, "node_count")
	nc := len(t.nodes)
	b = append(b, 6<<5|2, byte(nc>>8), byte(nc))
	b = c03MMStr(b, "record_size")
	u16(24)
	return b
}

var (
	c03DBOnce sync.Once
	c03DBDir  string
	c03DBErr  error
)

// c03RealGeoIP opens the station's own MaxMind wrapper on the hand-built files and checks that it
// answers what the files say (a writer bug must not silently turn the dimension off).
func c03RealGeoIP() (geoip.Database, error) {
	c03DBOnce.Do(func() {
		c03DBDir, c03DBErr = os.MkdirTemp("", "verif-c03-geoip")
		if c03DBErr != nil {
			return
		}
		if c03DBErr = os.WriteFile(filepath.Join(c03DBDir, "cc.mmdb"), c03MMDB("GeoLite2-Country", c03GeoRecs), 0o644); c03DBErr != nil {
			return
		}
		c03DBErr = os.WriteFile(filepath.Join(c03DBDir, "asn.mmdb"), c03MMDB("GeoLite2-ASN", c03GeoRecs), 0o644)
	})
	if c03DBErr != nil {
		return nil, c03DBErr
	}
	db, err := geoip.New(&geoip.DBConfig{CCDBPath: filepath.Join(c03DBDir, "cc.mmdb"), ASNDBPath: filepath.Join(c03DBDir, "asn.mmdb")})
	if err != nil {
		return nil, err
	}
	for _, q := range []struct {
		ip  string
		cc  string
		asn uint
	}{{"203.0.113.99", "US", 64500}, {"203.0.113.98", "IR", 0}, {"2001:db8:85a3::8a2e:370:7334", "DE", 64501}, {"198.18.3.4", "", 64777},
		{"192.0.2.200", "", 0}, {"127.0.0.1", "US", 64510}, {"::1", "DE", 64511}, {"2001:db8:77::4d", "CN", 64502}, {"203.0.114.7", "CN", 64502}} {
		cc, err1 := db.CC(net.ParseIP(q.ip))
		asn, err2 := db.ASN(net.ParseIP(q.ip))
		if err1 != nil || err2 != nil || cc != q.cc || asn != q.asn {
			return nil, fmt.Errorf("hand-built GeoIP databases: %s answers (%q, %v) / (%d, %v), want (%q, %d)", q.ip, cc, err1, asn, err2, q.cc, q.asn)
		}
	}
	return db, nil
}

// ---------------------------------------------------------------------------------------------
// per-world extras: the real database (if any), the reset hooks

type c03X struct {
	w      *c34World
	db     geoip.Database // the world's real database (nil: the stand-in answers)
	dbKind string         // standin | mmdb | empty
	logger *log.Logger
	mu     sync.Mutex
	qn     int
	onQ    map[int]func() // run before the k-th WrapConnection call of the current connection
	asnSeq uint
	resetPanic any
}

var c03Extras sync.Map // *c34World -> *c03X

func c03XOf(w *c34World) *c03X {
	if x, ok := c03Extras.Load(w); ok {
		return x.(*c03X)
	}
	x := &c03X{w: w, dbKind: "standin", logger: log.New(io.Discard, "", 0), asnSeq: 70000}
	actual, _ := c03Extras.LoadOrStore(w, x)
	return actual.(*c03X)
}

// c03Tr runs a hook before the transport is asked (a point between two statistics transitions that
// no read of the connection can reach)
type c03Tr struct {
	cj.WrappingTransport
	x *c03X
}

func (t c03Tr) WrapConnection(data *bytes.Buffer, c net.Conn, ip net.IP, rm transports.RegManager) (transports.Registration, net.Conn, error) {
	t.x.mu.Lock()
	t.x.qn++
	f := t.x.onQ[t.x.qn]
	t.x.mu.Unlock()
	if f != nil {
		f()
	}
	return t.WrappingTransport.WrapConnection(data, c, ip, rm)
}

// c03SetupWorld: call after newC34World and BEFORE populate.  wi: the world's number (4: real MaxMind
// reader, 5: real EmptyDatabase, -1: the real-socket world, real MaxMind reader).
func c03SetupWorld(w *c34World, wi int) (*c03X, error) {
	x := c03XOf(w)
	for tt, t := range w.rm.GetWrappingTransports() {
		if err := w.rm.AddTransport(tt, c03Tr{WrappingTransport: t, x: x}); err != nil {
			return nil, err
		}
	}
	switch wi {
	case 4, -1:
		db, err := c03RealGeoIP()
		if err != nil {
			return nil, err
		}
		x.db, x.dbKind = db, "mmdb"
	case 5:
		x.db, x.dbKind = &geoip.EmptyDatabase{}, "empty"
	}
	return x, nil
}

// reset starts a new statistics epoch the way the station's statistics loop does.  A panic in it is a
// crash of the station as well (the loop's goroutine is not recovered either): recorded, reported by the
// caller.
func (x *c03X) reset(print bool) {
	defer func() {
		if p := recover(); p != nil {
			x.mu.Lock()
			if x.resetPanic == nil {
				x.resetPanic = p
			}
			x.mu.Unlock()
		}
	}()
	if print {
		x.w.cm.PrintAndReset(x.logger)
	} else {
		x.w.cm.Reset()
	}
}

func (x *c03X) takeResetPanic() any {
	x.mu.Lock()
	defer x.mu.Unlock()
	p := x.resetPanic
	x.resetPanic = nil
	return p
}

// c03ParsePeer: "ip" or "ip/16" (an IPv4 address in 16-byte form)
func c03ParsePeer(s string) *net.TCPAddr {
	form16 := strings.HasSuffix(s, "/16")
	ip := net.ParseIP(strings.TrimSuffix(s, "/16"))
	if v4 := ip.To4(); v4 != nil && !form16 {
		ip = v4
	}
	return &net.TCPAddr{IP: ip, Port: 40404}
}

// installGeo puts the database of this case in force and returns what it will answer for the peer
// (ok=false: a lookup fails or the remote address is not an IP: the handler returns at once).
func (x *c03X) installGeo(c *c03Case, geoMode string, remote net.Addr) (cc string, asn uint, ok bool) {
	var db geoip.Database
	switch {
	case c.src != "":
		cc, asn, _ := c03ParseSrc(c.src)
		db = &c03Geo{cc: cc, asn: asn, mode: geoMode}
	case x.db != nil && geoMode == "ok":
		db = x.db
	default:
		x.w.geo.mode = geoMode // (startOn sets it again)
		db = x.w.geo
	}
	x.w.rm.GeoIP = db
	ta, isTCP := remote.(*net.TCPAddr)
	if !isTCP {
		return "", 0, false
	}
	cc, err := db.CC(ta.IP)
	if err != nil {
		return "", 0, false
	}
	if cc != "unk" {
		if asn, err = db.ASN(ta.IP); err != nil {
			return "", 0, false
		}
	}
	return cc, asn, true
}

// ---------------------------------------------------------------------------------------------
// a scripted connection with hooks before chosen reads (handed to the recording connection as its
// "real" inner connection, so that the call log and the transports' recording wrapper work as before)

type c03Hooked struct {
	s      *c34Conn
	k      int
	before map[int]func()
}

func (h *c03Hooked) Read(p []byte) (int, error) {
	h.k++
	if f := h.before[h.k]; f != nil {
		f()
	}
	return h.s.Read(p)
}
func (h *c03Hooked) Write(p []byte) (int, error)        { return h.s.Write(p) }
func (h *c03Hooked) Close() error                       { return h.s.Close() }
func (h *c03Hooked) LocalAddr() net.Addr                { return h.s.LocalAddr() }
func (h *c03Hooked) RemoteAddr() net.Addr               { return h.s.RemoteAddr() }
func (h *c03Hooked) SetDeadline(t time.Time) error      { return h.s.SetDeadline(t) }
func (h *c03Hooked) SetReadDeadline(t time.Time) error  { return h.s.SetReadDeadline(t) }
func (h *c03Hooked) SetWriteDeadline(t time.Time) error { return h.s.SetWriteDeadline(t) }

// c03Resets parses "P0,R2,Q1": P<k> PrintAndReset / R<k> Reset before the k-th read (k = 0: before the
// handler is called), Q<k> PrintAndReset before the k-th classification call, N<k> before the k-th read:
// PrintAndReset, then a whole other connection from the same source to a phantom of the OTHER address
// family is handled (the new epoch then knows the ASN in the other family's map only).
type c03Reset struct {
	kind byte
	k    int
}

func c03ParseResets(s string) ([]c03Reset, error) {
	var out []c03Reset
	if s == "" {
		return nil, nil
	}
	for _, f := range strings.Split(s, ",") {
		if len(f) < 2 || !strings.ContainsRune("PRQN", rune(f[0])) {
			return nil, fmt.Errorf("bad reset %q", f)
		}
		k, err := strconv.Atoi(f[1:])
		if err != nil || k < 0 {
			return nil, fmt.Errorf("bad reset %q", f)
		}
		out = append(out, c03Reset{f[0], k})
	}
	return out, nil
}

// c03Conn builds the connection of a case and arms the reset hooks; `atStart` are the resets to perform
// before the handler is called.
func (x *c03X) conn(c *c03Case, remote net.Addr) (conn *c34Conn, hooked *c03Hooked, atStart []c03Reset, err error) {
	x.mu.Lock()
	x.qn, x.onQ = 0, nil
	x.mu.Unlock()
	rs, err := c03ParseResets(c.resets)
	if err != nil {
		return nil, nil, nil, err
	}
	mid := false
	for _, r := range rs {
		if r.k == 0 && r.kind != 'Q' {
			atStart = append(atStart, r)
		} else {
			mid = true
		}
	}
	if !mid {
		return newC34Scripted(c.evs, remote), nil, atStart, nil
	}
	hooked = &c03Hooked{s: newC34Scripted(c.evs, remote), before: map[int]func(){}}
	onQ := map[int]func(){}
	for _, r := range rs {
		r := r
		switch {
		case r.kind == 'Q':
			onQ[r.k] = func() { x.reset(true) }
		case r.kind == 'N' && r.k > 0:
			hooked.before[r.k] = func() { x.reset(true); x.nested(c, remote) }
		case r.k > 0:
			hooked.before[r.k] = func() { x.reset(r.kind == 'P') }
		}
	}
	x.mu.Lock()
	x.onQ = onQ
	x.mu.Unlock()
	return newC34Real(hooked, remote), hooked, atStart, nil
}

// nested handles a whole short connection from the same source to a phantom of the other family, on the
// goroutine of the caller (a hook inside a Read of the outer connection; the handler holds no lock there).
// A panic in it travels up through the outer handler and is reported for the outer case.
func (x *c03X) nested(c *c03Case, remote net.Addr) {
	ph := c34PhMany
	if net.ParseIP(c.phantom).To4() != nil {
		ph = c34PhV6
	}
	nc := newC34Scripted([]c34Ev{{kind: "d", data: bytes.Repeat([]byte{0x5a}, 40)}, {kind: "d", data: bytes.Repeat([]byte{0xa5}, 40)}, {kind: "eof"}}, remote)
	x.w.cm.handleNewTCPConn(x.w.rm, nc, net.ParseIP(ph))
}

// ---------------------------------------------------------------------------------------------
// the statistics transitions a connection went through (white-box)

// c03Trans reads the transition counters of one record: every transition has a counter of its own
// (num<From>To<To>; addCreated: numNewConns).
func c03Trans(sc *statCounts) map[string]int64 {
	m := map[string]int64{}
	if sc == nil {
		return m
	}
	v := reflect.ValueOf(sc).Elem()
	for i := 0; i < v.NumField(); i++ {
		f := v.Type().Field(i)
		if f.Type.Kind() != reflect.Int64 {
			continue
		}
		name := f.Name
		switch {
		case name == "numNewConns":
			m["addCreated"] = v.Field(i).Int()
		case strings.HasPrefix(name, "num") && strings.Contains(name[3:], "To") && name != "numTimeout":
			m[strings.ToLower(name[3:4])+name[4:]] = v.Field(i).Int()
		}
	}
	return m
}

type c03Snap [4]map[string]int64 // tot4, tot6, asn4, asn6

func (x *c03X) snap(asn uint) c03Snap {
	cs := x.w.cm.connStats
	cs.m.RLock()
	defer cs.m.RUnlock()
	var s c03Snap
	s[0], s[1] = c03Trans(&cs.ipv4), c03Trans(&cs.ipv6)
	s[2], s[3] = map[string]int64{}, map[string]int64{}
	if r := cs.v4geoIPMap[asn]; r != nil {
		s[2] = c03Trans(&r.statCounts)
	}
	if r := cs.v6geoIPMap[asn]; r != nil {
		s[3] = c03Trans(&r.statCounts)
	}
	return s
}

func c03SnapDiff(before, after c03Snap) string {
	names := []string{"tot4", "tot6", "asn4", "asn6"}
	var parts []string
	for i := range names {
		var ts []string
		for k, v := range after[i] {
			if d := v - before[i][k]; d != 0 {
				ts = append(ts, fmt.Sprintf("%s*%d", k, d))
			}
		}
		sort.Strings(ts)
		parts = append(parts, names[i]+"="+strings.Join(ts, ","))
	}
	return strings.Join(parts, ";")
}

// c03StatsLine: the `connstats|…` model line of a finished run, from the `conn|…` line (data events
// reduced to their lengths)
func c03StatsLine(connLine string, v4 bool, cc string) (string, bool) {
	f := strings.Split(connLine, "|")
	if len(f) != 6 || f[0] != "conn" {
		return "", false
	}
	var evs []string
	if f[4] != "" {
		for _, e := range strings.Split(f[4], ";") {
			if strings.HasPrefix(e, "d") {
				n := 0
				if e != "d-" {
					n = (len(e) - 1) / 2
				}
				e = "n" + strconv.Itoa(n)
			}
			evs = append(evs, e)
		}
	}
	fam := "6"
	if v4 {
		fam = "4"
	}
	return fmt.Sprintf("connstats|%s|%s|%s|%s|%s|%s|%s", f[1], f[2], f[3], strings.Join(evs, ";"), f[5], fam, vlib.B(cc != "")), true
}

// ---------------------------------------------------------------------------------------------
// generator: sources x phantoms x segmentations x endings x epoch resets

var c03StatPeers = []string{"203.0.113.99", "2001:db8:85a3::8a2e:370:7334", "203.0.113.98/16", "192.0.2.200", "198.18.3.4", "203.0.114.7", "2001:db8:77::4d"}

type c03Source struct {
	name  string
	src   string // stand-in worlds
	peer  string
	prime string // a connection to make first: the phantom that "saw" the ASN earlier in the epoch
}

func (g *c03Gen) sources() []c03Source {
	x := c03XOf(g.w)
	if x.dbKind != "standin" {
		var out []c03Source
		for _, p := range c03StatPeers {
			out = append(out, c03Source{name: x.dbKind + ":" + p, peer: p})
		}
		return out
	}
	x.asnSeq++
	return []c03Source{
		{name: "fresh-asn", src: fmt.Sprintf("US:%d", x.asnSeq), peer: c03StatPeers[g.r.Intn(3)]},
		{name: "asn-seen-on-v4-phantom", src: "US:65001", peer: c03StatPeers[g.r.Intn(3)], prime: c34PhMany},
		{name: "asn-seen-on-v6-phantom", src: "DE:65002", peer: c03StatPeers[g.r.Intn(3)], prime: c34PhV6},
		{name: "no-country", src: ":0", peer: c03StatPeers[g.r.Intn(3)]},
		{name: "no-country-with-asn", src: ":64777", peer: c03StatPeers[g.r.Intn(3)]},
		{name: "unk", src: "unk:0", peer: c03StatPeers[g.r.Intn(3)]},
		{name: "country-without-asn", src: "IR:0", peer: c03StatPeers[g.r.Intn(3)]},
	}
}

// statsEpochs: the product described at the top of the file.  quick: one random ending per combination.
func (g *c03Gen) statsEpochs(thorough bool) {
	r := g.r
	segmentations := [][]int{{600}, {300, 300}, {1, 599}, {0, 600}, {200, 0, 200, 200}, {40, 40, 40, 40, 40, 40, 40, 40}, {4096, 4096, 808}, {}}
	ends := []string{"", "eof", "rst", "err"}
	for _, ph := range []string{c34PhV6, c34PhMany, c34PhOne(0), c34PhInvalid, c34PhNone} {
		for _, seg := range segmentations {
			nReads := len(seg) + 1 // + the read that ends the connection
			var resets []string
			resets = append(resets, "", "P0", "R0", "Q1", "Q2", fmt.Sprintf("Q%d", 3*len(seg)))
			for k := 1; k <= nReads; k++ {
				resets = append(resets, fmt.Sprintf("%c%d", "PR"[k%2], k), fmt.Sprintf("N%d", k))
			}
			var all []string
			for k := 0; k <= nReads; k++ {
				all = append(all, fmt.Sprintf("P%d", k))
			}
			resets = append(resets, strings.Join(all, ","))
			for _, rs := range resets {
				es := ends
				if !thorough {
					es = []string{ends[r.Intn(len(ends))]}
				}
				for _, end := range es {
					for _, so := range g.sources() {
						if so.prime != "" {
							g.emit(c03Case{phantom: so.prime, geo: "ok", src: so.src, peer: so.peer, class: "stats-epoch:prime",
								evs: []c34Ev{{kind: "d", data: r.Bytes(50)}, {kind: "d", data: r.Bytes(50)}}})
						}
						var evs []c34Ev
						for _, n := range seg {
							evs = append(evs, c34Ev{kind: "d", data: r.Bytes(n)})
						}
						if end != "" {
							evs = append(evs, c34Ev{kind: end})
						}
						geo := "ok"
						g.emit(c03Case{phantom: ph, geo: geo, src: so.src, peer: so.peer, resets: rs, class: "stats-epoch:" + so.name, evs: evs})
					}
				}
			}
		}
	}
}

// dress gives a probe of the other generators a source, a peer and - now and then - epoch resets
func (g *c03Gen) dress(c *c03Case) {
	if c.geo != "ok" || c.tagged {
		return
	}
	r := g.r
	x := c03XOf(g.w)
	if x.dbKind != "standin" {
		c.peer = c03StatPeers[r.Intn(len(c03StatPeers))]
	} else if r.Chance(1, 2) {
		ss := g.sources()
		so := ss[r.Intn(len(ss))]
		c.src, c.peer = so.src, so.peer
	}
	if r.Chance(1, 8) {
		nData := 0
		for _, e := range c.evs {
			if e.kind == "d" {
				nData++
			}
		}
		var rs []string
		for i, n := 0, r.Range(1, 2); i < n; i++ {
			switch r.Intn(4) {
			case 0:
				rs = append(rs, "P0")
			case 1:
				rs = append(rs, fmt.Sprintf("Q%d", r.Range(1, 3*nData+1)))
			default:
				rs = append(rs, fmt.Sprintf("%c%d", "PR"[r.Intn(2)], r.Range(1, nData+1)))
			}
		}
		c.resets = strings.Join(rs, ",")
	}
}
