//go:build verif

// C03, the clock: the real handleNewTCPConn on a connection with a VIRTUAL clock and a timed peer.
//
// The other generators script what the successive reads return (everything "arrives before the
// deadline", then the deadline).  Here the peer's actions carry arrival times (ms after the handler
// started) and the connection decides, from the deadline the handler really armed, which of them a read
// still returns: an action that arrives at or after the deadline is never read, the read reports the
// deadline at the deadline.  The handler's own time.Now() stays real (microseconds pass), the armed
// deadline is converted to the millisecond timeout it was computed from: the only multiple of 1 ms
// between deadline-minus-SetDeadline-call and deadline-minus-handler-start.  math/rand is seeded before
// every run, so the draw is known (rand.New(rand.NewSource(k)).Int63n(5000)) and goes on the model line;
// the model (CJ.ConnTimed.thandler, `conntime|…`) answers the timeout, the trace and the close time.
//
// Oracles (own bookkeeping, no model): every action that arrives before 5 s (and before the peer's own
// ending) is read; nothing that arrives after 10 s is; a peer that does not end the connection is given
// back between 5 s and 10 s, exactly at the armed deadline; and two connections that meet the same draw —
// this probe and a silent peer on the phantom without registrations — are given back at the same instant.
package main

import (
	"fmt"
	"math/rand"
	"net"
	"os"
	"sort"
	"strconv"
	"strings"
	"sync"
	"time"

	"github.com/refraction-networking/conjure/internal/vlib"
)

type c03TEv struct {
	at int // ms after the handler started
	ev c34Ev
}

func c03TEvString(s []c03TEv) string {
	parts := make([]string, len(s))
	for i, e := range s {
		parts[i] = strconv.Itoa(e.at) + ":" + c34EvString([]c34Ev{e.ev})
	}
	return strings.Join(parts, ";")
}

func c03ParseTEvs(s string) ([]c03TEv, error) {
	if s == "" {
		return nil, nil
	}
	var out []c03TEv
	for _, f := range strings.Split(s, ";") {
		i := strings.IndexByte(f, ':')
		if i < 0 {
			return nil, fmt.Errorf("bad timed event %q", f)
		}
		at, err := strconv.Atoi(f[:i])
		if err != nil {
			return nil, err
		}
		evs, err := c34ParseEvs(f[i+1:])
		if err != nil || len(evs) != 1 {
			return nil, fmt.Errorf("bad timed event %q", f)
		}
		out = append(out, c03TEv{at: at, ev: evs[0]})
	}
	return out, nil
}

// c03TConn: the peer's side of a connection on a virtual clock (the "inner" connection of a recording
// c34Conn).
type c03TConn struct {
	mu        sync.Mutex
	t0        time.Time
	script    []c03TEv
	pos, off  int
	vnow      int // virtual ms
	armed     bool
	d         int // armed deadline, virtual ms
	arms      int
	ambig     bool
	noDL      bool
	delivered int  // scripted actions a read returned (a partly read segment counts)
	termSeen  bool // a read returned the peer's own ending / a failure
	remote    net.Addr
}

func (c *c03TConn) Read(p []byte) (int, error) {
	c.mu.Lock()
	defer c.mu.Unlock()
	if !c.armed {
		c.noDL = true // without a deadline the read would block for ever
		return 0, c34ErrFor("to")
	}
	if c.pos < len(c.script) {
		e := c.script[c.pos]
		if c.d <= c.vnow || c.d <= e.at {
			if c.vnow < c.d {
				c.vnow = c.d
			}
			return 0, c34ErrFor("to")
		}
		if c.vnow < e.at {
			c.vnow = e.at
		}
		if e.ev.kind == "d" {
			if c.off == 0 {
				c.delivered++
			}
			n := copy(p, e.ev.data[c.off:])
			c.off += n
			if c.off >= len(e.ev.data) {
				c.pos++
				c.off = 0
			}
			return n, nil
		}
		c.delivered++
		c.termSeen = true
		return 0, c34ErrFor(e.ev.kind)
	}
	if c.vnow < c.d {
		c.vnow = c.d
	}
	return 0, c34ErrFor("to")
}

func (c *c03TConn) Write(p []byte) (int, error) { return len(p), nil }
func (c *c03TConn) Close() error                { return nil }
func (c *c03TConn) LocalAddr() net.Addr         { return &net.TCPAddr{IP: net.IPv4(127, 0, 0, 1), Port: 41245} }
func (c *c03TConn) RemoteAddr() net.Addr        { return c.remote }

func (c *c03TConn) SetDeadline(t time.Time) error {
	now := time.Now()
	c.mu.Lock()
	defer c.mu.Unlock()
	if t.IsZero() {
		c.armed = false
		return nil
	}
	c.arms++
	lo, hi := t.Sub(now), t.Sub(c.t0) // the handler computed `deadline` between t0 and now
	k0 := int((lo + time.Millisecond - 1) / time.Millisecond)
	k1 := int(hi / time.Millisecond)
	if lo < 0 {
		k0 = 0
	}
	if k0 != k1 {
		c.ambig = true
	}
	c.armed, c.d = true, k0
	return nil
}
func (c *c03TConn) SetReadDeadline(t time.Time) error  { return c.SetDeadline(t) }
func (c *c03TConn) SetWriteDeadline(t time.Time) error { return nil }

type c03TimedCase struct {
	k       int64 // seed of math/rand for this connection
	phantom string
	class   string
	script  []c03TEv
}

func (c c03TimedCase) replay() string {
	return fmt.Sprintf("c03t|seed=%d|k=%d|phantom=%s|class=%s|script=%s", vlib.Seed(), c.k, c.phantom, c.class, c03TEvString(c.script))
}

type c03TimedRes struct {
	ok        bool // the run completed and is usable (no panic, no hang, deadline value unambiguous)
	d, close  int
	termSeen  bool
	delivered int
	noDL      bool
	arms      int
	probe     bool // no transport matched or answered an error
	count     int
	tids      string
	passes    string
	toks      string
}

var c03TimedMu sync.Mutex // math/rand's global source is seeded per run: one timed run at a time

func c03TimedOnce(out *vlib.Out, w *c34World, c *c03TimedCase, k int64) (res c03TimedRes) {
	c03TimedMu.Lock()
	defer c03TimedMu.Unlock()
	remote := &net.TCPAddr{IP: net.IPv4(203, 0, 113, 99).To4(), Port: 40404}
	x := c03XOf(w)
	x.installGeo(&c03Case{}, "ok", remote)
	tc := &c03TConn{script: c.script, remote: remote}
	conn := newC34Real(tc, remote)
	rand.Seed(k)
	tc.t0 = time.Now()
	run, done := w.start(conn, c.phantom, "ok")
	select {
	case <-done:
	case <-time.After(30 * time.Second):
		c03Fail(out, "C03:time:hang", fmt.Sprintf("the handler did not return 30 s after the virtual-clock connection reported the deadline (class %s, phantom %s)", c.class, c.phantom), c.replay())
		return
	}
	if run.panicked != nil {
		c03Fail(out, "C03:panic", fmt.Sprintf("panic: the handler panicked on a timed peer (the station process dies and closes every open connection at once): %v (class %s, phantom %s)", run.panicked, c.class, c.phantom), c.replay())
		return
	}
	cn := w.canon(run)
	tc.mu.Lock()
	defer tc.mu.Unlock()
	res = c03TimedRes{ok: !tc.ambig, d: tc.d, close: tc.vnow, termSeen: tc.termSeen, delivered: tc.delivered, noDL: tc.noDL, arms: tc.arms,
		probe: cn.found < 0 && !cn.sawErr, count: run.count, toks: cn.implOut}
	f := strings.Split(cn.modelLine, "|") // conn|geo|count|tids|events|passes
	if len(f) == 6 {
		res.tids, res.passes = f[3], f[5]
	} else {
		res.ok = false
	}
	return
}

// c03TimedRun: the case and its reference (a silent peer on the phantom without registrations, same
// draw), the oracles, the correspondence line.
func c03TimedRun(out *vlib.Out, w *c34World, c *c03TimedCase) {
	draw := rand.New(rand.NewSource(c.k)).Int63n(5000)
	var res, ref c03TimedRes
	for attempt := 0; attempt < 4; attempt++ {
		res = c03TimedOnce(out, w, c, c.k)
		if !res.ok && res.arms == 0 && !res.noDL {
			return // hang / panic: reported
		}
		ref = c03TimedOnce(out, w, &c03TimedCase{k: c.k, phantom: c34PhNone, class: "reference"}, c.k)
		if res.ok && ref.ok {
			break
		}
		out.Count("time:deadline-value-ambiguous-rerun")
	}
	if !res.ok || !ref.ok {
		out.Count("time:skipped-ambiguous")
		return
	}
	rp := c.replay()
	fail := func(what, detail string) {
		c03Fail(out, "C03:time:"+what, fmt.Sprintf("%s: %s (class %s, phantom %s, %d registrations, drawn deadline %d ms)", what, detail, c.class, c.phantom, res.count, res.d), rp)
	}
	out.Checked()
	// bookkeeping from the script alone
	mustRead, firstLate, run := 0, -1, 0
	for i, e := range c.script {
		if e.at >= 10000 {
			firstLate = i
			break
		}
		if e.ev.kind != "d" {
			break
		}
	}
	for i, e := range c.script {
		if e.at > run {
			run = e.at
		}
		if run >= 5000 {
			break
		}
		mustRead = i + 1
		if e.ev.kind != "d" {
			break
		}
	}
	switch {
	case res.noDL || res.arms == 0:
		fail("no-deadline", "a read was issued with no deadline armed")
	case res.arms > 1:
		fail("re-armed", fmt.Sprintf("the deadline was armed %d times", res.arms))
	case !res.probe:
		out.Count("time:not-a-probe")
	case res.delivered < mustRead:
		fail("stopped-reading-before-5s", fmt.Sprintf("%d of the %d actions of the peer that arrive in the first 5 s were read", res.delivered, mustRead))
	case firstLate >= 0 && res.delivered > firstLate:
		fail("read-after-10s", fmt.Sprintf("action %d of the peer arrives %d ms after the connection was accepted and was still read", firstLate, c.script[firstLate].at))
	case !res.termSeen && (res.close < 5000 || res.close >= 10000):
		fail("close-out-of-range", fmt.Sprintf("the peer did not end the connection and was given back after %d ms", res.close))
	case !res.termSeen && res.close != res.d:
		fail("close-not-at-armed-deadline", fmt.Sprintf("given back after %d ms, the armed deadline was %d ms", res.close, res.d))
	case !res.termSeen && (res.d != ref.d || res.close != ref.close):
		fail("close-depends-on-content-or-registrations", fmt.Sprintf("given back after %d ms; a silent peer on a phantom without registrations that meets the same draw is given back after %d ms", res.close, ref.close))
	}
	line := fmt.Sprintf("conntime|%d|%d|%s|%s|%s", draw, res.count, res.tids, c03TEvString(c.script), res.passes)
	out.Case(line, fmt.Sprintf("T%d %s @%d", res.d, res.toks, res.close), true)
	out.Count("time:class:" + c.class)
	switch {
	case res.termSeen:
		out.Count("time:end:peer-ended")
	case res.delivered < len(c.script):
		out.Count("time:end:deadline-with-actions-still-to-come")
	default:
		out.Count("time:end:deadline-after-the-last-action")
	}
	if res.count < 1 {
		out.Count("time:phantom:no-registration")
	} else {
		out.Count("time:phantom:registrations")
	}
	out.Count(fmt.Sprintf("time:timeout:%d-%ds", res.d/1000, res.d/1000+1))
}

func c03TimedSeg(r *vlib.Rand) []byte {
	switch r.Intn(4) {
	case 0:
		if b := c03Lookalike(r); len(b) <= 4096 {
			return b
		}
		return r.Bytes(4096)
	case 1:
		b := make([]byte, 1+r.Intn(8))
		r.Read(b)
		return b
	}
	b := make([]byte, 1+r.Intn(1400))
	r.Read(b)
	return b
}

func c03Timed(out *vlib.Out, w *c34World, thorough bool) {
	r := vlib.NewRand("C03/timed")
	phantoms := []string{c34PhMany, c34PhNone, c34PhOne(0), c34PhV6, c34PhInvalid}
	d := func(at int, b ...byte) c03TEv { return c03TEv{at: at, ev: c34Ev{kind: "d", data: b}} }
	e := func(at int, kind string) c03TEv { return c03TEv{at: at, ev: c34Ev{kind: kind}} }
	big := make([]byte, 3000)
	r.Read(big)
	var trickle []c03TEv
	for t := 0; t < 12500; t += 500 {
		trickle = append(trickle, d(t, byte(t/500)))
	}
	corpus := [][]c03TEv{
		nil,
		{d(0, 1, 2, 3)},
		{d(0, 0x16, 3, 1), d(3000, 9), d(4999, 7), d(5000, 7), d(7200, 5, 5, 5), d(9999, 1), d(10000, 2), d(12000, 6)},
		trickle,
		{{at: 0, ev: c34Ev{kind: "d", data: big}}, {at: 100, ev: c34Ev{kind: "d", data: big}}, {at: 200, ev: c34Ev{kind: "d", data: big}}, d(6000, 1), d(8000, 2), d(11000, 3)},
		{d(9999, 1)}, {d(10000, 1)}, {d(15000, 1)}, {d(4999, 1)}, {d(5000, 1)},
		{d(0, 1), e(2000, "eof")}, {d(0, 1), e(7000, "rst")}, {e(0, "rst")}, {d(100, 1), e(9999, "err")}, {e(12000, "eof")},
		{d(3000, 1), d(1000, 2), d(6000, 3), d(2000, 4)}, // out of arrival order: already queued
		{d(0), d(1000), d(6000)},                           // zero-length reads
	}
	k := int64(1 + r.Intn(1<<30))
	for ci, s := range corpus {
		for pi, ph := range phantoms {
			c03TimedRun(out, w, &c03TimedCase{k: k + int64(ci*7+pi), phantom: ph, class: "timed-corpus", script: s})
		}
	}
	n := vlib.Budget(500, 4000)
	for i := 0; i < n && !c03GiveUp(); i++ {
		var s []c03TEv
		m := r.Intn(13)
		ats := make([]int, m)
		span := []int{4000, 9000, 13000, 13000}[r.Intn(4)]
		for j := range ats {
			ats[j] = r.Intn(span)
		}
		if r.Intn(8) != 0 {
			sort.Ints(ats)
		}
		for j := 0; j < m; j++ {
			s = append(s, c03TEv{at: ats[j], ev: c34Ev{kind: "d", data: c03TimedSeg(r)}})
		}
		if r.Intn(4) == 0 {
			at := r.Intn(13000)
			if m > 0 && r.Intn(3) != 0 && at < ats[m-1] {
				at = ats[m-1] + r.Intn(3000)
			}
			s = append(s, c03TEv{at: at, ev: c34Ev{kind: []string{"eof", "rst", "err"}[r.Intn(3)]}})
		}
		c03TimedRun(out, w, &c03TimedCase{k: int64(1 + r.Intn(1<<30)), phantom: phantoms[r.Intn(len(phantoms))], class: "timed-random", script: s})
	}
}

// c03TimedReplay re-runs `c03t|…` lines of a replay file.
func c03TimedReplay(out *vlib.Out, path string) error {
	lines, err := c34ReplayLines(path, "c03t")
	if err != nil || len(lines) == 0 {
		return err
	}
	var w *c34World
	for _, m := range lines {
		os.Setenv("VERIF_SEED", m["seed"])
		if w == nil {
			if w, err = newC34World("C03/0", ""); err != nil {
				return err
			}
			if _, err = c03SetupWorld(w, 0); err != nil {
				return err
			}
			if _, err = w.populate(); err != nil {
				return err
			}
		}
		s, err := c03ParseTEvs(m["script"])
		if err != nil {
			return err
		}
		c := c03TimedCase{phantom: m["phantom"], class: m["class"], script: s}
		fmt.Sscan(m["k"], &c.k)
		c03TimedRun(out, w, &c)
		fmt.Fprintf(os.Stderr, "REPLAY c03t class=%s phantom=%s k=%d actions=%d\n", c.class, c.phantom, c.k, len(s))
	}
	return nil
}
