//go:build verif

package main

// Extractor for C03 (tie 1).
//
// (1) What handleNewTCPConn and handleNewConn do with the client connection, read off the syntax tree
// of conns.go in the scratch copy: EVERY occurrence of the connection variable (found by the type of
// the parameter, not by its name) and of every variable it is copied to is classified — method call
// (with the method), argument of a call (function and argument position), or "other use" (type
// assertion, type switch, address-of, composite literal, closure capture, comparison, return, …) — and
// likewise for the connection the transports hand back (second result of WrapConnection). Written as
// CJ/Gen/ConnCalls.lean; `CJ.Props.C03.conn_calls_ok` / `new_conn_calls_ok` are stated about it.
//
// (2) The length constants the transport models use (min tag length, obfs4 handshake bounds,
// identifier length), from the running code: CJ/Gen/WrapConsts.lean.

import (
	"bytes"
	"errors"
	"fmt"
	"go/ast"
	"go/parser"
	"go/token"
	"net"
	"os"
	"path/filepath"
	"sort"
	"strings"
	"testing"

	"github.com/refraction-networking/conjure/pkg/transports"
	"github.com/refraction-networking/conjure/pkg/transports/wrapping/min"
	"github.com/refraction-networking/conjure/pkg/transports/wrapping/obfs4"
	"github.com/refraction-networking/obfs4/common/ntor"
)

func c03Expr(e ast.Expr) string {
	switch x := e.(type) {
	case *ast.Ident:
		return x.Name
	case *ast.SelectorExpr:
		return c03Expr(x.X) + "." + x.Sel.Name
	case *ast.StarExpr:
		return "*" + c03Expr(x.X)
	case *ast.UnaryExpr:
		return x.Op.String() + c03Expr(x.X)
	case *ast.ParenExpr:
		return c03Expr(x.X)
	}
	return fmt.Sprintf("<%T>", e)
}

func c03LeanList(name string, set map[string]bool) string {
	var l []string
	for k := range set {
		l = append(l, fmt.Sprintf("%q", k))
	}
	sort.Strings(l)
	return fmt.Sprintf("def %s : List String := [%s]\n", name, strings.Join(l, ", "))
}

// c03Facts: what one function does with a family of tracked variables
type c03Facts struct {
	methods  map[string]map[string]bool // kind -> methods invoked (not deferred)
	deferred map[string]map[string]bool // kind -> "Method@<index of the top-level statement>"
	passed   map[string]map[string]bool // kind -> "fn#argIndex"
	other    map[string]bool            // every other use, aliases, goroutines, defers of other things
}

func newC03Facts(kinds ...string) *c03Facts {
	f := &c03Facts{methods: map[string]map[string]bool{}, deferred: map[string]map[string]bool{}, passed: map[string]map[string]bool{}, other: map[string]bool{}}
	for _, k := range kinds {
		f.methods[k], f.deferred[k], f.passed[k] = map[string]bool{}, map[string]bool{}, map[string]bool{}
	}
	return f
}

// c03Strip removes what does not change which object an expression denotes
func c03Strip(e ast.Expr) ast.Expr {
	for {
		switch x := e.(type) {
		case *ast.ParenExpr:
			e = x.X
		case *ast.TypeAssertExpr:
			e = x.X
		case *ast.StarExpr:
			e = x.X
		case *ast.UnaryExpr:
			e = x.X
		default:
			return e
		}
	}
}

var c03Conversions = map[string]bool{"int": true, "uintptr": true, "uint": true, "int32": true, "int64": true, "uint32": true, "uint64": true}

// c03Analyse classifies every occurrence of the tracked variables in fn. `tracked` maps a variable
// name to its kind; `derive` adds variables defined from a call on a tracked variable
// (`fd, err := clientConn.File()` -> kind "fd") or from a call of a named method
// (`_, wrappedConn, err := t.WrapConnection(…)` -> result 1 is "wrapped").
func c03Analyse(fn *ast.FuncDecl, tracked map[string]string, facts *c03Facts) {
	// ---- which variables denote the tracked objects: copies, to a fixpoint
	for changed := true; changed; {
		changed = false
		add := func(lhs ast.Expr, kind, why string, alias bool) {
			id, ok := lhs.(*ast.Ident)
			if !ok {
				if alias {
					facts.other["stored-in:"+c03Expr(lhs)+" ("+why+")"] = true
				}
				return
			}
			if id.Name == "_" {
				return
			}
			if _, known := tracked[id.Name]; !known {
				tracked[id.Name] = kind
				changed = true
			}
		}
		pair := func(lhs, rhs ast.Expr) {
			id, ok := c03Strip(rhs).(*ast.Ident)
			if !ok {
				return
			}
			k, ok := tracked[id.Name]
			if !ok {
				return
			}
			lid, isID := lhs.(*ast.Ident)
			if isID && (lid.Name == "_" || lid.Name == id.Name) {
				return
			}
			// a copy of the wrapped connection into another plain variable is followed silently (its uses
			// are recorded under the same kind); every other copy is also reported
			if !(isID && k == "wrapped") {
				facts.other["alias:"+c03Expr(lhs)+":="+id.Name] = true
			}
			add(lhs, k, id.Name, true)
		}
		ast.Inspect(fn.Body, func(n ast.Node) bool {
			switch x := n.(type) {
			case *ast.AssignStmt:
				if len(x.Rhs) == 1 && len(x.Lhs) > 1 {
					if _, isCall := x.Rhs[0].(*ast.CallExpr); !isCall {
						pair(x.Lhs[0], x.Rhs[0]) // comma-ok forms: `tc, ok := clientConn.(*net.TCPConn)`
					}
					if call, ok := x.Rhs[0].(*ast.CallExpr); ok {
						if sel, ok := call.Fun.(*ast.SelectorExpr); ok {
							if sel.Sel.Name == "WrapConnection" && len(x.Lhs) >= 2 {
								add(x.Lhs[1], "wrapped", "WrapConnection", false)
							}
							if id, ok := sel.X.(*ast.Ident); ok && tracked[id.Name] == "client" && sel.Sel.Name == "File" {
								add(x.Lhs[0], "fd", "File", false)
							}
						}
					}
					return true
				}
				for i, rhs := range x.Rhs {
					if i >= len(x.Lhs) {
						break
					}
					pair(x.Lhs[i], rhs)
					if call, ok := rhs.(*ast.CallExpr); ok {
						if sel, ok := call.Fun.(*ast.SelectorExpr); ok {
							if id, ok := sel.X.(*ast.Ident); ok && tracked[id.Name] == "fd" && sel.Sel.Name == "Fd" {
								add(x.Lhs[i], "fdptr", "Fd", false)
							}
						}
					}
				}
			case *ast.ValueSpec:
				for i, v := range x.Values {
					if i < len(x.Names) {
						pair(x.Names[i], v)
					}
				}
			case *ast.RangeStmt:
				if id, ok := c03Strip(x.X).(*ast.Ident); ok {
					if _, ok := tracked[id.Name]; ok {
						facts.other["ranged-over:"+id.Name] = true
					}
				}
			}
			return true
		})
	}
	// ---- every occurrence
	topIndex := func(stack []ast.Node) int {
		for _, a := range stack {
			if st, ok := a.(ast.Stmt); ok {
				for i, s := range fn.Body.List {
					if s == st {
						return i
					}
				}
			}
		}
		return -1
	}
	var stack []ast.Node
	ast.Inspect(fn.Body, func(n ast.Node) bool {
		if n == nil {
			stack = stack[:len(stack)-1]
			return true
		}
		stack = append(stack, n)
		switch x := n.(type) {
		case *ast.GoStmt:
			facts.other["go-statement"] = true
		case *ast.DeferStmt:
			// a deferred call that is not a plain method call on a tracked variable
			ok := false
			if sel, isSel := x.Call.Fun.(*ast.SelectorExpr); isSel {
				if id, isID := sel.X.(*ast.Ident); isID {
					_, ok = tracked[id.Name]
				}
			}
			if !ok {
				facts.other["defer:"+c03Expr(x.Call.Fun)] = true
			}
		case *ast.Ident:
			kind, ok := tracked[x.Name]
			if !ok || len(stack) < 2 {
				return true
			}
			if facts.methods[kind] == nil {
				facts.methods[kind], facts.deferred[kind], facts.passed[kind] = map[string]bool{}, map[string]bool{}, map[string]bool{}
			}
			for _, a := range stack[:len(stack)-1] {
				if _, isLit := a.(*ast.FuncLit); isLit {
					facts.other["closure-capture:"+x.Name] = true
				}
			}
			parent := stack[len(stack)-2]
			var gp, ggp ast.Node
			if len(stack) >= 3 {
				gp = stack[len(stack)-3]
			}
			if len(stack) >= 4 {
				ggp = stack[len(stack)-4]
			}
			switch p := parent.(type) {
			case *ast.SelectorExpr:
				if p.X != ast.Expr(x) {
					return true // x is the selected name, not the operand (cannot happen for a variable)
				}
				if call, isCall := gp.(*ast.CallExpr); isCall && call.Fun == ast.Expr(p) {
					if d, isDefer := ggp.(*ast.DeferStmt); isDefer && d.Call == call {
						facts.deferred[kind][fmt.Sprintf("%s@%d", p.Sel.Name, topIndex(stack))] = true
					} else if _, isGo := ggp.(*ast.GoStmt); isGo {
						facts.other["go:"+x.Name+"."+p.Sel.Name] = true
					} else {
						facts.methods[kind][p.Sel.Name] = true
					}
				} else {
					facts.other["method-value:"+x.Name+"."+p.Sel.Name] = true
				}
			case *ast.CallExpr:
				if p.Fun == ast.Expr(x) {
					facts.other["called:"+x.Name] = true
					return true
				}
				for i, a := range p.Args {
					if a == ast.Expr(x) {
						fn := c03Expr(p.Fun)
						if c03Conversions[fn] && len(p.Args) == 1 {
							// a numeric conversion: what matters is where the converted value goes
							if outer, isCall := gp.(*ast.CallExpr); isCall {
								for k, oa := range outer.Args {
									if oa == ast.Expr(p) {
										facts.passed[kind][fmt.Sprintf("%s#%d", c03Expr(outer.Fun), k)] = true
									}
								}
							} else {
								facts.other[fmt.Sprintf("converted:%s(%s) in %T", fn, x.Name, gp)] = true
							}
						} else {
							facts.passed[kind][fmt.Sprintf("%s#%d", fn, i)] = true
						}
					}
				}
			case *ast.AssignStmt:
				// definitions / copies were handled above (aliases recorded there)
			case *ast.ValueSpec:
			case *ast.TypeAssertExpr:
				facts.other["type-assertion:"+x.Name] = true
			case *ast.UnaryExpr:
				facts.other["unary"+p.Op.String()+":"+x.Name] = true
			case *ast.StarExpr:
				facts.other["deref:"+x.Name] = true
			case *ast.CompositeLit, *ast.KeyValueExpr:
				facts.other["composite-literal:"+x.Name] = true
			case *ast.ReturnStmt:
				facts.other["returned:"+x.Name] = true
			case *ast.BinaryExpr:
				facts.other["compared:"+x.Name] = true
			case *ast.SendStmt:
				facts.other["sent-on-channel:"+x.Name] = true
			default:
				facts.other[fmt.Sprintf("other-use:%s in %T", x.Name, parent)] = true
			}
		}
		return true
	})
}

// c03ParamOfType returns the name of fn's parameter whose type is written `typ`
func c03ParamOfType(fn *ast.FuncDecl, typ string) string {
	for _, f := range fn.Type.Params.List {
		if c03Expr(f.Type) == typ && len(f.Names) == 1 {
			return f.Names[0].Name
		}
	}
	return ""
}

func c03Threshold(answer func(n int) error, max int) (firstNotTryAgain int) {
	for n := 0; n <= max; n++ {
		if err := answer(n); !errors.Is(err, transports.ErrTryAgain) {
			return n
		}
	}
	return -1
}

func TestVerifC03Gen(t *testing.T) {
	fset := token.NewFileSet()
	f, err := parser.ParseFile(fset, "conns.go", nil, 0)
	if err != nil {
		t.Fatal(err)
	}
	fns := map[string]*ast.FuncDecl{}
	for _, d := range f.Decls {
		if fd, ok := d.(*ast.FuncDecl); ok && fd.Body != nil {
			fns[fd.Name.Name] = fd
		}
	}
	tcp, nc := fns["handleNewTCPConn"], fns["handleNewConn"]
	if tcp == nil || nc == nil {
		t.Fatal("handleNewTCPConn / handleNewConn not found in conns.go")
	}
	tcpConn := c03ParamOfType(tcp, "net.Conn")
	ncConn := c03ParamOfType(nc, "*net.TCPConn")
	if tcpConn == "" || ncConn == "" {
		t.Fatalf("connection parameter not found (handleNewTCPConn: %q, handleNewConn: %q)", tcpConn, ncConn)
	}
	ft := newC03Facts("client", "wrapped")
	c03Analyse(tcp, map[string]string{tcpConn: "client"}, ft)
	fc := newC03Facts("client", "fd", "fdptr")
	c03Analyse(nc, map[string]string{ncConn: "client"}, fc)
	// deferred calls on the connections inside handleNewTCPConn are "other uses" there
	for k, m := range ft.deferred {
		for d := range m {
			ft.other["defer:"+k+"."+d] = true
		}
	}
	// syscalls made directly by handleNewConn (the raw descriptor is in its hands)
	sys := map[string]bool{}
	ast.Inspect(nc.Body, func(n ast.Node) bool {
		if call, ok := n.(*ast.CallExpr); ok {
			if sel, ok := call.Fun.(*ast.SelectorExpr); ok {
				if id, ok := sel.X.(*ast.Ident); ok && (id.Name == "syscall" || id.Name == "unix") {
					sys[sel.Sel.Name] = true
				}
			}
		}
		return true
	})

	var sb strings.Builder
	sb.WriteString("/-! GENERATED by /verif/go/harness/C03/zz_verif_c03_gen_test.go from cmd/application/conns.go (handleNewTCPConn, handleNewConn). Do not edit. -/\n")
	sb.WriteString("namespace CJ.Gen.ConnCalls\n\n")
	sb.WriteString("/-! ### handleNewTCPConn (connection parameter of type net.Conn, and every copy of it) -/\n")
	sb.WriteString("/-- methods invoked on the client connection -/\n" + c03LeanList("clientConnMethods", ft.methods["client"]))
	sb.WriteString("/-- functions the client connection is passed to, with the argument position -/\n" + c03LeanList("clientConnPassedTo", ft.passed["client"]))
	sb.WriteString("/-- methods invoked on the wrapped connection (second result of WrapConnection, and every copy of it) -/\n" + c03LeanList("wrappedMethods", ft.methods["wrapped"]))
	sb.WriteString("/-- functions the wrapped connection is passed to, with the argument position -/\n" + c03LeanList("wrappedPassedTo", ft.passed["wrapped"]))
	sb.WriteString("/-- every other use of either connection: copies into other variables, type assertions, address-of, literals, closure captures, comparisons, defers, goroutines -/\n" + c03LeanList("aliases", ft.other))
	sb.WriteString("\n/-! ### handleNewConn (connection parameter of type *net.TCPConn) -/\n")
	sb.WriteString("/-- methods invoked on the connection, deferred calls excluded -/\n" + c03LeanList("newConnMethods", fc.methods["client"]))
	sb.WriteString("/-- deferred method calls on the connection: Method@index of the top-level statement -/\n" + c03LeanList("newConnDeferred", fc.deferred["client"]))
	sb.WriteString("/-- functions the connection is passed to, with the argument position -/\n" + c03LeanList("newConnPassedTo", fc.passed["client"]))
	sb.WriteString("/-- methods invoked on the duplicated descriptor (`clientConn.File()`), deferred or not -/\n")
	fdm := map[string]bool{}
	for m := range fc.methods["fd"] {
		fdm[m] = true
	}
	for m := range fc.deferred["fd"] {
		fdm[strings.SplitN(m, "@", 2)[0]] = true
	}
	sb.WriteString(c03LeanList("newConnFdMethods", fdm))
	fdp := map[string]bool{}
	for _, k := range []string{"fd", "fdptr"} {
		for m := range fc.passed[k] {
			fdp[m] = true
		}
	}
	sb.WriteString("/-- functions the descriptor (or its number) is passed to -/\n" + c03LeanList("newConnFdPassedTo", fdp))
	sb.WriteString("/-- system calls made directly -/\n" + c03LeanList("newConnSyscalls", sys))
	sb.WriteString("/-- every other use -/\n" + c03LeanList("newConnOther", fc.other))
	sb.WriteString("\nend CJ.Gen.ConnCalls\n")
	dir := os.Getenv("VERIF_OUT")
	if dir == "" {
		dir = os.TempDir()
	}
	if err := os.WriteFile(filepath.Join(dir, "ConnCalls.lean"), []byte(sb.String()), 0o644); err != nil {
		t.Fatal(err)
	}

	// ---- (2) length constants, from the running code
	w, err := newC34World("C03/gen", "")
	if err != nil {
		t.Fatal(err)
	}
	ip := net.ParseIP(c34PhNone)
	junk := bytes.Repeat([]byte{0x5a}, 9000)
	minT := c03Threshold(func(n int) error {
		_, _, err := min.Transport{}.WrapConnection(bytes.NewBuffer(append([]byte(nil), junk[:n]...)), nil, ip, w.rm)
		return err
	}, 200)
	obfsMax := c03Threshold(func(n int) error {
		_, _, err := obfs4.Transport{}.WrapConnection(bytes.NewBuffer(append([]byte(nil), junk[:n]...)), nil, ip, w.rm)
		return err
	}, 9000)
	if minT < 0 || obfsMax < 0 {
		t.Fatalf("thresholds not observable: min %d, obfs4 %d", minT, obfsMax)
	}
	if obfsMax != obfs4.MaxHandshakeLength {
		t.Fatalf("obfs4 gives up at %d bytes, MaxHandshakeLength is %d", obfsMax, obfs4.MaxHandshakeLength)
	}
	var cb strings.Builder
	cb.WriteString("/-! GENERATED by /verif/go/harness/C03/zz_verif_c03_gen_test.go from pkg/transports/wrapping/{min,obfs4} (behaviour of the running code / exported constants). Do not edit. -/\n")
	cb.WriteString("namespace CJ.Gen.WrapConsts\n\n")
	fmt.Fprintf(&cb, "/-- shortest buffer on which the min transport stops answering try-again (`minTagLength`) -/\ndef minTagLen : Nat := %d\n", minT)
	fmt.Fprintf(&cb, "/-- `obfs4.ClientMinHandshakeLength` -/\ndef obfs4ClientMinHandshake : Nat := %d\n", obfs4.ClientMinHandshakeLength)
	fmt.Fprintf(&cb, "/-- `obfs4.MaxHandshakeLength` = shortest buffer on which obfs4, without a registration, stops answering try-again -/\ndef obfs4MaxHandshake : Nat := %d\n", obfsMax)
	fmt.Fprintf(&cb, "/-- length of an obfs4 registration identifier in bytes (`ntor.PublicKeyLength + ntor.NodeIDLength`) -/\ndef obfs4IdentLen : Nat := %d\n", ntor.PublicKeyLength+ntor.NodeIDLength)
	cb.WriteString("\nend CJ.Gen.WrapConsts\n")
	if err := os.WriteFile(filepath.Join(dir, "WrapConsts.lean"), []byte(cb.String()), 0o644); err != nil {
		t.Fatal(err)
	}
}
