//go:build verif

package phantoms

// C14, the configuration in front of the selection: SubnetsFromTomlFile.
//
// "The result depends on seed, generation, version, family and the subnet configuration alone": the
// configuration is a file, and the loop that turns it into the selector's table ranges over a Go map.
// Every generated file (table keys: plain numbers, several spellings of one number — 1, 01, 001, +1, -0 —,
// negative numbers, keys strconv.Atoi rejects) is written to disk and loaded c14lLoads times into unused
// selectors; table and selections of every load must be the same (`C14:result-depends-on-load`), and the
// first load is answered by CJ.PhantomLoad.loadStrict (`load|` line; strconv.Atoi's verdict per key is
// passed on the line).

import (
	"encoding/hex"
	"fmt"
	"os"
	"path/filepath"
	"sort"
	"strconv"
	"strings"
	"testing"

	"github.com/refraction-networking/conjure/internal/vlib"
)

const c14lLoads = 50

type c14lEntry struct {
	key string // the table's key as written in the file
	id  int    // names the configuration: its only subnet is 10.<id>.0.0/16
}

var c14lBare = func(s string) bool {
	if s == "" {
		return false
	}
	for _, ch := range s {
		if !(ch >= 'a' && ch <= 'z' || ch >= 'A' && ch <= 'Z' || ch >= '0' && ch <= '9' || ch == '_' || ch == '-') {
			return false
		}
	}
	return true
}

func c14lFile(es []c14lEntry, quoteAll bool) string {
	var b strings.Builder
	b.WriteString("[Networks]\n")
	for _, e := range es {
		k := e.key
		if quoteAll || !c14lBare(k) {
			k = strconv.Quote(k)
		}
		fmt.Fprintf(&b, "    [Networks.%s]\n        Generation = %d\n        [[Networks.%s.WeightedSubnets]]\n            Weight = 9\n            Subnets = [\"10.%d.0.0/16\"]\n",
			k, e.id, k, e.id)
		if e.id%3 == 0 {
			b.WriteString("            RandomizeDstPort = true\n")
		}
	}
	return b.String()
}

func c14lReplayLine(es []c14lEntry) string {
	p := make([]string, len(es))
	for i, e := range es {
		p[i] = hex.EncodeToString([]byte(e.key)) + ":" + strconv.Itoa(e.id)
	}
	return "C14LOAD|" + strings.Join(p, ",")
}

// one load of the file in an unused selector: the table at the probed generations (canonical, as the
// driver prints it) and, apart, the selections made from it
func c14lLoad(path string, gens []uint64) (table string, sels string) {
	defer func() {
		if p := recover(); p != nil {
			table, sels = "panic", fmt.Sprint(p)
		}
	}()
	s, err := SubnetsFromTomlFile(path)
	if err != nil {
		return "err", ""
	}
	var tb, sb strings.Builder
	tb.WriteString("tab")
	seed := []byte("C14-load-seed-0123456789abcdef..")
	for _, g := range gens {
		c, ok := s.Networks[uint(g)]
		if !ok || c == nil || len(c.WeightedSubnets) != 1 || len(c.WeightedSubnets[0].Subnets) != 1 {
			fmt.Fprintf(&tb, " %d=-", g)
		} else {
			f := strings.Split(c.WeightedSubnets[0].Subnets[0], ".")
			fmt.Fprintf(&tb, " %d=%s", g, f[1])
		}
		for _, ver := range []uint{1, 3} {
			ip, err := s.Select(seed, uint(g), ver, false)
			if err != nil {
				fmt.Fprintf(&sb, " %d/%d:err", g, ver)
			} else {
				fmt.Fprintf(&sb, " %d/%d:%s,%v", g, ver, ip.IP(), ip.SupportRandomPort())
			}
		}
	}
	fmt.Fprintf(&tb, " #%d", len(s.Networks))
	return tb.String(), sb.String()
}

func c14lRun(t testing.TB, out *vlib.Out, dir string, es []c14lEntry, quoteAll, verbose bool) {
	es = append([]c14lEntry(nil), es...)
	sort.Slice(es, func(i, j int) bool { return es[i].key < es[j].key })
	// the model line: Atoi's verdict per key, and the generations to read
	gset := map[uint64]bool{0: true, 1: true, 2: true}
	parts := make([]string, len(es))
	maxG := uint64(0)
	kinds := map[string]bool{}
	seen := map[int]bool{}
	for i, e := range es {
		n, err := strconv.Atoi(e.key)
		switch {
		case err != nil:
			parts[i] = fmt.Sprintf("e:%d", e.id)
			kinds["atoi-error"] = true
		default:
			parts[i] = fmt.Sprintf("%d:%d", n, e.id)
			if n < 0 {
				kinds["negative"] = true
			} else {
				gset[uint64(n)] = true
				if uint64(n) > maxG {
					maxG = uint64(n)
				}
				if seen[n] {
					kinds["same-number-twice"] = true
				}
				seen[n] = true
			}
		}
	}
	if len(kinds) == 0 {
		kinds["distinct-numbers"] = true
	}
	for k := range kinds {
		out.Count("load-file:" + k)
	}
	out.Count(fmt.Sprintf("load-tables:%d", len(es)))
	for d := uint64(1); d <= uint64(len(es))+1; d++ {
		gset[maxG+d] = true
	}
	gens := make([]uint64, 0, len(gset))
	for g := range gset {
		gens = append(gens, g)
	}
	sort.Slice(gens, func(i, j int) bool { return gens[i] < gens[j] })
	gs := make([]string, len(gens))
	for i, g := range gens {
		gs[i] = strconv.FormatUint(g, 10)
	}
	entries := strings.Join(parts, ",")
	if len(parts) == 0 {
		entries = "-"
	}
	line := "load|" + entries + "|" + strings.Join(gs, ",")

	path := filepath.Join(dir, "subnets.toml")
	if err := os.WriteFile(path, []byte(c14lFile(es, quoteAll)), 0o644); err != nil {
		t.Fatal(err)
	}
	tab0, sel0 := c14lLoad(path, gens)
	// the model's table has no "#<size>" field: it is the oracle's (a generation outside the probes)
	canon := tab0
	if i := strings.LastIndex(canon, " #"); i >= 0 {
		canon = canon[:i]
	}
	out.Case(line, canon, strings.HasPrefix(tab0, "tab"))
	if verbose {
		fmt.Println("REPLAY file      :\n" + c14lFile(es, quoteAll))
		fmt.Println("REPLAY model-line:", line)
		fmt.Println("REPLAY load 1    :", tab0, "|", sel0)
	}
	out.Checked()
	for i := 2; i <= c14lLoads; i++ {
		tab, sel := c14lLoad(path, gens)
		if tab != tab0 || sel != sel0 {
			if verbose {
				fmt.Printf("REPLAY load %-5d: %s | %s\n", i, tab, sel)
			}
			c14Fail(out, "C14:result-depends-on-load",
				fmt.Sprintf("the same subnet file (table keys %s) loaded into unused selectors: load 1 gives %s [%s], load %d gives %s [%s]",
					entries, tab0, strings.TrimSpace(sel0), i, tab, strings.TrimSpace(sel)), c14lReplayLine(es))
			return
		}
	}
}

func c14lKeyPool() []string {
	return []string{"0", "1", "2", "3", "5", "7", "12", "957", "4294967295", "4294967296", "9223372036854775807",
		"01", "001", "+1", "00", "-0", "+0", "02", "+2", "0957", "+957", "007",
		"-1", "-2", "-3", "-957", "-01", "-9223372036854775808",
		"x", "1x", "", " 1", "1 ", "0x1", "1_0", "1.0", "1e1", "९", "9223372036854775808", "-9223372036854775809", "+", "-", "+-1"}
}

func TestVerifC14Load(t *testing.T) {
	out := vlib.Open("C14load")
	defer out.Close()
	dir := t.TempDir()
	if rp := vlib.Replay(); rp != "" {
		b, err := os.ReadFile(rp)
		if err != nil {
			t.Fatal(err)
		}
		for _, line := range strings.Split(string(b), "\n") {
			f := strings.Split(line, "|")
			if f[0] != "C14LOAD" || len(f) != 2 {
				continue
			}
			var es []c14lEntry
			for _, p := range strings.Split(f[1], ",") {
				kv := strings.Split(p, ":")
				if len(kv) != 2 {
					continue
				}
				k, err := hex.DecodeString(kv[0])
				if err != nil {
					t.Fatal(err)
				}
				id, _ := strconv.Atoi(kv[1])
				es = append(es, c14lEntry{string(k), id})
			}
			c14lRun(t, out, dir, es, false, true)
		}
		return
	}
	r := vlib.NewRand("C14load")
	mk := func(keys ...string) []c14lEntry {
		es := make([]c14lEntry, len(keys))
		for i, k := range keys {
			es[i] = c14lEntry{k, i + 1}
		}
		return es
	}
	// 1. hand-written files
	for _, keys := range [][]string{
		{}, {"1"}, {"1", "957"}, {"0"}, {"0", "1", "2", "3"}, {"12", "5", "7"},
		{"1", "01"}, {"1", "+1"}, {"1", "01", "001"}, {"0", "-0"}, {"0", "00", "+0"}, {"957", "0957", "1"}, {"2", "1", "01"},
		{"-1"}, {"1", "-1"}, {"1", "5", "-1"}, {"-1", "-2"}, {"-2"}, {"1", "-2"}, {"-1", "-01", "3"}, {"0", "-9223372036854775808"},
		{"x"}, {"1", "x"}, {"1", "01", "x"}, {"1", ""}, {"1", "9223372036854775808"}, {"1", "0x1"}, {"1", " 1"},
		{"9223372036854775807", "1"}, {"9223372036854775807", "-1"}, {"4294967295", "4294967296"},
	} {
		c14lRun(t, out, dir, mk(keys...), false, false)
		c14lRun(t, out, dir, mk(keys...), true, false)
	}
	// 2. the checked-in files: oracle only (their configurations are not of the generated shape)
	for _, p := range []string{"test/phantom_subnets.toml", "test/phantom_subnets_update.toml", "../../docker/phantom_subnets.toml",
		"../../internal/test_assets/phantom_subnets.toml", "../../internal/test_assets/phantom_subnets_min.toml"} {
		if _, err := os.Stat(p); err != nil {
			out.Count("load-checked-in:missing")
			continue
		}
		out.Count("load-checked-in")
		out.Checked()
		gens := []uint64{0, 1, 2, 3, 957, 958}
		tab0, sel0 := c14lLoad(p, gens)
		for i := 2; i <= c14lLoads; i++ {
			if tab, sel := c14lLoad(p, gens); tab != tab0 || sel != sel0 {
				c14Fail(out, "C14:result-depends-on-load", fmt.Sprintf("%s: load 1 gives %s [%s], load %d gives %s [%s]", p, tab0, sel0, i, tab, sel), "C14LOADFILE|"+p)
				break
			}
		}
	}
	// 3. random files: 0-7 tables, keys mostly plain numbers, with spellings / negatives / junk mixed in
	pool := c14lKeyPool()
	n := vlib.Budget(400, 4000)
	for i := 0; i < n; i++ {
		cnt := r.Intn(8)
		used := map[string]bool{}
		var es []c14lEntry
		for len(es) < cnt {
			var k string
			switch {
			case r.Chance(3, 5):
				k = strconv.Itoa(r.Intn(9))
			case r.Chance(1, 2):
				k = pool[r.Intn(len(pool))]
			default:
				k = strings.Repeat("0", r.Intn(3)) + strconv.Itoa(r.Intn(9))
				if r.Chance(1, 4) {
					k = "-" + k
				}
			}
			if used[k] {
				continue
			}
			used[k] = true
			es = append(es, c14lEntry{k, len(es) + 1})
		}
		c14lRun(t, out, dir, es, r.Chance(1, 3), false)
	}
}
