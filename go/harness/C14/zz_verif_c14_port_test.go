//go:build verif

package lib

// C14, clause "destination-port randomisation is granted only if that subnet allows it", decided where the
// station decides it: the real (*RegistrationManager).getPhantomDstPort, for every registered transport
// (min, obfs4, prefix with every prefix id, DTLS), an unregistered type, and every kind of parameter object
// (nil interface, typed nil pointers, generic / prefix / DTLS parameters with the randomise request absent,
// on and off, an object of a foreign type), library versions 0-6 and 2^32-1, with and without the subnet's
// permission, several seeds.
//
// Correspondence: `dstport|<minVer>|<tp>|<ver>|<sr>` against CJ.PhantomPort.getPhantomDstPort, where <tp> is
// what the registered transport's own GetDstPort answers for the same arguments (called directly).
// Oracle (independent of the model): without the subnet's permission the port must not depend on the seed
// nor on the randomise request of the parameters; and repeating the call never changes the answer.

import (
	"encoding/hex"
	"fmt"
	"io"
	golog "log"
	"os"
	"strconv"
	"strings"
	"testing"

	"github.com/refraction-networking/conjure/internal/vlib"
	"github.com/refraction-networking/conjure/pkg/station/log"
	"github.com/refraction-networking/conjure/pkg/transports/connecting/dtls"
	"github.com/refraction-networking/conjure/pkg/transports/wrapping/min"
	"github.com/refraction-networking/conjure/pkg/transports/wrapping/obfs4"
	"github.com/refraction-networking/conjure/pkg/transports/wrapping/prefix"
	pb "github.com/refraction-networking/conjure/proto"
	"google.golang.org/protobuf/proto"
)

func c14pWorld(t testing.TB) *RegistrationManager {
	os.Setenv("PHANTOM_SUBNET_LOCATION", "./test/phantom_subnets.toml")
	rm := NewRegistrationManager(&RegConfig{})
	if rm == nil {
		t.Fatal("no registration manager")
	}
	rm.Logger = log.New(io.Discard, "", golog.Ldate)
	var priv [32]byte
	vlib.NewRand("C14port-station-key").Read(priv[:])
	pt, err := prefix.Default([][32]byte{priv})
	if err != nil {
		t.Fatal(err)
	}
	for tt, tr := range map[pb.TransportType]Transport{
		pb.TransportType_Min: min.Transport{}, pb.TransportType_Obfs4: obfs4.Transport{},
		pb.TransportType_Prefix: pt, pb.TransportType_DTLS: &dtls.Transport{},
	} {
		if err := rm.AddTransport(tt, tr); err != nil {
			t.Fatal(err)
		}
	}
	return rm
}

// parameter objects by spec: "nil" (nil interface), "gnil"/"pnil"/"dnil" (typed nil pointers), "g-|g0|g1",
// "p<id>,-|0|1", "d-|d0|d1", "str" (an object of a foreign type)
func c14pParams(spec string) (any, error) {
	flag := func(s string) (*bool, error) {
		switch s {
		case "-":
			return nil, nil
		case "0":
			return proto.Bool(false), nil
		case "1":
			return proto.Bool(true), nil
		}
		return nil, fmt.Errorf("bad flag %q", s)
	}
	switch {
	case spec == "nil":
		return nil, nil
	case spec == "gnil":
		return (*pb.GenericTransportParams)(nil), nil
	case spec == "pnil":
		return (*pb.PrefixTransportParams)(nil), nil
	case spec == "dnil":
		return (*pb.DTLSTransportParams)(nil), nil
	case spec == "str":
		return "randomize", nil
	case strings.HasPrefix(spec, "g"):
		f, err := flag(spec[1:])
		return &pb.GenericTransportParams{RandomizeDstPort: f}, err
	case strings.HasPrefix(spec, "d"):
		f, err := flag(spec[1:])
		return &pb.DTLSTransportParams{RandomizeDstPort: f}, err
	case strings.HasPrefix(spec, "p"):
		p := strings.Split(spec[1:], ",")
		if len(p) != 2 {
			return nil, fmt.Errorf("bad params %q", spec)
		}
		id, err := strconv.ParseInt(p[0], 10, 32)
		if err != nil {
			return nil, err
		}
		f, err := flag(p[1])
		return &pb.PrefixTransportParams{PrefixId: proto.Int32(int32(id)), RandomizeDstPort: f}, err
	}
	return nil, fmt.Errorf("bad params %q", spec)
}

// the same parameters with the opposite randomise request ("" if the spec carries none)
func c14pFlip(spec string) string {
	if len(spec) < 2 || strings.HasSuffix(spec, "nil") || spec == "str" {
		return ""
	}
	switch spec[len(spec)-1] {
	case '1':
		return spec[:len(spec)-1] + "0"
	case '0', '-':
		return spec[:len(spec)-1] + "1"
	}
	return ""
}

func c14pSpecs() []string {
	specs := []string{"nil", "gnil", "pnil", "dnil", "str", "g-", "g0", "g1", "d-", "d0", "d1"}
	for id := -2; id <= 12; id++ {
		for _, f := range []string{"-", "0", "1"} {
			specs = append(specs, fmt.Sprintf("p%d,%s", id, f))
		}
	}
	return specs
}

type c14pCase struct {
	tt   pb.TransportType
	spec string
	seed []byte
	ver  uint
	sr   bool
}

func (c *c14pCase) replay() string {
	return fmt.Sprintf("C14PORT|%d|%s|%s|%d|%s", int32(c.tt), c.spec, hex.EncodeToString(c.seed), c.ver, vlib.B(c.sr))
}

// the real decision, canonical
func c14pStation(rm *RegistrationManager, c *c14pCase, params any) (ans string) {
	defer func() {
		if p := recover(); p != nil {
			ans = "panic"
		}
	}()
	port, err := rm.getPhantomDstPort(c.tt, params, c.seed, c.ver, c.sr)
	switch {
	case err == nil:
		return fmt.Sprintf("port %d", port)
	case err.Error() == "unknown transport":
		return "err unknown-transport"
	}
	return "err transport"
}

// what the registered transport itself answers for these arguments
func c14pTransport(rm *RegistrationManager, c *c14pCase, params any) (ans string) {
	tr, ok := rm.registeredDecoys.transports[c.tt]
	if !ok {
		return "-"
	}
	defer func() {
		if p := recover(); p != nil {
			ans = "panic"
		}
	}()
	port, err := tr.GetDstPort(c.ver, c.seed, params)
	if err != nil {
		return "e"
	}
	return fmt.Sprintf("p%d", port)
}

var c14pFailN = map[string]int{}

func c14pFail(out *vlib.Out, sig, what, replay string) {
	c14pFailN[sig]++
	out.Count("oracle-fail:" + sig)
	if c14pFailN[sig] <= 6 {
		out.OracleFail(sig, what, replay)
	}
}

func c14pRun(t testing.TB, out *vlib.Out, rm *RegistrationManager, c c14pCase, verbose bool) {
	params, err := c14pParams(c.spec)
	if err != nil {
		t.Fatal(err)
	}
	got := c14pStation(rm, &c, params)
	tp := c14pTransport(rm, &c, params)
	out.Count("transport:" + strconv.Itoa(int(c.tt)))
	kind := c.spec
	if strings.HasPrefix(kind, "p") && kind != "pnil" {
		kind = "p*," + kind[len(kind)-1:]
	}
	out.Count("params:" + kind)
	out.Count("allowed:" + vlib.B(c.sr))
	out.Count("transport-answer:" + tp[:1])
	out.Count("answer:" + strings.SplitN(got, " ", 2)[0] + map[bool]string{true: "-443", false: ""}[got == "port 443"])
	if tp == "panic" || got == "panic" {
		out.Checked()
		c14pFail(out, "C14:dstport-panic", fmt.Sprintf("getPhantomDstPort %s / the transport's GetDstPort %s", got, tp), c.replay())
		return
	}
	line := fmt.Sprintf("dstport|%d|%s|%d|%s", randomizeDstPortMinVersion, tp, c.ver, vlib.B(c.sr))
	out.Case(line, got, got != "port 443")
	if verbose {
		fmt.Println("REPLAY case      :", c.replay())
		fmt.Println("REPLAY model-line:", line)
		fmt.Println("REPLAY transport :", tp)
		fmt.Println("REPLAY impl      :", got)
	}

	// purity: the same call again
	out.Checked()
	if again := c14pStation(rm, &c, params); again != got {
		c14pFail(out, "C14:dstport-repeat-differs", fmt.Sprintf("the same call answers %s, then %s", got, again), c.replay())
	}

	// the clause: without the subnet's permission neither the seed nor the randomise request of the
	// parameters may move the port
	if !c.sr {
		out.Checked()
		alt := c
		alt.seed = make([]byte, len(c.seed)+1)
		for i := range c.seed {
			alt.seed[i] = ^c.seed[i]
		}
		alt.seed[len(c.seed)] = 0x5a
		variants := []struct {
			what string
			c    c14pCase
			spec string
		}{{"another seed", alt, c.spec}}
		if f := c14pFlip(c.spec); f != "" {
			cf, af := c, alt
			cf.spec, af.spec = f, f
			variants = append(variants, struct {
				what string
				c    c14pCase
				spec string
			}{"the opposite randomise request", cf, f}, struct {
				what string
				c    c14pCase
				spec string
			}{"another seed and the opposite randomise request", af, f})
		}
		for _, v := range variants {
			vp, err := c14pParams(v.spec)
			if err != nil {
				t.Fatal(err)
			}
			vc := v.c
			other := c14pStation(rm, &vc, vp)
			if verbose {
				fmt.Printf("REPLAY %-48s: %s\n", v.what, other)
			}
			if strings.HasPrefix(got, "port ") && strings.HasPrefix(other, "port ") && other != got {
				c14pFail(out, "C14:dstport-randomised-without-subnet-permission",
					fmt.Sprintf("the phantom's subnet does not allow port randomisation, yet the station's port moves with %s: %s vs %s (transport %d, params %s, libver %d)",
						v.what, got, other, int32(c.tt), c.spec, c.ver), c.replay())
				break
			}
		}
	}
}

func c14pReplay(t *testing.T, out *vlib.Out, rm *RegistrationManager, path string) {
	b, err := os.ReadFile(path)
	if err != nil {
		t.Fatal(err)
	}
	for _, line := range strings.Split(string(b), "\n") {
		f := strings.Split(line, "|")
		if f[0] != "C14PORT" {
			continue
		}
		if len(f) != 6 {
			t.Fatalf("bad replay line %q", line)
		}
		tt, err := strconv.ParseInt(f[1], 10, 32)
		if err != nil {
			t.Fatal(err)
		}
		seed, err := hex.DecodeString(f[3])
		if err != nil {
			t.Fatal(err)
		}
		ver, err := strconv.ParseUint(f[4], 10, 64)
		if err != nil {
			t.Fatal(err)
		}
		c14pRun(t, out, rm, c14pCase{tt: pb.TransportType(tt), spec: f[2], seed: seed, ver: uint(ver), sr: f[5] == "1"}, true)
	}
}

func TestVerifC14Port(t *testing.T) {
	out := vlib.Open("C14port")
	defer out.Close()
	rm := c14pWorld(t)
	if rp := vlib.Replay(); rp != "" {
		c14pReplay(t, out, rm, rp)
		return
	}
	r := vlib.NewRand("C14port")
	types := []pb.TransportType{pb.TransportType_Min, pb.TransportType_Obfs4, pb.TransportType_Prefix, pb.TransportType_DTLS,
		pb.TransportType_Null, pb.TransportType(-1), pb.TransportType(99)}
	specs := c14pSpecs()
	vers := []uint{0, 1, 2, 3, 4, 5, 6, 4294967295}

	// 1. the whole grid, two fixed seeds and one drawn per cell
	fixed := [][]byte{make([]byte, 32), {}}
	for _, tt := range types {
		for _, spec := range specs {
			for _, ver := range vers {
				for _, sr := range []bool{false, true} {
					for _, s := range fixed {
						c14pRun(t, out, rm, c14pCase{tt: tt, spec: spec, seed: s, ver: ver, sr: sr}, false)
					}
					c14pRun(t, out, rm, c14pCase{tt: tt, spec: spec, seed: r.Bytes(r.Intn(41)), ver: ver, sr: sr}, false)
				}
			}
		}
	}

	// 2. random cells with random seeds (lengths 0-40), library versions of any size
	n := vlib.Budget(6000, 80000)
	for i := 0; i < n; i++ {
		ver := vers[r.Intn(len(vers))]
		if r.Chance(1, 4) {
			ver = uint(r.U64() >> uint(r.Intn(64)))
		}
		c14pRun(t, out, rm, c14pCase{tt: types[r.Intn(len(types))], spec: specs[r.Intn(len(specs))], seed: r.Bytes(r.Intn(41)),
			ver: ver, sr: r.Chance(2, 3) == false}, false)
	}
}
