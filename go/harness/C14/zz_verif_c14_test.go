//go:build verif

package phantoms

// Correspondence + property oracle for C14 (phantom selection is pure and stays inside the configured
// subnets).  White-box in package phantoms of the scratch copy.
//
// Every case is run through the real station entry (*PhantomIPSelector).Select, for library versions
// >= 2 also through the client entry SelectPhantom, for versions 0/1 also through the frozen clients in
// internal/compatability; the same case goes to the Lean driver (`phantom|…` lines).  The oracle is
// computed here with net.IPNet.Contains on the configured strings, independently of the model.

import (
	"bytes"
	crand "crypto/rand"
	"crypto/sha256"
	"encoding/binary"
	"encoding/hex"
	"errors"
	"fmt"
	"go/ast"
	"go/parser"
	"go/token"
	"math/big"
	mrand "math/rand"
	"net"
	"os"
	"sort"
	"strconv"
	"strings"
	"sync"
	"testing"

	wr "github.com/mroth/weightedrand"
	v0 "github.com/refraction-networking/conjure/internal/compatability/v0"
	v1 "github.com/refraction-networking/conjure/internal/compatability/v1"
	"github.com/refraction-networking/conjure/internal/vlib"
	"github.com/refraction-networking/conjure/pkg/core"
	pb "github.com/refraction-networking/conjure/proto"
	"golang.org/x/crypto/hkdf"
)

// ------------------------------------------------------------------------------------------------
// configurations (harness-side description, from which the real objects and the model line are built)

type c14Group struct {
	weight  uint32
	rp      bool
	nilSubs bool
	subnets []string
}

type c14Gen struct {
	nilCfg    bool // Networks[gen] == nil (RemoveGeneration)
	groupsNil bool // WeightedSubnets == nil
	groups    []c14Group
}

type c14Cfg struct {
	order []uint
	gens  map[uint]*c14Gen
}

type c14Case struct {
	side string // station | client | compat0 | compat1
	seed []byte
	gen  uint
	ver  uint
	v6   bool
	cfg  *c14Cfg
}

func (g *c14Gen) pbGroups() []*pb.PhantomSubnets {
	if g.groupsNil {
		return nil
	}
	out := make([]*pb.PhantomSubnets, 0, len(g.groups))
	for _, gr := range g.groups {
		gr := gr
		w := gr.weight
		rp := gr.rp
		ps := &pb.PhantomSubnets{Weight: &w, RandomizeDstPort: &rp}
		if !gr.nilSubs {
			ps.Subnets = append([]string{}, gr.subnets...)
		}
		out = append(out, ps)
	}
	return out
}

func (c *c14Cfg) selector() *PhantomIPSelector {
	sel := &PhantomIPSelector{Networks: map[uint]*SubnetConfig{}}
	for _, g := range c.order {
		gen := c.gens[g]
		if gen.nilCfg {
			sel.Networks[g] = nil
		} else {
			sel.Networks[g] = &SubnetConfig{WeightedSubnets: gen.pbGroups()}
		}
	}
	return sel
}

// text form used in replays: gens ';', groups '!', fields ',', subnets '+'
func (c *c14Cfg) text() string {
	var gs []string
	for _, g := range c.order {
		gen := c.gens[g]
		switch {
		case gen.nilCfg:
			gs = append(gs, fmt.Sprintf("%d=nil", g))
		case gen.groupsNil:
			gs = append(gs, fmt.Sprintf("%d=N", g))
		case len(gen.groups) == 0:
			gs = append(gs, fmt.Sprintf("%d=E", g))
		default:
			var grs []string
			for _, gr := range gen.groups {
				subs := "-"
				if len(gr.subnets) > 0 {
					subs = strings.Join(gr.subnets, "+")
				}
				grs = append(grs, fmt.Sprintf("%d,%s,%s,%s", gr.weight, vlib.B(gr.rp), vlib.B(gr.nilSubs), subs))
			}
			gs = append(gs, fmt.Sprintf("%d=%s", g, strings.Join(grs, "!")))
		}
	}
	if len(gs) == 0 {
		return "-"
	}
	return strings.Join(gs, ";")
}

func c14ParseCfg(s string) (*c14Cfg, error) {
	c := &c14Cfg{gens: map[uint]*c14Gen{}}
	if s == "-" {
		return c, nil
	}
	for _, g := range strings.Split(s, ";") {
		kv := strings.SplitN(g, "=", 2)
		if len(kv) != 2 {
			return nil, fmt.Errorf("bad generation %q", g)
		}
		n, err := strconv.ParseUint(kv[0], 10, 32)
		if err != nil {
			return nil, err
		}
		gen := &c14Gen{}
		switch kv[1] {
		case "nil":
			gen.nilCfg = true
		case "N":
			gen.groupsNil = true
		case "E":
		default:
			for _, grs := range strings.Split(kv[1], "!") {
				f := strings.SplitN(grs, ",", 4)
				if len(f) != 4 {
					return nil, fmt.Errorf("bad group %q", grs)
				}
				w, err := strconv.ParseUint(f[0], 10, 32)
				if err != nil {
					return nil, err
				}
				gr := c14Group{weight: uint32(w), rp: f[1] == "1", nilSubs: f[2] == "1"}
				if f[3] != "-" {
					gr.subnets = strings.Split(f[3], "+")
				}
				gen.groups = append(gen.groups, gr)
			}
		}
		c.order = append(c.order, uint(n))
		c.gens[uint(n)] = gen
	}
	return c, nil
}

// model form of one subnet string: what net.ParseCIDR returns (the model takes it as a parameter).
// The contract the theorems assume of ParseCIDR is checked here for every value handed over.
func c14ModelNet(t testing.TB, s string) string {
	_, n, err := net.ParseCIDR(s)
	if err != nil || n == nil {
		return "x"
	}
	isV4 := n.IP.To4() != nil
	var base big.Int
	if isV4 {
		base.SetBytes(n.IP.To4())
	} else {
		base.SetBytes(n.IP.To16())
	}
	ones, bits := n.Mask.Size()
	host := uint(bits - ones)
	okc := (bits == 32 || bits == 128) && ones >= 0 && ones <= bits
	if okc {
		var m big.Int
		m.Mod(&base, new(big.Int).Lsh(big.NewInt(1), host))
		okc = m.Sign() == 0
		if isV4 {
			okc = okc && base.BitLen() <= 32 && (bits == 32 || ones >= 96)
		} else {
			okc = okc && bits == 128 && base.BitLen() <= 128
		}
	}
	if !okc {
		t.Fatalf("net.ParseCIDR(%q) = %v violates the contract assumed by the model", s, n)
	}
	f := "6"
	if isV4 {
		f = "4"
	}
	return fmt.Sprintf("%s.%s.%d.%d", f, base.String(), ones, bits)
}

func (c *c14Cfg) modelText(t testing.TB) string {
	var gs []string
	for _, g := range c.order {
		gen := c.gens[g]
		switch {
		case gen.nilCfg:
			gs = append(gs, fmt.Sprintf("%d=nil", g))
		case gen.groupsNil:
			gs = append(gs, fmt.Sprintf("%d=N", g))
		case len(gen.groups) == 0:
			gs = append(gs, fmt.Sprintf("%d=E", g))
		default:
			var grs []string
			for _, gr := range gen.groups {
				subs := "-"
				if len(gr.subnets) > 0 {
					var ns []string
					for _, s := range gr.subnets {
						ns = append(ns, c14ModelNet(t, s))
					}
					subs = strings.Join(ns, "+")
				}
				grs = append(grs, fmt.Sprintf("%d,%s,%s,%s", gr.weight, vlib.B(gr.rp), vlib.B(gr.nilSubs), subs))
			}
			gs = append(gs, fmt.Sprintf("%d=%s", g, strings.Join(grs, "/")))
		}
	}
	if len(gs) == 0 {
		return "-"
	}
	return strings.Join(gs, ";")
}

// draws of the real math/rand generator, each the first draw after seeding (a local generator gives
// the same values as the global one after rand.Seed).
func c14Draws(seed []byte, gen *c14Gen) string {
	seedInt, n := binary.Varint(seed)
	if n == 0 || gen == nil {
		return "-"
	}
	totals := map[int]bool{}
	all, nonNil := 0, 0
	for _, g := range gen.groups {
		all += int(g.weight)
		if !g.nilSubs {
			nonNil += int(g.weight)
		}
	}
	var pairs []string
	for _, m := range []int{all, nonNil} {
		if m > 0 && !totals[m] {
			totals[m] = true
			pairs = append(pairs, fmt.Sprintf("%d:%d", m, mrand.New(mrand.NewSource(seedInt)).Intn(m)))
		}
	}
	r4 := make([]byte, 4)
	r16 := make([]byte, 16)
	mrand.New(mrand.NewSource(seedInt)).Read(r4)
	mrand.New(mrand.NewSource(seedInt)).Read(r16)
	return fmt.Sprintf("%d;%s;%s;%s", seedInt, strings.Join(pairs, ","), hex.EncodeToString(r4), hex.EncodeToString(r16))
}

// c14Fail reports an oracle failure; at most 6 per signature, so that every distinct signature
// reaches the (globally capped) oracle file.
var c14FailMu sync.Mutex
var c14FailN = map[string]int{}

func c14Fail(out *vlib.Out, sig, what, replay string) {
	c14FailMu.Lock()
	c14FailN[sig]++
	n := c14FailN[sig]
	c14FailMu.Unlock()
	out.Count("oracle-fail:" + sig)
	if n <= 6 {
		out.OracleFail(sig, what, replay)
	}
}

// ------------------------------------------------------------------------------------------------
// canonical answers

func c14ErrKind(err error) string {
	s := err.Error()
	switch {
	case errors.Is(err, ErrLegacyV0SelectionBug), errors.Is(err, v0.ErrorV0SelectionBug):
		return "v0Bug"
	case errors.Is(err, ErrMissingAddrs):
		return "noAddrs"
	case errors.Is(err, ErrLegacyMissingAddrs):
		return "v0NoAddrs"
	case errors.Is(err, ErrLegacyAddrSelectBug):
		return "legacyNoAddrs"
	case strings.Contains(s, "generation number not recognized"):
		return "unknownGen"
	case strings.Contains(s, "failed to seed random for weighted rand"):
		return "varint"
	case strings.Contains(s, "zero Choices with Weight"):
		return "noChoices"
	case strings.Contains(s, "exceeds max int"):
		return "weightOverflow"
	case strings.Contains(s, "no subnets provided"):
		return "emptyGroup"
	case strings.Contains(s, "invalid CIDR address"):
		return "parse"
	case strings.Contains(s, "entropy limit"):
		return "entropy"
	case strings.Contains(s, "No valid addresses specified"):
		return "v0NoAddrs"
	case strings.Contains(s, "no valid addresses specified"):
		return "legacyNoAddrs"
	case strings.Contains(s, "nil result should not be possible"):
		return "nilResult"
	case strings.Contains(s, "offset too big"):
		return "offsetTooBig"
	case strings.Contains(s, "failed to create seed"), strings.Contains(s, "Failed to chose IP address"), strings.Contains(s, "failed to chose IP address: EOF"), strings.Contains(s, "failed to chose IP address: unexpected EOF"), strings.Contains(s, "overflows a 64-bit integer"):
		return "seedFail"
	case strings.Contains(s, "out of range for its IP version"):
		return "addrRange"
	case strings.Contains(s, "weight"):
		return "zeroWeight"
	}
	return "other:" + s
}

type c14Res struct {
	kind  string // ok | err | panic
	ip    net.IP
	rp    bool
	hasRP bool
	err   string
}

func (r c14Res) String() string {
	switch r.kind {
	case "ok":
		rp := "-"
		if r.hasRP {
			rp = vlib.B(r.rp)
		}
		return fmt.Sprintf("ok %s %s", vlib.Hex(r.ip), rp)
	case "err":
		return "err " + r.err
	}
	return "panic"
}

func c14Station(sel *PhantomIPSelector, c *c14Case) (res c14Res) {
	defer func() {
		if p := recover(); p != nil {
			res = c14Res{kind: "panic", err: fmt.Sprint(p)}
		}
	}()
	ph, err := sel.Select(c.seed, c.gen, c.ver, c.v6)
	if err != nil {
		return c14Res{kind: "err", err: c14ErrKind(err)}
	}
	return c14Res{kind: "ok", ip: *ph.IP(), rp: ph.SupportRandomPort(), hasRP: true}
}

func c14Client(c *c14Case) (res c14Res) {
	defer func() {
		if p := recover(); p != nil {
			res = c14Res{kind: "panic", err: fmt.Sprint(p)}
		}
	}()
	list := &pb.PhantomSubnetsList{WeightedSubnets: c.cfg.gens[c.gen].pbGroups()}
	f := V4Only
	if c.v6 {
		f = V6Only
	}
	ph, err := SelectPhantom(c.seed, list, f, true)
	if err != nil {
		return c14Res{kind: "err", err: c14ErrKind(err)}
	}
	return c14Res{kind: "ok", ip: *ph.IP(), rp: ph.SupportRandomPort(), hasRP: true}
}

func c14Compat(c *c14Case) (res c14Res) {
	defer func() {
		if p := recover(); p != nil {
			res = c14Res{kind: "panic", err: fmt.Sprint(p)}
		}
	}()
	list := &pb.PhantomSubnetsList{WeightedSubnets: c.cfg.gens[c.gen].pbGroups()}
	var ip *net.IP
	var err error
	if c.side == "compat0" {
		f := v0.V4Only
		if c.v6 {
			f = v0.V6Only
		}
		ip, err = v0.SelectPhantom(c.seed, list, f, true)
	} else {
		f := v1.V4Only
		if c.v6 {
			f = v1.V6Only
		}
		ip, err = v1.SelectPhantom(c.seed, list, f, true)
	}
	if err != nil {
		return c14Res{kind: "err", err: c14ErrKind(err)}
	}
	return c14Res{kind: "ok", ip: *ip}
}

// ------------------------------------------------------------------------------------------------
// the property oracle (independent of the model)

// c14Contained: ip is a well-formed address of the requested family inside a configured, parsable
// subnet of that family in the generation; randPort may only be granted by such a subnet.
func c14Oracle(c *c14Case, r c14Res) (sig, what string) {
	switch r.kind {
	case "panic":
		if strings.Contains(r.err, "argument to Int is <= 0") {
			return "C14:panic-zero-weight", "selection panics (" + r.err + ") instead of returning an error"
		}
		return "C14:panic", "selection panics: " + r.err
	case "err":
		if strings.HasPrefix(r.err, "other:") {
			return "", "" // still an error, which the property allows; the correspondence check sees the text
		}
		return "", ""
	}
	ip := r.ip
	if len(ip) != net.IPv4len && len(ip) != net.IPv6len {
		return "C14:malformed-address-length", fmt.Sprintf("result has %d bytes (%x), not a well-formed address", len(ip), []byte(ip))
	}
	// family = the encoding: 4 bytes for an IPv4 request, 16 bytes for an IPv6 request
	if (len(ip) == net.IPv6len) != c.v6 {
		return "C14:wrong-family", fmt.Sprintf("requested v6=%v, got %d bytes (%v)", c.v6, len(ip), ip)
	}
	gen := c.cfg.gens[c.gen]
	inside, rpAllowed := false, false
	if gen != nil {
		for _, g := range gen.groups {
			for _, s := range g.subnets {
				_, n, err := net.ParseCIDR(s)
				if err != nil {
					continue
				}
				if c14NetContains(n, ip) {
					inside = true
					if g.rp {
						rpAllowed = true
					}
				}
			}
		}
	}
	if !inside {
		return "C14:outside-subnets", fmt.Sprintf("%v is in no configured subnet of its family in generation %d", ip, c.gen)
	}
	// "that subnet": the phantom is taken from the subnet set that the published weighted choice of
	// this library version picks for the seed (recomputed here, independently of the code under
	// test).  A containing subnet of *another* set that happens to allow port randomisation does not
	// make the flag right: the set the phantom was selected from must allow it.
	if pg, ok := c14PickedGroup(c, gen); ok {
		in := false
		for _, s := range pg.subnets {
			if _, n, err := net.ParseCIDR(s); err == nil && c14NetContains(n, ip) {
				in = true
			}
		}
		if in {
			rpAllowed = pg.rp
		}
	}
	if r.hasRP && r.rp && !rpAllowed {
		return "C14:randport-not-allowed", fmt.Sprintf("%v grants port randomisation, the subnet set it was selected from does not allow it", ip)
	}
	if c.v6 && ip.To4() != nil && !c14MappedConfigured(gen) {
		return "C14:wrong-family", fmt.Sprintf("IPv6 requested, got the IPv4-mapped address %v although no configured IPv6 subnet reaches into ::ffff:0:0/96", ip)
	}
	return "", ""
}

// c14MappedConfigured: some configured IPv6 subnet of the generation intersects ::ffff:0:0/96 (then
// 16-byte addresses that Go treats as IPv4 are members of a configured IPv6 subnet: the operator
// asked for them).
func c14MappedConfigured(gen *c14Gen) bool {
	lo := new(big.Int).Lsh(big.NewInt(0xffff), 32)
	hi := new(big.Int).Lsh(big.NewInt(0x10000), 32)
	for _, g := range gen.groups {
		for _, s := range g.subnets {
			_, n, err := net.ParseCIDR(s)
			if err != nil || n.IP.To4() != nil {
				continue
			}
			ones, bits := n.Mask.Size()
			var base, end big.Int
			base.SetBytes(n.IP.To16())
			end.Add(&base, new(big.Int).Lsh(big.NewInt(1), uint(bits-ones)))
			if base.Cmp(hi) < 0 && end.Cmp(lo) > 0 {
				return true
			}
		}
	}
	return false
}

// c14PickedGroup recomputes, from the published algorithms and independently of pkg/phantoms, which
// weighted subnet set a selection takes its phantom from:
//   - library versions >= 2: sets whose subnet list is not nil, sorted by ascending weight (stable),
//     r = rand.Int(HKDF-SHA256(seed, info "phantom-select-subnet"), total weight), subtract the weights
//     until r < 0;
//   - versions 0/1: github.com/mroth/weightedrand over all sets with a math/rand generator seeded by
//     Varint(seed).
//
// ok = false when the choice cannot be made (no weight, unusable seed, reader exhausted): selection
// then fails and there is no flag to judge.
func c14PickedGroup(c *c14Case, gen *c14Gen) (pg *c14Group, ok bool) {
	if gen == nil || gen.nilCfg || gen.groupsNil || len(gen.groups) > 11 {
		return nil, false
	}
	defer func() {
		if recover() != nil {
			pg, ok = nil, false
		}
	}()
	if c.ver >= 2 {
		var idx []int
		tot := int64(0)
		for i, g := range gen.groups {
			if !g.nilSubs {
				idx = append(idx, i)
				tot += int64(g.weight)
			}
		}
		if tot <= 0 {
			return nil, false
		}
		sort.SliceStable(idx, func(a, b int) bool { return gen.groups[idx[a]].weight < gen.groups[idx[b]].weight })
		rnd, err := crand.Int(hkdf.New(sha256.New, c.seed, nil, []byte("phantom-select-subnet")), big.NewInt(tot))
		if err != nil {
			return nil, false
		}
		v := rnd.Int64()
		for _, i := range idx {
			v -= int64(gen.groups[i].weight)
			if v < 0 {
				return &gen.groups[i], true
			}
		}
		return nil, false
	}
	seedInt, n := binary.Varint(c.seed)
	if n == 0 {
		return nil, false
	}
	choices := make([]wr.Choice, 0, len(gen.groups))
	for i := range gen.groups {
		choices = append(choices, wr.Choice{Item: i, Weight: uint(gen.groups[i].weight)})
	}
	ch, err := wr.NewChooser(choices...)
	if err != nil {
		return nil, false
	}
	return &gen.groups[ch.PickSource(mrand.New(mrand.NewSource(seedInt))).(int)], true
}

// c14NetContains: ip (4 or 16 bytes) lies in the network n of the same family, by plain arithmetic on
// the configured network: base <= ip < base + 2^(hostbits).  (An IPv6 network that overlaps
// ::ffff:0:0/96 contains 16-byte addresses that Go prints in dotted form and IPNet.Contains refuses
// to compare; they are members of that IPv6 network all the same.)  Cross-checked with
// IPNet.Contains wherever that is applicable.
func c14NetContains(n *net.IPNet, ip net.IP) bool {
	nb := n.IP.To4()
	if nb == nil {
		nb = n.IP.To16()
	}
	if len(nb) != len(ip) {
		return false
	}
	ones, bits := n.Mask.Size()
	var base, v, end big.Int
	base.SetBytes(nb)
	v.SetBytes(ip)
	end.Add(&base, new(big.Int).Lsh(big.NewInt(1), uint(bits-ones)))
	in := base.Cmp(&v) <= 0 && v.Cmp(&end) < 0
	if len(ip) == net.IPv4len || ip.To4() == nil {
		if n.Contains(ip) != in {
			panic(fmt.Sprintf("harness: containment of %v in %v: arithmetic %v, IPNet.Contains %v", ip, n, in, n.Contains(ip)))
		}
	}
	return in
}

func (c *c14Case) replay() string {
	return fmt.Sprintf("C14CASE|%s|%s|%d|%d|%s|%s", c.side, vlib.Hex(c.seed), c.gen, c.ver, vlib.B(c.v6), c.cfg.text())
}

func (c *c14Case) modelLine(t testing.TB) string {
	cfgText := c.cfg.modelText(t)
	if c.side != "station" {
		// the client entry points take one subnet list: only that generation goes to the model
		one := &c14Cfg{order: []uint{c.gen}, gens: map[uint]*c14Gen{c.gen: c.cfg.gens[c.gen]}}
		cfgText = one.modelText(t)
	}
	draws := "-"
	if c.side != "client" && (c.ver < 2 || c.side != "station") {
		draws = c14Draws(c.seed, c.cfg.gens[c.gen])
	}
	return fmt.Sprintf("phantom|%s|%s|%d|%d|%s|%s|%s", c.side, vlib.Hex(c.seed), c.gen, c.ver, vlib.B(c.v6), cfgText, draws)
}

// c14Hist is a long-lived selector of one configuration together with the selections it has served.
type c14Hist struct {
	cfg  *c14Cfg
	sel  *PhantomIPSelector
	done []c14Case
}

func c14NewHist(cfg *c14Cfg) *c14Hist { return &c14Hist{cfg: cfg, sel: cfg.selector()} }

func c14SeqEntry(c *c14Case) string {
	return fmt.Sprintf("%s,%d,%d,%s", vlib.Hex(c.seed), c.gen, c.ver, vlib.B(c.v6))
}

// c14SeqReplay: a configuration and the selections to make, in order, on one selector
func c14SeqReplay(cfg *c14Cfg, cs []c14Case) string {
	var es []string
	for i := range cs {
		es = append(es, c14SeqEntry(&cs[i]))
	}
	return fmt.Sprintf("C14SEQ|%s|%s", cfg.text(), strings.Join(es, ";"))
}

// sameAnswer compares two answers of entry points that must agree; the text of an error the harness
// has no name for is not compared (an error is an error).
func c14Same(a, b c14Res) bool {
	an, bn := a.String(), b.String()
	if a.kind == "err" && b.kind == "err" && strings.HasPrefix(a.err, "other:") && strings.HasPrefix(b.err, "other:") {
		return true
	}
	return an == bn
}

// c14Run runs one (seed, generation, version, family, configuration) through every applicable entry
// point, records the correspondence cases and evaluates the oracle.  hist (may be nil) is a selector
// that has already served other selections of the same configuration: its answer must be the one a
// selector that has never been used gives.
func c14Run(t testing.TB, out *vlib.Out, c c14Case, hist *c14Hist) {
	sel := c.cfg.selector()
	c.side = "station"
	r := c14Station(sel, &c)
	out.Case(c.modelLine(t), r.String(), r.kind == "ok")
	out.Count("station:v" + fmt.Sprint(minU(c.ver, 2)) + ":" + r.kind + ":" + r.err)
	out.Checked()
	if sig, what := c14Oracle(&c, r); sig != "" {
		c14Fail(out, sig, what, c.replay())
	}
	// purity: the same inputs again, on the same selector and on a fresh one
	out.Checked()
	if r2, r3 := c14Station(sel, &c), c14Station(c.cfg.selector(), &c); r2.String() != r.String() || r3.String() != r.String() {
		c14Fail(out, "C14:repeat-differs", fmt.Sprintf("repeating the selection changed the result: %s / %s / %s", r, r2, r3), c.replay())
	}
	// no hidden state: a selector that served other seeds / generations / versions / families before
	if hist != nil {
		out.Checked()
		rh := c14Station(hist.sel, &c)
		if rh.String() != r.String() {
			// look for a single earlier selection that is enough to change the answer
			rep := ""
			for i := range hist.done {
				s2 := hist.cfg.selector()
				c14Station(s2, &hist.done[i])
				if c14Station(s2, &c).String() != r.String() {
					rep = c14SeqReplay(hist.cfg, []c14Case{hist.done[i], c})
					break
				}
			}
			if rep == "" {
				h := hist.done
				if len(h) > 400 {
					h = h[len(h)-400:]
				}
				rep = c14SeqReplay(hist.cfg, append(append([]c14Case{}, h...), c))
			}
			c14Fail(out, "C14:result-depends-on-earlier-selections",
				fmt.Sprintf("a selector that has served %d earlier selections answers %s, an unused selector %s", len(hist.done), rh, r), rep)
		} else if sig, what := c14Oracle(&c, rh); sig != "" {
			c14Fail(out, sig, what, c.replay())
		}
		hist.done = append(hist.done, c)
	}
	gen := c.cfg.gens[c.gen]
	if gen == nil || gen.nilCfg {
		return
	}
	if c.ver >= 2 {
		c.side = "client"
		rc := c14Client(&c)
		out.Case(c.modelLine(t), rc.String(), rc.kind == "ok")
		out.Count("client:" + rc.kind + ":" + rc.err)
		out.Checked()
		if sig, what := c14Oracle(&c, rc); sig != "" {
			c14Fail(out, sig, "client entry SelectPhantom: "+what, c.replay())
		}
		out.Checked()
		if !c14Same(rc, r) {
			c14Fail(out, "C14:station-client-differ", fmt.Sprintf("Select gives %s, SelectPhantom gives %s", r, rc), c.replay())
		}
		return
	}
	c.side = "compat" + fmt.Sprint(c.ver)
	rc := c14Compat(&c)
	out.Case(c.modelLine(t), rc.String(), rc.kind == "ok")
	out.Count(c.side + ":" + rc.kind + ":" + rc.err)
	// a frozen client that derives a well-formed address must find the station on exactly that address
	if rc.kind == "ok" && (len(rc.ip) == 4 || len(rc.ip) == 16) && !c14HasNilGroup(gen) {
		out.Checked()
		if r.kind != "ok" || !bytes.Equal(r.ip, rc.ip) {
			c14Fail(out, "C14:station-compat-differ", fmt.Sprintf("frozen v%d client derives %v, station gives %s", c.ver, rc.ip, r), c.replay())
		}
	}
}

// c14CrossGeneration: the same CIDR string written in two generations, or in two weighted sets of one
// generation, with different RandomizeDstPort settings; selections for one are made before selections
// for the other, in both orders, in this one process.  The flag of every result must be the one of
// the set the phantom was taken from in the *requested* generation, whatever was selected before.
// Every sub-case uses CIDR strings that nothing else in this process uses, so a replay
// (`C14SEQ|…`) needs nothing but its own lines.
func c14CrossGeneration(t testing.TB, out *vlib.Out, r *vlib.Rand) {
	k := 0
	fresh := func() (string, string) {
		k++
		return fmt.Sprintf("10.%d.%d.0/24", 64+k/256, k%256), fmt.Sprintf("2001:db8:%x::/64", 0x4000+k)
	}
	for _, firstRP := range []bool{false, true} {
		for ver := uint(0); ver <= 4; ver++ {
			for _, v6 := range []bool{false, true} {
				for shape := 0; shape < 2; shape++ {
					n4, n6 := fresh()
					var cfg *c14Cfg
					var gens []uint
					if shape == 0 { // two generations
						cfg = &c14Cfg{order: []uint{1, 957}, gens: map[uint]*c14Gen{
							1:   {groups: []c14Group{{weight: 9, rp: firstRP, subnets: []string{n4, n6}}}},
							957: {groups: []c14Group{{weight: 9, rp: !firstRP, subnets: []string{n4, n6}}}}}}
						gens = []uint{1, 957, 1}
					} else { // two sets of one generation, equal weights: both are picked by some seeds
						cfg = &c14Cfg{order: []uint{3}, gens: map[uint]*c14Gen{
							3: {groups: []c14Group{{weight: 1, rp: firstRP, subnets: []string{n4, n6}}, {weight: 1, rp: !firstRP, subnets: []string{n4, n6}}}}}}
						gens = []uint{3, 3, 3, 3, 3, 3, 3, 3}
					}
					sel := cfg.selector()
					var seq []c14Case
					for _, g := range gens {
						c := c14Case{side: "station", seed: r.Bytes(16), gen: g, ver: ver, v6: v6, cfg: cfg}
						seq = append(seq, c)
						res := c14Station(sel, &c)
						out.Checked()
						out.Count("cross-generation:" + res.kind)
						if sig, what := c14Oracle(&c, res); sig != "" {
							c14Fail(out, sig, fmt.Sprintf("after %d earlier selection(s) on a configuration that lists the same CIDR with another setting: %s", len(seq)-1, what), c14SeqReplay(cfg, seq))
						}
					}
				}
			}
		}
	}
}

func c14HasNilGroup(g *c14Gen) bool {
	for _, gr := range g.groups {
		if gr.nilSubs {
			return true
		}
	}
	return false
}

func minU(a, b uint) uint {
	if a < b {
		return a
	}
	return b
}

// ------------------------------------------------------------------------------------------------
// generators

var c14V4Nets = []string{
	"192.122.190.0/24", "141.219.0.0/16", "35.8.0.0/16", "10.0.0.0/31", "10.0.0.7/32", "10.1.0.0/30", "10.1.0.0/29",
	"0.1.2.0/24", "0.0.0.0/8", "0.0.0.0/0", "0.0.1.0/30", "0.0.0.8/29", "255.255.255.252/30", "255.255.255.255/32",
	"128.0.0.0/1", "203.0.113.64/26", "192.122.190.0/25", "192.122.190.128/25", "192.122.190.77/24", "1.2.3.4/32", "0.0.0.0/32",
	"::ffff:1.2.3.0/120", "::ffff:0.1.2.0/126", "::ffff:9.9.9.9/128",
}
var c14V6Nets = []string{
	"2001:48a8:687f:1::/64", "2002::/16", "64:ff9b::/96", "::/0", "::/127", "::/128", "::1/128", "0:1::/32", "2001:db8::/126",
	"2001:db8::8/125", "2001:db8::1/128", "ffff:ffff:ffff:ffff:ffff:ffff:ffff:fffc/126", "fe80::/10", "8000::/1", "::100/120", "0:0:0:1::/64",
	"2001:db8:0:1::/64", "2001:db8::/32", "::ffff:0:0/95",
}
var c14BadNets = []string{"bogus", "1.2.3.4", "1.2.3.0/33", "300.1.1.0/24", "::/129", "2001:db8::", "10.0.0.0/-1", "10.0.0.0/8/8"}
var c14Weights = []uint32{0, 0, 1, 1, 1, 2, 3, 9, 10, 100, 4294967295}

func c14RandNet(r *vlib.Rand) string {
	switch {
	case r.Chance(1, 40):
		return c14BadNets[r.Intn(len(c14BadNets))]
	case r.Chance(1, 3):
		return c14V4Nets[r.Intn(len(c14V4Nets))]
	case r.Chance(1, 2):
		return c14V6Nets[r.Intn(len(c14V6Nets))]
	case r.Bool():
		ones := r.Intn(33)
		b := r.Bytes(4)
		if r.Chance(1, 3) {
			b[0] = 0
		}
		return fmt.Sprintf("%s/%d", net.IP(b).String(), ones)
	default:
		ones := r.Intn(129)
		if r.Chance(1, 2) {
			ones = 96 + r.Intn(33)
		}
		b := r.Bytes(16)
		if r.Chance(1, 3) {
			b[0], b[1] = 0, 0
		}
		return fmt.Sprintf("%s/%d", net.IP(b).String(), ones)
	}
}

func c14RandGen(r *vlib.Rand) *c14Gen {
	g := &c14Gen{}
	switch {
	case r.Chance(1, 60):
		g.nilCfg = true
		return g
	case r.Chance(1, 60):
		g.groupsNil = true
		return g
	case r.Chance(1, 60):
		return g
	}
	n := 1 + r.Intn(5)
	if r.Chance(1, 30) {
		n = 6 + r.Intn(6) // up to 11 groups: still an insertion sort in sort.Slice
	}
	equal := r.Chance(1, 5)
	ew := c14Weights[r.Intn(len(c14Weights))]
	for i := 0; i < n; i++ {
		gr := c14Group{weight: c14Weights[r.Intn(len(c14Weights))], rp: r.Bool()}
		if equal {
			gr.weight = ew
		}
		switch {
		case r.Chance(1, 40):
			gr.nilSubs = true
		case r.Chance(1, 40):
			gr.subnets = []string{}
		default:
			k := 1 + r.Intn(4)
			for j := 0; j < k; j++ {
				gr.subnets = append(gr.subnets, c14RandNet(r))
			}
			if r.Chance(1, 10) { // duplicate / overlapping subnet
				gr.subnets = append(gr.subnets, gr.subnets[0])
			}
		}
		g.groups = append(g.groups, gr)
	}
	return g
}

func c14RandCfg(r *vlib.Rand) *c14Cfg {
	c := &c14Cfg{gens: map[uint]*c14Gen{}}
	n := 1 + r.Intn(3)
	for i := 0; i < n; i++ {
		g := uint(1 + r.Intn(6))
		if r.Chance(1, 20) {
			g = uint(r.Intn(2000))
		}
		if _, dup := c.gens[g]; dup {
			continue
		}
		c.order = append(c.order, g)
		c.gens[g] = c14RandGen(r)
	}
	return c
}

// library versions: 0-4 exist; later ones (and nonsense values) take the newest path
func c14RandVer(r *vlib.Rand) uint {
	switch {
	case r.Chance(1, 25):
		return uint(5 + r.Intn(5))
	case r.Chance(1, 100):
		return []uint{255, 65536, 4294967295}[r.Intn(3)]
	}
	return uint(r.Intn(5))
}

func c14RandSeed(r *vlib.Rand) []byte {
	switch {
	case r.Chance(1, 50):
		return []byte{}
	case r.Chance(1, 50):
		return r.Bytes(1 + r.Intn(40))
	case r.Chance(1, 40): // varint overflow / too short: continuation bits everywhere
		b := r.Bytes(16)
		for i := 0; i < 10; i++ {
			b[i] |= 0x80
		}
		if r.Bool() {
			return b[:1+r.Intn(9)]
		}
		return b
	case r.Chance(1, 40): // nine continuation bytes, then the boundary byte
		b := r.Bytes(16)
		for i := 0; i < 9; i++ {
			b[i] |= 0x80
		}
		b[9] = byte(r.Intn(4))
		return b
	case r.Chance(1, 30): // tiny numeric value: id 0, 1, … for the legacy selectors
		b := make([]byte, 16)
		b[15] = byte(r.Intn(6))
		if r.Bool() {
			b[0] = byte(r.Intn(3)) // varint n == 1
		}
		return b
	case r.Chance(1, 10):
		return r.Bytes(32)
	}
	return r.Bytes(16)
}

func c14Corpus() []*c14Cfg {
	mk := func(s string) *c14Cfg {
		c, err := c14ParseCfg(s)
		if err != nil {
			panic(err)
		}
		return c
	}
	return []*c14Cfg{
		mk("1=9,0,0,192.122.190.0/24+2001:48a8:687f:1::/64!1,0,0,141.219.0.0/16+35.8.0.0/16"),
		mk("1=9,1,0,192.122.190.0/24+10.0.0.0/31+2001:48a8:687f:1::/64!1,0,0,141.219.0.0/16+35.8.0.0/16;2=1,1,0,2002::/64"),
		mk("1=1,0,0,0.1.2.0/24+64:ff9b::/96"),                                                         // leading-zero networks
		mk("1=1,1,0,0.0.0.0/0+::/0"),                                                                  // everything
		mk("1=1,0,0,0.0.0.0/32+::/128"),                                                               // the zero address only
		mk("1=1,0,0,10.0.0.7/32+2001:db8::1/128"),                                                     // one-address subnets
		mk("1=1,0,0,10.0.0.7/32+10.0.0.8/32+10.0.0.9/32"),                                             // several one-address subnets
		mk("1=0,0,0,10.1.0.0/30+2001:db8::/126"),                                                      // zero weight
		mk("1=0,0,0,10.1.0.0/30!0,1,0,10.2.0.0/30+2001:db8::/126"),                                    // all weights zero
		mk("1=5,0,0,10.1.0.0/30+2001:db8::/126!5,1,0,10.2.0.0/30+2001:db8:1::/126!5,0,0,10.3.0.0/30"), // equal weights
		mk("1=1,0,0,10.1.0.0/29+10.1.0.0/30+10.1.0.0/29!1,1,0,10.1.0.4/30"),                           // overlapping / duplicate, flags differ
		mk("1=1,0,1,-!3,0,0,10.1.0.0/30+2001:db8::/126"),                                              // a group with nil subnets
		mk("1=1,0,0,-!3,0,0,10.1.0.0/30"),                                                             // a group with an empty list
		mk("1=1,0,0,bogus+10.1.0.0/30"),                                                               // unparsable entry
		mk("1=1,0,0,::ffff:1.2.3.0/120+::ffff:9.9.9.9/128+2001:db8::/126"),                            // IPv4-mapped notation
		mk("1=E"), mk("1=N"), mk("1=nil"), mk("-"),
		mk("1=4294967295,0,0,10.1.0.0/30!4294967295,1,0,10.2.0.0/30+2001:db8::/126"), // large weights
		mk("1=1,0,0,255.255.255.252/30+ffff:ffff:ffff:ffff:ffff:ffff:ffff:fffc/126"), // top of the address space
		mk("1=2,1,0,10.1.0.0/30;7=1,0,0,10.7.0.0/30;1000=1,0,0,2001:db8:7::/126"),
		// subnets written with host bits set (net.ParseCIDR masks them): phantoms must stay inside the network
		mk("1=1,0,0,192.122.190.77/24+2001:db8:0:1::a5/120!1,1,0,10.9.8.255/30+2001:db8::ffff/112"),
		mk("1=1,1,0,255.255.255.255/24+ffff:ffff:ffff:ffff:ffff:ffff:ffff:ffff/120"), // host bits at the top of the address space
		// the same CIDRs in two generations / two sets with different port-randomisation settings (as in the checked-in
		// phantom_subnets.toml: generations 1 and 957)
		mk("1=9,0,0,192.122.190.0/24+2001:48a8:687f:1::/64!1,0,0,141.219.0.0/16+35.8.0.0/16;957=9,1,0,192.122.190.0/24+2001:48a8:687f:1::/64!1,1,0,141.219.0.0/16+35.8.0.0/16"),
		mk("5=1,1,0,10.5.0.0/28+2001:db8:5::/124;6=1,0,0,10.5.0.0/28+2001:db8:5::/124;7=1,0,0,10.5.0.0/28+2001:db8:5::/124!1,1,0,10.5.0.0/28+2001:db8:5::/124"),
	}
}

// ------------------------------------------------------------------------------------------------

func TestVerifC14(t *testing.T) {
	out := vlib.Open("C14")
	defer out.Close()
	if rp := vlib.Replay(); rp != "" {
		c14Replay(t, out, rp)
		return
	}
	r := vlib.NewRand("C14")

	// 0. before anything else has been selected in this process: CIDRs shared between generations / sets
	c14CrossGeneration(t, out, r)

	// 1. corpus: every tricky configuration × versions 0–5 and 2^32-1 × both families × several seeds.  One
	// long-lived selector per configuration serves the whole loop (the same seeds under every generation,
	// version and family) next to the unused selector each case gets.
	seeds := [][]byte{make([]byte, 16), bytes.Repeat([]byte{0xff}, 16), {}, {1}}
	for i := 0; i < 6; i++ {
		seeds = append(seeds, c14RandSeed(r))
	}
	for _, cfg := range c14Corpus() {
		gens := append([]uint{}, cfg.order...)
		gens = append(gens, 99) // an unknown generation
		hist := c14NewHist(cfg)
		for _, g := range gens {
			for _, ver := range []uint{0, 1, 2, 3, 4, 5, 4294967295} {
				for _, v6 := range []bool{false, true} {
					for _, s := range seeds {
						c14Run(t, out, c14Case{seed: s, gen: g, ver: ver, v6: v6, cfg: cfg}, hist)
					}
				}
			}
		}
	}

	// 2. exhaustive: every offset of small subnets through selectAddrFromSubnetOffset, one past the end
	// included; and every offset must also be reachable through the seeded entry point.
	c14Exhaustive(t, out, r)

	// 3. crypto/rand.Int and binary.Varint on their own
	c14Primitives(t, out, r)

	// 4. random configurations
	n := vlib.Budget(12000, 150000)
	for i := 0; i < n; i++ {
		cfg := c14RandCfg(r)
		hist := c14NewHist(cfg)
		k := 1 + r.Intn(4)
		var last []byte
		for j := 0; j < k; j++ {
			g := uint(99)
			if len(cfg.order) > 0 && !r.Chance(1, 30) {
				g = cfg.order[r.Intn(len(cfg.order))]
			}
			seed := c14RandSeed(r)
			if last != nil && r.Chance(1, 3) {
				seed = last // the same seed under another generation / version / family
			}
			last = seed
			c14Run(t, out, c14Case{seed: seed, gen: g, ver: c14RandVer(r), v6: r.Bool(), cfg: cfg}, hist)
		}
	}

	// 5. concurrent selectors on one shared selector: 2–32 goroutines, results must equal the serial ones
	c14Concurrent(t, out, r)
}

func c14Exhaustive(t *testing.T, out *vlib.Out, r *vlib.Rand) {
	small := []string{"10.1.0.0/29", "0.0.1.0/30", "0.0.0.8/29", "10.0.0.7/32", "255.255.255.252/30", "10.0.0.0/31", "0.1.2.0/28", "0.0.0.0/32",
		"2001:db8::/126", "64:ff9b::/125", "::/127", "::1/128", "2001:db8::8/125", "ffff:ffff:ffff:ffff:ffff:ffff:ffff:fffc/126", "::ffff:0.1.2.0/126", "::100/124"}
	for _, s := range small {
		_, ipn, err := net.ParseCIDR(s)
		if err != nil {
			t.Fatal(err)
		}
		ones, bits := ipn.Mask.Size()
		size := 1 << uint(bits-ones)
		for _, rp := range []bool{false, true} {
			pn := &phantomNet{IPNet: ipn, supportRandomPort: rp}
			for off := 0; off <= size+1; off++ {
				var ans string
				func() {
					defer func() {
						if p := recover(); p != nil {
							ans = "panic"
						}
					}()
					ph, err := selectAddrFromSubnetOffset(pn, big.NewInt(int64(off)))
					if err != nil {
						ans = "err " + c14ErrKind(err)
						return
					}
					ans = fmt.Sprintf("ok %s %s", vlib.Hex(*ph.IP()), vlib.B(ph.SupportRandomPort()))
					out.Checked()
					ip := *ph.IP()
					want := net.IPv6len
					if ipn.IP.To4() != nil {
						want = net.IPv4len
					}
					cs := fmt.Sprintf("C14OFFSET|%s|%d", s, off)
					if len(ip) != want {
						c14Fail(out, "C14:malformed-address-length", fmt.Sprintf("offset %d of %s gives %d bytes (%x)", off, s, len(ip), []byte(ip)), cs)
					} else if !ipn.Contains(ip) {
						c14Fail(out, "C14:outside-subnets", fmt.Sprintf("offset %d of %s gives %v", off, s, ip), cs)
					} else if ph.SupportRandomPort() != rp {
						c14Fail(out, "C14:randport-not-allowed", fmt.Sprintf("offset %d of %s: flag %v, subnet %v", off, s, ph.SupportRandomPort(), rp), cs)
					}
				}()
				out.Case(fmt.Sprintf("offset|%s|%s|%d", c14ModelNet(t, s), vlib.B(rp), off), ans, strings.HasPrefix(ans, "ok"))
				out.Count("offset:" + strings.SplitN(ans, " ", 2)[0])
			}
		}
		// reachability through the seeded entry: with enough seeds every offset of the subnet is selected
		for _, ver := range []uint{1, 2} {
			cfg := &c14Cfg{order: []uint{1}, gens: map[uint]*c14Gen{1: {groups: []c14Group{{weight: 1, subnets: []string{s}}}}}}
			sel := cfg.selector()
			seen := map[string]bool{}
			v6 := ipn.IP.To4() == nil
			for i := 0; i < 400*size && len(seen) < size; i++ {
				cs := c14Case{side: "station", seed: r.Bytes(16), gen: 1, ver: ver, v6: v6, cfg: cfg}
				res := c14Station(sel, &cs)
				if res.kind == "ok" {
					if !seen[string(res.ip)] {
						seen[string(res.ip)] = true
						out.Case(cs.modelLine(t), res.String(), true)
						out.Checked()
						if sig, what := c14Oracle(&cs, res); sig != "" {
							c14Fail(out, sig, what, cs.replay())
						}
					}
				}
			}
			out.Count(fmt.Sprintf("sweep:v%d:%s:%d/%d", ver, s, len(seen), size))
			if len(seen) != size && !(ver >= 2 && strings.HasPrefix(s, "::ffff:")) { // IPv4-mapped notation gets one id only
				out.Note(fmt.Sprintf("sweep of %s (version %d) reached %d of %d addresses", s, ver, len(seen), size))
			}
		}
	}
}

type c14LimReader struct{ b []byte }

func (l *c14LimReader) Read(p []byte) (int, error) {
	// like the hkdf reader: a read that cannot be satisfied fails without delivering anything
	if len(p) > len(l.b) {
		return 0, errors.New("entropy limit reached")
	}
	n := copy(p, l.b)
	l.b = l.b[n:]
	return n, nil
}

func c14Primitives(t *testing.T, out *vlib.Out, r *vlib.Rand) {
	n := vlib.Budget(1500, 30000)
	for i := 0; i < n; i++ {
		var max big.Int
		switch r.Intn(6) {
		case 0:
			max.SetInt64(int64(r.Intn(4)))
		case 1:
			max.SetInt64(int64(r.Intn(70000)))
		case 2:
			max.Lsh(big.NewInt(1), uint(r.Intn(131)))
			if r.Bool() {
				max.Add(&max, big.NewInt(int64(r.Intn(3))-1))
			}
		default:
			max.SetBytes(r.Bytes(1 + r.Intn(17)))
		}
		l := r.Intn(64)
		if r.Chance(1, 4) {
			l = r.Intn(6)
		}
		stream := r.Bytes(l)
		if r.Chance(1, 3) { // high bytes: many rejections
			for j := range stream {
				stream[j] |= 0xf0
			}
		}
		ans := func() (a string) {
			defer func() {
				if p := recover(); p != nil {
					a = "panic"
				}
			}()
			v, err := crand.Int(&c14LimReader{b: append([]byte{}, stream...)}, &max)
			if err != nil {
				return "err entropy"
			}
			return "ok " + v.String()
		}()
		out.Case(fmt.Sprintf("randint|%s|%d|%s", vlib.Hex(stream), l, max.String()), ans, strings.HasPrefix(ans, "ok"))
		out.Count("randint:" + strings.SplitN(ans, " ", 2)[0])
	}
	for i := 0; i < n; i++ {
		b := r.Bytes(r.Intn(13))
		if r.Bool() {
			for j := range b {
				if r.Chance(3, 4) {
					b[j] |= 0x80
				}
			}
		}
		v, k := binary.Varint(b)
		out.Case("varint|"+vlib.Hex(b), fmt.Sprintf("%d %d", v, k), k > 0)
	}
}

// c14ConcCfg: the configuration of the concurrent part — several weighted sets per generation (so that
// the legacy weighted choice has more than one outcome), the same CIDRs in generations 1 and 957 with
// different port-randomisation settings.
func c14ConcCfg() *c14Cfg {
	c, err := c14ParseCfg("1=9,1,0,192.122.190.0/24+10.0.0.0/31+2001:48a8:687f:1::/64!1,0,0,141.219.0.0/16+35.8.0.0/16!3,1,0,10.66.0.0/16+2001:db8:66::/64;" +
		"2=1,1,0,2002::/64!1,0,0,2002:1::/64+10.2.0.0/24;" +
		"957=9,0,0,192.122.190.0/24+10.0.0.0/31+2001:48a8:687f:1::/64!1,1,0,141.219.0.0/16+35.8.0.0/16!3,0,0,10.66.0.0/16+2001:db8:66::/64")
	if err != nil {
		panic(err)
	}
	return c
}

type c14Job struct {
	c    c14Case
	want string
}

// c14ConcJobs: every seed is used by two jobs that differ in generation, version or family; the
// expected answer of a job is the one an unused selector gives when nothing else runs.
func c14ConcJobs(out *vlib.Out, r *vlib.Rand, cfg *c14Cfg, n int) []c14Job {
	gens := []uint{1, 2, 957}
	js := make([]c14Job, 0, n)
	for len(js) < n {
		seed := r.Bytes(16)
		a := c14Case{side: "station", seed: seed, gen: gens[r.Intn(3)], ver: uint(r.Intn(5)), v6: r.Bool(), cfg: cfg}
		b := a
		for b.gen == a.gen && b.ver == a.ver && b.v6 == a.v6 {
			b.gen, b.ver, b.v6 = gens[r.Intn(3)], uint(r.Intn(5)), r.Bool()
		}
		for _, c := range []c14Case{a, b} {
			c := c
			res := c14Station(cfg.selector(), &c)
			if out != nil {
				out.Checked()
				if sig, what := c14Oracle(&c, res); sig != "" {
					c14Fail(out, sig, what, c.replay())
				}
			}
			js = append(js, c14Job{c: c, want: res.String()})
		}
	}
	return js
}

// c14RunWorkers: `workers` goroutines select all jobs on the one selector `sel` at the same time.
func c14RunWorkers(sel *PhantomIPSelector, js []c14Job, workers int) (bad int, first string) {
	var wg sync.WaitGroup
	var mu sync.Mutex
	for w := 0; w < workers; w++ {
		wg.Add(1)
		go func(w int) {
			defer wg.Done()
			for i := range js {
				j := &js[(i+w*37)%len(js)]
				got := c14Station(sel, &j.c).String()
				if got != j.want {
					mu.Lock()
					bad++
					if first == "" {
						first = fmt.Sprintf("seed %x gen %d version %d v6 %v: alone %s, concurrent %s", j.c.seed, j.c.gen, j.c.ver, j.c.v6, j.want, got)
					}
					mu.Unlock()
				}
			}
		}(w)
	}
	wg.Wait()
	return bad, first
}

// c14Concurrent: the jobs are first run one by one, each on an unused selector, then by W goroutines at
// once on one long-lived selector.
func c14Concurrent(t *testing.T, out *vlib.Out, r *vlib.Rand) {
	cfg := c14ConcCfg()
	sel := cfg.selector()
	jobs := vlib.Budget(600, 6000)
	js := c14ConcJobs(out, r, cfg, jobs)
	// the long-lived selector, still serial: every job in order
	out.Checked()
	if bad, first := c14RunWorkers(sel, js, 1); bad > 0 {
		var seq []c14Case
		for i := range js {
			seq = append(seq, js[i].c)
			if len(seq) >= 400 {
				break
			}
		}
		c14Fail(out, "C14:result-depends-on-earlier-selections",
			fmt.Sprintf("%d of %d selections made one after the other on one selector differ from the unused selector's answer; first: %s", bad, len(js), first),
			c14SeqReplay(cfg, seq))
	}
	for _, workers := range []int{2, 3, 4, 8, 16, 32} {
		bad, first := c14RunWorkers(sel, js, workers)
		out.Checked()
		out.Count(fmt.Sprintf("concurrent:%d-workers", workers))
		if bad > 0 {
			c14Fail(out, "C14:concurrent-selection-differs",
				fmt.Sprintf("%d of %d selections changed when %d selectors ran concurrently; first: %s", bad, workers*len(js), workers, first),
				fmt.Sprintf("C14CONC|%d|%d|%s", workers, jobs, cfg.text()))
		}
	}
}

// TestVerifC14Race: concurrent selections on one selector under the Go race detector (plan entry with
// "race_detector"): shared writes that do not change a result — a memo on the selector, an in-place
// sort of the configured sets — are invisible to the comparison above.  The check turns every
// `WARNING: DATA RACE` block into an oracle failure.
func TestVerifC14Race(t *testing.T) {
	out := vlib.Open("C14race")
	defer out.Close()
	r := vlib.NewRand("C14race")
	cfg := c14ConcCfg()
	js := c14ConcJobs(nil, r, cfg, vlib.Budget(160, 1200))
	sel := cfg.selector()
	for _, workers := range []int{2, 8, 24} {
		bad, first := c14RunWorkers(sel, js, workers)
		out.Checked()
		out.Count(fmt.Sprintf("race:%d-workers", workers))
		if bad > 0 {
			c14Fail(out, "C14:concurrent-selection-differs",
				fmt.Sprintf("%d of %d selections changed when %d selectors ran concurrently (race-detector build); first: %s", bad, workers*len(js), workers, first),
				fmt.Sprintf("C14CONC|%d|%d|%s", workers, len(js), cfg.text()))
		}
	}
	// the client entry point and the frozen clients next to the station selector, on shared protobuf objects
	list := &pb.PhantomSubnetsList{WeightedSubnets: cfg.gens[1].pbGroups()}
	var wg sync.WaitGroup
	for w := 0; w < 8; w++ {
		wg.Add(1)
		go func(w int) {
			defer wg.Done()
			for i := range js {
				j := &js[(i+w*53)%len(js)]
				f := V4Only
				if j.c.v6 {
					f = V6Only
				}
				func() {
					defer func() { _ = recover() }()
					_, _ = SelectPhantom(j.c.seed, list, f, true)
					_, _ = GetUnweightedSubnetList(list)
				}()
				c14Station(sel, &j.c)
			}
		}(w)
	}
	wg.Wait()
	out.Checked()
}

// c14Replay re-runs replay lines (`C14CASE|…`, `C14OFFSET|…`, `C14CONC|…`) against the implementation.
func c14Replay(t *testing.T, out *vlib.Out, path string) {
	b, err := os.ReadFile(path)
	if err != nil {
		t.Fatal(err)
	}
	for _, line := range strings.Split(string(b), "\n") {
		f := strings.Split(line, "|")
		switch f[0] {
		case "C14CASE":
			if len(f) != 7 {
				t.Fatalf("bad replay line %q", line)
			}
			seed := []byte{}
			if f[2] != "-" {
				if seed, err = hex.DecodeString(f[2]); err != nil {
					t.Fatal(err)
				}
			}
			gen, _ := strconv.ParseUint(f[3], 10, 32)
			ver, _ := strconv.ParseUint(f[4], 10, 32)
			cfg, err := c14ParseCfg(f[6])
			if err != nil {
				t.Fatal(err)
			}
			c := c14Case{seed: seed, gen: uint(gen), ver: uint(ver), v6: f[5] == "1", cfg: cfg}
			c14Run(t, out, c, nil)
			c.side = "station"
			fmt.Println("REPLAY case      :", line)
			fmt.Println("REPLAY model-line:", c.modelLine(t))
			fmt.Println("REPLAY impl      :", c14Station(cfg.selector(), &c).String())
		case "C14OFFSET":
			_, ipn, err := net.ParseCIDR(f[1])
			if err != nil {
				t.Fatal(err)
			}
			off, _ := strconv.ParseInt(f[2], 10, 64)
			ph, err := selectAddrFromSubnetOffset(&phantomNet{IPNet: ipn}, big.NewInt(off))
			fmt.Println("REPLAY case      :", line)
			if err != nil {
				fmt.Println("REPLAY impl      : err", err)
			} else {
				ip := *ph.IP()
				fmt.Printf("REPLAY impl      : %d bytes %x\n", len(ip), []byte(ip))
				out.Checked()
				if len(ip) != 4 && len(ip) != 16 {
					c14Fail(out, "C14:malformed-address-length", fmt.Sprintf("offset %d of %s gives %d bytes", off, f[1], len(ip)), line)
				}
			}
		case "C14CONC":
			fmt.Println("REPLAY case      :", line)
			c14Concurrent(t, out, vlib.NewRand("C14conc"))
		case "C14SEQ":
			// C14SEQ|<cfg>|<seed>,<gen>,<ver>,<v6>;…  — the selections are made in this order on one selector
			if len(f) != 3 {
				t.Fatalf("bad replay line %q", line)
			}
			cfg, err := c14ParseCfg(f[1])
			if err != nil {
				t.Fatal(err)
			}
			fmt.Println("REPLAY case      :", line)
			sel := cfg.selector()
			var seq []c14Case
			for _, e := range strings.Split(f[2], ";") {
				p := strings.Split(e, ",")
				if len(p) != 4 {
					t.Fatalf("bad replay entry %q", e)
				}
				seed := []byte{}
				if p[0] != "-" {
					if seed, err = hex.DecodeString(p[0]); err != nil {
						t.Fatal(err)
					}
				}
				gen, _ := strconv.ParseUint(p[1], 10, 32)
				ver, _ := strconv.ParseUint(p[2], 10, 32)
				c := c14Case{side: "station", seed: seed, gen: uint(gen), ver: uint(ver), v6: p[3] == "1", cfg: cfg}
				seq = append(seq, c)
				alone := c14Station(cfg.selector(), &c)
				got := c14Station(sel, &c)
				fmt.Printf("REPLAY step %-3d  : %s -> %s (unused selector: %s)\n", len(seq), e, got, alone)
				out.Checked()
				if sig, what := c14Oracle(&c, got); sig != "" {
					c14Fail(out, sig, what, c14SeqReplay(cfg, seq))
				}
				out.Checked()
				if got.String() != alone.String() {
					c14Fail(out, "C14:result-depends-on-earlier-selections", fmt.Sprintf("step %d: the used selector answers %s, an unused selector %s", len(seq), got, alone), c14SeqReplay(cfg, seq))
				}
			}
		}
	}
}

// ------------------------------------------------------------------------------------------------
// tie 1: facts about the source of pkg/phantoms that no single run can observe

// c14GlobalRand: package-level functions of math/rand (and math/rand/v2) that read or re-seed the
// process-global source.  New, NewSource, NewZipf (v2: New, NewPCG, NewChaCha8, NewZipf) create local state.
var c14GlobalRand = map[string]bool{
	"Seed": true, "Int": true, "Intn": true, "Int31": true, "Int31n": true, "Int63": true, "Int63n": true, "Uint32": true,
	"Uint64": true, "Float32": true, "Float64": true, "NormFloat64": true, "ExpFloat64": true, "Perm": true, "Shuffle": true,
	"Read": true, "IntN": true, "Int32": true, "Int32N": true, "Int64": true, "Int64N": true, "Uint32N": true, "Uint64N": true,
	"UintN": true, "Uint": true, "N": true,
}

// TestVerifC14Gen writes CJ/Gen/C14Facts.lean: the version thresholds of the selector, and every call
// in the non-test files of this package — outside init() — that goes to the process-global math/rand
// source: package-level math/rand functions, and weightedrand's Chooser.Pick() (which draws from that
// source; PickSource takes a generator).  `no_global_rand` (CJ.Props.C14) states that there are none:
// "each selector owns its generator", the hypothesis of the concurrency theorems, is read off the code.
func TestVerifC14Gen(t *testing.T) {
	dir := os.Getenv("VERIF_OUT")
	if dir == "" {
		t.Skip("VERIF_OUT not set")
	}
	fset := token.NewFileSet()
	pkgs, err := parser.ParseDir(fset, ".", func(fi os.FileInfo) bool {
		return !strings.HasSuffix(fi.Name(), "_test.go") && !strings.HasPrefix(fi.Name(), "zz_verif")
	}, 0)
	if err != nil {
		t.Fatal(err)
	}
	var calls []string
	files := 0
	for _, pkg := range pkgs {
		var names []string
		for name := range pkg.Files {
			names = append(names, name)
		}
		sort.Strings(names)
		for _, name := range names {
			file := pkg.Files[name]
			files++
			randNames := map[string]bool{}
			dotRand, hasWR := false, false
			for _, im := range file.Imports {
				path := strings.Trim(im.Path.Value, "\"`")
				switch {
				case path == "math/rand" || path == "math/rand/v2":
					n := "rand"
					if im.Name != nil {
						n = im.Name.Name
					}
					if n == "." {
						dotRand = true
					} else if n != "_" {
						randNames[n] = true
					}
				case strings.HasSuffix(path, "mroth/weightedrand") || strings.Contains(path, "mroth/weightedrand/"):
					hasWR = true
				}
			}
			for _, d := range file.Decls {
				fn := "(package level)"
				var body ast.Node = d
				if fd, ok := d.(*ast.FuncDecl); ok {
					fn = fd.Name.Name
					if fd.Recv != nil && len(fd.Recv.List) == 1 {
						fn = c14TypeName(fd.Recv.List[0].Type) + "." + fn
					}
					if fd.Recv == nil && fd.Name.Name == "init" {
						continue // runs before any selection
					}
					if fd.Body == nil {
						continue
					}
					body = fd.Body
				}
				ast.Inspect(body, func(n ast.Node) bool {
					switch e := n.(type) {
					case *ast.SelectorExpr:
						// any mention (call or function value) of a global-source function
						if id, ok := e.X.(*ast.Ident); ok && randNames[id.Name] && id.Obj == nil && c14GlobalRand[e.Sel.Name] {
							calls = append(calls, fmt.Sprintf("(%q, %q, %q)", name, fn, "math/rand."+e.Sel.Name))
						}
					case *ast.CallExpr:
						if se, ok := e.Fun.(*ast.SelectorExpr); ok && hasWR && se.Sel.Name == "Pick" && len(e.Args) == 0 {
							calls = append(calls, fmt.Sprintf("(%q, %q, %q)", name, fn, "weightedrand.Chooser.Pick"))
						}
						if id, ok := e.Fun.(*ast.Ident); ok && dotRand && id.Obj == nil && c14GlobalRand[id.Name] {
							calls = append(calls, fmt.Sprintf("(%q, %q, %q)", name, fn, "math/rand."+id.Name))
						}
					}
					return true
				})
			}
		}
	}
	if files < 4 {
		t.Fatalf("only %d source files of pkg/phantoms were read", files)
	}
	var sb strings.Builder
	sb.WriteString("/-! GENERATED by /verif/check (TestVerifC14Gen) from the code under test — do not edit.\n")
	sb.WriteString("Facts about pkg/phantoms that the C14 theorems are stated about. -/\n")
	sb.WriteString("namespace CJ.Gen.C14\n\n")
	fmt.Fprintf(&sb, "def phantomSelectionMinGeneration : Nat := %d\n", core.PhantomSelectionMinGeneration)
	fmt.Fprintf(&sb, "def phantomHkdfMinVersion : Nat := %d\n", core.PhantomHkdfMinVersion)
	fmt.Fprintf(&sb, "/-- number of non-test source files of pkg/phantoms that were read -/\ndef sourceFiles : Nat := %d\n", files)
	sb.WriteString("/-- (file, function, callee): uses of the process-global math/rand source outside init() -/\n")
	fmt.Fprintf(&sb, "def globalRandCalls : List (String × String × String) := [%s]\n", strings.Join(calls, ", "))
	sb.WriteString("\nend CJ.Gen.C14\n")
	if err := os.WriteFile(dir+"/C14Facts.lean", []byte(sb.String()), 0o644); err != nil {
		t.Fatal(err)
	}
}

func c14TypeName(e ast.Expr) string {
	switch x := e.(type) {
	case *ast.StarExpr:
		return c14TypeName(x.X)
	case *ast.Ident:
		return x.Name
	case *ast.IndexExpr:
		return c14TypeName(x.X)
	}
	return "?"
}
