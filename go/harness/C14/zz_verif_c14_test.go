//go:build verif

package phantoms

// Correspondence + property oracle for C14 (phantom selection is pure and stays inside the configured
// subnets).  White-box in package phantoms of the scratch copy.
//
// Every case is run through the real station entry (*PhantomIPSelector).Select, for library versions
// >= 2 also through the client entry SelectPhantom, for versions 0/1 also through the frozen clients in
// internal/compatability; the same case goes to the Lean driver (`phantom|…` lines).  The oracle is
// computed here with net.IPNet.Contains on the configured strings, independently of the model.

import (
	"bytes"
	crand "crypto/rand"
	"encoding/binary"
	"encoding/hex"
	"errors"
	"fmt"
	"math/big"
	mrand "math/rand"
	"net"
	"os"
	"strconv"
	"strings"
	"sync"
	"testing"

	v0 "github.com/refraction-networking/conjure/internal/compatability/v0"
	v1 "github.com/refraction-networking/conjure/internal/compatability/v1"
	"github.com/refraction-networking/conjure/internal/vlib"
	pb "github.com/refraction-networking/conjure/proto"
)

// ------------------------------------------------------------------------------------------------
// configurations (harness-side description, from which the real objects and the model line are built)

type c14Group struct {
	weight  uint32
	rp      bool
	nilSubs bool
	subnets []string
}

type c14Gen struct {
	nilCfg    bool // Networks[gen] == nil (RemoveGeneration)
	groupsNil bool // WeightedSubnets == nil
	groups    []c14Group
}

type c14Cfg struct {
	order []uint
	gens  map[uint]*c14Gen
}

type c14Case struct {
	side string // station | client | compat0 | compat1
	seed []byte
	gen  uint
	ver  uint
	v6   bool
	cfg  *c14Cfg
}

func (g *c14Gen) pbGroups() []*pb.PhantomSubnets {
	if g.groupsNil {
		return nil
	}
	out := make([]*pb.PhantomSubnets, 0, len(g.groups))
	for _, gr := range g.groups {
		gr := gr
		w := gr.weight
		rp := gr.rp
		ps := &pb.PhantomSubnets{Weight: &w, RandomizeDstPort: &rp}
		if !gr.nilSubs {
			ps.Subnets = append([]string{}, gr.subnets...)
		}
		out = append(out, ps)
	}
	return out
}

func (c *c14Cfg) selector() *PhantomIPSelector {
	sel := &PhantomIPSelector{Networks: map[uint]*SubnetConfig{}}
	for _, g := range c.order {
		gen := c.gens[g]
		if gen.nilCfg {
			sel.Networks[g] = nil
		} else {
			sel.Networks[g] = &SubnetConfig{WeightedSubnets: gen.pbGroups()}
		}
	}
	return sel
}

// text form used in replays: gens ';', groups '!', fields ',', subnets '+'
func (c *c14Cfg) text() string {
	var gs []string
	for _, g := range c.order {
		gen := c.gens[g]
		switch {
		case gen.nilCfg:
			gs = append(gs, fmt.Sprintf("%d=nil", g))
		case gen.groupsNil:
			gs = append(gs, fmt.Sprintf("%d=N", g))
		case len(gen.groups) == 0:
			gs = append(gs, fmt.Sprintf("%d=E", g))
		default:
			var grs []string
			for _, gr := range gen.groups {
				subs := "-"
				if len(gr.subnets) > 0 {
					subs = strings.Join(gr.subnets, "+")
				}
				grs = append(grs, fmt.Sprintf("%d,%s,%s,%s", gr.weight, vlib.B(gr.rp), vlib.B(gr.nilSubs), subs))
			}
			gs = append(gs, fmt.Sprintf("%d=%s", g, strings.Join(grs, "!")))
		}
	}
	if len(gs) == 0 {
		return "-"
	}
	return strings.Join(gs, ";")
}

func c14ParseCfg(s string) (*c14Cfg, error) {
	c := &c14Cfg{gens: map[uint]*c14Gen{}}
	if s == "-" {
		return c, nil
	}
	for _, g := range strings.Split(s, ";") {
		kv := strings.SplitN(g, "=", 2)
		if len(kv) != 2 {
			return nil, fmt.Errorf("bad generation %q", g)
		}
		n, err := strconv.ParseUint(kv[0], 10, 32)
		if err != nil {
			return nil, err
		}
		gen := &c14Gen{}
		switch kv[1] {
		case "nil":
			gen.nilCfg = true
		case "N":
			gen.groupsNil = true
		case "E":
		default:
			for _, grs := range strings.Split(kv[1], "!") {
				f := strings.SplitN(grs, ",", 4)
				if len(f) != 4 {
					return nil, fmt.Errorf("bad group %q", grs)
				}
				w, err := strconv.ParseUint(f[0], 10, 32)
				if err != nil {
					return nil, err
				}
				gr := c14Group{weight: uint32(w), rp: f[1] == "1", nilSubs: f[2] == "1"}
				if f[3] != "-" {
					gr.subnets = strings.Split(f[3], "+")
				}
				gen.groups = append(gen.groups, gr)
			}
		}
		c.order = append(c.order, uint(n))
		c.gens[uint(n)] = gen
	}
	return c, nil
}

// model form of one subnet string: what net.ParseCIDR returns (the model takes it as a parameter).
// The contract the theorems assume of ParseCIDR is checked here for every value handed over.
func c14ModelNet(t testing.TB, s string) string {
	_, n, err := net.ParseCIDR(s)
	if err != nil || n == nil {
		return "x"
	}
	isV4 := n.IP.To4() != nil
	var base big.Int
	if isV4 {
		base.SetBytes(n.IP.To4())
	} else {
		base.SetBytes(n.IP.To16())
	}
	ones, bits := n.Mask.Size()
	host := uint(bits - ones)
	okc := (bits == 32 || bits == 128) && ones >= 0 && ones <= bits
	if okc {
		var m big.Int
		m.Mod(&base, new(big.Int).Lsh(big.NewInt(1), host))
		okc = m.Sign() == 0
		if isV4 {
			okc = okc && base.BitLen() <= 32 && (bits == 32 || ones >= 96)
		} else {
			okc = okc && bits == 128 && base.BitLen() <= 128
		}
	}
	if !okc {
		t.Fatalf("net.ParseCIDR(%q) = %v violates the contract assumed by the model", s, n)
	}
	f := "6"
	if isV4 {
		f = "4"
	}
	return fmt.Sprintf("%s.%s.%d.%d", f, base.String(), ones, bits)
}

func (c *c14Cfg) modelText(t testing.TB) string {
	var gs []string
	for _, g := range c.order {
		gen := c.gens[g]
		switch {
		case gen.nilCfg:
			gs = append(gs, fmt.Sprintf("%d=nil", g))
		case gen.groupsNil:
			gs = append(gs, fmt.Sprintf("%d=N", g))
		case len(gen.groups) == 0:
			gs = append(gs, fmt.Sprintf("%d=E", g))
		default:
			var grs []string
			for _, gr := range gen.groups {
				subs := "-"
				if len(gr.subnets) > 0 {
					var ns []string
					for _, s := range gr.subnets {
						ns = append(ns, c14ModelNet(t, s))
					}
					subs = strings.Join(ns, "+")
				}
				grs = append(grs, fmt.Sprintf("%d,%s,%s,%s", gr.weight, vlib.B(gr.rp), vlib.B(gr.nilSubs), subs))
			}
			gs = append(gs, fmt.Sprintf("%d=%s", g, strings.Join(grs, "/")))
		}
	}
	if len(gs) == 0 {
		return "-"
	}
	return strings.Join(gs, ";")
}

// draws of the real math/rand generator, each the first draw after seeding (a local generator gives
// the same values as the global one after rand.Seed).
func c14Draws(seed []byte, gen *c14Gen) string {
	seedInt, n := binary.Varint(seed)
	if n == 0 || gen == nil {
		return "-"
	}
	totals := map[int]bool{}
	all, nonNil := 0, 0
	for _, g := range gen.groups {
		all += int(g.weight)
		if !g.nilSubs {
			nonNil += int(g.weight)
		}
	}
	var pairs []string
	for _, m := range []int{all, nonNil} {
		if m > 0 && !totals[m] {
			totals[m] = true
			pairs = append(pairs, fmt.Sprintf("%d:%d", m, mrand.New(mrand.NewSource(seedInt)).Intn(m)))
		}
	}
	r4 := make([]byte, 4)
	r16 := make([]byte, 16)
	mrand.New(mrand.NewSource(seedInt)).Read(r4)
	mrand.New(mrand.NewSource(seedInt)).Read(r16)
	return fmt.Sprintf("%d;%s;%s;%s", seedInt, strings.Join(pairs, ","), hex.EncodeToString(r4), hex.EncodeToString(r16))
}

// c14Fail reports an oracle failure; at most 6 per signature, so that every distinct signature
// reaches the (globally capped) oracle file.
var c14FailMu sync.Mutex
var c14FailN = map[string]int{}

func c14Fail(out *vlib.Out, sig, what, replay string) {
	c14FailMu.Lock()
	c14FailN[sig]++
	n := c14FailN[sig]
	c14FailMu.Unlock()
	out.Count("oracle-fail:" + sig)
	if n <= 6 {
		out.OracleFail(sig, what, replay)
	}
}

// ------------------------------------------------------------------------------------------------
// canonical answers

func c14ErrKind(err error) string {
	s := err.Error()
	switch {
	case errors.Is(err, ErrLegacyV0SelectionBug), errors.Is(err, v0.ErrorV0SelectionBug):
		return "v0Bug"
	case errors.Is(err, ErrMissingAddrs):
		return "noAddrs"
	case errors.Is(err, ErrLegacyMissingAddrs):
		return "v0NoAddrs"
	case errors.Is(err, ErrLegacyAddrSelectBug):
		return "legacyNoAddrs"
	case strings.Contains(s, "generation number not recognized"):
		return "unknownGen"
	case strings.Contains(s, "failed to seed random for weighted rand"):
		return "varint"
	case strings.Contains(s, "zero Choices with Weight"):
		return "noChoices"
	case strings.Contains(s, "exceeds max int"):
		return "weightOverflow"
	case strings.Contains(s, "no subnets provided"):
		return "emptyGroup"
	case strings.Contains(s, "invalid CIDR address"):
		return "parse"
	case strings.Contains(s, "entropy limit"):
		return "entropy"
	case strings.Contains(s, "No valid addresses specified"):
		return "v0NoAddrs"
	case strings.Contains(s, "no valid addresses specified"):
		return "legacyNoAddrs"
	case strings.Contains(s, "nil result should not be possible"):
		return "nilResult"
	case strings.Contains(s, "offset too big"):
		return "offsetTooBig"
	case strings.Contains(s, "failed to create seed"), strings.Contains(s, "Failed to chose IP address"), strings.Contains(s, "failed to chose IP address: EOF"), strings.Contains(s, "failed to chose IP address: unexpected EOF"), strings.Contains(s, "overflows a 64-bit integer"):
		return "seedFail"
	case strings.Contains(s, "out of range for its IP version"):
		return "addrRange"
	case strings.Contains(s, "weight"):
		return "zeroWeight"
	}
	return "other:" + s
}

type c14Res struct {
	kind  string // ok | err | panic
	ip    net.IP
	rp    bool
	hasRP bool
	err   string
}

func (r c14Res) String() string {
	switch r.kind {
	case "ok":
		rp := "-"
		if r.hasRP {
			rp = vlib.B(r.rp)
		}
		return fmt.Sprintf("ok %s %s", vlib.Hex(r.ip), rp)
	case "err":
		return "err " + r.err
	}
	return "panic"
}

func c14Station(sel *PhantomIPSelector, c *c14Case) (res c14Res) {
	defer func() {
		if p := recover(); p != nil {
			res = c14Res{kind: "panic", err: fmt.Sprint(p)}
		}
	}()
	ph, err := sel.Select(c.seed, c.gen, c.ver, c.v6)
	if err != nil {
		return c14Res{kind: "err", err: c14ErrKind(err)}
	}
	return c14Res{kind: "ok", ip: *ph.IP(), rp: ph.SupportRandomPort(), hasRP: true}
}

func c14Client(c *c14Case) (res c14Res) {
	defer func() {
		if p := recover(); p != nil {
			res = c14Res{kind: "panic", err: fmt.Sprint(p)}
		}
	}()
	list := &pb.PhantomSubnetsList{WeightedSubnets: c.cfg.gens[c.gen].pbGroups()}
	f := V4Only
	if c.v6 {
		f = V6Only
	}
	ph, err := SelectPhantom(c.seed, list, f, true)
	if err != nil {
		return c14Res{kind: "err", err: c14ErrKind(err)}
	}
	return c14Res{kind: "ok", ip: *ph.IP(), rp: ph.SupportRandomPort(), hasRP: true}
}

func c14Compat(c *c14Case) (res c14Res) {
	defer func() {
		if p := recover(); p != nil {
			res = c14Res{kind: "panic", err: fmt.Sprint(p)}
		}
	}()
	list := &pb.PhantomSubnetsList{WeightedSubnets: c.cfg.gens[c.gen].pbGroups()}
	var ip *net.IP
	var err error
	if c.side == "compat0" {
		f := v0.V4Only
		if c.v6 {
			f = v0.V6Only
		}
		ip, err = v0.SelectPhantom(c.seed, list, f, true)
	} else {
		f := v1.V4Only
		if c.v6 {
			f = v1.V6Only
		}
		ip, err = v1.SelectPhantom(c.seed, list, f, true)
	}
	if err != nil {
		return c14Res{kind: "err", err: c14ErrKind(err)}
	}
	return c14Res{kind: "ok", ip: *ip}
}

// ------------------------------------------------------------------------------------------------
// the property oracle (independent of the model)

// c14Contained: ip is a well-formed address of the requested family inside a configured, parsable
// subnet of that family in the generation; randPort may only be granted by such a subnet.
func c14Oracle(c *c14Case, r c14Res) (sig, what string) {
	switch r.kind {
	case "panic":
		if strings.Contains(r.err, "argument to Int is <= 0") {
			return "C14:panic-zero-weight", "selection panics (" + r.err + ") instead of returning an error"
		}
		return "C14:panic", "selection panics: " + r.err
	case "err":
		if strings.HasPrefix(r.err, "other:") {
			return "", "" // still an error, which the property allows; the correspondence check sees the text
		}
		return "", ""
	}
	ip := r.ip
	if len(ip) != net.IPv4len && len(ip) != net.IPv6len {
		return "C14:malformed-address-length", fmt.Sprintf("result has %d bytes (%x), not a well-formed address", len(ip), []byte(ip))
	}
	// family = the encoding: 4 bytes for an IPv4 request, 16 bytes for an IPv6 request
	if (len(ip) == net.IPv6len) != c.v6 {
		return "C14:wrong-family", fmt.Sprintf("requested v6=%v, got %d bytes (%v)", c.v6, len(ip), ip)
	}
	gen := c.cfg.gens[c.gen]
	inside, rpAllowed := false, false
	if gen != nil {
		for _, g := range gen.groups {
			for _, s := range g.subnets {
				_, n, err := net.ParseCIDR(s)
				if err != nil {
					continue
				}
				if c14NetContains(n, ip) {
					inside = true
					if g.rp {
						rpAllowed = true
					}
				}
			}
		}
	}
	if !inside {
		return "C14:outside-subnets", fmt.Sprintf("%v is in no configured subnet of its family in generation %d", ip, c.gen)
	}
	if r.hasRP && r.rp && !rpAllowed {
		return "C14:randport-not-allowed", fmt.Sprintf("%v grants port randomisation, no containing subnet allows it", ip)
	}
	return "", ""
}

// c14NetContains: ip (4 or 16 bytes) lies in the network n of the same family, by plain arithmetic on
// the configured network: base <= ip < base + 2^(hostbits).  (An IPv6 network that overlaps
// ::ffff:0:0/96 contains 16-byte addresses that Go prints in dotted form and IPNet.Contains refuses
// to compare; they are members of that IPv6 network all the same.)  Cross-checked with
// IPNet.Contains wherever that is applicable.
func c14NetContains(n *net.IPNet, ip net.IP) bool {
	nb := n.IP.To4()
	if nb == nil {
		nb = n.IP.To16()
	}
	if len(nb) != len(ip) {
		return false
	}
	ones, bits := n.Mask.Size()
	var base, v, end big.Int
	base.SetBytes(nb)
	v.SetBytes(ip)
	end.Add(&base, new(big.Int).Lsh(big.NewInt(1), uint(bits-ones)))
	in := base.Cmp(&v) <= 0 && v.Cmp(&end) < 0
	if len(ip) == net.IPv4len || ip.To4() == nil {
		if n.Contains(ip) != in {
			panic(fmt.Sprintf("harness: containment of %v in %v: arithmetic %v, IPNet.Contains %v", ip, n, in, n.Contains(ip)))
		}
	}
	return in
}

func (c *c14Case) replay() string {
	return fmt.Sprintf("C14CASE|%s|%s|%d|%d|%s|%s", c.side, vlib.Hex(c.seed), c.gen, c.ver, vlib.B(c.v6), c.cfg.text())
}

func (c *c14Case) modelLine(t testing.TB) string {
	cfgText := c.cfg.modelText(t)
	if c.side != "station" {
		// the client entry points take one subnet list: only that generation goes to the model
		one := &c14Cfg{order: []uint{c.gen}, gens: map[uint]*c14Gen{c.gen: c.cfg.gens[c.gen]}}
		cfgText = one.modelText(t)
	}
	draws := "-"
	if c.side != "client" && (c.ver < 2 || c.side != "station") {
		draws = c14Draws(c.seed, c.cfg.gens[c.gen])
	}
	return fmt.Sprintf("phantom|%s|%s|%d|%d|%s|%s|%s", c.side, vlib.Hex(c.seed), c.gen, c.ver, vlib.B(c.v6), cfgText, draws)
}

// c14Run runs one (seed, generation, version, family, configuration) through every applicable entry
// point, records the correspondence cases and evaluates the oracle.
func c14Run(t testing.TB, out *vlib.Out, c c14Case) {
	sel := c.cfg.selector()
	c.side = "station"
	r := c14Station(sel, &c)
	out.Case(c.modelLine(t), r.String(), r.kind == "ok")
	out.Count("station:v" + fmt.Sprint(minU(c.ver, 2)) + ":" + r.kind + ":" + r.err)
	out.Checked()
	if sig, what := c14Oracle(&c, r); sig != "" {
		c14Fail(out, sig, what, c.replay())
	}
	// purity: the same inputs again, on the same selector and on a fresh one
	out.Checked()
	if r2, r3 := c14Station(sel, &c), c14Station(c.cfg.selector(), &c); r2.String() != r.String() || r3.String() != r.String() {
		c14Fail(out, "C14:repeat-differs", fmt.Sprintf("repeating the selection changed the result: %s / %s / %s", r, r2, r3), c.replay())
	}
	gen := c.cfg.gens[c.gen]
	if gen == nil || gen.nilCfg {
		return
	}
	if c.ver >= 2 {
		c.side = "client"
		rc := c14Client(&c)
		out.Case(c.modelLine(t), rc.String(), rc.kind == "ok")
		out.Count("client:" + rc.kind + ":" + rc.err)
		out.Checked()
		if sig, what := c14Oracle(&c, rc); sig != "" {
			c14Fail(out, sig, "client entry SelectPhantom: "+what, c.replay())
		}
		out.Checked()
		if rc.String() != r.String() {
			c14Fail(out, "C14:station-client-differ", fmt.Sprintf("Select gives %s, SelectPhantom gives %s", r, rc), c.replay())
		}
		return
	}
	c.side = "compat" + fmt.Sprint(c.ver)
	rc := c14Compat(&c)
	out.Case(c.modelLine(t), rc.String(), rc.kind == "ok")
	out.Count(c.side + ":" + rc.kind + ":" + rc.err)
	// a frozen client that derives a well-formed address must find the station on exactly that address
	if rc.kind == "ok" && (len(rc.ip) == 4 || len(rc.ip) == 16) && !c14HasNilGroup(gen) {
		out.Checked()
		if r.kind != "ok" || !bytes.Equal(r.ip, rc.ip) {
			c14Fail(out, "C14:station-compat-differ", fmt.Sprintf("frozen v%d client derives %v, station gives %s", c.ver, rc.ip, r), c.replay())
		}
	}
}

func c14HasNilGroup(g *c14Gen) bool {
	for _, gr := range g.groups {
		if gr.nilSubs {
			return true
		}
	}
	return false
}

func minU(a, b uint) uint {
	if a < b {
		return a
	}
	return b
}

// ------------------------------------------------------------------------------------------------
// generators

var c14V4Nets = []string{
	"192.122.190.0/24", "141.219.0.0/16", "35.8.0.0/16", "10.0.0.0/31", "10.0.0.7/32", "10.1.0.0/30", "10.1.0.0/29",
	"0.1.2.0/24", "0.0.0.0/8", "0.0.0.0/0", "0.0.1.0/30", "0.0.0.8/29", "255.255.255.252/30", "255.255.255.255/32",
	"128.0.0.0/1", "203.0.113.64/26", "192.122.190.0/25", "192.122.190.128/25", "192.122.190.77/24", "1.2.3.4/32", "0.0.0.0/32",
	"::ffff:1.2.3.0/120", "::ffff:0.1.2.0/126", "::ffff:9.9.9.9/128",
}
var c14V6Nets = []string{
	"2001:48a8:687f:1::/64", "2002::/16", "64:ff9b::/96", "::/0", "::/127", "::/128", "::1/128", "0:1::/32", "2001:db8::/126",
	"2001:db8::8/125", "2001:db8::1/128", "ffff:ffff:ffff:ffff:ffff:ffff:ffff:fffc/126", "fe80::/10", "8000::/1", "::100/120", "0:0:0:1::/64",
	"2001:db8:0:1::/64", "2001:db8::/32", "::ffff:0:0/95",
}
var c14BadNets = []string{"bogus", "1.2.3.4", "1.2.3.0/33", "300.1.1.0/24", "::/129", "2001:db8::", "10.0.0.0/-1", "10.0.0.0/8/8"}
var c14Weights = []uint32{0, 0, 1, 1, 1, 2, 3, 9, 10, 100, 4294967295}

func c14RandNet(r *vlib.Rand) string {
	switch {
	case r.Chance(1, 40):
		return c14BadNets[r.Intn(len(c14BadNets))]
	case r.Chance(1, 3):
		return c14V4Nets[r.Intn(len(c14V4Nets))]
	case r.Chance(1, 2):
		return c14V6Nets[r.Intn(len(c14V6Nets))]
	case r.Bool():
		ones := r.Intn(33)
		b := r.Bytes(4)
		if r.Chance(1, 3) {
			b[0] = 0
		}
		return fmt.Sprintf("%s/%d", net.IP(b).String(), ones)
	default:
		ones := r.Intn(129)
		if r.Chance(1, 2) {
			ones = 96 + r.Intn(33)
		}
		b := r.Bytes(16)
		if r.Chance(1, 3) {
			b[0], b[1] = 0, 0
		}
		return fmt.Sprintf("%s/%d", net.IP(b).String(), ones)
	}
}

func c14RandGen(r *vlib.Rand) *c14Gen {
	g := &c14Gen{}
	switch {
	case r.Chance(1, 60):
		g.nilCfg = true
		return g
	case r.Chance(1, 60):
		g.groupsNil = true
		return g
	case r.Chance(1, 60):
		return g
	}
	n := 1 + r.Intn(5)
	if r.Chance(1, 30) {
		n = 6 + r.Intn(6) // up to 11 groups: still an insertion sort in sort.Slice
	}
	equal := r.Chance(1, 5)
	ew := c14Weights[r.Intn(len(c14Weights))]
	for i := 0; i < n; i++ {
		gr := c14Group{weight: c14Weights[r.Intn(len(c14Weights))], rp: r.Bool()}
		if equal {
			gr.weight = ew
		}
		switch {
		case r.Chance(1, 40):
			gr.nilSubs = true
		case r.Chance(1, 40):
			gr.subnets = []string{}
		default:
			k := 1 + r.Intn(4)
			for j := 0; j < k; j++ {
				gr.subnets = append(gr.subnets, c14RandNet(r))
			}
			if r.Chance(1, 10) { // duplicate / overlapping subnet
				gr.subnets = append(gr.subnets, gr.subnets[0])
			}
		}
		g.groups = append(g.groups, gr)
	}
	return g
}

func c14RandCfg(r *vlib.Rand) *c14Cfg {
	c := &c14Cfg{gens: map[uint]*c14Gen{}}
	n := 1 + r.Intn(3)
	for i := 0; i < n; i++ {
		g := uint(1 + r.Intn(6))
		if r.Chance(1, 20) {
			g = uint(r.Intn(2000))
		}
		if _, dup := c.gens[g]; dup {
			continue
		}
		c.order = append(c.order, g)
		c.gens[g] = c14RandGen(r)
	}
	return c
}

func c14RandSeed(r *vlib.Rand) []byte {
	switch {
	case r.Chance(1, 50):
		return []byte{}
	case r.Chance(1, 50):
		return r.Bytes(1 + r.Intn(40))
	case r.Chance(1, 40): // varint overflow / too short: continuation bits everywhere
		b := r.Bytes(16)
		for i := 0; i < 10; i++ {
			b[i] |= 0x80
		}
		if r.Bool() {
			return b[:1+r.Intn(9)]
		}
		return b
	case r.Chance(1, 40): // nine continuation bytes, then the boundary byte
		b := r.Bytes(16)
		for i := 0; i < 9; i++ {
			b[i] |= 0x80
		}
		b[9] = byte(r.Intn(4))
		return b
	case r.Chance(1, 30): // tiny numeric value: id 0, 1, … for the legacy selectors
		b := make([]byte, 16)
		b[15] = byte(r.Intn(6))
		if r.Bool() {
			b[0] = byte(r.Intn(3)) // varint n == 1
		}
		return b
	case r.Chance(1, 10):
		return r.Bytes(32)
	}
	return r.Bytes(16)
}

func c14Corpus() []*c14Cfg {
	mk := func(s string) *c14Cfg {
		c, err := c14ParseCfg(s)
		if err != nil {
			panic(err)
		}
		return c
	}
	return []*c14Cfg{
		mk("1=9,0,0,192.122.190.0/24+2001:48a8:687f:1::/64!1,0,0,141.219.0.0/16+35.8.0.0/16"),
		mk("1=9,1,0,192.122.190.0/24+10.0.0.0/31+2001:48a8:687f:1::/64!1,0,0,141.219.0.0/16+35.8.0.0/16;2=1,1,0,2002::/64"),
		mk("1=1,0,0,0.1.2.0/24+64:ff9b::/96"),                         // leading-zero networks
		mk("1=1,1,0,0.0.0.0/0+::/0"),                                  // everything
		mk("1=1,0,0,0.0.0.0/32+::/128"),                               // the zero address only
		mk("1=1,0,0,10.0.0.7/32+2001:db8::1/128"),                     // one-address subnets
		mk("1=1,0,0,10.0.0.7/32+10.0.0.8/32+10.0.0.9/32"),             // several one-address subnets
		mk("1=0,0,0,10.1.0.0/30+2001:db8::/126"),                      // zero weight
		mk("1=0,0,0,10.1.0.0/30!0,1,0,10.2.0.0/30+2001:db8::/126"),    // all weights zero
		mk("1=5,0,0,10.1.0.0/30+2001:db8::/126!5,1,0,10.2.0.0/30+2001:db8:1::/126!5,0,0,10.3.0.0/30"), // equal weights
		mk("1=1,0,0,10.1.0.0/29+10.1.0.0/30+10.1.0.0/29!1,1,0,10.1.0.4/30"), // overlapping / duplicate, flags differ
		mk("1=1,0,1,-!3,0,0,10.1.0.0/30+2001:db8::/126"),              // a group with nil subnets
		mk("1=1,0,0,-!3,0,0,10.1.0.0/30"),                             // a group with an empty list
		mk("1=1,0,0,bogus+10.1.0.0/30"),                               // unparsable entry
		mk("1=1,0,0,::ffff:1.2.3.0/120+::ffff:9.9.9.9/128+2001:db8::/126"), // IPv4-mapped notation
		mk("1=E"), mk("1=N"), mk("1=nil"), mk("-"),
		mk("1=4294967295,0,0,10.1.0.0/30!4294967295,1,0,10.2.0.0/30+2001:db8::/126"), // large weights
		mk("1=1,0,0,255.255.255.252/30+ffff:ffff:ffff:ffff:ffff:ffff:ffff:fffc/126"),    // top of the address space
		mk("1=2,1,0,10.1.0.0/30;7=1,0,0,10.7.0.0/30;1000=1,0,0,2001:db8:7::/126"),
	}
}

// ------------------------------------------------------------------------------------------------

func TestVerifC14(t *testing.T) {
	out := vlib.Open("C14")
	defer out.Close()
	if rp := vlib.Replay(); rp != "" {
		c14Replay(t, out, rp)
		return
	}
	r := vlib.NewRand("C14")

	// 1. corpus: every tricky configuration × versions 0–4 × both families × several seeds
	seeds := [][]byte{make([]byte, 16), bytes.Repeat([]byte{0xff}, 16), {}, {1}}
	for i := 0; i < 6; i++ {
		seeds = append(seeds, c14RandSeed(r))
	}
	for _, cfg := range c14Corpus() {
		gens := append([]uint{}, cfg.order...)
		gens = append(gens, 99) // an unknown generation
		for _, g := range gens {
			for ver := uint(0); ver <= 4; ver++ {
				for _, v6 := range []bool{false, true} {
					for _, s := range seeds {
						c14Run(t, out, c14Case{seed: s, gen: g, ver: ver, v6: v6, cfg: cfg})
					}
				}
			}
		}
	}

	// 2. exhaustive: every offset of small subnets through selectAddrFromSubnetOffset, one past the end
	// included; and every offset must also be reachable through the seeded entry point.
	c14Exhaustive(t, out, r)

	// 3. crypto/rand.Int and binary.Varint on their own
	c14Primitives(t, out, r)

	// 4. random configurations
	n := vlib.Budget(12000, 150000)
	for i := 0; i < n; i++ {
		cfg := c14RandCfg(r)
		k := 1 + r.Intn(4)
		for j := 0; j < k; j++ {
			g := uint(99)
			if len(cfg.order) > 0 && !r.Chance(1, 30) {
				g = cfg.order[r.Intn(len(cfg.order))]
			}
			c14Run(t, out, c14Case{seed: c14RandSeed(r), gen: g, ver: uint(r.Intn(5)), v6: r.Bool(), cfg: cfg})
		}
	}

	// 5. concurrent selectors on one shared selector: 2–32 goroutines, results must equal the serial ones
	c14Concurrent(t, out, r)
}

func c14Exhaustive(t *testing.T, out *vlib.Out, r *vlib.Rand) {
	small := []string{"10.1.0.0/29", "0.0.1.0/30", "0.0.0.8/29", "10.0.0.7/32", "255.255.255.252/30", "10.0.0.0/31", "0.1.2.0/28", "0.0.0.0/32",
		"2001:db8::/126", "64:ff9b::/125", "::/127", "::1/128", "2001:db8::8/125", "ffff:ffff:ffff:ffff:ffff:ffff:ffff:fffc/126", "::ffff:0.1.2.0/126", "::100/124"}
	for _, s := range small {
		_, ipn, err := net.ParseCIDR(s)
		if err != nil {
			t.Fatal(err)
		}
		ones, bits := ipn.Mask.Size()
		size := 1 << uint(bits-ones)
		for _, rp := range []bool{false, true} {
			pn := &phantomNet{IPNet: ipn, supportRandomPort: rp}
			for off := 0; off <= size+1; off++ {
				var ans string
				func() {
					defer func() {
						if p := recover(); p != nil {
							ans = "panic"
						}
					}()
					ph, err := selectAddrFromSubnetOffset(pn, big.NewInt(int64(off)))
					if err != nil {
						ans = "err " + c14ErrKind(err)
						return
					}
					ans = fmt.Sprintf("ok %s %s", vlib.Hex(*ph.IP()), vlib.B(ph.SupportRandomPort()))
					out.Checked()
					ip := *ph.IP()
					want := net.IPv6len
					if ipn.IP.To4() != nil {
						want = net.IPv4len
					}
					cs := fmt.Sprintf("C14OFFSET|%s|%d", s, off)
					if len(ip) != want {
						c14Fail(out, "C14:malformed-address-length", fmt.Sprintf("offset %d of %s gives %d bytes (%x)", off, s, len(ip), []byte(ip)), cs)
					} else if !ipn.Contains(ip) {
						c14Fail(out, "C14:outside-subnets", fmt.Sprintf("offset %d of %s gives %v", off, s, ip), cs)
					} else if ph.SupportRandomPort() != rp {
						c14Fail(out, "C14:randport-not-allowed", fmt.Sprintf("offset %d of %s: flag %v, subnet %v", off, s, ph.SupportRandomPort(), rp), cs)
					}
				}()
				out.Case(fmt.Sprintf("offset|%s|%s|%d", c14ModelNet(t, s), vlib.B(rp), off), ans, strings.HasPrefix(ans, "ok"))
				out.Count("offset:" + strings.SplitN(ans, " ", 2)[0])
			}
		}
		// reachability through the seeded entry: with enough seeds every offset of the subnet is selected
		for _, ver := range []uint{1, 2} {
			cfg := &c14Cfg{order: []uint{1}, gens: map[uint]*c14Gen{1: {groups: []c14Group{{weight: 1, subnets: []string{s}}}}}}
			sel := cfg.selector()
			seen := map[string]bool{}
			v6 := ipn.IP.To4() == nil
			for i := 0; i < 400*size && len(seen) < size; i++ {
				cs := c14Case{side: "station", seed: r.Bytes(16), gen: 1, ver: ver, v6: v6, cfg: cfg}
				res := c14Station(sel, &cs)
				if res.kind == "ok" {
					if !seen[string(res.ip)] {
						seen[string(res.ip)] = true
						out.Case(cs.modelLine(t), res.String(), true)
						out.Checked()
						if sig, what := c14Oracle(&cs, res); sig != "" {
							c14Fail(out, sig, what, cs.replay())
						}
					}
				}
			}
			out.Count(fmt.Sprintf("sweep:v%d:%s:%d/%d", ver, s, len(seen), size))
			if len(seen) != size && !(ver >= 2 && strings.HasPrefix(s, "::ffff:")) { // IPv4-mapped notation gets one id only
				out.Note(fmt.Sprintf("sweep of %s (version %d) reached %d of %d addresses", s, ver, len(seen), size))
			}
		}
	}
}

type c14LimReader struct{ b []byte }

func (l *c14LimReader) Read(p []byte) (int, error) {
	// like the hkdf reader: a read that cannot be satisfied fails without delivering anything
	if len(p) > len(l.b) {
		return 0, errors.New("entropy limit reached")
	}
	n := copy(p, l.b)
	l.b = l.b[n:]
	return n, nil
}

func c14Primitives(t *testing.T, out *vlib.Out, r *vlib.Rand) {
	n := vlib.Budget(1500, 30000)
	for i := 0; i < n; i++ {
		var max big.Int
		switch r.Intn(6) {
		case 0:
			max.SetInt64(int64(r.Intn(4)))
		case 1:
			max.SetInt64(int64(r.Intn(70000)))
		case 2:
			max.Lsh(big.NewInt(1), uint(r.Intn(131)))
			if r.Bool() {
				max.Add(&max, big.NewInt(int64(r.Intn(3))-1))
			}
		default:
			max.SetBytes(r.Bytes(1 + r.Intn(17)))
		}
		l := r.Intn(64)
		if r.Chance(1, 4) {
			l = r.Intn(6)
		}
		stream := r.Bytes(l)
		if r.Chance(1, 3) { // high bytes: many rejections
			for j := range stream {
				stream[j] |= 0xf0
			}
		}
		ans := func() (a string) {
			defer func() {
				if p := recover(); p != nil {
					a = "panic"
				}
			}()
			v, err := crand.Int(&c14LimReader{b: append([]byte{}, stream...)}, &max)
			if err != nil {
				return "err entropy"
			}
			return "ok " + v.String()
		}()
		out.Case(fmt.Sprintf("randint|%s|%d|%s", vlib.Hex(stream), l, max.String()), ans, strings.HasPrefix(ans, "ok"))
		out.Count("randint:" + strings.SplitN(ans, " ", 2)[0])
	}
	for i := 0; i < n; i++ {
		b := r.Bytes(r.Intn(13))
		if r.Bool() {
			for j := range b {
				if r.Chance(3, 4) {
					b[j] |= 0x80
				}
			}
		}
		v, k := binary.Varint(b)
		out.Case("varint|"+vlib.Hex(b), fmt.Sprintf("%d %d", v, k), k > 0)
	}
}

// c14Concurrent: the jobs are first run serially, then by W goroutines at once on the same selector.
func c14Concurrent(t *testing.T, out *vlib.Out, r *vlib.Rand) {
	cfg := c14Corpus()[1]
	sel := cfg.selector()
	jobs := vlib.Budget(600, 6000)
	type job struct {
		c    c14Case
		want string
	}
	js := make([]job, jobs)
	for i := range js {
		c := c14Case{side: "station", seed: r.Bytes(16), gen: uint(1 + r.Intn(2)), ver: uint(r.Intn(4)), v6: r.Bool(), cfg: cfg}
		js[i] = job{c: c, want: c14Station(sel, &c).String()}
	}
	for _, workers := range []int{2, 3, 4, 8, 16, 32} {
		var wg sync.WaitGroup
		var mu sync.Mutex
		bad := 0
		var first string
		for w := 0; w < workers; w++ {
			wg.Add(1)
			go func(w int) {
				defer wg.Done()
				for i := range js {
					j := &js[(i+w*37)%len(js)]
					got := c14Station(sel, &j.c).String()
					if got != j.want {
						mu.Lock()
						bad++
						if first == "" {
							first = fmt.Sprintf("seed %x gen %d version %d v6 %v: serial %s, concurrent %s", j.c.seed, j.c.gen, j.c.ver, j.c.v6, j.want, got)
						}
						mu.Unlock()
					}
				}
			}(w)
		}
		wg.Wait()
		out.Checked()
		out.Count(fmt.Sprintf("concurrent:%d-workers", workers))
		if bad > 0 {
			c14Fail(out, "C14:concurrent-selection-differs",
				fmt.Sprintf("%d of %d selections changed when %d selectors ran concurrently; first: %s", bad, workers*len(js), workers, first),
				fmt.Sprintf("C14CONC|%d|%d|%s", workers, jobs, cfg.text()))
		}
	}
}

// c14Replay re-runs replay lines (`C14CASE|…`, `C14OFFSET|…`, `C14CONC|…`) against the implementation.
func c14Replay(t *testing.T, out *vlib.Out, path string) {
	b, err := os.ReadFile(path)
	if err != nil {
		t.Fatal(err)
	}
	for _, line := range strings.Split(string(b), "\n") {
		f := strings.Split(line, "|")
		switch f[0] {
		case "C14CASE":
			if len(f) != 7 {
				t.Fatalf("bad replay line %q", line)
			}
			seed := []byte{}
			if f[2] != "-" {
				if seed, err = hex.DecodeString(f[2]); err != nil {
					t.Fatal(err)
				}
			}
			gen, _ := strconv.ParseUint(f[3], 10, 32)
			ver, _ := strconv.ParseUint(f[4], 10, 32)
			cfg, err := c14ParseCfg(f[6])
			if err != nil {
				t.Fatal(err)
			}
			c := c14Case{seed: seed, gen: uint(gen), ver: uint(ver), v6: f[5] == "1", cfg: cfg}
			c14Run(t, out, c)
			c.side = "station"
			fmt.Println("REPLAY case      :", line)
			fmt.Println("REPLAY model-line:", c.modelLine(t))
			fmt.Println("REPLAY impl      :", c14Station(cfg.selector(), &c).String())
		case "C14OFFSET":
			_, ipn, err := net.ParseCIDR(f[1])
			if err != nil {
				t.Fatal(err)
			}
			off, _ := strconv.ParseInt(f[2], 10, 64)
			ph, err := selectAddrFromSubnetOffset(&phantomNet{IPNet: ipn}, big.NewInt(off))
			fmt.Println("REPLAY case      :", line)
			if err != nil {
				fmt.Println("REPLAY impl      : err", err)
			} else {
				ip := *ph.IP()
				fmt.Printf("REPLAY impl      : %d bytes %x\n", len(ip), []byte(ip))
				out.Checked()
				if len(ip) != 4 && len(ip) != 16 {
					c14Fail(out, "C14:malformed-address-length", fmt.Sprintf("offset %d of %s gives %d bytes", off, f[1], len(ip)), line)
				}
			}
		case "C14CONC":
			fmt.Println("REPLAY case      :", line)
			c14Concurrent(t, out, vlib.NewRand("C14conc"))
		}
	}
}
