//go:build verif

package lib

// C14: the whole real flow of NewRegistration — Select on the manager's real selector (the package's
// subnet file: generation 957 has a set that allows port randomisation and one that does not), the
// selected phantom's flag into getPhantomDstPort, address and port into the registration — for every
// registered transport, an unregistered one, parameters that parse and parameters that do not.
//
// Correspondence: `flow|<minVer>|<sel>|<tp>|<ver>` against CJ.PhantomFlow.newRegistration; <sel> is what the
// selector itself answers for (seed, generation, version, family) — the selection is corresponded by the
// `phantom|` line of TestVerifC14 —, <tp> what the registered transport answers (ParseParams, GetDstPort).
// Oracle (no model): the registration's address is the selected one; a port other than 443 only for a
// phantom whose subnet allows it.
//
// TestVerifC14FlowGen regenerates CJ/Gen/C14Flow.lean: the call sites of getPhantomDstPort.

import (
	"bytes"
	"encoding/hex"
	"fmt"
	"go/ast"
	"go/parser"
	"go/printer"
	"go/token"
	"net"
	"os"
	"sort"
	"strconv"
	"strings"
	"testing"

	"github.com/refraction-networking/conjure/internal/vlib"
	"github.com/refraction-networking/conjure/pkg/core"
	pb "github.com/refraction-networking/conjure/proto"
	"google.golang.org/protobuf/proto"
	"google.golang.org/protobuf/types/known/anypb"
)

type c14fCase struct {
	tt   pb.TransportType
	spec string // c14pParams spec; "junk" = an Any that no transport can parse
	seed []byte
	gen  uint32
	ver  uint32
	v6   bool
}

func (c *c14fCase) replay() string {
	return fmt.Sprintf("C14FLOW|%d|%s|%s|%d|%d|%s", int32(c.tt), c.spec, hex.EncodeToString(c.seed), c.gen, c.ver, vlib.B(c.v6))
}

func c14fAny(spec string) (*anypb.Any, error) {
	if spec == "none" {
		return nil, nil
	}
	if spec == "junk" {
		return &anypb.Any{TypeUrl: "type.googleapis.com/proto.NoSuchMessage", Value: []byte{0xff, 0xff, 0xff}}, nil
	}
	p, err := c14pParams(spec)
	if err != nil {
		return nil, err
	}
	m, ok := p.(proto.Message)
	if !ok {
		return nil, fmt.Errorf("spec %q is not a message", spec)
	}
	return anypb.New(m)
}

func c14fEnc(ip net.IP, v6 bool) string {
	if !v6 {
		if ip4 := ip.To4(); ip4 != nil {
			return hex.EncodeToString(ip4)
		}
	}
	return hex.EncodeToString(ip)
}

func c14fRun(t testing.TB, out *vlib.Out, rm *RegistrationManager, c c14fCase, verbose bool) {
	data, err := c14fAny(c.spec)
	if err != nil {
		t.Fatal(err)
	}
	c2s := &pb.ClientToStation{
		Transport: c.tt.Enum(), TransportParams: data,
		DecoyListGeneration: proto.Uint32(c.gen), ClientLibVersion: proto.Uint32(c.ver),
	}
	keys := &core.ConjureSharedKeys{SharedSecret: []byte("c14flow"), ConjureSeed: c.seed}

	// the parameters of the model: the selector's own answer, the transport's own answers
	sel := "e"
	selFlag := false
	var selIP net.IP
	ph, serr := rm.Selector().Select(c.seed, uint(c.gen), uint(c.ver), c.v6)
	if serr == nil {
		selIP = *ph.IP()
		selFlag = ph.SupportRandomPort()
		sel = c14fEnc(selIP, c.v6) + ":" + vlib.B(selFlag)
	}
	tp := "-"
	if tr, ok := rm.registeredDecoys.transports[c.tt]; ok {
		params, perr := tr.ParseParams(uint(c.ver), data)
		if perr != nil {
			tp = "x"
		} else if port, err := tr.GetDstPort(uint(c.ver), c.seed, params); err != nil {
			tp = "e"
		} else {
			tp = fmt.Sprintf("p%d", port)
		}
	}

	// the real flow
	got := ""
	var reg *DecoyRegistration
	func() {
		defer func() {
			if p := recover(); p != nil {
				got = "panic"
			}
		}()
		var err error
		reg, err = rm.NewRegistration(c2s, keys, c.v6, pb.RegistrationSource_API.Enum())
		switch {
		case err == nil:
			got = fmt.Sprintf("ok %s %d", c14fEnc(reg.PhantomIp, c.v6), reg.PhantomPort)
		case strings.HasPrefix(err.Error(), "failed phantom select"):
			got = "err select"
		case err.Error() == "unknown transport":
			got = "err unknown-transport"
		case strings.HasPrefix(err.Error(), "error handling transport params"):
			got = "err params"
		case strings.HasPrefix(err.Error(), "error selecting phantom dst port"):
			got = "err port"
		default:
			got = "err other:" + err.Error()
		}
	}()
	out.Count("flow-transport:" + strconv.Itoa(int(c.tt)))
	out.Count("flow-sel:" + map[bool]string{true: "err", false: "flag" + vlib.B(selFlag)}[serr != nil])
	out.Count("flow-tp:" + tp[:1])
	out.Count("flow-answer:" + strings.SplitN(got, " ", 3)[0] + map[bool]string{true: "-other-port", false: ""}[reg != nil && reg.PhantomPort != 443])
	line := fmt.Sprintf("flow|%d|%s|%s|%d", randomizeDstPortMinVersion, sel, tp, c.ver)
	out.Case(line, got, reg != nil)
	if verbose {
		fmt.Println("REPLAY case      :", c.replay())
		fmt.Println("REPLAY model-line:", line)
		fmt.Println("REPLAY impl      :", got)
	}
	out.Checked()
	if got == "panic" {
		c14pFail(out, "C14:flow-panic", "NewRegistration panicked", c.replay())
		return
	}
	if reg != nil {
		if serr != nil || !reg.PhantomIp.Equal(selIP) {
			c14pFail(out, "C14:flow-address-not-the-selected",
				fmt.Sprintf("NewRegistration keeps %v, the selector answers %v (err %v)", reg.PhantomIp, selIP, serr), c.replay())
		} else if reg.PhantomPort != 443 && !selFlag {
			c14pFail(out, "C14:flow-port-without-subnet-permission",
				fmt.Sprintf("phantom %v is in a subnet that does not allow port randomisation, the registration's port is %d (transport %d, params %s, libver %d)",
					selIP, reg.PhantomPort, int32(c.tt), c.spec, c.ver), c.replay())
		}
	}
}

func TestVerifC14Flow(t *testing.T) {
	out := vlib.Open("C14flow")
	defer out.Close()
	rm := c14pWorld(t)
	if rp := vlib.Replay(); rp != "" {
		b, err := os.ReadFile(rp)
		if err != nil {
			t.Fatal(err)
		}
		for _, line := range strings.Split(string(b), "\n") {
			f := strings.Split(line, "|")
			if f[0] != "C14FLOW" || len(f) != 7 {
				continue
			}
			tt, _ := strconv.ParseInt(f[1], 10, 32)
			seed, err := hex.DecodeString(f[3])
			if err != nil {
				t.Fatal(err)
			}
			gen, _ := strconv.ParseUint(f[4], 10, 32)
			ver, _ := strconv.ParseUint(f[5], 10, 32)
			c14fRun(t, out, rm, c14fCase{tt: pb.TransportType(tt), spec: f[2], seed: seed, gen: uint32(gen), ver: uint32(ver), v6: f[6] == "1"}, true)
		}
		return
	}
	r := vlib.NewRand("C14flow")
	types := []pb.TransportType{pb.TransportType_Min, pb.TransportType_Obfs4, pb.TransportType_Prefix, pb.TransportType_DTLS,
		pb.TransportType_Null, pb.TransportType(99)}
	specs := []string{"none", "junk", "g-", "g0", "g1", "d-", "d0", "d1", "p0,-", "p0,0", "p0,1", "p3,1", "p-2,1", "p12,1", "p-1,1", "p5,0"}
	gens := []uint32{1, 2, 957, 957, 957, 3, 0}
	vers := []uint32{0, 1, 2, 3, 4, 5, 6, 4294967295}
	// the grid with one seed per cell, then random cells
	for _, tt := range types {
		for _, spec := range specs {
			for _, ver := range vers {
				for _, v6 := range []bool{false, true} {
					c14fRun(t, out, rm, c14fCase{tt: tt, spec: spec, seed: r.Bytes(32), gen: 957, ver: ver, v6: v6}, false)
				}
			}
		}
	}
	n := vlib.Budget(4000, 40000)
	for i := 0; i < n; i++ {
		sl := 32
		if r.Chance(1, 8) {
			sl = r.Intn(41)
		}
		c14fRun(t, out, rm, c14fCase{tt: types[r.Intn(len(types))], spec: specs[r.Intn(len(specs))], seed: r.Bytes(sl),
			gen: gens[r.Intn(len(gens))], ver: vers[r.Intn(len(vers))], v6: r.Bool()}, false)
	}
}

// TestVerifC14FlowGen writes CJ/Gen/C14Flow.lean: every call of getPhantomDstPort in the non-test files of
// this package with its fifth argument, the variable whose SupportRandomPort() it is, how that variable is
// written in the enclosing function, and what the function stores as PhantomIp.
func TestVerifC14FlowGen(t *testing.T) {
	dir := os.Getenv("VERIF_OUT")
	if dir == "" {
		t.Skip("VERIF_OUT not set")
	}
	fset := token.NewFileSet()
	pkgs, err := parser.ParseDir(fset, ".", func(fi os.FileInfo) bool {
		return !strings.HasSuffix(fi.Name(), "_test.go") && !strings.HasPrefix(fi.Name(), "zz_verif")
	}, 0)
	if err != nil {
		t.Fatal(err)
	}
	show := func(n ast.Node) string {
		var b bytes.Buffer
		printer.Fprint(&b, fset, n)
		return strings.Join(strings.Fields(b.String()), " ")
	}
	var sites []string
	otherRefs, files := 0, 0
	for _, pkg := range pkgs {
		var names []string
		for name := range pkg.Files {
			names = append(names, name)
		}
		sort.Strings(names)
		for _, name := range names {
			files++
			for _, d := range pkg.Files[name].Decls {
				fd, ok := d.(*ast.FuncDecl)
				if !ok {
					// a mention outside functions
					ast.Inspect(d, func(n ast.Node) bool {
						if id, ok := n.(*ast.Ident); ok && id.Name == "getPhantomDstPort" {
							otherRefs++
						}
						return true
					})
					continue
				}
				if fd.Body == nil {
					continue
				}
				callFuns := map[*ast.Ident]bool{}
				var calls []*ast.CallExpr
				ast.Inspect(fd.Body, func(n ast.Node) bool {
					if ce, ok := n.(*ast.CallExpr); ok {
						if se, ok := ce.Fun.(*ast.SelectorExpr); ok && se.Sel.Name == "getPhantomDstPort" {
							callFuns[se.Sel] = true
							calls = append(calls, ce)
						}
					}
					return true
				})
				ast.Inspect(fd.Body, func(n ast.Node) bool {
					if id, ok := n.(*ast.Ident); ok && id.Name == "getPhantomDstPort" && !callFuns[id] {
						otherRefs++
					}
					return true
				})
				for _, ce := range calls {
					arg5, recv := "", ""
					if len(ce.Args) == 5 {
						arg5 = show(ce.Args[4])
						if a, ok := ce.Args[4].(*ast.CallExpr); ok && len(a.Args) == 0 {
							if se, ok := a.Fun.(*ast.SelectorExpr); ok && se.Sel.Name == "SupportRandomPort" {
								if id, ok := se.X.(*ast.Ident); ok {
									recv = id.Name
								}
							}
						}
					}
					assigns, others, from, phantomIP := 0, 0, "", ""
					ast.Inspect(fd.Body, func(n ast.Node) bool {
						switch x := n.(type) {
						case *ast.AssignStmt:
							for i, l := range x.Lhs {
								if id, ok := l.(*ast.Ident); ok && id.Name == recv && recv != "" {
									assigns++
									if len(x.Rhs) == 1 && i == 0 {
										if c, ok := x.Rhs[0].(*ast.CallExpr); ok {
											from = show(c.Fun)
										}
									}
								}
							}
						case *ast.ValueSpec:
							for _, id := range x.Names {
								if id.Name == recv && recv != "" {
									others++
								}
							}
						case *ast.RangeStmt:
							for _, e := range []ast.Expr{x.Key, x.Value} {
								if id, ok := e.(*ast.Ident); ok && id.Name == recv && recv != "" {
									others++
								}
							}
						case *ast.UnaryExpr:
							if id, ok := x.X.(*ast.Ident); ok && x.Op == token.AND && id.Name == recv && recv != "" {
								others++
							}
						case *ast.IncDecStmt:
							if id, ok := x.X.(*ast.Ident); ok && id.Name == recv && recv != "" {
								others++
							}
						case *ast.KeyValueExpr:
							if id, ok := x.Key.(*ast.Ident); ok && id.Name == "PhantomIp" {
								phantomIP = show(x.Value)
							}
						}
						return true
					})
					sites = append(sites, fmt.Sprintf("⟨%q, %d, %q, %q, %d, %q, %d, %q⟩", fd.Name.Name, len(ce.Args), arg5, recv, assigns, from, others, phantomIP))
				}
			}
		}
	}
	var sb strings.Builder
	sb.WriteString("/-! GENERATED by /verif/check (TestVerifC14FlowGen) from the code under test — do not edit.\nThe call sites of getPhantomDstPort in pkg/station/lib. -/\nnamespace CJ.Gen.C14Flow\n\n")
	sb.WriteString("structure Site where\n  fn : String\n  nargs : Nat\n  arg5 : String\n  recv : String\n  recvAssigns : Nat\n  recvFrom : String\n  recvOtherWrites : Nat\n  phantomIp : String\n\n")
	fmt.Fprintf(&sb, "def sites : List Site := [%s]\n", strings.Join(sites, ",\n  "))
	fmt.Fprintf(&sb, "/-- mentions of getPhantomDstPort that are neither its declaration nor the callee of a call -/\ndef otherRefs : Nat := %d\n", otherRefs)
	fmt.Fprintf(&sb, "/-- non-test source files of pkg/station/lib that were read -/\ndef files : Nat := %d\n\nend CJ.Gen.C14Flow\n", files)
	if err := os.WriteFile(dir+"/C14Flow.lean", []byte(sb.String()), 0o644); err != nil {
		t.Fatal(err)
	}
}
