//go:build verif

package log

// C17, package log (pkg/station/log/logger.go): the logger itself.  Histories of package SetLevel / New /
// (*Logger).SetLevel / SetPrefix / calls of every family (Trace, Debug, Warn, Error, Info, Print) in every
// form (X, Xln, Xf) on loggers and on the package-level functions, all writing to one buffer with flags 0,
// are run on the real package and on the Lean model CJ.Logger (line `logger|run|…`: the answer is the whole
// sink, byte for byte); ParseLevel on names in every case, non-ASCII look-alikes, invalid UTF-8 and garbage
// (line `logger|parse|…`); the level test of every method at every level from -3 to 8 (line `logger|emits|…`).
//
// Oracle (independent of the model): in a history that never sets a level below ErrorLevel, every text handed
// to a Trace*/Debug*/Warn* call carries a marker that occurs nowhere else; the marker must not be in the sink.
// A logger created before a package-level SetLevel must keep its level (second marker).

import (
	"bytes"
	"encoding/hex"
	"fmt"
	golog "log"
	"os"
	"strconv"
	"strings"
	"testing"

	"github.com/refraction-networking/conjure/internal/vlib"
)

type c17lOp struct {
	kind string // G N L P S C
	idx  int    // logger index (C: -1 = package-level)
	lvl  int
	meth string
	form string
	data []byte
}

func (o c17lOp) enc() string {
	switch o.kind {
	case "G":
		return "G," + strconv.Itoa(o.lvl)
	case "N":
		return "N," + vlib.Hex(o.data)
	case "L":
		return fmt.Sprintf("L,%d,%d", o.idx, o.lvl)
	case "P":
		return fmt.Sprintf("P,%d,%s", o.idx, vlib.Hex(o.data))
	case "S":
		return "S," + vlib.Hex(o.data)
	}
	t := "p"
	if o.idx >= 0 {
		t = strconv.Itoa(o.idx)
	}
	return fmt.Sprintf("C,%s,%s,%s,%s", t, o.meth, o.form, vlib.Hex(o.data))
}

func c17lEnc(ops []c17lOp) string {
	parts := make([]string, len(ops))
	for i, o := range ops {
		parts[i] = o.enc()
	}
	return strings.Join(parts, ";")
}

func c17lDec(line string) ([]c17lOp, error) {
	var ops []c17lOp
	if line == "" {
		return nil, nil
	}
	unhex := func(s string) ([]byte, error) {
		if s == "-" {
			return nil, nil
		}
		return hex.DecodeString(s)
	}
	for _, p := range strings.Split(line, ";") {
		f := strings.Split(p, ",")
		var o c17lOp
		var err error
		o.kind = f[0]
		switch {
		case o.kind == "G" && len(f) == 2:
			o.lvl, err = strconv.Atoi(f[1])
		case o.kind == "N" && len(f) == 2:
			o.data, err = unhex(f[1])
		case o.kind == "L" && len(f) == 3:
			if o.idx, err = strconv.Atoi(f[1]); err == nil {
				o.lvl, err = strconv.Atoi(f[2])
			}
		case o.kind == "P" && len(f) == 3:
			if o.idx, err = strconv.Atoi(f[1]); err == nil {
				o.data, err = unhex(f[2])
			}
		case o.kind == "S" && len(f) == 2:
			o.data, err = unhex(f[1])
		case o.kind == "C" && len(f) == 5:
			o.idx = -1
			if f[1] != "p" {
				o.idx, err = strconv.Atoi(f[1])
			}
			o.meth, o.form = f[2], f[3]
			if err == nil {
				o.data, err = unhex(f[4])
			}
		default:
			err = fmt.Errorf("bad op %q", p)
		}
		if err != nil {
			return nil, err
		}
		ops = append(ops, o)
	}
	return ops, nil
}

// one call on a logger (l != nil) or on the package-level functions
func c17lCall(l *Logger, pkg bool, meth, form, s string) {
	type fns struct {
		p  func(...interface{})
		ln func(...interface{})
		f  func(string, ...interface{})
	}
	var m fns
	if pkg {
		switch meth {
		case "trace":
			m = fns{Trace, Traceln, Tracef}
		case "debug":
			m = fns{Debug, Debugln, Debugf}
		case "warn":
			m = fns{Warn, Warnln, Warnf}
		case "error":
			m = fns{Error, Errorln, Errorf}
		case "info":
			m = fns{Info, Infoln, Infof}
		default:
			m = fns{Print, Println, Printf}
		}
	} else {
		switch meth {
		case "trace":
			m = fns{l.Trace, l.Traceln, l.Tracef}
		case "debug":
			m = fns{l.Debug, l.Debugln, l.Debugf}
		case "warn":
			m = fns{l.Warn, l.Warnln, l.Warnf}
		case "error":
			m = fns{l.Error, l.Errorln, l.Errorf}
		case "info":
			m = fns{l.Info, l.Infoln, l.Infof}
		default:
			m = fns{l.Print, l.Println, l.Printf}
		}
	}
	switch form {
	case "p":
		m.p(s)
	case "l":
		m.ln(s)
	default:
		m.f("%s", s)
	}
}

// c17lRun runs one history on the real package; "nil-logger" when a call or a setter addresses a logger that
// does not exist (a nil *Logger: the methods dereference it).
func c17lRun(ops []c17lOp) (ans string, sink []byte) {
	var buf bytes.Buffer
	oldW, oldF, oldP, oldL := golog.Writer(), golog.Flags(), golog.Prefix(), level
	defer func() {
		golog.SetOutput(oldW)
		golog.SetFlags(oldF)
		golog.SetPrefix(oldP)
		level = oldL
	}()
	golog.SetOutput(&buf)
	golog.SetFlags(0)
	golog.SetPrefix("")
	level = ErrorLevel
	var loggers []*Logger
	get := func(i int) *Logger {
		if i < len(loggers) {
			return loggers[i]
		}
		return nil
	}
	nilLogger := false
	func() {
		defer func() {
			if r := recover(); r != nil {
				nilLogger = true
			}
		}()
		for _, o := range ops {
			switch o.kind {
			case "G":
				SetLevel(Level(o.lvl))
			case "N":
				loggers = append(loggers, New(&buf, string(o.data), 0))
			case "L":
				get(o.idx).SetLevel(Level(o.lvl))
			case "P":
				get(o.idx).SetPrefix(string(o.data))
			case "S":
				SetPrefix(string(o.data))
			case "C":
				if o.idx < 0 {
					c17lCall(nil, true, o.meth, o.form, string(o.data))
				} else {
					c17lCall(get(o.idx), false, o.meth, o.form, string(o.data))
				}
			}
		}
	}()
	if nilLogger {
		return "nil-logger", nil
	}
	return vlib.Hex(buf.Bytes()), buf.Bytes()
}

var c17lMeths = []string{"trace", "debug", "warn", "error", "info", "print"}
var c17lForms = []string{"p", "l", "f"}
var c17lLevels = []int{-1, 0, 1, 2, 3, 4, 5, 6, 4, 4, 5, 100, -7}

const c17lQuietMark = "\x01QUIET\x02"
const c17lStaleMark = "\x01STALE\x02"

func c17lText(r *vlib.Rand) []byte {
	switch r.Intn(8) {
	case 0:
		return nil
	case 1:
		return []byte("\n")
	case 2:
		return append(c17lAscii(r, r.Range(1, 12)), '\n')
	case 3:
		return append(c17lAscii(r, r.Range(1, 6)), '\n', '\n')
	case 4:
		b := r.Bytes(r.Range(1, 10))
		for i := range b { // the markers stay unique
			if b[i] == 1 || b[i] == 2 {
				b[i] = 3
			}
		}
		return b
	case 5:
		return []byte("100%s %d %v%%\n")
	default:
		return c17lAscii(r, r.Range(1, 16))
	}
}

func c17lAscii(r *vlib.Rand, n int) []byte {
	const al = "abcXYZ019 .:[]%\t"
	b := make([]byte, n)
	for i := range b {
		b[i] = al[r.Intn(len(al))]
	}
	return b
}

// c17lHistory draws one history; safe: no level below ErrorLevel is ever set (the class the oracle talks about)
func c17lHistory(r *vlib.Rand, safe bool, out *vlib.Out) []c17lOp {
	n := r.Range(1, 14)
	var ops []c17lOp
	loggers := 0
	lvl := func() int {
		if safe {
			return []int{4, 5, 6, 100, 4}[r.Intn(5)]
		}
		return c17lLevels[r.Intn(len(c17lLevels))]
	}
	for i := 0; i < n; i++ {
		k := r.Intn(12)
		switch {
		case k == 0:
			ops = append(ops, c17lOp{kind: "G", lvl: lvl()})
		case k <= 2 || (loggers == 0 && k <= 4):
			ops = append(ops, c17lOp{kind: "N", data: c17lText(r)})
			loggers++
		case k == 3 && loggers > 0:
			ops = append(ops, c17lOp{kind: "L", idx: r.Intn(loggers), lvl: lvl()})
		case k == 4 && loggers > 0:
			ops = append(ops, c17lOp{kind: "P", idx: r.Intn(loggers), data: c17lText(r)})
		case k == 5:
			ops = append(ops, c17lOp{kind: "S", data: c17lText(r)})
		default:
			o := c17lOp{kind: "C", idx: -1, meth: c17lMeths[r.Intn(6)], form: c17lForms[r.Intn(3)], data: c17lText(r)}
			if loggers > 0 && !r.Chance(1, 4) {
				o.idx = r.Intn(loggers)
			}
			if !safe && r.Chance(1, 60) {
				o.idx = loggers + r.Intn(2) // no such logger
			}
			if o.meth == "trace" || o.meth == "debug" || o.meth == "warn" {
				o.data = append([]byte(c17lQuietMark), o.data...)
			}
			ops = append(ops, o)
		}
	}
	return ops
}

func c17lSafe(ops []c17lOp) bool {
	for _, o := range ops {
		if (o.kind == "G" || o.kind == "L") && o.lvl < int(ErrorLevel) {
			return false
		}
	}
	return true
}

func c17lCase(out *vlib.Out, ops []c17lOp) {
	line := c17lEnc(ops)
	ans, sink := c17lRun(ops)
	out.Case("logger|run|"+line, ans, ans != "nil-logger" && len(sink) > 0)
	for _, o := range ops {
		if o.kind == "C" {
			out.Count("logger:call:" + o.meth + ":" + o.form)
		} else {
			out.Count("logger:op:" + o.kind)
		}
	}
	if ans == "nil-logger" {
		out.Count("logger:nil-logger")
		return
	}
	if len(sink) == 0 {
		out.Count("logger:sink-empty")
	}
	if c17lSafe(ops) {
		out.Count("logger:history-at-or-above-error-level")
		out.Checked()
		if bytes.Contains(sink, []byte(c17lQuietMark)) {
			out.OracleFail("logger-quiet-family-written",
				"a Trace*/Debug*/Warn* text reached the log writer although no level below ErrorLevel was ever set", "logger|"+line)
		}
	} else {
		out.Count("logger:history-with-verbose-level")
	}
}

// a logger made while the package level is l0 keeps l0 when the package level changes afterwards
func c17lStale(out *vlib.Out, l0, l1 int, meth string) {
	ops := []c17lOp{
		{kind: "G", lvl: l0}, {kind: "N", data: []byte("[a] ")}, {kind: "G", lvl: l1},
		{kind: "C", idx: 0, meth: meth, form: "f", data: []byte(c17lStaleMark)},
	}
	line := c17lEnc(ops)
	ans, sink := c17lRun(ops)
	out.Case("logger|run|"+line, ans, true)
	out.Count("logger:new-then-setlevel")
	// ground truth: the method's rank against l0 only
	rank := map[string]int{"trace": 1, "debug": 2, "warn": 3, "error": 4, "info": 5, "print": 1 << 30}[meth]
	want := l0 <= rank
	out.Checked()
	if got := bytes.Contains(sink, []byte(c17lStaleMark)); got != want {
		out.OracleFail("logger-level-not-captured-at-creation",
			fmt.Sprintf("logger created at package level %d, package level then set to %d: %s written=%v, expected %v", l0, l1, meth, got, want),
			"logger|"+line)
	}
}

func c17lParse(out *vlib.Out, s []byte) {
	l, err := ParseLevel(string(s))
	ans := "err"
	if err == nil {
		ans = strconv.Itoa(int(l))
		out.Count("parse:accepted")
	} else {
		out.Count("parse:rejected")
		out.Checked()
		if l != UnknownLevel {
			out.OracleFail("parselevel-error-with-usable-level", fmt.Sprintf("ParseLevel(%q) = %d with an error", s, l), "parse|"+vlib.Hex(s))
		}
	}
	out.Case("logger|parse|"+vlib.Hex(s), ans, err == nil)
}

func TestVerifC17Logger(t *testing.T) {
	out := vlib.Open("C17log")
	defer out.Close()
	out.Note("C17 logger: histories of SetLevel/New/(*Logger).SetLevel/SetPrefix/calls of every family and form on pkg/station/log against CJ.Logger (whole sink compared); ParseLevel; level test table; oracle: silent families never written at or above ErrorLevel, level captured at creation")
	if rp := vlib.Replay(); rp != "" {
		raw, err := os.ReadFile(rp)
		if err != nil {
			t.Fatal(err)
		}
		for _, ln := range strings.Split(string(raw), "\n") {
			ln = strings.TrimSpace(ln)
			switch {
			case strings.HasPrefix(ln, "logger|"):
				ops, err := c17lDec(strings.TrimPrefix(ln, "logger|"))
				if err != nil {
					t.Fatal(err)
				}
				c17lCase(out, ops)
				_, sink := c17lRun(ops)
				fmt.Printf("replay %s\n  sink: %q\n", ln, sink)
			case c17fReplay(out, ln):
			case strings.HasPrefix(ln, "parse|"):
				var b []byte
				if h := strings.TrimPrefix(ln, "parse|"); h != "-" {
					b, _ = hex.DecodeString(h)
				}
				c17lParse(out, b)
			}
		}
		return
	}
	r := vlib.NewRand("C17log")

	// (1) the level test of every family at every level
	for lv := -3; lv <= 8; lv++ {
		for _, m := range c17lMeths {
			ops := []c17lOp{{kind: "G", lvl: lv}, {kind: "N"}, {kind: "C", idx: 0, meth: m, form: "f", data: []byte("x")},
				{kind: "C", idx: -1, meth: m, form: "p", data: []byte("y")}}
			_, sink := c17lRun(ops)
			out.Case(fmt.Sprintf("logger|emits|%d|%s", lv, m), vlib.B(bytes.Contains(sink, []byte("x"))), true)
			if bytes.Contains(sink, []byte("x")) != bytes.Contains(sink, []byte("y")) {
				out.OracleFail("logger-package-and-method-disagree", fmt.Sprintf("level %d %s: logger method and package function disagree", lv, m), "logger|"+c17lEnc(ops))
			}
			out.Checked()
			c17lCase(out, ops)
		}
	}
	// (2) corpus
	corpus := []string{
		"N,5b5d;C,0,debug,f,010203;G,5;C,0,error,l,41;C,p,info,p,42;C,p,error,p,43",
		"N,-;L,0,2;C,0,debug,f,07;C,0,trace,p,08",
		"C,p,error,p,-;C,p,error,l,-;C,p,error,f,0a;C,p,error,l,0a;C,p,print,p,410a0a",
		"S,3e20;C,p,info,p,41;N,3e3e;C,0,info,p,42;P,0,-;C,0,info,l,43;S,-;C,p,print,f,2573",
		"G,-1;N,-;C,0,trace,p,74;G,4;C,0,trace,p,75;N,-;C,1,trace,p,76;C,1,error,p,77",
		"N,-;L,0,6;C,0,info,p,41;C,0,print,p,42;L,0,5;C,0,info,p,43",
		"C,2,error,p,41",
		"N,-;P,1,41",
		"N,-;L,3,4",
	}
	for _, c := range corpus {
		ops, err := c17lDec(c)
		if err != nil {
			t.Fatalf("corpus %q: %v", c, err)
		}
		c17lCase(out, ops)
	}
	for _, l0 := range []int{-1, 1, 2, 3, 4, 5, 6} {
		for _, l1 := range []int{-1, 1, 3, 4, 5, 6} {
			for _, m := range c17lMeths {
				c17lStale(out, l0, l1, m)
			}
		}
	}
	// (3) random histories: half of them in the class the property talks about
	for i, n := 0, vlib.Budget(6000, 200000); i < n; i++ {
		c17lCase(out, c17lHistory(r, i%2 == 0, out))
	}
	// (4) ParseLevel
	names := []string{"trace", "debug", "warn", "error", "info"}
	var ins [][]byte
	for _, nm := range names {
		ins = append(ins, []byte(nm), []byte(strings.ToUpper(nm)), []byte(strings.Title(nm)), []byte(nm+" "), []byte(" "+nm),
			[]byte(nm+"\n"), []byte(nm[:len(nm)-1]), []byte(nm+nm), []byte(nm+"\x00"))
	}
	ins = append(ins, nil, []byte("İNFO"), []byte("İnfo"), []byte("ınfo"), []byte("DEBUG"), []byte("debug"), []byte("waKrn"),
		[]byte("K"), []byte("ERROR\xff"), []byte("\xc4"), []byte("\xc4\xb0"), []byte("\xe2\x84"), []byte("\xe2\x84\xaanfo"), []byte("warning"),
		[]byte("unknown"), []byte("-1"), []byte("4"), []byte("ＩＮＦＯ"), []byte("info\xc4\xb0"), []byte("\xc4\xb0\xc4\xb0"), []byte("tr\xc4\xb0ce"),
		[]byte("DEBUG"), []byte("ᴇrror"), []byte("\xc4\xb0NFO"), []byte("i̇nfo"), []byte("ſ"), []byte("warn\xe2\x84\xaa"))
	for _, in := range ins {
		c17lParse(out, in)
	}
	for i, n := 0, vlib.Budget(3000, 60000); i < n; i++ {
		var b []byte
		switch r.Intn(4) {
		case 0:
			b = r.Bytes(r.Intn(8))
		case 1: // a name with random case and one mutation
			b = []byte(names[r.Intn(5)])
			for j := range b {
				if r.Bool() {
					b[j] -= 32
				}
			}
			if r.Bool() && len(b) > 0 {
				b[r.Intn(len(b))] = byte(r.Intn(256))
			}
		case 2: // i / k replaced by their non-ASCII capitals
			s := names[r.Intn(5)]
			s = strings.ReplaceAll(s, "i", "İ")
			b = []byte(strings.ReplaceAll(s, "k", "K"))
			if r.Bool() {
				b = b[:r.Intn(len(b)+1)]
			}
		default:
			b = []byte(names[r.Intn(5)])
			for j := range b {
				if r.Bool() {
					b[j] -= 32
				}
			}
		}
		c17lParse(out, b)
	}
	c17fAll(out, r)
}
