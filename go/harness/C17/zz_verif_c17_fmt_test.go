//go:build verif

package log

// C17, tie 3 continued: the real fmt.Sprintf against CJ.Fmt (which argument of a format takes part in the output),
// and logrus.ParseLevel — the registration server's parser — against CJ.Startup.parseLogrus.
//
// line `logger|fmt|<format hex>|<kinds>`: kinds is one letter per argument (s string, e error value, g Stringer,
// i int); the answer has one letter per argument: D when the text Sprintf builds changes with the argument's
// value (two runs that differ in that argument only), N when it does not.
// line `logger|lrparse|<hex>`: the level or `err`.

import (
	"encoding/hex"
	"fmt"
	"strconv"
	"strings"

	"github.com/refraction-networking/conjure/internal/vlib"
	"github.com/sirupsen/logrus"
)

type c17fErr struct{ s string }

func (e c17fErr) Error() string { return e.s }

type c17fStr struct{ s string }

func (g c17fStr) String() string { return g.s }

func c17fArg(kind byte, alt bool) interface{} {
	s, n := "QZJXWA", 41
	if alt {
		s, n = "KVYHPM", 57
	}
	switch kind {
	case 's':
		return s
	case 'e':
		return c17fErr{s}
	case 'g':
		return c17fStr{s}
	}
	return n
}

func c17fObserve(format, kinds string) string {
	base := make([]interface{}, len(kinds))
	for j := range kinds {
		base[j] = c17fArg(kinds[j], false)
	}
	ref := fmt.Sprintf(format, base...)
	var b strings.Builder
	for j := range kinds {
		alt := append([]interface{}{}, base...)
		alt[j] = c17fArg(kinds[j], true)
		if fmt.Sprintf(format, alt...) != ref {
			b.WriteByte('D')
		} else {
			b.WriteByte('N')
		}
	}
	return b.String()
}

// hidden: positions the generator put under %T (ground truth independent of the model); "" when unknown
func c17fCase(out *vlib.Out, format, kinds, hidden string) {
	ans := c17fObserve(format, kinds)
	for j := 0; j < len(hidden) && j < len(ans); j++ {
		out.Checked()
		if hidden[j] == 'T' && ans[j] == 'D' {
			out.OracleFail("fmt-type-verb-shows-value", fmt.Sprintf("Sprintf(%q): argument %d stands under %%T and its value changes the text", format, j),
				"fmtcase|"+vlib.Hex([]byte(format))+"|"+kinds+"|"+hidden)
		}
	}
	kf := kinds
	if kf == "" {
		kf, ans = "-", "-"
	}
	out.Case("logger|fmt|"+vlib.Hex([]byte(format))+"|"+kf, ans, strings.Contains(ans, "D") && strings.Contains(format, "%"))
}

func c17fLogrus(out *vlib.Out, s []byte) {
	l, err := logrus.ParseLevel(string(s))
	ans := "err"
	if err == nil {
		ans = strconv.Itoa(int(l))
		out.Count("lrparse:accepted")
	} else {
		out.Count("lrparse:rejected")
	}
	out.Case("logger|lrparse|"+vlib.Hex(s), ans, err == nil)
}

func c17fAll(out *vlib.Out, r *vlib.Rand) {
	// corpus: formats of the station's own call sites and the corner cases of doPrintf
	for _, c := range [][3]string{
		{"failed to listen on %v: %v\n", "se", ""}, {"unexpected read len error - up:%t (%dB): %s", "iie", ""},
		{"%T %v", "ee", "T."}, {"%v %T", "ee", ".T"}, {"%T", "ss", "T."}, {"%%T %s", "s", ""}, {"%.0s|%.0v|%.0q|%.0x|%.0d", "segsi", ""},
		{"%.s", "s", ""}, {"%5.0s", "g", ""}, {"%-08.3q", "e", ""}, {"%.0d", "s", ""}, {"%.0T%.1s", "ss", "T."}, {"%d %d", "i", ""},
		{"%", "s", ""}, {"%5", "i", ""}, {"%.", "i", ""}, {"%!", "s", ""}, {"% d", "i", ""}, {"%5 d", "i", ""}, {"%.5.3s", "s", ""}, {"%+#v", "e", ""},
		{"%w", "e", ""}, {"%#T", "g", "T"}, {"%010T|%s", "is", "T."}, {"no verbs", "sei", ""}, {"", "s", ""}, {"%s", "", ""}, {"%z%Z", "si", ""},
		{"\xc3\xa9%s\xff%d", "si", ""}, {"%c%U%q%x%o%b%e", "iiiiiii", ""}, {"%t%p", "ss", ""}, {"%.00s", "s", ""}, {"%.010s", "s", ""},
	} {
		c17fCase(out, c[0], c[1], c[2])
	}
	verbs := "vvvsssddxXqTTTtcpwefgUbo"
	odd := "!zZ~_,)" // never a flag, a digit, '.', '%', '*' or '[': every specification ends at its verb
	lits := []string{"", " ", ": ", "read ", "B): ", "\n", "é", "[", "*", "a.b", "100", "\t", "\xff"}
	for i, n := 0, vlib.Budget(6000, 120000); i < n; i++ {
		var f strings.Builder
		hidden := ""
		nv := r.Intn(5)
		for k := 0; k < nv; k++ {
			f.WriteString(lits[r.Intn(len(lits))])
			if r.Chance(1, 10) {
				f.WriteString("%%")
			}
			f.WriteByte('%')
			for r.Chance(1, 4) {
				f.WriteByte("#0+- "[r.Intn(5)])
			}
			if r.Chance(1, 4) {
				f.WriteString(strconv.Itoa(r.Range(1, 12)))
			}
			if r.Chance(1, 3) {
				f.WriteString([]string{".", ".0", ".00", ".1", ".3", ".6", ".10"}[r.Intn(7)])
			}
			v := verbs[r.Intn(len(verbs))]
			if r.Chance(1, 12) {
				v = odd[r.Intn(len(odd))]
			}
			f.WriteByte(v)
			if v == 'T' {
				hidden += "T"
			} else {
				hidden += "."
			}
			out.Count("fmt-verb:" + string(v))
		}
		f.WriteString(lits[r.Intn(len(lits))])
		if r.Chance(1, 15) {
			f.WriteString([]string{"%", "%-", "%5", "%.3"}[r.Intn(4)])
		}
		na := nv + r.Intn(4) - 1
		if na < 0 {
			na = 0
		}
		kinds := make([]byte, na)
		for j := range kinds {
			kinds[j] = "ssegi"[r.Intn(5)]
		}
		switch {
		case na < nv:
			out.Count("fmt-args:missing")
		case na > nv:
			out.Count("fmt-args:extra")
		default:
			out.Count("fmt-args:exact")
		}
		c17fCase(out, f.String(), string(kinds), hidden)
	}
	// malformed stream: random bytes with a raised share of '%', '.', digits and verbs (no '*', '[' after a '%':
	// the model does not read those and says so)
	for i, n := 0, vlib.Budget(2000, 40000); i < n; i++ {
		b := make([]byte, r.Intn(12))
		for j := range b {
			switch r.Intn(4) {
			case 0:
				b[j] = '%'
			case 1:
				b[j] = ".0123456789#+- "[r.Intn(15)]
			case 2:
				b[j] = "vsdTxq%"[r.Intn(7)]
			default:
				b[j] = byte(r.Range(32, 126))
			}
			if b[j] == '*' || b[j] == '[' {
				b[j] = 'n'
			}
		}
		kinds := make([]byte, r.Intn(4))
		for j := range kinds {
			kinds[j] = "segi"[r.Intn(4)]
		}
		out.Count("fmt-malformed")
		c17fCase(out, string(b), string(kinds), "")
	}
	for _, s := range []string{"", "panic", "fatal", "error", "warn", "warning", "info", "debug", "trace", "WARNING", "Info", "\xc4\xb0nfo", "\xe2\x84\xaa", "warnin", "err", "4", "tracee", " info"} {
		c17fLogrus(out, []byte(s))
	}
	names := []string{"panic", "fatal", "error", "warn", "warning", "info", "debug", "trace"}
	for i, n := 0, vlib.Budget(1500, 30000); i < n; i++ {
		b := []byte(names[r.Intn(len(names))])
		for j := range b {
			if r.Bool() {
				b[j] -= 32
			}
		}
		switch r.Intn(4) {
		case 0:
			b[r.Intn(len(b))] = byte(r.Intn(256))
		case 1:
			b = b[:r.Intn(len(b)+1)]
		case 2:
			b = []byte(strings.ReplaceAll(strings.ReplaceAll(string(b), "i", "İ"), "k", "K"))
		}
		c17fLogrus(out, b)
	}
}

// replay of a `fmtcase|format hex|kinds|hidden` line
func c17fReplay(out *vlib.Out, ln string) bool {
	p := strings.Split(ln, "|")
	if len(p) != 4 || p[0] != "fmtcase" {
		return false
	}
	var raw []byte
	if p[1] != "-" {
		var err error
		if raw, err = hex.DecodeString(p[1]); err != nil {
			return false
		}
	}
	c17fCase(out, string(raw), p[2], p[3])
	fmt.Printf("replay %s\n  observed: %s\n", ln, c17fObserve(string(raw), p[2]))
	return true
}
