//go:build verif

package lib

// Tie 1 (continued) for C17: regenerates lean/CJ/Gen/LogStartup.lean — the statements of `main` that turn the
// configured `log_level` text into the level the process runs at (cmd/application/main.go and
// cmd/registration-server/main.go), in source order, and every call of a SetLevel function or method in the
// non-test sources.  Standard library only (go/ast).
//
//   .declLevel init                 `var logLevel = <init>`
//   .parse guard arg define         `logLevel, err = log.ParseLevel(<arg>)`, with the condition of the if statement
//                                   it stands in ("" when it stands in main's body), define: `:=`
//   .check [d1, d2, …] fatal inIf   the if statement that follows the assignment in the same block: the operands
//                                   of its `||` condition; fatal: the first statement of its body is log.Fatal*;
//                                   inIf: it stands in the same if body as the assignment
//   .setLevel arg guard             `log.SetLevel(<arg>)` with the conditions around it
//   .other text                     any other statement of main that mentions the level variable

import (
	"fmt"
	"go/ast"
	"go/parser"
	"go/token"
	"os"
	"path/filepath"
	"strings"
	"testing"
)

type c17sProg struct {
	file, logger string
	stmts        []string
}

func c17sOrSplit(e ast.Expr) []ast.Expr {
	if p, ok := e.(*ast.ParenExpr); ok {
		return c17sOrSplit(p.X)
	}
	if b, ok := e.(*ast.BinaryExpr); ok && b.Op == token.LOR {
		return append(c17sOrSplit(b.X), c17sOrSplit(b.Y)...)
	}
	return []ast.Expr{e}
}

func c17sMentions(n ast.Node, name string) bool {
	found := false
	ast.Inspect(n, func(x ast.Node) bool {
		if id, ok := x.(*ast.Ident); ok && id.Name == name {
			found = true
		}
		return !found
	})
	return found
}

func c17sParseCall(fset *token.FileSet, s ast.Stmt) (*ast.AssignStmt, *ast.CallExpr) {
	as, ok := s.(*ast.AssignStmt)
	if !ok || len(as.Rhs) != 1 {
		return nil, nil
	}
	c, ok := as.Rhs[0].(*ast.CallExpr)
	if !ok || !strings.HasSuffix(c17xText(fset, c.Fun), ".ParseLevel") {
		return nil, nil
	}
	return as, c
}

func c17sMain(root, rel string) (*c17sProg, error) {
	fset := token.NewFileSet()
	af, err := parser.ParseFile(fset, filepath.Join(root, rel), nil, 0)
	if err != nil {
		return nil, err
	}
	p := &c17sProg{file: rel, logger: "none"}
	for _, im := range af.Imports {
		name := ""
		if im.Name != nil {
			name = im.Name.Name
		}
		switch strings.Trim(im.Path.Value, `"`) {
		case "github.com/refraction-networking/conjure/pkg/station/log":
			if name == "" || name == "log" {
				p.logger = "station"
			}
		case "github.com/sirupsen/logrus":
			if name == "log" {
				p.logger = "logrus"
			}
		}
	}
	var body *ast.BlockStmt
	for _, d := range af.Decls {
		if fd, ok := d.(*ast.FuncDecl); ok && fd.Name.Name == "main" && fd.Recv == nil {
			body = fd.Body
		}
	}
	if body == nil {
		return nil, fmt.Errorf("%s: no func main", rel)
	}
	// first pass: the level variable is the first left-hand side of the ParseLevel assignment
	lv := ""
	ast.Inspect(body, func(n ast.Node) bool {
		if s, ok := n.(ast.Stmt); ok {
			if as, _ := c17sParseCall(fset, s); as != nil && lv == "" {
				lv = c17xText(fset, as.Lhs[0])
			}
		}
		return true
	})
	if lv == "" {
		return nil, fmt.Errorf("%s: main has no ParseLevel assignment", rel)
	}
	q := c17xLeanStr
	var block func(list []ast.Stmt, guard string, inIf bool)
	block = func(list []ast.Stmt, guard string, inIf bool) {
		for i, s := range list {
			if as, c := c17sParseCall(fset, s); as != nil {
				arg := ""
				if len(c.Args) == 1 {
					arg = c17xText(fset, c.Args[0])
				}
				errv := ""
				if len(as.Lhs) == 2 {
					errv = c17xText(fset, as.Lhs[1])
				}
				p.stmts = append(p.stmts, fmt.Sprintf(".parse %s %s %s %v", q(guard), q(arg), q(errv), as.Tok == token.DEFINE))
				if i+1 < len(list) {
					if is, ok := list[i+1].(*ast.IfStmt); ok && is.Init == nil {
						var ds []string
						for _, d := range c17sOrSplit(is.Cond) {
							ds = append(ds, q(c17xText(fset, d)))
						}
						fatal := false
						if len(is.Body.List) > 0 {
							if es, ok := is.Body.List[0].(*ast.ExprStmt); ok {
								if c, ok := es.X.(*ast.CallExpr); ok {
									fn := c17xText(fset, c.Fun)
									fatal = fn == "log.Fatal" || fn == "log.Fatalf" || fn == "log.Fatalln"
								}
							}
						}
						p.stmts = append(p.stmts, fmt.Sprintf(".check [%s] %v %v", strings.Join(ds, ", "), fatal && is.Else == nil, inIf))
					}
				}
				continue
			}
			if i > 0 {
				if as, _ := c17sParseCall(fset, list[i-1]); as != nil {
					if _, ok := s.(*ast.IfStmt); ok {
						continue // recorded as the check
					}
				}
			}
			switch x := s.(type) {
			case *ast.DeclStmt:
				if gd, ok := x.Decl.(*ast.GenDecl); ok && gd.Tok == token.VAR {
					for _, sp := range gd.Specs {
						vs := sp.(*ast.ValueSpec)
						for j, n := range vs.Names {
							if n.Name != lv {
								continue
							}
							init := "<zero>"
							if j < len(vs.Values) {
								init = c17xText(fset, vs.Values[j])
							}
							p.stmts = append(p.stmts, ".declLevel "+q(init))
						}
					}
				}
				continue
			case *ast.IfStmt:
				has := false
				for _, t := range x.Body.List {
					if as, _ := c17sParseCall(fset, t); as != nil {
						has = true
					}
				}
				if has && x.Init == nil && x.Else == nil && guard == "" {
					block(x.Body.List, c17xText(fset, x.Cond), true)
					continue
				}
			case *ast.ExprStmt:
				if c, ok := x.X.(*ast.CallExpr); ok && strings.HasSuffix(c17xText(fset, c.Fun), ".SetLevel") && len(c.Args) == 1 {
					p.stmts = append(p.stmts, fmt.Sprintf(".setLevel %s %s %s", q(c17xText(fset, c.Fun)), q(c17xText(fset, c.Args[0])), q(guard)))
					continue
				}
			}
			if c17sMentions(s, lv) {
				p.stmts = append(p.stmts, ".other "+q(c17xClipText(c17xText(fset, s))))
			}
		}
	}
	block(body.List, "", false)
	return p, nil
}

// every call of a function or method named SetLevel in the non-test sources (file, enclosing function, call text)
func c17sSetLevelCalls(root string) ([]string, error) {
	var out []string
	dirs := append(append([]string{}, c17xDirs...), "cmd/registration-server", "pkg/regserver", "internal")
	for _, d := range dirs {
		err := filepath.Walk(filepath.Join(root, d), func(path string, info os.FileInfo, err error) error {
			if err != nil {
				return nil
			}
			rel, _ := filepath.Rel(root, path)
			if info.IsDir() {
				for _, s := range c17xSkipDirs {
					if rel == s {
						return filepath.SkipDir
					}
				}
				if rel == "internal/vlib" || strings.HasPrefix(rel, "internal/vc") {
					return filepath.SkipDir
				}
				return nil
			}
			if !strings.HasSuffix(path, ".go") || strings.HasSuffix(path, "_test.go") {
				return nil
			}
			fset := token.NewFileSet()
			af, err := parser.ParseFile(fset, path, nil, 0)
			if err != nil {
				return err
			}
			for _, dcl := range af.Decls {
				fd, ok := dcl.(*ast.FuncDecl)
				if !ok || fd.Body == nil {
					continue
				}
				ast.Inspect(fd.Body, func(n ast.Node) bool {
					c, ok := n.(*ast.CallExpr)
					if !ok {
						return true
					}
					if sel, ok := c.Fun.(*ast.SelectorExpr); ok && sel.Sel.Name == "SetLevel" {
						out = append(out, fmt.Sprintf("(%s, %s, %s)", c17xLeanStr(rel), c17xLeanStr(fd.Name.Name), c17xLeanStr(c17xText(fset, c))))
					}
					return true
				})
			}
			return nil
		})
		if err != nil {
			return nil, err
		}
	}
	return out, nil
}

// called by TestVerifC17Extract
func c17sWrite(t *testing.T, root string) {
	var b strings.Builder
	b.WriteString("import CJ.Model.Startup\n")
	b.WriteString("/-! GENERATED on every run by go/harness/C17/zz_verif_c17_startup_test.go from the tree under check: the statements of\n`main` that lead from the configured `log_level` text to `SetLevel`, in source order, for the station and for the\nregistration server; every call of a `SetLevel` function or method in the non-test sources.  Do not edit. -/\n")
	b.WriteString("namespace CJ.Gen\nopen CJ.Startup\n\n")
	for _, m := range [][2]string{{"appStartup", "cmd/application/main.go"}, {"regStartup", "cmd/registration-server/main.go"}} {
		p, err := c17sMain(root, m[1])
		if err != nil {
			t.Fatal(err)
		}
		fmt.Fprintf(&b, "def %s : Extracted :=\n  { file := %s, logger := %s, stmts := [\n    %s ] }\n\n", m[0], c17xLeanStr(p.file), c17xLeanStr(p.logger), strings.Join(p.stmts, ",\n    "))
	}
	calls, err := c17sSetLevelCalls(root)
	if err != nil {
		t.Fatal(err)
	}
	b.WriteString("def setLevelCalls : List (String × String × String) := [\n  " + strings.Join(calls, ",\n  ") + "\n]\n\nend CJ.Gen\n")
	out := os.Getenv("VERIF_OUT")
	if out == "" {
		out = os.TempDir()
	}
	if err := os.WriteFile(filepath.Join(out, "LogStartup.lean"), []byte(b.String()), 0o644); err != nil {
		t.Fatal(err)
	}
}
