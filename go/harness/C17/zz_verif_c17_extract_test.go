//go:build verif

package lib

// Tie 1 for C17: regenerates lean/CJ/Gen/LogSites.lean — the table of every logger call in the files
// that handle connections and registrations, with a classification of each argument — from the Go
// sources of the tree under check.  Standard library only (go/ast, go/parser, go/printer, go/token).
//
// Per argument:
//   .lit            a literal
//   .num            an expression built only from literals, atomic.Load*, len, float64/int64/int/uint
//                   conversions, math.Max/Min, X.Len(), arithmetic, and local variables assigned such values
//   .genErr         an error value that went through generalizeErr (directly, or the variable's most
//                   recent assignment before the call is `x = generalizeErr(…)`)
//   .rawErr "f"     an error variable whose most recent assignment before the call is a call of f
//   .typeOf "e"     operand of a %T verb
//   .expr "e"       anything else, by (gofmt-normalised) source text

import (
	"bytes"
	"fmt"
	"go/ast"
	"go/parser"
	"go/printer"
	"go/token"
	"os"
	"path/filepath"
	"regexp"
	"sort"
	"strconv"
	"strings"
	"testing"
)

var c17xFiles = []string{
	"cmd/application/conns.go",
	"cmd/application/main.go",
	"pkg/station/lib/proxies.go",
	"pkg/station/lib/registration.go",
	"pkg/station/lib/registration_ingest.go",
}

var c17xLevels = map[string]string{
	"Trace": "trace", "Tracef": "trace", "Traceln": "trace",
	"Debug": "debug", "Debugf": "debug", "Debugln": "debug",
	"Warn": "warn", "Warnf": "warn", "Warnln": "warn",
	"Error": "error", "Errorf": "error", "Errorln": "error",
	"Info": "info", "Infof": "info", "Infoln": "info",
	"Print": "print", "Printf": "print", "Println": "print",
	"Fatal": "fatal", "Fatalf": "fatal", "Fatalln": "fatal",
	"Panic": "fatal", "Panicf": "fatal", "Panicln": "fatal",
}

type c17xAssign struct {
	pos  token.Pos
	rhs  ast.Expr // nil: unknown (range variable, parameter)
	last  bool    // the variable is the last of several left-hand sides of one call (error position)
	multi bool    // one call with several results on the right-hand side
}

type c17xFunc struct {
	fset    *token.FileSet
	assigns map[string][]c17xAssign
}

func c17xText(fset *token.FileSet, e ast.Expr) string {
	var b bytes.Buffer
	_ = printer.Fprint(&b, fset, e)
	return strings.Join(strings.Fields(b.String()), " ")
}

func (f *c17xFunc) collect(body ast.Node) {
	ast.Inspect(body, func(n ast.Node) bool {
		switch s := n.(type) {
		case *ast.AssignStmt:
			for i, l := range s.Lhs {
				id, ok := l.(*ast.Ident)
				if !ok || id.Name == "_" {
					continue
				}
				a := c17xAssign{pos: s.Pos()}
				if len(s.Rhs) == len(s.Lhs) {
					a.rhs = s.Rhs[i]
				} else if len(s.Rhs) == 1 {
					a.rhs = s.Rhs[0]
					a.multi = true
					a.last = i == len(s.Lhs)-1
				}
				f.assigns[id.Name] = append(f.assigns[id.Name], a)
			}
		case *ast.ValueSpec:
			for i, id := range s.Names {
				a := c17xAssign{pos: s.Pos()}
				if len(s.Values) == len(s.Names) {
					a.rhs = s.Values[i]
				} else if len(s.Values) == 1 {
					a.rhs = s.Values[0]
					a.multi = true
					a.last = i == len(s.Names)-1
				} else {
					a.rhs = &ast.BasicLit{Kind: token.INT, Value: "0"} // zero value
					if s.Type != nil && c17xText(f.fset, s.Type) == "error" {
						a.rhs = nil
					}
				}
				f.assigns[id.Name] = append(f.assigns[id.Name], a)
			}
		case *ast.RangeStmt:
			for _, l := range []ast.Expr{s.Key, s.Value} {
				if id, ok := l.(*ast.Ident); ok && id.Name != "_" {
					f.assigns[id.Name] = append(f.assigns[id.Name], c17xAssign{pos: s.Pos()})
				}
			}
		}
		return true
	})
}

// latest assignment to name before pos
func (f *c17xFunc) latest(name string, pos token.Pos) (c17xAssign, bool) {
	var best c17xAssign
	found := false
	for _, a := range f.assigns[name] {
		if a.pos < pos && (!found || a.pos > best.pos) {
			best, found = a, true
		}
	}
	return best, found
}

var c17xErrName = regexp.MustCompile(`^(err|er|ew|e|eg|err[A-Z]\w*|\w*Err)$`)

func c17xIsCall(e ast.Expr, name string) (*ast.CallExpr, bool) {
	c, ok := e.(*ast.CallExpr)
	if !ok {
		return nil, false
	}
	if id, ok := c.Fun.(*ast.Ident); ok && id.Name == name {
		return c, true
	}
	return nil, false
}

func (f *c17xFunc) isNum(e ast.Expr, pos token.Pos, depth int) bool {
	if depth > 6 {
		return false
	}
	switch x := e.(type) {
	case *ast.BasicLit:
		return x.Kind == token.INT || x.Kind == token.FLOAT
	case *ast.ParenExpr:
		return f.isNum(x.X, pos, depth+1)
	case *ast.BinaryExpr:
		switch x.Op {
		case token.ADD, token.SUB, token.MUL, token.QUO, token.REM:
			return f.isNum(x.X, pos, depth+1) && f.isNum(x.Y, pos, depth+1)
		}
		return false
	case *ast.CallExpr:
		fn := c17xText(f.fset, x.Fun)
		switch fn {
		case "atomic.LoadInt64", "atomic.LoadInt32", "atomic.LoadUint64", "atomic.LoadUint32", "len":
			return true
		case "float64", "int64", "int", "uint", "uint64", "int32", "uint32", "math.Max", "math.Min":
			for _, a := range x.Args {
				if !f.isNum(a, pos, depth+1) {
					return false
				}
			}
			return true
		}
		if strings.HasSuffix(fn, ".Len") || strings.HasSuffix(fn, ".Milliseconds") {
			return true
		}
		return false
	case *ast.Ident:
		as := f.assigns[x.Name]
		if len(as) == 0 {
			return false
		}
		for _, a := range as {
			// results of multi-value calls and range variables are not numbers we can vouch for
			if a.rhs == nil || a.multi || !f.isNum(a.rhs, a.pos, depth+1) {
				return false
			}
		}
		return true
	}
	return false
}

// classify returns the Lean term for one argument
func (f *c17xFunc) classify(e ast.Expr, verb string, pos token.Pos) string {
	q := func(s string) string { return c17xLeanStr(s) }
	if verb == "T" {
		return ".typeOf " + q(c17xText(f.fset, e))
	}
	if _, ok := e.(*ast.BasicLit); ok {
		return ".lit"
	}
	if _, ok := c17xIsCall(e, "generalizeErr"); ok {
		return ".genErr"
	}
	// x.Error() → classify x
	if c, ok := e.(*ast.CallExpr); ok {
		if sel, ok := c.Fun.(*ast.SelectorExpr); ok && sel.Sel.Name == "Error" && len(c.Args) == 0 {
			return f.classify(sel.X, verb, pos)
		}
	}
	if id, ok := e.(*ast.Ident); ok {
		a, found := f.latest(id.Name, pos)
		isErrVar := c17xErrName.MatchString(id.Name) || (found && a.last)
		if isErrVar {
			if !found || a.rhs == nil {
				return ".rawErr " + q("?"+id.Name)
			}
			if _, ok := c17xIsCall(a.rhs, "generalizeErr"); ok {
				return ".genErr"
			}
			if c, ok := a.rhs.(*ast.CallExpr); ok {
				return ".rawErr " + q(c17xText(f.fset, c.Fun))
			}
			return ".rawErr " + q("="+c17xText(f.fset, a.rhs))
		}
	}
	if f.isNum(e, pos, 0) {
		return ".num"
	}
	return ".expr " + q(c17xText(f.fset, e))
}

func c17xLeanStr(s string) string {
	var b strings.Builder
	b.WriteByte('"')
	for _, r := range s {
		switch r {
		case '"':
			b.WriteString(`\"`)
		case '\\':
			b.WriteString(`\\`)
		case '\n':
			b.WriteString(`\n`)
		case '\t':
			b.WriteString(`\t`)
		case '\r':
			b.WriteString(`\r`)
		default:
			b.WriteRune(r)
		}
	}
	b.WriteByte('"')
	return b.String()
}

var c17xVerb = regexp.MustCompile(`%[-+# 0]*[0-9*]*(\.[0-9*]+)?([a-zA-Z%])`)

func c17xVerbs(format string) []string {
	var vs []string
	for _, m := range c17xVerb.FindAllStringSubmatch(format, -1) {
		if m[2] != "%" {
			vs = append(vs, m[2])
		}
	}
	return vs
}

func c17xIsLogger(fset *token.FileSet, recv ast.Expr) bool {
	t := c17xText(fset, recv)
	return t == "log" || t == "golog" || t == "fmt" || strings.HasSuffix(t, "ogger") || strings.HasSuffix(t, ".Logger")
}

type c17xSite struct {
	file, fn string
	line     int
	lean     string
}

func c17xExtract(root string) ([]c17xSite, error) {
	var sites []c17xSite
	for _, rel := range c17xFiles {
		fset := token.NewFileSet()
		file, err := parser.ParseFile(fset, filepath.Join(root, rel), nil, 0)
		if err != nil {
			return nil, err
		}
		for _, d := range file.Decls {
			fd, ok := d.(*ast.FuncDecl)
			if !ok || fd.Body == nil {
				continue
			}
			f := &c17xFunc{fset: fset, assigns: map[string][]c17xAssign{}}
			f.collect(fd.Body)
			ast.Inspect(fd.Body, func(n ast.Node) bool {
				call, ok := n.(*ast.CallExpr)
				if !ok {
					return true
				}
				sel, ok := call.Fun.(*ast.SelectorExpr)
				if !ok {
					return true
				}
				level, ok := c17xLevels[sel.Sel.Name]
				if !ok || !c17xIsLogger(fset, sel.X) {
					return true
				}
				if c17xText(fset, sel.X) == "fmt" {
					if !strings.HasPrefix(sel.Sel.Name, "Print") {
						return true
					}
				}
				args := call.Args
				format := ""
				var verbs []string
				if strings.HasSuffix(sel.Sel.Name, "f") && len(args) > 0 {
					fe := args[0]
					if id, ok := fe.(*ast.Ident); ok {
						if a, found := f.latest(id.Name, call.Pos()); found && a.rhs != nil {
							fe = a.rhs
						}
					}
					if bl, ok := fe.(*ast.BasicLit); ok && bl.Kind == token.STRING {
						if s, err := strconv.Unquote(bl.Value); err == nil {
							format = s
						}
					} else {
						format = "?" + c17xText(fset, fe)
					}
					verbs = c17xVerbs(format)
					args = args[1:]
				}
				var la []string
				for i, a := range args {
					verb := ""
					if i < len(verbs) {
						verb = verbs[i]
					}
					la = append(la, f.classify(a, verb, call.Pos()))
				}
				line := fset.Position(call.Pos()).Line
				sites = append(sites, c17xSite{rel, fd.Name.Name, line, fmt.Sprintf(
					"  { file := %s, fn := %s, line := %d, level := .%s, format := %s,\n    args := [%s] }",
					c17xLeanStr(rel), c17xLeanStr(fd.Name.Name), line, level, c17xLeanStr(format), strings.Join(la, ", "))})
				return true
			})
		}
	}
	sort.SliceStable(sites, func(i, j int) bool {
		if sites[i].file != sites[j].file {
			return sites[i].file < sites[j].file
		}
		return sites[i].line < sites[j].line
	})
	return sites, nil
}

func TestVerifC17Extract(t *testing.T) {
	root := os.Getenv("VERIF_SCRATCH_REPO")
	if root == "" {
		root = "../../.."
	}
	sites, err := c17xExtract(root)
	if err != nil {
		t.Fatal(err)
	}
	if len(sites) < 40 {
		t.Fatalf("only %d logger call sites found: the extractor no longer understands the sources", len(sites))
	}
	var b strings.Builder
	b.WriteString("import CJ.Model.LogTaint\n")
	b.WriteString("/-! GENERATED on every run by go/harness/C17/zz_verif_c17_extract_test.go from the Go sources of the tree\nunder check (logger call sites of conns.go, main.go, proxies.go, registration.go, registration_ingest.go).\nDo not edit. -/\n")
	b.WriteString("namespace CJ.Gen\nopen CJ.LogTaint\n\ndef logSites : List Site := [\n")
	for i, s := range sites {
		b.WriteString(s.lean)
		if i+1 < len(sites) {
			b.WriteString(",")
		}
		b.WriteString("\n")
	}
	b.WriteString("]\n\nend CJ.Gen\n")
	out := os.Getenv("VERIF_OUT")
	if out == "" {
		out = os.TempDir()
	}
	if err := os.WriteFile(filepath.Join(out, "LogSites.lean"), []byte(b.String()), 0o644); err != nil {
		t.Fatal(err)
	}
}
