//go:build verif

package lib

// Tie 1 for C17: regenerates lean/CJ/Gen/LogSites.lean from the Go sources of the tree under check.
// Standard library only (go/ast, go/parser, go/printer, go/token, reflect).
//
//  * logSites — every logger call, every logger prefix (log.New's second argument, SetPrefix) in every
//    non-test Go file under cmd/application, pkg/station (but the logger package itself), pkg/transports
//    and pkg/dtls (but its examples), with a classification of each printed value:
//      .lit            a literal
//      .num            an expression built only from literals, atomic.Load*, len, float64/int64/int/uint
//                      conversions, math.Max/Min, X.Len(), arithmetic, and local variables assigned such values
//      .genErr         an error value that went through generalizeErr (directly, or every assignment of
//                      the variable that can reach the call is `x = generalizeErr(…)`)
//      .rawErr "f"     an error variable that a call of f can have assigned when the call is reached
//      .typeOf "e"     operand of a %T verb
//      .expr "e"       anything else: by (gofmt-normalised) source text; a plain identifier as
//                      `name=<right-hand side>` of each assignment that can reach the call,
//                      `name=param(<function>)`, `name=range(<expr>)` or `name=?`
//    fmt.Sprintf / fmt.Sprint / string concatenation / string(x) are looked through (the parts are
//    classified one by one), also through a local variable that holds such a value.  Assignments in the
//    then-branch of `if logClientIP { … }` are left out (the property is about logging switched off;
//    `logClientIPAssigns` below is what shows that it is off unless asked for).
//  * levelEmitted — which logger methods write at the default level (runtime: a fresh logger of
//    pkg/station/log and the package-level functions are called and their output observed).
//  * logClientIPAssigns — the right-hand side of every assignment to logClientIP in cmd/application.
//  * flattenSites — where an error is flattened into text (fmt.Errorf with an error under a verb other than
//    %w) on the paths that feed generalizeErr.
//  * summaryFields — the fields (reflect: name, Go type) of tunnelStats and regExpireLogMsg and the JSON
//    keys of DecoyRegistration.String().

import (
	"bytes"
	"encoding/json"
	"fmt"
	"go/ast"
	"go/printer"
	"go/token"
	golog "log"
	"net"
	"os"
	"path/filepath"
	"reflect"
	"regexp"
	"sort"
	"strconv"
	"strings"
	"testing"
	"time"

	"github.com/refraction-networking/conjure/pkg/core"
	"github.com/refraction-networking/conjure/pkg/station/log"
	pb "github.com/refraction-networking/conjure/proto"
)

var c17xDirs = []string{"cmd/application", "pkg/station", "pkg/transports", "pkg/dtls"}

// directories that are not station code: the logger itself (its methods are the sinks, not call sites)
// and stand-alone example programs
var c17xSkipDirs = []string{"pkg/station/log", "pkg/dtls/examples"}

var c17xLevels = map[string]string{
	"Trace": "trace", "Tracef": "trace", "Traceln": "trace",
	"Debug": "debug", "Debugf": "debug", "Debugln": "debug",
	"Warn": "warn", "Warnf": "warn", "Warnln": "warn",
	"Error": "error", "Errorf": "error", "Errorln": "error",
	"Info": "info", "Infof": "info", "Infoln": "info",
	"Print": "print", "Printf": "print", "Println": "print",
	"Fatal": "fatal", "Fatalf": "fatal", "Fatalln": "fatal",
	"Panic": "fatal", "Panicf": "fatal", "Panicln": "fatal",
}

type c17xAssign struct {
	pos    token.Pos
	rhs    ast.Expr // nil: unknown (range variable, declared error)
	rng    ast.Expr // range statement: the ranged-over expression
	last   bool     // the variable is the last of several left-hand sides of one call (error position)
	multi  bool     // one call with several results on the right-hand side
	define bool     // := or var: introduces a variable in its scope
	scope  ast.Node // innermost enclosing scope node
	guard  bool     // inside the then-branch of `if logClientIP`
}

type c17xFunc struct {
	fset    *token.FileSet
	name    string
	assigns map[string][]c17xAssign
	params  map[string]bool
	loops   []ast.Node // for / range statements of the function
	loggers map[string]bool
	skipped *[]string
	me      *c17xFn    // the same function in the index of all functions (error summaries, client-derived values)
	ix      *c17xIndex
}

func c17xText(fset *token.FileSet, e ast.Node) string {
	var b bytes.Buffer
	_ = printer.Fprint(&b, fset, e)
	return strings.Join(strings.Fields(b.String()), " ")
}

func c17xIsScope(n ast.Node) bool {
	switch n.(type) {
	case *ast.BlockStmt, *ast.IfStmt, *ast.ForStmt, *ast.RangeStmt, *ast.SwitchStmt, *ast.TypeSwitchStmt,
		*ast.CaseClause, *ast.CommClause, *ast.FuncLit, *ast.SelectStmt:
		return true
	}
	return false
}

var c17xLoggerType = regexp.MustCompile(`^\*?(log|golog)\.Logger$`)

func (f *c17xFunc) collect(body ast.Node) {
	var stack []ast.Node
	scopeOf := func() ast.Node {
		for i := len(stack) - 1; i >= 0; i-- {
			if c17xIsScope(stack[i]) {
				return stack[i]
			}
		}
		return body
	}
	// inside the then-branch of `if logClientIP { … }`
	guarded := func() bool {
		for i := len(stack) - 1; i > 0; i-- {
			if blk, ok := stack[i].(*ast.BlockStmt); ok {
				if is, ok := stack[i-1].(*ast.IfStmt); ok && is.Body == blk {
					if id, ok := is.Cond.(*ast.Ident); ok && id.Name == "logClientIP" {
						return true
					}
				}
			}
		}
		return false
	}
	add := func(name string, a c17xAssign) {
		a.scope, a.guard = scopeOf(), guarded()
		f.assigns[name] = append(f.assigns[name], a)
		if a.rhs != nil && f.isLoggerExpr(a.rhs) {
			f.loggers[name] = true
		}
	}
	ast.Inspect(body, func(n ast.Node) bool {
		if n == nil {
			stack = stack[:len(stack)-1]
			return true
		}
		switch s := n.(type) {
		case *ast.AssignStmt:
			for i, l := range s.Lhs {
				id, ok := l.(*ast.Ident)
				if !ok || id.Name == "_" {
					continue
				}
				a := c17xAssign{pos: s.Pos(), define: s.Tok == token.DEFINE}
				if len(s.Rhs) == len(s.Lhs) {
					a.rhs = s.Rhs[i]
				} else if len(s.Rhs) == 1 {
					a.rhs = s.Rhs[0]
					a.multi = true
					a.last = i == len(s.Lhs)-1
				}
				add(id.Name, a)
			}
		case *ast.ValueSpec:
			for i, id := range s.Names {
				a := c17xAssign{pos: s.Pos(), define: true}
				if len(s.Values) == len(s.Names) {
					a.rhs = s.Values[i]
				} else if len(s.Values) == 1 {
					a.rhs = s.Values[0]
					a.multi = true
					a.last = i == len(s.Names)-1
				} else {
					a.rhs = &ast.BasicLit{Kind: token.INT, Value: "0"} // zero value
					if s.Type != nil {
						switch t := c17xText(f.fset, s.Type); {
						case t == "error":
							a.rhs = nil
						case t == "string":
							a.rhs = &ast.BasicLit{Kind: token.STRING, Value: `""`}
						case c17xLoggerType.MatchString(t):
							f.loggers[id.Name] = true
						}
					}
				}
				add(id.Name, a)
			}
		case *ast.RangeStmt:
			f.loops = append(f.loops, s)
			for _, l := range []ast.Expr{s.Key, s.Value} {
				if id, ok := l.(*ast.Ident); ok && id.Name != "_" {
					stack = append(stack, n) // the range statement is the scope of its variables
					add(id.Name, c17xAssign{pos: s.Pos(), rng: s.X, define: s.Tok == token.DEFINE})
					stack = stack[:len(stack)-1]
				}
			}
		case *ast.ForStmt:
			f.loops = append(f.loops, s)
		case *ast.FuncLit:
			for _, fl := range s.Type.Params.List {
				for _, nm := range fl.Names {
					f.params[nm.Name] = true
					if c17xLoggerType.MatchString(c17xText(f.fset, fl.Type)) {
						f.loggers[nm.Name] = true
					}
					if f.me != nil {
						if _, dup := f.me.ptypes[nm.Name]; !dup {
							f.me.ptypes[nm.Name] = c17xText(f.fset, fl.Type)
						}
					}
				}
			}
		}
		stack = append(stack, n)
		return true
	})
}

func c17xContains(n ast.Node, p token.Pos) bool { return n.Pos() <= p && p < n.End() }

// reaching returns the assignments of name that can have produced its value at pos: the latest one whose
// scope contains pos, every plain assignment after it in a scope that does not contain pos (a branch that
// may or may not have run), and every assignment inside a loop that contains pos (next iteration).
func (f *c17xFunc) reaching(name string, pos token.Pos) []c17xAssign {
	var dom *c17xAssign
	all := f.assigns[name]
	for i := range all {
		a := &all[i]
		if a.pos < pos && c17xContains(a.scope, pos) && (dom == nil || a.pos > dom.pos) {
			dom = a
		}
	}
	var out []c17xAssign
	seen := map[token.Pos]bool{}
	push := func(a c17xAssign) {
		if !seen[a.pos] && !a.guard {
			seen[a.pos] = true
			out = append(out, a)
		}
		if a.guard && f.skipped != nil {
			*f.skipped = append(*f.skipped, fmt.Sprintf("%s: %s", f.name, name))
		}
	}
	if dom != nil {
		push(*dom)
	}
	for _, a := range all {
		if a.pos < pos && !c17xContains(a.scope, pos) && !a.define && (dom == nil || a.pos > dom.pos) {
			push(a)
		}
	}
	for _, l := range f.loops {
		// a definition inside the loop that every iteration passes before it reaches pos cuts off what
		// the previous iteration assigned
		if !c17xContains(l, pos) || (dom != nil && dom.pos > l.Pos()) {
			continue
		}
		for _, a := range all {
			if c17xContains(l, a.pos) && a.pos > pos && !(a.define && !c17xContains(a.scope, pos)) {
				push(a)
			}
		}
	}
	sort.Slice(out, func(i, j int) bool { return out[i].pos < out[j].pos })
	return out
}

var c17xErrName = regexp.MustCompile(`^(err|er|ew|e|eg|err[A-Z]\w*|\w*Err)$`)

func c17xIsCall(e ast.Expr, name string) (*ast.CallExpr, bool) {
	c, ok := e.(*ast.CallExpr)
	if !ok {
		return nil, false
	}
	if id, ok := c.Fun.(*ast.Ident); ok && id.Name == name {
		return c, true
	}
	return nil, false
}

func (f *c17xFunc) isNum(e ast.Expr, pos token.Pos, depth int) bool {
	if depth > 6 {
		return false
	}
	switch x := e.(type) {
	case *ast.BasicLit:
		return x.Kind == token.INT || x.Kind == token.FLOAT
	case *ast.ParenExpr:
		return f.isNum(x.X, pos, depth+1)
	case *ast.BinaryExpr:
		switch x.Op {
		case token.ADD:
			return f.isNum(x.X, pos, depth+1) && f.isNum(x.Y, pos, depth+1)
		case token.SUB, token.MUL, token.QUO, token.REM:
			return true // defined on numbers only (durations included)
		}
		return false
	case *ast.CallExpr:
		fn := c17xText(f.fset, x.Fun)
		switch fn {
		case "atomic.LoadInt64", "atomic.LoadInt32", "atomic.LoadUint64", "atomic.LoadUint32", "len", "cap",
			"float64", "float32", "int64", "int", "uint", "uint64", "int32", "uint32", "uint16", "int16", "uint8", "int8",
			"runtime.NumGoroutine":
			return true // conversions to a numeric type compile for numbers only
		case "math.Max", "math.Min":
			for _, a := range x.Args {
				if !f.isNum(a, pos, depth+1) {
					return false
				}
			}
			return true
		}
		if strings.HasSuffix(fn, ".Len") || strings.HasSuffix(fn, ".Milliseconds") {
			return true
		}
		return false
	case *ast.Ident:
		as := f.assigns[x.Name]
		if len(as) == 0 {
			return false
		}
		for _, a := range as {
			// results of multi-value calls and range variables are not numbers we can vouch for
			if a.rhs == nil || a.multi || !f.isNum(a.rhs, a.pos, depth+1) {
				return false
			}
		}
		return true
	}
	return false
}

func c17xDedup(l []string) []string {
	var out []string
	seen := map[string]bool{}
	for _, s := range l {
		if !seen[s] {
			seen[s] = true
			out = append(out, s)
		}
	}
	return out
}

// classify returns the Lean terms for one printed value (one or, when a composite is looked through or
// several assignments can reach the call, several)
func (f *c17xFunc) classify(e ast.Expr, verb string, pos token.Pos, depth int) []string {
	out := f.classify0(e, verb, pos, depth)
	// an expression the reviewed table would be asked about: when the data flow says it is derived from a
	// client address it is reported as such (`.err (.tainted …)`, never accepted), whatever the table says.
	// Identifiers are judged by the assignments that reach the call (that is how the placeholder of the flow
	// description differs from the address assigned under `if logClientIP`).
	if f.me == nil || verb == "T" {
		return out
	}
	for i, o := range out {
		if !strings.HasPrefix(o, ".expr ") {
			continue
		}
		w := ""
		if id, ok := e.(*ast.Ident); ok {
			if !strings.HasPrefix(o, ".expr \""+id.Name+"=") {
				continue // a part of a looked-through composite: it was judged when it was classified
			}
			for _, a := range f.reaching(id.Name, pos) {
				switch {
				case a.rng != nil:
					w = f.me.valueTaint(a.rng, 0)
				case a.rhs != nil:
					w = f.me.valueTaint(a.rhs, 0)
				}
				if w != "" {
					break
				}
			}
			if len(f.reaching(id.Name, pos)) == 0 {
				w = f.me.taintP[id.Name]
			}
		} else if len(out) == 1 {
			w = f.me.valueTaint(e, 0)
		}
		if w != "" {
			out[i] = ".err (.tainted " + c17xLeanStr(c17xClipText(c17xText(f.fset, e))+" ⇐ "+w) + ")"
		}
	}
	return out
}

func (f *c17xFunc) classify0(e ast.Expr, verb string, pos token.Pos, depth int) []string {
	q := func(s string) string { return c17xLeanStr(s) }
	if verb == "T" {
		return []string{".typeOf " + q(c17xText(f.fset, e))}
	}
	switch x := e.(type) {
	case *ast.BasicLit:
		return []string{".lit"}
	case *ast.ParenExpr:
		return f.classify(x.X, verb, pos, depth)
	}
	if _, ok := c17xIsCall(e, "generalizeErr"); ok {
		return f.errArgs(e, pos)
	}
	if c, ok := e.(*ast.CallExpr); ok {
		// an error constructed in place
		if c17xErrCtors[c17xText(f.fset, c.Fun)] {
			return f.errArgs(e, pos)
		}
		// x.Error() → classify x
		if sel, ok := c.Fun.(*ast.SelectorExpr); ok && sel.Sel.Name == "Error" && len(c.Args) == 0 {
			return f.classify(sel.X, verb, pos, depth)
		}
		fn := c17xText(f.fset, c.Fun)
		// composites that print their parts
		if depth < 5 {
			switch fn {
			case "fmt.Sprintf":
				if len(c.Args) > 0 {
					format, verbs := f.formatOf(c.Args[0], pos)
					out := []string{}
					if strings.HasPrefix(format, "?") {
						out = append(out, f.classify(c.Args[0], "", pos, depth+1)...)
					}
					for i, a := range c.Args[1:] {
						v := ""
						if i < len(verbs) {
							v = verbs[i]
						}
						out = append(out, f.classify(a, v, pos, depth+1)...)
					}
					if len(out) == 0 {
						out = []string{".lit"}
					}
					return out
				}
			case "fmt.Sprint", "fmt.Sprintln":
				out := []string{}
				for _, a := range c.Args {
					out = append(out, f.classify(a, "", pos, depth+1)...)
				}
				if len(out) == 0 {
					out = []string{".lit"}
				}
				return out
			case "string":
				if len(c.Args) == 1 {
					return f.classify(c.Args[0], verb, pos, depth+1)
				}
			}
		}
	}
	if f.isNum(e, pos, 0) {
		return []string{".num"}
	}
	if b, ok := e.(*ast.BinaryExpr); ok && b.Op == token.ADD && depth < 5 {
		return append(f.classify(b.X, "", pos, depth+1), f.classify(b.Y, "", pos, depth+1)...)
	}
	if id, ok := e.(*ast.Ident); ok {
		if id.Name == "nil" || id.Name == "true" || id.Name == "false" {
			return []string{".lit"}
		}
		rs := f.reaching(id.Name, pos)
		isErrVar := c17xErrName.MatchString(id.Name)
		for _, a := range rs {
			if a.last {
				isErrVar = true
			}
		}
		if isErrVar {
			return f.errArgs(id, pos)
		}
		if len(rs) == 0 {
			if f.params[id.Name] {
				return []string{".expr " + q(id.Name+"=param("+f.name+")")}
			}
			return []string{".expr " + q(id.Name+"=?")}
		}
		var out []string
		for _, a := range rs {
			switch {
			case a.rng != nil:
				out = append(out, ".expr "+q(id.Name+"=range("+c17xText(f.fset, a.rng)+")"))
			case a.rhs == nil:
				out = append(out, ".expr "+q(id.Name+"=?"))
			case a.multi:
				out = append(out, ".expr "+q(id.Name+"="+c17xText(f.fset, a.rhs)))
			case depth < 5 && f.lookThrough(a.rhs):
				out = append(out, f.classify(a.rhs, "", a.pos, depth+1)...)
			default:
				out = append(out, ".expr "+q(id.Name+"="+c17xText(f.fset, a.rhs)))
			}
		}
		return c17xDedup(out)
	}
	return []string{".expr " + q(c17xText(f.fset, e))}
}

// errArgs: an error value printed by a logger: where it can come from (see zz_verif_c17_errflow_test.go)
func (f *c17xFunc) errArgs(e ast.Expr, pos token.Pos) []string {
	var out []string
	for _, s := range f.me.errSrcs(e, pos, 0, true) {
		if s.tainted == "" && s.text == "~plumbing" {
			s.text = "?received from a channel or a collection"
		}
		out = append(out, ".err ("+f.ix.leanSrc(s)+")")
	}
	if len(out) == 0 {
		return []string{".lit"} // nil, or constant text
	}
	return c17xDedup(out)
}

// lookThrough: the value is a literal, a concatenation or a Sprintf: classify its parts instead of the name
func (f *c17xFunc) lookThrough(e ast.Expr) bool {
	switch x := e.(type) {
	case *ast.BasicLit:
		return true
	case *ast.ParenExpr:
		return f.lookThrough(x.X)
	case *ast.BinaryExpr:
		return x.Op == token.ADD
	case *ast.CallExpr:
		switch c17xText(f.fset, x.Fun) {
		case "fmt.Sprintf", "fmt.Sprint", "fmt.Sprintln", "string":
			return true
		}
	}
	return false
}

func c17xLeanStr(s string) string {
	var b strings.Builder
	b.WriteByte('"')
	for _, r := range s {
		switch r {
		case '"':
			b.WriteString(`\"`)
		case '\\':
			b.WriteString(`\\`)
		case '\n':
			b.WriteString(`\n`)
		case '\t':
			b.WriteString(`\t`)
		case '\r':
			b.WriteString(`\r`)
		default:
			b.WriteRune(r)
		}
	}
	b.WriteByte('"')
	return b.String()
}

var c17xVerb = regexp.MustCompile(`%[-+# 0]*[0-9*]*(\.[0-9*]+)?([a-zA-Z%])`)

func c17xVerbs(format string) []string {
	var vs []string
	for _, m := range c17xVerb.FindAllStringSubmatch(format, -1) {
		if m[2] != "%" {
			vs = append(vs, m[2])
		}
	}
	return vs
}

// formatOf resolves a format argument to its literal text ("?…" when it is not a literal)
func (f *c17xFunc) formatOf(fe ast.Expr, pos token.Pos) (string, []string) {
	if id, ok := fe.(*ast.Ident); ok {
		if rs := f.reaching(id.Name, pos); len(rs) == 1 && rs[0].rhs != nil {
			fe = rs[0].rhs
		}
	}
	if bl, ok := fe.(*ast.BasicLit); ok && bl.Kind == token.STRING {
		if s, err := strconv.Unquote(bl.Value); err == nil {
			return s, c17xVerbs(s)
		}
	}
	return "?" + c17xText(f.fset, fe), nil
}

// receivers that have Print*/Error*/Fatal*… methods or functions but are not loggers
var c17xNotLoggers = map[string]bool{"errors": true, "xerrors": true, "status": true, "codes": true, "t": true, "b": true, "tb": true}

func (f *c17xFunc) isLoggerExpr(e ast.Expr) bool {
	t := c17xText(f.fset, e)
	if id, ok := e.(*ast.Ident); ok && f.loggers[id.Name] {
		return true
	}
	if c, ok := e.(*ast.CallExpr); ok {
		fn := c17xText(f.fset, c.Fun)
		return fn == "log.New" || fn == "golog.New" || fn == "log.Default" || fn == "golog.Default"
	}
	return t == "log" || t == "golog" || strings.HasSuffix(t, "ogger") || strings.HasSuffix(t, ".Logger")
}

func (f *c17xFunc) isLogger(recv ast.Expr) bool {
	t := c17xText(f.fset, recv)
	if c17xNotLoggers[t] {
		return false
	}
	return t == "fmt" || f.isLoggerExpr(recv)
}

type c17xSite struct {
	file, fn string
	line     int
	lean     string
}

// a formatted call (a literal format string): what is printed at each argument position, as classified, and the
// verb this extractor assigned to the position — CJ/Gen/LogFormats.lean lets the Lean model of fmt re-do the assignment
type c17xFmtRec struct {
	file   string
	line   int
	format string
	verbs  []string
	groups [][]string
}

var c17xFmtRecs []c17xFmtRec

func c17xFiles(root string) ([]string, error) {
	var files []string
	for _, d := range c17xDirs {
		err := filepath.Walk(filepath.Join(root, d), func(p string, info os.FileInfo, err error) error {
			if err != nil {
				return err
			}
			rel, _ := filepath.Rel(root, p)
			if info.IsDir() {
				for _, s := range c17xSkipDirs {
					if rel == s {
						return filepath.SkipDir
					}
				}
				return nil
			}
			if strings.HasSuffix(p, ".go") && !strings.HasSuffix(p, "_test.go") && !strings.HasPrefix(filepath.Base(p), "zz_verif") {
				files = append(files, rel)
			}
			return nil
		})
		if err != nil {
			return nil, err
		}
	}
	sort.Strings(files)
	return files, nil
}

// directories whose errors travel up into generalizeErr / a logger of the connection path
var c17xFlattenDirs = []string{"cmd/application/", "pkg/station/lib/", "pkg/transports/wrapping/"}

func c17xExtract(root string) (sites []c17xSite, assigns []string, skipped []string, flatten []string, ix *c17xIndex, err error) {
	ix, err = c17xLoad(root)
	if err != nil {
		return nil, nil, nil, nil, nil, err
	}
	byDecl := map[*ast.FuncDecl]*c17xFn{}
	for _, fn := range ix.fns {
		byDecl[fn.decl] = fn
	}
	for _, cf := range ix.files {
		if !cf.site {
			continue
		}
		rel, fset, file := cf.rel, cf.fset, cf.ast
		// package-level loggers of this file and assignments to logClientIP (declaration included)
		globals := map[string]bool{}
		for _, d := range file.Decls {
			gd, ok := d.(*ast.GenDecl)
			if !ok || gd.Tok != token.VAR {
				continue
			}
			for _, sp := range gd.Specs {
				vs := sp.(*ast.ValueSpec)
				for i, nm := range vs.Names {
					if vs.Type != nil && c17xLoggerType.MatchString(c17xText(fset, vs.Type)) {
						globals[nm.Name] = true
					}
					if nm.Name == "logClientIP" && strings.HasPrefix(rel, "cmd/application/") {
						if i < len(vs.Values) {
							assigns = append(assigns, "init:"+c17xText(fset, vs.Values[i]))
						} else {
							assigns = append(assigns, "init:<zero>")
						}
					}
				}
			}
		}
		if strings.HasPrefix(rel, "cmd/application/") {
			ast.Inspect(file, func(n ast.Node) bool {
				switch s := n.(type) {
				case *ast.AssignStmt:
					for i, l := range s.Lhs {
						if id, ok := l.(*ast.Ident); ok && id.Name == "logClientIP" {
							if len(s.Rhs) == len(s.Lhs) {
								assigns = append(assigns, c17xText(fset, s.Rhs[i]))
							} else {
								assigns = append(assigns, c17xText(fset, s.Rhs[0]))
							}
						}
					}
				case *ast.UnaryExpr:
					if id, ok := s.X.(*ast.Ident); ok && s.Op == token.AND && id.Name == "logClientIP" {
						assigns = append(assigns, "&logClientIP") // its address escapes: anything could set it
					}
				case *ast.IncDecStmt:
					if id, ok := s.X.(*ast.Ident); ok && id.Name == "logClientIP" {
						assigns = append(assigns, "++")
					}
				}
				return true
			})
		}
		for _, d := range file.Decls {
			fd, ok := d.(*ast.FuncDecl)
			if !ok || fd.Body == nil {
				continue
			}
			f := byDecl[fd].c17xFunc
			f.skipped = &skipped
			for g := range globals {
				f.loggers[g] = true
			}
			fields := []*ast.Field{}
			if fd.Recv != nil {
				fields = append(fields, fd.Recv.List...)
			}
			fields = append(fields, fd.Type.Params.List...)
			if fd.Type.Results != nil {
				fields = append(fields, fd.Type.Results.List...)
			}
			for _, fl := range fields {
				for _, nm := range fl.Names {
					f.params[nm.Name] = true
					if c17xLoggerType.MatchString(c17xText(fset, fl.Type)) {
						f.loggers[nm.Name] = true
					}
				}
			}
			// the assignments were collected when the index was built; loggers assigned from a package-level
			// logger or a logger parameter are recognised now that those are known
			for name, as := range f.assigns {
				for _, a := range as {
					if a.rhs != nil && f.isLoggerExpr(a.rhs) {
						f.loggers[name] = true
					}
				}
			}
			// fmt.Errorf that prints an error with a verb other than %w: the error is flattened into opaque
			// text, and with it whatever address an operation error inside it names
			inFlattenDir := false
			for _, d := range c17xFlattenDirs {
				inFlattenDir = inFlattenDir || strings.HasPrefix(rel, d)
			}
			connMethod := strings.HasPrefix(rel, "pkg/dtls/") && fd.Recv != nil &&
				(fd.Name.Name == "Read" || fd.Name.Name == "Write" || fd.Name.Name == "Close" || strings.HasPrefix(fd.Name.Name, "Set"))
			if inFlattenDir || connMethod {
				ast.Inspect(fd.Body, func(n ast.Node) bool {
					call, ok := n.(*ast.CallExpr)
					if !ok || c17xText(fset, call.Fun) != "fmt.Errorf" || len(call.Args) < 2 {
						return true
					}
					_, verbs := f.formatOf(call.Args[0], call.Pos())
					for i, a := range call.Args[1:] {
						verb := "v"
						if i < len(verbs) {
							verb = verbs[i]
						}
						isErr := false
						if id, ok := a.(*ast.Ident); ok && c17xErrName.MatchString(id.Name) {
							isErr = true
						}
						if c, ok := a.(*ast.CallExpr); ok {
							if sel, ok := c.Fun.(*ast.SelectorExpr); ok && sel.Sel.Name == "Error" && len(c.Args) == 0 {
								isErr = true
							}
						}
						if isErr && verb != "w" {
							flatten = append(flatten, fmt.Sprintf("(%s, %s)", c17xLeanStr(rel), c17xLeanStr(fd.Name.Name)))
						}
					}
					return true
				})
			}
			// the conditions under which a call is reached (the if statements around it, inside the function): a
			// reviewed exemption names the guard it was reviewed under, so that a widened guard ends the exemption
			var stack []ast.Node
			guardOf := func() string {
				var gs []string
				for i := 0; i+1 < len(stack); i++ {
					is, ok := stack[i].(*ast.IfStmt)
					if !ok {
						continue
					}
					switch stack[i+1] {
					case ast.Node(is.Body):
						gs = append(gs, c17xText(fset, is.Cond))
					case is.Else:
						gs = append(gs, "!("+c17xText(fset, is.Cond)+")")
					}
				}
				return strings.Join(gs, " && ")
			}
			emit := func(call *ast.CallExpr, level, format string, la []string) {
				line := fset.Position(call.Pos()).Line
				sites = append(sites, c17xSite{rel, fd.Name.Name, line, fmt.Sprintf(
					"  { file := %s, fn := %s, line := %d, level := .%s, format := %s, guard := %s,\n    args := [%s] }",
					c17xLeanStr(rel), c17xLeanStr(fd.Name.Name), line, level, c17xLeanStr(format), c17xLeanStr(guardOf()), strings.Join(la, ", "))})
			}
			ast.Inspect(fd.Body, func(n ast.Node) bool {
				if n == nil {
					stack = stack[:len(stack)-1]
					return true
				}
				stack = append(stack, n)
				call, ok := n.(*ast.CallExpr)
				if !ok {
					return true
				}
				// the builtins print / println write to standard error
				if id, ok := call.Fun.(*ast.Ident); ok && (id.Name == "println" || id.Name == "print") && !f.params[id.Name] {
					var la []string
					for _, a := range call.Args {
						la = append(la, f.classify(a, "", call.Pos(), 0)...)
					}
					emit(call, "print", "<builtin "+id.Name+">", la)
					return true
				}
				sel, ok := call.Fun.(*ast.SelectorExpr)
				if !ok {
					return true
				}
				// the process's standard streams written directly: fmt.Fprint*(os.Stdout / os.Stderr, …),
				// os.Stderr.WriteString(…), os.Stdout.Write(…)
				if fn := c17xText(fset, call.Fun); strings.HasPrefix(fn, "fmt.Fprint") && len(call.Args) > 0 {
					if w := c17xText(fset, call.Args[0]); w == "os.Stdout" || w == "os.Stderr" {
						args, format := call.Args[1:], ""
						var verbs, la []string
						if strings.HasSuffix(fn, "f") && len(args) > 0 {
							format, verbs = f.formatOf(args[0], call.Pos())
							if strings.HasPrefix(format, "?") {
								la = append(la, f.classify(args[0], "", call.Pos(), 0)...)
							}
							args = args[1:]
						}
						var groups [][]string
						for i, a := range args {
							verb := ""
							if i < len(verbs) {
								verb = verbs[i]
							}
							g := f.classify(a, verb, call.Pos(), 0)
							groups = append(groups, g)
							la = append(la, g...)
						}
						if strings.HasSuffix(fn, "f") && !strings.HasPrefix(format, "?") && format != "" {
							c17xFmtRecs = append(c17xFmtRecs, c17xFmtRec{rel, fset.Position(call.Pos()).Line, format, verbs, groups})
						}
						emit(call, "print", format, la)
						return true
					}
				}
				if x := c17xText(fset, sel.X); (x == "os.Stdout" || x == "os.Stderr") && strings.HasPrefix(sel.Sel.Name, "Write") && len(call.Args) == 1 {
					emit(call, "print", "<"+x+"."+sel.Sel.Name+">", f.classify(call.Args[0], "", call.Pos(), 0))
					return true
				}
				// logger prefixes are printed in front of every line
				if fn := c17xText(fset, call.Fun); (fn == "log.New" || fn == "golog.New") && len(call.Args) == 3 {
					emit(call, "print", "<prefix of log.New>", f.classify(call.Args[1], "", call.Pos(), 0))
					return true
				}
				if sel.Sel.Name == "SetPrefix" && len(call.Args) == 1 && f.isLogger(sel.X) {
					emit(call, "print", "<SetPrefix>", f.classify(call.Args[0], "", call.Pos(), 0))
					return true
				}
				level, ok := c17xLevels[sel.Sel.Name]
				if !ok || len(call.Args) == 0 || !f.isLogger(sel.X) {
					return true
				}
				if c17xText(fset, sel.X) == "fmt" {
					if !strings.HasPrefix(sel.Sel.Name, "Print") {
						return true
					}
				}
				args := call.Args
				format := ""
				var verbs []string
				var la []string
				if strings.HasSuffix(sel.Sel.Name, "f") {
					format, verbs = f.formatOf(args[0], call.Pos())
					if strings.HasPrefix(format, "?") {
						la = append(la, f.classify(args[0], "", call.Pos(), 0)...)
					}
					args = args[1:]
				}
				var groups [][]string
				for i, a := range args {
					verb := ""
					if i < len(verbs) {
						verb = verbs[i]
					}
					g := f.classify(a, verb, call.Pos(), 0)
					groups = append(groups, g)
					la = append(la, g...)
				}
				if strings.HasSuffix(sel.Sel.Name, "f") && !strings.HasPrefix(format, "?") {
					c17xFmtRecs = append(c17xFmtRecs, c17xFmtRec{rel, fset.Position(call.Pos()).Line, format, verbs, groups})
				}
				emit(call, level, format, la)
				return true
			})
			// the JSON summaries are printed at every level (`proxy closed {…}`) or handed to a logger as text: what
			// is stored in their string fields is printed — every assignment to such a field and every field of a
			// literal of those types is a sink like an argument of Printf
			if strings.HasPrefix(rel, "pkg/station/lib/") {
				sink := func(pos token.Pos, typ, field string, rhs ast.Expr) {
					line := fset.Position(pos).Line
					la := f.classify(rhs, "", pos, 0)
					sites = append(sites, c17xSite{rel, fd.Name.Name, line, fmt.Sprintf(
						"  { file := %s, fn := %s, line := %d, level := .print, format := %s, guard := \"\",\n    args := [%s] }",
						c17xLeanStr(rel), c17xLeanStr(fd.Name.Name), line, c17xLeanStr("<field "+typ+"."+field+">"), strings.Join(la, ", "))})
				}
				ast.Inspect(fd.Body, func(n ast.Node) bool {
					switch x := n.(type) {
					case *ast.AssignStmt:
						for i, l := range x.Lhs {
							sel, ok := l.(*ast.SelectorExpr)
							if !ok || len(x.Rhs) != len(x.Lhs) {
								continue
							}
							id, ok := sel.X.(*ast.Ident)
							if !ok {
								continue
							}
							for typ, fields := range ix.summaryTypes {
								if !fields[sel.Sel.Name] {
									continue
								}
								if t, known := byDecl[fd].typeOf(id.Name); known && (t.external || t.name != typ) {
									continue // a value of another type that has a field of the same name
								}
								sink(x.Pos(), typ, sel.Sel.Name, x.Rhs[i])
							}
						}
					case *ast.CompositeLit:
						if x.Type == nil {
							return true
						}
						typ := strings.TrimPrefix(c17xText(fset, x.Type), "*")
						fields, ok := ix.summaryTypes[typ]
						if !ok {
							return true
						}
						for _, el := range x.Elts {
							if kv, ok := el.(*ast.KeyValueExpr); ok {
								if k, ok := kv.Key.(*ast.Ident); ok && fields[k.Name] {
									sink(kv.Pos(), typ, k.Name, kv.Value)
								}
							} else {
								sink(el.Pos(), typ, "<positional>", el)
							}
						}
					}
					return true
				})
			}
		}
	}
	sort.SliceStable(sites, func(i, j int) bool {
		if sites[i].file != sites[j].file {
			return sites[i].file < sites[j].file
		}
		return sites[i].line < sites[j].line
	})
	return sites, assigns, c17xDedup(skipped), c17xDedup(flatten), ix, nil
}

// c17xLevelTable: which methods write with the level a new logger starts with.
func c17xLevelTable() ([]string, error) {
	var buf bytes.Buffer
	l := log.New(&buf, "", 0)
	probe := func(f func()) bool { buf.Reset(); f(); return buf.Len() > 0 }
	method := map[string]bool{
		"trace": probe(func() { l.Tracef("x") }), "debug": probe(func() { l.Debugf("x") }), "warn": probe(func() { l.Warnf("x") }),
		"error": probe(func() { l.Errorf("x") }), "info": probe(func() { l.Infof("x") }), "print": probe(func() { l.Printf("x") }),
	}
	old := golog.Writer()
	golog.SetOutput(&buf)
	pkg := map[string]bool{
		"trace": probe(func() { log.Tracef("x") }), "debug": probe(func() { log.Debugf("x") }), "warn": probe(func() { log.Warnf("x") }),
		"error": probe(func() { log.Errorf("x") }), "info": probe(func() { log.Infof("x") }), "print": probe(func() { log.Printf("x") }),
	}
	golog.SetOutput(old)
	var out []string
	for _, k := range []string{"trace", "debug", "warn", "error", "info", "print"} {
		// a level is listed as emitted when either flavour writes
		out = append(out, fmt.Sprintf("(.%s, %v)", k, method[k] || pkg[k]))
	}
	out = append(out, "(.fatal, true)") // Fatal*/Panic* always write (and end the process)
	if !method["print"] {
		return nil, fmt.Errorf("Printf of a fresh logger wrote nothing: the probe does not work")
	}
	return out, nil
}

func c17xSummaryFields() []string {
	var out []string
	dump := func(name string, v any) {
		t := reflect.TypeOf(v)
		for i := 0; i < t.NumField(); i++ {
			fl := t.Field(i)
			if fl.PkgPath != "" {
				continue // unexported: not marshalled
			}
			out = append(out, fmt.Sprintf("(%s, %s, %s)", c17xLeanStr(name), c17xLeanStr(fl.Name), c17xLeanStr(fl.Type.String())))
		}
	}
	dump("tunnelStats", tunnelStats{})
	dump("regExpireLogMsg", regExpireLogMsg{})
	// DecoyRegistration.String() marshals a struct local to the method: take its keys from the output
	src := pb.RegistrationSource_API
	reg := &DecoyRegistration{PhantomIp: net.ParseIP("192.0.2.1"), PhantomPort: 443, Covert: "192.0.2.2:80", Mask: "mask.example",
		Keys: &core.ConjureSharedKeys{SharedSecret: []byte{1, 2, 3}}, Flags: &pb.RegistrationFlags{}, RegistrationSource: &src,
		RegistrationTime: time.Unix(0, 0), registrationAddr: net.ParseIP("203.0.113.9")}
	var m map[string]json.RawMessage
	if err := json.Unmarshal([]byte(reg.String()), &m); err == nil {
		keys := make([]string, 0, len(m))
		for k := range m {
			keys = append(keys, k)
		}
		sort.Strings(keys)
		for _, k := range keys {
			kind := "other"
			switch m[k][0] {
			case '"':
				kind = "string"
			case '{':
				kind = "object"
			case '[':
				kind = "array"
			case 't', 'f':
				kind = "bool"
			case 'n':
				kind = "null"
			default:
				kind = "number"
			}
			out = append(out, fmt.Sprintf("(%s, %s, %s)", c17xLeanStr("DecoyRegistration.String"), c17xLeanStr(k), c17xLeanStr(kind)))
		}
	}
	return out
}

func TestVerifC17Extract(t *testing.T) {
	root := os.Getenv("VERIF_SCRATCH_REPO")
	if root == "" {
		root = "../../.."
	}
	sites, assigns, skipped, flatten, ix, err := c17xExtract(root)
	if err != nil {
		t.Fatal(err)
	}
	if len(sites) < 40 {
		t.Fatalf("only %d logger call sites found: the extractor no longer understands the sources", len(sites))
	}
	levels, err := c17xLevelTable()
	if err != nil {
		t.Fatal(err)
	}
	var b strings.Builder
	b.WriteString("import CJ.Model.LogTaint\n")
	b.WriteString("/-! GENERATED on every run by go/harness/C17/zz_verif_c17_extract_test.go from the tree under check: logger\ncall sites and logger prefixes of every non-test Go file under cmd/application, pkg/station, pkg/transports,\npkg/dtls; the log-level table; the assignments to logClientIP; the fields of the logged summaries.  Do not edit. -/\n")
	b.WriteString("namespace CJ.Gen\nopen CJ.LogTaint\n\ndef logSites : List Site := [\n")
	for i, s := range sites {
		b.WriteString(s.lean)
		if i+1 < len(sites) {
			b.WriteString(",")
		}
		b.WriteString("\n")
	}
	b.WriteString("]\n\n")
	b.WriteString("/-- what every function of this repository that a logged error can come from (transitively) returns as its\nerror; callees before callers; `⟨call, [i, …]⟩` refers to entries of this list -/\n")
	b.WriteString(ix.leanErrFns())
	b.WriteString("\n/-- the class of each entry of `errFns`, computed by the extractor from the summaries and the reviewed tables\nof the Lean model; not trusted: `classes_fixpoint` checks that it solves the class equations -/\n")
	cert, err := ix.certificate()
	if err != nil {
		t.Fatal(err)
	}
	b.WriteString(cert)
	b.WriteString("\n")
	b.WriteString("/-- which logger methods write at the level a logger starts with (observed at run time) -/\n")
	b.WriteString("def levelEmitted : List (Level × Bool) := [" + strings.Join(levels, ", ") + "]\n\n")
	b.WriteString("/-- the initialiser of each declaration of `logClientIP` (`<zero>`: none) and the right-hand side of every\nassignment to it, in cmd/application -/\n")
	var qi, qa []string
	for _, a := range assigns {
		if strings.HasPrefix(a, "init:") {
			qi = append(qi, c17xLeanStr(strings.TrimPrefix(a, "init:")))
		} else {
			qa = append(qa, c17xLeanStr(a))
		}
	}
	b.WriteString("def logClientIPInit : List String := [" + strings.Join(qi, ", ") + "]\n")
	b.WriteString("def logClientIPAssigns : List String := [" + strings.Join(qa, ", ") + "]\n\n")
	b.WriteString("/-- assignments left out because they stand in the then-branch of `if logClientIP` -/\n")
	var qs []string
	for _, a := range skipped {
		qs = append(qs, c17xLeanStr(a))
	}
	b.WriteString("def guardedByLogClientIP : List String := [" + strings.Join(qs, ", ") + "]\n\n")
	b.WriteString("/-- (file, function) of every fmt.Errorf that prints an error with a verb other than %w — the error is\nflattened into opaque text — in cmd/application, pkg/station/lib, pkg/transports/wrapping and in the\nRead / Write / Close / Set* methods of pkg/dtls -/\n")
	b.WriteString("def flattenSites : List (String × String) := [" + strings.Join(flatten, ", ") + "]\n\n")
	b.WriteString("/-- (summary, field or JSON key, Go type or JSON kind) of what the station prints as JSON -/\n")
	b.WriteString("def summaryFields : List (String × String × String) := [\n  " + strings.Join(c17xSummaryFields(), ",\n  ") + "\n]\n\n")
	b.WriteString("end CJ.Gen\n")
	out := os.Getenv("VERIF_OUT")
	if out == "" {
		out = os.TempDir()
	}
	if err := os.WriteFile(filepath.Join(out, "LogSites.lean"), []byte(b.String()), 0o644); err != nil {
		t.Fatal(err)
	}
	if err := os.WriteFile(filepath.Join(out, "LogFormats.lean"), []byte(c17xLeanFormats(sites)), 0o644); err != nil {
		t.Fatal(err)
	}
	c17sWrite(t, root)
}

// LogFormats.lean: every formatted logger call with a literal format — the format as bytes (the Lean model of
// fmt parses them), the verb this extractor assigned to each argument position (regular expression c17xVerb), the
// classification of what stands at each position, and the index of the call in logSites
func c17xLeanFormats(sites []c17xSite) string {
	var b strings.Builder
	b.WriteString("import CJ.Model.Fmt\n")
	b.WriteString("/-! GENERATED on every run by go/harness/C17/zz_verif_c17_extract_test.go from the tree under check: every logger call\nwith a literal format string — its bytes, the verb the extractor assigned to every argument position, the\nclassification of the argument at every position, its index in `CJ.Gen.logSites`.  Do not edit. -/\n")
	b.WriteString("namespace CJ.Gen\nopen CJ.LogTaint CJ.Fmt\n\ndef siteFormats : List FmtSite := [\n")
	first := true
	for _, r := range c17xFmtRecs {
		idx := -1
		for i, s := range sites {
			if s.file == r.file && s.line == r.line && strings.Contains(s.lean, "format := "+c17xLeanStr(r.format)+",") {
				idx = i
			}
		}
		if idx < 0 {
			continue
		}
		if !first {
			b.WriteString(",\n")
		}
		first = false
		var bs, vs, gs []string
		for _, c := range []byte(r.format) {
			bs = append(bs, strconv.Itoa(int(c)))
		}
		for _, v := range r.verbs {
			vs = append(vs, strconv.Itoa(int(v[0])))
		}
		for _, g := range r.groups {
			gs = append(gs, "["+strings.Join(g, ", ")+"]")
		}
		fmt.Fprintf(&b, "  { idx := %d, line := %d, format := [%s], verbs := [%s],\n    groups := [%s] }", idx, r.line, strings.Join(bs, ", "), strings.Join(vs, ", "), strings.Join(gs, ", "))
	}
	b.WriteString("\n]\n\nend CJ.Gen\n")
	return b.String()
}
