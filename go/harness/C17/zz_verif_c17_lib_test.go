//go:build verif

package lib

// C17, package lib: (A) error trees through the real generalizeErr of proxies.go (correspondence with the
// Lean model of error texts, errors.Is, the timeout test and the sanitiser; oracle: the result names no
// endpoint); (B) every realistic error shape injected at every I/O call of halfPipe / Proxy on either
// connection, in both directions, with distinctive client addresses — everything written to the logger,
// to the package-level logger and into the tunnel summary is scanned for the client address in every
// textual form; (C) registrations with distinctive registrant addresses through ingestRegistration with
// every outcome, the registration digest and the expiry record.

import (
	"bytes"
	"context"
	"fmt"
	"io"
	golog "log"
	"net"
	"os"
	"path/filepath"
	"runtime"
	"strings"
	"sync"
	"syscall"
	"testing"
	"time"

	"github.com/go-redis/redis/v8"
	"github.com/refraction-networking/conjure/internal/vc17"
	"github.com/refraction-networking/conjure/internal/vlib"
	"github.com/refraction-networking/conjure/pkg/core"
	"github.com/refraction-networking/conjure/pkg/station/geoip"
	"github.com/refraction-networking/conjure/pkg/station/log"
	"github.com/refraction-networking/conjure/pkg/transports"
	pb "github.com/refraction-networking/conjure/proto"
	"google.golang.org/protobuf/proto"
)

type c17Buf struct {
	mu sync.Mutex
	b  bytes.Buffer
}

func (b *c17Buf) Write(p []byte) (int, error) {
	b.mu.Lock()
	defer b.mu.Unlock()
	return b.b.Write(p)
}
func (b *c17Buf) String() string {
	b.mu.Lock()
	defer b.mu.Unlock()
	return b.b.String()
}
// Take returns the content and empties the buffer in one step.
func (b *c17Buf) Take() string {
	b.mu.Lock()
	defer b.mu.Unlock()
	s := b.b.String()
	b.b.Reset()
	return s
}
func (b *c17Buf) Reset() {
	b.mu.Lock()
	b.b.Reset()
	b.mu.Unlock()
}

// c17FDs holds the process's file descriptors 1 and 2 for the time of the harness: what the code under test
// writes through a logger on os.Stdout / os.Stderr, through the standard logger when nobody redirected it, with
// fmt.Print* or println is scanned together with the loggers the harness hands in.
var c17FDs *vc17.FDCapture

// c17Std: what went to the standard logger and to the standard streams since the last reset
func c17Std(glob *c17Buf) string {
	s := glob.Take()
	if c17FDs != nil {
		s += c17FDs.Take()
	}
	return s
}

// c17StdReset starts a new scenario: what was written to the standard logger / streams since the last scan
// belongs to no scenario; it is scanned for every client before it is dropped.
func c17StdReset(glob *c17Buf) {
	rest := c17Std(glob)
	if c17StdOut == nil || rest == "" {
		return
	}
	c17StdOut.Checked()
	for _, cl := range vc17.Clients() {
		if hit := vc17.Scan(rest, cl.Needles); hit != "" {
			c17Fail(c17StdOut, "C17:std-stream-has-client-address", "between scenarios the process's standard logger / standard streams received "+hit+": "+c17Clip(rest, hit), "relay|std")
		}
	}
}

var c17StdOut *vlib.Out

// c17Fail reports at most a handful of failures per signature, so that every signature that occurs is
// among the failures the check gets to see.
var c17FailN = map[string]int{}

func c17Fail(out *vlib.Out, sig, what, replay string) {
	c17FailN[sig]++
	if c17FailN[sig] <= 6 {
		out.OracleFail(sig, what, replay)
	}
}

// ---------------------------------------------------------------------------------------------
// (A) generalizeErr

func c17GenCase(out *vlib.Out, n *vc17.Node, all [][]string) {
	err := n.Go()
	out.Case("text|"+n.Enc(), vlib.Hex([]byte(err.Error()))+"|"+vc17.IsFlags(err), true)
	g := generalizeErr(err)
	ans := "nil"
	if g != nil && n.OpaqueAddr() {
		// an address inside opaque text (a flattened operation error, a *net.AddrError): no sanitiser working
		// on error values can remove it (`opaque_address_passes_through`); model and code must agree on what
		// comes out, and no such error reaches a logged generalizeErr (the injection runs below are the check)
		ans = vlib.Hex([]byte(g.Error()))
		out.Count("gen:opaque-address-passes-through")
	} else if g != nil {
		ans = vlib.Hex([]byte(g.Error()))
		out.Checked()
		for _, needles := range all {
			if hit := vc17.Scan(g.Error(), needles); hit != "" {
				c17Fail(out, "C17:generalizeErr-passes-address",
					fmt.Sprintf("generalizeErr (proxies.go) returned %q for %q: endpoint %s is still in the text", g.Error(), err.Error(), hit),
					"gen|0|"+n.Enc())
				break
			}
		}
	}
	out.Case("gen|0|"+n.Enc(), ans, true)
	out.Count("gen:" + n.Kind)
}

// ---------------------------------------------------------------------------------------------
// (B) relay

type c17Conn struct {
	local, remote net.Addr
	chunks        [][]byte
	readErr       error
	readData      []byte // returned together with readErr (a buffering transport hands back what it has decoded
	// along with the error of the socket underneath; the obfs4 connection does)
	writeErr      error
	writePartial  bool // the failing Write reports that part of the data went out
	closeErr      error
	dlErr         error
	dlFailAt      int
	dlCalls       int
	mu            sync.Mutex
	closed        chan struct{}
	once          sync.Once
	block         bool // after the chunks, block until closed instead of returning EOF
	// the k-th call (1-based) of a method fails with kErr: Read, Write, SetDeadline, SetReadDeadline,
	// SetWriteDeadline — whatever happened at the calls before it
	kMethod string
	kAt     int
	kErr    error
	kCalls  map[string]int
	dlNotSup bool // SetDeadline answers ENOTSUP (the obfs4 connection does): the relay falls back to SetReadDeadline
	gate          func() // runs before the first Read and before RemoteAddr answer (Proxy asks for the client's
	// address after it has dialled the covert and before it writes the PROXY header)
	gateOnce sync.Once
}

// kFail counts a call of method and says whether it is the one that fails.
func (c *c17Conn) kFail(method string) bool {
	if c.kMethod == "" {
		return false
	}
	c.mu.Lock()
	defer c.mu.Unlock()
	if c.kCalls == nil {
		c.kCalls = map[string]int{}
	}
	c.kCalls[method]++
	return method == c.kMethod && c.kCalls[method] == c.kAt
}

func (c *c17Conn) waitGate() {
	if c.gate != nil {
		c.gateOnce.Do(c.gate)
	}
}

func newC17Conn(local, remote net.Addr) *c17Conn {
	return &c17Conn{local: local, remote: remote, closed: make(chan struct{}), dlFailAt: -1}
}

func (c *c17Conn) Read(p []byte) (int, error) {
	c.waitGate()
	if c.kFail("Read") {
		return 0, c.kErr
	}
	c.mu.Lock()
	if len(c.chunks) > 0 {
		n := copy(p, c.chunks[0])
		c.chunks = c.chunks[1:]
		c.mu.Unlock()
		return n, nil
	}
	c.mu.Unlock()
	if c.readErr != nil {
		return copy(p, c.readData), c.readErr
	}
	if c.block {
		<-c.closed
		return 0, &net.OpError{Op: "read", Net: "tcp", Source: c.local, Addr: c.remote, Err: net.ErrClosed}
	}
	return 0, io.EOF
}
func (c *c17Conn) Write(p []byte) (int, error) {
	if c.kFail("Write") {
		return 0, c.kErr
	}
	if c.writeErr != nil {
		if c.writePartial {
			return (len(p) + 1) / 2, c.writeErr
		}
		return 0, c.writeErr
	}
	return len(p), nil
}
func (c *c17Conn) Close() error {
	c.once.Do(func() { close(c.closed) })
	return c.closeErr
}
func (c *c17Conn) LocalAddr() net.Addr  { return c.local }
func (c *c17Conn) RemoteAddr() net.Addr { c.waitGate(); return c.remote }
func (c *c17Conn) SetDeadline(t time.Time) error {
	if c.kFail("SetDeadline") {
		return c.kErr
	}
	if c.dlNotSup {
		return syscall.ENOTSUP
	}
	c.mu.Lock()
	defer c.mu.Unlock()
	i := c.dlCalls
	c.dlCalls++
	if c.dlErr != nil && i == c.dlFailAt {
		return c.dlErr
	}
	return nil
}
func (c *c17Conn) SetReadDeadline(t time.Time) error {
	if c.kFail("SetReadDeadline") {
		return c.kErr
	}
	return nil
}
func (c *c17Conn) SetWriteDeadline(t time.Time) error {
	if c.kFail("SetWriteDeadline") {
		return c.kErr
	}
	return nil
}

func c17Settle(base int) {
	for i := 0; i < 100000 && runtime.NumGoroutine() > base; i++ {
		if i < 1000 {
			runtime.Gosched()
		} else {
			time.Sleep(50 * time.Microsecond)
		}
	}
}

// "Read+data": the failing Read returns bytes together with the error
// "Write+partial": the failing Write reports a partial count
var c17Positions = []string{"client.Read", "client.Read+data", "client.Write", "client.Write+partial", "client.Close", "client.SetDeadline#0", "client.SetDeadline#1",
	"covert.Read", "covert.Read+data", "covert.Write", "covert.Write+partial", "covert.Close", "covert.SetDeadline#0", "covert.SetDeadline#1"}

// c17KPositions: the k-th call (k = 1, 2, 3) of each I/O method of either connection.  With three chunks to
// relay the loop of halfPipe comes round three times: k = 1 of SetDeadline is the initial deadline, k = 2, 3 are
// refreshes of the stall deadline after a chunk went through; SetReadDeadline is what the relay falls back to
// on a connection that answers ENOTSUP to SetDeadline.
func c17KPositions() []string {
	var out []string
	for _, side := range []string{"client", "covert"} {
		for _, m := range []string{"Read", "Write", "SetDeadline", "SetReadDeadline", "SetWriteDeadline"} {
			for k := 1; k <= 3; k++ {
				out = append(out, fmt.Sprintf("%s.%s@%d", side, m, k))
			}
		}
	}
	return out
}

// c17SetShapes: what a SetDeadline / SetReadDeadline / SetWriteDeadline call can return: package net's own
// shape (local address only), and — from a connection that a transport wraps — operation errors that name both
// endpoints, as they are, wrapped, and flattened into text.
func c17SetShapes(local, remote *vc17.Addr) []*vc17.Node {
	out := vc17.Shapes("set", local, remote)
	for _, errno := range []syscall.Errno{syscall.EINVAL, syscall.EBADF, syscall.ENOTCONN, syscall.ECONNRESET} {
		both := &vc17.Node{Kind: "O", Txt: "set", Net: "tcp", Src: local, Dst: remote, Inner: &vc17.Node{Kind: "S", Txt: "setsockopt", Inner: &vc17.Node{Kind: "E", N: int(errno)}}}
		out = append(out, both, &vc17.Node{Kind: "W", Txt: "transport", Inner: both}, &vc17.Node{Kind: "F", Txt: "error setting deadline: ", Inner: both})
	}
	return append(out, &vc17.Node{Kind: "O", Txt: "set", Net: "udp", Src: local, Dst: remote, Inner: &vc17.Node{Kind: "dl"}})
}

func c17OpOf(pos string) string {
	if pos == "k" {
		return "k"
	}
	if i := strings.Index(pos, "@"); i >= 0 {
		pos = pos[:i]
	}
	switch {
	case strings.HasSuffix(pos, "Read"), strings.HasSuffix(pos, "Read+data"):
		return "read"
	case strings.HasSuffix(pos, "Write"), strings.HasSuffix(pos, "Write+partial"):
		return "write"
	case strings.HasSuffix(pos, "Close"):
		return "close"
	}
	return "set"
}

// c17Relay runs one halfPipe with the error n injected at pos; returns everything that was logged.
func c17Relay(cl vc17.Client, up bool, pos string, n *vc17.Node, glob *c17Buf) (string, *tunnelStats) {
	st, cov := vc17.Station(), vc17.Covert()
	client := newC17Conn(st.TCP, cl.Addr.TCP)
	covert := newC17Conn(&net.TCPAddr{IP: st.TCP.IP, Port: 50123}, cov.TCP)
	client.chunks = [][]byte{[]byte("hello from the client")}
	covert.chunks = [][]byte{[]byte("hello from the covert")}
	err := n.Go()
	target := client
	if strings.HasPrefix(pos, "covert") {
		target = covert
	}
	if i := strings.Index(pos, "@"); i >= 0 {
		// the k-th call of the method, in a tunnel that has three chunks to move in each direction
		client.chunks = [][]byte{[]byte("first chunk from the client"), []byte("second chunk"), []byte("third chunk")}
		covert.chunks = [][]byte{[]byte("first chunk from the covert"), []byte("second chunk"), []byte("third chunk")}
		target.kMethod, target.kAt, target.kErr = pos[strings.Index(pos, ".")+1:i], int(pos[i+1]-'0'), err
		target.dlNotSup = target.kMethod == "SetReadDeadline"
		pos = "k"
	}
	switch c17OpOf(pos) {
	case "k":
	case "read":
		target.readErr = err
		if strings.HasSuffix(pos, "+data") {
			target.readData = []byte("the last bytes, handed back with the error")
		}
	case "write":
		target.writeErr = err
		target.writePartial = strings.HasSuffix(pos, "+partial")
	case "close":
		target.closeErr = err
	default:
		target.dlErr = err
		target.dlFailAt = int(pos[len(pos)-1] - '0')
	}
	var lb c17Buf
	logger := log.New(&lb, "[CONN] _ -> 192.0.2.77 ", golog.Ldate|golog.Lmicroseconds)
	stats := &tunnelStats{proxyStats: &ProxyStats{}, PhantomAddr: "192.0.2.77", PhantomDstPort: 443, Transport: "Min_Transport"}
	var wg sync.WaitGroup
	wg.Add(1)
	base := runtime.NumGoroutine()
	c17StdReset(glob)
	if up {
		halfPipe(client, covert, &wg, logger, "Up 0011223344556677", stats)
	} else {
		halfPipe(covert, client, &wg, logger, "Down 0011223344556677", stats)
	}
	wg.Wait()
	c17Settle(base)
	stats.Print(logger)
	return lb.String() + c17Std(glob), stats
}

func c17RelayAll(out *vlib.Out, glob *c17Buf) {
	st, cov := vc17.Station(), vc17.Covert()
	for _, cl := range vc17.Clients() {
		for _, up := range []bool{true, false} {
			for _, pos := range append(append([]string{}, c17Positions...), c17KPositions()...) {
				local, remote := st, cl.Addr
				if strings.HasPrefix(pos, "covert") {
					local, remote = &vc17.Addr{Role: 's', TCP: &net.TCPAddr{IP: st.TCP.IP, Port: 50123}}, cov
				}
				shapes := vc17.Shapes(c17OpOf(pos), local, remote)
				if c17OpOf(pos) == "set" {
					shapes = c17SetShapes(local, remote)
				}
				for _, n := range shapes {
					logged, stats := c17Relay(cl, up, pos, n, glob)
					out.Checked()
					out.Count("relay:" + pos)
					if hit := vc17.Scan(logged, cl.Needles); hit != "" {
						c17Fail(out, "C17:relay-log-has-client-address",
							fmt.Sprintf("%s client, %s, error %q injected at %s: the log / tunnel summary contains %s: %s",
								cl.Name, map[bool]string{true: "upload", false: "download"}[up], n.Go().Error(), pos, hit, c17Clip(logged, hit)),
							fmt.Sprintf("relay|%s|%s|%s|%s", cl.Name, vlib.B(up), pos, n.Enc()))
					}
					// correspondence: the statistic recorded for a failed read / write of this direction is
					// the text the model computes for generalizeErr
					reads := (strings.HasPrefix(pos, "client.Read") && up) || (strings.HasPrefix(pos, "covert.Read") && !up)
					writes := (strings.HasPrefix(pos, "covert.Write") && up) || (strings.HasPrefix(pos, "client.Write") && !up)
					if (reads || writes) && !strings.Contains(pos, "@") {
						field := stats.ClientConnErr
						if strings.HasPrefix(pos, "covert") {
							field = stats.CovertConnErr
						}
						ans := "nil"
						if field != "" {
							ans = vlib.Hex([]byte(field))
						}
						out.Case("gen|0|"+n.Enc(), ans, true)
					}
				}
			}
		}
	}
}

func c17Clip(text, needle string) string {
	i := strings.Index(strings.ToLower(text), needle)
	lo, hi := i-90, i+len(needle)+60
	if lo < 0 {
		lo = 0
	}
	if hi > len(text) {
		hi = len(text)
	}
	return "…" + strings.ReplaceAll(text[lo:hi], "\n", " ⏎ ") + "…"
}

// c17Flags: the registration flags that change what Proxy does with the covert connection
var c17Flags = []string{"header-off", "header-on", "no-flags"}

// c17ProxyAll drives the real Proxy: scripted client connection, covert on loopback.  Dimensions: client
// address family; registration flags (PROXY header on / off / no flags message); where the fault is: every
// error shape at the client connection's Read, Write and Close, and what a real covert can do to the
// station's socket — refuse the dial, reset the connection before the station's first write (with the header
// flag that is the write of the PROXY header, otherwise the first relayed write), close it at once, answer
// and close.
func c17ProxyAll(out *vlib.Out, glob *c17Buf) {
	st := vc17.Station()
	for _, cl := range vc17.Clients() {
		type inj struct {
			pos string
			n   *vc17.Node
		}
		var injs []inj
		for _, op := range []string{"read", "write", "close"} {
			for _, n := range vc17.Shapes(op, st, cl.Addr) {
				injs = append(injs, inj{"client." + strings.ToUpper(op[:1]) + op[1:], n})
				if op == "read" {
					injs = append(injs, inj{"client.Read+data", n})
				}
				if op == "write" {
					injs = append(injs, inj{"client.Write+partial", n})
				}
			}
		}
		none := &vc17.Node{Kind: "eof"}
		injs = append(injs, inj{"covert.Dial", &vc17.Node{Kind: "E", N: 111}}, inj{"none", none},
			inj{"covert.Reset", none}, inj{"covert.CloseAtOnce", none}, inj{"covert.ReplyAndClose", none})
		for _, in := range injs {
			for _, flags := range c17Flags {
				c17ProxyOne(out, glob, cl, in.pos, in.n, flags)
			}
		}
	}
}

func c17ProxyOne(out *vlib.Out, glob *c17Buf, cl vc17.Client, pos string, n *vc17.Node, flags string) {
	st := vc17.Station()
	for attempt := 0; attempt < 6; attempt++ {
		ln, err := net.Listen("tcp", "127.0.0.1:0")
		if err != nil {
			panic(err)
		}
		addr := ln.Addr().String()
		srvDone := make(chan struct{})
		faultDone := make(chan struct{}) // closed when the covert has done what the position asks for
		switch pos {
		case "covert.Dial":
			ln.Close()
			close(srvDone)
			close(faultDone)
		default:
			go func() {
				defer close(srvDone)
				defer ln.Close()
				_ = ln.(*net.TCPListener).SetDeadline(time.Now().Add(3 * time.Second))
				c, err := ln.Accept()
				if err != nil {
					close(faultDone)
					return
				}
				defer c.Close()
				switch pos {
				case "covert.Reset":
					_ = c.(*net.TCPConn).SetLinger(0) // close sends RST
					c.Close()
					close(faultDone)
					return
				case "covert.CloseAtOnce":
					c.Close()
					close(faultDone)
					return
				case "covert.ReplyAndClose":
					_, _ = c.Write([]byte("reply from the covert"))
					c.Close()
					close(faultDone)
					return
				}
				close(faultDone)
				_ = c.SetDeadline(time.Now().Add(10 * time.Second))
				_, _ = c.Write([]byte("reply from the covert"))
				_, _ = io.Copy(io.Discard, c)
			}()
		}
		client := newC17Conn(st.TCP, cl.Addr.TCP)
		client.chunks = [][]byte{[]byte("hello from the client")}
		client.block = true
		grace := time.Duration(attempt*attempt) * 2 * time.Millisecond
		if strings.HasPrefix(pos, "covert.") && pos != "covert.Dial" {
			// the station's first write on the covert connection comes after the covert has acted
			client.gate = func() {
				select {
				case <-faultDone:
				case <-time.After(5 * time.Second):
				}
				time.Sleep(200*time.Microsecond + grace)
			}
		}
		e := n.Go()
		switch pos {
		case "client.Read":
			client.readErr = e
		case "client.Read+data":
			client.readErr, client.readData = e, []byte("the last bytes, handed back with the error")
		case "client.Write":
			client.writeErr = e
		case "client.Write+partial":
			client.writeErr, client.writePartial = e, true
		case "client.Close":
			client.closeErr = e
			client.block = false
		case "none", "covert.CloseAtOnce", "covert.ReplyAndClose", "covert.Reset":
			client.block = false
		}
		var lb c17Buf
		logger := log.New(&lb, "[CONN] _ -> 192.0.2.77 ", golog.Ldate|golog.Lmicroseconds)
		c17StdReset(glob)
		reg := c05RegLike(addr, flags == "header-on")
		if flags == "no-flags" {
			reg.Flags = nil
		}
		base := runtime.NumGoroutine()
		done := make(chan struct{})
		go func() { defer close(done); Proxy(reg, client, logger) }()
		select {
		case <-done:
		case <-time.After(20 * time.Second):
			client.Close()
			<-done
		}
		<-srvDone
		c17Settle(base)
		logged := lb.String() + c17Std(glob)
		out.Checked()
		if hit := vc17.Scan(logged, cl.Needles); hit != "" {
			c17Fail(out, "C17:relay-log-has-client-address",
				fmt.Sprintf("Proxy, %s client, flags %s, error %q injected at %s: the log / tunnel summary contains %s: %s",
					cl.Name, flags, e.Error(), pos, hit, c17Clip(logged, hit)),
				fmt.Sprintf("proxy|%s|%s|%s|%s", cl.Name, pos, flags, n.Enc()))
		}
		headerFailed := strings.Contains(logged, "failed to send PROXY header")
		if !strings.Contains(logged, "proxy closed ") && !headerFailed {
			c17Fail(out, "C17:no-tunnel-summary", "Proxy printed neither a tunnel summary nor a PROXY header failure: "+logged, fmt.Sprintf("proxy|%s|%s|%s", cl.Name, pos, flags))
		}
		if pos == "covert.Reset" && flags == "header-on" && !headerFailed {
			// the header went out before the reset arrived: again, with more grace
			out.Count("proxy:covert.Reset:header-written-before-reset")
			continue
		}
		out.Count("proxy:" + pos + ":" + flags)
		if headerFailed {
			out.Count("proxy:header-write-failed")
		}
		return
	}
	out.Note("C17 lib: the covert's reset never arrived before the PROXY header was written; the header write fault was exercised on writePROXYHeader directly only")
}

// c17HeaderWrite: writePROXYHeader with a scripted covert connection whose first write fails in every shape,
// for every textual form a connection's RemoteAddr can take.  Proxy logs the returned error as it is (call
// site `failed to send PROXY header: %s` of the regenerated table): the error must not name the client.
func c17HeaderWrite(out *vlib.Out) {
	st, cov := vc17.Station(), vc17.Covert()
	local := &vc17.Addr{Role: 's', TCP: &net.TCPAddr{IP: st.TCP.IP, Port: 50123}}
	for _, cl := range vc17.Clients() {
		forms := []string{cl.Addr.TCP.String(), (&net.UDPAddr{IP: cl.Addr.TCP.IP, Port: cl.Addr.TCP.Port, Zone: cl.Addr.TCP.Zone}).String()}
		for _, form := range forms {
			shapes := append(vc17.Shapes("write", local, cov), &vc17.Node{Kind: "X", Txt: "short write"})
			for _, n := range shapes {
				covert := newC17Conn(local.TCP, cov.TCP)
				covert.writeErr = n.Go()
				covert.writePartial = len(form)%2 == 0
				err := writePROXYHeader(covert, form)
				out.Checked()
				out.Count("header-write")
				if err == nil {
					c17Fail(out, "C17:harness-header-write", "the injected write fault was not reported by writePROXYHeader", "header|"+cl.Name)
					continue
				}
				if hit := vc17.Scan(err.Error(), cl.Needles); hit != "" {
					c17Fail(out, "C17:proxy-header-error-names-client",
						fmt.Sprintf("writePROXYHeader(covert, %q) with the covert's write failing with %q returns %q: Proxy logs it at error level and it contains %s",
							form, n.Go().Error(), err.Error(), hit),
						fmt.Sprintf("header|%s|%s", cl.Name, n.Enc()))
				}
			}
		}
	}
}

func c05RegLike(covert string, header bool) *DecoyRegistration {
	src := pb.RegistrationSource_API
	var tr Transport = &mockTransport{}
	reg := &DecoyRegistration{
		PhantomIp:          net.ParseIP("192.0.2.77"),
		PhantomPort:        443,
		Covert:             covert,
		Transport:          pb.TransportType_Min,
		TransportPtr:       &tr,
		RegistrationSource: &src,
		Flags:              &pb.RegistrationFlags{ProxyHeader: proto.Bool(header)},
	}
	return reg
}

// ---------------------------------------------------------------------------------------------
// (C) registrations

type c17Live struct{ live bool }

func (l *c17Live) PhantomIsLive(addr string, port uint16) (bool, error) {
	if l.live {
		return true, fmt.Errorf("phantom %s:%d answered", addr, port)
	}
	return false, nil
}
func (l *c17Live) PrintAndReset(*log.Logger) {}
func (l *c17Live) PrintStats(*log.Logger)    {}
func (l *c17Live) Reset()                    {}

func c17Ingest(out *vlib.Out) {
	os.Setenv("PHANTOM_SUBNET_LOCATION", "./test/phantom_subnets.toml")
	for _, cl := range vc17.Clients() {
		for _, level := range []log.Level{log.ErrorLevel, log.TraceLevel} {
			rm := NewRegistrationManager(&RegConfig{EnableIPv4: true, EnableIPv6: true,
				CovertBlocklistSubnets: []string{"192.0.2.0/24", "127.0.0.0/8"}, CovertBlocklistDomains: []string{".*blocked\\.example$"},
				PhantomBlocklist: []string{}})
			if rm == nil {
				panic("no registration manager")
			}
			rm.ParseBlocklists()
			var lb c17Buf
			rm.Logger = log.New(&lb, "[REG] ", golog.Ldate|golog.Lmicroseconds)
			rm.Logger.SetLevel(level)
			rm.registeredDecoys.registerForDetector = func(*DecoyRegistration) {}
			rm.registeredDecoys.updateInDetector = func(*DecoyRegistration) {}
			live := &c17Live{}
			rm.LivenessTester = live
			var tt pb.TransportType = 0
			if err := rm.AddTransport(tt, &mockTransport{}); err != nil {
				panic(err)
			}
			// direct: the registration goes to the registry's exported entry points instead of ingestRegistration,
			// with a transport the registry does not know (a registration built under another configuration):
			// tracking and registering fail, AddRegistration logs the failure
			direct := false
			scenario := func(name string, secret byte, covert string, src pb.RegistrationSource, transport pb.TransportType, isLive bool, times int) {
				live.live = isLive
				c2s, _ := mockReceiveFromDetector()
				c2s.Transport = &transport
				c2s.CovertAddress = proto.String(covert)
				c2s.V4Support = proto.Bool(true)
				c2s.V6Support = proto.Bool(true)
				ss := bytes.Repeat([]byte{secret}, 32)
				w := &pb.C2SWrapper{SharedSecret: ss, RegistrationPayload: c2s, RegistrationSource: &src,
					RegistrationAddress: []byte(cl.Addr.TCP.IP.To16()), DecoyAddress: []byte(net.ParseIP("198.18.0.9").To16())}
				msg, err := proto.Marshal(w)
				if err != nil {
					panic(err)
				}
				for i := 0; i < times; i++ {
					regs, err := rm.parseRegMessage(msg)
					if err != nil {
						rm.Logger.Errorf("Encountered err when creating Reg: %v\n", err) // as startIngestThread does
					}
					for _, reg := range regs {
						if reg != nil {
							if direct {
								reg.Transport = pb.TransportType(77)
								if err := rm.TrackRegistration(reg); err != nil {
									rm.Logger.Errorln("error tracking registration: ", err) // as ingestRegistration does
								}
								rm.AddRegistration(reg)
							} else {
								rm.ingestRegistration(reg)
							}
							// the digest, wherever it is printed
							d := reg.String()
							out.Checked()
							if hit := vc17.Scan(d, cl.Needles); hit != "" {
								c17Fail(out, "C17:digest-has-registrant-address", "DecoyRegistration.String() contains the registrant: "+c17Clip(d, hit),
									fmt.Sprintf("ingest|%s|%s", cl.Name, name))
							}
						}
					}
				}
				out.Count("ingest:" + name)
			}
			scenario("accepted", 1, "93.184.216.34:443", pb.RegistrationSource_API, 0, false, 1)
			scenario("duplicate", 1, "93.184.216.34:443", pb.RegistrationSource_API, 0, false, 2)
			scenario("blocklisted-covert-address", 2, "192.0.2.200:443", pb.RegistrationSource_API, 0, false, 1)
			scenario("blocklisted-covert-domain", 3, "www.blocked.example:443", pb.RegistrationSource_Detector, 0, false, 1)
			scenario("malformed-covert", 4, "no port here", pb.RegistrationSource_API, 0, false, 1)
			scenario("live-phantom", 5, "93.184.216.34:443", pb.RegistrationSource_Detector, 0, true, 1)
			scenario("transport-not-enabled", 6, "93.184.216.34:443", pb.RegistrationSource_API, pb.TransportType_Obfs4, false, 1)
			scenario("bidirectional-api", 7, "93.184.216.34:443", pb.RegistrationSource_BidirectionalAPI, 0, false, 1)
			direct = true
			scenario("transport-unknown-to-registry", 8, "93.184.216.34:443", pb.RegistrationSource_API, 0, false, 2)
			direct = false
			if level == log.ErrorLevel && !strings.Contains(lb.String(), "Error registering decoy") {
				c17Fail(out, "C17:harness-ingest-incomplete", "the registry accepted a registration with an unknown transport: "+lb.String(), "ingest|"+cl.Name)
			}
			// expire everything: backdate the timeout records and sweep
			for _, to := range rm.registeredDecoys.decoysTimeouts {
				to.registrationTime = time.Now().Add(-48 * time.Hour)
			}
			rm.registeredDecoys.removeOldRegistrations(rm.Logger)
			logged := lb.String()
			out.Checked()
			if level == log.ErrorLevel {
				if hit := vc17.Scan(logged, cl.Needles); hit != "" {
					c17Fail(out, "C17:ingest-log-has-registrant-address",
						fmt.Sprintf("%s registrant, default log level: the registration manager's log contains %s: %s", cl.Name, hit, c17Clip(logged, hit)),
						fmt.Sprintf("ingest|%s|default-level", cl.Name))
				}
				continue
			}
			// trace level: the lines that print a digest or an expiry record must still omit the registrant
			seen := map[string]bool{}
			for _, line := range strings.Split(logged, "\n") {
				for _, key := range []string{"New registration:", "expired reg "} {
					if strings.Contains(line, key) {
						seen[key] = true
						if hit := vc17.Scan(line, cl.Needles); hit != "" {
							c17Fail(out, "C17:digest-has-registrant-address", "a digest / expiry line contains the registrant: "+c17Clip(line, hit),
								fmt.Sprintf("ingest|%s|trace-level", cl.Name))
						}
					}
				}
			}
			if !seen["New registration:"] || !seen["expired reg "] {
				c17Fail(out, "C17:harness-ingest-incomplete", fmt.Sprintf("digest / expiry lines were not produced (%v)", seen), "ingest|"+cl.Name)
			}
		}
	}
}

// ---------------------------------------------------------------------------------------------

func TestVerifC17Lib(t *testing.T) {
	os.Setenv("PHANTOM_SUBNET_LOCATION", "./test/phantom_subnets.toml")
	var glob c17Buf
	golog.SetOutput(&glob)
	Stat()
	getProxyStats()
	out := vlib.Open("C17")
	defer out.Close()
	if fds, err := vc17.CaptureFDs(); err != nil {
		out.Note("C17 lib: file descriptors 1 and 2 could not be diverted (" + err.Error() + "); only the loggers are scanned")
	} else {
		c17FDs = fds
		defer func() { c17FDs = nil; fds.Stop() }()
	}
	c17StdOut = out
	defer func() { c17StdOut = nil }()
	out.Note("C17 lib: error trees through generalizeErr (proxies.go); injected errors at every I/O call of halfPipe/Proxy; registrations through ingestRegistration; log output scanned for client addresses in every textual form")
	if rp := vlib.Replay(); rp != "" {
		c17LibReplay(t, out, rp, &glob)
		return
	}
	st, cov := vc17.Station(), vc17.Covert()
	clients := vc17.Clients()
	var all [][]string // client addresses first: they are what the property is about
	var addrs []*vc17.Addr
	for _, cl := range clients {
		all = append(all, cl.Needles)
		addrs = append(addrs, cl.Addr)
	}
	all = append(all, vc17.Needles(st.TCP.IP), vc17.Needles(cov.TCP.IP))
	addrs = append(addrs, st, cov)
	// corpus: the probe of DESIGN §7
	probe := &vc17.Node{Kind: "O", Txt: "read", Net: "tcp", Src: st, Dst: clients[0].Addr, Inner: &vc17.Node{Kind: "E", N: 100}}
	c17GenCase(out, probe, all)
	// (A) every realistic shape of every operation, for every client and for the covert side
	for _, cl := range clients {
		for _, op := range []string{"read", "write", "close", "set", "file"} {
			for _, n := range vc17.Shapes(op, st, cl.Addr) {
				c17GenCase(out, n, all)
			}
		}
	}
	for _, op := range []string{"read", "write", "close", "set", "dial"} {
		for _, n := range vc17.Shapes(op, st, cov) {
			c17GenCase(out, n, all)
		}
	}
	for _, cl := range clients {
		for _, n := range vc17.Opaque(cl.Addr) {
			c17GenCase(out, n, all)
		}
		// what a connecting transport reports when it cannot reach the client: dial errors as they are,
		// wrapped, and flattened into text (differential for the flattened ones: the sanitiser has nothing to
		// strip and returns them with the address, `flattened_structured_stays_tainted`)
		for _, n := range c17ConnectErrors(cl) {
			if n.Kind != "ctx-deadline" {
				c17GenCase(out, n, all)
			}
		}
	}
	r := vlib.NewRand("C17lib")
	for i, n := 0, vlib.Budget(4000, 150000); i < n; i++ {
		c17GenCase(out, vc17.Rand(r, addrs), all)
	}
	// (B)
	c17RelayAll(out, &glob)
	c17ProxyAll(out, &glob)
	c17HeaderWrite(out)
	// (C)
	c17Ingest(out)
	// (D) connecting transports: GeoIP failure, relay over a UDP-addressed connection
	c17Connecting(t, out, &glob)
	c17ConnectFails(out, &glob)
	c17GeoIPShapes(t, out, &glob)
	c17Detector(out, &glob)
	// (E) the statistics printers, after all of the above has been counted
	c17Statistics(out, all[:len(clients)])
	// whatever reached the standard logger or the standard streams outside a scanned scenario
	rest := c17Std(&glob)
	out.Checked()
	for _, needles := range all[:len(clients)] {
		if hit := vc17.Scan(rest, needles); hit != "" {
			c17Fail(out, "C17:std-stream-has-client-address", "the process's standard logger / standard streams contain "+hit+": "+c17Clip(rest, hit), "relay|std")
		}
	}
}

// ---------------------------------------------------------------------------------------------
// (D) handleConnectingTpReg

type c17CT struct {
	mockTransport
	mk func() (net.Conn, error)
}

func (t *c17CT) Connect(ctx context.Context, r transports.Registration) (net.Conn, error) { return t.mk() }

// c17SigStats tells the harness how a connection attempt of a connecting transport ended
type c17SigStats struct {
	c17NoStats
	ended chan string
}

func (s c17SigStats) AddCreatedToTimeoutConnecting(uint, string, string) { s.ended <- "timeout" }
func (s c17SigStats) AddOtherFailConnecting(uint, string, string)        { s.ended <- "other" }

type c17NoStats struct{}

func (c17NoStats) AddCreatedConnecting(uint, string, string)               {}
func (c17NoStats) AddCreatedToSuccessfulConnecting(uint, string, string)   {}
func (c17NoStats) AddCreatedToTimeoutConnecting(uint, string, string)      {}
func (c17NoStats) AddSuccessfulToDiscardedConnecting(uint, string, string) {}
func (c17NoStats) AddOtherFailConnecting(uint, string, string)             {}

// c17IPv4OnlyGeoIP opens the station's GeoIP wrapper on two IPv4-only MaxMind databases: an IPv6 lookup
// fails inside the reader with a text that repeats the looked-up address.
func c17IPv4OnlyGeoIP(dir string) (geoip.Database, error) {
	cc, asn := filepath.Join(dir, "cc.mmdb"), filepath.Join(dir, "asn.mmdb")
	if err := os.WriteFile(cc, vc17.IPv4OnlyMMDB("GeoLite2-Country"), 0o644); err != nil {
		return nil, err
	}
	if err := os.WriteFile(asn, vc17.IPv4OnlyMMDB("GeoLite2-ASN"), 0o644); err != nil {
		return nil, err
	}
	return geoip.New(&geoip.DBConfig{CCDBPath: cc, ASNDBPath: asn})
}

func c17Connecting(t *testing.T, out *vlib.Out, glob *c17Buf) {
	st := vc17.Station()
	db, err := c17IPv4OnlyGeoIP(t.TempDir())
	if err != nil {
		c17Fail(out, "C17:harness-geoip-database", "cannot open the IPv4-only test databases: "+err.Error(), "connecting|geoip")
		return
	}
	ln, err := net.Listen("tcp", "127.0.0.1:0")
	if err != nil {
		panic(err)
	}
	defer ln.Close()
	go func() {
		for {
			c, err := ln.Accept()
			if err != nil {
				return
			}
			go func(c net.Conn) {
				defer c.Close()
				_ = c.SetDeadline(time.Now().Add(10 * time.Second))
				_, _ = c.Write([]byte("reply from the covert"))
				_, _ = io.Copy(io.Discard, c)
			}(c)
		}
	}()
	for _, cl := range vc17.Clients() {
		for _, mode := range []string{"geoip-fails", "relay-udp"} {
			udp := &net.UDPAddr{IP: cl.Addr.TCP.IP, Port: cl.Addr.TCP.Port, Zone: cl.Addr.TCP.Zone}
			client := newC17Conn(&net.UDPAddr{IP: st.TCP.IP, Port: 443}, udp)
			client.chunks = [][]byte{[]byte("hello from the client")}
			client.readErr = &net.OpError{Op: "read", Net: "udp", Source: client.local, Addr: udp, Err: os.NewSyscallError("recvfrom", syscall.ENETDOWN)}
			client.closeErr = &net.OpError{Op: "close", Net: "udp", Source: client.local, Addr: udp, Err: syscall.EIO}
			ct := &c17CT{mk: func() (net.Conn, error) { return client, nil }}
			rm := NewRegistrationManager(&RegConfig{ConnectingStats: c17NoStats{}})
			if rm == nil {
				panic("no registration manager")
			}
			rm.GeoIP = &geoip.EmptyDatabase{}
			if mode == "geoip-fails" {
				rm.GeoIP = db
			}
			if err := rm.AddTransport(pb.TransportType_DTLS, ct); err != nil {
				panic(err)
			}
			reg := c05RegLike(ln.Addr().String(), false)
			reg.Transport = pb.TransportType_DTLS
			var tr Transport = ct
			reg.TransportPtr = &tr
			reg.registrationAddr = cl.Addr.TCP.IP
			var lb c17Buf
			logger := log.New(&lb, "[REG] ", golog.Ldate|golog.Lmicroseconds)
			c17StdReset(glob)
			base := runtime.NumGoroutine()
			handleConnectingTpReg(rm, reg, logger)
			// the work happens on a goroutine of its own: wait for what ends it
			isV6 := cl.Addr.TCP.IP.To4() == nil
			want := "proxy closed "
			if mode == "geoip-fails" && isV6 {
				want = "Failed to get"
			}
			for i := 0; i < 40000 && !strings.Contains(lb.String(), want); i++ {
				time.Sleep(250 * time.Microsecond)
			}
			c17Settle(base)
			logged := lb.String() + c17Std(glob)
			out.Checked()
			out.Count("connecting:" + mode)
			if !strings.Contains(logged, want) {
				c17Fail(out, "C17:harness-connecting-incomplete", fmt.Sprintf("%s client, %s: expected %q in the log, got %q", cl.Name, mode, want, logged), "connecting|"+cl.Name+"|"+mode)
			}
			if hit := vc17.Scan(logged, cl.Needles); hit != "" {
				sig := "C17:relay-log-has-client-address"
				if mode == "geoip-fails" {
					sig = "C17:geoip-error-names-client"
				}
				c17Fail(out, sig, fmt.Sprintf("connecting transport, %s client, %s: the log contains %s: %s", cl.Name, mode, hit, c17Clip(logged, hit)),
					"connecting|"+cl.Name+"|"+mode)
			}
		}
	}
}

// c17ConnectErrors: what a connecting transport's Connect can return when the station cannot reach the
// client: the context's deadline, the dial error of the network stack as it is (a *net.OpError that names both
// endpoints) or wrapped, the same flattened into text the way pkg/transports/connecting/dtls reports it
// ("error connecting to dtls client: %v", several joined with "%v, %v"), errors that name the client in opaque
// text, bare causes and the transport's own sentinels.
func c17ConnectErrors(cl vc17.Client) []*vc17.Node {
	st := vc17.Station()
	from := &vc17.Addr{Role: 's', TCP: &net.TCPAddr{IP: net.IPv4zero, Port: 41245}}
	if cl.Addr.TCP.IP.To4() == nil {
		from = &vc17.Addr{Role: 's', TCP: &net.TCPAddr{IP: net.IPv6unspecified, Port: 41245}}
	}
	dial := func(call string, errno syscall.Errno) *vc17.Node {
		return &vc17.Node{Kind: "O", Txt: "dial", Net: "udp", Src: from, Dst: cl.Addr, Inner: &vc17.Node{Kind: "S", Txt: call, Inner: &vc17.Node{Kind: "E", N: int(errno)}}}
	}
	var out []*vc17.Node
	out = append(out, &vc17.Node{Kind: "ctx-deadline"})
	for _, n := range []*vc17.Node{dial("connect", syscall.ENETUNREACH), dial("connect", syscall.EHOSTUNREACH), dial("bind", syscall.EADDRINUSE),
		dial("connect", syscall.EPERM), dial("connect", syscall.ECONNREFUSED),
		{Kind: "O", Txt: "dial", Net: "udp", Src: from, Dst: cl.Addr, Inner: &vc17.Node{Kind: "dl"}},
		{Kind: "O", Txt: "read", Net: "udp", Src: st, Dst: cl.Addr, Inner: &vc17.Node{Kind: "S", Txt: "recvfrom", Inner: &vc17.Node{Kind: "E", N: int(syscall.ECONNREFUSED)}}}} {
		out = append(out, n, &vc17.Node{Kind: "W", Txt: "error connecting to dtls client", Inner: n},
			&vc17.Node{Kind: "F", Txt: "error connecting to dtls client: ", Inner: n},
			&vc17.Node{Kind: "F", Txt: "error adding DNAT entry: x, error connecting to dtls client: ", Post: ", error accepting dtls connection from secret: context canceled", Inner: n})
	}
	out = append(out, vc17.Opaque(cl.Addr)...)
	out = append(out, &vc17.Node{Kind: "E", N: int(syscall.ENETUNREACH)}, &vc17.Node{Kind: "X", Txt: "transport params is not *pb.DTLSTransportParams"},
		&vc17.Node{Kind: "X", Txt: "handshake failed: bad psk"}, &vc17.Node{Kind: "N", Txt: "handshake timed out", To: true}, &vc17.Node{Kind: "eof"})
	return out
}

// c17ConnectFails: registrations for a connecting transport whose Connect fails, through ingestRegistration
// (which hands them to handleConnectingTpReg) and through handleConnectingTpReg directly.
func c17ConnectFails(out *vlib.Out, glob *c17Buf) {
	for _, cl := range vc17.Clients() {
		for k, n := range c17ConnectErrors(cl) {
			e := n.Go()
			stats := c17SigStats{ended: make(chan string, 4)}
			ct := &c17CT{mk: func() (net.Conn, error) { return nil, e }}
			rm := NewRegistrationManager(&RegConfig{ConnectingStats: stats, EnableIPv4: true, EnableIPv6: true, CovertBlocklistSubnets: []string{}, PhantomBlocklist: []string{}})
			if rm == nil {
				panic("no registration manager")
			}
			rm.GeoIP = &geoip.EmptyDatabase{}
			rm.registeredDecoys.registerForDetector = func(*DecoyRegistration) {}
			rm.registeredDecoys.updateInDetector = func(*DecoyRegistration) {}
			rm.LivenessTester = &c17Live{}
			if err := rm.AddTransport(pb.TransportType_DTLS, ct); err != nil {
				panic(err)
			}
			var lb c17Buf
			rm.Logger = log.New(&lb, "[REG] ", golog.Ldate|golog.Lmicroseconds)
			c17StdReset(glob)
			base := runtime.NumGoroutine()
			via := "direct"
			started := 1
			if k%2 == 0 {
				// through the ingest path: a registration message that names the client as registrant
				via = "ingest"
				c2s, _ := mockReceiveFromDetector()
				tt := pb.TransportType_DTLS
				c2s.Transport = &tt
				c2s.CovertAddress = proto.String("93.184.216.34:443")
				c2s.V4Support = proto.Bool(true)
				c2s.V6Support = proto.Bool(cl.Addr.TCP.IP.To4() == nil)
				src := pb.RegistrationSource_API
				w := &pb.C2SWrapper{SharedSecret: bytes.Repeat([]byte{byte(0x40 + k)}, 32), RegistrationPayload: c2s, RegistrationSource: &src,
					RegistrationAddress: []byte(cl.Addr.TCP.IP.To16()), DecoyAddress: []byte(net.ParseIP("198.18.0.9").To16())}
				started = 0
				// phantom selection fails for some shared secrets (no IPv6 phantom for the generation): take the
				// next secret then — what the failed attempt logged is scanned all the same
				for try := 0; try < 16 && started == 0; try++ {
					w.SharedSecret = bytes.Repeat([]byte{byte(0x40 + k + 64*try)}, 32)
					msg, err := proto.Marshal(w)
					if err != nil {
						panic(err)
					}
					regs, err := rm.parseRegMessage(msg)
					if err != nil {
						rm.Logger.Errorf("Encountered err when creating Reg: %v\n", err) // as startIngestThread does
					}
					for _, reg := range regs {
						if reg != nil {
							rm.ingestRegistration(reg)
							started++
						}
					}
				}
			} else {
				reg := c05RegLike("93.184.216.34:443", false)
				reg.Transport = pb.TransportType_DTLS
				var tr Transport = ct
				reg.TransportPtr = &tr
				reg.registrationAddr = cl.Addr.TCP.IP
				handleConnectingTpReg(rm, reg, rm.Logger)
			}
			ended := 0
			for i := 0; i < started; i++ {
				select {
				case <-stats.ended:
					ended++
				case <-time.After(10 * time.Second):
				}
			}
			c17Settle(base)
			logged := lb.String() + c17Std(glob)
			out.Checked()
			out.Count("connecting:connect-fails:" + via + ":" + n.Kind)
			if started == 0 || ended != started {
				c17Fail(out, "C17:harness-connecting-incomplete", fmt.Sprintf("%s client, Connect failing with %q (%s): %d connection attempts started, %d ended; log %q",
					cl.Name, e.Error(), via, started, ended, logged), "connecting|"+cl.Name+"|connect-fails|"+n.Enc())
			}
			if hit := vc17.Scan(logged, cl.Needles); hit != "" {
				c17Fail(out, "C17:connect-failure-log-has-client-address",
					fmt.Sprintf("connecting transport, %s client, Connect fails with %q (%s): the log contains %s: %s", cl.Name, e.Error(), via, hit, c17Clip(logged, hit)),
					"connecting|"+cl.Name+"|connect-fails|"+via+"|"+n.Enc())
			}
		}
	}
}

// c17GeoIPShapes: the station's GeoIP wrapper opened on every combination of database shapes — country and
// ASN database each absent / IPv4-only / dual-stack / failing inside the reader — for every client family,
// through the two places of package lib that look a client up and log a failure: building a registration
// from a registrar's message (parseRegMessage, as the ingest thread logs its error) and handleConnectingTpReg.
// (The reader's error for an IPv6 lookup in an IPv4-only database repeats the address: whichever of the two
// lookups meets it must take it out.)
func c17GeoIPShapes(t *testing.T, out *vlib.Out, glob *c17Buf) {
	dir := t.TempDir()
	for _, ccShape := range vc17.DBShapes {
		for _, asnShape := range vc17.DBShapes {
			ccPath, asnPath, err := vc17.WriteDBs(dir, ccShape, asnShape)
			if err != nil {
				c17Fail(out, "C17:harness-geoip-database", "cannot write the test databases: "+err.Error(), "geoipdb|write")
				return
			}
			db, err := geoip.New(&geoip.DBConfig{CCDBPath: ccPath, ASNDBPath: asnPath})
			if db == nil {
				c17Fail(out, "C17:harness-geoip-database", fmt.Sprintf("geoip.New refused the %s / %s test databases: %v", ccShape, asnShape, err), "geoipdb|open")
				continue
			}
			for _, cl := range vc17.Clients() {
				stats := c17SigStats{ended: make(chan string, 8)}
				ct := &c17CT{mk: func() (net.Conn, error) { return nil, context.DeadlineExceeded }}
				rm := NewRegistrationManager(&RegConfig{ConnectingStats: stats, EnableIPv4: true, EnableIPv6: true, CovertBlocklistSubnets: []string{}, PhantomBlocklist: []string{}})
				if rm == nil {
					panic("no registration manager")
				}
				rm.GeoIP = db
				rm.registeredDecoys.registerForDetector = func(*DecoyRegistration) {}
				rm.registeredDecoys.updateInDetector = func(*DecoyRegistration) {}
				rm.LivenessTester = &c17Live{}
				if err := rm.AddTransport(pb.TransportType_DTLS, ct); err != nil {
					panic(err)
				}
				var lb c17Buf
				rm.Logger = log.New(&lb, "[REG] ", golog.Ldate|golog.Lmicroseconds)
				c17StdReset(glob)
				base := runtime.NumGoroutine()
				// (a) a registration message naming the client as registrant
				c2s, _ := mockReceiveFromDetector()
				tt := pb.TransportType_DTLS
				c2s.Transport = &tt
				c2s.CovertAddress = proto.String("93.184.216.34:443")
				c2s.V4Support = proto.Bool(true)
				c2s.V6Support = proto.Bool(true)
				src := pb.RegistrationSource_API
				started := 0
				for try := 0; try < 4; try++ {
					w := &pb.C2SWrapper{SharedSecret: bytes.Repeat([]byte{byte(0x51 + 16*try)}, 32), RegistrationPayload: c2s, RegistrationSource: &src,
						RegistrationAddress: []byte(cl.Addr.TCP.IP.To16()), DecoyAddress: []byte(net.ParseIP("198.18.0.9").To16())}
					msg, err := proto.Marshal(w)
					if err != nil {
						panic(err)
					}
					regs, err := rm.parseRegMessage(msg)
					if err != nil {
						rm.Logger.Errorf("Encountered err when creating Reg: %v\n", err) // as startIngestThread does
					}
					for _, reg := range regs {
						if reg != nil {
							rm.ingestRegistration(reg) // ends in handleConnectingTpReg
							started++
						}
					}
				}
				// (b) handleConnectingTpReg with a registration of its own
				reg := c05RegLike("93.184.216.34:443", false)
				reg.Transport = pb.TransportType_DTLS
				var tr Transport = ct
				reg.TransportPtr = &tr
				reg.registrationAddr = cl.Addr.TCP.IP
				handleConnectingTpReg(rm, reg, rm.Logger)
				started++
				// every attempt ends with a failed lookup (logged) or with the stub's Connect result (counted)
				deadline := time.Now().Add(10 * time.Second)
				for ended := 0; ended < started && time.Now().Before(deadline); {
					select {
					case <-stats.ended:
						ended++
					case <-time.After(2 * time.Millisecond):
						if n := strings.Count(lb.String(), "Failed to get"); n+ended >= started {
							ended = started
						}
					}
				}
				c17Settle(base)
				logged := lb.String() + c17Std(glob)
				out.Checked()
				out.Count("geoipdb:cc-" + ccShape + ":asn-" + asnShape)
				if strings.Contains(logged, "Failed to get") || strings.Contains(logged, "failed geoip") {
					out.Count("geoipdb:lookup-failed:cc-" + ccShape + ":asn-" + asnShape + ":" + cl.Name)
				}
				if hit := vc17.Scan(logged, cl.Needles); hit != "" {
					c17Fail(out, "C17:geoip-error-names-client",
						fmt.Sprintf("country database %s, ASN database %s, %s client: the registration manager's log contains %s: %s", ccShape, asnShape, cl.Name, hit, c17Clip(logged, hit)),
						fmt.Sprintf("geoipdb|%s|%s|%s", ccShape, asnShape, cl.Name))
				}
			}
		}
	}
}

// c17Redis is a stand-in for the detector's Redis on loopback.  Modes: "ok" answers every command with :1,
// "error" answers -ERR, "garbage" answers bytes that are no RESP reply, "reset" resets every connection it
// accepts, "close" closes it at once, "dead" is a port nobody listens on.
func c17Redis(mode string) (addr string, stop func()) {
	ln, err := net.Listen("tcp", "127.0.0.1:0")
	if err != nil {
		panic(err)
	}
	addr = ln.Addr().String()
	if mode == "dead" {
		ln.Close()
		return addr, func() {}
	}
	var mu sync.Mutex
	var conns []net.Conn
	go func() {
		for {
			c, err := ln.Accept()
			if err != nil {
				return
			}
			mu.Lock()
			conns = append(conns, c)
			mu.Unlock()
			go func(c net.Conn) {
				defer c.Close()
				switch mode {
				case "reset":
					_ = c.(*net.TCPConn).SetLinger(0)
					return
				case "close":
					return
				}
				buf := make([]byte, 4096)
				for {
					_ = c.SetDeadline(time.Now().Add(60 * time.Second))
					if _, err := c.Read(buf); err != nil {
						return
					}
					reply := ":1\r\n"
					switch mode {
					case "error":
						reply = "-ERR the detector's redis is read-only now\r\n"
					case "garbage":
						reply = "?what\r\n"
					}
					if _, err := c.Write([]byte(reply)); err != nil {
						return
					}
				}
			}(c)
		}
	}()
	return addr, func() {
		ln.Close()
		mu.Lock()
		defer mu.Unlock()
		for _, c := range conns {
			c.Close()
		}
	}
}

// c17Detector: the channel to the detector as a dimension.  The registry's detector hooks are left as they are
// (they publish over Redis); the package's Redis client points at a stand-in that works, answers errors,
// answers garbage, resets, closes, or is not there.  A registration of each client family is made valid
// (AddRegistration: operation New), marked active (MarkActive: Update), expired, and the detector is told to
// clear its sessions (Cleanup).  The message to the detector carries the registrant's address by design; none
// of what the station writes about a failed publish may.
func c17Detector(out *vlib.Out, glob *c17Buf) {
	oldClient := client
	defer func() {
		// the other scenarios stub the hooks; the next user of the client initialises it afresh
		if client != nil && client != oldClient {
			client.Close()
		}
		client = nil
		once = sync.Once{}
	}()
	for _, mode := range []string{"ok", "error", "garbage", "reset", "close", "dead"} {
		addr, stop := c17Redis(mode)
		once.Do(func() {})
		if client != nil && client != oldClient {
			client.Close()
		}
		client = redis.NewClient(&redis.Options{Addr: addr, Password: "", DB: 0, PoolSize: 2, MaxRetries: -1,
			DialTimeout: 500 * time.Millisecond, ReadTimeout: 500 * time.Millisecond, WriteTimeout: 500 * time.Millisecond, PoolTimeout: time.Second})
		for k, cl := range vc17.Clients() {
			rm := NewRegistrationManager(&RegConfig{})
			if rm == nil {
				panic("no registration manager")
			}
			var lb c17Buf
			rm.Logger = log.New(&lb, "[REG] ", golog.Ldate|golog.Lmicroseconds)
			if err := rm.AddTransport(pb.TransportType_Min, &mockTransport{}); err != nil {
				panic(err)
			}
			reg := c05RegLike("93.184.216.34:443", false)
			reg.Keys = &core.ConjureSharedKeys{SharedSecret: bytes.Repeat([]byte{byte(0x70 + k)}, 32)}
			reg.registrationAddr = cl.Addr.TCP.IP
			if cl.Addr.TCP.IP.To4() == nil {
				reg.PhantomIp = net.ParseIP("2001:48a8:687f:1::77")
			}
			c17StdReset(glob)
			rm.AddRegistration(reg) // the publish is synchronous: nothing to wait for afterwards
			rm.MarkActive(reg)
			rm.MarkActive(reg)
			for _, to := range rm.registeredDecoys.decoysTimeouts {
				to.registrationTime = time.Now().Add(-48 * time.Hour)
			}
			rm.registeredDecoys.removeOldRegistrations(rm.Logger)
			rm.Cleanup()
			logged := lb.String() + c17Std(glob)
			out.Checked()
			out.Count("detector:" + mode)
			if hit := vc17.Scan(logged, cl.Needles); hit != "" {
				c17Fail(out, "C17:detector-channel-log-has-client-address",
					fmt.Sprintf("detector's Redis %s, %s registrant, AddRegistration + MarkActive + expiry + Cleanup: the station's output contains %s: %s", mode, cl.Name, hit, c17Clip(logged, hit)),
					fmt.Sprintf("detector|%s|%s", mode, cl.Name))
			}
		}
		stop()
	}
}

// ---------------------------------------------------------------------------------------------
// (E) statistics

func c17Statistics(out *vlib.Out, clientNeedles [][]string) {
	var lb c17Buf
	logger := log.New(&lb, "[STATS] ", golog.Ldate|golog.Lmicroseconds)
	s := Stat()
	old := s.logger
	s.logger = logger
	s.PrintStats(false)
	s.PrintStats(true)
	s.logger = old
	getProxyStats().PrintAndReset(logger)
	os.Setenv("PHANTOM_SUBNET_LOCATION", "./test/phantom_subnets.toml")
	if rm := NewRegistrationManager(&RegConfig{}); rm != nil {
		rm.PrintAndReset(logger)
	}
	logged := lb.String()
	out.Checked()
	out.Count("statistics")
	for _, key := range []string{"Conns: ", "proxy-stats:", "reg-stats: "} {
		if !strings.Contains(logged, key) {
			c17Fail(out, "C17:harness-statistics-incomplete", fmt.Sprintf("the statistics printers did not write %q: %q", key, logged), "statistics")
		}
	}
	for _, needles := range clientNeedles {
		if hit := vc17.Scan(logged, needles); hit != "" {
			c17Fail(out, "C17:statistics-have-client-address", "the statistics output contains "+hit+": "+c17Clip(logged, hit), "statistics")
		}
	}
}

func c17LibReplay(t *testing.T, out *vlib.Out, path string, glob *c17Buf) {
	b, err := os.ReadFile(path)
	if err != nil {
		t.Fatal(err)
	}
	// the injected cases are cheap: re-run the families named in the file
	s := string(b)
	if strings.Contains(s, "\ngen|0|") || strings.Contains(s, "\nrelay|") || strings.Contains(s, "\nproxy|") {
		st, cov := vc17.Station(), vc17.Covert()
		var all [][]string
		for _, cl := range vc17.Clients() {
			all = append(all, cl.Needles)
		}
		all = append(all, vc17.Needles(st.TCP.IP), vc17.Needles(cov.TCP.IP))
		for _, cl := range vc17.Clients() {
			for _, op := range []string{"read", "write", "close", "set", "file"} {
				for _, n := range vc17.Shapes(op, st, cl.Addr) {
					c17GenCase(out, n, all)
				}
			}
		}
		c17RelayAll(out, glob)
		c17ProxyAll(out, glob)
	}
	if strings.Contains(s, "\nheader|") || strings.Contains(s, "\nproxy|") {
		c17HeaderWrite(out)
	}
	if strings.Contains(s, "\ningest|") {
		c17Ingest(out)
	}
	if strings.Contains(s, "\nconnecting|") {
		c17Connecting(t, out, glob)
		c17ConnectFails(out, glob)
	}
	if strings.Contains(s, "\ndetector|") {
		c17Detector(out, glob)
	}
	if strings.Contains(s, "\ngeoipdb|") {
		c17GeoIPShapes(t, out, glob)
	}
	if strings.Contains(s, "\nstatistics") {
		var cn [][]string
		for _, cl := range vc17.Clients() {
			cn = append(cn, cl.Needles)
		}
		c17Statistics(out, cn)
	}
}
