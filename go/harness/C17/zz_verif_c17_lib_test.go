//go:build verif

package lib

// C17, package lib: (A) error trees through the real generalizeErr of proxies.go (correspondence with the
// Lean model of error texts, errors.Is, the timeout test and the sanitiser; oracle: the result names no
// endpoint); (B) every realistic error shape injected at every I/O call of halfPipe / Proxy on either
// connection, in both directions, with distinctive client addresses — everything written to the logger,
// to the package-level logger and into the tunnel summary is scanned for the client address in every
// textual form; (C) registrations with distinctive registrant addresses through ingestRegistration with
// every outcome, the registration digest and the expiry record.

import (
	"bytes"
	"context"
	"fmt"
	"io"
	golog "log"
	"net"
	"os"
	"path/filepath"
	"runtime"
	"strings"
	"sync"
	"syscall"
	"testing"
	"time"

	"github.com/refraction-networking/conjure/internal/vc17"
	"github.com/refraction-networking/conjure/internal/vlib"
	"github.com/refraction-networking/conjure/pkg/station/geoip"
	"github.com/refraction-networking/conjure/pkg/station/log"
	"github.com/refraction-networking/conjure/pkg/transports"
	pb "github.com/refraction-networking/conjure/proto"
	"google.golang.org/protobuf/proto"
)

type c17Buf struct {
	mu sync.Mutex
	b  bytes.Buffer
}

func (b *c17Buf) Write(p []byte) (int, error) {
	b.mu.Lock()
	defer b.mu.Unlock()
	return b.b.Write(p)
}
func (b *c17Buf) String() string {
	b.mu.Lock()
	defer b.mu.Unlock()
	return b.b.String()
}
func (b *c17Buf) Reset() {
	b.mu.Lock()
	b.b.Reset()
	b.mu.Unlock()
}

// c17Fail reports at most a handful of failures per signature, so that every signature that occurs is
// among the failures the check gets to see.
var c17FailN = map[string]int{}

func c17Fail(out *vlib.Out, sig, what, replay string) {
	c17FailN[sig]++
	if c17FailN[sig] <= 6 {
		out.OracleFail(sig, what, replay)
	}
}

// ---------------------------------------------------------------------------------------------
// (A) generalizeErr

func c17GenCase(out *vlib.Out, n *vc17.Node, all [][]string) {
	err := n.Go()
	out.Case("text|"+n.Enc(), vlib.Hex([]byte(err.Error()))+"|"+vc17.IsFlags(err), true)
	g := generalizeErr(err)
	ans := "nil"
	if g != nil && n.OpaqueAddr() {
		// an address inside opaque text (a flattened operation error, a *net.AddrError): no sanitiser working
		// on error values can remove it (`opaque_address_passes_through`); model and code must agree on what
		// comes out, and no such error reaches a logged generalizeErr (the injection runs below are the check)
		ans = vlib.Hex([]byte(g.Error()))
		out.Count("gen:opaque-address-passes-through")
	} else if g != nil {
		ans = vlib.Hex([]byte(g.Error()))
		out.Checked()
		for _, needles := range all {
			if hit := vc17.Scan(g.Error(), needles); hit != "" {
				c17Fail(out, "C17:generalizeErr-passes-address",
					fmt.Sprintf("generalizeErr (proxies.go) returned %q for %q: endpoint %s is still in the text", g.Error(), err.Error(), hit),
					"gen|0|"+n.Enc())
				break
			}
		}
	}
	out.Case("gen|0|"+n.Enc(), ans, true)
	out.Count("gen:" + n.Kind)
}

// ---------------------------------------------------------------------------------------------
// (B) relay

type c17Conn struct {
	local, remote net.Addr
	chunks        [][]byte
	readErr       error
	writeErr      error
	closeErr      error
	dlErr         error
	dlFailAt      int
	dlCalls       int
	mu            sync.Mutex
	closed        chan struct{}
	once          sync.Once
	block         bool // after the chunks, block until closed instead of returning EOF
}

func newC17Conn(local, remote net.Addr) *c17Conn {
	return &c17Conn{local: local, remote: remote, closed: make(chan struct{}), dlFailAt: -1}
}

func (c *c17Conn) Read(p []byte) (int, error) {
	c.mu.Lock()
	if len(c.chunks) > 0 {
		n := copy(p, c.chunks[0])
		c.chunks = c.chunks[1:]
		c.mu.Unlock()
		return n, nil
	}
	c.mu.Unlock()
	if c.readErr != nil {
		return 0, c.readErr
	}
	if c.block {
		<-c.closed
		return 0, &net.OpError{Op: "read", Net: "tcp", Source: c.local, Addr: c.remote, Err: net.ErrClosed}
	}
	return 0, io.EOF
}
func (c *c17Conn) Write(p []byte) (int, error) {
	if c.writeErr != nil {
		return 0, c.writeErr
	}
	return len(p), nil
}
func (c *c17Conn) Close() error {
	c.once.Do(func() { close(c.closed) })
	return c.closeErr
}
func (c *c17Conn) LocalAddr() net.Addr  { return c.local }
func (c *c17Conn) RemoteAddr() net.Addr { return c.remote }
func (c *c17Conn) SetDeadline(t time.Time) error {
	c.mu.Lock()
	defer c.mu.Unlock()
	i := c.dlCalls
	c.dlCalls++
	if c.dlErr != nil && i == c.dlFailAt {
		return c.dlErr
	}
	return nil
}
func (c *c17Conn) SetReadDeadline(t time.Time) error  { return nil }
func (c *c17Conn) SetWriteDeadline(t time.Time) error { return nil }

func c17Settle(base int) {
	for i := 0; i < 100000 && runtime.NumGoroutine() > base; i++ {
		if i < 1000 {
			runtime.Gosched()
		} else {
			time.Sleep(50 * time.Microsecond)
		}
	}
}

var c17Positions = []string{"client.Read", "client.Write", "client.Close", "client.SetDeadline#0", "client.SetDeadline#1",
	"covert.Read", "covert.Write", "covert.Close", "covert.SetDeadline#0", "covert.SetDeadline#1"}

func c17OpOf(pos string) string {
	switch {
	case strings.HasSuffix(pos, "Read"):
		return "read"
	case strings.HasSuffix(pos, "Write"):
		return "write"
	case strings.HasSuffix(pos, "Close"):
		return "close"
	}
	return "set"
}

// c17Relay runs one halfPipe with the error n injected at pos; returns everything that was logged.
func c17Relay(cl vc17.Client, up bool, pos string, n *vc17.Node, glob *c17Buf) (string, *tunnelStats) {
	st, cov := vc17.Station(), vc17.Covert()
	client := newC17Conn(st.TCP, cl.Addr.TCP)
	covert := newC17Conn(&net.TCPAddr{IP: st.TCP.IP, Port: 50123}, cov.TCP)
	client.chunks = [][]byte{[]byte("hello from the client")}
	covert.chunks = [][]byte{[]byte("hello from the covert")}
	err := n.Go()
	target := client
	if strings.HasPrefix(pos, "covert") {
		target = covert
	}
	switch c17OpOf(pos) {
	case "read":
		target.readErr = err
	case "write":
		target.writeErr = err
	case "close":
		target.closeErr = err
	default:
		target.dlErr = err
		target.dlFailAt = int(pos[len(pos)-1] - '0')
	}
	var lb c17Buf
	logger := log.New(&lb, "[CONN] _ -> 192.0.2.77 ", golog.Ldate|golog.Lmicroseconds)
	stats := &tunnelStats{proxyStats: &ProxyStats{}, PhantomAddr: "192.0.2.77", PhantomDstPort: 443, Transport: "Min_Transport"}
	var wg sync.WaitGroup
	wg.Add(1)
	base := runtime.NumGoroutine()
	glob.Reset()
	if up {
		halfPipe(client, covert, &wg, logger, "Up 0011223344556677", stats)
	} else {
		halfPipe(covert, client, &wg, logger, "Down 0011223344556677", stats)
	}
	wg.Wait()
	c17Settle(base)
	stats.Print(logger)
	return lb.String() + glob.String(), stats
}

func c17RelayAll(out *vlib.Out, glob *c17Buf) {
	st, cov := vc17.Station(), vc17.Covert()
	for _, cl := range vc17.Clients() {
		for _, up := range []bool{true, false} {
			for _, pos := range c17Positions {
				local, remote := st, cl.Addr
				if strings.HasPrefix(pos, "covert") {
					local, remote = &vc17.Addr{Role: 's', TCP: &net.TCPAddr{IP: st.TCP.IP, Port: 50123}}, cov
				}
				for _, n := range vc17.Shapes(c17OpOf(pos), local, remote) {
					logged, stats := c17Relay(cl, up, pos, n, glob)
					out.Checked()
					out.Count("relay:" + pos)
					if hit := vc17.Scan(logged, cl.Needles); hit != "" {
						c17Fail(out, "C17:relay-log-has-client-address",
							fmt.Sprintf("%s client, %s, error %q injected at %s: the log / tunnel summary contains %s: %s",
								cl.Name, map[bool]string{true: "upload", false: "download"}[up], n.Go().Error(), pos, hit, c17Clip(logged, hit)),
							fmt.Sprintf("relay|%s|%s|%s|%s", cl.Name, vlib.B(up), pos, n.Enc()))
					}
					// correspondence: the statistic recorded for a failed read / write of this direction is
					// the text the model computes for generalizeErr
					reads := (pos == "client.Read" && up) || (pos == "covert.Read" && !up)
					writes := (pos == "covert.Write" && up) || (pos == "client.Write" && !up)
					if reads || writes {
						field := stats.ClientConnErr
						if strings.HasPrefix(pos, "covert") {
							field = stats.CovertConnErr
						}
						ans := "nil"
						if field != "" {
							ans = vlib.Hex([]byte(field))
						}
						out.Case("gen|0|"+n.Enc(), ans, true)
					}
				}
			}
		}
	}
}

func c17Clip(text, needle string) string {
	i := strings.Index(strings.ToLower(text), needle)
	lo, hi := i-90, i+len(needle)+60
	if lo < 0 {
		lo = 0
	}
	if hi > len(text) {
		hi = len(text)
	}
	return "…" + strings.ReplaceAll(text[lo:hi], "\n", " ⏎ ") + "…"
}

// c17ProxyAll drives the real Proxy: scripted client connection, covert on loopback.
func c17ProxyAll(out *vlib.Out, glob *c17Buf) {
	st := vc17.Station()
	for _, cl := range vc17.Clients() {
		type inj struct {
			pos string
			n   *vc17.Node
		}
		var injs []inj
		for _, op := range []string{"read", "write", "close"} {
			for _, n := range vc17.Shapes(op, st, cl.Addr) {
				injs = append(injs, inj{"client." + strings.ToUpper(op[:1]) + op[1:], n})
			}
		}
		injs = append(injs, inj{"covert.Dial", &vc17.Node{Kind: "E", N: 111}}, inj{"none", &vc17.Node{Kind: "eof"}})
		for k, in := range injs {
			header := k%2 == 0
			ln, err := net.Listen("tcp", "127.0.0.1:0")
			if err != nil {
				panic(err)
			}
			addr := ln.Addr().String()
			srvDone := make(chan struct{})
			if in.pos == "covert.Dial" {
				ln.Close()
				close(srvDone)
			} else {
				go func() {
					defer close(srvDone)
					defer ln.Close()
					_ = ln.(*net.TCPListener).SetDeadline(time.Now().Add(3 * time.Second))
					c, err := ln.Accept()
					if err != nil {
						return
					}
					defer c.Close()
					_ = c.SetDeadline(time.Now().Add(10 * time.Second))
					_, _ = c.Write([]byte("reply from the covert"))
					_, _ = io.Copy(io.Discard, c)
				}()
			}
			client := newC17Conn(st.TCP, cl.Addr.TCP)
			client.chunks = [][]byte{[]byte("hello from the client")}
			client.block = true
			e := in.n.Go()
			switch in.pos {
			case "client.Read":
				client.readErr = e
			case "client.Write":
				client.writeErr = e
			case "client.Close":
				client.closeErr = e
				client.block = false
			case "none":
				client.block = false
			}
			var lb c17Buf
			logger := log.New(&lb, "[CONN] _ -> 192.0.2.77 ", golog.Ldate|golog.Lmicroseconds)
			glob.Reset()
			reg := c05RegLike(addr, header)
			base := runtime.NumGoroutine()
			done := make(chan struct{})
			go func() { defer close(done); Proxy(reg, client, logger) }()
			select {
			case <-done:
			case <-time.After(20 * time.Second):
				client.Close()
				<-done
			}
			<-srvDone
			c17Settle(base)
			logged := lb.String() + glob.String()
			out.Checked()
			out.Count("proxy:" + in.pos)
			if hit := vc17.Scan(logged, cl.Needles); hit != "" {
				c17Fail(out, "C17:relay-log-has-client-address",
					fmt.Sprintf("Proxy, %s client, error %q injected at %s (PROXY header %v): the log / tunnel summary contains %s: %s",
						cl.Name, e.Error(), in.pos, header, hit, c17Clip(logged, hit)),
					fmt.Sprintf("proxy|%s|%s|%s|%s", cl.Name, in.pos, vlib.B(header), in.n.Enc()))
			}
			if !strings.Contains(logged, "proxy closed ") {
				c17Fail(out, "C17:no-tunnel-summary", "Proxy printed no tunnel summary", fmt.Sprintf("proxy|%s|%s", cl.Name, in.pos))
			}
		}
	}
}

func c05RegLike(covert string, header bool) *DecoyRegistration {
	src := pb.RegistrationSource_API
	var tr Transport = &mockTransport{}
	reg := &DecoyRegistration{
		PhantomIp:          net.ParseIP("192.0.2.77"),
		PhantomPort:        443,
		Covert:             covert,
		Transport:          pb.TransportType_Min,
		TransportPtr:       &tr,
		RegistrationSource: &src,
		Flags:              &pb.RegistrationFlags{ProxyHeader: proto.Bool(header)},
	}
	return reg
}

// ---------------------------------------------------------------------------------------------
// (C) registrations

type c17Live struct{ live bool }

func (l *c17Live) PhantomIsLive(addr string, port uint16) (bool, error) {
	if l.live {
		return true, fmt.Errorf("phantom %s:%d answered", addr, port)
	}
	return false, nil
}
func (l *c17Live) PrintAndReset(*log.Logger) {}
func (l *c17Live) PrintStats(*log.Logger)    {}
func (l *c17Live) Reset()                    {}

func c17Ingest(out *vlib.Out) {
	os.Setenv("PHANTOM_SUBNET_LOCATION", "./test/phantom_subnets.toml")
	for _, cl := range vc17.Clients() {
		for _, level := range []log.Level{log.ErrorLevel, log.TraceLevel} {
			rm := NewRegistrationManager(&RegConfig{EnableIPv4: true, EnableIPv6: true,
				CovertBlocklistSubnets: []string{"192.0.2.0/24", "127.0.0.0/8"}, CovertBlocklistDomains: []string{".*blocked\\.example$"},
				PhantomBlocklist: []string{}})
			if rm == nil {
				panic("no registration manager")
			}
			rm.ParseBlocklists()
			var lb c17Buf
			rm.Logger = log.New(&lb, "[REG] ", golog.Ldate|golog.Lmicroseconds)
			rm.Logger.SetLevel(level)
			rm.registeredDecoys.registerForDetector = func(*DecoyRegistration) {}
			rm.registeredDecoys.updateInDetector = func(*DecoyRegistration) {}
			live := &c17Live{}
			rm.LivenessTester = live
			var tt pb.TransportType = 0
			if err := rm.AddTransport(tt, &mockTransport{}); err != nil {
				panic(err)
			}
			scenario := func(name string, secret byte, covert string, src pb.RegistrationSource, transport pb.TransportType, isLive bool, times int) {
				live.live = isLive
				c2s, _ := mockReceiveFromDetector()
				c2s.Transport = &transport
				c2s.CovertAddress = proto.String(covert)
				c2s.V4Support = proto.Bool(true)
				c2s.V6Support = proto.Bool(true)
				ss := bytes.Repeat([]byte{secret}, 32)
				w := &pb.C2SWrapper{SharedSecret: ss, RegistrationPayload: c2s, RegistrationSource: &src,
					RegistrationAddress: []byte(cl.Addr.TCP.IP.To16()), DecoyAddress: []byte(net.ParseIP("198.18.0.9").To16())}
				msg, err := proto.Marshal(w)
				if err != nil {
					panic(err)
				}
				for i := 0; i < times; i++ {
					regs, err := rm.parseRegMessage(msg)
					if err != nil {
						rm.Logger.Errorf("Encountered err when creating Reg: %v\n", err) // as startIngestThread does
					}
					for _, reg := range regs {
						if reg != nil {
							rm.ingestRegistration(reg)
							// the digest, wherever it is printed
							d := reg.String()
							out.Checked()
							if hit := vc17.Scan(d, cl.Needles); hit != "" {
								c17Fail(out, "C17:digest-has-registrant-address", "DecoyRegistration.String() contains the registrant: "+c17Clip(d, hit),
									fmt.Sprintf("ingest|%s|%s", cl.Name, name))
							}
						}
					}
				}
				out.Count("ingest:" + name)
			}
			scenario("accepted", 1, "93.184.216.34:443", pb.RegistrationSource_API, 0, false, 1)
			scenario("duplicate", 1, "93.184.216.34:443", pb.RegistrationSource_API, 0, false, 2)
			scenario("blocklisted-covert-address", 2, "192.0.2.200:443", pb.RegistrationSource_API, 0, false, 1)
			scenario("blocklisted-covert-domain", 3, "www.blocked.example:443", pb.RegistrationSource_Detector, 0, false, 1)
			scenario("malformed-covert", 4, "no port here", pb.RegistrationSource_API, 0, false, 1)
			scenario("live-phantom", 5, "93.184.216.34:443", pb.RegistrationSource_Detector, 0, true, 1)
			scenario("transport-not-enabled", 6, "93.184.216.34:443", pb.RegistrationSource_API, pb.TransportType_Obfs4, false, 1)
			scenario("bidirectional-api", 7, "93.184.216.34:443", pb.RegistrationSource_BidirectionalAPI, 0, false, 1)
			// expire everything: backdate the timeout records and sweep
			for _, to := range rm.registeredDecoys.decoysTimeouts {
				to.registrationTime = time.Now().Add(-48 * time.Hour)
			}
			rm.registeredDecoys.removeOldRegistrations(rm.Logger)
			logged := lb.String()
			out.Checked()
			if level == log.ErrorLevel {
				if hit := vc17.Scan(logged, cl.Needles); hit != "" {
					c17Fail(out, "C17:ingest-log-has-registrant-address",
						fmt.Sprintf("%s registrant, default log level: the registration manager's log contains %s: %s", cl.Name, hit, c17Clip(logged, hit)),
						fmt.Sprintf("ingest|%s|default-level", cl.Name))
				}
				continue
			}
			// trace level: the lines that print a digest or an expiry record must still omit the registrant
			seen := map[string]bool{}
			for _, line := range strings.Split(logged, "\n") {
				for _, key := range []string{"New registration:", "expired reg "} {
					if strings.Contains(line, key) {
						seen[key] = true
						if hit := vc17.Scan(line, cl.Needles); hit != "" {
							c17Fail(out, "C17:digest-has-registrant-address", "a digest / expiry line contains the registrant: "+c17Clip(line, hit),
								fmt.Sprintf("ingest|%s|trace-level", cl.Name))
						}
					}
				}
			}
			if !seen["New registration:"] || !seen["expired reg "] {
				c17Fail(out, "C17:harness-ingest-incomplete", fmt.Sprintf("digest / expiry lines were not produced (%v)", seen), "ingest|"+cl.Name)
			}
		}
	}
}

// ---------------------------------------------------------------------------------------------

func TestVerifC17Lib(t *testing.T) {
	os.Setenv("PHANTOM_SUBNET_LOCATION", "./test/phantom_subnets.toml")
	var glob c17Buf
	golog.SetOutput(&glob)
	Stat()
	getProxyStats()
	out := vlib.Open("C17")
	defer out.Close()
	out.Note("C17 lib: error trees through generalizeErr (proxies.go); injected errors at every I/O call of halfPipe/Proxy; registrations through ingestRegistration; log output scanned for client addresses in every textual form")
	if rp := vlib.Replay(); rp != "" {
		c17LibReplay(t, out, rp, &glob)
		return
	}
	st, cov := vc17.Station(), vc17.Covert()
	clients := vc17.Clients()
	var all [][]string // client addresses first: they are what the property is about
	var addrs []*vc17.Addr
	for _, cl := range clients {
		all = append(all, cl.Needles)
		addrs = append(addrs, cl.Addr)
	}
	all = append(all, vc17.Needles(st.TCP.IP), vc17.Needles(cov.TCP.IP))
	addrs = append(addrs, st, cov)
	// corpus: the probe of DESIGN §7
	probe := &vc17.Node{Kind: "O", Txt: "read", Net: "tcp", Src: st, Dst: clients[0].Addr, Inner: &vc17.Node{Kind: "E", N: 100}}
	c17GenCase(out, probe, all)
	// (A) every realistic shape of every operation, for every client and for the covert side
	for _, cl := range clients {
		for _, op := range []string{"read", "write", "close", "set", "file"} {
			for _, n := range vc17.Shapes(op, st, cl.Addr) {
				c17GenCase(out, n, all)
			}
		}
	}
	for _, op := range []string{"read", "write", "close", "set", "dial"} {
		for _, n := range vc17.Shapes(op, st, cov) {
			c17GenCase(out, n, all)
		}
	}
	for _, cl := range clients {
		for _, n := range vc17.Opaque(cl.Addr) {
			c17GenCase(out, n, all)
		}
	}
	r := vlib.NewRand("C17lib")
	for i, n := 0, vlib.Budget(4000, 150000); i < n; i++ {
		c17GenCase(out, vc17.Rand(r, addrs), all)
	}
	// (B)
	c17RelayAll(out, &glob)
	c17ProxyAll(out, &glob)
	// (C)
	c17Ingest(out)
	// (D) connecting transports: GeoIP failure, relay over a UDP-addressed connection
	c17Connecting(t, out, &glob)
	// (E) the statistics printers, after all of the above has been counted
	c17Statistics(out, all[:len(clients)])
}

// ---------------------------------------------------------------------------------------------
// (D) handleConnectingTpReg

type c17CT struct {
	mockTransport
	mk func() (net.Conn, error)
}

func (t *c17CT) Connect(ctx context.Context, r transports.Registration) (net.Conn, error) { return t.mk() }

type c17NoStats struct{}

func (c17NoStats) AddCreatedConnecting(uint, string, string)               {}
func (c17NoStats) AddCreatedToSuccessfulConnecting(uint, string, string)   {}
func (c17NoStats) AddCreatedToTimeoutConnecting(uint, string, string)      {}
func (c17NoStats) AddSuccessfulToDiscardedConnecting(uint, string, string) {}
func (c17NoStats) AddOtherFailConnecting(uint, string, string)             {}

// c17IPv4OnlyGeoIP opens the station's GeoIP wrapper on two IPv4-only MaxMind databases: an IPv6 lookup
// fails inside the reader with a text that repeats the looked-up address.
func c17IPv4OnlyGeoIP(dir string) (geoip.Database, error) {
	cc, asn := filepath.Join(dir, "cc.mmdb"), filepath.Join(dir, "asn.mmdb")
	if err := os.WriteFile(cc, vc17.IPv4OnlyMMDB("GeoLite2-Country"), 0o644); err != nil {
		return nil, err
	}
	if err := os.WriteFile(asn, vc17.IPv4OnlyMMDB("GeoLite2-ASN"), 0o644); err != nil {
		return nil, err
	}
	return geoip.New(&geoip.DBConfig{CCDBPath: cc, ASNDBPath: asn})
}

func c17Connecting(t *testing.T, out *vlib.Out, glob *c17Buf) {
	st := vc17.Station()
	db, err := c17IPv4OnlyGeoIP(t.TempDir())
	if err != nil {
		c17Fail(out, "C17:harness-geoip-database", "cannot open the IPv4-only test databases: "+err.Error(), "connecting|geoip")
		return
	}
	ln, err := net.Listen("tcp", "127.0.0.1:0")
	if err != nil {
		panic(err)
	}
	defer ln.Close()
	go func() {
		for {
			c, err := ln.Accept()
			if err != nil {
				return
			}
			go func(c net.Conn) {
				defer c.Close()
				_ = c.SetDeadline(time.Now().Add(10 * time.Second))
				_, _ = c.Write([]byte("reply from the covert"))
				_, _ = io.Copy(io.Discard, c)
			}(c)
		}
	}()
	for _, cl := range vc17.Clients() {
		for _, mode := range []string{"geoip-fails", "relay-udp"} {
			udp := &net.UDPAddr{IP: cl.Addr.TCP.IP, Port: cl.Addr.TCP.Port, Zone: cl.Addr.TCP.Zone}
			client := newC17Conn(&net.UDPAddr{IP: st.TCP.IP, Port: 443}, udp)
			client.chunks = [][]byte{[]byte("hello from the client")}
			client.readErr = &net.OpError{Op: "read", Net: "udp", Source: client.local, Addr: udp, Err: os.NewSyscallError("recvfrom", syscall.ENETDOWN)}
			client.closeErr = &net.OpError{Op: "close", Net: "udp", Source: client.local, Addr: udp, Err: syscall.EIO}
			ct := &c17CT{mk: func() (net.Conn, error) { return client, nil }}
			rm := NewRegistrationManager(&RegConfig{ConnectingStats: c17NoStats{}})
			if rm == nil {
				panic("no registration manager")
			}
			rm.GeoIP = &geoip.EmptyDatabase{}
			if mode == "geoip-fails" {
				rm.GeoIP = db
			}
			if err := rm.AddTransport(pb.TransportType_DTLS, ct); err != nil {
				panic(err)
			}
			reg := c05RegLike(ln.Addr().String(), false)
			reg.Transport = pb.TransportType_DTLS
			var tr Transport = ct
			reg.TransportPtr = &tr
			reg.registrationAddr = cl.Addr.TCP.IP
			var lb c17Buf
			logger := log.New(&lb, "[REG] ", golog.Ldate|golog.Lmicroseconds)
			glob.Reset()
			base := runtime.NumGoroutine()
			handleConnectingTpReg(rm, reg, logger)
			// the work happens on a goroutine of its own: wait for what ends it
			isV6 := cl.Addr.TCP.IP.To4() == nil
			want := "proxy closed "
			if mode == "geoip-fails" && isV6 {
				want = "Failed to get"
			}
			for i := 0; i < 40000 && !strings.Contains(lb.String(), want); i++ {
				time.Sleep(250 * time.Microsecond)
			}
			c17Settle(base)
			logged := lb.String() + glob.String()
			out.Checked()
			out.Count("connecting:" + mode)
			if !strings.Contains(logged, want) {
				c17Fail(out, "C17:harness-connecting-incomplete", fmt.Sprintf("%s client, %s: expected %q in the log, got %q", cl.Name, mode, want, logged), "connecting|"+cl.Name+"|"+mode)
			}
			if hit := vc17.Scan(logged, cl.Needles); hit != "" {
				sig := "C17:relay-log-has-client-address"
				if mode == "geoip-fails" {
					sig = "C17:geoip-error-names-client"
				}
				c17Fail(out, sig, fmt.Sprintf("connecting transport, %s client, %s: the log contains %s: %s", cl.Name, mode, hit, c17Clip(logged, hit)),
					"connecting|"+cl.Name+"|"+mode)
			}
		}
	}
}

// ---------------------------------------------------------------------------------------------
// (E) statistics

func c17Statistics(out *vlib.Out, clientNeedles [][]string) {
	var lb c17Buf
	logger := log.New(&lb, "[STATS] ", golog.Ldate|golog.Lmicroseconds)
	s := Stat()
	old := s.logger
	s.logger = logger
	s.PrintStats(false)
	s.PrintStats(true)
	s.logger = old
	getProxyStats().PrintAndReset(logger)
	os.Setenv("PHANTOM_SUBNET_LOCATION", "./test/phantom_subnets.toml")
	if rm := NewRegistrationManager(&RegConfig{}); rm != nil {
		rm.PrintAndReset(logger)
	}
	logged := lb.String()
	out.Checked()
	out.Count("statistics")
	for _, key := range []string{"Conns: ", "proxy-stats:", "reg-stats: "} {
		if !strings.Contains(logged, key) {
			c17Fail(out, "C17:harness-statistics-incomplete", fmt.Sprintf("the statistics printers did not write %q: %q", key, logged), "statistics")
		}
	}
	for _, needles := range clientNeedles {
		if hit := vc17.Scan(logged, needles); hit != "" {
			c17Fail(out, "C17:statistics-have-client-address", "the statistics output contains "+hit+": "+c17Clip(logged, hit), "statistics")
		}
	}
}

func c17LibReplay(t *testing.T, out *vlib.Out, path string, glob *c17Buf) {
	b, err := os.ReadFile(path)
	if err != nil {
		t.Fatal(err)
	}
	// the injected cases are cheap: re-run the families named in the file
	s := string(b)
	if strings.Contains(s, "\ngen|0|") || strings.Contains(s, "\nrelay|") || strings.Contains(s, "\nproxy|") {
		st, cov := vc17.Station(), vc17.Covert()
		var all [][]string
		for _, cl := range vc17.Clients() {
			all = append(all, cl.Needles)
		}
		all = append(all, vc17.Needles(st.TCP.IP), vc17.Needles(cov.TCP.IP))
		for _, cl := range vc17.Clients() {
			for _, op := range []string{"read", "write", "close", "set", "file"} {
				for _, n := range vc17.Shapes(op, st, cl.Addr) {
					c17GenCase(out, n, all)
				}
			}
		}
		c17RelayAll(out, glob)
		c17ProxyAll(out, glob)
	}
	if strings.Contains(s, "\ningest|") {
		c17Ingest(out)
	}
	if strings.Contains(s, "\nconnecting|") {
		c17Connecting(t, out, glob)
	}
	if strings.Contains(s, "\nstatistics") {
		var cn [][]string
		for _, cl := range vc17.Clients() {
			cn = append(cn, cl.Needles)
		}
		c17Statistics(out, cn)
	}
}
