//go:build verif

// Package vc17 is shared by the two C17 harnesses (package lib and package main of cmd/application):
// error trees (the Go value and the line for the Lean model), the realistic error shapes of each I/O
// call, and the scanner that looks for a client address in every textual form. It exists only in the
// scratch copy of the repository.
package vc17

import (
	"context"
	"encoding/base64"
	"encoding/hex"
	"errors"
	"fmt"
	"io"
	"net"
	"os"
	"regexp"
	"runtime/debug"
	"strings"
	"syscall"

	"github.com/refraction-networking/conjure/internal/vlib"
)

// Addr is an endpoint with the role the model attaches to it: c client, s station, p phantom, v covert, d decoy.
type Addr struct {
	Role byte
	TCP  *net.TCPAddr
}

func (a *Addr) enc() string {
	if a == nil {
		return "-"
	}
	return string(a.Role) + hex.EncodeToString([]byte(a.TCP.String()))
}

// encHost is the address without the port (what net.AddrError carries for "missing port in address").
func (a *Addr) encHost() string {
	return string(a.Role) + hex.EncodeToString([]byte(a.TCP.IP.String()))
}

func (a *Addr) net() net.Addr {
	if a == nil {
		return nil // a nil interface, as package net leaves Source for SetDeadline errors
	}
	return a.TCP
}

// NetErr is a net.Error implementation outside the standard library.
type NetErr struct {
	Txt string
	To  bool
}

func (e *NetErr) Error() string   { return e.Txt }
func (e *NetErr) Timeout() bool   { return e.To }
func (e *NetErr) Temporary() bool { return false }

// Node is one link of an error chain.
type Node struct {
	Kind  string // E S O W eof nc oc dl X N XA NA; F and ctx-deadline only for injection (no model line)
	N     int
	Txt   string // S: call, W/X/N: text, O: op, XA: text before the address, NA: AddrError.Err
	Post  string // XA: text after the address
	Net   string
	Src   *Addr
	Dst   *Addr
	To    bool
	Inner *Node
}

func hx(s string) string { return hex.EncodeToString([]byte(s)) }

// Enc is the chain in the line protocol of the Lean driver.
func (n *Node) Enc() string {
	var parts []string
	for c := n; c != nil; c = c.Inner {
		switch c.Kind {
		case "E":
			parts = append(parts, fmt.Sprintf("E:%d:%s", c.N, hx(syscall.Errno(c.N).Error())))
		case "S":
			parts = append(parts, "S:"+hx(c.Txt))
		case "O":
			parts = append(parts, "O:"+hx(c.Txt)+":"+hx(c.Net)+":"+c.Src.enc()+":"+c.Dst.enc())
		case "W":
			parts = append(parts, "W:"+hx(c.Txt))
		case "X":
			parts = append(parts, "X:"+hx(c.Txt))
		case "N":
			parts = append(parts, "N:"+hx(c.Txt)+":"+vlib.B(c.To))
		case "XA":
			parts = append(parts, "XA:"+hx(c.Txt)+":"+c.Dst.enc()+":"+hx(c.Post))
		case "NA":
			// (*net.AddrError).Error() = "address " + Addr + ": " + Err
			parts = append(parts, "NA:"+hx("address ")+":"+c.Dst.encHost()+":"+hx(": "+c.Txt)+":0")
		case "F":
			parts = append(parts, "F:"+hx(c.Txt)+":"+hx(c.Post))
		default:
			parts = append(parts, c.Kind)
		}
	}
	return strings.Join(parts, ",")
}

// Go builds the real error value.
func (n *Node) Go() error {
	switch n.Kind {
	case "E":
		return syscall.Errno(n.N)
	case "S":
		return &os.SyscallError{Syscall: n.Txt, Err: n.Inner.Go()}
	case "O":
		return &net.OpError{Op: n.Txt, Net: n.Net, Source: n.Src.net(), Addr: n.Dst.net(), Err: n.Inner.Go()}
	case "W":
		return fmt.Errorf("%s: %w", n.Txt, n.Inner.Go())
	case "eof":
		return io.EOF
	case "nc":
		return net.ErrClosed
	case "oc":
		return os.ErrClosed
	case "dl":
		return os.ErrDeadlineExceeded
	case "X":
		return errors.New(n.Txt)
	case "N":
		return &NetErr{n.Txt, n.To}
	case "XA":
		// an operation error flattened into text, the way fmt.Errorf("…: %v", opErr) does it
		return fmt.Errorf("%s%v%s", n.Txt, n.Dst.TCP, n.Post)
	case "NA":
		return &net.AddrError{Err: n.Txt, Addr: n.Dst.TCP.IP.String()}
	case "F":
		// the cause flattened into the text of a new error (fmt.Errorf("…: %v…", err)): nothing to unwrap
		return fmt.Errorf("%s%v%s", n.Txt, n.Inner.Go(), n.Post)
	case "ctx-deadline":
		return context.DeadlineExceeded
	}
	panic("vc17: bad node kind " + n.Kind)
}

// HasAddr reports whether an address of the given role occurs in the chain.
func (n *Node) HasAddr(role byte) bool {
	for c := n; c != nil; c = c.Inner {
		if c.Kind == "O" && ((c.Src != nil && c.Src.Role == role) || (c.Dst != nil && c.Dst.Role == role)) {
			return true
		}
	}
	return false
}

// OpaqueAddr reports whether the chain names an address in an opaque part (a flattened operation error,
// a *net.AddrError): text that no sanitiser working on error values can look into.
func (n *Node) OpaqueAddr() bool {
	for c := n; c != nil; c = c.Inner {
		if c.Kind == "XA" || c.Kind == "NA" || c.Kind == "F" {
			return true
		}
	}
	return false
}

// Opaque are the two shapes of opaque errors that name the given endpoint.
func Opaque(a *Addr) []*Node {
	return []*Node{
		{Kind: "XA", Txt: "error setting deadline: set udp ", Dst: a, Post: ": invalid argument"},
		{Kind: "NA", Txt: "missing port in address", Dst: a},
		{Kind: "W", Txt: "transport", Inner: &Node{Kind: "XA", Txt: "read tcp 10.9.8.7:41245->", Dst: a, Post: ": read: network is down"}},
		{Kind: "S", Txt: "connect", Inner: &Node{Kind: "NA", Txt: "unexpected address type", Dst: a}},
	}
}

// IsFlags evaluates errors.Is for the eight targets of generalizeErr and the net.Error timeout test.
func IsFlags(err error) string {
	var b strings.Builder
	for _, t := range []error{net.ErrClosed, io.EOF, syscall.EPIPE, os.ErrClosed, syscall.ECONNRESET,
		syscall.ECONNREFUSED, syscall.ECONNABORTED, syscall.EHOSTUNREACH} {
		b.WriteString(vlib.B(errors.Is(err, t)))
	}
	ne, ok := err.(net.Error)
	return "is:" + b.String() + "|nt:" + vlib.B(ok && ne.Timeout())
}

var Errnos = []syscall.Errno{syscall.EPIPE, syscall.ECONNRESET, syscall.ECONNREFUSED, syscall.ECONNABORTED,
	syscall.EHOSTUNREACH, syscall.ETIMEDOUT, syscall.EAGAIN, syscall.ENETDOWN, syscall.ENETUNREACH,
	syscall.ENOBUFS, syscall.EIO, syscall.EMFILE, syscall.ENOTSUP, syscall.EINVAL, syscall.EBADF, syscall.ENOTCONN}

var leafTexts = []string{"rst", "timeout", "closed", "unexpected EOF", "short write", "obfs4: handshake failed", "tls: bad record MAC", "x"}

func Leaf(r *vlib.Rand) *Node {
	switch r.Intn(10) {
	case 0, 1, 2, 3:
		return &Node{Kind: "E", N: int(Errnos[r.Intn(len(Errnos))])}
	case 4:
		return &Node{Kind: "eof"}
	case 5:
		return &Node{Kind: "nc"}
	case 6:
		return &Node{Kind: "oc"}
	case 7:
		return &Node{Kind: "dl"}
	case 8:
		return &Node{Kind: "X", Txt: leafTexts[r.Intn(len(leafTexts))]}
	default:
		return &Node{Kind: "N", Txt: leafTexts[r.Intn(len(leafTexts))], To: r.Bool()}
	}
}

var ops = []string{"read", "write", "close", "set", "dial", "file", "accept", "readfrom"}
var nets = []string{"tcp", "tcp4", "tcp6", "", "udp"}
var calls = []string{"read", "write", "connect", "setsockopt", "dup"}
var wraps = []string{"transport", "failed to read obfs4 handshake", "prefix: flush", "station", ""}

// Rand builds a random chain of 0-4 wrappers over a random leaf; endpoints are drawn from addrs (and nil).
func Rand(r *vlib.Rand, addrs []*Addr) *Node {
	n := Leaf(r)
	pick := func() *Addr {
		if r.Chance(1, 4) {
			return nil
		}
		return addrs[r.Intn(len(addrs))]
	}
	if r.Chance(1, 25) { // an opaque leaf that names an endpoint
		a := addrs[r.Intn(len(addrs))]
		if r.Bool() {
			n = &Node{Kind: "XA", Txt: wraps[r.Intn(len(wraps))] + ": " + ops[r.Intn(len(ops))] + " tcp ", Dst: a, Post: ": " + leafTexts[r.Intn(len(leafTexts))]}
		} else {
			n = &Node{Kind: "NA", Txt: leafTexts[r.Intn(len(leafTexts))], Dst: a}
		}
	}
	for d := r.Intn(5); d > 0; d-- {
		switch r.Intn(5) {
		case 0:
			n = &Node{Kind: "S", Txt: calls[r.Intn(len(calls))], Inner: n}
		case 1, 2, 3:
			n = &Node{Kind: "O", Txt: ops[r.Intn(len(ops))], Net: nets[r.Intn(len(nets))], Src: pick(), Dst: pick(), Inner: n}
		default:
			n = &Node{Kind: "W", Txt: wraps[r.Intn(len(wraps))], Inner: n}
		}
	}
	return n
}

// Shapes are the errors an I/O call of kind op ("read", "write", "close", "set", "file") returns on a
// connection with the given local and remote endpoint, as package net builds them (net.go, tcpsock.go,
// fd_posix.go), plus bare causes and wrapped variants as transports return them.
func Shapes(op string, local, remote *Addr) []*Node {
	mk := func(inner *Node) *Node {
		if op == "set" { // SetDeadline: OpError{Op: "set", Source: nil, Addr: laddr}
			return &Node{Kind: "O", Txt: "set", Net: "tcp", Src: nil, Dst: local, Inner: inner}
		}
		return &Node{Kind: "O", Txt: op, Net: "tcp", Src: local, Dst: remote, Inner: inner}
	}
	call := op
	if op == "set" {
		call = "setsockopt"
	} else if op == "file" {
		call = "dup"
	}
	var out []*Node
	for _, e := range Errnos {
		out = append(out, mk(&Node{Kind: "S", Txt: call, Inner: &Node{Kind: "E", N: int(e)}}))
	}
	out = append(out,
		mk(&Node{Kind: "nc"}), mk(&Node{Kind: "dl"}), mk(&Node{Kind: "E", N: int(syscall.ENETDOWN)}),
		mk(&Node{Kind: "X", Txt: "unexpected EOF"}), mk(&Node{Kind: "N", Txt: "custom timeout", To: true}),
		mk(&Node{Kind: "N", Txt: "custom failure", To: false}),
		&Node{Kind: "E", N: int(syscall.ENETDOWN)}, &Node{Kind: "E", N: int(syscall.ECONNRESET)}, &Node{Kind: "E", N: int(syscall.ENOTSUP)},
		&Node{Kind: "dl"}, &Node{Kind: "nc"}, &Node{Kind: "oc"}, &Node{Kind: "X", Txt: "weird failure"},
	)
	if op == "read" {
		out = append(out, &Node{Kind: "eof"}, mk(&Node{Kind: "eof"}))
	}
	if op != "set" {
		// what a transport or a TLS/obfs4 layer hands up: the operation error wrapped once or twice
		out = append(out,
			&Node{Kind: "W", Txt: "transport", Inner: mk(&Node{Kind: "S", Txt: call, Inner: &Node{Kind: "E", N: int(syscall.ENETDOWN)}})},
			&Node{Kind: "W", Txt: "outer", Inner: &Node{Kind: "W", Txt: "inner", Inner: mk(&Node{Kind: "E", N: int(syscall.EIO)})}},
			&Node{Kind: "W", Txt: "transport", Inner: mk(&Node{Kind: "dl"})},
			mk(mk(&Node{Kind: "E", N: int(syscall.ENOBUFS)})),
		)
	}
	return out
}

// Needles lists the textual forms of ip a log line could contain (lower case).
func Needles(ip net.IP) []string {
	var n []string
	add := func(s string) {
		s = strings.ToLower(s)
		for _, x := range n {
			if x == s {
				return
			}
		}
		n = append(n, s)
	}
	add(ip.String())
	raw := []byte(ip.To16())
	if v4 := ip.To4(); v4 != nil {
		raw = v4
		add(fmt.Sprintf("%d.%d.%d.%d", v4[0], v4[1], v4[2], v4[3]))
		add(fmt.Sprintf("%02x%02x:%02x%02x", v4[0], v4[1], v4[2], v4[3])) // ::ffff:cb00:714d
		add(base64.StdEncoding.EncodeToString([]byte(ip.To16())))
	} else {
		var full, short []string
		for i := 0; i < 16; i += 2 {
			full = append(full, fmt.Sprintf("%02x%02x", raw[i], raw[i+1]))
			short = append(short, fmt.Sprintf("%x", int(raw[i])<<8|int(raw[i+1])))
		}
		add(strings.Join(full, ":"))
		add(strings.Join(short, ":"))
	}
	add(hex.EncodeToString(raw))
	add(base64.StdEncoding.EncodeToString(raw))
	add(strings.Trim(fmt.Sprint(raw), "[]")) // %v of the byte slice: "203 0 113 77"
	return n
}

// Scan returns the first needle found in text (case-insensitively), or "".
func Scan(text string, needles []string) string {
	t := strings.ToLower(text)
	for _, n := range needles {
		if strings.Contains(t, n) {
			return n
		}
	}
	return ""
}

// Client is one distinctive client endpoint with its needles.
type Client struct {
	Name    string
	Addr    *Addr
	Needles []string
}

func mkClient(name, ip string, port int) Client {
	p := net.ParseIP(ip)
	if strings.Contains(ip, ".") && !strings.Contains(ip, ":") {
		p = p.To4()
	}
	return Client{name, &Addr{'c', &net.TCPAddr{IP: p, Port: port}}, Needles(net.ParseIP(ip))}
}

// Clients: an IPv4, an IPv6 and a v4-mapped IPv6 client (16-byte form of an IPv4 address), and a link-local
// IPv6 client whose address prints with a zone ("[fe80::77:4d%eth0]:5555").
func Clients() []Client {
	mapped := mkClient("v4-mapped", "198.51.100.201", 40001)
	mapped.Addr.TCP.IP = net.ParseIP("198.51.100.201").To16()
	zone := mkClient("v6-zone", "fe80::77:4d", 5555)
	zone.Addr.TCP.Zone = "eth0"
	return []Client{mkClient("v4", "203.0.113.77", 5555), mkClient("v6", "2001:db8:77::4d", 5555), mapped, zone}
}

// IPv4OnlyMMDB is a minimal MaxMind database of the given type ("GeoLite2-Country", "GeoLite2-ASN") whose
// metadata says ip_version 4 and whose search tree holds no record: looking up an IPv4 address finds
// nothing, looking up an IPv6 address fails with the reader's "error looking up '<ip>': you attempted to
// look up an IPv6 address in an IPv4-only database".
func IPv4OnlyMMDB(dbType string) []byte { return MMDB(dbType, "v4") }

// DBShapes are the shapes a GeoIP database file of the station can have: no file configured, an IPv4-only
// database, a dual-stack one (both with an empty search tree: every lookup finds nothing), and one that opens
// but whose search tree points outside the data section (every lookup fails inside the reader).
var DBShapes = []string{"absent", "v4", "dual", "corrupt"}

// MMDB builds a minimal MaxMind database of the given type and shape ("v4", "dual", "corrupt").
func MMDB(dbType, shape string) []byte {
	var b []byte
	ipVersion := 4
	if shape != "v4" {
		ipVersion = 6
	}
	if shape == "corrupt" {
		b = append(b, 0, 0, 0x70, 0, 0, 0x70) // both records: a pointer far behind the end of the data section
	} else {
		b = append(b, 0, 0, 1, 0, 0, 1) // one node of two 24-bit records, both = node_count: no data
	}
	b = append(b, make([]byte, 16)...) // data section separator; the data section is empty
	b = append(b, "\xab\xcd\xefMaxMind.com"...)
	str := func(s string) { b = append(b, byte(2<<5|len(s))); b = append(b, s...) }
	u16 := func(v int) { b = append(b, 5<<5|2, byte(v>>8), byte(v)) }
	b = append(b, 7<<5|9) // map of 9 entries
	str("binary_format_major_version")
	u16(2)
	str("binary_format_minor_version")
	u16(0)
	str("build_epoch")
	b = append(b, 4, 2, 0x65, 0, 0, 0) // uint64 (extended type 9) in 4 bytes
	str("database_type")
	str(dbType)
	str("description")
	b = append(b, 7<<5|0)
	str("ip_version")
	u16(ipVersion)
	str("languages")
	b = append(b, 0, 4) // empty array (extended type 11)
	str("node_count")
	b = append(b, 6<<5|1, 1)
	str("record_size")
	u16(24)
	return b
}

// WriteDBs writes the two database files of a configuration into dir; the path of an absent database is "".
func WriteDBs(dir, ccShape, asnShape string) (ccPath, asnPath string, err error) {
	if ccShape != "absent" {
		ccPath = dir + "/cc-" + ccShape + ".mmdb"
		if err = os.WriteFile(ccPath, MMDB("GeoLite2-Country", ccShape), 0o644); err != nil {
			return
		}
	}
	if asnShape != "absent" {
		asnPath = dir + "/asn-" + asnShape + ".mmdb"
		err = os.WriteFile(asnPath, MMDB("GeoLite2-ASN", asnShape), 0o644)
	}
	return
}

// FDCapture diverts the process's file descriptors 1 and 2 into a file: everything the process writes to its
// standard streams — loggers created on os.Stdout / os.Stderr, the standard logger, fmt.Print*, the builtin
// println, the runtime — is there to be scanned, whichever logger object it went through.
type FDCapture struct {
	f        *os.File
	saved    [2]int
	off      int64
	crashOut *os.File
}

func CaptureFDs() (*FDCapture, error) {
	f, err := os.CreateTemp("", "verif-c17-fds")
	if err != nil {
		return nil, err
	}
	c := &FDCapture{f: f}
	for i := range c.saved {
		if c.saved[i], err = syscall.Dup(i + 1); err != nil {
			return nil, err
		}
	}
	// a fatal error of the runtime must still reach whoever started the process
	if fd, err := syscall.Dup(2); err == nil {
		c.crashOut = os.NewFile(uintptr(fd), "original-stderr")
		_ = debug.SetCrashOutput(c.crashOut, debug.CrashOptions{})
	}
	for i := range c.saved {
		if err = syscall.Dup3(int(f.Fd()), i+1, 0); err != nil {
			c.Stop()
			return nil, err
		}
	}
	return c, nil
}

// Take returns what was written since the last call.
func (c *FDCapture) Take() string {
	st, err := c.f.Stat()
	if err != nil || st.Size() <= c.off {
		return ""
	}
	b := make([]byte, st.Size()-c.off)
	n, _ := c.f.ReadAt(b, c.off)
	c.off += int64(n)
	return string(b[:n])
}

func (c *FDCapture) Stop() {
	for i, fd := range c.saved {
		if fd > 0 {
			_ = syscall.Dup3(fd, i+1, 0)
			syscall.Close(fd)
			c.saved[i] = 0
		}
	}
	_ = debug.SetCrashOutput(nil, debug.CrashOptions{})
	if c.crashOut != nil {
		c.crashOut.Close()
	}
	c.f.Close()
	os.Remove(c.f.Name())
}

// LoopbackNeedles: the textual forms of a loopback client endpoint.  For ::1 the address itself is also the
// station's side of the connection, so only forms that include the client's port are looked for.
func LoopbackNeedles(a *net.TCPAddr) []*regexp.Regexp {
	port := fmt.Sprint(a.Port)
	if a.IP.To4() == nil {
		return []*regexp.Regexp{regexp.MustCompile(`\]:` + port + `([^0-9]|$)`)}
	}
	var out []*regexp.Regexp
	for _, n := range Needles(a.IP) {
		out = append(out, regexp.MustCompile(`(?i)`+regexp.QuoteMeta(n)))
	}
	return append(out, regexp.MustCompile(`:`+port+`([^0-9.]|$)`))
}

func Station() *Addr { return &Addr{'s', &net.TCPAddr{IP: net.ParseIP("10.9.8.7").To4(), Port: 41245}} }
func Covert() *Addr  { return &Addr{'v', &net.TCPAddr{IP: net.ParseIP("192.0.2.55").To4(), Port: 443}} }
