//go:build verif

package lib

// Tie 1 for C17, second half: where the text of an error comes from.  The call-site table says which call an
// error value printed by a logger came from (`.rawErr ⟨call, …⟩`, `.genErr ⟨call, …⟩` when it went through
// generalizeErr).  For a call that resolves to functions of this repository the extractor adds a summary of
// every such function — what it can return as its error — and, transitively, of the functions those call:
//
//	.err flat gen ⟨call, fns⟩   the error of another call, returned as it is or wrapped with %w (flat = false)
//	                            or formatted into a new error with any other verb / through .Error() (flat =
//	                            true: its text becomes opaque text of the new error); gen: it went through
//	                            generalizeErr first
//	.tainted "expr ⇐ why"       a value derived from a client address is formatted into a constructed error
//	                            (fmt.Errorf, errors.New, …)
//
// Client-derived values are found by a data-flow analysis over the same sources (go/ast only): the sources are
// the expressions that read a client address (X.RemoteAddr(), .registrationAddr, GetRegistrationAddress(),
// .RegistrationAddress, the DTLS parameters SrcAddr4 / SrcAddr6); a variable is client-derived when any
// assignment to it (flow-insensitive) has a client-derived right-hand side — a source, a client-derived
// variable, a field / element / method of one, a concatenation with one, a call outside the repository with a
// client-derived argument (fmt.Sprintf, net.SplitHostPort, net.JoinHostPort, …), an address literal built
// from one, a call of a repository function whose returned value is client-derived; a parameter is
// client-derived when some call site in the covered sources passes a client-derived argument (fixpoint over
// all functions).  A call outside the repository that is handed a client-derived argument is keyed with a
// trailing ⚑ (errors of parsers and resolvers repeat their input).
//
// Calls are resolved by name, without type information: `f(…)` to the function f of the same package,
// `pkg.F(…)` to F of that package when the import is a package of this repository (otherwise the call is a
// leaf: it is reviewed by name in the Lean table), `x.M(…)` to every method M of the repository (to the
// methods of x's type when x is a parameter or receiver whose declared type is a type of the repository;
// a leaf when the declared type is a pointer to a type of another module).

import (
	"fmt"
	"go/ast"
	"go/parser"
	"go/token"
	"os"
	"path/filepath"
	"regexp"
	"sort"
	"strings"
)

const c17xModule = "github.com/refraction-networking/conjure/"

// directories whose function bodies are read for the error summaries
var c17xFnDirs = []string{"cmd/application", "pkg", "internal"}
var c17xFnSkipDirs = []string{"pkg/dtls/examples", "internal/vlib", "internal/vc17", "internal/verifhook"}

type c17xFile struct {
	rel, dir string
	fset     *token.FileSet
	ast      *ast.File
	imports  map[string]string // alias → directory in this repository ("" = another module)
	site     bool              // logger call sites of this file are listed
}

type c17xSrc struct {
	tainted   string
	flat, gen bool
	text      string
	fns       []*c17xFn
	open      bool // the call can also reach code outside the repository: reviewed by name as well
}

type c17xFn struct {
	*c17xFunc
	id         int // -1: not numbered yet
	visiting   bool
	key, short string
	dir, recv  string
	decl       *ast.FuncDecl
	file       *c17xFile
	pnames     []string // parameter names in order ("_" when unnamed)
	ptypes     map[string]string
	variadic   bool
	hasErr     bool
	namedErr   string
	taintP     map[string]string
	taintV     map[string]string
	retTaint   string
	srcs       []c17xSrc
	srcsDone   bool
}

type c17xIndex struct {
	files   []*c17xFile
	fns     []*c17xFn
	byName  map[string][]*c17xFn
	pkgName map[string]string // dir → package name
	globals map[string]map[string]ast.Expr // dir → package-level var → initialiser
	order   []*c17xFn         // numbered functions, callees first
	// the struct types the station prints as JSON summaries → their string-valued fields (string, []string)
	summaryTypes map[string]map[string]bool
	methods      map[string]map[string]bool // dir + "." + type → names of its methods
	ifaces       map[string][]string        // dir + "." + interface type of this repository → its methods
}

// method sets of interfaces of other modules that station code holds values of this repository's types in
var c17xExtIfaces = map[string][]string{
	"net.Conn":           {"Read", "Write", "Close", "LocalAddr", "RemoteAddr", "SetDeadline", "SetReadDeadline", "SetWriteDeadline"},
	"net.PacketConn":     {"ReadFrom", "WriteTo", "Close", "LocalAddr", "SetDeadline", "SetReadDeadline", "SetWriteDeadline"},
	"net.Listener":       {"Accept", "Close", "Addr"},
	"io.ReadWriteCloser": {"Read", "Write", "Close"},
	"io.ReadCloser":      {"Read", "Close"},
	"io.WriteCloser":     {"Write", "Close"},
	"io.ReadWriter":      {"Read", "Write"},
}

var c17xSummaryTypeNames = map[string]bool{"tunnelStats": true, "regExpireLogMsg": true}

func c17xLoad(root string) (*c17xIndex, error) {
	ix := &c17xIndex{byName: map[string][]*c17xFn{}, pkgName: map[string]string{}, globals: map[string]map[string]ast.Expr{},
		methods: map[string]map[string]bool{}, ifaces: map[string][]string{}}
	seen := map[string]bool{}
	siteFiles, err := c17xFiles(root)
	if err != nil {
		return nil, err
	}
	isSite := map[string]bool{}
	for _, f := range siteFiles {
		isSite[f] = true
	}
	var rels []string
	for _, d := range c17xFnDirs {
		err := filepath.Walk(filepath.Join(root, d), func(p string, info os.FileInfo, err error) error {
			if err != nil {
				return err
			}
			rel, _ := filepath.Rel(root, p)
			if info.IsDir() {
				for _, s := range c17xFnSkipDirs {
					if rel == s {
						return filepath.SkipDir
					}
				}
				return nil
			}
			if strings.HasSuffix(p, ".go") && !strings.HasSuffix(p, "_test.go") && !strings.HasPrefix(filepath.Base(p), "zz_verif") && !seen[rel] {
				seen[rel] = true
				rels = append(rels, rel)
			}
			return nil
		})
		if err != nil {
			return nil, err
		}
	}
	sort.Strings(rels)
	for _, rel := range rels {
		fset := token.NewFileSet()
		af, err := parser.ParseFile(fset, filepath.Join(root, rel), nil, 0)
		if err != nil {
			if isSite[rel] {
				return nil, err
			}
			continue // e.g. a file for another platform that this parser version rejects: not station code
		}
		if af.Name.Name == "main" && !strings.HasPrefix(rel, "cmd/application/") {
			continue // other programs
		}
		f := &c17xFile{rel: rel, dir: filepath.Dir(rel), fset: fset, ast: af, imports: map[string]string{}, site: isSite[rel]}
		ix.pkgName[f.dir] = af.Name.Name
		ix.files = append(ix.files, f)
	}
	for _, f := range ix.files {
		for _, im := range f.ast.Imports {
			path := strings.Trim(im.Path.Value, `"`)
			dir := ""
			alias := path[strings.LastIndex(path, "/")+1:]
			if strings.HasPrefix(path, c17xModule) {
				dir = strings.TrimPrefix(path, c17xModule)
				if n, ok := ix.pkgName[dir]; ok {
					alias = n
				}
			}
			if im.Name != nil {
				alias = im.Name.Name
			}
			f.imports[alias] = dir
			if dir == "" {
				// packages whose name is not the last path element: register the usual spellings as well
				for _, a := range []string{strings.TrimSuffix(alias, "4"), strings.TrimPrefix(alias, "go-"), strings.Split(alias, ".")[0]} {
					if _, ok := f.imports[a]; !ok && a != "" {
						f.imports[a] = ""
					}
				}
			}
		}
		if ix.globals[f.dir] == nil {
			ix.globals[f.dir] = map[string]ast.Expr{}
		}
		for _, d := range f.ast.Decls {
			switch x := d.(type) {
			case *ast.GenDecl:
				if x.Tok == token.TYPE {
					for _, sp := range x.Specs {
						ts := sp.(*ast.TypeSpec)
						if it, ok := ts.Type.(*ast.InterfaceType); ok {
							var ms []string
							for _, m := range it.Methods.List {
								for _, nm := range m.Names {
									ms = append(ms, nm.Name)
								}
								if len(m.Names) == 0 { // embedded interface: its methods when it is one of the known ones
									ms = append(ms, c17xExtIfaces[c17xText(f.fset, m.Type)]...)
								}
							}
							ix.ifaces[f.dir+"."+ts.Name.Name] = ms
						}
					}
				}
				if x.Tok == token.TYPE && f.dir == "pkg/station/lib" {
					for _, sp := range x.Specs {
						ts := sp.(*ast.TypeSpec)
						st, ok := ts.Type.(*ast.StructType)
						if !ok || !c17xSummaryTypeNames[ts.Name.Name] {
							continue
						}
						if ix.summaryTypes == nil {
							ix.summaryTypes = map[string]map[string]bool{}
						}
						ix.summaryTypes[ts.Name.Name] = map[string]bool{}
						for _, fl := range st.Fields.List {
							if t := c17xText(f.fset, fl.Type); t == "string" || t == "[]string" || t == "error" || t == "any" || t == "interface{}" {
								for _, nm := range fl.Names {
									ix.summaryTypes[ts.Name.Name][nm.Name] = true
								}
							}
						}
					}
				}
				if x.Tok != token.VAR {
					continue
				}
				for _, sp := range x.Specs {
					vs := sp.(*ast.ValueSpec)
					for i, nm := range vs.Names {
						if i < len(vs.Values) {
							ix.globals[f.dir][nm.Name] = vs.Values[i]
						}
					}
				}
			case *ast.FuncDecl:
				if x.Body == nil {
					continue
				}
				fn := &c17xFn{id: -1, dir: f.dir, decl: x, file: f, ptypes: map[string]string{}, taintP: map[string]string{}, taintV: map[string]string{}}
				fn.c17xFunc = &c17xFunc{fset: f.fset, name: x.Name.Name, assigns: map[string][]c17xAssign{}, params: map[string]bool{}, loggers: map[string]bool{}}
				fn.c17xFunc.me, fn.c17xFunc.ix = fn, ix
				if x.Recv != nil && len(x.Recv.List) > 0 {
					t := c17xText(f.fset, x.Recv.List[0].Type)
					t = strings.TrimPrefix(t, "*")
					if i := strings.Index(t, "["); i >= 0 {
						t = t[:i]
					}
					fn.recv = t
					for _, nm := range x.Recv.List[0].Names {
						fn.params[nm.Name] = true
						fn.ptypes[nm.Name] = c17xText(f.fset, x.Recv.List[0].Type)
					}
				}
				for _, fl := range x.Type.Params.List {
					tt := c17xText(f.fset, fl.Type)
					if _, ok := fl.Type.(*ast.Ellipsis); ok {
						fn.variadic = true
					}
					if len(fl.Names) == 0 {
						fn.pnames = append(fn.pnames, "_")
					}
					for _, nm := range fl.Names {
						fn.pnames = append(fn.pnames, nm.Name)
						fn.params[nm.Name] = true
						fn.ptypes[nm.Name] = tt
					}
				}
				if x.Type.Results != nil && len(x.Type.Results.List) > 0 {
					last := x.Type.Results.List[len(x.Type.Results.List)-1]
					if c17xText(f.fset, last.Type) == "error" {
						fn.hasErr = true
						if len(last.Names) > 0 {
							fn.namedErr = last.Names[len(last.Names)-1].Name
						}
					}
					for _, fl := range x.Type.Results.List {
						for _, nm := range fl.Names {
							fn.params[nm.Name] = true
						}
					}
				}
				base := filepath.Base(f.dir)
				fn.short = base + "." + x.Name.Name
				fn.key = f.dir + "." + x.Name.Name
				if fn.recv != "" {
					fn.short = base + "." + fn.recv + "." + x.Name.Name
					fn.key = f.dir + "." + fn.recv + "." + x.Name.Name
				}
				fn.collect(x.Body)
				if fn.recv != "" {
					k := fn.dir + "." + fn.recv
					if ix.methods[k] == nil {
						ix.methods[k] = map[string]bool{}
					}
					ix.methods[k][x.Name.Name] = true
				}
				ix.fns = append(ix.fns, fn)
				ix.byName[x.Name.Name] = append(ix.byName[x.Name.Name], fn)
			}
		}
	}
	ix.taintFixpoint()
	return ix, nil
}

// ---------------------------------------------------------------------------------------------
// resolution of calls

func c17xRoot(e ast.Expr) *ast.Ident {
	for {
		switch x := e.(type) {
		case *ast.Ident:
			return x
		case *ast.SelectorExpr:
			e = x.X
		case *ast.CallExpr:
			e = x.Fun
		case *ast.IndexExpr:
			e = x.X
		case *ast.ParenExpr:
			e = x.X
		case *ast.StarExpr:
			e = x.X
		case *ast.TypeAssertExpr:
			e = x.X
		default:
			return nil
		}
	}
}

func (fn *c17xFn) isLocal(name string) bool {
	return fn.params[name] || len(fn.assigns[name]) > 0
}

// resolve returns the functions of the repository a call can reach (nil: a leaf — a call into another
// module, a function value, a builtin).
func (ix *c17xIndex) resolve(fn *c17xFn, call *ast.CallExpr) []*c17xFn {
	out, _ := ix.resolveOpen(fn, call)
	return out
}

// resolveOpen: open = the receiver's type is not known (an interface, a field, a result): the call can also
// reach a method outside this repository, so the call is reviewed by name as well
func (ix *c17xIndex) resolveOpen(fn *c17xFn, call *ast.CallExpr) (out []*c17xFn, open bool) {
	switch fun := call.Fun.(type) {
	case *ast.Ident:
		if fn.isLocal(fun.Name) {
			return nil, false
		}
		for _, c := range ix.byName[fun.Name] {
			if c.dir == fn.dir && c.recv == "" {
				out = append(out, c)
			}
		}
	case *ast.SelectorExpr:
		if id, ok := fun.X.(*ast.Ident); ok && !fn.isLocal(id.Name) {
			if dir, ok := fn.file.imports[id.Name]; ok {
				if dir == "" {
					return nil, false
				}
				for _, c := range ix.byName[fun.Sel.Name] {
					if c.dir == dir && c.recv == "" {
						out = append(out, c)
					}
				}
				return out, false
			}
		}
		// a method: narrow by the type of the receiver expression when it can be told without type checking
		if id, ok := fun.X.(*ast.Ident); ok {
			switch t, known := fn.typeOf(id.Name); {
			case known && t.external:
				return nil, false // a value of a type of another module (or returned by a function of another module)
			case known:
				for _, c := range ix.byName[fun.Sel.Name] {
					if c.recv == t.name && c.dir == t.dir {
						out = append(out, c)
					}
				}
				if len(out) > 0 {
					return out, false
				}
			}
		}
		// an interface value: only types that have all the methods of the interface can be in it
		var need []string
		if id, ok := fun.X.(*ast.Ident); ok {
			if t, ok := fn.ptypes[id.Name]; ok && !strings.HasPrefix(t, "*") {
				if ms, ok := c17xExtIfaces[t]; ok {
					need = ms
				} else if i := strings.Index(t, "."); i >= 0 {
					if dir, known := fn.file.imports[t[:i]]; known && dir != "" {
						need = ix.ifaces[dir+"."+t[i+1:]]
					}
				} else {
					need = ix.ifaces[fn.dir+"."+t]
				}
			}
		}
		for _, c := range ix.byName[fun.Sel.Name] {
			if c.recv == "" {
				continue
			}
			has := true
			for _, m := range need {
				has = has && ix.methods[c.dir+"."+c.recv][m]
			}
			if has {
				out = append(out, c)
			}
		}
		return out, true
	}
	return out, false
}

type c17xType struct {
	external  bool
	name, dir string
}

// typeText: `*pkg.T` / `T` → the named type; ok = false for anything else (interfaces of other modules such as
// net.Conn are *not* external here: values of this repository's types travel in them)
func (fn *c17xFn) typeText(t string) (c17xType, bool) {
	ptr := strings.HasPrefix(t, "*")
	t = strings.TrimPrefix(strings.TrimPrefix(t, "&"), "*")
	if t == "" || strings.ContainsAny(t, "[]{}( ") {
		return c17xType{}, false
	}
	if i := strings.Index(t, "."); i >= 0 {
		dir, known := fn.file.imports[t[:i]]
		if !known {
			return c17xType{}, false
		}
		if dir == "" {
			if ptr {
				return c17xType{external: true}, true // pointer to a concrete type of another module
			}
			return c17xType{}, false
		}
		return c17xType{name: t[i+1:], dir: dir}, true
	}
	return c17xType{name: t, dir: fn.dir}, true
}

// typeOf: the type of a parameter, receiver or local variable, when every assignment agrees
func (fn *c17xFn) typeOf(name string) (c17xType, bool) {
	if t, ok := fn.ptypes[name]; ok {
		return fn.typeText(t)
	}
	as := fn.assigns[name]
	if len(as) == 0 {
		return c17xType{}, false
	}
	var res c17xType
	for i, a := range as {
		var t c17xType
		ok := false
		switch r := a.rhs.(type) {
		case *ast.CallExpr:
			// the result of a function of another module is not a value of one of this repository's types
			if sel, isSel := r.Fun.(*ast.SelectorExpr); isSel {
				if id, isID := sel.X.(*ast.Ident); isID && !fn.isLocal(id.Name) {
					if dir, known := fn.file.imports[id.Name]; known && dir == "" {
						t, ok = c17xType{external: true}, true
					}
				}
			}
			if !ok {
				// the declared result type of the only function of this repository the call can reach
				if cs := fn.ix.resolveStatic(fn, r); len(cs) == 1 && cs[0].decl.Type.Results != nil {
					var types []string
					for _, fl := range cs[0].decl.Type.Results.List {
						n := len(fl.Names)
						if n == 0 {
							n = 1
						}
						for k := 0; k < n; k++ {
							types = append(types, c17xText(cs[0].fset, fl.Type))
						}
					}
					idx := 0
					if a.multi {
						idx = -1
						// position of name among the left-hand sides: recover it from the assignment order
						for k, b := range fn.assignsAt(a.pos) {
							if b == name {
								idx = k
							}
						}
					}
					if idx >= 0 && idx < len(types) {
						t, ok = cs[0].typeText(types[idx])
					}
				}
			}
		case *ast.UnaryExpr:
			if cl, isCl := r.X.(*ast.CompositeLit); isCl && r.Op == token.AND && cl.Type != nil {
				t, ok = fn.typeText("*" + c17xText(fn.fset, cl.Type))
			}
		case *ast.CompositeLit:
			if r.Type != nil {
				t, ok = fn.typeText(c17xText(fn.fset, r.Type))
			}
		}
		if !ok || (i > 0 && t != res) {
			return c17xType{}, false
		}
		res = t
	}
	return res, true
}

// assignsAt: the identifiers on the left-hand side of the assignment at pos, in order
func (fn *c17xFn) assignsAt(pos token.Pos) []string {
	var out []string
	ast.Inspect(fn.decl.Body, func(n ast.Node) bool {
		if as, ok := n.(*ast.AssignStmt); ok && as.Pos() == pos {
			for _, l := range as.Lhs {
				if id, ok := l.(*ast.Ident); ok {
					out = append(out, id.Name)
				} else {
					out = append(out, "")
				}
			}
			return false
		}
		return true
	})
	return out
}

// resolveStatic: calls whose target does not depend on a receiver's type (f(…), pkg.F(…))
func (ix *c17xIndex) resolveStatic(fn *c17xFn, call *ast.CallExpr) []*c17xFn {
	switch fun := call.Fun.(type) {
	case *ast.Ident:
		return ix.resolve(fn, call)
	case *ast.SelectorExpr:
		if id, ok := fun.X.(*ast.Ident); ok && !fn.isLocal(id.Name) {
			if _, ok := fn.file.imports[id.Name]; ok {
				return ix.resolve(fn, call)
			}
		}
	}
	return nil
}

// ---------------------------------------------------------------------------------------------
// client-derived values

// File: the *os.File of a connection is named after its endpoints ("tcp4:<local>-><remote>", package net)
var c17xSourceCalls = map[string]bool{"RemoteAddr": true, "GetRegistrationAddress": true, "GetSrcAddr4": true, "GetSrcAddr6": true, "File": true}

// Reviewed: methods of a client connection (and of values derived from a client address) whose result does
// not carry the address: I/O calls (byte counts; their errors are judged as error sources), the local side,
// the descriptor number, predicates.  Every other method of a client connection is a source.
var c17xCleanMethods = map[string]bool{"Read": true, "Write": true, "Close": true, "CloseRead": true, "CloseWrite": true,
	"SetDeadline": true, "SetReadDeadline": true, "SetWriteDeadline": true, "SetLinger": true, "SetKeepAlive": true,
	"SetKeepAlivePeriod": true, "SetNoDelay": true, "SetReadBuffer": true, "SetWriteBuffer": true, "LocalAddr": true,
	"Fd": true, "Len": true, "IsLoopback": true, "IsUnspecified": true, "IsPrivate": true, "Equal": true, "Network": true}

var c17xClientConnName = regexp.MustCompile(`(?i)client`)
var c17xSourceFields = map[string]bool{"registrationAddr": true, "RegistrationAddress": true, "SrcAddr4": true, "SrcAddr6": true}

// address-like composite literals keep the taint of their elements; other composites do not (a registration
// is not itself an address: its address field is a source wherever it is read)
var c17xAddrLits = map[string]bool{"net.UDPAddr": true, "net.TCPAddr": true, "net.IPAddr": true, "net.IP": true, "net.IPNet": true,
	"pb.Addr": true, "netip.AddrPort": true, "[]string": true, "[]byte": true, "[]net.IP": true, "[]any": true, "[]interface{}": true}

var c17xPureNum = map[string]bool{"len": true, "cap": true, "bytes.Equal": true, "strings.Contains": true, "strings.HasPrefix": true,
	"strings.HasSuffix": true, "strings.EqualFold": true, "strings.Index": true, "strings.Count": true}

func (fn *c17xFn) source(e ast.Expr) string {
	switch x := e.(type) {
	case *ast.CallExpr:
		if sel, ok := x.Fun.(*ast.SelectorExpr); ok && c17xSourceCalls[sel.Sel.Name] && len(x.Args) == 0 {
			return c17xText(fn.fset, e)
		}
		// any other method of a value that is a client connection by its name and declared type
		if sel, ok := x.Fun.(*ast.SelectorExpr); ok && !c17xCleanMethods[sel.Sel.Name] {
			if id, ok := sel.X.(*ast.Ident); ok && c17xClientConnName.MatchString(id.Name) && strings.Contains(fn.ptypes[id.Name], "Conn") {
				return c17xText(fn.fset, e)
			}
		}
	case *ast.SelectorExpr:
		if c17xSourceFields[x.Sel.Name] {
			return c17xText(fn.fset, e)
		}
	}
	return ""
}

func (fn *c17xFn) identTaint(name string) string {
	if w := fn.taintV[name]; w != "" {
		return w
	}
	return fn.taintP[name]
}

// valueTaint: is the value of e derived from a client address ("" = no; otherwise where it comes from)
func (fn *c17xFn) valueTaint(e ast.Expr, depth int) string {
	if e == nil || depth > 12 {
		return ""
	}
	if s := fn.source(e); s != "" {
		return s
	}
	switch x := e.(type) {
	case *ast.Ident:
		return fn.identTaint(x.Name)
	case *ast.ParenExpr:
		return fn.valueTaint(x.X, depth+1)
	case *ast.StarExpr:
		return fn.valueTaint(x.X, depth+1)
	case *ast.UnaryExpr:
		if x.Op == token.AND || x.Op == token.ARROW {
			return fn.valueTaint(x.X, depth+1)
		}
	case *ast.BinaryExpr:
		if x.Op == token.ADD {
			if t := fn.valueTaint(x.X, depth+1); t != "" {
				return t
			}
			return fn.valueTaint(x.Y, depth+1)
		}
	case *ast.SelectorExpr:
		return fn.valueTaint(x.X, depth+1)
	case *ast.IndexExpr:
		return fn.valueTaint(x.X, depth+1)
	case *ast.SliceExpr:
		return fn.valueTaint(x.X, depth+1)
	case *ast.TypeAssertExpr:
		return fn.valueTaint(x.X, depth+1)
	case *ast.KeyValueExpr:
		return fn.valueTaint(x.Value, depth+1)
	case *ast.CompositeLit:
		t := ""
		if x.Type != nil {
			t = strings.TrimPrefix(c17xText(fn.fset, x.Type), "&")
		}
		// address literals, and protobuf messages (StationToDetector.client_ip, C2SWrapper.registration_address, …):
		// printed with %v / %s / %+v they show every field
		if c17xAddrLits[t] || strings.HasPrefix(t, "pb.") {
			for _, el := range x.Elts {
				if w := fn.valueTaint(el, depth+1); w != "" {
					return w
				}
			}
		}
	case *ast.CallExpr:
		ft := c17xText(fn.fset, x.Fun)
		if c17xPureNum[ft] {
			return ""
		}
		// a method of a client-derived value (addr.String(), ip.To4(), fd.Name(), …) unless it is reviewed clean
		if sel, ok := x.Fun.(*ast.SelectorExpr); ok && !c17xCleanMethods[sel.Sel.Name] {
			if w := fn.valueTaint(sel.X, depth+1); w != "" {
				return w
			}
		}
		if callees := fn.ix.resolve(fn, x); len(callees) > 0 {
			for _, c := range callees {
				if c.retTaint != "" {
					return c.short + "(…) ⇐ " + c.retTaint
				}
			}
			return ""
		}
		for _, a := range x.Args {
			if w := fn.valueTaint(a, depth+1); w != "" {
				return w
			}
		}
	}
	return ""
}

// mentionTaint: does e mention a client-derived value anywhere (for operands formatted into an error text)
func (fn *c17xFn) mentionTaint(e ast.Expr) string {
	hit := ""
	ast.Inspect(e, func(n ast.Node) bool {
		if hit != "" || n == nil {
			return false
		}
		if _, ok := n.(*ast.FuncLit); ok {
			return false
		}
		if ex, ok := n.(ast.Expr); ok {
			if c, ok := ex.(*ast.CallExpr); ok && c17xPureNum[c17xText(fn.fset, c.Fun)] {
				return false
			}
			if s := fn.source(ex); s != "" {
				hit = s
				return false
			}
			if id, ok := ex.(*ast.Ident); ok {
				if w := fn.identTaint(id.Name); w != "" {
					hit = id.Name + " ⇐ " + w
					return false
				}
			}
			if c, ok := ex.(*ast.CallExpr); ok {
				if w := fn.valueTaint(c, 0); w != "" {
					hit = w
					return false
				}
			}
		}
		return true
	})
	return hit
}

func (fn *c17xFn) isErrIdent(name string) bool {
	if c17xErrName.MatchString(name) {
		return true
	}
	for _, a := range fn.assigns[name] {
		if a.last {
			return true
		}
	}
	return false
}

func (ix *c17xIndex) taintFixpoint() {
	for round := 0; round < 12; round++ {
		changed := false
		for _, fn := range ix.fns {
			// locals
			for again := true; again; {
				again = false
				for name, as := range fn.assigns {
					if fn.taintV[name] != "" || fn.isErrIdent(name) {
						continue
					}
					for _, a := range as {
						w := ""
						if a.rng != nil {
							w = fn.valueTaint(a.rng, 0)
						} else if a.rhs != nil {
							w = fn.valueTaint(a.rhs, 0)
						}
						if w != "" {
							fn.taintV[name] = w
							again, changed = true, true
							break
						}
					}
				}
			}
			// arguments → parameters of the callees; returned values
			ast.Inspect(fn.decl.Body, func(n ast.Node) bool {
				switch x := n.(type) {
				case *ast.CallExpr:
					callees := ix.resolve(fn, x)
					if len(callees) == 0 {
						return true
					}
					for i, a := range x.Args {
						w := fn.valueTaint(a, 0)
						if w == "" {
							continue
						}
						for _, c := range callees {
							j := i
							if j >= len(c.pnames) {
								if !c.variadic || len(c.pnames) == 0 {
									continue
								}
								j = len(c.pnames) - 1
							}
							p := c.pnames[j]
							if p != "_" && c.taintP[p] == "" && !c.isErrIdent(p) {
								c.taintP[p] = fmt.Sprintf("%s passes %s", fn.short, c17xClipText(c17xText(fn.fset, a)))
								changed = true
							}
						}
					}
				}
				return true
			})
			if fn.retTaint == "" {
				c17xOwnReturns(fn.decl.Body, func(r *ast.ReturnStmt) {
					if len(r.Results) == 0 && fn.decl.Type.Results != nil {
						// bare return: the named results
						for _, fl := range fn.decl.Type.Results.List {
							for _, nm := range fl.Names {
								if w := fn.identTaint(nm.Name); w != "" && fn.retTaint == "" && !fn.isErrIdent(nm.Name) {
									fn.retTaint = w
									changed = true
								}
							}
						}
					}
					for i, res := range r.Results {
						if fn.hasErr && i == len(r.Results)-1 {
							continue
						}
						if w := fn.valueTaint(res, 0); w != "" && fn.retTaint == "" {
							fn.retTaint = w
							changed = true
						}
					}
				})
			}
		}
		if !changed {
			return
		}
	}
}

func c17xClipText(s string) string {
	if len(s) > 60 {
		return s[:57] + "…"
	}
	return s
}

// c17xOwnReturns visits the return statements of the function itself (not those of function literals)
func c17xOwnReturns(body ast.Node, f func(*ast.ReturnStmt)) {
	ast.Inspect(body, func(n ast.Node) bool {
		switch x := n.(type) {
		case *ast.FuncLit:
			return false
		case *ast.ReturnStmt:
			f(x)
		}
		return true
	})
}

// ---------------------------------------------------------------------------------------------
// error summaries

var c17xErrCtors = map[string]bool{"fmt.Errorf": true, "errors.New": true, "errors.Join": true, "xerrors.Errorf": true, "xerrors.New": true,
	"errors.Wrap": true, "errors.Wrapf": true, "errors.WithMessage": true, "errors.WithMessagef": true, "status.Errorf": true, "status.Error": true}

func (fn *c17xFn) leafKey(text string) string { return fn.short + ": " + text }

// callSrc: the error of a call
func (fn *c17xFn) callSrc(call *ast.CallExpr, site bool) c17xSrc {
	text := c17xText(fn.fset, call.Fun)
	fns, open := fn.ix.resolveOpen(fn, call)
	if len(fns) == 0 || open {
		for _, a := range call.Args {
			if fn.valueTaint(a, 0) != "" {
				text += " ⚑"
				break
			}
		}
		if !site {
			text = fn.leafKey(text)
		}
	}
	return c17xSrc{text: text, fns: fns, open: open || len(fns) == 0}
}

func c17xMapSrcs(in []c17xSrc, f func(c17xSrc) c17xSrc) []c17xSrc {
	out := make([]c17xSrc, 0, len(in))
	for _, s := range in {
		if s.tainted == "" {
			s = f(s)
		}
		out = append(out, s)
	}
	return out
}

// errSrcs: where the error value of e, evaluated at pos, can come from.  site: e is printed by a logger of
// this function (leaves keep the bare call text, as in the reviewed table of logged origins).
func (fn *c17xFn) errSrcs(e ast.Expr, pos token.Pos, depth int, site bool) []c17xSrc {
	leaf := func(t string) []c17xSrc {
		if !site {
			t = fn.leafKey(t)
		}
		return []c17xSrc{{text: t}}
	}
	if e == nil {
		return nil
	}
	if depth > 8 {
		return leaf("?deep")
	}
	switch x := e.(type) {
	case *ast.ParenExpr:
		return fn.errSrcs(x.X, pos, depth+1, site)
	case *ast.Ident:
		if x.Name == "nil" {
			return nil
		}
		rs := fn.reaching(x.Name, pos)
		if len(rs) == 0 {
			if fn.params[x.Name] {
				return leaf("param " + x.Name)
			}
			// a package-level sentinel
			if init, ok := fn.ix.globals[fn.dir][x.Name]; ok {
				return fn.sentinel(init, x.Name, site)
			}
			return leaf("?" + x.Name)
		}
		var out []c17xSrc
		for _, a := range rs {
			switch {
			case a.rng != nil:
				out = append(out, c17xSrc{text: "~plumbing"})
			case a.rhs == nil:
				// `var err error`: nil until assigned; the assignments are among the reaching ones
			default:
				if u, ok := a.rhs.(*ast.UnaryExpr); ok && u.Op == token.ARROW {
					out = append(out, c17xSrc{text: "~plumbing"})
				} else if id, ok := a.rhs.(*ast.Ident); ok && id.Name == x.Name {
					// x := x
				} else if a.multi {
					if c, ok := a.rhs.(*ast.CallExpr); ok && a.last {
						out = append(out, fn.callSrc(c, site))
					} else if _, ok := a.rhs.(*ast.CallExpr); ok {
						out = append(out, leaf("="+c17xText(fn.fset, a.rhs))...)
					} else {
						out = append(out, c17xSrc{text: "~plumbing"}) // v, ok := <-ch / m[k] / x.(T)
					}
				} else {
					out = append(out, fn.errSrcs(a.rhs, a.pos, depth+1, site)...)
				}
			}
		}
		return out
	case *ast.SelectorExpr:
		// pkg.ErrSentinel of this repository
		if id, ok := x.X.(*ast.Ident); ok && !fn.isLocal(id.Name) {
			if dir, ok := fn.file.imports[id.Name]; ok && dir != "" {
				if init, ok := fn.ix.globals[dir][x.Sel.Name]; ok {
					return fn.sentinel(init, c17xText(fn.fset, e), site)
				}
			}
		}
		return leaf("=" + c17xText(fn.fset, e))
	case *ast.CallExpr:
		ft := c17xText(fn.fset, x.Fun)
		if ft == "generalizeErr" && len(x.Args) == 1 {
			in := fn.errSrcs(x.Args[0], pos, depth+1, site)
			if len(in) == 0 {
				return nil
			}
			return c17xMapSrcs(in, c17xGenOf)
		}
		if c17xErrCtors[ft] {
			return fn.ctorSrcs(x, ft, pos, depth, site)
		}
		// x.Unwrap(), errors.Unwrap(x): the same error
		if (strings.HasSuffix(ft, ".Unwrap") && len(x.Args) == 0) || ft == "errors.Unwrap" {
			if len(x.Args) == 1 {
				return fn.errSrcs(x.Args[0], pos, depth+1, site)
			}
			return fn.errSrcs(x.Fun.(*ast.SelectorExpr).X, pos, depth+1, site)
		}
		return []c17xSrc{fn.callSrc(x, site)}
	case *ast.TypeAssertExpr:
		return fn.errSrcs(x.X, pos, depth+1, site)
	case *ast.UnaryExpr:
		if x.Op == token.ARROW {
			return []c17xSrc{{text: "~plumbing"}}
		}
		if x.Op == token.AND {
			if cl, ok := x.X.(*ast.CompositeLit); ok {
				return fn.litSrcs(cl, pos, depth, site)
			}
		}
	case *ast.CompositeLit:
		return fn.litSrcs(x, pos, depth, site)
	}
	return leaf("=" + c17xText(fn.fset, e))
}

// c17xGenOf: generalizeErr applied to a source.  A source that was flattened before it reached
// generalizeErr stays flattened (the sanitiser sees opaque text): it is kept as flat and not marked gen.
func c17xGenOf(s c17xSrc) c17xSrc {
	if !s.flat {
		s.gen = true
	}
	return s
}

// an error value written as a composite literal (&net.OpError{…}, &net.AddrError{…}, own error types): its
// fields that are errors are wrapped, other fields are operands of its text
func (fn *c17xFn) litSrcs(cl *ast.CompositeLit, pos token.Pos, depth int, site bool) []c17xSrc {
	var out []c17xSrc
	for _, el := range cl.Elts {
		v := el
		if kv, ok := el.(*ast.KeyValueExpr); ok {
			v = kv.Value
		}
		if id, ok := v.(*ast.Ident); ok && fn.isErrIdent(id.Name) {
			out = append(out, fn.errSrcs(id, pos, depth+1, site)...)
			continue
		}
		if w := fn.mentionTaint(v); w != "" {
			out = append(out, c17xSrc{tainted: c17xClipText(c17xText(fn.fset, v)) + " ⇐ " + w})
		}
	}
	return out
}

func (fn *c17xFn) sentinel(init ast.Expr, name string, site bool) []c17xSrc {
	if c, ok := init.(*ast.CallExpr); ok && c17xErrCtors[c17xText(fn.fset, c.Fun)] {
		constant := true
		for _, a := range c.Args {
			if bl, ok := a.(*ast.BasicLit); !ok || bl.Kind != token.STRING {
				constant = false
			}
		}
		if constant {
			return nil // constant text
		}
	}
	t := "=" + name
	if !site {
		t = fn.leafKey(t)
	}
	return []c17xSrc{{text: t}}
}

// ctorSrcs: fmt.Errorf / errors.New / …: error operands are wrapped (%w) or flattened (any other verb, or
// their .Error() text used anywhere in an argument); every other operand is checked for client-derived values
func (fn *c17xFn) ctorSrcs(call *ast.CallExpr, ft string, pos token.Pos, depth int, site bool) []c17xSrc {
	var out []c17xSrc
	args := call.Args
	var verbs []string
	hasFormat := strings.HasSuffix(ft, "f") && !strings.HasSuffix(ft, "Wrapf") && !strings.HasSuffix(ft, "WithMessagef")
	if ft == "status.Errorf" && len(args) > 0 {
		args = args[1:] // the code
	}
	if hasFormat && len(args) > 0 {
		format, vs := fn.formatOf(args[0], pos)
		verbs = vs
		if strings.HasPrefix(format, "?") {
			if w := fn.mentionTaint(args[0]); w != "" {
				out = append(out, c17xSrc{tainted: c17xClipText(c17xText(fn.fset, args[0])) + " ⇐ " + w})
			}
		}
		args = args[1:]
	}
	flatten := func(in []c17xSrc) []c17xSrc {
		return c17xMapSrcs(in, func(s c17xSrc) c17xSrc { s.flat = true; return s })
	}
	for i, a := range args {
		verb := ""
		if hasFormat && i < len(verbs) {
			verb = verbs[i]
		}
		wraps := verb == "w" || ft == "errors.Join" || ((ft == "errors.Wrap" || ft == "errors.Wrapf" || ft == "errors.WithMessage" || ft == "errors.WithMessagef") && i == 0)
		if id, ok := a.(*ast.Ident); ok && fn.isErrIdent(id.Name) {
			in := fn.errSrcs(id, pos, depth+1, site)
			if !wraps {
				in = flatten(in)
			}
			out = append(out, in...)
			continue
		}
		if c, ok := a.(*ast.CallExpr); ok && c17xErrCtors[c17xText(fn.fset, c.Fun)] {
			in := fn.ctorSrcs(c, c17xText(fn.fset, c.Fun), pos, depth+1, site)
			if !wraps {
				in = flatten(in)
			}
			out = append(out, in...)
			continue
		}
		if isN := fn.isNum(a, pos, 0); isN {
			continue
		}
		if verb != "" && strings.Contains("dboxXeEfFgGctU", verb) {
			continue // printed as a number / character / boolean: no address text
		}
		// .Error() texts and error variables used inside the operand: flattened
		rest := true
		ast.Inspect(a, func(n ast.Node) bool {
			if c, ok := n.(*ast.CallExpr); ok {
				if sel, ok := c.Fun.(*ast.SelectorExpr); ok && sel.Sel.Name == "Error" && len(c.Args) == 0 {
					out = append(out, flatten(fn.errSrcs(sel.X, pos, depth+1, site))...)
					return false
				}
				if !c17xErrCtors[c17xText(fn.fset, c.Fun)] && c17xText(fn.fset, c.Fun) != "generalizeErr" {
					// the value of another call formatted into the text: when that call returns an error of this
					// repository's functions as a value (`%v` of f(x)) the text is that error's text
					if fns := fn.ix.resolve(fn, c); len(fns) > 0 && c == a {
						anyErr := false
						for _, g := range fns {
							anyErr = anyErr || (g.hasErr && g.decl.Type.Results.NumFields() == 1)
						}
						if anyErr {
							out = append(out, flatten([]c17xSrc{fn.callSrc(c, site)})...)
							rest = false
							return false
						}
					}
				}
			}
			return true
		})
		if !rest {
			continue
		}
		if w := fn.mentionTaint(a); w != "" {
			out = append(out, c17xSrc{tainted: c17xClipText(c17xText(fn.fset, a)) + " ⇐ " + w})
		}
	}
	return out
}

// summary computes what fn can return as its error.
func (fn *c17xFn) summary() []c17xSrc {
	if fn.srcsDone {
		return fn.srcs
	}
	fn.srcsDone = true
	var out []c17xSrc
	body := fn.decl.Body
	c17xOwnReturns(body, func(r *ast.ReturnStmt) {
		if !fn.hasErr {
			return
		}
		if len(r.Results) == 0 {
			if fn.namedErr != "" {
				out = append(out, fn.namedResult(r.Pos())...)
			}
			return
		}
		last := r.Results[len(r.Results)-1]
		if len(r.Results) == 1 && fn.decl.Type.Results.NumFields() > 1 {
			// return f(…): all results of one call
			if c, ok := last.(*ast.CallExpr); ok {
				out = append(out, fn.callSrc(c, false))
			}
			return
		}
		out = append(out, fn.errSrcs(last, r.Pos(), 0, false)...)
	})
	// function literals (goroutines, deferred functions): what they construct or send travels through
	// channels and captured variables, which are not followed: every error they construct or send counts
	ast.Inspect(body, func(n ast.Node) bool {
		fl, ok := n.(*ast.FuncLit)
		if !ok {
			return true
		}
		ast.Inspect(fl.Body, func(m ast.Node) bool {
			switch x := m.(type) {
			case *ast.CallExpr:
				if ft := c17xText(fn.fset, x.Fun); c17xErrCtors[ft] {
					out = append(out, fn.ctorSrcs(x, ft, x.Pos(), 0, false)...)
					return false
				}
			case *ast.SendStmt:
				if id, ok := x.Value.(*ast.Ident); ok && fn.isErrIdent(id.Name) {
					out = append(out, fn.errSrcs(id, x.Pos(), 0, false)...)
				}
			case *ast.ReturnStmt:
				// a literal that returns an error (callbacks): its result reaches whoever calls it
				if len(x.Results) > 0 {
					if id, ok := x.Results[len(x.Results)-1].(*ast.Ident); ok && fn.isErrIdent(id.Name) && id.Name != "nil" {
						out = append(out, fn.errSrcs(id, x.Pos(), 0, false)...)
					}
				}
			}
			return true
		})
		return false
	})
	// a named error result assigned in a deferred function or anywhere else is covered by namedResult at
	// the bare returns; a function that assigns it and returns it explicitly is covered by reaching()
	fn.srcs = c17xDedupSrcs(out)
	return fn.srcs
}

func (fn *c17xFn) namedResult(pos token.Pos) []c17xSrc {
	var out []c17xSrc
	for _, a := range fn.assigns[fn.namedErr] {
		if a.rhs == nil {
			continue
		}
		if a.multi {
			if c, ok := a.rhs.(*ast.CallExpr); ok && a.last {
				out = append(out, fn.callSrc(c, false))
			}
			continue
		}
		out = append(out, fn.errSrcs(a.rhs, a.pos, 1, false)...)
	}
	return out
}

func (s c17xSrc) ident() string {
	var ks []string
	for _, f := range s.fns {
		ks = append(ks, f.key)
	}
	return fmt.Sprintf("%s|%v|%v|%s|%s", s.tainted, s.flat, s.gen, s.text, strings.Join(ks, ","))
}

func c17xDedupSrcs(in []c17xSrc) []c17xSrc {
	var out []c17xSrc
	seen := map[string]bool{}
	for _, s := range in {
		if s.text == "~plumbing" && s.tainted == "" {
			continue // arrives through a channel / slice of the same function: what is put in is listed
		}
		if k := s.ident(); !seen[k] {
			seen[k] = true
			out = append(out, s)
		}
	}
	return out
}

// number assigns identifiers callees-first (post-order); a function met again while it is being visited
// (recursion) keeps id -1 at that reference and is emitted as a reference to itself or to a later entry.
func (ix *c17xIndex) number(fn *c17xFn) {
	if fn.id >= 0 || fn.visiting {
		return
	}
	fn.visiting = true
	for _, s := range fn.summary() {
		for _, c := range s.fns {
			ix.number(c)
		}
	}
	fn.visiting = false
	fn.id = len(ix.order)
	ix.order = append(ix.order, fn)
}

func (ix *c17xIndex) leanOrigin(s c17xSrc) string {
	var ids []string
	for _, c := range s.fns {
		ix.number(c)
		ids = append(ids, fmt.Sprint(c.id)) // -1 cannot remain: number() always ends by assigning an id
	}
	return fmt.Sprintf("⟨%s, [%s], %v⟩", c17xLeanStr(s.text), strings.Join(ids, ", "), s.open || len(s.fns) == 0)
}

func (ix *c17xIndex) leanSrc(s c17xSrc) string {
	if s.tainted != "" {
		return ".tainted " + c17xLeanStr(s.tainted)
	}
	return fmt.Sprintf(".err %v %v %s", s.flat, s.gen, ix.leanOrigin(s))
}

// leanErrFns renders the numbered summaries; references are resolved after numbering is complete.
func (ix *c17xIndex) leanErrFns() string {
	var b strings.Builder
	b.WriteString("def errFns : List ErrFn := [\n")
	// rendering may number further functions (references met first while rendering): loop until stable
	var rows []string
	for i := 0; i < len(ix.order); i++ {
		fn := ix.order[i]
		var ss []string
		for _, s := range fn.summary() {
			ss = append(ss, ix.leanSrc(s))
		}
		rows = append(rows, fmt.Sprintf("  { key := %s,\n    srcs := [%s] }", c17xLeanStr(fn.key), strings.Join(ss, ", ")))
	}
	b.WriteString(strings.Join(rows, ",\n"))
	b.WriteString("\n]\n")
	return b.String()
}

// ---------------------------------------------------------------------------------------------
// certificate: the classes of the summarised functions
//
// The classes are the least solution of the class equations of CJ.Model.LogTaint (rfnCls) over the summaries
// and the reviewed tables of the Lean model.  Evaluating the iteration inside the Lean kernel is slow, so the
// extractor computes the solution here — reading the reviewed tables from the Lean source — and writes it as
// `errFnClasses`; the Lean side does not trust it: `classes_fixpoint` checks by evaluation that it solves the
// equations (a wrong certificate, an unreadable table or a table that changed make that theorem fail).

var c17xLeanEntry = regexp.MustCompile(`\("((?:[^"\\]|\\.)*)",\s*\.(clean|structured|leaky)\)`)
var c17xLeanString = regexp.MustCompile(`"((?:[^"\\]|\\.)*)"`)

func c17xLeanUnquote(s string) string {
	r := strings.NewReplacer(`\"`, `"`, `\\`, `\`, `\n`, "\n", `\t`, "\t", `\r`, "\r")
	return r.Replace(s)
}

// c17xLeanDef returns the text of `def name … := [ … ]` up to the closing bracket at the start of a line or
// the end of a one-line list.
func c17xLeanDef(src, name string) string {
	i := strings.Index(src, "\ndef "+name+" ")
	if i < 0 {
		return ""
	}
	rest := src[i+1:]
	if j := strings.Index(rest, "\n\n"); j >= 0 {
		rest = rest[:j]
	}
	if k := strings.Index(rest, ":="); k >= 0 {
		rest = rest[k:]
	}
	// drop comments: a `--` that is not inside a string literal
	var b strings.Builder
	for _, line := range strings.Split(rest, "\n") {
		in := false
		cut := len(line)
		for p := 0; p+1 < len(line); p++ {
			switch {
			case line[p] == '\\' && in:
				p++
			case line[p] == '"':
				in = !in
			case !in && line[p] == '-' && line[p+1] == '-':
				cut = p
			}
			if cut != len(line) {
				break
			}
		}
		b.WriteString(line[:cut])
		b.WriteString("\n")
	}
	return b.String()
}

const (
	c17xClean = iota
	c17xStructured
	c17xLeaky
)

func (ix *c17xIndex) certificate() (string, error) {
	dir := os.Getenv("VERIF_DIR")
	if dir == "" {
		dir = "/verif"
	}
	raw, err := os.ReadFile(filepath.Join(dir, "lean", "CJ", "Model", "LogTaint.lean"))
	if err != nil {
		return "", err
	}
	src := string(raw)
	leaf := map[string]int{}
	for _, m := range c17xLeanEntry.FindAllStringSubmatch(c17xLeanDef(src, "leafClasses"), -1) {
		k := c17xLeanUnquote(m[1])
		if _, dup := leaf[k]; dup {
			continue // the Lean lookup takes the first entry
		}
		leaf[k] = map[string]int{"clean": c17xClean, "structured": c17xStructured, "leaky": c17xLeaky}[m[2]]
	}
	set := func(name string) map[string]bool {
		out := map[string]bool{}
		for _, m := range c17xLeanString.FindAllStringSubmatch(c17xLeanDef(src, name), -1) {
			out[c17xLeanUnquote(m[1])] = true
		}
		return out
	}
	notRepo, sanit := set("notRepo"), set("reviewedSanitizers")
	if len(leaf) == 0 {
		return "", fmt.Errorf("no entries of leafClasses found in the Lean model")
	}
	max := func(a, b int) int {
		if a > b {
			return a
		}
		return b
	}
	n := len(ix.order)
	cls := make([]int, n)
	srcCls := func(self int, s c17xSrc) int {
		if s.tainted != "" {
			return c17xLeaky
		}
		c := c17xClean
		if !notRepo[s.text] {
			for _, f := range s.fns {
				if f.id != self {
					if f.id < 0 || f.id >= n {
						c = c17xLeaky
					} else {
						c = max(c, cls[f.id])
					}
				}
			}
		}
		if s.open || len(s.fns) == 0 {
			l, ok := leaf[s.text]
			if !ok {
				l = c17xLeaky
			}
			c = max(c, l)
		}
		if s.gen && c != c17xLeaky {
			c = c17xClean
		}
		if s.flat && c != c17xClean {
			c = c17xLeaky
		}
		return c
	}
	for round := 0; round < 3*n+3; round++ {
		changed := false
		for i, fn := range ix.order {
			c := c17xClean
			for _, s := range fn.summary() {
				c = max(c, srcCls(i, s))
			}
			if c != c17xClean && sanit[fn.key] {
				c = c17xClean
			}
			if c != cls[i] {
				cls[i], changed = c, true
			}
		}
		if !changed {
			break
		}
	}
	names := []string{".clean", ".structured", ".leaky"}
	var out []string
	for _, c := range cls {
		out = append(out, names[c])
	}
	return "def errFnClasses : List Cls := [" + strings.Join(out, ", ") + "]\n", nil
}
