//go:build verif

package main

// C17, package main of cmd/application: (A) error trees through the real generalizeErr of conns.go;
// (B) the real handleNewTCPConn with scripted client connections that carry distinctive addresses:
// every realistic error shape injected at every I/O call of the classification phase, for all
// classification outcomes (no registration, no transport matches, found → Proxy, transport error) and
// IPv4 / IPv6 / v4-mapped clients; (C) handleNewConn with a real TCP connection whose descriptor cannot
// be duplicated.  Everything the process writes to os.Stdout (the connection loggers and the statistics
// are created on it) and to the shared logger is scanned for the client address in every textual form.

import (
	"bytes"
	"context"
	"fmt"
	"io"
	golog "log"
	"net"
	"os"
	"path/filepath"
	"strings"
	"sync"
	"testing"
	"time"

	"github.com/refraction-networking/conjure/internal/conjurepath"
	"github.com/refraction-networking/conjure/internal/vc17"
	"github.com/refraction-networking/conjure/internal/vlib"
	"github.com/refraction-networking/conjure/pkg/core"
	"github.com/refraction-networking/conjure/pkg/station/geoip"
	cj "github.com/refraction-networking/conjure/pkg/station/lib"
	"github.com/refraction-networking/conjure/pkg/station/log"
	"github.com/refraction-networking/conjure/pkg/transports"
	"github.com/refraction-networking/conjure/pkg/transports/wrapping/min"
	pb "github.com/refraction-networking/conjure/proto"
	"google.golang.org/protobuf/types/known/anypb"
)

var c17aFailN = map[string]int{}
var c17aFailMu sync.Mutex

func c17aFail(out *vlib.Out, sig, what, replay string) {
	c17aFailMu.Lock()
	c17aFailN[sig]++
	n := c17aFailN[sig]
	c17aFailMu.Unlock()
	if n <= 6 {
		out.OracleFail(sig, what, replay)
	}
}

// ---------------------------------------------------------------------------------------------
// stdout capture: the handler creates its logger on os.Stdout

// c17aCapture diverts file descriptors 1 and 2 (vc17.FDCapture): the connection loggers and the statistics
// are created on os.Stdout, the Redis logger on os.Stderr, and whatever else the process prints goes there too.
type c17aCapture struct{ fds *vc17.FDCapture }

func c17aStart() *c17aCapture {
	fds, err := vc17.CaptureFDs()
	if err != nil {
		panic(err)
	}
	return &c17aCapture{fds}
}

// take returns what was written since the last call.
func (c *c17aCapture) take() string { return c.fds.Take() }

func (c *c17aCapture) stop() { c.fds.Stop() }

// ---------------------------------------------------------------------------------------------
// scripted client connection

type c17aConn struct {
	local, remote net.Addr
	mu            sync.Mutex
	chunks        [][]byte
	readErr       error
	readData      []byte // handed back together with readErr (buffering transports do that)
	readErrAfter  int    // the read error is returned once this many chunks have been read
	reads         int
	writeErr      error
	writePartial  bool
	closeErr      error
	dlErr         error
	dlFailAt      int
	dlCalls       int
	closed        chan struct{}
	once          sync.Once
}

func newC17aConn(local, remote net.Addr) *c17aConn {
	return &c17aConn{local: local, remote: remote, closed: make(chan struct{}), dlFailAt: -1}
}

func (c *c17aConn) Read(p []byte) (int, error) {
	c.mu.Lock()
	if c.readErr != nil && c.reads >= c.readErrAfter {
		c.mu.Unlock()
		return copy(p, c.readData), c.readErr
	}
	if len(c.chunks) > 0 {
		n := copy(p, c.chunks[0])
		c.chunks = c.chunks[1:]
		c.reads++
		c.mu.Unlock()
		return n, nil
	}
	c.mu.Unlock()
	if c.readErr != nil {
		return copy(p, c.readData), c.readErr
	}
	return 0, io.EOF
}
func (c *c17aConn) Write(p []byte) (int, error) {
	if c.writeErr != nil {
		if c.writePartial {
			return (len(p) + 1) / 2, c.writeErr
		}
		return 0, c.writeErr
	}
	return len(p), nil
}
func (c *c17aConn) Close() error {
	c.once.Do(func() { close(c.closed) })
	return c.closeErr
}
func (c *c17aConn) LocalAddr() net.Addr  { return c.local }
func (c *c17aConn) RemoteAddr() net.Addr { return c.remote }
func (c *c17aConn) SetDeadline(t time.Time) error {
	c.mu.Lock()
	defer c.mu.Unlock()
	i := c.dlCalls
	c.dlCalls++
	if c.dlErr != nil && i == c.dlFailAt {
		return c.dlErr
	}
	return nil
}
func (c *c17aConn) SetReadDeadline(t time.Time) error  { return nil }
func (c *c17aConn) SetWriteDeadline(t time.Time) error { return nil }

// ---------------------------------------------------------------------------------------------
// a wrapping transport that fails with the injected error

type c17aFailing struct{ err error }

func (c17aFailing) Name() string                                { return "FailingTransport" }
func (c17aFailing) LogPrefix() string                           { return "FAIL" }
func (c17aFailing) GetIdentifier(transports.Registration) string { return "failing" }
func (c17aFailing) GetProto() pb.IPProto                        { return pb.IPProto_Tcp }
func (c17aFailing) ParseParams(uint, *anypb.Any) (any, error)   { return nil, nil }
func (c17aFailing) ParamStrings(any) []string                   { return nil }
func (c17aFailing) GetDstPort(uint, []byte, any) (uint16, error) { return 443, nil }
func (t c17aFailing) WrapConnection(data *bytes.Buffer, c net.Conn, phantom net.IP, rm transports.RegManager) (transports.Registration, net.Conn, error) {
	return nil, nil, t.err
}

// ---------------------------------------------------------------------------------------------

type c17aWorld struct {
	rm      *cj.RegistrationManager
	reg     *cj.DecoyRegistration
	tag     []byte
	phantom net.IP
}

func c17aNewWorld(covert string, transports map[pb.TransportType]cj.Transport, proxyHeader ...bool) *c17aWorld {
	rm := cj.NewRegistrationManager(&cj.RegConfig{})
	if rm == nil {
		panic("no registration manager")
	}
	rm.GeoIP = &MockGeoIP{}
	for k, t := range transports {
		if err := rm.AddTransport(k, t); err != nil {
			panic(err)
		}
	}
	c2s, keys := mockReceiveFromDetector()
	transport := pb.TransportType_Min
	gen := uint32(1)
	c2s.Transport = &transport
	c2s.DecoyListGeneration = &gen
	c2s.CovertAddress = &covert
	if len(proxyHeader) > 0 && proxyHeader[0] {
		// the registration asks for the PROXY protocol header: Proxy writes the client's address to the covert
		// before it relays
		c2s.Flags.ProxyHeader = &proxyHeader[0]
	}
	source := pb.RegistrationSource_API
	reg, err := rm.NewRegistration(c2s, &keys, false, &source)
	if err != nil {
		panic(err)
	}
	rm.AddRegistration(reg)
	return &c17aWorld{rm: rm, reg: reg, phantom: reg.PhantomIp, tag: core.ConjureHMAC(reg.Keys.SharedSecret, "MinTrasportHMACString")}
}

type c17aCase struct {
	outcome string // none | nomatch | found | tperr
	pos     string // where the error is injected
	n       *vc17.Node
}

func c17aCovert() (string, func()) {
	ln, err := net.Listen("tcp", "127.0.0.1:0")
	if err != nil {
		panic(err)
	}
	ctx, cancel := context.WithCancel(context.Background())
	go func() {
		for {
			c, err := ln.Accept()
			if err != nil {
				return
			}
			go func(c net.Conn) {
				defer c.Close()
				_ = c.SetDeadline(time.Now().Add(20 * time.Second))
				_, _ = c.Write([]byte("reply from the covert"))
				_, _ = io.Copy(io.Discard, c)
			}(c)
		}
	}()
	go func() { <-ctx.Done(); ln.Close() }()
	return ln.Addr().String(), cancel
}

func TestVerifC17App(t *testing.T) {
	os.Setenv("PHANTOM_SUBNET_LOCATION", conjurepath.Root+"/pkg/station/lib/test/phantom_subnets.toml")
	out := vlib.Open("C17app")
	defer out.Close()
	out.Note("C17 app: error trees through generalizeErr (conns.go); handleNewTCPConn with scripted client connections for every classification outcome; handleNewConn with a closed TCP connection; os.Stdout and the shared logger scanned")
	var glob bytes.Buffer
	var globMu sync.Mutex
	golog.SetOutput(writerFunc(func(p []byte) (int, error) { globMu.Lock(); defer globMu.Unlock(); return glob.Write(p) }))
	st, cov := vc17.Station(), vc17.Covert()
	clients := vc17.Clients()
	var all [][]string // client addresses first: they are what the property is about
	var union []string
	var addrs []*vc17.Addr
	for _, cl := range clients {
		all = append(all, cl.Needles)
		union = append(union, cl.Needles...)
		addrs = append(addrs, cl.Addr)
	}
	all = append(all, vc17.Needles(st.TCP.IP), vc17.Needles(cov.TCP.IP))
	addrs = append(addrs, st, cov)

	// ---- (A) generalizeErr of conns.go
	genCase := func(n *vc17.Node) {
		err := n.Go()
		g := generalizeErr(err)
		ans := "nil"
		if g != nil && n.OpaqueAddr() {
			// differential only: see `opaque_address_passes_through` and the package lib harness
			ans = vlib.Hex([]byte(g.Error()))
			out.Count("gen:opaque-address-passes-through")
		} else if g != nil {
			ans = vlib.Hex([]byte(g.Error()))
			out.Checked()
			for _, needles := range all {
				if hit := vc17.Scan(g.Error(), needles); hit != "" {
					c17aFail(out, "C17:generalizeErr-passes-address",
						fmt.Sprintf("generalizeErr (conns.go) returned %q for %q: endpoint %s is still in the text", g.Error(), err.Error(), hit), "gen|1|"+n.Enc())
					break
				}
			}
		}
		out.Case("gen|1|"+n.Enc(), ans, true)
		out.Count("gen:" + n.Kind)
	}
	genCase(&vc17.Node{Kind: "O", Txt: "read", Net: "tcp", Src: st, Dst: clients[0].Addr, Inner: &vc17.Node{Kind: "E", N: 100}})
	for _, cl := range clients {
		for _, op := range []string{"read", "write", "close", "set", "file"} {
			for _, n := range vc17.Shapes(op, st, cl.Addr) {
				genCase(n)
			}
		}
	}
	for _, cl := range clients {
		for _, n := range vc17.Opaque(cl.Addr) {
			genCase(n)
		}
	}
	r := vlib.NewRand("C17app")
	for i, n := 0, vlib.Budget(4000, 150000); i < n; i++ {
		genCase(vc17.Rand(r, addrs))
	}

	// ---- (B) handleNewTCPConn
	capt := c17aStart()
	defer capt.stop()
	cj.Stat()
	covertAddr, stopCovert := c17aCovert()
	defer stopCovert()
	plain := c17aNewWorld(covertAddr, map[pb.TransportType]cj.Transport{pb.TransportType_Min: min.Transport{}})
	withHeader := c17aNewWorld(covertAddr, map[pb.TransportType]cj.Transport{pb.TransportType_Min: min.Transport{}}, true)
	if !withHeader.reg.Flags.GetProxyHeader() || plain.reg.Flags.GetProxyHeader() {
		t.Fatal("harness: the PROXY header flag is not as expected")
	}
	cm := newConnManager(nil)
	otherPhantom := net.ParseIP("192.122.190.77") // no registration there
	if plain.rm.CountRegistrations(otherPhantom) != 0 || plain.rm.CountRegistrations(plain.phantom) < 1 {
		t.Fatal("harness: registration counts are not as expected")
	}
	junk := bytes.Repeat([]byte{0x5a}, 40)

	// the transport-error outcome sleeps until the 5-10 s deadline: run those connections concurrently
	var bg sync.WaitGroup
	for _, cl := range clients {
		for _, n := range []*vc17.Node{
			{Kind: "W", Txt: "failed to read obfs4 handshake", Inner: &vc17.Node{Kind: "O", Txt: "read", Net: "tcp", Src: st, Dst: cl.Addr, Inner: &vc17.Node{Kind: "E", N: 100}}},
			{Kind: "O", Txt: "read", Net: "tcp", Src: st, Dst: cl.Addr, Inner: &vc17.Node{Kind: "S", Txt: "read", Inner: &vc17.Node{Kind: "E", N: 5}}},
			{Kind: "X", Txt: "transport: malformed flight"},
		} {
			w := c17aNewWorld(covertAddr, map[pb.TransportType]cj.Transport{pb.TransportType_Min: c17aFailing{n.Go()}})
			conn := newC17aConn(st.TCP, cl.Addr.TCP)
			conn.chunks = [][]byte{junk}
			bg.Add(1)
			go func() { defer bg.Done(); cm.handleNewTCPConn(w.rm, conn, w.phantom) }()
			out.Count("conn:tperr")
		}
	}

	nFound := 0
	exec := func(cl vc17.Client, c c17aCase) net.IP {
		conn := newC17aConn(st.TCP, cl.Addr.TCP)
		phantom := plain.phantom
		world := plain
		switch c.outcome {
		case "none":
			phantom = otherPhantom
			conn.chunks = [][]byte{junk}
		case "nomatch":
			conn.chunks = [][]byte{junk, junk, junk}
		case "found":
			// registration flags are a dimension of the relay: every other found connection belongs to a
			// registration that asks for the PROXY header
			if nFound++; nFound%2 == 0 {
				world = withHeader
				phantom = world.phantom
				out.Count("conn:found:proxy-header")
			}
			conn.chunks = [][]byte{world.tag, []byte("application data after the tag")}
		}
		e := c.n.Go()
		if strings.HasSuffix(c.pos, "+data") {
			conn.readData = []byte("bytes handed back with the error")
		}
		conn.writePartial = strings.HasSuffix(c.pos, "+partial")
		switch strings.TrimSuffix(strings.TrimSuffix(c.pos, "+data"), "+partial") {
		case "SetDeadline#0", "SetDeadline#1", "SetDeadline#2":
			conn.dlErr, conn.dlFailAt = e, int(c.pos[len(c.pos)-1]-'0')
		case "Read#0":
			conn.readErr, conn.readErrAfter = e, 0
		case "Read#1":
			conn.readErr, conn.readErrAfter = e, 1
		case "Read#last":
			conn.readErr, conn.readErrAfter = e, 99
		case "Write":
			conn.writeErr = e
		case "Close":
			conn.closeErr = e
		}
		done := make(chan struct{})
		go func() { defer close(done); cm.handleNewTCPConn(world.rm, conn, phantom) }()
		select {
		case <-done:
		case <-time.After(60 * time.Second):
			c17aFail(out, "C17:harness-handler-stuck", "handleNewTCPConn did not return", fmt.Sprintf("conn|%s|%s|%s", cl.Name, c.outcome, c.pos))
			conn.Close()
			<-done
		}
		return phantom
	}
	taken := func() string {
		time.Sleep(300 * time.Microsecond) // the asynchronous closeConn of the relay finishes
		globMu.Lock()
		defer globMu.Unlock()
		logged := capt.take() + glob.String()
		glob.Reset()
		return logged
	}
	run := func(cl vc17.Client, c c17aCase) {
		phantom := exec(cl, c)
		logged := taken()
		out.Checked()
		out.Count("conn:" + c.outcome + ":" + c.pos)
		if hit := vc17.Scan(logged, union); hit != "" {
			c17aFail(out, "C17:conn-log-has-client-address",
				fmt.Sprintf("%s client, outcome %s, error %q injected at %s: the station's output contains %s: %s", cl.Name, c.outcome, c.n.Go().Error(), c.pos, hit, c17aClip(logged, hit)),
				fmt.Sprintf("conn|%s|%s|%s|%s", cl.Name, c.outcome, c.pos, c.n.Enc()))
		}
		// the flow description of every line the handler printed uses the placeholder
		for _, line := range strings.Split(logged, "\n") {
			if i := strings.Index(line, " -> "); i >= 0 && strings.HasPrefix(line, "[CONN] ") {
				want := "[CONN] _ -> " + phantom.String() + " "
				if !strings.HasPrefix(line, want) {
					c17aFail(out, "C17:flow-description-not-placeholder", "logger prefix is "+line[:i+20], fmt.Sprintf("conn|%s|%s|%s", cl.Name, c.outcome, c.pos))
				}
				out.Case("flow|0|"+vlib.Hex([]byte(cl.Addr.TCP.String()))+"|"+vlib.Hex([]byte(phantom.String())),
					vlib.Hex([]byte(strings.TrimPrefix(want, "[CONN] "))), true)
				break
			}
		}
	}
	for _, cl := range clients {
		var cases, found []c17aCase
		for _, n := range vc17.Shapes("set", st, cl.Addr) {
			cases = append(cases, c17aCase{"none", "SetDeadline#0", n})
			found = append(found, c17aCase{"found", "SetDeadline#1", n}, c17aCase{"found", "SetDeadline#2", n})
		}
		for _, n := range vc17.Shapes("read", st, cl.Addr) {
			cases = append(cases, c17aCase{"none", "Read#0", n}, c17aCase{"none", "Read#1", n},
				c17aCase{"nomatch", "Read#0", n}, c17aCase{"nomatch", "Read#1", n}, c17aCase{"nomatch", "Read#last", n},
				c17aCase{"none", "Read#0+data", n}, c17aCase{"none", "Read#1+data", n},
				c17aCase{"nomatch", "Read#0+data", n}, c17aCase{"nomatch", "Read#1+data", n}, c17aCase{"nomatch", "Read#last+data", n})
			found = append(found, c17aCase{"found", "Read#last", n}, c17aCase{"found", "Read#last+data", n})
		}
		for _, n := range vc17.Shapes("write", st, cl.Addr) {
			found = append(found, c17aCase{"found", "Write", n}, c17aCase{"found", "Write+partial", n})
		}
		for _, n := range vc17.Shapes("close", st, cl.Addr) {
			found = append(found, c17aCase{"found", "Close", n})
		}
		for _, c := range cases {
			run(cl, c)
		}
		// Connections that find their registration announce it to the detector over Redis, which is
		// absent here and costs ~80 ms of retries under the registry lock each: the quick tier runs
		// every fifth shape per position (the relay itself gets every shape in the package lib harness).
		for i, c := range found {
			if vlib.Tier() == "thorough" || i%5 == 0 {
				run(cl, c)
			}
		}
	}

	// ---- (C) handleNewConn: the descriptor of a closed connection cannot be duplicated
	c17aFileError(out)
	taken()
	c17aOrigDst(out, taken)

	// ---- (D) the station's GeoIP wrapper on every combination of database shapes: country and ASN database each
	// absent / IPv4-only / dual-stack / failing inside the reader, for every client family (the reader's error
	// for an IPv6 lookup in an IPv4-only database repeats the address, whichever of the two lookups meets it)
	{
		dir := t.TempDir()
		w := c17aNewWorld(covertAddr, map[pb.TransportType]cj.Transport{pb.TransportType_Min: min.Transport{}})
		failed := 0
		for _, ccShape := range vc17.DBShapes {
			for _, asnShape := range vc17.DBShapes {
				ccPath, asnPath, err := vc17.WriteDBs(dir, ccShape, asnShape)
				if err != nil {
					c17aFail(out, "C17:harness-geoip-database", "cannot write the test databases: "+err.Error(), "geoipdb|write")
					continue
				}
				db, err := geoip.New(&geoip.DBConfig{CCDBPath: ccPath, ASNDBPath: asnPath})
				if db == nil {
					c17aFail(out, "C17:harness-geoip-database", fmt.Sprintf("geoip.New refused the %s / %s test databases: %v", ccShape, asnShape, err), "geoipdb|open")
					continue
				}
				w.rm.GeoIP = db
				for _, cl := range clients {
					conn := newC17aConn(st.TCP, cl.Addr.TCP)
					conn.chunks = [][]byte{junk}
					taken()
					cm.handleNewTCPConn(w.rm, conn, w.phantom)
					logged := taken()
					out.Checked()
					out.Count("conn:geoipdb:cc-" + ccShape + ":asn-" + asnShape)
					if strings.Contains(logged, "Failed to get") {
						failed++
						out.Count("conn:geoipdb:lookup-failed:" + cl.Name)
					}
					if hit := vc17.Scan(logged, union); hit != "" {
						c17aFail(out, "C17:geoip-error-names-client",
							fmt.Sprintf("country database %s, ASN database %s, %s client: the station's output contains %s: %s", ccShape, asnShape, cl.Name, hit, c17aClip(logged, hit)),
							fmt.Sprintf("geoipdb|%s|%s|%s", ccShape, asnShape, cl.Name))
					}
				}
			}
		}
		if failed == 0 {
			c17aFail(out, "C17:harness-geoip-database", "no lookup failed on any combination of database shapes", "geoipdb")
		}
	}

	// ---- (E) the statistics printers, after every connection above has been counted
	{
		taken()
		sl := log.New(os.Stdout, "[STATS] ", golog.Ldate|golog.Lmicroseconds)
		cm.PrintAndReset(sl)
		cj.GetProxyStats().PrintAndReset(sl)
		plain.rm.PrintAndReset(sl)
		cj.Stat().PrintStats(false)
		cj.Stat().PrintStats(true)
		logged := taken()
		out.Checked()
		out.Count("statistics")
		for _, key := range []string{"conn-stats", "proxy-stats:", "reg-stats: ", "Conns: "} {
			if !strings.Contains(logged, key) {
				c17aFail(out, "C17:harness-statistics-incomplete", fmt.Sprintf("the statistics printers did not write %q: %q", key, logged), "statistics")
			}
		}
		if hit := vc17.Scan(logged, union); hit != "" {
			c17aFail(out, "C17:statistics-have-client-address", "the statistics output contains "+hit+": "+c17aClip(logged, hit), "statistics")
		}
	}

	bg.Wait()
	globMu.Lock()
	logged := capt.take() + glob.String()
	globMu.Unlock()
	out.Checked()
	if hit := vc17.Scan(logged, union); hit != "" {
		c17aFail(out, "C17:conn-log-has-client-address", "transport-error outcome: the station's output contains "+hit+": "+c17aClip(logged, hit), "conn|tperr")
	}
}

func c17aIPv4OnlyGeoIP(dir string) (geoip.Database, error) {
	cc, asn := filepath.Join(dir, "cc.mmdb"), filepath.Join(dir, "asn.mmdb")
	if err := os.WriteFile(cc, vc17.IPv4OnlyMMDB("GeoLite2-Country"), 0o644); err != nil {
		return nil, err
	}
	if err := os.WriteFile(asn, vc17.IPv4OnlyMMDB("GeoLite2-ASN"), 0o644); err != nil {
		return nil, err
	}
	return geoip.New(&geoip.DBConfig{CCDBPath: cc, ASNDBPath: asn})
}

type writerFunc func(p []byte) (int, error)

func (f writerFunc) Write(p []byte) (int, error) { return f(p) }

func c17aClip(text, needle string) string {
	i := strings.Index(strings.ToLower(text), needle)
	lo, hi := i-100, i+len(needle)+60
	if lo < 0 {
		lo = 0
	}
	if hi > len(text) {
		hi = len(text)
	}
	return "…" + strings.ReplaceAll(text[lo:hi], "\n", " ⏎ ") + "…"
}

func c17aFileError(out *vlib.Out) {
	ln, err := net.ListenTCP("tcp", &net.TCPAddr{IP: net.ParseIP("127.0.0.1")})
	if err != nil {
		out.Note("C17 app (C): cannot listen on loopback: " + err.Error())
		return
	}
	defer ln.Close()
	clientIP := net.ParseIP("127.0.0.77")
	d := net.Dialer{LocalAddr: &net.TCPAddr{IP: clientIP}, Timeout: 3 * time.Second}
	c, err := d.Dial("tcp", ln.Addr().String())
	if err != nil {
		out.Note("C17 app (C): cannot dial from 127.0.0.77: " + err.Error())
		return
	}
	defer c.Close()
	srv, err := ln.AcceptTCP()
	if err != nil {
		out.Note("C17 app (C): accept failed: " + err.Error())
		return
	}
	srv.Close() // File() on a closed connection fails the way a failing dup(2) does: OpError{Op: "file", Source, Addr}
	var lb bytes.Buffer
	old := sharedLogger
	sharedLogger = log.New(&lb, "[REG] ", golog.Ldate|golog.Lmicroseconds)
	defer func() { sharedLogger = old }()
	rm := cj.NewRegistrationManager(&cj.RegConfig{})
	rm.GeoIP = &MockGeoIP{}
	newConnManager(nil).handleNewConn(rm, srv)
	out.Checked()
	out.Count("conn:file-error")
	if !strings.Contains(lb.String(), "failed to get file descriptor") {
		out.Note("C17 app (C): File() did not fail on the closed connection; case not exercised")
		return
	}
	if hit := vc17.Scan(lb.String(), vc17.Needles(clientIP)); hit != "" {
		c17aFail(out, "C17:file-error-logs-client-address",
			"handleNewConn logs the raw error of clientConn.File(), which names the remote endpoint: "+c17aClip(lb.String(), hit), "fileerror")
	}
}

// c17aOrigDst: handleNewConn with real TCP connections on loopback from distinctive source addresses.  They
// were not redirected by a DNAT rule, so looking up their original destination fails; what handleNewConn logs
// then (shared logger, standard streams) must not name the client endpoint — package net names the *os.File of
// a connection after both endpoints, the socket-option error is a bare errno.
func c17aOrigDst(out *vlib.Out, taken func() string) {
	type ep struct{ listen, from string }
	for _, e := range []ep{{"127.0.0.1", "127.44.55.66"}, {"127.0.0.1", "127.201.7.9"}, {"::1", "::1"}} {
		network := "tcp4"
		if strings.Contains(e.listen, ":") {
			network = "tcp6"
		}
		ln, err := net.ListenTCP(network, &net.TCPAddr{IP: net.ParseIP(e.listen)})
		if err != nil {
			out.Note("C17 app: cannot listen on " + e.listen + ": " + err.Error())
			continue
		}
		d := net.Dialer{LocalAddr: &net.TCPAddr{IP: net.ParseIP(e.from)}, Timeout: 3 * time.Second}
		c, err := d.Dial(network, ln.Addr().String())
		if err != nil {
			out.Note("C17 app: cannot dial from " + e.from + ": " + err.Error())
			ln.Close()
			continue
		}
		srv, err := ln.AcceptTCP()
		if err != nil {
			out.Note("C17 app: accept failed: " + err.Error())
			c.Close()
			ln.Close()
			continue
		}
		client := c.LocalAddr().(*net.TCPAddr)
		c.Close() // should the lookup succeed after all, the handler reads EOF and returns
		var lb bytes.Buffer
		old := sharedLogger
		sharedLogger = log.New(&lb, "[REG] ", golog.Ldate|golog.Lmicroseconds)
		rm := cj.NewRegistrationManager(&cj.RegConfig{})
		rm.GeoIP = &MockGeoIP{}
		taken()
		done := make(chan struct{})
		go func() { defer close(done); newConnManager(nil).handleNewConn(rm, srv) }()
		select {
		case <-done:
		case <-time.After(30 * time.Second):
			srv.Close()
			<-done
		}
		sharedLogger = old
		ln.Close()
		logged := lb.String() + taken()
		out.Checked()
		out.Count("conn:real-loopback:" + e.from)
		if strings.Contains(logged, "failed to getOriginalDst") {
			out.Count("conn:real-loopback:original-dst-lookup-failed")
		}
		for _, re := range vc17.LoopbackNeedles(client) {
			if loc := re.FindStringIndex(logged); loc != nil {
				c17aFail(out, "C17:conn-log-has-client-address",
					fmt.Sprintf("handleNewConn with a real connection from %s (not redirected: the original-destination lookup fails): the station's output names the client endpoint: %s",
						client, c17aClip(logged, strings.ToLower(logged[loc[0]:loc[1]]))),
					"origdst|"+e.from)
				break
			}
		}
	}
}
