//go:build verif

package lib

// The relay's deadline discipline on a virtual clock (C04: every application byte arrives, also when one
// side stays silent for a long time; C05: a direction that ends for a timeout tears both sides down and
// returns).  Two real halfPipe goroutines, started the way Proxy starts them, run over two deadline-aware
// scripted connections that share one virtual clock:
//
//   - SetDeadline / SetReadDeadline / SetWriteDeadline are recorded as virtual instants (virtual now + the
//     distance of the requested instant from time.Now(), i.e. the timeout the code asked for);
//   - Read blocks while nothing is queued, and fails with the deadline error as soon as — and for as long
//     as — the virtual clock is past the read deadline (what a real connection does: the error persists until
//     the deadline is moved);  Write fails likewise past the write deadline;
//   - the test goroutine is the scheduler: it applies one event (time passes / a chunk arrives from the client
//     or from the covert / one side ends its stream) and waits until both directions sit in Read again or
//     have returned.  No sleeping, no wall-clock comparison closer than a second of scheduling stall.
//
// The same event script goes to the Lean model (CJ/Model/RelayClock.lean) as a `relayclock|…` line.
//
// Oracle (own bookkeeping: time since the last chunk of either direction against the timeout in force,
// bytes sent so far): while every pause stays a second or more below the timeout the tunnel must be up
// and everything sent must have arrived (no premature tear-down, no loss); once a pause exceeds it by a
// second or more, or a side has ended its stream, both directions must have returned, both connections
// must be closed, the byte counts must equal what arrived and no goroutine may be left.  A direction that
// keeps calling Read on a connection that answers with an error every time, without ever ending or moving
// the deadline, is reported as a hang (call-count watchdog inside the connection, which then ends the
// goroutine; plus a generous wall-clock backstop), with the script as replay.

import (
	"bytes"
	"encoding/hex"
	"fmt"
	"io"
	golog "log"
	"net"
	"os"
	"runtime"
	"strconv"
	"strings"
	"sync"
	"sync/atomic"
	"syscall"
	"testing"
	"time"

	"github.com/refraction-networking/conjure/internal/vlib"
	"github.com/refraction-networking/conjure/pkg/station/log"
)

// ---------------------------------------------------------------------------------------------
// errors with chosen Timeout() / Temporary() answers

type vcNetErr struct {
	text      string
	timeout   bool
	temporary bool
}

func (e *vcNetErr) Error() string   { return e.text }
func (e *vcNetErr) Timeout() bool   { return e.timeout }
func (e *vcNetErr) Temporary() bool { return e.temporary }

// the deadline error in the shapes connections hand it out
func vcDeadlineErr(kind int, op string) error {
	switch kind {
	case 1:
		return os.ErrDeadlineExceeded // a wrapper that passes the poller's error on as it is
	case 2:
		return &vcNetErr{"deadline passed", true, true}
	case 3:
		return &vcNetErr{"deadline passed", true, false}
	}
	return &net.OpError{Op: op, Net: "tcp", Source: c05Addr("10.0.0.9:41245"), Addr: c05Addr("192.0.2.10:5000"), Err: os.ErrDeadlineExceeded}
}

// ---------------------------------------------------------------------------------------------
// world and connections

const vcSpinLimit = 5000 // Reads answered with an error in a row, without the direction ending or moving the deadline

type vcWorld struct {
	mu       sync.Mutex
	cond     *sync.Cond
	now      time.Duration // virtual time since the tunnel started
	exited   [2]bool       // [0] Up, [1] Down: halfPipe has returned
	panicked string
	hang     string // set by the watchdog
	aborted  bool   // after a hang: every further call on a connection ends its goroutine
}

type vcChunk struct {
	data []byte
	eof  bool
}

type vcConn struct {
	w       *vcWorld
	name    string
	rdOnly  bool // an obfs4-style connection: SetDeadline / SetWriteDeadline answer ENOTSUP
	errKind int  // shape of the deadline error
	inq     []vcChunk
	rd, wr  time.Duration
	rdSet   bool
	wrSet   bool
	closed  bool
	closes  int32
	parked  bool
	got     []byte
	streak  int // Reads answered with an error in a row
	sawEOF  bool
	armLog  []string
	nArms   int
	readErr int // number of Reads that returned an error
}

func newVcWorld() *vcWorld {
	w := &vcWorld{}
	w.cond = sync.NewCond(&w.mu)
	return w
}

func (w *vcWorld) conn(name string, rdOnly bool, errKind int) *vcConn {
	return &vcConn{w: w, name: name, rdOnly: rdOnly, errKind: errKind}
}

// bail ends the calling goroutine (deferred functions run) once the world has been given up.
func (c *vcConn) bailLocked() {
	if c.w.aborted {
		c.w.mu.Unlock()
		runtime.Goexit()
	}
}

func (c *vcConn) Read(p []byte) (int, error) {
	w := c.w
	w.mu.Lock()
	for {
		c.bailLocked()
		var err error
		switch {
		case c.rdSet && w.now > c.rd:
			err = vcDeadlineErr(c.errKind, "read")
		case c.closed:
			err = &net.OpError{Op: "read", Net: "tcp", Err: net.ErrClosed}
		case c.sawEOF:
			err = io.EOF
		case len(c.inq) > 0:
			ch := c.inq[0]
			if ch.eof {
				c.inq = c.inq[1:]
				c.sawEOF = true
				err = io.EOF
				break
			}
			n := copy(p, ch.data)
			if n < len(ch.data) {
				c.inq[0].data = ch.data[n:]
			} else {
				c.inq = c.inq[1:]
			}
			c.streak = 0
			w.mu.Unlock()
			return n, nil
		}
		if err != nil {
			c.streak++
			c.readErr++
			if c.streak > vcSpinLimit {
				if w.hang == "" {
					w.hang = fmt.Sprintf("Read on the %s connection has answered %q %d times in a row at virtual time %v: the direction neither ends nor moves the deadline", c.name, err.Error(), c.streak, w.now)
				}
				w.aborted = true
				w.cond.Broadcast()
				w.mu.Unlock()
				runtime.Goexit()
			}
			w.mu.Unlock()
			return 0, err
		}
		c.parked = true
		w.cond.Broadcast()
		w.cond.Wait()
	}
}

func (c *vcConn) Write(p []byte) (int, error) {
	w := c.w
	w.mu.Lock()
	defer w.mu.Unlock()
	if w.aborted {
		runtime.Goexit() // the deferred Unlock runs
	}
	switch {
	case c.wrSet && w.now > c.wr:
		return 0, vcDeadlineErr(c.errKind, "write")
	case c.closed:
		return 0, &net.OpError{Op: "write", Net: "tcp", Err: net.ErrClosed}
	}
	c.got = append(c.got, p...)
	return len(p), nil
}

func (c *vcConn) Close() error {
	w := c.w
	w.mu.Lock()
	defer w.mu.Unlock()
	atomic.AddInt32(&c.closes, 1)
	c.closed = true
	c.parked = false
	w.cond.Broadcast()
	return nil
}

func (c *vcConn) LocalAddr() net.Addr  { return c05Addr("10.0.0.9:41245") }
func (c *vcConn) RemoteAddr() net.Addr { return c05Addr("192.0.2.10:5000") }

// virtual instant of a requested deadline: the code computed it from time.Now() a few instructions ago
func (c *vcConn) virt(t time.Time) (time.Duration, bool) {
	if t.IsZero() {
		return 0, false
	}
	// the timeouts are whole seconds (checked by the generators): a scheduling stall of up to 0.9 s between
	// the code's time.Now() and this call is rounded away, and the scripts stay a second from every deadline
	return c.w.now + (time.Until(t) + 900*time.Millisecond).Truncate(time.Second), true
}

func (c *vcConn) arm(kind string, t time.Time, read, write bool) error {
	w := c.w
	w.mu.Lock()
	defer w.mu.Unlock()
	if w.aborted {
		runtime.Goexit() // the deferred Unlock runs
	}
	if c.closed {
		return &net.OpError{Op: "set", Net: "tcp", Err: net.ErrClosed}
	}
	v, set := c.virt(t)
	if read {
		c.rd, c.rdSet = v, set
	}
	if write {
		c.wr, c.wrSet = v, set
	}
	c.nArms++
	c.streak = 0
	if len(c.armLog) < 64 {
		c.armLog = append(c.armLog, fmt.Sprintf("%s@%v→%v", kind, w.now, v.Round(time.Second)))
	}
	c.parked = false // a Read blocked on this connection looks at the new deadline
	w.cond.Broadcast()
	return nil
}

func (c *vcConn) SetDeadline(t time.Time) error {
	if c.rdOnly {
		return syscall.ENOTSUP
	}
	return c.arm("rw", t, true, true)
}
func (c *vcConn) SetReadDeadline(t time.Time) error { return c.arm("r", t, true, false) }
func (c *vcConn) SetWriteDeadline(t time.Time) error {
	if c.rdOnly {
		return syscall.ENOTSUP
	}
	return c.arm("w", t, false, true)
}

// ---------------------------------------------------------------------------------------------
// scenarios

type vcStep struct {
	kind byte // 'w' wait, 'u' chunk from the client, 'd' chunk from the covert, 'U' client ends, 'D' covert ends
	dt   time.Duration
	data []byte
}

type vcScenario struct {
	steps  []vcStep
	flav   string // two characters per connection (client, covert): p|r (plain / read deadlines only) and 0-3 (deadline error shape)
	origin string
}

func (s *vcScenario) events() string {
	var ev []string
	for _, st := range s.steps {
		switch st.kind {
		case 'w':
			ev = append(ev, "w"+strconv.FormatInt(st.dt.Milliseconds(), 10))
		case 'u', 'd':
			ev = append(ev, string(st.kind)+vlib.Hex(st.data))
		default:
			ev = append(ev, string(st.kind))
		}
	}
	return strings.Join(ev, ",")
}

func (s *vcScenario) line() string {
	return fmt.Sprintf("relayclock|%d|%d|%s", proxyInitTimeout.Milliseconds(), proxyStallTimeout.Milliseconds(), s.events())
}

func (s *vcScenario) replay() string { return s.line() + "|" + s.flav }

func vcParse(line string) (*vcScenario, error) {
	f := strings.Split(strings.TrimSpace(line), "|")
	if len(f) < 4 || f[0] != "relayclock" {
		return nil, fmt.Errorf("not a relayclock line")
	}
	s := &vcScenario{flav: "p0p0", origin: "replay"}
	if len(f) >= 5 && len(f[4]) == 4 {
		s.flav = f[4]
	}
	if f[3] == "" {
		return s, nil
	}
	for _, e := range strings.Split(f[3], ",") {
		if e == "" {
			return nil, fmt.Errorf("empty event")
		}
		switch e[0] {
		case 'w':
			ms, err := strconv.ParseInt(e[1:], 10, 64)
			if err != nil {
				return nil, err
			}
			s.steps = append(s.steps, vcStep{kind: 'w', dt: time.Duration(ms) * time.Millisecond})
		case 'u', 'd':
			var d []byte
			if e[1:] != "-" {
				var err error
				if d, err = hex.DecodeString(e[1:]); err != nil {
					return nil, err
				}
			}
			s.steps = append(s.steps, vcStep{kind: e[0], data: d})
		case 'U', 'D':
			s.steps = append(s.steps, vcStep{kind: e[0]})
		default:
			return nil, fmt.Errorf("bad event %q", e)
		}
	}
	return s, nil
}

// ---------------------------------------------------------------------------------------------
// running one scenario

// settle waits until each direction has returned or sits in Read on its source with nothing to do.
func (w *vcWorld) settle(client, covert *vcConn) bool {
	stuck := false
	t := time.AfterFunc(90*time.Second, func() {
		w.mu.Lock()
		stuck = true
		w.cond.Broadcast()
		w.mu.Unlock()
	})
	defer t.Stop()
	for {
		if (w.exited[0] || client.parked) && (w.exited[1] || covert.parked) {
			return true
		}
		if stuck {
			return false
		}
		w.cond.Wait()
	}
}

func runVClock(out *vlib.Out, pid string, sc *vcScenario) string {
	w := newVcWorld()
	fl := sc.flav
	if len(fl) != 4 {
		fl = "p0p0"
	}
	client := w.conn("client", fl[0] == 'r', int(fl[1]-'0')&3)
	covert := w.conn("covert", fl[2] == 'r', int(fl[3]-'0')&3)
	lc := &c05LogCounter{}
	logger := log.New(lc, "", 0)
	stats := &tunnelStats{proxyStats: &ProxyStats{}}
	var wg sync.WaitGroup
	wg.Add(2)
	base := runtime.NumGoroutine()
	fail := func(kind, what string) { out.OracleFail(pid+":"+kind, what, sc.replay()) }

	dir := func(i int, src, dst net.Conn, tag string) {
		defer func() {
			r := recover()
			w.mu.Lock()
			if r != nil && w.panicked == "" {
				w.panicked = fmt.Sprint(r)
			}
			w.exited[i] = true
			w.cond.Broadcast()
			w.mu.Unlock()
		}()
		halfPipe(src, dst, &wg, logger, tag, stats)
	}
	go dir(0, client, covert, c05Tag(true))
	go dir(1, covert, client, c05Tag(false))

	// ---- the oracle's own bookkeeping
	initT, stallT := proxyInitTimeout, proxyStallTimeout
	limit, idle := initT, time.Duration(0)
	// A Read that returns (0, nil) — `u-` / `d-`, a frame without payload — delivers nothing and ends nothing.
	// Whether it counts as activity for the idle timeout the property does not say (the code under check
	// re-arms after every Read that returns no error, so it does): the oracle keeps both views — `limit`/`idle`
	// as if it did not count, `limitA`/`idleA` as if it did — and claims "must still be there" only while both
	// views say so, "must be gone" only when both say so, nothing in between.
	limitA, idleA := initT, time.Duration(0)
	var sentUp, sentDown []byte
	const (
		mustLive = iota // every pause so far stayed a second or more below the timeout in force
		noClaim         // a pause came within a second of the timeout: the oracle claims nothing from here on
		mustDie         // a pause exceeded the timeout by a second or more, or a side ended its stream
	)
	claim := mustLive
	died := -1
	reported := map[string]bool{}
	once := func(kind, what string) {
		if !reported[kind] {
			reported[kind] = true
			fail(kind, what)
		}
	}

	w.mu.Lock()
	ok := w.settle(client, covert)
	for i := 0; ok && i < len(sc.steps); i++ {
		st := sc.steps[i]
		wasAlive := !w.exited[0] && !w.exited[1]
		switch st.kind {
		case 'w':
			w.now += st.dt
			idle += st.dt
			idleA += st.dt
			if claim == mustLive {
				switch {
				case idle+time.Second <= limit && idleA+time.Second <= limitA:
				case idle >= limit+time.Second && idleA >= limitA+time.Second:
					claim = mustDie
				default:
					claim = noClaim
				}
			}
		case 'u', 'd':
			c := client
			if st.kind == 'd' {
				c = covert
			}
			c.inq = append(c.inq, vcChunk{data: append([]byte(nil), st.data...)})
			if claim == mustLive {
				if st.kind == 'u' {
					sentUp = append(sentUp, st.data...)
				} else {
					sentDown = append(sentDown, st.data...)
				}
				if len(st.data) > 0 {
					limit, idle = stallT, 0
				}
				limitA, idleA = stallT, 0
			}
		case 'U', 'D':
			c := client
			if st.kind == 'D' {
				c = covert
			}
			c.inq = append(c.inq, vcChunk{eof: true})
			if claim == mustLive {
				claim = mustDie
			}
		}
		client.parked, covert.parked = false, false
		w.cond.Broadcast()
		ok = w.settle(client, covert)
		if !ok {
			break
		}
		alive := !w.exited[0] && !w.exited[1]
		if wasAlive && !alive && died < 0 {
			died = i
		}
		out.Checked()
		if w.hang != "" {
			break
		}
		switch claim {
		case mustLive:
			if !alive || client.closed || covert.closed {
				once("premature-teardown", fmt.Sprintf("event %d (%s) at virtual time %v: %v since the last chunk of either direction, timeout in force %v, yet the tunnel is gone (up returned %v, down returned %v, client closed %v, covert closed %v; client deadlines %v; covert deadlines %v)",
					i, vcShow(st), w.now, idle, limit, w.exited[0], w.exited[1], client.closed, covert.closed, client.armLog, covert.armLog))
			}
			if !bytes.Equal(covert.got, sentUp) || !bytes.Equal(client.got, sentDown) {
				once("loss-without-fault", fmt.Sprintf("event %d (%s) at virtual time %v: client has sent %d bytes, covert received %d; covert has sent %d bytes, client received %d; no pause reached the timeout",
					i, vcShow(st), w.now, len(sentUp), len(covert.got), len(sentDown), len(client.got)))
			}
		case mustDie:
			if alive {
				once("not-torn-down", fmt.Sprintf("event %d (%s) at virtual time %v: %v since the last chunk, timeout in force %v (or a side ended its stream), yet both directions are still running (Reads that returned an error: client %d, covert %d)",
					i, vcShow(st), w.now, idle, limit, client.readErr, covert.readErr))
			}
		}
	}
	hang, panicked := w.hang, w.panicked
	aliveEnd := !w.exited[0] && !w.exited[1]
	if !ok {
		hang = fmt.Sprintf("no progress for 90 s of wall-clock time at virtual time %v: a direction is neither blocked in Read nor finished", w.now)
		w.aborted = true
	}
	// end of the script: whatever is still running is ended by closing both connections from outside
	exitedBefore := w.exited
	if !w.exited[0] || !w.exited[1] {
		client.closed, covert.closed = true, true
		client.parked, covert.parked = false, false
		w.cond.Broadcast()
		patience := 20 * time.Second
		if !ok {
			patience = 2 * time.Second
		}
		until := time.Now().Add(patience)
		for !(w.exited[0] && w.exited[1]) && time.Now().Before(until) {
			w.mu.Unlock()
			time.Sleep(100 * time.Microsecond)
			w.mu.Lock()
		}
	}
	bothExited := w.exited[0] && w.exited[1]
	w.mu.Unlock()

	if hang != "" {
		fail("hang", hang)
	}
	if panicked != "" {
		fail("panic", "halfPipe panicked: "+panicked)
	}
	if !bothExited {
		if hang == "" {
			fail("hang", "a direction did not return after both of its connections were closed")
		}
		return "hang"
	}
	// both directions have returned: each must have released the wait group (Proxy's wg.Wait() returns)
	released := make(chan struct{})
	go func() { wg.Wait(); close(released) }()
	select {
	case <-released:
	case <-time.After(20 * time.Second):
		fail("wg-not-released", "both directions have returned but wg.Wait() still blocks: Proxy would never return")
		return "wg-not-released"
	}
	settled := c05WaitGoroutines(base)
	w.mu.Lock()
	upGot, downGot := append([]byte(nil), covert.got...), append([]byte(nil), client.got...)
	lost := 0
	for _, c := range []*vcConn{client, covert} {
		for _, ch := range c.inq {
			lost += len(ch.data)
		}
	}
	w.mu.Unlock()
	if hang == "" && panicked == "" {
		if !settled {
			fail("goroutine-leak", fmt.Sprintf("goroutines before %d, after %d", base, runtime.NumGoroutine()))
		}
		if claim == mustDie && (exitedBefore[0] || exitedBefore[1]) {
			// the tunnel ended by itself: each direction closes both connections
			if atomic.LoadInt32(&client.closes) < 1 || atomic.LoadInt32(&covert.closes) < 1 {
				fail("not-closed", fmt.Sprintf("Close calls after the tunnel ended: client %d covert %d", client.closes, covert.closes))
			}
		}
		if bu, bd := atomic.LoadInt64(&stats.BytesUp), atomic.LoadInt64(&stats.BytesDown); bu != int64(len(upGot)) || bd != int64(len(downGot)) {
			fail("count-differs-from-delivered", fmt.Sprintf("tunnelStats counts up %d down %d, covert received %d, client received %d", bu, bd, len(upGot), len(downGot)))
		}
	}
	if hang != "" {
		return "hang"
	}
	diedS := "-"
	if died >= 0 {
		diedS = strconv.Itoa(died)
	}
	return fmt.Sprintf("alive:%s|died:%s|up:%s|down:%s|lost:%d|cli:%s|cov:%s", vlib.B(aliveEnd), diedS, vlib.Hex(upGot), vlib.Hex(downGot), lost,
		vlib.Hex([]byte(stats.ClientConnErr)), vlib.Hex([]byte(stats.CovertConnErr)))
}

func vcShow(st vcStep) string {
	switch st.kind {
	case 'w':
		return "pause of " + st.dt.String()
	case 'u':
		return fmt.Sprintf("%d bytes from the client", len(st.data))
	case 'd':
		return fmt.Sprintf("%d bytes from the covert", len(st.data))
	case 'U':
		return "client ends its stream"
	}
	return "covert ends its stream"
}

// ---------------------------------------------------------------------------------------------
// generators

var vcFlavours = []string{"p0p0", "r0p0", "p0r0", "r1p0", "p1p1", "p2p0", "p0p3", "r2r3", "p3p2", "r1r1"}

type vcGen struct {
	ctr int
}

func (g *vcGen) data(n int) []byte {
	b := make([]byte, n)
	for i := range b {
		b[i] = byte(g.ctr*29 + 7)
		g.ctr++
	}
	return b
}

func vcWait(d time.Duration) vcStep { return vcStep{kind: 'w', dt: d} }

// the endings: a side ends its stream, or the tunnel idles out (one second before the timeout it must
// still be there, one second after it must be gone).  idle: the pause already made since the last chunk.
func (g *vcGen) ending(k int, idle, limit time.Duration) []vcStep {
	switch k % 5 {
	case 0:
		return []vcStep{{kind: 'U'}}
	case 1:
		return []vcStep{{kind: 'D'}}
	case 2:
		var st []vcStep
		if d := limit - time.Second - idle; d > 0 {
			st = append(st, vcWait(d))
			idle += d
		}
		return append(st, vcWait(limit+time.Second-idle))
	case 3:
		return []vcStep{vcWait(limit + time.Second - idle), {kind: 'u', data: g.data(3)}, vcWait(time.Second)}
	}
	return []vcStep{vcWait(3 * limit), {kind: 'd', data: g.data(2)}}
}

func vcCorpus() []*vcScenario {
	g := &vcGen{}
	ini, stall := proxyInitTimeout, proxyStallTimeout
	oneWay := func(kind byte, n int, first, gap time.Duration, flav string, end int) *vcScenario {
		s := &vcScenario{flav: flav, origin: "corpus"}
		if first > 0 {
			s.steps = append(s.steps, vcWait(first))
		}
		s.steps = append(s.steps, vcStep{kind: kind, data: g.data(5)})
		for i := 0; i < n; i++ {
			s.steps = append(s.steps, vcWait(gap), vcStep{kind: kind, data: g.data(1 + i%7)})
		}
		s.steps = append(s.steps, g.ending(end, 0, stall)...)
		return s
	}
	var cs []*vcScenario
	// a long upload to a covert that never answers, a long download to a client that never speaks again:
	// several stall timeouts, every pause as long as allowed; and at the pace of the initial timeout
	for i, fl := range []string{"p0p0", "r0p0", "p0r1", "p2p3"} {
		cs = append(cs, oneWay('u', 6, ini-time.Second, stall-time.Second, fl, i))
		cs = append(cs, oneWay('d', 6, ini-time.Second, stall-time.Second, fl, i+2))
		cs = append(cs, oneWay('u', 12, time.Second, ini-time.Second, fl, i+1))
		cs = append(cs, oneWay('d', 12, 0, ini+time.Second, fl, i+3))
	}
	// a request, then a long download
	{
		s := &vcScenario{flav: "p0p0", origin: "corpus"}
		s.steps = append(s.steps, vcStep{kind: 'u', data: g.data(40)})
		for i := 0; i < 8; i++ {
			s.steps = append(s.steps, vcWait(stall/2+time.Duration(i)*time.Second), vcStep{kind: 'd', data: g.data(20)})
		}
		s.steps = append(s.steps, g.ending(2, 0, stall)...)
		cs = append(cs, s)
	}
	// nothing ever arrives: the tunnel idles out on the initial timeout
	for i, fl := range vcFlavours {
		cs = append(cs, &vcScenario{flav: fl, origin: "corpus", steps: g.ending(2+i%3, 0, ini)})
	}
	// a side ends its stream at once; after a chunk; bytes that arrive after the end are not delivered
	cs = append(cs, &vcScenario{flav: "p0p0", origin: "corpus", steps: []vcStep{{kind: 'U'}}})
	cs = append(cs, &vcScenario{flav: "r1p0", origin: "corpus", steps: []vcStep{{kind: 'D'}, {kind: 'u', data: g.data(4)}}})
	cs = append(cs, &vcScenario{flav: "p0p0", origin: "corpus", steps: []vcStep{{kind: 'u', data: g.data(4)}, {kind: 'd', data: g.data(4)}, {kind: 'U'}, vcWait(time.Hour)}})
	// reads that return (0, nil) in mid-stream (a framing transport delivering a frame without payload): the
	// direction goes on, what follows is relayed, the tunnel stays; at the very start, between the chunks of a
	// long one-way transfer, on the silent side of it, in both directions at once, right before the end
	for i, fl := range []string{"p0p0", "r0p0", "p1r1", "r2r3"} {
		kind, other := byte('u'), byte('d')
		if i%2 == 1 {
			kind, other = other, kind
		}
		s := &vcScenario{flav: fl, origin: "corpus"}
		s.steps = append(s.steps, vcStep{kind: kind}, vcWait(ini-time.Second), vcStep{kind: kind, data: g.data(6)})
		for j := 0; j < 5; j++ {
			s.steps = append(s.steps, vcWait(stall/2), vcStep{kind: kind}, vcStep{kind: other}, vcWait(stall/2-time.Second), vcStep{kind: kind, data: g.data(2 + j)})
		}
		s.steps = append(s.steps, vcStep{kind: kind}, vcStep{kind: other, data: g.data(9)})
		s.steps = append(s.steps, g.ending(i, 0, stall)...)
		cs = append(cs, s)
	}
	cs = append(cs, &vcScenario{flav: "p0p0", origin: "corpus", steps: []vcStep{{kind: 'u', data: g.data(4)}, {kind: 'u'}, {kind: 'u', data: g.data(5)}, {kind: 'd'}, {kind: 'd', data: g.data(7)}, {kind: 'U'}}})
	cs = append(cs, &vcScenario{flav: "r1p0", origin: "corpus", steps: []vcStep{{kind: 'd'}, {kind: 'u'}, {kind: 'd'}, vcWait(time.Second), {kind: 'u', data: g.data(3)}, {kind: 'd', data: g.data(3)}, vcWait(stall - time.Second), {kind: 'D'}}})
	// chunks larger than the relay buffer: several iterations at the same instant
	cs = append(cs, &vcScenario{flav: "p0p0", origin: "corpus", steps: []vcStep{{kind: 'u', data: g.data(70000)}, vcWait(stall - time.Second), {kind: 'd', data: g.data(32*1024 + 1)}, vcWait(stall - time.Second), {kind: 'U'}}})
	return cs
}

// every script of at most n events over {chunk up, chunk down, pause up to one second before the timeout,
// pause of one second, a read that returns (0, nil)} that keeps the pace, each with each kind of ending; connection flavours cycled
func vcEnumerate(n int, visit func(*vcScenario)) {
	g := &vcGen{}
	k := 0
	var rec func(prefix []byte)
	rec = func(prefix []byte) {
		var steps []vcStep
		limit, idle := proxyInitTimeout, time.Duration(0)
		for _, a := range prefix {
			switch a {
			case 0:
				steps = append(steps, vcStep{kind: 'u', data: g.data(1 + len(steps)%5)})
				limit, idle = proxyStallTimeout, 0
			case 1:
				steps = append(steps, vcStep{kind: 'd', data: g.data(1 + len(steps)%3)})
				limit, idle = proxyStallTimeout, 0
			case 2:
				d := limit - time.Second - idle
				if d <= time.Second {
					return // nothing left to wait for: the script with the short pause covers it
				}
				steps = append(steps, vcWait(d))
				idle += d
			case 3:
				if idle+2*time.Second > limit {
					return
				}
				steps = append(steps, vcWait(time.Second))
				idle += time.Second
			case 4:
				// a Read that returns (0, nil), on the client or the covert side by position; the pace is
				// kept as if it were not activity (the stricter of the oracle's two views)
				steps = append(steps, vcStep{kind: "ud"[len(steps)%2]})
			}
		}
		for end := 0; end < 5; end++ {
			k++
			s := &vcScenario{flav: vcFlavours[k%len(vcFlavours)], origin: "enum"}
			s.steps = append(append([]vcStep(nil), steps...), g.ending(end, idle, limit)...)
			visit(s)
		}
		if len(prefix) == n {
			return
		}
		for a := byte(0); a < 5; a++ {
			rec(append(append([]byte(nil), prefix...), a))
		}
	}
	rec(nil)
}

func vcRandom(r *vlib.Rand) *vcScenario {
	g := &vcGen{ctr: r.Intn(1 << 20)}
	s := &vcScenario{flav: vcFlavours[r.Intn(len(vcFlavours))], origin: "random"}
	mode := r.Intn(5) // 0 upload only, 1 download only, 2 alternate, 3 random, 4 request then download
	n := r.Range(1, 30)
	if r.Chance(1, 8) {
		n = r.Range(30, 200)
	}
	limit := proxyInitTimeout
	chunked := false
	big := r.Chance(1, 25)
	for i := 0; i < n; i++ {
		// pause: often the longest allowed, sometimes none, else anything in between (whole seconds)
		var gap time.Duration
		switch {
		case r.Chance(2, 5):
			gap = limit - time.Second
		case r.Chance(1, 4):
			gap = 0
		default:
			gap = time.Duration(r.Intn(int(limit/time.Second))) * time.Second
		}
		if gap > 0 {
			if r.Chance(1, 6) && gap > 2*time.Second { // the same pause in two pieces
				a := time.Duration(r.Range(1, int(gap/time.Second)-1)) * time.Second
				s.steps = append(s.steps, vcWait(a), vcWait(gap-a))
			} else {
				s.steps = append(s.steps, vcWait(gap))
			}
		}
		kind := byte('u')
		switch mode {
		case 1:
			kind = 'd'
		case 2:
			if i%2 == 1 {
				kind = 'd'
			}
		case 3:
			if r.Bool() {
				kind = 'd'
			}
		case 4:
			if i > 0 {
				kind = 'd'
			}
		}
		sz := r.Range(1, 48)
		if big && r.Chance(1, n) { // now and then one chunk that needs more than one iteration
			sz = []int{32 * 1024, 32*1024 + 1, 50000}[r.Intn(3)]
			big = false
		}
		if r.Chance(1, 9) {
			// a Read that returns (0, nil): nothing delivered, nothing ended; the pace is kept as if it were
			// not activity
			s.steps = append(s.steps, vcStep{kind: kind})
			continue
		}
		s.steps = append(s.steps, vcStep{kind: kind, data: g.data(sz)})
		limit, chunked = proxyStallTimeout, true
	}
	_ = chunked
	s.steps = append(s.steps, g.ending(r.Intn(5), 0, limit)...)
	return s
}

func vcHist(out *vlib.Out, s *vcScenario, ans string) {
	var span time.Duration
	ups, downs := 0, 0
	for _, st := range s.steps {
		switch st.kind {
		case 'w':
			span += st.dt
		case 'u':
			ups++
			if len(st.data) == 0 {
				out.Count("clock:read-returns-0-nil")
			}
		case 'd':
			downs++
			if len(st.data) == 0 {
				out.Count("clock:read-returns-0-nil")
			}
		case 'U', 'D':
			out.Count("clock:end-of-stream")
		}
	}
	switch {
	case ups > 0 && downs == 0:
		out.Count("clock:upload-only")
	case downs > 0 && ups == 0:
		out.Count("clock:download-only")
	case ups > 0:
		out.Count("clock:both-directions")
	default:
		out.Count("clock:no-traffic")
	}
	switch {
	case span > 5*proxyStallTimeout:
		out.Count("clock:span>5-stall-timeouts")
	case span > 2*proxyStallTimeout:
		out.Count("clock:span>2-stall-timeouts")
	case span > proxyInitTimeout:
		out.Count("clock:span>init-timeout")
	}
	if strings.Contains(ans, "74696d656f7574") {
		out.Count("clock:idled-out")
	}
	out.Count("clock:flavour-" + s.flav)
	out.Count("clock:" + s.origin)
}

func vcRunAll(t *testing.T, pid string) {
	golog.SetOutput(io.Discard)
	Stat()
	getProxyStats()
	out := vlib.Open(pid)
	defer out.Close()
	out.Note(pid + ": two halfPipe directions over deadline-aware scripted connections on a virtual clock (corpus, exhaustive small scripts, random); one-directional transfers lasting several stall timeouts, idle-out, end of stream")
	sigPid := "C04"
	if strings.HasPrefix(pid, "C05") {
		sigPid = "C05"
	}
	run := func(s *vcScenario) {
		ans := runVClock(out, sigPid, s)
		out.Case(s.line(), ans, true)
		vcHist(out, s, ans)
	}
	if rp := vlib.Replay(); rp != "" {
		b, err := os.ReadFile(rp)
		if err != nil {
			t.Fatal(err)
		}
		for _, line := range strings.Split(string(b), "\n") {
			if !strings.HasPrefix(line, "relayclock|") {
				continue
			}
			s, err := vcParse(line)
			if err != nil {
				t.Fatalf("bad replay line %q: %v", line, err)
			}
			ans := runVClock(out, sigPid, s)
			out.Case(s.line(), ans, true)
			fmt.Println("REPLAY model-line:", s.line())
			fmt.Println("REPLAY flavours  :", s.flav)
			fmt.Println("REPLAY impl      :", ans)
		}
		return
	}
	if proxyInitTimeout < 3*time.Second || proxyStallTimeout < 3*time.Second || proxyInitTimeout%time.Second != 0 || proxyStallTimeout%time.Second != 0 {
		t.Fatalf("the generators assume whole-second timeouts of at least 3 s (init %v, stall %v)", proxyInitTimeout, proxyStallTimeout)
	}
	for _, s := range vcCorpus() {
		run(s)
	}
	depth := 4
	if vlib.Tier() == "thorough" {
		depth = 6
	}
	vcEnumerate(depth, run)
	r := vlib.NewRand(pid + "clock")
	n := vlib.Budget(1500, 30000)
	for i := 0; i < n; i++ {
		run(vcRandom(r))
	}
}

// TestVerifC04Relay: the run that belongs to C04's check (prefix C04relay).
func TestVerifC04Relay(t *testing.T) { vcRunAll(t, "C04relay") }

// TestVerifC05Clock: the same dimension under C05's check (prefix C05clock).
func TestVerifC05Clock(t *testing.T) { vcRunAll(t, "C05clock") }
