//go:build verif

package lib

// C05, the process-wide byte counters of Stat() (newBytesUp / newBytesDown, stats.go), fed by every Write of
// every relay direction (halfPipe: Stat().AddBytesUp / AddBytesDown) and zeroed by the statistics loop
// (PrintStats(false) -> Reset).
//
// TestVerifC05Bytes runs in a process of its own and takes the place of initStats before anything calls
// Stat(): the singleton is built without its two tickers, so that an epoch boundary happens only where a
// history says so (PrintStats(false) with the logger captured, or Reset). A history: k real Proxy() sessions
// (client = net.Pipe, covert = loopback TCP) are opened; in every round ALL sessions move their chunks in BOTH
// directions at the same time (four goroutines per session); after a round the harness may end an epoch.
// Ground truth is what arrived at the far ends. Oracles (harness bookkeeping only):
//   C05:process-counter-differs-from-delivered   the two counters = bytes delivered since the last boundary, summed over sessions
//   C05:process-counter-report-differs           the `Byte: <up> up <down> down` of the line PrintStats logs = the closing epoch
// The same history goes to the Lean model (`bytectr|e|…`, CJ.ByteCounters) in a canonical order; by
// CJ.Props.C05Bytes.interleaving_irrelevant_in_epoch / chunking_irrelevant the order and the chunking inside an
// epoch do not matter. Counters are read once they have reached the expected value or after 10 s.

import (
	"bytes"
	"fmt"
	"io"
	golog "log"
	"net"
	"os"
	"regexp"
	"strconv"
	"strings"
	"sync"
	"sync/atomic"
	"testing"
	"time"

	"github.com/refraction-networking/conjure/internal/vlib"
	"github.com/refraction-networking/conjure/pkg/station/log"
)

type c05SyncBuf struct {
	mu sync.Mutex
	b  bytes.Buffer
}

func (s *c05SyncBuf) Write(p []byte) (int, error) {
	s.mu.Lock()
	defer s.mu.Unlock()
	return s.b.Write(p)
}
func (s *c05SyncBuf) take() string {
	s.mu.Lock()
	defer s.mu.Unlock()
	t := s.b.String()
	s.b.Reset()
	return t
}

type c05BRound struct {
	up, down [][]int // per session: the sizes of the chunks written in each direction
	boundary string  // after the round: "" nothing, "p" PrintStats(false), "z" Reset
}

type c05BPlan struct {
	name     string
	sessions int
	rounds   []c05BRound
}

var c05ByteRe = regexp.MustCompile(`Byte: (-?\d+) up (-?\d+) down`)

func runC05Bytes(out *vlib.Out, ln net.Listener, logbuf *c05SyncBuf, p *c05BPlan) bool {
	replay := "bytes-scenario " + p.name
	fail := func(kind, what string) { out.OracleFail(c05Sig(kind), what, replay) }
	st := Stat()
	st.Reset()
	logbuf.take()
	logger := log.New(io.Discard, "", 0)
	type sess struct {
		h, srv net.Conn
		ret    chan struct{}
	}
	var ss []*sess
	closeAll := func() {
		for _, s := range ss {
			s.h.Close()
			if s.srv != nil {
				s.srv.Close()
			}
		}
		for _, s := range ss {
			select {
			case <-s.ret:
			case <-time.After(30 * time.Second):
				fail("proxy-does-not-return", "Proxy had not returned 30 s after both ends were closed")
			}
		}
	}
	for i := 0; i < p.sessions; i++ {
		c, h := net.Pipe()
		s := &sess{h: h, ret: make(chan struct{})}
		ss = append(ss, s)
		reg := c05Reg(ln.Addr().String(), false)
		go func() { Proxy(reg, c, logger); close(s.ret) }()
		_ = ln.(*net.TCPListener).SetDeadline(time.Now().Add(30 * time.Second))
		srv, err := ln.Accept()
		if err != nil {
			fail("relay-not-started", "Proxy did not connect to the covert within 30 s: "+err.Error())
			closeAll()
			return false
		}
		s.srv = srv
	}
	settle := func(wu, wd int64) (int64, int64) {
		deadline := time.Now().Add(c05StatsWait)
		for {
			u, d := atomic.LoadInt64(&st.newBytesUp), atomic.LoadInt64(&st.newBytesDown)
			if (u == wu && d == wd) || time.Now().After(deadline) {
				return u, d
			}
			time.Sleep(20 * time.Microsecond)
		}
	}
	var evs, eps []string
	var curU, curD, totU, totD int64 // the harness's own account: delivered since the last boundary / ever
	good := true
	for ri, rd := range p.rounds {
		var wg sync.WaitGroup
		var gotU, gotD int64
		var bad atomic.Value
		for si, s := range ss {
			s.h.SetDeadline(time.Now().Add(30 * time.Second))
			s.srv.SetDeadline(time.Now().Add(30 * time.Second))
			mv := func(w, r net.Conn, sizes []int, seed int, acc *int64, dir string) {
				tot := 0
				for _, n := range sizes {
					tot += n
				}
				data := c05Pattern(tot, seed)
				wg.Add(2)
				go func() {
					defer wg.Done()
					off := 0
					for _, n := range sizes {
						if _, err := w.Write(data[off : off+n]); err != nil {
							bad.Store(fmt.Sprintf("session %d %s: write failed: %v", si, dir, err))
							return
						}
						off += n
					}
				}()
				go func() {
					defer wg.Done()
					got := make([]byte, tot)
					n, err := io.ReadFull(r, got)
					atomic.AddInt64(acc, int64(n))
					if err != nil || !bytes.Equal(got, data) {
						bad.Store(fmt.Sprintf("session %d %s: %d of %d bytes arrived intact (err %v)", si, dir, n, tot, err))
					}
				}()
			}
			mv(s.h, s.srv, rd.up[si], ri*100+si, &gotU, "up")
			mv(s.srv, s.h, rd.down[si], ri*100+si+50, &gotD, "down")
			for _, n := range rd.up[si] {
				evs = append(evs, fmt.Sprintf("%du%d", si, n))
			}
			for _, n := range rd.down[si] {
				evs = append(evs, fmt.Sprintf("%dd%d", si, n))
			}
		}
		wg.Wait()
		if b := bad.Load(); b != nil {
			fail("loss-without-fault", b.(string))
			closeAll()
			return false
		}
		curU, curD, totU, totD = curU+gotU, curD+gotD, totU+gotU, totD+gotD
		u, d := settle(curU, curD)
		out.Checked()
		if u != curU || d != curD {
			fail("process-counter-differs-from-delivered", fmt.Sprintf("after round %d (%d sessions): Stat() counts %d up / %d down since the last boundary, the far ends received %d / %d", ri+1, p.sessions, u, d, curU, curD))
			good = false
		}
		if rd.boundary != "" {
			evs = append(evs, rd.boundary)
			eps = append(eps, fmt.Sprintf("%d/%d", u, d))
			if rd.boundary == "p" {
				logbuf.take()
				st.PrintStats(false)
				m := c05ByteRe.FindStringSubmatch(logbuf.take())
				if m == nil {
					fail("process-counter-report-differs", "PrintStats(false) logged no `Byte: … up … down`")
					good = false
				} else {
					ru, _ := strconv.ParseInt(m[1], 10, 64)
					rdn, _ := strconv.ParseInt(m[2], 10, 64)
					if ru != curU || rdn != curD {
						fail("process-counter-report-differs", fmt.Sprintf("PrintStats reports %d up / %d down for an epoch in which %d / %d were delivered", ru, rdn, curU, curD))
						good = false
					}
				}
			} else {
				st.Reset()
			}
			curU, curD = 0, 0
			out.Count("bytes:boundary-" + rd.boundary)
		}
		if !good {
			break
		}
	}
	closeAll()
	var u, d int64
	if good { // after a failure the counters are known to be off: no second wait
		u, d = settle(curU, curD)
	}
	if good && (u != curU || d != curD) {
		fail("process-counter-differs-from-delivered", fmt.Sprintf("after the sessions ended: Stat() counts %d up / %d down, delivered since the last boundary %d / %d", u, d, curU, curD))
		good = false
	}
	// closed epochs (as observed before each boundary) + the counters now
	su, sd := u, d
	for _, e := range eps {
		f := strings.Split(e, "/")
		a, _ := strconv.ParseInt(f[0], 10, 64)
		b, _ := strconv.ParseInt(f[1], 10, 64)
		su, sd = su+a, sd+b
	}
	if good {
		out.Case("bytectr|e|"+strings.Join(evs, ","), fmt.Sprintf("ep:%s|cur:%d/%d|total:%d/%d", strings.Join(eps, ";"), u, d, su, sd), true)
	}
	out.Count(fmt.Sprintf("bytes:sessions=%d", p.sessions))
	out.Count(fmt.Sprintf("bytes:rounds=%d", len(p.rounds)))
	return good
}

func c05BytesPlans(r *vlib.Rand, n int) []*c05BPlan {
	mk := func(name string, sessions int, rounds ...c05BRound) *c05BPlan {
		return &c05BPlan{name: name, sessions: sessions, rounds: rounds}
	}
	same := func(k int, sizes ...int) [][]int {
		var o [][]int
		for i := 0; i < k; i++ {
			o = append(o, sizes)
		}
		return o
	}
	none := func(k int) [][]int { return make([][]int, k) }
	ps := []*c05BPlan{
		mk("one-session-one-way", 1, c05BRound{up: same(1, 5, 6), down: none(1)}),
		mk("one-session-both-ways-print", 1, c05BRound{up: same(1, 100), down: same(1, 7, 7, 7), boundary: "p"}, c05BRound{up: same(1, 3), down: same(1, 4)}),
		mk("three-sessions-at-once", 3, c05BRound{up: same(3, 1000, 2000, 3000), down: same(3, 4000, 1)}),
		mk("four-sessions-two-epochs-reset", 4, c05BRound{up: same(4, 10, 20), down: same(4, 30), boundary: "z"}, c05BRound{up: same(4, 1), down: same(4, 2, 2), boundary: "p"}, c05BRound{up: same(4, 9), down: none(4)}),
		mk("chunks-larger-than-the-relay-buffer", 2, c05BRound{up: same(2, 40000, 70000), down: same(2, 100000), boundary: "p"}),
		mk("idle-epoch", 2, c05BRound{up: none(2), down: none(2), boundary: "p"}, c05BRound{up: same(2, 8), down: same(2, 8), boundary: "p"}, c05BRound{up: none(2), down: none(2), boundary: "z"}),
		mk("six-sessions-many-small-chunks", 6, c05BRound{up: same(6, 1, 2, 3, 4, 5, 6, 7, 8, 9, 10, 11, 12), down: same(6, 12, 11, 10, 9, 8, 7, 6, 5, 4, 3, 2, 1), boundary: "p"}, c05BRound{up: same(6, 1, 1, 1, 1), down: same(6, 1, 1, 1, 1)}),
	}
	for i := 0; i < n; i++ {
		p := &c05BPlan{name: fmt.Sprintf("random-%d-seed-%d", i, vlib.Seed()), sessions: r.Range(1, 6)}
		for k := r.Range(1, 4); k > 0; k-- {
			rd := c05BRound{up: make([][]int, p.sessions), down: make([][]int, p.sessions)}
			for s := 0; s < p.sessions; s++ {
				for _, dst := range []*[]int{&rd.up[s], &rd.down[s]} {
					for c := r.Intn(5); c > 0; c-- {
						sz := r.Range(1, 1500)
						if r.Chance(1, 8) {
							sz = r.Range(30000, 70000) // around and above the 32 KiB relay buffer
						}
						*dst = append(*dst, sz)
					}
				}
			}
			switch r.Intn(4) {
			case 0:
				rd.boundary = "p"
			case 1:
				rd.boundary = "z"
			}
			p.rounds = append(p.rounds, rd)
		}
		ps = append(ps, p)
	}
	return ps
}

func TestVerifC05Bytes(t *testing.T) {
	golog.SetOutput(io.Discard)
	logbuf := &c05SyncBuf{}
	// the singleton without its tickers: epoch boundaries are events of the histories
	statsOnce.Do(func() {
		statInstance = Stats{logger: log.New(logbuf, "", 0), generations: make(map[uint32]int64), genMutex: &sync.Mutex{}}
	})
	getProxyStats()
	out := vlib.Open("C05bytes")
	defer out.Close()
	out.Note("C05 bytes: concurrent real Proxy sessions against the process-wide byte counters of Stat(), epoch boundaries as events")
	ln, err := net.Listen("tcp", "127.0.0.1:0")
	if err != nil {
		t.Fatal(err)
	}
	defer ln.Close()
	plans := c05BytesPlans(vlib.NewRand("C05bytes"), vlib.Budget(40, 500))
	if rp := vlib.Replay(); rp != "" {
		b, err := os.ReadFile(rp)
		if err != nil {
			t.Fatal(err)
		}
		for _, line := range strings.Split(string(b), "\n") {
			if name, ok := strings.CutPrefix(line, "bytes-scenario "); ok {
				for _, p := range plans {
					if p.name == name {
						fmt.Println("REPLAY scenario  :", name, "->", runC05Bytes(out, ln, logbuf, p))
					}
				}
			}
		}
		return
	}
	bad := 0
	for _, p := range plans {
		if !runC05Bytes(out, ln, logbuf, p) {
			if bad++; bad >= 3 {
				break
			}
		}
	}
}
