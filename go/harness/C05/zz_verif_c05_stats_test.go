//go:build verif

package lib

// C05, the session gauge and the epoch counters of ProxyStats across statistics epochs.
//
// The station's stats loop calls PrintAndReset (or Reset) on every statistics module whenever its ticker
// fires, i.e. at arbitrary moments relative to the proxy sessions.  Here an epoch boundary is an EVENT of
// the histories, interleaved with everything else:
//
//  (A) c05StatsCalls: every well-formed sequence of <= 4 (quick) / <= 5 (thorough) calls over the alphabet
//      addSession · removeSession · addBytes up/down · addCompleted up/down with zero and non-zero counts ·
//      PrintAndReset · Reset on a fresh real ProxyStats, plus long random ones; the same calls go to the Lean
//      model (`statsepoch|…`).
//  (B) c05StatsSessions: real Proxy() calls — client = net.Pipe, covert = a loopback TCP server — started,
//      used and ended in every order with PrintAndReset / Reset of the process-wide ProxyStats in between:
//      every history of <= 3 / <= 4 events over start (with / without a first byte) · transfer · end by the
//      client (oldest session) · end by the covert (newest session) · PrintAndReset · Reset with up to three
//      sessions open, plus random ones; model line `sessions|…`.
//
// Oracle, after every event, from the harness's own bookkeeping (never from the Lean model):
//   C05:gauge-differs-from-open-sessions   sessionsProxying = number of sessions between addSession and removeSession
//   C05:epoch-counter-differs              the seven counters = what was counted since the last epoch boundary
//   C05:epoch-report-differs               what PrintAndReset prints = the values the closing epoch had
//   C05:epochs-do-not-sum-to-totals        closed epochs + current epoch = everything ever counted
// A session counts as open once Proxy has started its two directions (a byte sent by the client has arrived
// at the covert, or — sessions that transfer nothing — the gauge has moved) until Proxy has returned;
// counters are read once they have reached the expected value or 10 s have passed (nothing else changes
// them), so there is no timing in the verdict.

import (
	"bytes"
	"fmt"
	"io"
	"net"
	"runtime"
	"strconv"
	"strings"
	"sync/atomic"
	"time"

	"github.com/refraction-networking/conjure/internal/vlib"
	"github.com/refraction-networking/conjure/pkg/station/log"
)

type c05PS [8]int64 // sessionsProxying, newBytesUp, newBytesDown, completeBytesUp, completeBytesDown, zeroByteTunnelsUp, zeroByteTunnelsDown, completedSessions

func c05LoadPS(s *ProxyStats) c05PS {
	ld := atomic.LoadInt64
	return c05PS{ld(&s.sessionsProxying), ld(&s.newBytesUp), ld(&s.newBytesDown), ld(&s.completeBytesUp), ld(&s.completeBytesDown),
		ld(&s.zeroByteTunnelsUp), ld(&s.zeroByteTunnelsDown), ld(&s.completedSessions)}
}

func (p c05PS) String() string {
	var f []string
	for _, v := range p {
		f = append(f, strconv.FormatInt(v, 10))
	}
	return strings.Join(f, "/")
}

// c05Report parses the line PrintAndReset logs: "proxy-stats:%d %d %f %d %f %d %d %d %f %f" =
// sessions, bytes up, rate, bytes down, rate, completed sessions, zero-byte up, zero-byte down, two averages.
func c05Report(logged string) (sessions, up, down, completed, zup, zdown int64, ok bool) {
	i := strings.LastIndex(logged, "proxy-stats:")
	if i < 0 {
		return
	}
	f := strings.Fields(logged[i+len("proxy-stats:"):])
	if len(f) < 10 {
		return
	}
	var err error
	get := func(k int) int64 {
		v, e := strconv.ParseInt(f[k], 10, 64)
		if e != nil {
			err = e
		}
		return v
	}
	sessions, up, down, completed, zup, zdown = get(0), get(1), get(3), get(5), get(6), get(7)
	return sessions, up, down, completed, zup, zdown, err == nil
}

// c05Book is the harness's own account of what the statistics must show.
type c05Book struct {
	open   int64
	epoch  [7]int64 // counted since the last epoch boundary
	closed [7]int64 // what the closed epochs had counted
	total  [7]int64 // everything ever counted
}

func (b *c05Book) count(k int, n int64) { b.epoch[k] += n; b.total[k] += n }
func (b *c05Book) bytes(n int64, up bool) {
	if up {
		b.count(0, n)
	} else {
		b.count(1, n)
	}
}
func (b *c05Book) completed(n int64, up bool) {
	z := int64(0)
	if n == 0 {
		z = 1
	}
	if up {
		b.count(2, n)
		b.count(4, z)
		b.count(6, 1)
	} else {
		b.count(3, n)
		b.count(5, z)
	}
}
func (b *c05Book) boundary() {
	for k := range b.epoch {
		b.closed[k] += b.epoch[k]
		b.epoch[k] = 0
	}
}
func (b *c05Book) want() c05PS {
	return c05PS{b.open, b.epoch[0], b.epoch[1], b.epoch[2], b.epoch[3], b.epoch[4], b.epoch[5], b.epoch[6]}
}

// c05CheckPS evaluates the oracles on one observation; false: one of them failed.
func c05CheckPS(out *vlib.Out, b *c05Book, have c05PS, when, replay string) (good bool) {
	out.Checked()
	want := b.want()
	good = true
	if have[0] != want[0] {
		good = false
		out.OracleFail("C05:gauge-differs-from-open-sessions", fmt.Sprintf("%s: the gauge of open proxy sessions shows %d, %d session(s) are between addSession and removeSession", when, have[0], want[0]), replay)
	}
	for k := 1; k < 8; k++ {
		if have[k] != want[k] {
			good = false
			out.OracleFail("C05:epoch-counter-differs", fmt.Sprintf("%s: ProxyStats sessions/newBytesUp/newBytesDown/completeBytesUp/completeBytesDown/zeroByteTunnelsUp/zeroByteTunnelsDown/completedSessions = %v, counted since the last epoch boundary: %v", when, have, want), replay)
			break
		}
	}
	for k := 0; k < 7; k++ {
		if b.closed[k]+have[k+1] != b.total[k] {
			good = false
			out.OracleFail("C05:epochs-do-not-sum-to-totals", fmt.Sprintf("%s: counter %d: closed epochs %d + current epoch %d != %d counted in all", when, k, b.closed[k], have[k+1], b.total[k]), replay)
			break
		}
	}
	return good
}

// c05Epoch ends an epoch on s (print = PrintAndReset, else Reset) and checks what was reported.
func c05Epoch(out *vlib.Out, s *ProxyStats, b *c05Book, print bool, gaugeBase int64, when, replay string) {
	if !print {
		s.Reset()
		b.boundary()
		return
	}
	var buf bytes.Buffer
	s.PrintAndReset(log.New(&buf, "", 0))
	sess, up, down, comp, zu, zd, ok := c05Report(buf.String())
	out.Checked()
	switch {
	case !ok:
		out.OracleFail("C05:epoch-report-differs", when+": PrintAndReset logged no parsable proxy-stats line: "+strings.TrimSpace(buf.String()), replay)
	case sess-gaugeBase != b.open:
		out.OracleFail("C05:gauge-differs-from-open-sessions", fmt.Sprintf("%s: PrintAndReset reports %d open proxy session(s), %d are open", when, sess-gaugeBase, b.open), replay)
	case up != b.epoch[0] || down != b.epoch[1] || comp != b.epoch[6] || zu != b.epoch[4] || zd != b.epoch[5]:
		out.OracleFail("C05:epoch-report-differs", fmt.Sprintf("%s: PrintAndReset reports up/down/completed/zero-up/zero-down = %d/%d/%d/%d/%d, the closing epoch counted %d/%d/%d/%d/%d",
			when, up, down, comp, zu, zd, b.epoch[0], b.epoch[1], b.epoch[6], b.epoch[4], b.epoch[5]), replay)
	}
	b.boundary()
}

// ---------------------------------------------------------------------------------------------
// (A) call sequences on one ProxyStats

var c05CallAlphabet = []string{"a", "r", "bu7", "bd3", "cu0", "cu9", "cd0", "cd4", "p", "z"}

func runC05Calls(out *vlib.Out, calls []string) {
	line := "statsepoch|" + strings.Join(calls, ",")
	s := &ProxyStats{}
	b := &c05Book{}
	var states []string
	for i, c := range calls {
		when := fmt.Sprintf("after call %d (%s)", i+1, c)
		n, _ := strconv.ParseInt(strings.TrimLeft(c, "abcdruz p"), 10, 64)
		switch {
		case c == "a":
			s.addSession()
			b.open++
		case c == "r":
			s.removeSession()
			b.open--
		case strings.HasPrefix(c, "b"):
			s.addBytes(n, c[1] == 'u')
			b.bytes(n, c[1] == 'u')
		case strings.HasPrefix(c, "c"):
			s.addCompleted(n, c[1] == 'u')
			b.completed(n, c[1] == 'u')
		case c == "p", c == "z":
			c05Epoch(out, s, b, c == "p", 0, when, line)
		}
		have := c05LoadPS(s)
		c05CheckPS(out, b, have, when, line)
		states = append(states, have.String())
		out.Count("stats-call:" + strings.TrimRight(c, "0123456789"))
	}
	var cl []string
	cl = append(cl, "0")
	for _, v := range b.closed {
		cl = append(cl, strconv.FormatInt(v, 10))
	}
	out.Case(line, strings.Join(states, ";")+"|closed:"+strings.Join(cl, "/"), true)
}

// c05Depth picks an enumeration depth by tier (never scaled by the search factor).
func c05Depth(quick, thorough int) int {
	if vlib.Tier() == "thorough" {
		return thorough
	}
	return quick
}

func c05StatsCalls(out *vlib.Out) {
	// a DEPTH, not a count: it must not go through vlib.Budget — the targeted search of ./check (VERIF_SEARCH=1)
	// multiplies budgets by four, and an exhaustive enumeration to depth 16 over ten calls never ends (the
	// run then lasts until the go-test timeout, twice, and writes gigabytes of cases).  The enumeration is
	// complete at its depth whatever the seed; the search widens the random histories below instead.
	maxLen := c05Depth(4, 5)
	var rec func(prefix []string, open int)
	rec = func(prefix []string, open int) {
		if len(prefix) > 0 {
			runC05Calls(out, prefix)
		}
		if len(prefix) == maxLen {
			return
		}
		for _, c := range c05CallAlphabet {
			o := open
			switch c {
			case "a":
				o++
			case "r":
				if open == 0 {
					continue // removeSession follows an addSession
				}
				o--
			}
			rec(append(append([]string(nil), prefix...), c), o)
		}
	}
	rec(nil, 0)
	r := vlib.NewRand("C05stats")
	for i, n := 0, vlib.Budget(300, 6000); i < n; i++ {
		var calls []string
		open := 0
		for j, k := 0, r.Range(5, 60); j < k; j++ {
			switch x := r.Intn(10); {
			case x < 2:
				calls = append(calls, "a")
				open++
			case x < 4 && open > 0:
				calls = append(calls, "r")
				open--
			case x < 6:
				calls = append(calls, fmt.Sprintf("b%c%d", "ud"[r.Intn(2)], r.Intn(70000)))
			case x < 8:
				n := r.Intn(3) * r.Intn(50000)
				calls = append(calls, fmt.Sprintf("c%c%d", "ud"[r.Intn(2)], n))
			case x < 9:
				calls = append(calls, "p")
			default:
				calls = append(calls, "z")
			}
		}
		runC05Calls(out, calls)
	}
}

// ---------------------------------------------------------------------------------------------
// (B) real Proxy sessions and epochs of the process-wide ProxyStats

type c05Sess struct {
	id       int
	h        net.Conn // the client's end of the tunnel (the harness plays the client)
	srv      net.Conn // the covert's end
	ret      chan struct{}
	up, down int64
}

const c05StatsWait = 10 * time.Second

var c05SessAlphabet = []string{"S", "S0", "X", "Ec", "Es", "P", "Z"}

// runC05Sessions plays one history; returns false when an oracle failed or it had to be abandoned.
func runC05Sessions(out *vlib.Out, ln net.Listener, letters []string) bool {
	replay := "sessions-scenario " + strings.Join(letters, ",")
	ps := getProxyStats()
	ps.Reset()
	base := runtime.NumGoroutine()
	g0 := atomic.LoadInt64(&ps.sessionsProxying)
	b := &c05Book{}
	var open []*c05Sess
	next := 0
	var groups, states []string
	abandoned := false
	fail := func(kind, what string) { out.OracleFail(c05Sig(kind), what, replay) }
	logger := log.New(io.Discard, "", 0)
	// settle: the statistics reach what the bookkeeping expects (nothing else moves them) or 10 s pass
	settle := func() c05PS {
		want := b.want()
		deadline := time.Now().Add(c05StatsWait)
		for {
			have := c05LoadPS(ps)
			have[0] -= g0
			if have == want || time.Now().After(deadline) {
				return have
			}
			time.Sleep(20 * time.Microsecond)
		}
	}
	io30 := func(c net.Conn) { _ = c.SetDeadline(time.Now().Add(30 * time.Second)) }
	start := func(first bool) bool {
		c, h := net.Pipe()
		s := &c05Sess{id: next, h: h, ret: make(chan struct{})}
		next++
		reg := c05Reg(ln.Addr().String(), false)
		go func() { Proxy(reg, c, logger); close(s.ret) }()
		_ = ln.(*net.TCPListener).SetDeadline(time.Now().Add(30 * time.Second))
		srv, err := ln.Accept()
		if err != nil {
			fail("relay-not-started", "Proxy did not connect to the covert within 30 s: "+err.Error())
			h.Close()
			return false
		}
		s.srv = srv
		g := fmt.Sprintf("s%d", s.id)
		b.open++
		if first {
			io30(h)
			io30(srv)
			one := []byte{0x5a}
			if _, err := h.Write(one); err != nil {
				fail("relay-not-started", "the client's first byte was not taken by the relay within 30 s: "+err.Error())
				return false
			}
			if _, err := io.ReadFull(srv, one); err != nil {
				fail("relay-not-started", "the client's first byte did not arrive at the covert within 30 s: "+err.Error())
				return false
			}
			s.up++
			b.bytes(1, true)
			g += fmt.Sprintf(",b%du1", s.id)
		}
		open = append(open, s)
		groups = append(groups, g)
		return true
	}
	xfer := func(s *c05Sess, n, m int) bool {
		io30(s.h)
		io30(s.srv)
		upData, downData := c05Pattern(n, s.id), c05Pattern(m, s.id+50)
		got := make([]byte, n)
		errc := make(chan error, 1)
		go func() { _, err := io.ReadFull(s.srv, got); errc <- err }()
		if _, err := s.h.Write(upData); err != nil {
			fail("loss-without-fault", "client write failed: "+err.Error())
			return false
		}
		if err := <-errc; err != nil || !bytes.Equal(got, upData) {
			fail("loss-without-fault", fmt.Sprintf("the covert did not receive the %d bytes the client sent (err %v)", n, err))
			return false
		}
		got2 := make([]byte, m)
		go func() { _, err := io.ReadFull(s.h, got2); errc <- err }()
		if _, err := s.srv.Write(downData); err != nil {
			fail("loss-without-fault", "covert write failed: "+err.Error())
			return false
		}
		if err := <-errc; err != nil || !bytes.Equal(got2, downData) {
			fail("loss-without-fault", fmt.Sprintf("the client did not receive the %d bytes the covert sent (err %v)", m, err))
			return false
		}
		s.up += int64(n)
		s.down += int64(m)
		b.bytes(int64(n), true)
		b.bytes(int64(m), false)
		groups = append(groups, fmt.Sprintf("b%du%d,b%dd%d", s.id, n, s.id, m))
		return true
	}
	end := func(idx int, byClient bool) bool {
		s := open[idx]
		open = append(open[:idx:idx], open[idx+1:]...)
		if byClient {
			s.h.Close()
		} else {
			s.srv.Close()
		}
		select {
		case <-s.ret:
		case <-time.After(30 * time.Second):
			fail("proxy-does-not-return", "Proxy had not returned 30 s after one end of the tunnel was closed")
			s.h.Close()
			s.srv.Close()
			return false
		}
		s.h.Close()
		s.srv.Close()
		b.open--
		b.completed(s.up, true)
		b.completed(s.down, false)
		groups = append(groups, fmt.Sprintf("f%du,f%dd,e%d", s.id, s.id, s.id))
		return true
	}
	for i, l := range letters {
		when := fmt.Sprintf("after event %d (%s)", i+1, l)
		ok := true
		switch l {
		case "S", "S0":
			ok = start(l == "S")
		case "X":
			s := open[len(open)-1]
			ok = xfer(s, 1+(i*37+s.id*11)%900, (i*53+s.id*7)%1200)
		case "Ec":
			ok = end(0, true)
		case "Es":
			ok = end(len(open)-1, false)
		case "P", "Z":
			settle() // the epoch closes what has been counted, not less
			c05Epoch(out, ps, b, l == "P", g0, when, replay)
			groups = append(groups, strings.ToLower(l))
		}
		if !ok {
			abandoned = true
			break
		}
		have := settle()
		if !c05CheckPS(out, b, have, when, replay) {
			// reported; what follows in this history would only repeat it (after waiting 10 s each time)
			abandoned = true
			break
		}
		states = append(states, fmt.Sprintf("%d:%s", b.open, have))
		out.Count("sessions-event:" + l)
	}
	// wind down what is still open; the gauge must be back where it was
	for len(open) > 0 {
		if !end(0, true) {
			abandoned = true
			break
		}
		if abandoned {
			continue
		}
		have := settle()
		if !c05CheckPS(out, b, have, "after the closing of the sessions left open", replay) {
			abandoned = true
			continue
		}
		states = append(states, fmt.Sprintf("%d:%s", b.open, have))
	}
	if !abandoned {
		out.Checked()
		if !c05WaitGoroutines(base) {
			fail("goroutine-leak", fmt.Sprintf("goroutines before %d, after %d", base, runtime.NumGoroutine()))
		}
		out.Case("sessions|"+strings.Join(groups, ";"), strings.Join(states, ";"), true)
	}
	return !abandoned
}

// c05SessEnabled: can letter l follow a history that has `open` sessions open?
func c05SessEnabled(l string, open int) (bool, int) {
	switch l {
	case "S", "S0":
		return open < 3, open + 1
	case "X":
		return open > 0, open
	case "Ec", "Es":
		return open > 0, open - 1
	}
	return true, open
}

func c05StatsSessions(out *vlib.Out) {
	ln, err := net.Listen("tcp", "127.0.0.1:0")
	if err != nil {
		panic(err)
	}
	defer ln.Close()
	maxLen := c05Depth(3, 4) // a depth: see c05StatsCalls
	bad := 0 // histories on which an oracle failed: each costs up to 10 s of waiting, three are enough
	// corpus: the shapes worth naming
	for _, h := range [][]string{
		{"S", "P", "Ec"}, {"S", "Z", "Es"}, {"S0", "P", "Ec", "P"}, {"S", "S", "P", "Ec", "P", "Es", "P"},
		{"S", "X", "P", "X", "Ec", "P"}, {"S", "S0", "S", "Z", "Ec", "Ec", "Ec", "P"},
	} {
		if bad <= 2 && !runC05Sessions(out, ln, h) {
			bad++
		}
	}
	var rec func(prefix []string, open int)
	rec = func(prefix []string, open int) {
		if bad > 2 {
			return
		}
		// only maximal histories and those that end with an epoch or an end (their prefixes are checked on the way)
		if n := len(prefix); n > 0 && (n == maxLen || prefix[n-1] == "P" || prefix[n-1] == "Z" || strings.HasPrefix(prefix[n-1], "E")) {
			if !runC05Sessions(out, ln, prefix) {
				bad++
			}
		}
		if len(prefix) == maxLen {
			return
		}
		for _, l := range c05SessAlphabet {
			if ok, o := c05SessEnabled(l, open); ok {
				rec(append(append([]string(nil), prefix...), l), o)
			}
		}
	}
	rec(nil, 0)
	r := vlib.NewRand("C05sessions")
	for i, n := 0, vlib.Budget(60, 600); i < n && bad <= 2; i++ {
		var letters []string
		open := 0
		for j, k := 0, r.Range(4, 14); j < k; j++ {
			l := c05SessAlphabet[r.Intn(len(c05SessAlphabet))]
			if ok, o := c05SessEnabled(l, open); ok {
				letters = append(letters, l)
				open = o
			}
		}
		if !runC05Sessions(out, ln, letters) {
			bad++
		}
	}
}

// c05StatsReplay re-runs a `statsepoch|…` or `sessions-scenario …` line of a replay file.
func c05StatsReplay(out *vlib.Out, line string) bool {
	switch {
	case strings.HasPrefix(line, "statsepoch|"):
		runC05Calls(out, strings.Split(strings.TrimPrefix(line, "statsepoch|"), ","))
		fmt.Println("REPLAY", line)
		return true
	case strings.HasPrefix(line, "sessions-scenario "):
		ln, err := net.Listen("tcp", "127.0.0.1:0")
		if err != nil {
			panic(err)
		}
		defer ln.Close()
		runC05Sessions(out, ln, strings.Split(strings.TrimPrefix(line, "sessions-scenario "), ","))
		fmt.Println("REPLAY", line)
		return true
	}
	return false
}
