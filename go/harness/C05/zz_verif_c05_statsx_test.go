//go:build verif

package lib

// Regenerates lean/CJ/Gen/StatsShape.lean: for every statistics module the station's stats loop prints
// and resets each epoch (ProxyStats, Stats, RegistrationStats in pkg/station/lib; connStats in
// cmd/application) the int64 fields, what the module's RESET PATH does to them, and every atomic add.
//
// A field that some method decrements is a level (a gauge of things in flight: open proxy sessions,
// connections in a state, valid registrations), not an epoch count; a reset that zeroes it forgets what is
// in flight at that moment.  Which fields the reset zeroes can only be seen by running an epoch while
// something is in flight, or by reading the source: this is the reading (standard library only).
//
//   fields         paths of the int64 fields reachable from the module's struct: `name`, `sub.name` through a
//                  field of a package-local struct type, promoted names of an embedded struct, `m[].name`
//                  through a map / slice of (pointers to) a package-local struct
//   resetStores    (path, value) for every atomic.StoreInt64(&recv.path, value) in the methods reachable from
//                  Reset / PrintAndReset through calls on the same receiver (reset, resetConnecting, …)
//   resetReplaces  fields assigned wholesale on that path (`recv.m = make(…)`: a table thrown away)
//   adds           (method, path, sign) for every atomic.AddInt64(&recv.path, d) in a method of the module:
//                  sign `+` (positive literal), `-` (negative literal, or a product with one), `v` (anything else)
//   storesElsewhere (method, path) for atomic.StoreInt64 on a field outside the reset path

import (
	"fmt"
	"go/ast"
	"go/parser"
	"go/token"
	"os"
	"path/filepath"
	"sort"
	"strings"
	"testing"
)

type c05sxPkg struct {
	structs map[string]*ast.StructType
	methods map[string]map[string]*ast.FuncDecl // receiver type -> method name -> decl
}

func c05sxLoad(dir string) (*c05sxPkg, error) {
	fset := token.NewFileSet()
	pkgs, err := parser.ParseDir(fset, dir, func(fi os.FileInfo) bool { return !strings.HasSuffix(fi.Name(), "_test.go") }, 0)
	if err != nil {
		return nil, err
	}
	p := &c05sxPkg{structs: map[string]*ast.StructType{}, methods: map[string]map[string]*ast.FuncDecl{}}
	for _, pkg := range pkgs {
		for _, f := range pkg.Files {
			for _, d := range f.Decls {
				switch d := d.(type) {
				case *ast.GenDecl:
					for _, s := range d.Specs {
						if ts, ok := s.(*ast.TypeSpec); ok {
							if st, ok := ts.Type.(*ast.StructType); ok {
								p.structs[ts.Name.Name] = st
							}
						}
					}
				case *ast.FuncDecl:
					if d.Recv == nil || len(d.Recv.List) != 1 || d.Body == nil {
						continue
					}
					t := d.Recv.List[0].Type
					if s, ok := t.(*ast.StarExpr); ok {
						t = s.X
					}
					if id, ok := t.(*ast.Ident); ok {
						if p.methods[id.Name] == nil {
							p.methods[id.Name] = map[string]*ast.FuncDecl{}
						}
						p.methods[id.Name][d.Name.Name] = d
					}
				}
			}
		}
	}
	return p, nil
}

// localStruct: the package-local struct type an expression names, through pointers.
func (p *c05sxPkg) localStruct(e ast.Expr) (string, bool) {
	for {
		switch t := e.(type) {
		case *ast.StarExpr:
			e = t.X
			continue
		case *ast.Ident:
			_, ok := p.structs[t.Name]
			return t.Name, ok
		}
		return "", false
	}
}

func (p *c05sxPkg) fieldPaths(typ, prefix string, depth int, out *[]string) {
	st := p.structs[typ]
	if st == nil || depth > 3 {
		return
	}
	for _, f := range st.Fields.List {
		if id, ok := f.Type.(*ast.Ident); ok && id.Name == "int64" {
			for _, n := range f.Names {
				*out = append(*out, prefix+n.Name)
			}
			continue
		}
		if name, ok := p.localStruct(f.Type); ok {
			if len(f.Names) == 0 { // embedded: promoted
				p.fieldPaths(name, prefix, depth+1, out)
			}
			for _, n := range f.Names {
				p.fieldPaths(name, prefix+n.Name+".", depth+1, out)
			}
			continue
		}
		var elem ast.Expr
		switch t := f.Type.(type) {
		case *ast.MapType:
			elem = t.Value
		case *ast.ArrayType:
			elem = t.Elt
		}
		if elem != nil {
			if name, ok := p.localStruct(elem); ok {
				for _, n := range f.Names {
					p.fieldPaths(name, prefix+n.Name+"[].", depth+1, out)
				}
			}
		}
	}
}

// c05sxPath: the selector path of e relative to the receiver `recv` (`recv.a.b` -> "a.b",
// `recv.m[k].c` -> "m[].c"); ok=false when e is not rooted in the receiver.
func c05sxPath(e ast.Expr, recv string) (string, bool) {
	switch t := e.(type) {
	case *ast.ParenExpr:
		return c05sxPath(t.X, recv)
	case *ast.Ident:
		if t.Name == recv {
			return "", true
		}
	case *ast.SelectorExpr:
		if p, ok := c05sxPath(t.X, recv); ok {
			if p == "" {
				return t.Sel.Name, true
			}
			if strings.HasSuffix(p, "[]") {
				return p + "." + t.Sel.Name, true
			}
			return p + "." + t.Sel.Name, true
		}
	case *ast.IndexExpr:
		if p, ok := c05sxPath(t.X, recv); ok {
			return p + "[]", true
		}
	case *ast.StarExpr:
		return c05sxPath(t.X, recv)
	}
	return "", false
}

func c05sxSign(e ast.Expr) string {
	switch t := e.(type) {
	case *ast.ParenExpr:
		return c05sxSign(t.X)
	case *ast.BasicLit:
		if t.Kind == token.INT && strings.Trim(t.Value, "0_") != "" {
			return "+"
		}
	case *ast.UnaryExpr:
		if t.Op == token.SUB {
			switch c05sxSign(t.X) {
			case "+":
				return "-"
			case "-":
				return "+"
			}
			return "-" // the negation of a quantity: the field goes down
		}
	case *ast.BinaryExpr:
		if t.Op == token.MUL {
			a, b := c05sxSign(t.X), c05sxSign(t.Y)
			if a == "-" || b == "-" {
				return "-"
			}
		}
	case *ast.CallExpr: // int64(x)
		if id, ok := t.Fun.(*ast.Ident); ok && id.Name == "int64" && len(t.Args) == 1 {
			return c05sxSign(t.Args[0])
		}
	}
	return "v"
}

type c05sxMod struct {
	name, dir                       string
	fields                          []string
	resetStores                     [][2]string
	resetReplaces                   []string
	adds                            [][3]string
	storesElsewhere                 [][2]string
	resetMethods                    []string
}

func c05sxAtomic(c *ast.CallExpr) (fn string, target ast.Expr, arg ast.Expr, ok bool) {
	sel, isSel := c.Fun.(*ast.SelectorExpr)
	if !isSel {
		return
	}
	pk, isId := sel.X.(*ast.Ident)
	if !isId || pk.Name != "atomic" || len(c.Args) != 2 {
		return
	}
	u, isU := c.Args[0].(*ast.UnaryExpr)
	if !isU || u.Op != token.AND {
		return
	}
	return sel.Sel.Name, u.X, c.Args[1], true
}

func (p *c05sxPkg) module(name string) (*c05sxMod, error) {
	if p.structs[name] == nil {
		return nil, fmt.Errorf("statistics module %s: struct type not found", name)
	}
	m := &c05sxMod{name: name}
	p.fieldPaths(name, "", 0, &m.fields)
	ms := p.methods[name]
	// ---- the reset path: methods reachable from Reset / PrintAndReset through calls on the receiver
	onPath := map[string]bool{}
	var visit func(string)
	visit = func(mn string) {
		fd := ms[mn]
		if fd == nil || onPath[mn] {
			return
		}
		onPath[mn] = true
		recv := c05sxRecv(fd)
		ast.Inspect(fd.Body, func(n ast.Node) bool {
			if c, ok := n.(*ast.CallExpr); ok {
				if sel, ok := c.Fun.(*ast.SelectorExpr); ok {
					if id, ok := sel.X.(*ast.Ident); ok && id.Name == recv && recv != "" {
						visit(sel.Sel.Name)
					}
				}
			}
			return true
		})
	}
	if ms["Reset"] == nil && ms["PrintAndReset"] == nil {
		return nil, fmt.Errorf("statistics module %s has neither Reset nor PrintAndReset", name)
	}
	for _, root := range []string{"Reset", "PrintAndReset", "PrintStats", "ResetAll"} {
		visit(root)
	}
	for mn := range onPath {
		m.resetMethods = append(m.resetMethods, mn)
	}
	sort.Strings(m.resetMethods)
	var names []string
	for mn := range ms {
		names = append(names, mn)
	}
	sort.Strings(names)
	for _, mn := range names {
		fd := ms[mn]
		recv := c05sxRecv(fd)
		if recv == "" {
			continue
		}
		ast.Inspect(fd.Body, func(n ast.Node) bool {
			switch t := n.(type) {
			case *ast.CallExpr:
				fn, target, arg, ok := c05sxAtomic(t)
				if !ok {
					return true
				}
				path, rooted := c05sxPath(target, recv)
				if !rooted {
					return true
				}
				switch fn {
				case "AddInt64":
					m.adds = append(m.adds, [3]string{mn, path, c05sxSign(arg)})
				case "StoreInt64", "SwapInt64", "CompareAndSwapInt64":
					if onPath[mn] {
						v := "?"
						if bl, ok := arg.(*ast.BasicLit); ok {
							v = bl.Value
						}
						m.resetStores = append(m.resetStores, [2]string{path, v})
					} else {
						m.storesElsewhere = append(m.storesElsewhere, [2]string{mn, path})
					}
				}
			case *ast.AssignStmt:
				if !onPath[mn] {
					return true
				}
				for _, l := range t.Lhs {
					if path, rooted := c05sxPath(l, recv); rooted && path != "" {
						m.resetReplaces = append(m.resetReplaces, path)
					}
				}
			case *ast.IncDecStmt:
				if path, rooted := c05sxPath(t.X, recv); rooted && path != "" {
					sign := "+"
					if t.Tok == token.DEC {
						sign = "-"
					}
					m.adds = append(m.adds, [3]string{mn, path, sign})
				}
			}
			return true
		})
	}
	// an embedded struct replaced wholesale (`recv.connectingCounts = connectingCounts{}`): its promoted
	// fields are what is replaced
	var repl []string
	for _, r := range m.resetReplaces {
		expanded := false
		for _, f := range p.structs[name].Fields.List {
			if len(f.Names) != 0 {
				continue
			}
			if en, ok := p.localStruct(f.Type); ok && en == r {
				var leaves []string
				p.fieldPaths(en, "", 1, &leaves)
				repl = append(repl, leaves...)
				expanded = true
			}
		}
		if !expanded {
			repl = append(repl, r)
		}
	}
	m.resetReplaces = repl
	return m, nil
}

func c05sxRecv(fd *ast.FuncDecl) string {
	if fd.Recv == nil || len(fd.Recv.List) != 1 || len(fd.Recv.List[0].Names) != 1 {
		return ""
	}
	return fd.Recv.List[0].Names[0].Name
}

func c05sxDedup3(xs [][3]string) [][3]string {
	seen := map[[3]string]bool{}
	var out [][3]string
	for _, x := range xs {
		if !seen[x] {
			seen[x] = true
			out = append(out, x)
		}
	}
	return out
}

func TestVerifStatsShapeExtract(t *testing.T) {
	root := os.Getenv("VERIF_SCRATCH_REPO")
	if root == "" {
		root = "../../.."
	}
	type want struct{ dir, name string }
	var mods []*c05sxMod
	for _, w := range []want{
		{"pkg/station/lib", "ProxyStats"},
		{"pkg/station/lib", "Stats"},
		{"pkg/station/lib", "RegistrationStats"},
		{"cmd/application", "connStats"},
	} {
		p, err := c05sxLoad(filepath.Join(root, w.dir))
		if err != nil {
			t.Fatal(err)
		}
		m, err := p.module(w.name)
		if err != nil {
			t.Fatal(err)
		}
		m.dir = w.dir
		mods = append(mods, m)
	}
	q := func(s string) string { return "\"" + strings.ReplaceAll(strings.ReplaceAll(s, "\\", "\\\\"), "\"", "\\\"") + "\"" }
	strs := func(xs []string) string {
		var o []string
		for _, x := range xs {
			o = append(o, q(x))
		}
		return "[" + strings.Join(o, ", ") + "]"
	}
	var b strings.Builder
	b.WriteString("import CJ.Model.StatsEpoch\n")
	b.WriteString("/-! GENERATED on every run by go/harness/C05/zz_verif_c05_statsx_test.go from the sources of the tree under check\n(pkg/station/lib, cmd/application): the statistics modules the stats loop prints and resets each epoch —\ntheir int64 fields, what the reset path (Reset / PrintAndReset and the receiver methods they call) stores\nand replaces, and every atomic add with its sign.  Do not edit. -/\n")
	b.WriteString("namespace CJ.Gen\nopen CJ.StatsEpoch\n\n")
	b.WriteString("def statsMods : List StatsMod := [\n")
	for i, m := range mods {
		b.WriteString("  { name := " + q(m.name) + ", dir := " + q(m.dir) + ",\n")
		b.WriteString("    fields := " + strs(m.fields) + ",\n")
		b.WriteString("    resetMethods := " + strs(m.resetMethods) + ",\n")
		var rs []string
		for _, x := range m.resetStores {
			rs = append(rs, "("+q(x[0])+", "+q(x[1])+")")
		}
		b.WriteString("    resetStores := [" + strings.Join(rs, ", ") + "],\n")
		b.WriteString("    resetReplaces := " + strs(m.resetReplaces) + ",\n")
		var as []string
		if len(m.adds) > 100 {
			// a module with hundreds of adds (connStats: ~30 transitions x 2 families x 2 tables): per path and sign
			for i := range m.adds {
				m.adds[i][0] = "*"
			}
		}
		for _, x := range c05sxDedup3(m.adds) {
			as = append(as, "("+q(x[0])+", "+q(x[1])+", "+q(x[2])+")")
		}
		b.WriteString("    adds := [" + strings.Join(as, ",\n      ") + "],\n")
		var se []string
		for _, x := range m.storesElsewhere {
			se = append(se, "("+q(x[0])+", "+q(x[1])+")")
		}
		b.WriteString("    storesElsewhere := [" + strings.Join(se, ", ") + "] }")
		if i+1 < len(mods) {
			b.WriteString(",")
		}
		b.WriteString("\n")
	}
	b.WriteString("]\n\nend CJ.Gen\n")
	out := os.Getenv("VERIF_OUT")
	if out == "" {
		out = os.TempDir()
	}
	if err := os.WriteFile(filepath.Join(out, "StatsShape.lean"), []byte(b.String()), 0o644); err != nil {
		t.Fatal(err)
	}
}
