//go:build verif

package lib

// C05, the PROXY-protocol line Proxy sends to the covert in front of the upload: the real writePROXYHeader
// against CJ.ProxyHeader.headerLine (line `proxyhdr|<hex of the peer address text>`), over the address texts
// net.Addr.String() produces for TCP peers (IPv4, IPv6 in every textual form, zones) and over texts
// net.SplitHostPort rejects or barely accepts.
//
// Oracle (ground truth = the ip / port the generator built the address from, not the model):
//   - an error means nothing was written to the covert (C05:header-partial-write);
//   - success means exactly one line: one Write, terminated by CRLF, no other CR / LF (C05:header-not-one-line);
//   - for a TCP peer the line is `PROXY TCP4|TCP6 <ip text> 127.0.0.1 <port> 1234` with TCP4 iff the peer is
//     an IPv4 address (C05:header-differs-from-peer).

import (
	"bytes"
	"encoding/hex"
	"fmt"
	"net"
	"strings"
	"time"

	"github.com/refraction-networking/conjure/internal/vlib"
)

type c05HdrConn struct {
	writes [][]byte
}

func (c *c05HdrConn) Read(p []byte) (int, error)         { return 0, nil }
func (c *c05HdrConn) Write(p []byte) (int, error)        { c.writes = append(c.writes, append([]byte(nil), p...)); return len(p), nil }
func (c *c05HdrConn) Close() error                       { return nil }
func (c *c05HdrConn) LocalAddr() net.Addr                { return c05Addr("10.0.0.9:41245") }
func (c *c05HdrConn) RemoteAddr() net.Addr               { return c05Addr("192.0.2.10:5000") }
func (c *c05HdrConn) SetDeadline(t time.Time) error      { return nil }
func (c *c05HdrConn) SetReadDeadline(t time.Time) error  { return nil }
func (c *c05HdrConn) SetWriteDeadline(t time.Time) error { return nil }

// c05HdrPeer: what the generator knows about an address it built from a real TCP peer (nil for other texts).
type c05HdrPeer struct {
	ip   net.IP
	zone string
	port int
}

func runC05Header(out *vlib.Out, addr string, peer *c05HdrPeer, kind string) {
	line := "proxyhdr|" + vlib.Hex([]byte(addr))
	conn := &c05HdrConn{}
	err := writePROXYHeader(conn, addr)
	var all []byte
	for _, w := range conn.writes {
		all = append(all, w...)
	}
	out.Checked()
	fail := func(sig, what string) { out.OracleFail(c05Sig(sig), what, line) }
	ans := "err"
	if err != nil {
		if len(all) > 0 {
			fail("header-partial-write", fmt.Sprintf("writePROXYHeader(%q) failed (%v) after writing %q to the covert", addr, err, all))
		}
		if peer != nil {
			fail("header-differs-from-peer", fmt.Sprintf("writePROXYHeader refuses the address of a TCP peer %q: %v", addr, err))
		}
	} else {
		ans = vlib.Hex(all)
		if !strings.ContainsAny(addr, "\r\n") {
			if len(conn.writes) != 1 || !bytes.HasSuffix(all, []byte("\r\n")) || bytes.Count(all, []byte("\n")) != 1 || bytes.Count(all, []byte("\r")) != 1 {
				fail("header-not-one-line", fmt.Sprintf("writePROXYHeader(%q) wrote %d piece(s): %q", addr, len(conn.writes), all))
			}
		}
		if peer != nil && !strings.Contains(peer.zone, ".") {
			proto, host := "TCP6", peer.ip.String()
			if peer.ip.To4() != nil {
				proto = "TCP4"
			}
			if peer.zone != "" {
				host += "%" + peer.zone
			}
			want := fmt.Sprintf("PROXY %s %s 127.0.0.1 %d 1234\r\n", proto, host, peer.port)
			if string(all) != want {
				fail("header-differs-from-peer", fmt.Sprintf("peer %s port %d: covert was sent %q, want %q", host, peer.port, all, want))
			}
		}
	}
	out.Case(line, ans, err == nil)
	out.Count("header:" + kind)
	if err != nil {
		out.Count("header:refused")
	}
}

func c05RandIP(r *vlib.Rand) net.IP {
	switch r.Intn(8) {
	case 0, 1, 2:
		return net.IPv4(byte(r.Intn(256)), byte(r.Intn(256)), byte(r.Intn(256)), byte(r.Intn(256)))
	case 3: // 4-byte form
		return net.IP{byte(r.Intn(256)), byte(r.Intn(256)), byte(r.Intn(256)), byte(r.Intn(256))}
	case 4: // long runs of zeros: "::", "::1", "a::", "a::b"
		ip := make(net.IP, 16)
		for k := r.Intn(4); k > 0; k-- {
			ip[r.Intn(16)] = byte(r.Intn(256))
		}
		return ip
	case 5: // link-local
		ip := make(net.IP, 16)
		ip[0], ip[1] = 0xfe, 0x80
		copy(ip[8:], r.Bytes(8))
		return ip
	}
	return net.IP(r.Bytes(16))
}

func c05Header(out *vlib.Out) {
	// corpus: the forms worth naming
	for _, a := range []string{"", "192.0.2.10:5000", "[2001:db8::1]:443", "2001:db8::1:443", "[::1]:80", "[::1]", "[::1]:", "::1", ":80",
		"host:", "example.com:80", "localhost:8080", "not-an-address", "a:b:c", "[a:b]:c:d", "[::1]x:80", "x[::1]:80", "::1]:80", "[::1:80",
		"[[::1]]:80", "[::1]]:80", "1.2.3.4", "1.2.3.4:", "[1.2.3.4]:5", "[fe80::1%eth0]:22", "[fe80::1%eth0.100]:22", "[::ffff:192.0.2.1]:80",
		"[]:1", ":", "[", "]", "[]", "[]:", "a]:1", "a[:1", "1.2.3.4:5:6", "[::1]:80:90", " 1.2.3.4:5", "1.2.3.4 :5"} {
		runC05Header(out, a, nil, "corpus")
	}
	r := vlib.NewRand("C05header")
	zones := []string{"", "", "", "eth0", "wlan-1", "7", "eth0.100"}
	n := vlib.Budget(1500, 20000)
	for i := 0; i < n; i++ {
		ip := c05RandIP(r)
		p := &c05HdrPeer{ip: ip, port: []int{0, 1, 80, 443, 1234, 65535, r.Intn(65536)}[r.Intn(7)]}
		if ip.To4() == nil {
			p.zone = zones[r.Intn(len(zones))]
		}
		addr := (&net.TCPAddr{IP: p.ip, Port: p.port, Zone: p.zone}).String()
		runC05Header(out, addr, p, "tcp-peer")
		// the neighbours of a well-formed address: one character struck out, doubled, or replaced
		if r.Chance(1, 2) && len(addr) > 0 {
			b := []byte(addr)
			k := r.Intn(len(b))
			switch r.Intn(3) {
			case 0:
				b = append(b[:k:k], b[k+1:]...)
			case 1:
				b = append(b[:k+1:k+1], b[k:]...)
			case 2:
				b[k] = "[]:.%0a"[r.Intn(7)]
			}
			runC05Header(out, string(b), nil, "mutated")
		}
	}
	const alpha = "[]:.%0123456789abcdef-"
	for i := 0; i < n/2; i++ {
		b := make([]byte, r.Intn(21))
		for j := range b {
			b[j] = alpha[r.Intn(len(alpha))]
			if r.Chance(1, 3) {
				b[j] = "[]:"[r.Intn(3)]
			}
		}
		runC05Header(out, string(b), nil, "random-text")
	}
}

// c05HeaderReplay re-runs a `proxyhdr|<hex>` line of a replay file.
func c05HeaderReplay(out *vlib.Out, line string) bool {
	if !strings.HasPrefix(line, "proxyhdr|") {
		return false
	}
	h := strings.TrimPrefix(line, "proxyhdr|")
	var b []byte
	if h != "-" {
		var err error
		if b, err = hex.DecodeString(h); err != nil {
			panic(err)
		}
	}
	runC05Header(out, string(b), nil, "replay")
	fmt.Println("REPLAY", line, "address", fmt.Sprintf("%q", b))
	return true
}
