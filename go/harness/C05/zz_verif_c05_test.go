//go:build verif

package lib

// Correspondence + property oracle for C05: the real halfPipe / Proxy driven by scripted,
// fault-injecting connections; the same scripts go to the Lean relay model as `halfpipe|…` and
// `proxy|…` lines.
//
// Oracle (computed from the scripts and from what the scripted connections observed, never from the
// Lean model): what the destination accepted is a prefix of what the source returned; if no write
// fault and no SetDeadline failure was injected, everything returned by the reads that were performed
// arrived (bytes that came with an error/EOF included); the byte count in tunnelStats equals the bytes
// accepted; both connections closed; the wait group released exactly once; no goroutine left.
//
// Error values: every class generalizeErr tells apart is injected through several real members that
// differ in what net.Error's Timeout() and Temporary() answer (os.ErrDeadlineExceeded bare and inside a
// *net.OpError, *net.OpError over EAGAIN / ETIMEDOUT / EINTR / ECONNRESET …, custom net.Error values with
// each of the four Timeout/Temporary combinations), one-shot and **persistent** (`!`: the connection
// answers every later call with the same error, as a connection whose deadline has passed does until the
// deadline is moved).  A direction that keeps calling a connection that fails every call is stopped by a
// call-count watchdog in the scripted connection and reported as a hang (the call never returns, nothing
// is torn down) with the script as replay.

import (
	"bytes"
	"encoding/hex"
	"encoding/json"
	"errors"
	"fmt"
	"hash/adler32"
	"io"
	golog "log"
	"net"
	"os"
	"runtime"
	"runtime/debug"
	"strconv"
	"strings"
	"sync"
	"sync/atomic"
	"syscall"
	"testing"
	"time"

	"github.com/refraction-networking/conjure/internal/vlib"
	"github.com/refraction-networking/conjure/pkg/core"
	"github.com/refraction-networking/conjure/pkg/station/log"
	"github.com/refraction-networking/conjure/pkg/transports/wrapping/min"
	pb "github.com/refraction-networking/conjure/proto"
	"google.golang.org/protobuf/proto"
)

// ---------------------------------------------------------------------------------------------
// error classes (codes of the line protocol) and the real error values injected for them.  All texts
// are free of addresses so that the answers do not depend on how generalizeErr treats endpoints (C17).

func c05Err(code, op string) error {
	sys := func(e syscall.Errno) error {
		return &net.OpError{Op: op, Net: "tcp", Err: os.NewSyscallError(op, e)}
	}
	switch {
	case code == "-":
		return nil
	case code == "eof":
		return io.EOF
	case code == "closed":
		return &net.OpError{Op: op, Net: "tcp", Err: net.ErrClosed}
	case code == "epipe":
		return sys(syscall.EPIPE)
	case code == "rst":
		return sys(syscall.ECONNRESET)
	case code == "refused":
		return sys(syscall.ECONNREFUSED)
	case code == "aborted":
		return sys(syscall.ECONNABORTED)
	case code == "unreach":
		return sys(syscall.EHOSTUNREACH)
	case code == "timeout":
		return &net.OpError{Op: op, Net: "tcp", Err: os.ErrDeadlineExceeded} // Timeout() and Temporary() both true
	case code == "dlx":
		return os.ErrDeadlineExceeded // as a wrapping connection may pass it on; Timeout() and Temporary() true
	case code == "eagain":
		return sys(syscall.EAGAIN) // Timeout() true, Temporary() true
	case code == "etimedout":
		return sys(syscall.ETIMEDOUT) // Timeout() true, Temporary() true
	case code == "net.tt":
		return &vcNetErr{"deadline passed", true, true}
	case code == "net.tf":
		return &vcNetErr{"deadline passed", true, false}
	case code == "eintr":
		return sys(syscall.EINTR) // Timeout() false, Temporary() true
	case code == "net.ft":
		return &vcNetErr{"link flapping", false, true}
	case code == "net.ff":
		return &vcNetErr{"link down", false, false}
	case code == "short":
		return io.ErrShortWrite
	case strings.HasPrefix(code, "o."):
		b, err := hex.DecodeString(code[2:])
		if err != nil {
			panic("bad error code " + code)
		}
		// the text is what matters; pick a real value with that text where one exists
		for _, e := range []error{syscall.ENETDOWN, syscall.ENOBUFS, syscall.EIO, syscall.ENOTSUP} {
			if e.Error() == string(b) {
				return e
			}
		}
		if strings.HasPrefix(string(b), "relay: ") {
			return fmt.Errorf("relay: %w", errors.New(string(b)[7:]))
		}
		return errors.New(string(b))
	}
	panic("bad error code " + code)
}

var c05OtherTexts = []string{syscall.ENETDOWN.Error(), syscall.ENOBUFS.Error(), syscall.EIO.Error(), "relay: broken framing", "weird failure", "timeout"}

func c05Other(i int) string {
	return "o." + hex.EncodeToString([]byte(c05OtherTexts[i%len(c05OtherTexts)]))
}

// ---------------------------------------------------------------------------------------------
// scripts

type c05Read struct {
	data  []byte
	err   string // code
	claim int    // > 0: the reader claims this many bytes (non-conforming reader, > len(buf))
	block bool   // Proxy scenarios: wait until the connection is closed, then answer `closed`
	waitGot int  // Proxy scenarios (duplex): wait until this connection has accepted that many bytes
	sticky bool  // the error persists: every later Read answers (0, the same error)
}
type c05Write struct {
	accept int
	err    string
	sticky bool // the error persists: every later Write answers (0, the same error)
}

// c05Hang is what a scripted connection panics with when a direction keeps calling it although it has
// failed every call for c05SpinLimit calls in a row: halfPipe would never return.
type c05Hang struct{ what string }

const c05SpinLimit = 1000
type c05Script struct {
	up       bool
	reads    []c05Read
	writes   []c05Write
	dls      []string // per setConnDeadline call: 1 ok, 0 fails, u1/u0 SetDeadline answers ENOTSUP and SetReadDeadline succeeds/fails
	srcClose string
	dstClose string
}

func (s *c05Script) fields() string {
	var rs, ws, ds []string
	for _, r := range s.reads {
		d := r.data
		if r.claim > 0 {
			d = make([]byte, r.claim)
			copy(d, r.data)
		}
		e := r.err
		if r.block {
			e = "closed"
		}
		if r.sticky && e != "-" {
			e += "!"
		}
		rs = append(rs, vlib.Hex(d)+":"+e)
	}
	for _, w := range s.writes {
		e := w.err
		if w.sticky && e != "-" {
			e += "!"
		}
		ws = append(ws, fmt.Sprintf("%d:%s", w.accept, e))
	}
	ds = append(ds, s.dls...)
	return strings.Join(rs, ";") + "|" + strings.Join(ws, ";") + "|" + strings.Join(ds, ",") + "|" + s.srcClose + "|" + s.dstClose
}

func (s *c05Script) line() string { return "halfpipe|" + vlib.B(s.up) + "|" + s.fields() }

func c05ParseFields(f []string) (*c05Script, error) {
	if len(f) != 5 {
		return nil, fmt.Errorf("want 5 script fields, got %d", len(f))
	}
	s := &c05Script{srcClose: f[3], dstClose: f[4]}
	if f[0] != "" {
		for _, e := range strings.Split(f[0], ";") {
			p := strings.Split(e, ":")
			if len(p) != 2 {
				return nil, fmt.Errorf("bad read %q", e)
			}
			var d []byte
			if p[0] != "-" {
				var err error
				if d, err = hex.DecodeString(p[0]); err != nil {
					return nil, err
				}
			}
			r := c05Read{data: d, err: strings.TrimSuffix(p[1], "!"), sticky: strings.HasSuffix(p[1], "!")}
			if len(d) > 32*1024 {
				r.claim = len(d)
			}
			s.reads = append(s.reads, r)
		}
	}
	if f[1] != "" {
		for _, e := range strings.Split(f[1], ";") {
			p := strings.Split(e, ":")
			if len(p) != 2 {
				return nil, fmt.Errorf("bad write %q", e)
			}
			n, err := strconv.Atoi(p[0])
			if err != nil {
				return nil, err
			}
			s.writes = append(s.writes, c05Write{n, strings.TrimSuffix(p[1], "!"), strings.HasSuffix(p[1], "!")})
		}
	}
	if f[2] != "" {
		for _, e := range strings.Split(f[2], ",") {
			if e != "1" && e != "0" && e != "u1" && e != "u0" {
				return nil, fmt.Errorf("bad deadline result %q", e)
			}
			s.dls = append(s.dls, e)
		}
	}
	return s, nil
}

// ---------------------------------------------------------------------------------------------
// scripted connection

type c05World struct {
	mu      sync.Mutex
	trace   []string
	dls     []string
	dlIdx   int
	dlFault bool
	lastNr  int // nr of the last read (what halfPipe compares nw with)
}

type c05Addr string

func (a c05Addr) Network() string { return "tcp" }
func (a c05Addr) String() string  { return string(a) }

type c05Conn struct {
	w          *c05World
	isSrc      bool
	quiet      bool // Proxy scenarios: do not record the trace (shared by two directions)
	reads      []c05Read
	ri         int
	writes     []c05Write
	wi         int
	failAt     int // Proxy scenarios: total bytes accepted before the writer falls short (-1 = never)
	got        []byte
	returned   [][]byte // data of each performed read
	readErrs   int
	writeFault bool
	closeErr   string
	closes     int32
	closedCh   chan struct{}
	closeOnce  sync.Once
	remote     net.Addr
	pendingFB  string // the SetDeadline just answered ENOTSUP: result the SetReadDeadline fallback will give
	watchBuf   bool   // Proxy scenarios (duplex): check that the caller leaves p alone while Write runs
	bufChanged bool
	stuckRead  string // a persistent read error has been returned: every Read answers it again
	stuckWrite string
	spin       int // calls answered with a persistent error
	onRead     func() // called at the start of every Read (runC05: where a statistics epoch may end)
}

func newC05Conn(w *c05World, isSrc bool) *c05Conn {
	return &c05Conn{w: w, isSrc: isSrc, failAt: -1, closeErr: "-", closedCh: make(chan struct{}), remote: c05Addr("192.0.2.10:5000")}
}

func (c *c05Conn) isClosed() bool {
	select {
	case <-c.closedCh:
		return true
	default:
		return false
	}
}

func (c *c05Conn) ev(s string) {
	if c.quiet {
		return
	}
	c.w.mu.Lock()
	c.w.trace = append(c.w.trace, s)
	c.w.mu.Unlock()
}

func (c *c05Conn) Read(p []byte) (int, error) {
	if c.onRead != nil {
		c.onRead()
	}
	if c.quiet && c.isClosed() {
		return 0, c05Err("closed", "read")
	}
	if c.stuckRead != "" {
		if c.spin++; c.spin > c05SpinLimit {
			panic(c05Hang{fmt.Sprintf("Read has answered %q %d times in a row and is still being called", c05Err(c.stuckRead, "read").Error(), c.spin)})
		}
		c.ev("r0e")
		c.w.mu.Lock()
		c.readErrs++
		c.w.mu.Unlock()
		return 0, c05Err(c.stuckRead, "read")
	}
	if c.ri >= len(c.reads) {
		c.ev("r0e")
		c.w.mu.Lock()
		c.returned = append(c.returned, nil)
		c.readErrs++
		c.w.mu.Unlock()
		return 0, io.EOF
	}
	r := c.reads[c.ri]
	c.ri++
	for r.waitGot > 0 && !c.isClosed() {
		c.w.mu.Lock()
		n := len(c.got)
		c.w.mu.Unlock()
		if n >= r.waitGot {
			break
		}
		time.Sleep(50 * time.Microsecond)
	}
	if r.block {
		<-c.closedCh
		c.w.mu.Lock()
		c.returned = append(c.returned, nil)
		c.readErrs++
		c.w.mu.Unlock()
		return 0, c05Err("closed", "read")
	}
	n := copy(p, r.data)
	if n < len(r.data) {
		panic("c05: scripted read larger than the buffer")
	}
	claimed := n
	d := r.data
	if r.claim > 0 {
		claimed = r.claim
		d = make([]byte, r.claim)
		copy(d, p) // the reader "returns" the buffer contents beyond what it wrote
		d = d[:len(p)]
	}
	err := c05Err(r.err, "read")
	if err != nil && r.sticky {
		c.stuckRead = r.err
	}
	c.w.mu.Lock()
	c.returned = append(c.returned, d)
	c.w.lastNr = claimed
	if err != nil {
		c.readErrs++
	}
	c.w.mu.Unlock()
	if err != nil {
		c.ev(fmt.Sprintf("r%de", claimed))
	} else {
		c.ev(fmt.Sprintf("r%d", claimed))
	}
	return claimed, err
}

func (c *c05Conn) Write(p []byte) (int, error) {
	if c.quiet && c.isClosed() {
		return 0, c05Err("closed", "write")
	}
	if c.stuckWrite != "" {
		if c.spin++; c.spin > c05SpinLimit {
			panic(c05Hang{fmt.Sprintf("Write has answered %q %d times in a row and is still being called", c05Err(c.stuckWrite, "write").Error(), c.spin)})
		}
		c.writeFault = true
		c.ev(fmt.Sprintf("w%d/0e", len(p)))
		return 0, c05Err(c.stuckWrite, "write")
	}
	accept, code := 32*1024, "-"
	if c.failAt >= 0 {
		c.w.mu.Lock()
		room := c.failAt - len(c.got)
		c.w.mu.Unlock()
		if room < len(p) {
			accept = room
		}
	} else if c.wi < len(c.writes) {
		accept, code = c.writes[c.wi].accept, c.writes[c.wi].err
		if c.writes[c.wi].sticky && code != "-" {
			c.stuckWrite = code
		}
		c.wi++
	}
	n := accept
	if n > len(p) {
		n = len(p)
	}
	if c.watchBuf {
		// io.Writer: the caller must not touch p until Write returns. Give the other direction time to
		// run; a relay buffer shared by the two directions is overwritten by its next Read meanwhile.
		snap := append([]byte(nil), p...)
		for i := 0; i < 4; i++ {
			runtime.Gosched()
		}
		time.Sleep(20 * time.Microsecond)
		if !bytes.Equal(snap, p) {
			c.w.mu.Lock()
			c.bufChanged = true
			c.w.mu.Unlock()
		}
		p = snap
	}
	c.w.mu.Lock()
	c.got = append(c.got, p[:n]...)
	nr := c.w.lastNr
	c.w.mu.Unlock()
	if c.quiet {
		nr = len(p)
	}
	err := c05Err(code, "write")
	if err != nil || n != nr {
		c.writeFault = true
		c.ev(fmt.Sprintf("w%d/%de", len(p), n))
	} else {
		c.ev(fmt.Sprintf("w%d/%d", len(p), n))
	}
	return n, err
}

func (c *c05Conn) Close() error {
	atomic.AddInt32(&c.closes, 1)
	c.closeOnce.Do(func() { close(c.closedCh) })
	return c05Err(c.closeErr, "close")
}

func (c *c05Conn) LocalAddr() net.Addr  { return c05Addr("10.0.0.9:41245") }
func (c *c05Conn) RemoteAddr() net.Addr { return c.remote }

func (c *c05Conn) SetDeadline(t time.Time) error {
	if c.quiet {
		if c.isClosed() {
			return c05Err("closed", "set")
		}
		return nil
	}
	c.w.mu.Lock()
	defer c.w.mu.Unlock()
	res := "1"
	if c.w.dlIdx < len(c.w.dls) {
		res = c.w.dls[c.w.dlIdx]
	}
	c.w.dlIdx++
	who := "dd"
	if c.isSrc {
		who = "ds"
	}
	switch res {
	case "1":
		c.w.trace = append(c.w.trace, who+"1")
		return nil
	case "0":
		c.w.dlFault = true
		c.w.trace = append(c.w.trace, who+"0")
		return &net.OpError{Op: "set", Net: "tcp", Err: syscall.EINVAL}
	}
	// an obfs4-style connection: only read deadlines are supported
	c.pendingFB = res
	return syscall.ENOTSUP
}

func (c *c05Conn) SetReadDeadline(t time.Time) error {
	if c.quiet {
		return nil
	}
	c.w.mu.Lock()
	defer c.w.mu.Unlock()
	if c.pendingFB == "" {
		return nil
	}
	who := "dd"
	if c.isSrc {
		who = "ds"
	}
	ok := c.pendingFB == "u1"
	c.pendingFB = ""
	c.w.trace = append(c.w.trace, who+vlib.B(ok)+"f")
	if !ok {
		c.w.dlFault = true
		return &net.OpError{Op: "set", Net: "tcp", Err: syscall.EINVAL}
	}
	return nil
}
func (c *c05Conn) SetWriteDeadline(t time.Time) error { return nil }

// ---------------------------------------------------------------------------------------------
// running one script against the real halfPipe

func c05WaitGoroutines(base int) bool {
	for i := 0; i < 200000; i++ {
		if runtime.NumGoroutine() <= base {
			return true
		}
		if i < 1000 {
			runtime.Gosched()
		} else {
			time.Sleep(50 * time.Microsecond)
		}
	}
	return false
}

type c05LogCounter struct{ n int32 }

func (l *c05LogCounter) Write(p []byte) (int, error) {
	atomic.AddInt32(&l.n, int32(bytes.Count(p, []byte("error setting deadline"))))
	return len(p), nil
}

func c05Tag(up bool) string {
	if up {
		return "Up 0011223344556677"
	}
	return "Down 0011223344556677"
}

func c05Sig(kind string) string { return "C05:" + kind }

// c05SourceStream is the ground truth of one direction's source: the bytes the scripted source delivers up to
// and including its first read with an end/error indication (the bytes that come with the indication
// included), and the number of Read calls that takes (len(reads)+1 when no scripted read carries an
// indication: the connection then answers EOF to the call after the last scripted one).
func c05SourceStream(reads []c05Read) ([]byte, int) {
	var truth []byte
	for i, r := range reads {
		truth = append(truth, r.data...)
		if r.err != "-" || r.block {
			return truth, i + 1
		}
	}
	return truth, len(reads) + 1
}

// runC05 executes one script; returns the implementation's canonical answer.
func runC05(out *vlib.Out, s *c05Script) string {
	w := &c05World{dls: s.dls}
	src, dst := newC05Conn(w, true), newC05Conn(w, false)
	src.reads, dst.writes = s.reads, s.writes
	src.closeErr, dst.closeErr = s.srcClose, s.dstClose
	lc := &c05LogCounter{}
	logger := log.New(lc, "", 0)
	stats := &tunnelStats{proxyStats: &ProxyStats{}}
	// Statistics epochs while the direction runs (zz_verif_c05_stats_test.go has the histories proper): the
	// session this direction belongs to is open — addSession before, removeSession after, as Proxy does —
	// and, depending on the script, the stats loop ends an epoch before the second read / before every read
	// (PrintAndReset) or before the last read (Reset).  What the closed epochs had counted is added back
	// before the seven counters are compared below; the gauge must show the open session throughout.
	var epochSum [7]int64
	epochMode := (len(s.reads) + 2*len(s.writes) + 3*len(s.dls)) % 4
	if s.up {
		epochMode = (epochMode + 1) % 4
	}
	stats.proxyStats.addSession()
	readCalls := 0
	src.onRead = func() {
		readCalls++
		if !(epochMode == 2 || (epochMode == 1 && readCalls == 2) || (epochMode == 3 && readCalls == len(s.reads))) {
			return
		}
		bk := &c05Book{open: 1}
		before := c05LoadPS(stats.proxyStats)
		for k := 0; k < 7; k++ {
			bk.epoch[k], bk.total[k] = before[k+1], before[k+1]
			epochSum[k] += before[k+1]
		}
		when := fmt.Sprintf("epoch boundary before read call %d of the direction", readCalls)
		c05Epoch(out, stats.proxyStats, bk, epochMode != 3, 0, when, s.line())
		c05CheckPS(out, bk, c05LoadPS(stats.proxyStats), when, s.line())
	}
	var wg sync.WaitGroup
	wg.Add(1)
	base := runtime.NumGoroutine()
	panicked, hung := "", ""
	func() {
		defer func() {
			if r := recover(); r != nil {
				if h, ok := r.(c05Hang); ok {
					hung = h.what
					return
				}
				panicked = fmt.Sprint(r)
			}
		}()
		halfPipe(src, dst, &wg, logger, c05Tag(s.up), stats)
	}()
	fail := func(kind, what string) { out.OracleFail(c05Sig(kind), what, s.line()) }
	if hung != "" {
		// the watchdog of the scripted connection stopped a direction that would never have returned: a
		// connection that fails every call (a deadline that has passed, a broken socket) must end the
		// direction at the first failure
		out.Checked()
		fail("hang", "halfPipe does not return, nothing is torn down: "+hung)
		c05WaitGoroutines(base)
		return "hang"
	}
	if panicked != "" {
		fail("panic", "halfPipe panicked: "+panicked)
		return "panic"
	}
	// wait group released exactly once (Add(1) above): one more Done must make the counter negative,
	// which panics; a second Done inside halfPipe would already have panicked there
	done := 0
	func() {
		defer func() {
			if recover() != nil {
				done = 1
			}
		}()
		wg.Done()
	}()
	if done != 1 {
		fail("wg-not-released", "halfPipe returned without wg.Done()")
	}
	settled := c05WaitGoroutines(base)
	out.Checked()
	if !settled {
		fail("goroutine-leak", fmt.Sprintf("goroutines before %d, after %d", base, runtime.NumGoroutine()))
	}
	// ---- property oracle
	var all, performed []byte
	for _, r := range s.reads {
		all = append(all, r.data...)
	}
	w.mu.Lock()
	for _, d := range src.returned {
		if len(d) > 32*1024 {
			d = d[:32*1024]
		}
		performed = append(performed, d...)
	}
	got := append([]byte(nil), dst.got...)
	trace := strings.Join(w.trace, ",")
	dlFault := w.dlFault
	nread := len(src.returned)
	w.mu.Unlock()
	conform := true
	for _, r := range s.reads {
		if r.claim > 0 {
			conform = false
		}
	}
	if conform && !bytes.HasPrefix(all, got) {
		fail("not-a-prefix", fmt.Sprintf("destination received %d bytes that are not a prefix of the %d bytes the source returned", len(got), len(all)))
	}
	if conform && !dst.writeFault && !dlFault && !bytes.Equal(got, performed) {
		kind := "loss-without-fault"
		if nread > 0 && src.readErrs > 0 && bytes.HasPrefix(performed, got) &&
			len(performed)-len(got) == len(src.returned[nread-1]) {
			kind = "data-with-error-dropped"
		}
		fail(kind, fmt.Sprintf("no write fault and no deadline failure, %d read(s) returned %d bytes, destination received %d", nread, len(performed), len(got)))
	}
	// The same clause judged from the SCRIPT, not from the calls the direction chose to make
	// (`delivered_complete_until_fault` speaks of `consumed s.reads`): the source's stream ends where the
	// script says it does — at the first read that carries an end/error indication, or, when no scripted
	// read carries one, at the EOF the connection answers once the script is exhausted.  A read that returns
	// neither bytes nor an indication, a short read, a read of any particular size or content is NOT an end.
	// Unless a connection of the harness actually answered a call with a fault (write error / short write,
	// failing SetDeadline), every byte up to that point must have been accepted by the destination, and the
	// direction must have gone on reading until the source reported its end.
	if conform && !dst.writeFault && !dlFault {
		truth, needReads := c05SourceStream(s.reads)
		if !bytes.Equal(got, truth) && bytes.Equal(got, performed) {
			// (got != performed is the failure reported above)
			fail("ended-before-source-end", fmt.Sprintf("no write fault and no deadline failure, but the direction stopped after %d Read call(s) that returned %d bytes; the source's stream ends (first end/error indication) at Read call %d after %d bytes: %d bytes the source had still to deliver were never relayed",
				nread, len(performed), needReads, len(truth), len(truth)-len(got)))
		}
	}
	// no loss up to the point of failure (`no_loss_until_failure`): a failing write is the write of the
	// last performed read's bytes, so everything the earlier reads returned must have arrived, followed by
	// a prefix of the last read's bytes; a failing SetDeadline loses nothing that was read
	if conform && (dst.writeFault || dlFault) {
		w.mu.Lock()
		var before, last []byte
		for i, d := range src.returned {
			if i < nread-1 {
				before = append(before, d...)
			} else {
				last = d
			}
		}
		w.mu.Unlock()
		switch {
		case dst.writeFault && (!bytes.HasPrefix(got, before) || !bytes.HasPrefix(last, got[len(before):])):
			fail("loss-before-fault", fmt.Sprintf("a write failed or fell short: the %d bytes of the %d earlier read(s) and a prefix of the last read's %d bytes should have arrived, destination received %d bytes",
				len(before), nread-1, len(last), len(got)))
		case !dst.writeFault && !bytes.Equal(got, performed):
			fail("loss-before-fault", fmt.Sprintf("a SetDeadline call failed after %d read(s) had returned %d bytes, destination received %d", nread, len(performed), len(got)))
		}
	}
	counted := atomic.LoadInt64(&stats.BytesUp)
	other := atomic.LoadInt64(&stats.BytesDown)
	if !s.up {
		counted, other = other, counted
	}
	if counted != int64(len(got)) || other != 0 {
		fail("count-differs-from-delivered", fmt.Sprintf("tunnelStats counts %d (other direction %d), destination accepted %d", counted, other, len(got)))
	}
	cs, cd := atomic.LoadInt32(&src.closes), atomic.LoadInt32(&dst.closes)
	if cs < 1 || cd < 1 {
		fail("not-closed", fmt.Sprintf("Close calls: src %d dst %d", cs, cd))
	}
	// stats.completed ran once: uploads bump completedSessions, downloads add their byte count to
	// completeBytesDown (and bump zeroByteTunnelsDown when it is zero)
	ps := stats.proxyStats
	{
		ld := atomic.LoadInt64
		b2i := func(b bool) int64 {
			if b {
				return 1
			}
			return 0
		}
		have := [7]int64{ld(&ps.newBytesUp), ld(&ps.newBytesDown), ld(&ps.completeBytesUp), ld(&ps.completeBytesDown),
			ld(&ps.zeroByteTunnelsUp), ld(&ps.zeroByteTunnelsDown), ld(&ps.completedSessions)}
		for k := range have {
			have[k] += epochSum[k] // what the epochs closed during the run had counted
		}
		ps.removeSession()
		if g := ld(&ps.sessionsProxying); g != 0 {
			fail("gauge-differs-from-open-sessions", fmt.Sprintf("after the session's removeSession the gauge of open proxy sessions shows %d (%d epoch boundaries fell into the session)", g, map[int]int{0: 0, 1: 1, 2: readCalls, 3: 1}[epochMode]))
		}
		n := int64(len(got))
		want := [7]int64{0, n, 0, n, 0, b2i(n == 0), 0}
		if s.up {
			want = [7]int64{n, 0, n, 0, b2i(n == 0), 0, 1}
		}
		if have != want {
			fail("completed-accounting-differs", fmt.Sprintf("ProxyStats after one %s direction that delivered %d bytes: newBytesUp/Down, completeBytesUp/Down, zeroByteTunnelsUp/Down, completedSessions = %v, want %v",
				map[bool]string{true: "upload", false: "download"}[s.up], n, have, want))
		}
	}
	compN := 0
	switch {
	case s.up:
		compN = int(atomic.LoadInt64(&ps.completedSessions))
	case counted == 0:
		compN = int(atomic.LoadInt64(&ps.zeroByteTunnelsDown))
	case atomic.LoadInt64(&ps.completeBytesDown) == counted:
		compN = 1
	}
	return fmt.Sprintf("T:%s|D:%s|n:%d|cli:%s|cov:%s|c:%d,%d|done:%d|comp:%d|logs:%d", trace, vlib.Hex(got), counted,
		vlib.Hex([]byte(stats.ClientConnErr)), vlib.Hex([]byte(stats.CovertConnErr)), cs, cd, done, compN, atomic.LoadInt32(&lc.n))
}

// ---------------------------------------------------------------------------------------------
// Proxy scenarios: scripted client connection, real loopback covert server

type c05Proxy struct {
	name     string
	upChunks [][]byte // what the client sends
	upLast   string   // "block": the client then waits; else the error code returned WITH the last chunk
	reply    int      // bytes the covert sends back (then it closes its sending side)
	failAt   int      // client accepts this many reply bytes, then falls short (-1: everything)
	refuse   bool     // covert port closed
	header   int      // 0 off, 1 PROXY header with a good client address, 2 with an unparsable one
	peer     int      // index into c05Peers: the text the client's RemoteAddr().String() gives (0: by `header`)
	reset    int      // > 0: the covert resets the connection after this many bytes (oracle only)
	duplex   bool     // both directions move data at the same time: the covert streams its reply from the
	// start, the i-th client read is released when the client has received i/(k+1) of the reply
}

// c05Peers: peer-address texts of the client connection and the line writePROXYHeader has to form from each
// (written out by hand; "" = the header step must refuse and no relay may start). Entry 0 is a placeholder.
var c05Peers = []struct{ addr, line string }{
	{"", ""},
	{"192.0.2.10:5000", "PROXY TCP4 192.0.2.10 127.0.0.1 5000 1234\r\n"},
	{"not-an-address", ""},
	{"[2001:db8::1]:443", "PROXY TCP6 2001:db8::1 127.0.0.1 443 1234\r\n"},
	{"[fe80::1%eth0]:8443", "PROXY TCP6 fe80::1%eth0 127.0.0.1 8443 1234\r\n"},
	{"[::ffff:192.0.2.1]:80", "PROXY TCP4 ::ffff:192.0.2.1 127.0.0.1 80 1234\r\n"}, // as written: a dot makes it TCP4
	{"", ""}, // a connection without a peer address text
	{"2001:db8::1:443", ""},
	{"192.0.2.10", ""},
	{"198.51.100.200:65535", "PROXY TCP4 198.51.100.200 127.0.0.1 65535 1234\r\n"},
	{"[::]:0", "PROXY TCP6 :: 127.0.0.1 0 1234\r\n"},
}

// peerOf: the entry of c05Peers a scenario uses (header 1 / 2 without an explicit peer: the good / the unparsable one)
func (p *c05Proxy) peerOf() (string, string) {
	i := p.peer
	if i == 0 {
		i = 1
		if p.header == 2 {
			i = 2
		}
	}
	return c05Peers[i].addr, c05Peers[i].line
}

var c05Key = bytes.Repeat([]byte{0x11, 0x22}, 16)

func c05Reg(covert string, header bool) *DecoyRegistration {
	src := pb.RegistrationSource_API
	var tr Transport = min.Transport{}
	return &DecoyRegistration{
		PhantomIp:          net.ParseIP("192.0.2.77"),
		PhantomPort:        443,
		Covert:             covert,
		Transport:          pb.TransportType_Min,
		TransportPtr:       &tr,
		RegistrationSource: &src,
		Keys:               &core.ConjureSharedKeys{SharedSecret: c05Key},
		Flags:              &pb.RegistrationFlags{ProxyHeader: proto.Bool(header)},
	}
}

func c05Pattern(n, seed int) []byte {
	b := make([]byte, n)
	for i := range b {
		b[i] = byte((i+seed)*131 + (i >> 8))
	}
	return b
}

// c05Srv is the covert destination: what it received and how its connection ended.
type c05Srv struct {
	mu       sync.Mutex
	got      []byte
	conn     net.Conn
	accepted bool
	sawClose bool // its Read ended with EOF / a reset (the proxy closed the connection), not with its own deadline
	endErr   string
}

func runC05Proxy(out *vlib.Out, p *c05Proxy) (string, string) {
	var sent []byte
	for _, c := range p.upChunks {
		sent = append(sent, c...)
	}
	peerAddr, peerLine := p.peerOf()
	headerLine := ""
	if p.header != 0 {
		headerLine = peerLine
	}
	hdrRefused := p.header != 0 && peerLine == "" // flag set and no line can be formed: no relay may start
	expect := len(headerLine) + len(sent)
	reply := c05Pattern(p.reply, 7)

	// A connection that Proxy forgets to close is closed by the finalizer of its descriptor as soon as the
	// garbage collector runs, which would hide the leak from the covert's point of view: no collection
	// while a scenario runs.
	defer debug.SetGCPercent(debug.SetGCPercent(-1))

	base := runtime.NumGoroutine()
	ln, err := net.Listen("tcp", "127.0.0.1:0")
	if err != nil {
		panic(err)
	}
	addr := ln.Addr().String()
	srv := &c05Srv{}
	srvDone := make(chan struct{})
	if p.refuse {
		ln.Close()
		close(srvDone)
	} else {
		go func() {
			defer close(srvDone)
			defer ln.Close()
			_ = ln.(*net.TCPListener).SetDeadline(time.Now().Add(40 * time.Second))
			c, err := ln.Accept()
			if err != nil {
				return
			}
			defer c.Close()
			_ = c.SetDeadline(time.Now().Add(40 * time.Second))
			srv.mu.Lock()
			srv.conn, srv.accepted = c, true
			srv.mu.Unlock()
			gotAll := make(chan struct{})
			var wdone chan struct{}
			if p.duplex {
				wdone = make(chan struct{})
				go func() { // stream the reply while the upload is still arriving
					defer close(wdone)
					if _, err := c.Write(reply); err != nil {
						return
					}
					<-gotAll
					_ = c.(*net.TCPConn).CloseWrite()
				}()
			}
			buf := make([]byte, 64*1024)
			replied, all := false, false
			for {
				srv.mu.Lock()
				n0 := len(srv.got)
				srv.mu.Unlock()
				if !all && n0 >= expect {
					all = true
					close(gotAll)
				}
				if !p.duplex && !replied && n0 >= expect && p.upLast == "block" {
					replied = true
					if _, err := c.Write(reply); err != nil {
						srv.mu.Lock() // EPIPE / reset: the other end has closed the connection
						srv.sawClose, srv.endErr = true, err.Error()
						srv.mu.Unlock()
						break
					}
					_ = c.(*net.TCPConn).CloseWrite()
				}
				n, err := c.Read(buf)
				srv.mu.Lock()
				srv.got = append(srv.got, buf[:n]...)
				total := len(srv.got)
				srv.mu.Unlock()
				if p.reset > 0 && total >= p.reset {
					_ = c.(*net.TCPConn).SetLinger(0)
					break
				}
				if err != nil {
					ne, isNet := err.(net.Error)
					srv.mu.Lock()
					srv.sawClose = !(isNet && ne.Timeout())
					srv.endErr = err.Error()
					srv.mu.Unlock()
					break
				}
			}
			if !all {
				close(gotAll)
			}
			if wdone != nil {
				c.Close()
				<-wdone
			}
		}()
	}

	w := &c05World{}
	client := newC05Conn(w, true)
	client.quiet = true
	client.failAt = p.failAt
	client.watchBuf = p.duplex
	client.remote = c05Addr(peerAddr)
	for i, c := range p.upChunks {
		r := c05Read{data: c, err: "-"}
		if i == len(p.upChunks)-1 && p.upLast != "block" {
			r.err = p.upLast
		}
		if p.duplex {
			r.waitGot = len(reply) * i / (len(p.upChunks) + 1)
		}
		client.reads = append(client.reads, r)
	}
	if p.upLast == "block" {
		client.reads = append(client.reads, c05Read{block: true})
	}
	var logbuf bytes.Buffer
	logger := log.New(&logbuf, "", 0)
	reg := c05Reg(addr, p.header != 0)
	gauge0 := atomic.LoadInt64(&getProxyStats().sessionsProxying)
	ret := make(chan string, 1)
	go func() {
		defer func() {
			if r := recover(); r != nil {
				ret <- fmt.Sprint("panic: ", r)
			}
		}()
		Proxy(reg, client, logger)
		ret <- ""
	}()
	returned, panicked := true, false
	replay := "scenario " + p.name
	fail := func(kind, what string) { out.OracleFail(c05Sig(kind), what, replay) }
	select {
	case r := <-ret:
		if r != "" {
			panicked = true
			fail("panic", r)
		}
	case <-time.After(30 * time.Second):
		returned = false
		fail("proxy-does-not-return", "Proxy had not returned after 30 s")
		client.Close()
	}
	// Proxy has returned: every Close it makes on the covert connection has been called (the deferred one
	// synchronously), so the covert sees EOF or a reset as soon as its goroutine runs; 10 s is four orders
	// of magnitude more than the loopback needs. A covert still reading after that was not closed: its
	// read is then ended from here (and reports a timeout, which is what `sawClose` tells apart).
	select {
	case <-srvDone:
	case <-time.After(10 * time.Second):
		srv.mu.Lock()
		if srv.conn != nil {
			_ = srv.conn.SetReadDeadline(time.Now())
		}
		srv.mu.Unlock()
		<-srvDone
	}
	settled := c05WaitGoroutines(base)
	out.Checked()
	gauge1 := atomic.LoadInt64(&getProxyStats().sessionsProxying)
	srvGot := srv.got

	// tunnel summary
	var ts struct {
		BytesUp, BytesDown           int64
		CovertDialErr, CovertConnErr string
		ClientConnErr                string
	}
	printed := strings.Count(logbuf.String(), "proxy closed ")
	if i := strings.Index(logbuf.String(), "proxy closed "); i >= 0 {
		js := logbuf.String()[i+len("proxy closed "):]
		if j := strings.IndexByte(js, '\n'); j >= 0 {
			js = js[:j]
		}
		_ = json.Unmarshal([]byte(js), &ts)
	}
	w.mu.Lock()
	cliGot := append([]byte(nil), client.got...)
	bufChanged := client.bufChanged
	w.mu.Unlock()
	started := atomic.LoadInt32(&client.closes) > 0 // observed: the relay ran iff it closed the client
	if started != (!p.refuse && !hdrRefused) && returned && !panicked {
		fail("not-closed", fmt.Sprintf("relay expected to run: %v, client connection closed: %v", !p.refuse && !hdrRefused, started))
	}
	if returned && !panicked && !started && len(srvGot) > 0 {
		fail("sent-without-relay", fmt.Sprintf("no relay was started (peer address %q) but the covert was sent %q", peerAddr, srvGot))
	}
	covertClosed := srv.accepted && srv.sawClose

	if returned && !panicked {
		if !settled {
			fail("goroutine-leak", fmt.Sprintf("goroutines before %d, after %d", base, runtime.NumGoroutine()))
		}
		if gauge1 != gauge0 {
			fail("gauge-unbalanced", fmt.Sprintf("sessionsProxying %d -> %d", gauge0, gauge1))
		}
		if srv.accepted && p.reset == 0 && !srv.sawClose {
			fail("covert-not-closed", fmt.Sprintf("10 s after Proxy returned the covert's connection was still open (its read was ended with %q)", srv.endErr))
		}
		if bufChanged {
			fail("buffer-changed-during-write", "the bytes handed to the client's Write changed while the call was in progress: the relay buffer is shared between the two directions")
		}
		if started {
			if atomic.LoadInt32(&client.closes) < 1 {
				fail("not-closed", "client connection was not closed")
			}
			body := srvGot
			if !bytes.HasPrefix(srvGot, []byte(headerLine)) && len(srvGot) >= len(headerLine) {
				fail("not-a-prefix", "covert did not receive the PROXY header first")
			} else if len(srvGot) >= len(headerLine) {
				body = srvGot[len(headerLine):]
			}
			if !bytes.HasPrefix(sent, body) {
				fail("not-a-prefix", fmt.Sprintf("covert received %d bytes that are not a prefix of the %d sent", len(body), len(sent)))
			}
			if !bytes.HasPrefix(reply, cliGot) {
				fail("not-a-prefix", fmt.Sprintf("client received %d bytes that are not a prefix of the %d-byte reply", len(cliGot), len(reply)))
			}
			if p.reset == 0 {
				// nothing failed on the covert side: everything the client's reads returned must arrive
				if !bytes.Equal(body, sent) {
					kind := "loss-without-fault"
					if p.upLast != "block" && len(p.upChunks) > 0 && len(sent)-len(body) == len(p.upChunks[len(p.upChunks)-1]) {
						kind = "data-with-error-dropped"
					}
					fail(kind, fmt.Sprintf("client sent %d bytes (last read: %s), covert received %d", len(sent), p.upLast, len(body)))
				}
				if ts.BytesUp != int64(len(body)) {
					fail("count-differs-from-delivered", fmt.Sprintf("BytesUp %d, covert received %d", ts.BytesUp, len(body)))
				}
				if p.upLast == "block" {
					want := len(reply)
					if p.failAt >= 0 && p.failAt < want {
						want = p.failAt
					}
					if len(cliGot) != want {
						fail("loss-without-fault", fmt.Sprintf("reply of %d bytes (client accepts %d), client received %d", len(reply), p.failAt, len(cliGot)))
					}
				}
			}
			if ts.BytesDown != int64(len(cliGot)) {
				fail("count-differs-from-delivered", fmt.Sprintf("BytesDown %d, client accepted %d", ts.BytesDown, len(cliGot)))
			}
		}
	}
	// ---- correspondence line (deterministic scenarios only)
	if p.reset > 0 {
		return "", ""
	}
	dial := "-"
	if p.refuse {
		dial = "refused"
	}
	// the header step as the model computes it: the flag and the client's peer-address text
	hd := vlib.B(p.header != 0) + "." + vlib.Hex([]byte(peerAddr))
	up := &c05Script{up: true, reads: client.reads, srcClose: "-", dstClose: "-"}
	down := &c05Script{srcClose: "-", dstClose: "-"}
	if p.upLast == "block" {
		// the reply as the covert connection's reads (any chunking gives the same totals: pieces of at most
		// one buffer), the client's writes accepting failAt bytes in all
		room := p.failAt
		for off := 0; off < len(reply); off += 32 * 1024 {
			end := off + 32*1024
			if end > len(reply) {
				end = len(reply)
			}
			down.reads = append(down.reads, c05Read{data: reply[off:end], err: "-"})
			if p.failAt >= 0 {
				acc := end - off
				if room < acc {
					acc = room
				}
				room -= acc
				down.writes = append(down.writes, c05Write{accept: acc, err: "-"})
			}
		}
		down.reads = append(down.reads, c05Read{err: "eof"})
	} else {
		down.reads = []c05Read{{err: "closed"}}
	}
	line := "proxy|" + dial + "|" + hd + "|" + up.fields() + "|" + down.fields()
	ans := fmt.Sprintf("started:%s|ret:%s|gauge:%d|printed:%d|up:%d|down:%d|dial:%s|cli:%s|cov:%s|cc:%d|vc:%s|panic:%s",
		vlib.B(started), vlib.B(returned), gauge1-gauge0, printed, ts.BytesUp, ts.BytesDown,
		vlib.Hex([]byte(ts.CovertDialErr)), vlib.Hex([]byte(ts.ClientConnErr)), vlib.Hex([]byte(ts.CovertConnErr)),
		atomic.LoadInt32(&client.closes), vlib.B(covertClosed), vlib.B(panicked))
	// the byte stream the covert was sent: length, Adler-32, first 96 bytes
	head := srvGot
	if len(head) > 96 {
		head = head[:96]
	}
	ans += fmt.Sprintf("|cs:%d.%d.%s", len(srvGot), adler32.Checksum(srvGot), vlib.Hex(head))
	out.Count(fmt.Sprintf("proxy:flag=%v,peer=%d", p.header != 0, p.peer))
	return line, ans
}

// ---------------------------------------------------------------------------------------------
// generators

func c05Data(ctr *int, n int) []byte {
	b := make([]byte, n)
	for i := range b {
		b[i] = byte(*ctr*37 + 11)
		*ctr++
	}
	return b
}

var c05CloseVariants = [][2]string{{"-", "-"}, {"rst", "-"}, {"-", "timeout"}, {"timeout", "closed"}, {"closed", c05Other(1)}, {c05Other(4), "aborted"}, {"eof", "unreach"}, {"timeout", "timeout"}}

// c05RacyCloses: halfPipe closes src on its own goroutine and dst on the calling one. When exactly one
// of the two Close calls fails with a timeout (closeConn then overwrites BOTH error fields) and the
// other fails with a different recorded error (closeConn then fills ONE field if it is still empty), the
// test-and-set of the second races with the two stores of the first and the final strings depend on
// the interleaving (unsynchronised access to tunnelStats, the note recorded under C05 in DESIGN §5).
// The model treats each closeConn as atomic (`close_order_irrelevant`), so such pairs are not generated;
// the byte counts and the tear-down, which are what C05 states, are not affected by the race.
func c05RacyCloses(src, dst string) bool {
	recorded := func(c string) bool { return c != "-" && c != "eof" && c != "closed" && c != "epipe" }
	return (src == "timeout") != (dst == "timeout") && recorded(src) && recorded(dst)
}

type c05ReadShape struct {
	n   int
	err string
}
type c05WriteShape struct {
	short int // 0: accept everything; k>0: accept k-1 bytes
	err   string
}

func c05Enumerate(out *vlib.Out, maxR, maxW, maxDl int) {
	readAlpha := []c05ReadShape{{2, "-"}, {0, "-"}, {2, "eof"}, {0, "eof"}, {1, "rst"}, {0, "timeout"}, {3, c05Other(0)}}
	writeAlpha := []c05WriteShape{{0, "-"}, {2, "-"}, {1, "eof"}, {2, c05Other(2)}}
	var rseqs [][]c05ReadShape
	var wseqs [][]c05WriteShape
	var recR func(p []c05ReadShape)
	recR = func(p []c05ReadShape) {
		rseqs = append(rseqs, append([]c05ReadShape(nil), p...))
		if len(p) == maxR {
			return
		}
		for _, a := range readAlpha {
			recR(append(p, a))
		}
	}
	recR(nil)
	var recW func(p []c05WriteShape)
	recW = func(p []c05WriteShape) {
		wseqs = append(wseqs, append([]c05WriteShape(nil), p...))
		if len(p) == maxW {
			return
		}
		for _, a := range writeAlpha {
			recW(append(p, a))
		}
	}
	recW(nil)
	k := 0
	for _, rs := range rseqs {
		nonEmpty := 0
		for _, r := range rs {
			if r.n > 0 {
				nonEmpty++
			}
		}
		for _, ws := range wseqs {
			if len(ws) > nonEmpty {
				continue // the extra write results would never be consumed
			}
			for dl := -1; dl < maxDl; dl++ {
				if dl >= 2*len(rs)+2 {
					break
				}
				k++
				s := &c05Script{up: k%2 == 0}
				cv := c05CloseVariants[(k/2)%len(c05CloseVariants)]
				s.srcClose, s.dstClose = cv[0], cv[1]
				ctr := k
				// the alphabet names one error per class; the members of each class of generalizeErr (the
				// ones it maps to nil, the ones it replaces by a sentinel) are cycled through by case number
				// every other script: the errors persist (the connection goes on failing)
				for j, r := range rs {
					s.reads = append(s.reads, c05Read{data: c05Data(&ctr, r.n), err: c05Rotate(r.err, k/3+j), sticky: r.err != "-" && (k/2)%2 == 1})
				}
				for j, w := range ws {
					acc := 32 * 1024
					if w.short > 0 {
						acc = w.short - 1
					}
					s.writes = append(s.writes, c05Write{acc, c05Rotate(w.err, k/3+j), w.err != "-" && (k/4)%2 == 1})
				}
				// dl = position of the failing deadline call (-1: none). Three flavours, cycled: plain
				// connections; obfs4-style ones (every SetDeadline unsupported, read-deadline fallback
				// works) with a failing call at dl; a fallback that itself fails at dl.
				okRes, failRes := "1", "0"
				switch k % 3 {
				case 1:
					okRes = "u1"
				case 2:
					failRes = "u0"
				}
				for i := 0; i <= dl; i++ {
					if i != dl {
						s.dls = append(s.dls, okRes)
					} else {
						s.dls = append(s.dls, failRes)
					}
				}
				if dl < 0 && k%3 == 1 {
					for i := 0; i < 2*len(rs)+2; i++ {
						s.dls = append(s.dls, "u1")
					}
				}
				ans := runC05(out, s)
				out.Case(s.line(), ans, true)
				c05Hist(out, s, ans)
				out.Count("enum")
			}
		}
	}
}

var c05Classes = [][]string{{"eof", "closed", "epipe"}, {"rst", "refused", "aborted", "unreach"},
	// what generalizeErr maps to "timeout": members differ in type and in what Temporary() answers
	{"timeout", "dlx", "eagain", "etimedout", "net.tt", "net.tf"},
	// errors outside every class, recorded by their text: Timeout() false, Temporary() true / false
	{c05Other(0), "eintr", "net.ft", "net.ff", c05Other(3)},
	{c05Other(2), "net.ff", "eintr", c05Other(4), "net.ft"}}

// c05Rotate replaces an error code by the i-th member of its class (codes outside the classes stay).
func c05Rotate(code string, i int) string {
	for _, cl := range c05Classes {
		if code == cl[0] {
			return cl[i%len(cl)]
		}
	}
	return code
}

func c05Random(r *vlib.Rand) *c05Script {
	s := &c05Script{up: r.Bool(), srcClose: "-", dstClose: "-"}
	errs := []string{"eof", "closed", "epipe", "rst", "refused", "aborted", "unreach", "timeout", "short",
		"dlx", "eagain", "etimedout", "net.tt", "net.tf", "eintr", "net.ft", "net.ff"}
	pickErr := func() string {
		if r.Chance(1, 5) {
			return c05Other(r.Intn(6))
		}
		return errs[r.Intn(len(errs))]
	}
	n := r.Range(1, 40)
	if r.Chance(1, 10) {
		n = r.Range(40, 400)
	}
	big := r.Chance(1, 40)
	for i := 0; i < n; i++ {
		sz := r.Intn(17)
		if r.Chance(1, 8) {
			sz = 0
		}
		if big && r.Chance(1, 6) {
			sz = []int{32 * 1024, 32*1024 - 1, 4096, 20000}[r.Intn(4)]
		}
		rd := c05Read{data: r.Bytes(sz), err: "-"}
		if r.Chance(1, n+10) {
			rd.err = pickErr()
			rd.sticky = r.Chance(1, 3)
		}
		s.reads = append(s.reads, rd)
	}
	if r.Chance(2, 3) { // make the stream end with an indication, often together with data
		s.reads[len(s.reads)-1].err = pickErr()
		s.reads[len(s.reads)-1].sticky = r.Chance(1, 2)
	}
	if r.Chance(1, 2) {
		m := r.Range(1, n)
		for i := 0; i < m; i++ {
			w := c05Write{accept: 32 * 1024, err: "-"}
			if r.Chance(1, n+5) {
				w.accept = r.Intn(17)
			}
			if r.Chance(1, n+8) {
				w.err = pickErr()
				w.sticky = r.Chance(1, 3)
				if r.Bool() {
					w.accept = r.Intn(17)
				}
			}
			s.writes = append(s.writes, w)
		}
	}
	if r.Chance(1, 4) {
		m := r.Range(1, 2*n+2)
		for i := 0; i < m; i++ {
			switch {
			case r.Chance(1, 2*n+4):
				s.dls = append(s.dls, "0")
			case r.Chance(1, 4*n+8):
				s.dls = append(s.dls, "u0")
			case r.Chance(1, 6):
				s.dls = append(s.dls, "u1")
			default:
				s.dls = append(s.dls, "1")
			}
		}
	}
	if r.Chance(1, 3) {
		s.srcClose = pickErr()
	}
	if r.Chance(1, 3) {
		s.dstClose = pickErr()
	}
	if c05RacyCloses(s.srcClose, s.dstClose) {
		s.dstClose = "-"
	}
	return s
}

func c05Hist(out *vlib.Out, s *c05Script, ans string) {
	for _, r := range s.reads {
		if r.err != "-" {
			kind := r.err
			if strings.HasPrefix(kind, "o.") {
				kind = "other-text"
			}
			out.Count("read-error:" + kind)
			if r.sticky {
				out.Count("read-error:persistent")
			}
		}
		switch {
		case r.err != "-" && len(r.data) > 0:
			out.Count("read:data+err")
		case r.err != "-":
			out.Count("read:err")
		case len(r.data) == 0:
			out.Count("read:empty")
		default:
			out.Count("read:data")
		}
	}
	for _, w := range s.writes {
		if w.err != "-" && w.sticky {
			out.Count("write-error:persistent")
		}
		switch {
		case w.err != "-":
			out.Count("write:err")
		case w.accept < 32*1024:
			out.Count("write:short?")
		default:
			out.Count("write:full")
		}
	}
	for _, d := range s.dls {
		switch d {
		case "0":
			out.Count("deadline:fail")
		case "u1":
			out.Count("deadline:unsupported-fallback-ok")
		case "u0":
			out.Count("deadline:unsupported-fallback-fails")
		}
	}
	if s.srcClose != "-" || s.dstClose != "-" {
		out.Count("close:err")
	}
	if ans == "hang" || ans == "panic" {
		out.Count("exit:" + ans)
		return
	}
	evs := strings.Split(strings.TrimPrefix(strings.SplitN(ans, "|", 2)[0], "T:"), ",")
	last := evs[len(evs)-1]
	switch {
	case strings.HasPrefix(last, "d"):
		out.Count("exit:deadline-failure")
	case strings.HasPrefix(last, "r"):
		out.Count("exit:read-error")
	case strings.HasSuffix(last, "e"):
		out.Count("exit:write-error")
	default:
		out.Count("exit:read-error-after-forwarding-its-data")
	}
}

func c05Corpus() []*c05Script {
	b := func(s string) []byte { return []byte(s) }
	full := 32 * 1024
	return []*c05Script{
		// the probe of DESIGN §7: "hello " then ("world", EOF)
		{up: true, reads: []c05Read{{data: b("hello "), err: "-"}, {data: b("world"), err: "eof"}}, srcClose: "-", dstClose: "-"},
		{up: false, reads: []c05Read{{data: b("hello "), err: "-"}, {data: b("world"), err: "rst"}}, srcClose: "-", dstClose: "-"},
		{up: true, reads: []c05Read{{data: b("only"), err: "timeout"}}, srcClose: "-", dstClose: "-"},
		{up: true, reads: []c05Read{{data: b("x"), err: c05Other(0)}}, srcClose: "-", dstClose: "-"},
		// data with an error AND a failing write: the write error is the one recorded
		{up: true, reads: []c05Read{{data: b("abcdef"), err: "rst"}}, writes: []c05Write{{accept: 3, err: "epipe"}}, srcClose: "-", dstClose: "-"},
		{up: false, reads: []c05Read{{data: b("abcdef"), err: "eof"}}, writes: []c05Write{{accept: 3, err: "-"}}, srcClose: "-", dstClose: "-"},
		// write returns n > 0 together with an error; short write; zero-byte write
		{up: true, reads: []c05Read{{data: b("abcdef"), err: "-"}, {data: b("gh"), err: "-"}}, writes: []c05Write{{accept: full, err: "-"}, {accept: 1, err: "rst"}}, srcClose: "-", dstClose: "-"},
		{up: false, reads: []c05Read{{data: b("abcdef"), err: "-"}}, writes: []c05Write{{accept: 0, err: "-"}}, srcClose: "-", dstClose: "-"},
		// SetDeadline failures at each of the first positions
		{up: true, reads: []c05Read{{data: b("ab"), err: "-"}}, dls: []string{"0"}, srcClose: "-", dstClose: "-"},
		{up: true, reads: []c05Read{{data: b("ab"), err: "-"}}, dls: []string{"1", "0"}, srcClose: "-", dstClose: "-"},
		{up: false, reads: []c05Read{{data: b("ab"), err: "-"}}, dls: []string{"1", "1", "0"}, srcClose: "-", dstClose: "-"},
		{up: false, reads: []c05Read{{data: b("ab"), err: "-"}, {data: b("cd"), err: "-"}}, dls: []string{"1", "1", "1", "0"}, srcClose: "-", dstClose: "-"},
		// obfs4-style connection on the source side: SetDeadline unsupported, the read deadline works
		{up: true, reads: []c05Read{{data: b("ab"), err: "-"}, {data: b("cd"), err: "eof"}}, dls: []string{"u1", "1", "u1", "1"}, srcClose: "-", dstClose: "-"},
		{up: false, reads: []c05Read{{data: b("ab"), err: "-"}, {data: b("cd"), err: "eof"}}, dls: []string{"1", "u1", "1", "u0"}, srcClose: "-", dstClose: "-"},
		{up: true, reads: []c05Read{{data: b("ab"), err: "-"}}, dls: []string{"u0"}, srcClose: "-", dstClose: "-"},
		// failing Close on either side, incl. the timeout sentinel that overwrites both fields
		{up: true, reads: []c05Read{{data: b("ab"), err: "rst"}}, srcClose: "timeout", dstClose: "timeout"},
		{up: false, reads: []c05Read{{data: b("ab"), err: "rst"}}, srcClose: "timeout", dstClose: "epipe"},
		{up: true, reads: []c05Read{{data: b("ab"), err: "rst"}}, srcClose: "refused", dstClose: "aborted"},
		{up: false, reads: []c05Read{{data: b("ab"), err: "-"}}, writes: []c05Write{{accept: 1, err: "-"}}, srcClose: c05Other(5), dstClose: "timeout"},
		{up: false, reads: nil, srcClose: "unreach", dstClose: "unreach"},
		// an idle connection whose deadline has passed: every Read answers the deadline error until somebody
		// moves the deadline — in each shape the error comes in; the direction must end at the first one
		{up: true, reads: []c05Read{{data: b("ab"), err: "-"}, {err: "timeout", sticky: true}}, srcClose: "-", dstClose: "-"},
		{up: false, reads: []c05Read{{err: "dlx", sticky: true}}, srcClose: "-", dstClose: "-"},
		{up: true, reads: []c05Read{{err: "net.tt", sticky: true}}, srcClose: "-", dstClose: "-"},
		{up: false, reads: []c05Read{{data: b("ab"), err: "-"}, {err: "net.tf", sticky: true}}, srcClose: "-", dstClose: "-"},
		// a socket that answers EAGAIN / EINTR / ETIMEDOUT for ever, with and without bytes the first time
		{up: true, reads: []c05Read{{err: "eagain", sticky: true}}, srcClose: "-", dstClose: "-"},
		{up: false, reads: []c05Read{{data: b("xyz"), err: "eintr", sticky: true}}, srcClose: "-", dstClose: "-"},
		{up: true, reads: []c05Read{{data: b("q"), err: "-"}, {err: "etimedout", sticky: true}}, srcClose: "-", dstClose: "-"},
		{up: false, reads: []c05Read{{err: "net.ft", sticky: true}}, srcClose: "-", dstClose: "-"},
		{up: true, reads: []c05Read{{err: "net.ff", sticky: true}}, srcClose: "-", dstClose: "-"},
		{up: true, reads: []c05Read{{err: "rst", sticky: true}}, srcClose: "rst", dstClose: "-"},
		// the same errors once only (the connection would deliver more afterwards): the direction ends all the same
		{up: true, reads: []c05Read{{err: "eintr"}, {data: b("later"), err: "-"}}, srcClose: "-", dstClose: "-"},
		{up: false, reads: []c05Read{{data: b("a"), err: "eagain"}, {data: b("later"), err: "eof"}}, srcClose: "-", dstClose: "-"},
		{up: true, reads: []c05Read{{err: "net.ft"}, {data: b("later"), err: "-"}}, srcClose: "-", dstClose: "-"},
		// a destination that fails every Write
		{up: true, reads: []c05Read{{data: b("abc"), err: "-"}, {data: b("def"), err: "-"}}, writes: []c05Write{{accept: 0, err: "eagain", sticky: true}}, srcClose: "-", dstClose: "-"},
		{up: false, reads: []c05Read{{data: b("abc"), err: "-"}}, writes: []c05Write{{accept: 1, err: "eintr", sticky: true}}, srcClose: "-", dstClose: "-"},
		{up: true, reads: []c05Read{{data: b("abc"), err: "-"}}, writes: []c05Write{{accept: 32 * 1024, err: "-"}, {accept: 0, err: "net.tt", sticky: true}}, srcClose: "-", dstClose: "-"},
		// zero-length reads without error keep the loop going
		{up: true, reads: []c05Read{{err: "-"}, {err: "-"}, {data: b("z"), err: "-"}, {err: "eof"}}, srcClose: "-", dstClose: "-"},
		// full buffer, one byte less accepted
		{up: true, reads: []c05Read{{data: c05Pattern(full, 1), err: "-"}, {data: c05Pattern(full, 2), err: "eof"}}, writes: []c05Write{{accept: full, err: "-"}, {accept: full - 1, err: "-"}}, srcClose: "-", dstClose: "-"},
		// a reader that breaks the io.Reader contract (claims more than the buffer holds)
		{up: true, reads: []c05Read{{data: c05Pattern(full, 3), claim: full + 37, err: "-"}}, srcClose: "-", dstClose: "-"},
		{up: false, reads: []c05Read{{data: c05Pattern(full, 4), claim: full + 5, err: c05Other(4)}}, srcClose: "-", dstClose: "-"},
	}
}

func c05ProxyScenarios(r *vlib.Rand, n int) []*c05Proxy {
	chunks := func(sizes ...int) [][]byte {
		var c [][]byte
		for i, s := range sizes {
			c = append(c, c05Pattern(s, i*1000+s))
		}
		return c
	}
	ps := []*c05Proxy{
		{name: "echo-then-covert-closes", upChunks: chunks(6, 5), upLast: "block", reply: 11, failAt: -1},
		{name: "client-data-with-eof", upChunks: chunks(6, 5), upLast: "eof", failAt: -1},
		{name: "client-data-with-rst", upChunks: chunks(100, 1), upLast: "rst", failAt: -1},
		{name: "client-data-with-timeout", upChunks: chunks(32 * 1024), upLast: "timeout", failAt: -1},
		{name: "client-short-write", upChunks: chunks(10), upLast: "block", reply: 2000, failAt: 700},
		{name: "client-accepts-nothing", upChunks: chunks(10), upLast: "block", reply: 50, failAt: 0},
		{name: "covert-refuses", upChunks: chunks(4), upLast: "block", refuse: true, failAt: -1},
		{name: "proxy-header", upChunks: chunks(9, 9), upLast: "block", reply: 3, header: 1, failAt: -1},
		{name: "proxy-header-data-with-eof", upChunks: chunks(9, 9), upLast: "eof", header: 1, failAt: -1},
		{name: "proxy-header-unparsable-client-address", upChunks: chunks(9), upLast: "block", header: 2, failAt: -1},
		{name: "proxy-header-ipv6-peer", upChunks: chunks(9, 9), upLast: "block", reply: 3, header: 1, peer: 3, failAt: -1},
		{name: "proxy-header-ipv6-zone-peer-data-with-eof", upChunks: chunks(5, 0, 7), upLast: "eof", header: 1, peer: 4, failAt: -1},
		{name: "proxy-header-mapped-peer", upChunks: chunks(9), upLast: "block", reply: 40000, header: 1, peer: 5, failAt: -1},
		{name: "proxy-header-empty-peer-address", upChunks: chunks(9), upLast: "block", header: 1, peer: 6, failAt: -1},
		{name: "proxy-header-bare-ipv6-peer", upChunks: chunks(9), upLast: "block", header: 1, peer: 7, failAt: -1},
		{name: "proxy-header-peer-without-port", upChunks: chunks(9), upLast: "eof", header: 1, peer: 8, failAt: -1},
		{name: "no-flag-unparsable-peer", upChunks: chunks(9, 9), upLast: "block", reply: 3, peer: 2, failAt: -1},
		{name: "no-flag-empty-peer-address", upChunks: chunks(9), upLast: "eof", peer: 6, failAt: -1},
		{name: "proxy-header-refused-covert", upChunks: chunks(9), upLast: "block", refuse: true, header: 1, peer: 3, failAt: -1},
		{name: "empty-upload-big-reply", upChunks: nil, upLast: "block", reply: 30000, failAt: -1},
		{name: "covert-resets", upChunks: chunks(5000, 5000, 5000), upLast: "block", reset: 4000, failAt: -1},
		// full duplex: 12 x 32 KiB of one pattern flow down while 12 / 14 chunks of another flow up
		{name: "duplex-12x32k", upChunks: chunks(32*1024, 7, 32*1024, 4096, 32*1024-1, 1, 20000, 32*1024, 512, 32*1024, 9999, 32*1024), upLast: "block", reply: 12 * 32 * 1024, failAt: -1, duplex: true},
		{name: "duplex-proxy-header-small-chunks", upChunks: chunks(100, 200, 300, 400, 500, 600, 700, 800, 900, 1000, 1100, 1200, 1300, 1400), upLast: "block", reply: 11*32*1024 + 17, header: 1, failAt: -1, duplex: true},
		// a client connection (a framing transport) whose Read now and then returns (0, nil) — a frame without
		// payload: legal for an io.Reader, "nothing happened", NOT the end of the stream.  Everything the client
		// sends afterwards must still reach the covert, and the reply must still come back.
		{name: "client-empty-read-mid-stream", upChunks: chunks(6, 0, 5), upLast: "block", reply: 11, failAt: -1},
		{name: "client-empty-read-first", upChunks: chunks(0, 16, 21), upLast: "block", reply: 300, failAt: -1},
		{name: "client-empty-reads-then-data-with-eof", upChunks: chunks(0, 0, 7, 0, 9), upLast: "eof", failAt: -1},
		{name: "client-empty-read-proxy-header-data-with-rst", upChunks: chunks(9, 0, 0, 9), upLast: "rst", header: 1, failAt: -1},
		{name: "client-empty-read-with-eof-last", upChunks: chunks(12, 0), upLast: "eof", failAt: -1},
		{name: "duplex-empty-reads-between-chunks", upChunks: chunks(32*1024, 0, 7, 0, 0, 32*1024, 4096, 0, 20000), upLast: "block", reply: 6 * 32 * 1024, failAt: -1, duplex: true},
	}
	lasts := []string{"block", "block", "eof", "rst", "timeout", "closed", c05Other(0)}
	for i := 0; i < n; i++ {
		p := &c05Proxy{name: fmt.Sprintf("random-%d-seed-%d", i, vlib.Seed()), failAt: -1}
		k := r.Range(0, 6)
		for j := 0; j < k; j++ {
			sz := r.Range(1, 300)
			if r.Chance(1, 6) {
				sz = r.Range(1000, 32*1024)
			}
			if r.Chance(1, 7) {
				sz = 0 // a Read that returns (0, nil)
			}
			p.upChunks = append(p.upChunks, c05Pattern(sz, i*100+j))
		}
		p.upLast = lasts[r.Intn(len(lasts))]
		if k == 0 {
			p.upLast = "block"
		}
		if p.upLast == "block" {
			p.reply = r.Intn(20000)
			if r.Chance(1, 4) {
				p.failAt = r.Intn(p.reply + 1)
			}
		}
		if r.Chance(1, 5) {
			p.header = 1
		}
		if r.Chance(1, 3) {
			// any peer-address text, with and without the flag (without it the text must not matter)
			p.peer = r.Range(1, len(c05Peers)-1)
			if r.Chance(1, 2) {
				p.header = 1
			}
		}
		if p.upLast == "block" && p.failAt < 0 && r.Chance(1, 8) {
			p.duplex = true
			p.reply = r.Range(2, 6)*32*1024 + r.Intn(1000)
		}
		if r.Chance(1, 10) && k > 0 && !p.duplex {
			tot := 0
			for _, c := range p.upChunks {
				tot += len(c)
			}
			if tot > 0 {
				p.reset = r.Range(1, tot)
				p.upLast = "block"
				p.failAt = -1
			}
		}
		ps = append(ps, p)
	}
	return ps
}

func TestVerifC05(t *testing.T) {
	golog.SetOutput(io.Discard) // the package-level logger (unexpected read length diagnostics)
	Stat() // start the statistics singleton (and its printer goroutine) before goroutines are counted
	getProxyStats()
	out := vlib.Open("C05")
	defer out.Close()
	out.Note("C05: scripted fault-injecting connections against halfPipe (corpus, exhaustive small scripts, random) and Proxy (scripted client, loopback covert)")
	if rp := vlib.Replay(); rp != "" {
		c05Replay(t, out, rp)
		return
	}
	for _, s := range c05Corpus() {
		ans := runC05(out, s)
		out.Case(s.line(), ans, true)
		c05Hist(out, s, ans)
		out.Count("corpus")
	}
	// exhaustive enumeration of small scripts: every sequence of ≤ R read shapes × ≤ W write shapes ×
	// every position of a SetDeadline failure
	if vlib.Tier() == "thorough" {
		c05Enumerate(out, 4, 3, 10)
	} else {
		c05Enumerate(out, 3, 2, 8)
	}
	r := vlib.NewRand("C05")
	n := vlib.Budget(3000, 60000)
	for i := 0; i < n; i++ {
		s := c05Random(r)
		ans := runC05(out, s)
		out.Case(s.line(), ans, true)
		c05Hist(out, s, ans)
	}
	// Proxy: scripted client, real covert on loopback
	for _, p := range c05ProxyScenarios(vlib.NewRand("C05proxy"), vlib.Budget(40, 600)) {
		line, ans := runC05Proxy(out, p)
		out.Count("proxy-scenario")
		for i, c := range p.upChunks {
			if len(c) == 0 && (i < len(p.upChunks)-1 || p.upLast == "block") {
				out.Count("proxy:client-read-returns-0-nil")
				break
			}
		}
		if line != "" {
			out.Case(line, ans, true)
		}
	}
	// the statistics across epochs: call sequences on a ProxyStats, then real sessions with epoch
	// boundaries in between (zz_verif_c05_stats_test.go)
	c05StatsCalls(out)
	c05StatsSessions(out)
	// the PROXY-protocol line in front of the upload (zz_verif_c05_header_test.go)
	c05Header(out)
}

// TestVerifC05Race runs the Proxy scenarios (fixed ones and a few random ones) under the race detector:
// the two directions, the asynchronous close of each source connection and the final Print share one
// tunnelStats; the check turns every report of the detector into an oracle failure.
func TestVerifC05Race(t *testing.T) {
	golog.SetOutput(io.Discard)
	Stat()
	getProxyStats()
	out := vlib.Open("C05race")
	defer out.Close()
	out.Note("C05 race: the Proxy scenarios under go test -race")
	for _, p := range c05ProxyScenarios(vlib.NewRand("C05proxy"), vlib.Budget(8, 80)) {
		if p.reset > 0 {
			// A covert that resets makes BOTH directions record an error for the covert side (the upload's
			// write and the download's read fail) in the same unsynchronised string of tunnelStats: the
			// documented race of the error strings (plan: modelled_not_verified), not what this run is for.
			continue
		}
		runC05Proxy(out, p)
		out.Count("race:proxy-scenario")
	}
}

// c05Replay re-runs `halfpipe|…` lines and `scenario <name>` lines of a replay file.
func c05Replay(t *testing.T, out *vlib.Out, path string) {
	b, err := os.ReadFile(path)
	if err != nil {
		t.Fatal(err)
	}
	for _, line := range strings.Split(string(b), "\n") {
		switch {
		case strings.HasPrefix(line, "halfpipe|"):
			f := strings.Split(line, "|")
			if len(f) != 7 {
				t.Fatalf("bad replay line %q", line)
			}
			s, err := c05ParseFields(f[2:])
			if err != nil {
				t.Fatal(err)
			}
			s.up = f[1] == "1"
			ans := runC05(out, s)
			out.Case(s.line(), ans, true)
			fmt.Println("REPLAY model-line:", s.line())
			fmt.Println("REPLAY impl      :", ans)
		case strings.HasPrefix(line, "scenario "):
			name := strings.TrimPrefix(line, "scenario ")
			for _, p := range c05ProxyScenarios(vlib.NewRand("C05proxy"), vlib.Budget(40, 600)) {
				if p.name == name {
					l, ans := runC05Proxy(out, p)
					if l != "" {
						out.Case(l, ans, true)
					}
					fmt.Println("REPLAY scenario  :", name)
					fmt.Println("REPLAY model-line:", l)
					fmt.Println("REPLAY impl      :", ans)
				}
			}
		default:
			if !c05HeaderReplay(out, line) {
				c05StatsReplay(out, line)
			}
		}
	}
}
