//go:build verif

package lib

// Tie 1 for C05: regenerates lean/CJ/Gen/RelayShape.lean — the top-level statement skeletons of halfPipe
// and Proxy (pkg/station/lib/proxies.go) — from the Go sources of the tree under check.  Behaviour cannot
// reach every exit of halfPipe in one run, and which deferred functions an exit runs depends on where the
// `defer` statements stand; the tear-down theorems of CJ/Props/C05.lean are stated over this skeleton.
// Standard library only (go/ast, go/parser, go/printer, go/token).
//
// halfPipe statements (CJ.HalfPipe.Stmt):
//   .deferActs [..]   defer f() / defer func(){…}(): the actions of the deferred body, in order
//                     (go closeConn(src|dst,…) / closeConn(src|dst,…) / src|dst.Close() / stats.duration /
//                     stats.completed / wg.Done), all of them unconditional top-level statements of that body
//   .arm b            err := setConnDeadline(src|dst, …)
//   .retIfErr logs    if err != nil { [logger call]; return }
//   .loop             for { … } containing src.Read and dst.Write, no defer / go / goto / label inside
//   .other            a statement without return / defer / go / goto / label / panic / Close / wg.Done
//   .unknown          everything else
// Body of the relay loop (CJ.RelayClock.LStmt, written to CJ/Gen/RelayLoop.lean together with the deadline calls
// in front of the loop and the two timeout constants):
//   .read             nr, er := src.Read(buf)
//   .writeIfData      if nr > 0 { … nw, ew := dst.Write(…) … if ew != nil { …; break } }: one Write on dst, no other call
//                     on a connection, the `break` under `ew != nil` is the only statement that leaves
//   .breakIfReadErr   if er != nil { …; break }: nothing else leaves (no continue / return / goto), no call on a connection
//   .arm b t          err :=|= setConnDeadline(src|dst, time.Now().Add(proxyInitTimeout|proxyStallTimeout))
//   .retIfErr logs    if err != nil { [logger call]; return }
//   .other            no break / continue / return / goto / defer / go / label, no call on a connection, no assignment
//                     to the variables that hold what Read returned
//   .unknown          everything else
// Proxy statements (CJ.HalfPipe.PStmt): .dial .retIfDialErr .deferCloseCovert .header .wgAdd n .addSession
//   .removeSession .goHalf up .wgWait .print .other .unknown

import (
	"bytes"
	"fmt"
	"go/ast"
	"go/parser"
	"go/printer"
	"go/token"
	"os"
	"path/filepath"
	"strconv"
	"strings"
	"testing"
)

type c05x struct {
	fset *token.FileSet
	lits map[string]*ast.FuncLit // local names bound to function literals (cleanup, closeConn)
	src  string
	dst  string
	wg   string
	st   string
}

func (x *c05x) text(n ast.Node) string {
	var b bytes.Buffer
	_ = printer.Fprint(&b, x.fset, n)
	return strings.Join(strings.Fields(b.String()), " ")
}

func c05xCallName(c *ast.CallExpr) (recv, name string) {
	switch f := c.Fun.(type) {
	case *ast.Ident:
		return "", f.Name
	case *ast.SelectorExpr:
		if id, ok := f.X.(*ast.Ident); ok {
			return id.Name, f.Sel.Name
		}
		return "?", f.Sel.Name
	}
	return "?", "?"
}

func c05xIdent(e ast.Expr) string {
	if id, ok := e.(*ast.Ident); ok {
		return id.Name
	}
	return ""
}

// closesFirstParam: the literal bound to name calls Close on its first parameter, unconditionally, at
// the top level of its body (directly or as `errX := c.Close()`).
func (x *c05x) closesFirstParam(name string) bool {
	lit := x.lits[name]
	if lit == nil || len(lit.Type.Params.List) == 0 || len(lit.Type.Params.List[0].Names) == 0 {
		return false
	}
	p := lit.Type.Params.List[0].Names[0].Name
	for _, s := range lit.Body.List {
		var e ast.Expr
		switch t := s.(type) {
		case *ast.ExprStmt:
			e = t.X
		case *ast.AssignStmt:
			if len(t.Rhs) == 1 {
				e = t.Rhs[0]
			}
		}
		if c, ok := e.(*ast.CallExpr); ok {
			if r, n := c05xCallName(c); r == p && n == "Close" && len(c.Args) == 0 {
				return true
			}
		}
	}
	return false
}

// act classifies one call of a deferred body; "" = not an action.
func (x *c05x) act(c *ast.CallExpr, spawned bool) string {
	recv, name := c05xCallName(c)
	side := func(id string) string {
		switch id {
		case x.src:
			return "Src"
		case x.dst:
			return "Dst"
		}
		return ""
	}
	switch {
	case recv == "" && x.lits[name] != nil && x.closesFirstParam(name) && len(c.Args) >= 1:
		if s := side(c05xIdent(c.Args[0])); s != "" {
			if spawned {
				return ".spawnClose" + s
			}
			return ".close" + s
		}
		return "?"
	case name == "Close" && side(recv) != "" && len(c.Args) == 0:
		if spawned {
			return ".spawnClose" + side(recv)
		}
		return ".close" + side(recv)
	case recv == x.wg && name == "Done":
		if spawned {
			return "?"
		}
		return ".wgDone"
	case recv == x.st && name == "completed":
		if spawned {
			return "?"
		}
		return ".completed"
	case recv == x.st && name == "duration":
		if spawned {
			return "?"
		}
		return ".duration"
	}
	return ""
}

// mentionsAction: n contains, at any depth (function literals included), a call that act() recognises.
func (x *c05x) mentionsAction(n ast.Node) bool {
	found := false
	ast.Inspect(n, func(m ast.Node) bool {
		if c, ok := m.(*ast.CallExpr); ok && x.act(c, false) != "" {
			found = true
		}
		return !found
	})
	return found
}

// deferredActs lists the actions of a deferred body; ok=false when an action is conditional or nested.
func (x *c05x) deferredActs(body []ast.Stmt) ([]string, bool) {
	var acts []string
	for _, s := range body {
		switch t := s.(type) {
		case *ast.GoStmt:
			a := x.act(t.Call, true)
			if a == "?" {
				return nil, false
			}
			if a != "" {
				acts = append(acts, a)
				continue
			}
			if x.mentionsAction(t) {
				return nil, false
			}
		case *ast.ExprStmt:
			if c, ok := t.X.(*ast.CallExpr); ok {
				a := x.act(c, false)
				if a == "?" {
					return nil, false
				}
				if a != "" {
					acts = append(acts, a)
					continue
				}
			}
			if x.mentionsAction(t) {
				return nil, false
			}
		default:
			if x.mentionsAction(s) || c05xLeaves(s, true) {
				return nil, false
			}
		}
	}
	return acts, true
}

// c05xLeaves: the statement contains something that can leave or outlive the function in a way the
// model does not interpret (function literals bound to a name are not entered).
func c05xLeaves(n ast.Node, enterLits bool) bool {
	found := false
	ast.Inspect(n, func(m ast.Node) bool {
		switch t := m.(type) {
		case *ast.FuncLit:
			return enterLits
		case *ast.ReturnStmt, *ast.DeferStmt, *ast.GoStmt, *ast.LabeledStmt:
			found = true
		case *ast.BranchStmt:
			if t.Tok == token.GOTO || t.Label != nil {
				found = true
			}
		case *ast.CallExpr:
			r, nm := c05xCallName(t)
			if (r == "" && nm == "panic") || (r == "os" && nm == "Exit") || (r == "runtime" && nm == "Goexit") {
				found = true
			}
		}
		return !found
	})
	return found
}

func c05xIsLogCall(s ast.Stmt) bool {
	es, ok := s.(*ast.ExprStmt)
	if !ok {
		return false
	}
	c, ok := es.X.(*ast.CallExpr)
	if !ok {
		return false
	}
	_, name := c05xCallName(c)
	for _, p := range []string{"Error", "Warn", "Info", "Debug", "Trace", "Print"} {
		if strings.HasPrefix(name, p) {
			return true
		}
	}
	return false
}

// errNotNil: `<id> != nil`
func c05xErrNotNil(e ast.Expr) (string, bool) {
	b, ok := e.(*ast.BinaryExpr)
	if !ok || b.Op != token.NEQ {
		return "", false
	}
	if id, ok := b.Y.(*ast.Ident); !ok || id.Name != "nil" {
		return "", false
	}
	id := c05xIdent(b.X)
	return id, id != ""
}

// retIfErr: `if err != nil { [log calls]; return }` → (logs, true)
func c05xRetIfErr(s *ast.IfStmt, errName string) (bool, bool) {
	if s.Init != nil || s.Else != nil {
		return false, false
	}
	if id, ok := c05xErrNotNil(s.Cond); !ok || id != errName {
		return false, false
	}
	n := len(s.Body.List)
	if n == 0 {
		return false, false
	}
	if r, ok := s.Body.List[n-1].(*ast.ReturnStmt); !ok || len(r.Results) != 0 {
		return false, false
	}
	logs := false
	for _, b := range s.Body.List[:n-1] {
		if !c05xIsLogCall(b) {
			return false, false
		}
		logs = true
	}
	return logs, true
}

func c05xFunc(file *ast.File, name string) *ast.FuncDecl {
	for _, d := range file.Decls {
		if fd, ok := d.(*ast.FuncDecl); ok && fd.Recv == nil && fd.Name.Name == name && fd.Body != nil {
			return fd
		}
	}
	return nil
}

func (x *c05x) bindLits(body *ast.BlockStmt) {
	x.lits = map[string]*ast.FuncLit{}
	for _, s := range body.List {
		if a, ok := s.(*ast.AssignStmt); ok && len(a.Lhs) == 1 && len(a.Rhs) == 1 {
			if lit, ok := a.Rhs[0].(*ast.FuncLit); ok {
				if id := c05xIdent(a.Lhs[0]); id != "" {
					x.lits[id] = lit
				}
			}
		}
	}
}

func (x *c05x) halfPipe(fd *ast.FuncDecl) ([]string, error) {
	var names []string
	types := map[string]string{}
	for _, f := range fd.Type.Params.List {
		for _, n := range f.Names {
			names = append(names, n.Name)
			types[n.Name] = x.text(f.Type)
		}
	}
	if len(names) < 2 {
		return nil, fmt.Errorf("halfPipe has %d parameters", len(names))
	}
	x.src, x.dst = names[0], names[1]
	for n, t := range types {
		switch t {
		case "*sync.WaitGroup":
			x.wg = n
		case "*tunnelStats":
			x.st = n
		}
	}
	if x.wg == "" || x.st == "" || types[x.src] != "net.Conn" || types[x.dst] != "net.Conn" {
		return nil, fmt.Errorf("halfPipe's signature is not (src, dst net.Conn, wg *sync.WaitGroup, …, stats *tunnelStats)")
	}
	x.bindLits(fd.Body)
	var out []string
	lastErr := ""
	for _, s := range fd.Body.List {
		switch t := s.(type) {
		case *ast.DeferStmt:
			var body []ast.Stmt
			if lit, ok := t.Call.Fun.(*ast.FuncLit); ok && len(t.Call.Args) == 0 {
				body = lit.Body.List
			} else if id := c05xIdent(t.Call.Fun); id != "" && x.lits[id] != nil && len(t.Call.Args) == 0 {
				body = x.lits[id].Body.List
			} else {
				body = []ast.Stmt{&ast.ExprStmt{X: t.Call}}
			}
			acts, ok := x.deferredActs(body)
			if !ok {
				out = append(out, ".unknown")
			} else {
				out = append(out, ".deferActs ["+strings.Join(acts, ", ")+"]")
			}
			continue
		case *ast.AssignStmt:
			if len(t.Lhs) == 1 && len(t.Rhs) == 1 {
				if c, ok := t.Rhs[0].(*ast.CallExpr); ok {
					if r, n := c05xCallName(c); r == "" && n == "setConnDeadline" && len(c.Args) == 2 {
						switch c05xIdent(c.Args[0]) {
						case x.src:
							out = append(out, ".arm true")
						case x.dst:
							out = append(out, ".arm false")
						default:
							out = append(out, ".unknown")
						}
						lastErr = c05xIdent(t.Lhs[0])
						continue
					}
				}
				if _, ok := t.Rhs[0].(*ast.FuncLit); ok && x.lits[c05xIdent(t.Lhs[0])] != nil {
					out = append(out, ".other") // a function literal bound to a name: interpreted where it is deferred
					continue
				}
			}
		case *ast.IfStmt:
			if logs, ok := c05xRetIfErr(t, lastErr); ok && lastErr != "" {
				out = append(out, ".retIfErr "+strconv.FormatBool(logs))
				continue
			}
		case *ast.ForStmt:
			reads, writes := false, false
			ast.Inspect(t.Body, func(m ast.Node) bool {
				if c, ok := m.(*ast.CallExpr); ok {
					r, n := c05xCallName(c)
					reads = reads || (r == x.src && n == "Read")
					writes = writes || (r == x.dst && n == "Write")
				}
				return true
			})
			bad := false
			ast.Inspect(t.Body, func(m ast.Node) bool {
				switch b := m.(type) {
				case *ast.DeferStmt, *ast.GoStmt, *ast.LabeledStmt:
					bad = true
				case *ast.BranchStmt:
					if b.Tok == token.GOTO || b.Label != nil {
						bad = true
					}
				case *ast.CallExpr:
					if a := x.act(b, false); a != "" {
						bad = true // a close / wg.Done / completed inside the loop
					}
				}
				return !bad
			})
			if t.Init == nil && t.Cond == nil && t.Post == nil && reads && writes && !bad {
				out = append(out, ".loop")
			} else {
				out = append(out, ".unknown")
			}
			continue
		}
		if c05xLeaves(s, false) || x.mentionsActionOutsideLits(s) {
			out = append(out, ".unknown")
		} else {
			out = append(out, ".other")
		}
	}
	return out, nil
}

// mentionsActionOutsideLits: a close / wg.Done / completed outside a deferred body
func (x *c05x) mentionsActionOutsideLits(n ast.Node) bool {
	found := false
	ast.Inspect(n, func(m ast.Node) bool {
		switch t := m.(type) {
		case *ast.FuncLit:
			return false
		case *ast.CallExpr:
			if x.act(t, false) != "" {
				found = true
			}
		}
		return !found
	})
	return found
}

func (x *c05x) proxy(fd *ast.FuncDecl) ([]string, error) {
	var names []string
	for _, f := range fd.Type.Params.List {
		for _, n := range f.Names {
			names = append(names, n.Name)
		}
	}
	if len(names) != 3 {
		return nil, fmt.Errorf("Proxy has %d parameters", len(names))
	}
	client := names[1]
	covert, wg, stats := "", "", ""
	calls := func(n ast.Node, recv, name string) bool {
		found := false
		ast.Inspect(n, func(m ast.Node) bool {
			if c, ok := m.(*ast.CallExpr); ok {
				if r, nm := c05xCallName(c); (recv == "*" || r == recv) && nm == name {
					found = true
				}
			}
			return !found
		})
		return found
	}
	leaves := func(n ast.Node) bool { return c05xLeaves(n, true) }
	var out []string
	for _, s := range fd.Body.List {
		switch t := s.(type) {
		case *ast.AssignStmt:
			if len(t.Rhs) == 1 {
				if c, ok := t.Rhs[0].(*ast.CallExpr); ok {
					if r, n := c05xCallName(c); r == "net" && n == "Dial" && len(t.Lhs) == 2 {
						covert = c05xIdent(t.Lhs[0])
						out = append(out, ".dial")
						continue
					}
				}
				if u, ok := t.Rhs[0].(*ast.UnaryExpr); ok && u.Op == token.AND && strings.HasPrefix(x.text(u.X), "tunnelStats{") && len(t.Lhs) == 1 {
					stats = c05xIdent(t.Lhs[0])
				}
				if strings.HasPrefix(x.text(t.Rhs[0]), "sync.WaitGroup{") && len(t.Lhs) == 1 {
					wg = c05xIdent(t.Lhs[0])
				}
			}
		case *ast.DeclStmt:
			if strings.Contains(x.text(t), "sync.WaitGroup") {
				if gd, ok := t.Decl.(*ast.GenDecl); ok && len(gd.Specs) == 1 {
					if vs, ok := gd.Specs[0].(*ast.ValueSpec); ok && len(vs.Names) == 1 {
						wg = vs.Names[0].Name
					}
				}
			}
		case *ast.IfStmt:
			cond := x.text(t.Cond)
			n := len(t.Body.List)
			endsWithReturn := false
			if n > 0 {
				if r, ok := t.Body.List[n-1].(*ast.ReturnStmt); ok && len(r.Results) == 0 {
					endsWithReturn = true
				}
			}
			if stats != "" && cond == stats+".CovertDialErr != \"\"" && t.Init == nil && t.Else == nil && endsWithReturn {
				only := true
				for _, b := range t.Body.List[:n-1] {
					es, ok := b.(*ast.ExprStmt)
					if !ok || !calls(es, stats, "Print") {
						only = false
					}
				}
				if only {
					out = append(out, ".retIfDialErr "+strconv.FormatBool(n > 1))
					continue
				}
			}
			if calls(t.Cond, "*", "GetProxyHeader") && t.Init == nil && t.Else == nil && n == 2 {
				a, ok1 := t.Body.List[0].(*ast.AssignStmt)
				inner, ok2 := t.Body.List[1].(*ast.IfStmt)
				if ok1 && ok2 && len(a.Lhs) == 1 && len(a.Rhs) == 1 && calls(a.Rhs[0], "", "writePROXYHeader") {
					if _, ok := c05xRetIfErr(inner, c05xIdent(a.Lhs[0])); ok {
						out = append(out, ".header")
						continue
					}
				}
			}
		case *ast.DeferStmt:
			if r, n := c05xCallName(t.Call); covert != "" && r == covert && n == "Close" && len(t.Call.Args) == 0 {
				out = append(out, ".deferCloseCovert")
			} else {
				out = append(out, ".unknown")
			}
			continue
		case *ast.GoStmt:
			if r, n := c05xCallName(t.Call); r == "" && n == "halfPipe" && len(t.Call.Args) == 6 {
				a, b := c05xIdent(t.Call.Args[0]), c05xIdent(t.Call.Args[1])
				tag := x.text(t.Call.Args[4])
				wgOK := wg != "" && x.text(t.Call.Args[2]) == "&"+wg
				stOK := stats != "" && c05xIdent(t.Call.Args[5]) == stats
				switch {
				case wgOK && stOK && a == client && b == covert && strings.HasPrefix(tag, "\"Up "):
					out = append(out, ".goHalf true")
					continue
				case wgOK && stOK && a == covert && b == client && strings.HasPrefix(tag, "\"Down "):
					out = append(out, ".goHalf false")
					continue
				}
			}
			out = append(out, ".unknown")
			continue
		case *ast.ExprStmt:
			if c, ok := t.X.(*ast.CallExpr); ok {
				r, n := c05xCallName(c)
				switch {
				case wg != "" && r == wg && n == "Add" && len(c.Args) == 1:
					if bl, ok := c.Args[0].(*ast.BasicLit); ok && bl.Kind == token.INT {
						out = append(out, ".wgAdd "+bl.Value)
						continue
					}
					out = append(out, ".unknown")
					continue
				case wg != "" && r == wg && n == "Wait":
					out = append(out, ".wgWait")
					continue
				case n == "addSession" && x.text(c.Fun) == "getProxyStats().addSession":
					out = append(out, ".addSession")
					continue
				case n == "removeSession" && x.text(c.Fun) == "getProxyStats().removeSession":
					out = append(out, ".removeSession")
					continue
				case stats != "" && r == stats && n == "Print":
					out = append(out, ".print")
					continue
				}
			}
		}
		touches := calls(s, "*", "addSession") || calls(s, "*", "removeSession") || calls(s, "", "halfPipe") ||
			(wg != "" && (calls(s, wg, "Add") || calls(s, wg, "Wait") || calls(s, wg, "Done"))) ||
			(covert != "" && calls(s, covert, "Close")) || calls(s, client, "Close")
		if leaves(s) || touches {
			out = append(out, ".unknown")
		} else {
			out = append(out, ".other")
		}
	}
	return out, nil
}

// ---------------------------------------------------------------------------------------------
// the body of the relay loop

// c05xBranches: n contains a statement that transfers control out of straight-line execution.
func c05xBranches(n ast.Node) bool {
	found := false
	ast.Inspect(n, func(m ast.Node) bool {
		switch m.(type) {
		case *ast.BranchStmt, *ast.ReturnStmt, *ast.DeferStmt, *ast.GoStmt, *ast.LabeledStmt:
			found = true
		case *ast.CallExpr:
			r, nm := c05xCallName(m.(*ast.CallExpr))
			if (r == "" && nm == "panic") || (r == "os" && nm == "Exit") || (r == "runtime" && nm == "Goexit") {
				found = true
			}
		}
		return !found
	})
	return found
}

// connCalls counts the calls that touch a connection: methods of src / dst, setConnDeadline, and the
// tear-down actions; except counts calls of dst.<except> separately.
func (x *c05x) connCalls(n ast.Node, except string) (others, excepted int) {
	ast.Inspect(n, func(m ast.Node) bool {
		c, ok := m.(*ast.CallExpr)
		if !ok {
			return true
		}
		r, nm := c05xCallName(c)
		switch {
		case r == x.dst && nm == except && except != "":
			excepted++
		case r == x.src || r == x.dst:
			others++
		case r == "" && nm == "setConnDeadline":
			others++
		case x.act(c, false) != "":
			others++
		default:
			// a connection handed to some other function
			for _, a := range c.Args {
				if id := c05xIdent(a); id == x.src || id == x.dst {
					others++
				}
			}
		}
		return true
	})
	return
}

// armCall: `<err> :=|= setConnDeadline(src|dst, time.Now().Add(proxyInitTimeout|proxyStallTimeout))`
func (x *c05x) armCall(s ast.Stmt) (lean string, pair string, errName string, ok bool) {
	a, isA := s.(*ast.AssignStmt)
	if !isA || len(a.Lhs) != 1 || len(a.Rhs) != 1 {
		return
	}
	c, isC := a.Rhs[0].(*ast.CallExpr)
	if !isC {
		return
	}
	if r, n := c05xCallName(c); r != "" || n != "setConnDeadline" || len(c.Args) != 2 {
		return
	}
	side := ""
	switch c05xIdent(c.Args[0]) {
	case x.src:
		side = "true"
	case x.dst:
		side = "false"
	}
	tmo := ""
	switch x.text(c.Args[1]) {
	case "time.Now().Add(proxyInitTimeout)":
		tmo = ".init"
	case "time.Now().Add(proxyStallTimeout)":
		tmo = ".stall"
	}
	errName = c05xIdent(a.Lhs[0])
	if side == "" || tmo == "" || errName == "" {
		return "", "", errName, false
	}
	return ".arm " + side + " " + tmo, "(" + side + ", " + tmo + ")", errName, true
}

// c05xAssigns: n assigns to, increments or takes the address of one of the named variables.
func c05xAssigns(n ast.Node, names ...string) bool {
	is := func(e ast.Expr) bool {
		id := c05xIdent(e)
		if id == "" {
			return false
		}
		for _, nm := range names {
			if nm != "" && id == nm {
				return true
			}
		}
		return false
	}
	found := false
	ast.Inspect(n, func(m ast.Node) bool {
		switch t := m.(type) {
		case *ast.AssignStmt:
			for _, l := range t.Lhs {
				if is(l) {
					found = true
				}
			}
		case *ast.IncDecStmt:
			if is(t.X) {
				found = true
			}
		case *ast.UnaryExpr:
			if t.Op == token.AND && is(t.X) {
				found = true
			}
		case *ast.RangeStmt:
			if (t.Key != nil && is(t.Key)) || (t.Value != nil && is(t.Value)) {
				found = true
			}
		}
		return !found
	})
	return found
}

func c05xIsBreak(s ast.Stmt) bool {
	b, ok := s.(*ast.BranchStmt)
	return ok && b.Tok == token.BREAK && b.Label == nil
}

// loopBody classifies the statements of the relay loop and lists the deadline calls in front of it.
func (x *c05x) loopBody(fd *ast.FuncDecl) (body []string, initArms []string, err error) {
	var loop *ast.ForStmt
	for _, s := range fd.Body.List {
		if f, ok := s.(*ast.ForStmt); ok {
			if loop != nil {
				return nil, nil, fmt.Errorf("halfPipe has more than one top-level for statement")
			}
			loop = f
			continue
		}
		if _, _, _, isArm := x.armCall(s); isArm || x.isSetConnDeadline(s) {
			if loop != nil {
				return nil, nil, fmt.Errorf("setConnDeadline call behind the relay loop")
			}
			_, pair, _, ok := x.armCall(s)
			if !ok {
				return nil, nil, fmt.Errorf("unrecognised deadline call in front of the relay loop: %s", x.text(s))
			}
			initArms = append(initArms, pair)
		}
	}
	if loop == nil {
		return nil, nil, fmt.Errorf("halfPipe has no top-level for statement")
	}
	nr, er, lastErr := "", "", ""
	for _, s := range loop.Body.List {
		generic := func() {
			o, _ := x.connCalls(s, "")
			// a statement that rewrites what Read returned (nr, er) or the pending deadline error decides
			// what the recognised statements after it do: not `.other`
			if c05xBranches(s) || o > 0 || c05xAssigns(s, nr, er, lastErr) {
				body = append(body, ".unknown")
			} else {
				body = append(body, ".other")
			}
		}
		switch t := s.(type) {
		case *ast.AssignStmt:
			if len(t.Lhs) == 2 && len(t.Rhs) == 1 && nr == "" {
				if c, ok := t.Rhs[0].(*ast.CallExpr); ok {
					if r, n := c05xCallName(c); r == x.src && n == "Read" && len(c.Args) == 1 && t.Tok == token.DEFINE {
						nr, er = c05xIdent(t.Lhs[0]), c05xIdent(t.Lhs[1])
						if nr != "" && er != "" {
							body = append(body, ".read")
							continue
						}
					}
				}
			}
			if lean, _, en, ok := x.armCall(s); ok {
				body = append(body, lean)
				lastErr = en
				continue
			}
		case *ast.IfStmt:
			if logs, ok := c05xRetIfErr(t, lastErr); ok && lastErr != "" {
				body = append(body, ".retIfErr "+strconv.FormatBool(logs))
				continue
			}
			if t.Init == nil && t.Else == nil && nr != "" && x.text(t.Cond) == nr+" > 0" {
				if x.writeIfData(t) && !c05xAssigns(t.Body, nr, er) {
					body = append(body, ".writeIfData")
					continue
				}
			}
			if t.Init == nil && t.Else == nil && er != "" && x.text(t.Cond) == er+" != nil" {
				n := len(t.Body.List)
				if n > 0 && c05xIsBreak(t.Body.List[n-1]) {
					clean := true
					for _, b := range t.Body.List[:n-1] {
						o, _ := x.connCalls(b, "")
						if c05xBranches(b) || o > 0 {
							clean = false
						}
					}
					if clean {
						body = append(body, ".breakIfReadErr")
						continue
					}
				}
			}
		}
		generic()
	}
	return body, initArms, nil
}

func (x *c05x) isSetConnDeadline(s ast.Stmt) bool {
	found := false
	ast.Inspect(s, func(m ast.Node) bool {
		if _, ok := m.(*ast.FuncLit); ok {
			return false
		}
		if c, ok := m.(*ast.CallExpr); ok {
			if r, n := c05xCallName(c); r == "" && n == "setConnDeadline" {
				found = true
			}
		}
		return !found
	})
	return found
}

// writeIfData: the body of `if nr > 0 { … }` writes once to dst, touches no connection otherwise, and
// leaves the loop only through `if ew != nil { …; break }` (ew: the error of that Write), a direct child.
func (x *c05x) writeIfData(t *ast.IfStmt) bool {
	ew := ""
	for _, b := range t.Body.List {
		if a, ok := b.(*ast.AssignStmt); ok && len(a.Lhs) == 2 && len(a.Rhs) == 1 {
			if c, ok := a.Rhs[0].(*ast.CallExpr); ok {
				if r, n := c05xCallName(c); r == x.dst && n == "Write" {
					if ew != "" {
						return false
					}
					ew = c05xIdent(a.Lhs[1])
				}
			}
		}
	}
	if ew == "" {
		return false
	}
	if o, w := x.connCalls(t.Body, "Write"); o != 0 || w != 1 {
		return false
	}
	exits := 0
	for _, b := range t.Body.List {
		if !c05xBranches(b) {
			continue
		}
		i, ok := b.(*ast.IfStmt)
		if !ok || i.Init != nil || i.Else != nil {
			return false
		}
		if id, ok := c05xErrNotNil(i.Cond); !ok || id != ew {
			return false
		}
		n := len(i.Body.List)
		if n == 0 || !c05xIsBreak(i.Body.List[n-1]) {
			return false
		}
		for _, inner := range i.Body.List[:n-1] {
			if c05xBranches(inner) {
				return false
			}
		}
		exits++
	}
	return exits == 1
}

func TestVerifC05Extract(t *testing.T) {
	path := "proxies.go"
	if root := os.Getenv("VERIF_SCRATCH_REPO"); root != "" {
		path = filepath.Join(root, "pkg/station/lib/proxies.go")
	}
	fset := token.NewFileSet()
	file, err := parser.ParseFile(fset, path, nil, 0)
	if err != nil {
		t.Fatal(err)
	}
	x := &c05x{fset: fset}
	hp, pr := c05xFunc(file, "halfPipe"), c05xFunc(file, "Proxy")
	if hp == nil || pr == nil {
		t.Fatal("halfPipe / Proxy not found in proxies.go")
	}
	hs, err := x.halfPipe(hp)
	if err != nil {
		t.Fatal(err)
	}
	ps, err := x.proxy(pr)
	if err != nil {
		t.Fatal(err)
	}
	var b strings.Builder
	b.WriteString("import CJ.Model.HalfPipe\n")
	b.WriteString("/-! GENERATED on every run by go/harness/C05/zz_verif_c05_extract_test.go from pkg/station/lib/proxies.go of the\ntree under check: the top-level statements of `halfPipe` and of `Proxy`, in source order.  Do not edit. -/\n")
	b.WriteString("namespace CJ.Gen\nopen CJ.HalfPipe\n\n")
	list := func(name, ty string, xs []string) {
		b.WriteString("def " + name + " : List " + ty + " := [\n")
		for i, s := range xs {
			b.WriteString("  " + s)
			if i+1 < len(xs) {
				b.WriteString(",")
			}
			b.WriteString("\n")
		}
		b.WriteString("]\n\n")
	}
	list("halfPipeStmts", "Stmt", hs)
	list("proxyStmts", "PStmt", ps)
	b.WriteString("end CJ.Gen\n")
	out := os.Getenv("VERIF_OUT")
	if out == "" {
		out = os.TempDir()
	}
	if err := os.WriteFile(filepath.Join(out, "RelayShape.lean"), []byte(b.String()), 0o644); err != nil {
		t.Fatal(err)
	}

	// the loop body, the deadline calls in front of the loop, the timeout constants
	ls, ia, err := x.loopBody(hp)
	if err != nil {
		t.Fatal(err)
	}
	var l strings.Builder
	l.WriteString("import CJ.Model.RelayClock\n")
	l.WriteString("/-! GENERATED on every run by go/harness/C05/zz_verif_c05_extract_test.go from pkg/station/lib/proxies.go of the\ntree under check: the statements of the body of the relay loop of `halfPipe` in source order, the deadline\ncalls in front of the loop, and the two timeout constants in milliseconds.  Do not edit. -/\n")
	l.WriteString("namespace CJ.Gen\nopen CJ.RelayClock\n\n")
	list2 := func(name, ty string, xs []string) {
		l.WriteString("def " + name + " : List " + ty + " := [\n")
		for i, s := range xs {
			l.WriteString("  " + s)
			if i+1 < len(xs) {
				l.WriteString(",")
			}
			l.WriteString("\n")
		}
		l.WriteString("]\n\n")
	}
	list2("relayLoopStmts", "LStmt", ls)
	list2("relayInitArms", "Arm", ia)
	l.WriteString(fmt.Sprintf("def proxyInitTimeoutMs : Nat := %d\n", proxyInitTimeout.Milliseconds()))
	l.WriteString(fmt.Sprintf("def proxyStallTimeoutMs : Nat := %d\n\n", proxyStallTimeout.Milliseconds()))
	l.WriteString("end CJ.Gen\n")
	if err := os.WriteFile(filepath.Join(out, "RelayLoop.lean"), []byte(l.String()), 0o644); err != nil {
		t.Fatal(err)
	}
}
