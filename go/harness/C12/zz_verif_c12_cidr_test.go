//go:build verif

package regprocessor

// The textual form of the subnet configuration (C12, "a substituted phantom is taken from the override subnets
// configured for that transport").
//
// What the operator configures is TEXT: the `cidr` strings of [[override_subnet]] and
// [[excluded_subnet_from_overrides]] in reg_config.toml.  The registrar turns it into values through
// toml.Decode -> Ipnet.UnmarshalText; every case of the harness therefore gets its subnets by writing a
// configuration file (the keys of cmd/registration-server's config struct) and decoding it with the real
// decoder.  The oracle's notion of "the configured subnet" is computed from the text alone by integer prefix
// arithmetic (c12TextNet): written address A, prefix length n  =>  the addresses a with a >> (32-n) == A >> (32-n).
// Nothing of net.IPNet (Contains, Mask) is used on the oracle's side.
//
// Spellings visited: canonical, host bits set (all ones / one / alternating), IPv4-mapped (`::ffff:a.b.c.d/96+n`,
// `0:0:0:0:0:FFFF:hhhh:hhhh/96+n`), /32 and /128, a prefix length with a leading zero (net.ParseCIDR accepts
// `/024`), IPv6 networks with host bits; plus a list of texts the decoder must refuse (`cidr|` lines).

import (
	"encoding/binary"
	"encoding/hex"
	"fmt"
	"net"
	"net/netip"
	"strconv"
	"strings"

	"github.com/BurntSushi/toml"
	"github.com/refraction-networking/conjure/internal/vlib"
	"github.com/refraction-networking/conjure/pkg/transports/wrapping/prefix"
	pb "github.com/refraction-networking/conjure/proto"
)

// c12Conf: the keys of cmd/registration-server's config struct that reach the processor's constructor.
type c12Conf struct {
	EnforceSubnetOverrides    bool     `toml:"enforce_subnet_overrides"`
	PrcntMinRegsToOverride    float64  `toml:"prcnt_min_regs_to_override"`
	PrcntPrefixRegsToOverride float64  `toml:"prcnt_prefix_regs_to_override"`
	OverrideSubnets           []Subnet `toml:"override_subnet"`
	ExclusionsFromOverride    []Subnet `toml:"excluded_subnet_from_overrides"`
}

func c12TomlFloat(f float64) string {
	s := strconv.FormatFloat(f, 'f', -1, 64)
	if !strings.Contains(s, ".") {
		s += ".0"
	}
	return s
}

type c12ConfEntry struct {
	cidr      string
	weight    float64
	port      uint32
	transport string
	prefixID  prefix.PrefixID
}

// c12ConfigText: the configuration file an operator would write for these entries.
func c12ConfigText(enforce bool, pctMin, pctPfx float64, over, excl []c12ConfEntry) string {
	var b strings.Builder
	fmt.Fprintf(&b, "enforce_subnet_overrides = %v\nprcnt_min_regs_to_override = %s\nprcnt_prefix_regs_to_override = %s\n",
		enforce, c12TomlFloat(pctMin), c12TomlFloat(pctPfx))
	w := func(table string, l []c12ConfEntry) {
		for _, e := range l {
			fmt.Fprintf(&b, "\n[[%s]]\n    cidr = %s\n    weight = %s\n    port = %d\n", table, strconv.Quote(e.cidr), c12TomlFloat(e.weight), e.port)
			if e.transport != "" {
				fmt.Fprintf(&b, "    transport = %s\n", strconv.Quote(e.transport))
			}
			fmt.Fprintf(&b, "    prefix_id = %d\n", int(e.prefixID))
		}
	}
	w("override_subnet", over)
	w("excluded_subnet_from_overrides", excl)
	return b.String()
}

// c12DecodeConfig: the text through the decoder the registrar uses (BurntSushi/toml -> Ipnet.UnmarshalText).
func c12DecodeConfig(text string) (*c12Conf, error) {
	conf := &c12Conf{}
	md, err := toml.Decode(text, conf)
	if err != nil {
		return nil, err
	}
	if u := md.Undecoded(); len(u) != 0 {
		return nil, fmt.Errorf("c12: keys of the written configuration were not decoded: %v", u)
	}
	return conf, nil
}

// ---------------------------------------------------------------------------------------------
// the configured network, from the text alone

type c12Net struct {
	v4       bool   // the text designates a set of IPv4 addresses
	addr     uint32 // the address as written (IPv4 / the IPv4 address of an IPv4-mapped form)
	hostBits uint   // 32 - prefix length (IPv4-mapped: 128 - prefix length)
}

func (n c12Net) has(a uint32) bool {
	if !n.v4 {
		return false
	}
	if n.hostBits >= 32 {
		return true
	}
	return a>>n.hostBits == n.addr>>n.hostBits
}

func (n c12Net) String() string {
	if !n.v4 {
		return "(no IPv4 network)"
	}
	lo := uint64(n.addr) >> n.hostBits << n.hostBits
	hi := lo + (uint64(1) << n.hostBits) - 1
	return fmt.Sprintf("[%s .. %s]", c12Dotted(uint32(lo)), c12Dotted(uint32(hi)))
}

func c12Dotted(a uint32) string {
	return fmt.Sprintf("%d.%d.%d.%d", byte(a>>24), byte(a>>16), byte(a>>8), byte(a))
}

func c12Decimal(s string, max int) (int, bool) {
	if s == "" || len(s) > 6 {
		return 0, false
	}
	n := 0
	for _, ch := range []byte(s) {
		if ch < '0' || ch > '9' {
			return 0, false
		}
		n = n*10 + int(ch-'0')
	}
	return n, n <= max
}

// c12TextNet: what an operator designates by writing `text` as a cidr.  ok = false: not a CIDR (the loader
// must refuse it).  Dotted quads are read by hand (decimal fields 0-255 without leading zeros); the colon forms
// go through netip.ParseAddr (the address only; prefix arithmetic is done here).
func c12TextNet(text string) (n c12Net, ok bool) {
	addr, mask, found := strings.Cut(text, "/")
	if !found {
		return n, false
	}
	if !strings.Contains(addr, ":") {
		f := strings.Split(addr, ".")
		if len(f) != 4 {
			return n, false
		}
		var a uint32
		for _, x := range f {
			v, ok := c12Decimal(x, 255)
			if !ok || (len(x) > 1 && x[0] == '0') {
				return n, false
			}
			a = a<<8 | uint32(v)
		}
		ones, ok := c12Decimal(mask, 32)
		if !ok {
			return n, false
		}
		return c12Net{v4: true, addr: a, hostBits: uint(32 - ones)}, true
	}
	ip, err := netip.ParseAddr(addr)
	if err != nil || ip.Zone() != "" || !ip.Is6() {
		return n, false
	}
	ones, ok := c12Decimal(mask, 128)
	if !ok {
		return n, false
	}
	if ip.Is4In6() && ones >= 96 {
		b := ip.As16()
		return c12Net{v4: true, addr: binary.BigEndian.Uint32(b[12:]), hostBits: uint(128 - ones)}, true
	}
	return c12Net{}, true // an IPv6 network: no IPv4 phantom can be taken from it
}

func c12MustNet(text string) c12Net {
	n, ok := c12TextNet(text)
	if !ok {
		panic("c12: the harness configured a text that is no CIDR: " + text)
	}
	return n
}

// ---------------------------------------------------------------------------------------------
// spellings

// c12Respell: the same network written differently.  variant 0 = as it is.
func c12Respell(cidr string, variant int) string {
	n, ok := c12TextNet(cidr)
	if !ok || variant == 0 {
		return cidr
	}
	if !n.v4 {
		// an IPv6 network: set host bits / spell the prefix length with a leading zero
		addr, mask, _ := strings.Cut(cidr, "/")
		ones, _ := strconv.Atoi(mask)
		if variant == 1 && ones <= 112 && strings.HasSuffix(addr, "::") {
			return addr + "1/" + mask
		}
		return addr + "/0" + mask
	}
	hostMask := uint32(uint64(1)<<n.hostBits - 1)
	net0 := n.addr &^ hostMask
	ones := 32 - int(n.hostBits)
	switch variant {
	case 1: // the last address of the network (host bits all ones)
		return fmt.Sprintf("%s/%d", c12Dotted(net0|hostMask), ones)
	case 2: // IPv4-mapped, dotted tail, alternating host bits
		return fmt.Sprintf("::ffff:%s/%d", c12Dotted(net0|(0x55555555&hostMask)), 96+ones)
	case 3: // IPv4-mapped, hexadecimal groups written out in capitals, lowest host bit
		a := net0 | (1 & hostMask)
		return fmt.Sprintf("0:0:0:0:0:FFFF:%04X:%04X/%d", a>>16, a&0xffff, 96+ones)
	case 4: // an interface-style address in the middle, prefix length with a leading zero
		return fmt.Sprintf("%s/0%d", c12Dotted(net0|(0x00c8c8c8&hostMask)), ones)
	}
	return cidr
}

const c12Spellings = 5

func c12RespellSet(l []c12Subnet, variant int) []c12Subnet {
	if variant == 0 {
		return l
	}
	out := make([]c12Subnet, len(l))
	for i, s := range l {
		s.cidr = c12Respell(s.cidr, (variant+i-1)%(c12Spellings-1)+1)
		out[i] = s
	}
	return out
}

func c12RespellExcl(l []c12ExclEntry, variant int) []c12ExclEntry {
	if variant == 0 {
		return l
	}
	out := make([]c12ExclEntry, len(l))
	for i, e := range l {
		e.cidr = c12Respell(e.cidr, (variant+i-1)%(c12Spellings-1)+1)
		out[i] = e
	}
	return out
}

// ---------------------------------------------------------------------------------------------
// the decoder alone: `cidr|<hex of the text>` -> E | <ip hex>/<mask hex>

func c12CidrCase(text string) (line, impl string) {
	line = "cidr|" + hex.EncodeToString([]byte(text))
	var n Ipnet
	if err := n.UnmarshalText([]byte(text)); err != nil || n.IPNet == nil {
		return line, "E"
	}
	return line, hex.EncodeToString(n.IP) + "/" + hex.EncodeToString(n.Mask)
}

var c12CidrTexts = []string{
	"10.1.0.0/24", "10.1.0.77/24", "10.1.0.255/24", "10.1.0.0/32", "10.1.0.9/32", "10.1.0.0/31", "10.1.0.0/1", "0.0.0.0/0", "255.255.255.255/1",
	"10.1.0.0/024", "10.1.0.0/0024", "10.1.0.0/33", "10.1.0.0/-1", "10.1.0.0/+24", "10.1.0.0/", "10.1.0.0", "10.1.0.0/24/1", "/24", "",
	" 10.1.0.0/24", "10.1.0.0/24 ", "10.1.0.0 /24", "10.01.0.0/24", "010.1.0.0/24", "10.1.0.00/24", "10.1.0/24", "10.1.0.0.0/24", "10.1.0.256/24",
	"10.1..0/24", "0x0a.1.0.0/24", "10.1.0.0/2 4", "10.1.0.0/٢٤", "１０.1.0.0/24",
	"::ffff:10.1.0.0/120", "::ffff:10.1.0.77/120", "::ffff:10.1.0.77/128", "::ffff:10.1.0.77/96", "::ffff:10.1.0.77/95", "::ffff:10.1.0.77/24",
	"0:0:0:0:0:FFFF:0A01:004D/120", "::FFFF:a01:4d/121", "::ffff:10.1.0.77/129", "::ffff:10.1.0.077/120",
	"2001:db8:5::/64", "2001:db8:5::1/64", "2001:db8:5::1/128", "2001:DB8:5::/064", "2001:db8:5::/129", "::/0", "::1/128", "fe80::1%eth0/64",
	"2001:db8:5::1/", "2001:db8:5::g/64", "2001:db8::5::/64", "1:2:3:4:5:6:7:8/127", "1:2:3:4:5:6:7:8:9/64", "1:2:3:4:5:6:7.8.9.10/112",
}

// c12CidrLines: every text of the list and every spelling the generators produce, through the decoder alone.
func c12CidrLines(sink *vlib.Out, emit c12Emit) {
	texts := append([]string(nil), c12CidrTexts...)
	for _, set := range c12SubnetSets {
		for _, s := range set {
			for v := 0; v < c12Spellings; v++ {
				texts = append(texts, c12Respell(s.cidr, v))
			}
		}
	}
	for _, set := range c12Excl {
		for _, c := range set {
			for v := 0; v < c12Spellings; v++ {
				texts = append(texts, c12Respell(c, v))
			}
		}
	}
	r := vlib.NewRand("C12/cidr-text")
	for i := 0; i < vlib.Budget(400, 4000); i++ {
		ones := r.Intn(33)
		a := uint32(r.Intn(1<<16))<<16 | uint32(r.Intn(1<<16))
		t := fmt.Sprintf("%s/%d", c12Dotted(a), ones)
		switch r.Intn(4) {
		case 0:
			t = fmt.Sprintf("::ffff:%s/%d", c12Dotted(a), 96+ones)
		case 1:
			t = fmt.Sprintf("::ffff:%x:%x/%d", a>>16, a&0xffff, 64+r.Intn(65))
		}
		texts = append(texts, t)
	}
	seen := map[string]bool{}
	n := 0
	for _, t := range texts {
		if seen[t] {
			continue
		}
		seen[t] = true
		line, impl := c12CidrCase(t)
		res := c12Out{chosen: -1, line: line, impl: impl, nontrivial: impl != "E"}
		// the decoder accepts exactly the texts that are CIDRs
		if _, ok := c12TextNet(t); ok != (impl != "E") {
			sink.Count("cidr-text:accept-differs")
		}
		sink.Count("cidr-text:" + map[bool]string{true: "refused", false: "accepted"}[impl == "E"])
		emit("cidr", n, res, false)
		n++
	}
}

// ---------------------------------------------------------------------------------------------
// grid: prefix length x host bits of the written address x spelling, for both transports; several
// registrations per configuration (the offset inside the subnet is the registrar's own crypto/rand draw)

func c12CidrGrid(sink *vlib.Out, emit c12Emit) {
	n := 0
	// prefix length 0 (IPv4-mapped: 96) leaves 32 host bits: 2^32 addresses, a count that does not fit a uint32
	for _, ones := range []int{0, 1, 8, 15, 16, 23, 24, 25, 28, 30, 31, 32} {
		hostBits := uint(32 - ones)
		hostMask := uint32(uint64(1)<<hostBits - 1)
		net0 := uint32(0x0a400000) &^ hostMask
		for hp, host := range []uint32{0, 1 & hostMask, hostMask, 0x55555555 & hostMask, 0x00c8c8c8 & hostMask} {
			if hp > 0 && host == 0 {
				continue
			}
			a := net0 | host
			for sp, text := range []string{
				fmt.Sprintf("%s/%d", c12Dotted(a), ones),
				fmt.Sprintf("::ffff:%s/%d", c12Dotted(a), 96+ones),
				fmt.Sprintf("0:0:0:0:0:ffff:%x:%x/%d", a>>16, a&0xffff, 96+ones),
			} {
				for _, tr := range []pb.TransportType{pb.TransportType_Min, pb.TransportType_Prefix} {
					reps := 4
					if sp > 0 {
						reps = 2
					}
					for k := 0; k < reps; k++ {
						c := c12Base()
						c.tr = tr
						c.auth = k%2 == 1
						// a second, canonical subnet of weight 0 next to it: never to be used
						subs := []c12Subnet{{text, 3, 8443, prefix.GetLong}, {"10.99.0.0/24", 0, 80, prefix.Min}}
						if tr == pb.TransportType_Prefix {
							id := int32(prefix.Min)
							c.params = c12PrefixAny(&id, nil, nil, true)
							c.pfxSub = subs
						} else {
							c.minSub = subs
						}
						c.seed = int64(100*n + k)
						res := c12Run(c, sink)
						if res.ok && res.chosen != 0 {
							res.fails = append(res.fails, [2]string{"C12:weighted-subnet-unreachable",
								fmt.Sprintf("the only weighted override subnet, written %q = %v, was not used: %s", text, c12MustNet(text), res.impl)})
						}
						sink.Count("gen:cidr-grid")
						sink.Count(fmt.Sprintf("cidr-grid:ones=%d", ones))
						sink.Count(fmt.Sprintf("cidr-grid:spelling=%d/hostbits=%d", sp, hp))
						emit("cidrgrid", n, res, false)
						n++
					}
				}
			}
		}
	}
	// exclusions written with host bits / IPv4-mapped: the phantom inside must be kept, the one outside replaced
	for vi := 0; vi < c12Spellings; vi++ {
		for _, inside := range []bool{true, false} {
			for _, tr := range []pb.TransportType{pb.TransportType_Min, pb.TransportType_Prefix} {
				c := c12Base()
				c.tr = tr
				c.minSub, c.pfxSub = c12SubnetSets[1], []c12Subnet{{"10.8.0.0/24", 2, 8443, prefix.OpenSSH2}}
				if tr == pb.TransportType_Prefix {
					id := int32(prefix.Min)
					c.params = c12PrefixAny(&id, nil, nil, true)
				}
				c.excl = c12PlainExcl(c12Respell("203.0.113.0/25", vi))
				if !inside {
					c.sel.v4 = net.ParseIP("203.0.113.130")
				}
				res := c12Run(c, sink)
				substituted := res.ok && res.resp.GetIpv4Addr() != c12V4num(c.sel.v4)
				if res.ok && inside && substituted {
					res.fails = append(res.fails, [2]string{"C12:excluded-replaced", fmt.Sprintf("phantom %v lies in the excluded subnet written %q but was replaced", c.sel.v4, c.excl[0].cidr)})
				}
				if res.ok && !inside && !substituted {
					res.fails = append(res.fails, [2]string{"C12:weighted-subnet-unreachable", fmt.Sprintf("phantom %v lies outside the excluded subnet written %q = %v but was not replaced", c.sel.v4, c.excl[0].cidr, c12MustNet(c.excl[0].cidr))})
				}
				sink.Count("gen:cidr-grid-exclusion")
				emit("cidrgrid", n, res, false)
				n++
			}
		}
	}
}
