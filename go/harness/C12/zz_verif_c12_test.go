//go:build verif

package regprocessor

// Correspondence + property oracle for C12: bidirectional registration requests x registrar
// configurations x override-subnet configurations through the real RegisterBidirectional (real
// transports, real overrides, real config helpers; fake selector with scripted answers; capturing
// zmq sender). The captured bytes are parsed and fed to the real station-side
// RegistrationManager.NewRegistrationC2SWrapper (pkg/station/lib), the function the station's
// parseRegMessage calls per address family.
//
// Draws: math/rand is re-seeded before every call, so the float the code draws is known exactly
// (k / 2^63); the 0-9999 gate draw is made irrelevant by using 0 % and 100 % in correspondence cases
// (other percentages are oracle-only); the host draw inside the subnet is read off the result.
//
// The processor of every case is derived from one built by the real NewRegProcessorNoAuth (real zmq
// socket on an ephemeral port, closed again; one construction per distinct configuration): the split
// by transport, the cumulative weights, the validated percentages, the exclusions and the enforce flag
// are the constructor's; only the sender, the selector, the override list and the authentication are
// replaced.  The authenticated constructor (newRegProcessor) is run once per process and swept as it is.
//
// Station side: the forwarded bytes go through the real parseRegMessage (oracle: same phantom / port /
// parameters as the client; never fewer registrations than from the same message without the
// response), and, per address family, through the real NewRegistrationC2SWrapper next to the model's
// stationApply (driver line `station|…`), which gets the station's own derivation (the same call on
// the message without the response, with the client's / the response's parameters) as a parameter.

import (
	"bufio"
	"crypto/ed25519"
	"encoding/binary"
	"encoding/hex"
	"errors"
	"fmt"
	"io"
	"math"
	mrand "math/rand"
	"net"
	"os"
	"path/filepath"
	"reflect"
	"strconv"
	"strings"
	"testing"
	"time"

	zmq "github.com/pebbe/zmq4"
	"github.com/refraction-networking/conjure/internal/vlib"
	"github.com/refraction-networking/conjure/pkg/core"
	"github.com/refraction-networking/conjure/pkg/core/interfaces"
	"github.com/refraction-networking/conjure/pkg/metrics"
	"github.com/refraction-networking/conjure/pkg/phantoms"
	"github.com/refraction-networking/conjure/pkg/regserver/overrides"
	"github.com/refraction-networking/conjure/pkg/station/lib"
	stationlog "github.com/refraction-networking/conjure/pkg/station/log"
	"github.com/refraction-networking/conjure/pkg/transports"
	"github.com/refraction-networking/conjure/pkg/transports/wrapping/min"
	"github.com/refraction-networking/conjure/pkg/transports/wrapping/prefix"
	pb "github.com/refraction-networking/conjure/proto"
	log "github.com/sirupsen/logrus"
	"google.golang.org/protobuf/proto"
	"google.golang.org/protobuf/types/known/anypb"
)

// ---------------------------------------------------------------------------------------------
// scripted collaborators

var errC12Sel4 = errors.New("c12: scripted IPv4 selection failure")
var errC12Sel6 = errors.New("c12: scripted IPv6 selection failure")

type c12SelCall struct {
	seed     string
	gen, ver uint
	v6       bool
}

type c12Selector struct {
	v4, v6     net.IP
	rp4, rp6   bool
	err4, err6 bool
	calls      []c12SelCall
}

func (s *c12Selector) Select(seed []byte, gen uint, ver uint, v6 bool) (*phantoms.PhantomIP, error) {
	s.calls = append(s.calls, c12SelCall{hex.EncodeToString(seed), gen, ver, v6})
	if v6 {
		if s.err6 {
			return nil, errC12Sel6
		}
		return phantoms.IP(s.v6, s.rp6), nil
	}
	if s.err4 {
		return nil, errC12Sel4
	}
	return phantoms.IP(s.v4, s.rp4), nil
}

type c12Sender struct {
	fail bool
	got  [][]byte
}

func (s *c12Sender) SendBytes(b []byte, f zmq.Flag) (int, error) {
	if s.fail {
		return 0, errors.New("c12: scripted send failure")
	}
	s.got = append(s.got, append([]byte(nil), b...))
	return len(b), nil
}
func (s *c12Sender) Close() error { return nil }

// ---------------------------------------------------------------------------------------------
// one case

type c12Subnet struct {
	cidr     string
	weight   float64 // a multiple of 1/8 (exact in float64); the model gets the number of eighths
	port     uint32
	prefixID prefix.PrefixID
}

// w8: the weight in eighths, the natural number the model works with (the choice is scale invariant).
func (s c12Subnet) w8() int {
	w := s.weight * 8
	if w < 0 || w != math.Trunc(w) {
		panic(fmt.Sprintf("c12: weight %v is not a non-negative multiple of 1/8", s.weight))
	}
	return int(w)
}

// c12ExclEntry: one entry of excluded_subnet_from_overrides.  The configuration type is the one of the
// override subnets (regprocessor.Subnet), so an entry carries a transport label, a weight, a port and a
// prefix id as well (the shipped reg_config.toml sets all of them on its exclusion entry); every field is a
// generated dimension.
type c12ExclEntry struct {
	cidr      string
	transport string  // Subnet.Transport as written in the configuration ("" = unset)
	weight    float64 // a multiple of 1/8, as for the override subnets
	port      uint32
	prefixID  prefix.PrefixID
}

func (e c12ExclEntry) String() string {
	return fmt.Sprintf("%s{transport=%q weight=%v port=%d prefix_id=%d}", e.cidr, e.transport, e.weight, e.port, int(e.prefixID))
}

// c12LabelTok: the transport label of a configured subnet for the model: "-" unset, the number of the
// pb.TransportType the string names ("<Name>_Transport"), "x" a string that names no transport.
func c12LabelTok(transport string) string {
	if transport == "" {
		return "-"
	}
	if name, ok := strings.CutSuffix(transport, "_Transport"); ok {
		if n, ok := pb.TransportType_value[name]; ok {
			return strconv.Itoa(int(n))
		}
	}
	return "x"
}

// c12ExclLabels: what the transport field of an exclusion entry can say: nothing, each of the two transports
// the subnet override knows, another real transport, strings that name no transport.
var c12ExclLabels = []string{"", "Min_Transport", "Prefix_Transport", "Obfs4_Transport", "DTLS_Transport", "min_transport", "Prefix", "*"}

func c12PlainExcl(cidrs ...string) []c12ExclEntry {
	var l []c12ExclEntry
	for _, c := range cidrs {
		l = append(l, c12ExclEntry{cidr: c})
	}
	return l
}

// c12RandomExcl: the networks of one of the exclusion sets, every other field of every entry drawn
// independently (half of the entries carry a transport label).
func c12RandomExcl(r *vlib.Rand, cidrs []string) []c12ExclEntry {
	var l []c12ExclEntry
	for _, c := range cidrs {
		e := c12ExclEntry{cidr: c}
		if r.Bool() {
			e.transport = c12ExclLabels[1+r.Intn(len(c12ExclLabels)-1)]
		}
		if r.Bool() {
			e.weight = []float64{28.75, 1, 0.125, 1000}[r.Intn(4)]
			e.port = []uint32{80, 443, 0, 70000}[r.Intn(4)]
			e.prefixID = []prefix.PrefixID{prefix.Min, prefix.GetLong, prefix.Rand, prefix.PrefixID(55)}[r.Intn(4)]
		}
		l = append(l, e)
	}
	return l
}

type c12Case struct {
	// registrar
	auth      bool
	ovKind    int // 0 none, 1 fixed prefix, 2 random prefix, 3 parsed prefixes (always), 4 parsed prefixes (never)
	ovPrefix  prefix.PrefixID
	enforce   bool
	minSub    []c12Subnet
	pfxSub    []c12Subnet
	excl      []c12ExclEntry
	pctMin    float64
	pctPfx    float64
	sel       c12Selector
	sendFail  bool
	transport map[pb.TransportType]bool
	// request
	noPayload bool
	secretLen int
	v4, v6    bool
	tr        pb.TransportType
	disable   bool
	libver    uint32
	gen       uint32
	params    *anypb.Any
	source    pb.RegistrationSource
	regAddr   []byte
	forged    bool
	method    pb.RegistrationSource
	client    []byte
	seed      int64
	// a processor built by the authenticated constructor, used as it is (sender and selector swapped in)
	prebuilt *RegProcessor
}

var c12Metrics *metrics.Metrics
var c12Priv ed25519.PrivateKey
var c12Pub ed25519.PublicKey
var c12Station *lib.RegistrationManager
var c12ForgedParams *anypb.Any

const c12ForgedPort = 70000
const c12ForgedV4 = 0x06060606

func c12ConfEntries(l []c12Subnet, transport string) []c12ConfEntry {
	var out []c12ConfEntry
	for _, s := range l {
		out = append(out, c12ConfEntry{cidr: s.cidr, weight: s.weight, port: s.port, transport: transport, prefixID: s.prefixID})
	}
	return out
}

// c12Built caches, per configuration, a processor built by the real NewRegProcessorNoAuth.
var c12Built = map[string]*RegProcessor{}
var c12CtorErr error

// config: the case's subnet configuration, written as the configuration file the registrar reads and decoded
// by the decoder the registrar uses (toml -> Ipnet.UnmarshalText); one decoding per distinct configuration.
func (c *c12Case) config() (all []Subnet, ex []Subnet, key string, err error) {
	key = fmt.Sprintf("%v|%s|%s|%v|%v|%v", c.enforce, c12Subnets(c.minSub, "1"), c12Subnets(c.pfxSub, "4"), c.excl, c.pctMin, c.pctPfx)
	if d, ok := c12Decoded[key]; ok {
		return d.conf.OverrideSubnets, d.conf.ExclusionsFromOverride, key, d.err
	}
	var over, excl []c12ConfEntry
	over = append(over, c12ConfEntries(c.minSub, "Min_Transport")...)
	over = append(over, c12ConfEntries(c.pfxSub, "Prefix_Transport")...)
	// a subnet of another transport must be dropped by the constructor
	over = append(over, c12ConfEntries([]c12Subnet{{"10.250.0.0/24", 4, 443, prefix.Min}}, "Obfs4_Transport")...)
	for _, e := range c.excl {
		excl = append(excl, c12ConfEntry{cidr: e.cidr, weight: e.weight, port: e.port, transport: e.transport, prefixID: e.prefixID})
	}
	conf, err := c12DecodeConfig(c12ConfigText(c.enforce, c.pctMin, c.pctPfx, over, excl))
	if err == nil && (conf.EnforceSubnetOverrides != c.enforce || conf.PrcntMinRegsToOverride != c.pctMin || conf.PrcntPrefixRegsToOverride != c.pctPfx ||
		len(conf.OverrideSubnets) != len(over) || len(conf.ExclusionsFromOverride) != len(excl)) {
		panic("c12: the written configuration does not decode to the case's scalars / entry counts")
	}
	if err != nil {
		conf = &c12Conf{}
	}
	c12Decoded[key] = c12DecodedConf{conf, err}
	return conf.OverrideSubnets, conf.ExclusionsFromOverride, key, err
}

type c12DecodedConf struct {
	conf *c12Conf
	err  error
}

var c12Decoded = map[string]c12DecodedConf{}

// rejected: the loader refuses the case's configuration (the registrar would not start).  The case is then
// reported as the `cidr|` line of the first text the decoder refuses.
func (c *c12Case) rejected(res *c12Out) bool {
	_, _, _, err := c.config()
	if err == nil {
		return false
	}
	var texts []string
	for _, s := range c.minSub {
		texts = append(texts, s.cidr)
	}
	for _, s := range c.pfxSub {
		texts = append(texts, s.cidr)
	}
	for _, e := range c.excl {
		texts = append(texts, e.cidr)
	}
	res.line, res.impl = "cidr|-", "config-rejected: "+err.Error()
	for _, t := range texts {
		if line, impl := c12CidrCase(t); impl == "E" {
			res.line, res.impl = line, impl
			break
		}
	}
	return true
}

// processor: the fields a constructor derives from the configuration come from the real
// NewRegProcessorNoAuth; sender, selector, overrides and authentication are the case's.
func (c *c12Case) processor(snd *c12Sender) *RegProcessor {
	if c.prebuilt != nil {
		c.prebuilt.sock, c.prebuilt.ipSelector, c.prebuilt.metrics = snd, &c.sel, c12Metrics
		return c.prebuilt
	}
	all, ex, key, cerr := c.config()
	if cerr != nil {
		panic("c12: configuration refused by the loader: " + cerr.Error())
	}
	b := c12Built[key]
	if b == nil {
		var err error
		b, err = NewRegProcessorNoAuth("127.0.0.1", 0, c12Metrics, c.enforce, all, ex, c.pctMin, c.pctPfx)
		if err != nil {
			c12CtorErr = err
			panic("c12: NewRegProcessorNoAuth failed: " + err.Error())
		}
		b.Close()
		c12Built[key] = b
	}
	p := &RegProcessor{
		sock:                                   snd,
		metrics:                                c12Metrics,
		authenticated:                          c.auth,
		ipSelector:                             &c.sel,
		enforceSubnetOverrides:                 b.enforceSubnetOverrides,
		minOverrideSubnets:                     b.minOverrideSubnets,
		prefixOverrideSubnets:                  b.prefixOverrideSubnets,
		minOverrideSubnetsCumulativeWeights:    b.minOverrideSubnetsCumulativeWeights,
		prefixOverrideSubnetsCumulativeWeights: b.prefixOverrideSubnetsCumulativeWeights,
		exclusionsFromOverride:                 b.exclusionsFromOverride,
		prcntMinRegsToOverride:                 b.prcntMinRegsToOverride,
		prcntPrefixRegsToOverride:              b.prcntPrefixRegsToOverride,
	}
	if b.authenticated || b.regOverrides != nil || b.privkey != nil {
		panic("c12: NewRegProcessorNoAuth built an authenticated processor / one with overrides")
	}
	if c.auth {
		p.privkey = c12Priv
	}
	switch c.ovKind {
	case 1:
		px, err := prefix.TryFromID(c.ovPrefix)
		if err != nil {
			panic(err)
		}
		p.regOverrides = interfaces.Overrides([]interfaces.RegOverride{overrides.NewFixedPrefixOverride(px)})
	case 2:
		p.regOverrides = interfaces.Overrides([]interfaces.RegOverride{overrides.NewRandPrefixOverride()})
	case 3, 4:
		bar := 10
		if c.ovKind == 4 {
			bar = -1
		}
		po, err := overrides.ParsePrefixes(strings.NewReader(fmt.Sprintf("# max bar id port prefix\n10 %d 77 1234 HELLO\n", bar)))
		if err != nil {
			panic(err)
		}
		p.regOverrides = interfaces.Overrides([]interfaces.RegOverride{po})
	}
	if c.transport[pb.TransportType_Min] {
		_ = p.AddTransport(pb.TransportType_Min, min.Transport{})
	}
	if c.transport[pb.TransportType_Prefix] {
		_ = p.AddTransport(pb.TransportType_Prefix, prefix.DefaultSet())
	}
	return p
}

func c12Secret(n int, salt byte) []byte {
	s := make([]byte, n)
	for i := range s {
		s[i] = byte(i*11) + salt
	}
	return s
}

func (c *c12Case) request() *pb.C2SWrapper {
	w := &pb.C2SWrapper{SharedSecret: c12Secret(c.secretLen, byte(c.seed))}
	if !c.noPayload {
		tr := c.tr
		covert := "192.0.2.99:443"
		w.RegistrationPayload = &pb.ClientToStation{
			Transport:           &tr,
			DecoyListGeneration: proto.Uint32(c.gen),
			CovertAddress:       &covert,
			V4Support:           proto.Bool(c.v4),
			V6Support:           proto.Bool(c.v6),
			ClientLibVersion:    proto.Uint32(c.libver),
		}
		if c.disable {
			w.RegistrationPayload.DisableRegistrarOverrides = proto.Bool(true)
		}
		if c.params != nil {
			w.RegistrationPayload.TransportParams = proto.Clone(c.params).(*anypb.Any)
		}
	}
	if c.source != pb.RegistrationSource_Unspecified {
		s := c.source
		w.RegistrationSource = &s
	}
	if c.regAddr != nil {
		w.RegistrationAddress = append([]byte(nil), c.regAddr...)
	}
	if c.forged {
		w.RegistrationResponse = &pb.RegistrationResponse{
			Ipv4Addr:        proto.Uint32(c12ForgedV4),
			Ipv6Addr:        net.ParseIP("2001:db8:bad::1"),
			DstPort:         proto.Uint32(c12ForgedPort),
			TransportParams: proto.Clone(c12ForgedParams).(*anypb.Any),
		}
		w.RegRespBytes = []byte("forged-response-bytes")
		w.RegRespSignature = []byte("forged-signature")
	}
	return w
}

// ---------------------------------------------------------------------------------------------
// canonical forms

func c12Params(a *anypb.Any) string {
	if a == nil {
		return "-"
	}
	if strings.HasSuffix(a.TypeUrl, "PrefixTransportParams") {
		m := &pb.PrefixTransportParams{}
		if err := proto.Unmarshal(a.Value, m); err == nil {
			return "P:" + c12PP(m)
		}
	}
	u := a.TypeUrl
	if i := strings.LastIndexByte(u, '.'); i >= 0 {
		u = u[i+1:]
	}
	return "O:" + u + "." + hex.EncodeToString(a.Value)
}

func c12PP(m *pb.PrefixTransportParams) string {
	f := []string{"-", "-", "-", "-"}
	if m.PrefixId != nil {
		f[0] = strconv.Itoa(int(*m.PrefixId))
	}
	if len(m.Prefix) > 0 {
		f[1] = hex.EncodeToString(m.Prefix)
	}
	if m.CustomFlushPolicy != nil {
		f[2] = strconv.Itoa(int(*m.CustomFlushPolicy))
	}
	if m.RandomizeDstPort != nil {
		f[3] = vlib.B(*m.RandomizeDstPort)
	}
	return strings.Join(f, ":")
}

func c12Resp(r *pb.RegistrationResponse) string {
	if r == nil {
		return "-"
	}
	f := []string{"-", "-", "-", c12Params(r.TransportParams)}
	if r.Ipv4Addr != nil {
		f[0] = strconv.FormatUint(uint64(*r.Ipv4Addr), 10)
	}
	if r.Ipv6Addr != nil {
		f[1] = hex.EncodeToString(r.Ipv6Addr)
	}
	if r.DstPort != nil {
		f[2] = strconv.FormatUint(uint64(*r.DstPort), 10)
	}
	return strings.Join(f, ",")
}

func c12ErrKind(err error) string {
	s := err.Error()
	switch {
	case errors.Is(err, ErrNoC2SBody):
		return "nobody"
	case errors.Is(err, errC12Sel4):
		return "select4"
	case errors.Is(err, errC12Sel6):
		return "select6"
	case errors.Is(err, ErrSharedSecret):
		return "secret"
	case errors.Is(err, ErrRegProcessFailed):
		return "send"
	case s == "unknown transport":
		return "transport"
	case strings.HasPrefix(s, "failed to parse transport parameters"):
		return "params"
	case strings.HasPrefix(s, "error determining destination port"):
		return "port"
	}
	return "override"
}

func c12V4num(ip net.IP) uint32 { return binary.BigEndian.Uint32(ip.To4()) }

// model: the entry as the model gets it: the cidr TEXT (hex), the model parses it itself.
func (s c12Subnet) model(label string) string {
	pfx := "-"
	if s.prefixID != prefix.Rand {
		if px, err := prefix.TryFromID(s.prefixID); err == nil && px != nil {
			pfx = fmt.Sprintf("%d~%s~%d", int32(px.ID()), hex.EncodeToString(px.Bytes()), px.FlushPolicy())
		}
	}
	return fmt.Sprintf("T%s:%d:%d:%s:%s", hex.EncodeToString([]byte(s.cidr)), s.w8(), s.port, pfx, label)
}

// c12Subnets: label = the model's token for the transport string the entries are configured with.
func c12Subnets(l []c12Subnet, label string) string {
	var p []string
	for _, s := range l {
		p = append(p, s.model(label))
	}
	return strings.Join(p, "/")
}

func c12HexOrDash(b []byte) string {
	if b == nil {
		return "-"
	}
	return hex.EncodeToString(b)
}

// ---------------------------------------------------------------------------------------------
// running one case: implementation answer, model line, oracle

func (c *c12Case) cfgLine(p *RegProcessor) string {
	pmK := int(math.Round(p.prcntMinRegsToOverride * 10))
	ppK := int(math.Round(p.prcntPrefixRegsToOverride * 10))
	var exs []string
	for _, e := range c.excl {
		// the whole entry goes to the model: network, weight, port, prefix id and the transport label
		exs = append(exs, c12Subnet{cidr: e.cidr, weight: e.weight, port: e.port, prefixID: e.prefixID}.model(c12LabelTok(e.transport)))
	}
	return fmt.Sprintf("%s,%s,%s,%d,%d;%s;%s;%s", vlib.B(c.auth), vlib.B(c.ovKind != 0), vlib.B(c.enforce), pmK, ppK,
		c12Subnets(c.minSub, "1"), c12Subnets(c.pfxSub, "4"), strings.Join(exs, "/"))
}

func (c *c12Case) reqLine() string {
	paramTok := "-"
	if c.params != nil {
		paramTok = "O:c"
	}
	forged := []string{"-", "", ""}
	if c.forged {
		forged = []string{fmt.Sprintf("%d.%d", c12ForgedV4, c12ForgedPort), "forged", "sig"}
	}
	return strings.Join([]string{vlib.B(!c.noPayload), strconv.Itoa(c.secretLen), vlib.B(c.v4), vlib.B(c.v6), strconv.Itoa(int(c.tr)),
		vlib.B(c.disable), strconv.Itoa(int(c.source)), c12HexOrDash(c.regAddr), paramTok, forged[0], forged[1], forged[2]}, ",")
}

// c12Signed: RegRespBytes / RegRespSignature of a forwarded wrapper in canonical form.
func c12Signed(fwd *pb.C2SWrapper) string {
	if len(fwd.RegRespBytes) == 0 && len(fwd.RegRespSignature) == 0 {
		return "-"
	}
	sr := &pb.RegistrationResponse{}
	switch {
	case !ed25519.Verify(c12Pub, fwd.RegRespBytes, fwd.RegRespSignature):
		return "BADSIG"
	case proto.Unmarshal(fwd.RegRespBytes, sr) != nil:
		return "BADBYTES"
	}
	return c12Resp(sr)
}

// c12RunUni: the same request through RegisterUnidirectional: nothing of a client-supplied response,
// serialized response or signature may be forwarded.
func c12RunUni(c *c12Case, out *vlib.Out) (res c12Out) {
	res.chosen = -1
	fail := func(sig, what string) { res.fails = append(res.fails, [2]string{sig, what}) }
	if c.rejected(&res) {
		return
	}
	snd := &c12Sender{fail: c.sendFail}
	p := c.processor(snd)
	req := c.request()
	orig := proto.Clone(req).(*pb.C2SWrapper)
	var err error
	var panicked any
	func() {
		defer func() { panicked = recover() }()
		err = p.RegisterUnidirectional(req, c.method, c.client)
	}()
	res.line = strings.Join([]string{"uni", c.cfgLine(p), c.reqLine(), strconv.Itoa(int(c.method)), c12HexOrDash(c.client), vlib.B(!c.sendFail)}, "|")
	switch {
	case panicked != nil:
		res.impl = "panic: " + fmt.Sprint(panicked)
		fail("C12:panic", "RegisterUnidirectional panicked: "+fmt.Sprint(panicked))
		return
	case err != nil:
		res.impl = "err"
		out.Count("uni:err")
		return
	}
	out.Count("uni:ok")
	fwd := &pb.C2SWrapper{}
	if len(snd.got) != 1 || proto.Unmarshal(snd.got[0], fwd) != nil {
		fail("C12:not-forwarded", fmt.Sprintf("a successful unidirectional registration published %d parsable messages", len(snd.got)))
		res.impl = "ok-but-not-forwarded"
		return
	}
	secretKept := string(fwd.SharedSecret) == string(orig.SharedSecret)
	payloadKept := proto.Equal(fwd.RegistrationPayload, orig.RegistrationPayload)
	res.impl = strings.Join([]string{"ok", "F=" + c12Resp(fwd.RegistrationResponse), "S=" + c12Signed(fwd),
		fmt.Sprintf("src=%d", int(fwd.GetRegistrationSource())), "addr=" + c12HexOrDash(fwd.RegistrationAddress),
		"keep=" + vlib.B(secretKept) + vlib.B(payloadKept)}, "|")
	res.ok, res.nontrivial = true, true
	if fwd.RegistrationResponse != nil {
		fail("C12:forged-response-used", "a unidirectional registration was forwarded with a RegistrationResponse: "+c12Resp(fwd.RegistrationResponse))
	}
	if len(fwd.RegRespBytes) != 0 || len(fwd.RegRespSignature) != 0 {
		fail("C12:forged-signature-forwarded", "a unidirectional registration was forwarded with RegRespBytes / RegRespSignature")
	}
	if !payloadKept {
		fail("C12:payload-changed", "the forwarded registration payload differs from the client's")
	}
	if !secretKept {
		fail("C12:secret-changed", "the forwarded shared secret differs from the client's")
	}
	return
}

type c12Out struct {
	line, impl string
	nontrivial bool
	ok         bool
	resp       *pb.RegistrationResponse
	chosen     int // index of the override subnet containing a substituted address, -1 none
	fails      [][2]string
	subs       []c12Sub // further correspondence cases made from this one (station side)
}

// c12InNet: does the address lie in the network the text designates (prefix arithmetic on the text)?
func c12InNet(cidr string, a uint32) bool { return c12MustNet(cidr).has(a) }

func c12Run(c *c12Case, out *vlib.Out) (res c12Out) {
	res.chosen = -1
	fail := func(sig, what string) { res.fails = append(res.fails, [2]string{sig, what}) }
	if c.rejected(&res) {
		return
	}
	snd := &c12Sender{fail: c.sendFail}
	p := c.processor(snd)
	req := c.request()
	orig := proto.Clone(req).(*pb.C2SWrapper)

	// what the collaborators answer on this request (parameters of the model)
	libver := uint(c.libver)
	var seed []byte
	if keys, err := core.GenSharedKeys(libver, req.SharedSecret, c.tr); err == nil {
		seed = keys.ConjureSeed
	}
	known, parseOK, portS := false, false, "e"
	if t, ok := p.transports[c.tr]; ok && !c.noPayload {
		known = true
		var a *anypb.Any
		if c.params != nil {
			a = proto.Clone(c.params).(*anypb.Any)
		}
		params, err := t.ParseParams(libver, a)
		parseOK = err == nil
		if parseOK {
			if port, err := t.GetDstPort(libver, seed, params); err == nil {
				portS = strconv.Itoa(int(port))
			}
		}
	}
	um := "e"
	{
		var a *anypb.Any
		if c.params != nil {
			a = proto.Clone(c.params).(*anypb.Any)
		}
		m := &pb.PrefixTransportParams{}
		if err := transports.UnmarshalAnypbTo(a, m); err == nil {
			um = c12PP(m)
		}
	}
	u := mrand.New(mrand.NewSource(c.seed)).Float64()
	// Float64 is float64(Int63()) / 2^63: an exact fraction k / 2^63
	uNum := uint64(u * (1 << 63))
	if float64(uNum)/(1<<63) != u {
		panic("float draw is not k/2^63")
	}

	// the call
	mrand.Seed(c.seed)
	var resp *pb.RegistrationResponse
	var err error
	var panicked any
	func() {
		defer func() { panicked = recover() }()
		resp, err = p.RegisterBidirectional(req, c.method, c.client)
	}()

	// the selector was asked with the seed derived from the client's secret, the client's generation and
	// library version, once per requested family (IPv4 first)
	{
		var want []bool
		if !c.noPayload && c.v4 {
			want = append(want, false)
		}
		if !c.noPayload && c.v6 && !(c.v4 && (c.sel.err4 || c.sel.v4.To4() == nil)) {
			want = append(want, true)
		}
		okArgs := len(c.sel.calls) == len(want)
		for i, k := range c.sel.calls {
			if !okArgs {
				break
			}
			okArgs = k.v6 == want[i] && k.seed == hex.EncodeToString(seed) && k.gen == uint(c.gen) && k.ver == libver
		}
		if !okArgs {
			fail("C12:selector-arguments", fmt.Sprintf("phantom selector called with %+v; expected families %v with seed %x, generation %d, library version %d",
				c.sel.calls, want, seed, c.gen, libver))
		}
		c.sel.calls = nil
	}

	// parameter override selected (for the model): known in advance except for the random prefix
	ov := "-"
	switch c.ovKind {
	case 1:
		px, _ := prefix.TryFromID(c.ovPrefix)
		ov = fmt.Sprintf("%d~%s~%d", int32(px.ID()), hex.EncodeToString(px.Bytes()), px.FlushPolicy())
	case 2:
		ov = "e"
		if resp != nil && resp.TransportParams != nil && c.tr == pb.TransportType_Prefix && !c.disable {
			m := &pb.PrefixTransportParams{}
			if e := proto.Unmarshal(resp.TransportParams.Value, m); e == nil && m.PrefixId != nil {
				// the prefix picked at random, read off the result (a later subnet override replaces it: see below)
				if px, e := prefix.TryFromID(prefix.PrefixID(*m.PrefixId)); e == nil && px != nil {
					ov = fmt.Sprintf("%d~%s~%d", int32(px.ID()), hex.EncodeToString(px.Bytes()), px.FlushPolicy())
				}
			}
		} else if um != "e" {
			// outcome does not reveal the pick (error elsewhere, or not applied): any valid pick gives the same answer
			px, _ := prefix.TryFromID(prefix.Min)
			ov = fmt.Sprintf("%d~%s~%d", int32(px.ID()), hex.EncodeToString(px.Bytes()), px.FlushPolicy())
		}
	case 3:
		ov = fmt.Sprintf("77~%s~%d", hex.EncodeToString([]byte("HELLO")), prefix.NoAddedFlush)
	}

	// model line
	cfg, reqS := c.cfgLine(p), c.reqLine()
	s4 := "e"
	if !c.sel.err4 {
		if c.sel.v4.To4() == nil {
			s4 = "n"
		} else {
			s4 = fmt.Sprintf("%d:%s", c12V4num(c.sel.v4), vlib.B(c.sel.rp4))
		}
	}
	s6 := "e"
	if !c.sel.err6 {
		s6 = fmt.Sprintf("%s:%s", hex.EncodeToString(c.sel.v6.To16()), vlib.B(c.sel.rp6))
	}
	hostDraw := uint32(0)
	if resp != nil && resp.Ipv4Addr != nil {
		hostDraw = *resp.Ipv4Addr
	}
	ext := strings.Join([]string{s4, s6, vlib.B(known), vlib.B(parseOK), ov, um, portS, "0", strconv.FormatUint(uNum, 10),
		strconv.FormatUint(1<<63, 10), strconv.FormatUint(uint64(hostDraw), 10), vlib.B(!c.sendFail)}, ",")
	res.line = strings.Join([]string{"registrar", cfg, reqS, ext, strconv.Itoa(int(c.method)), c12HexOrDash(c.client)}, "|")

	// implementation answer
	switch {
	case panicked != nil:
		res.impl = "panic To4"
		out.Count("outcome:panic-selector-contract")
		if !strings.Contains(fmt.Sprint(panicked), "index out of range") || c.sel.v4.To4() != nil {
			res.impl = "panic other: " + fmt.Sprint(panicked)
			fail("C12:panic", "RegisterBidirectional panicked: "+fmt.Sprint(panicked))
		}
		return
	case err != nil:
		res.impl = "err " + c12ErrKind(err)
		out.Count("outcome:err-" + c12ErrKind(err))
		return
	}
	res.ok, res.resp = true, resp
	out.Count("outcome:ok")
	if len(snd.got) != 1 {
		fail("C12:not-forwarded", fmt.Sprintf("a successful registration published %d messages", len(snd.got)))
		res.impl = "ok-but-not-forwarded"
		return
	}
	fwd := &pb.C2SWrapper{}
	if e := proto.Unmarshal(snd.got[0], fwd); e != nil {
		fail("C12:not-forwarded", "published bytes do not parse: "+e.Error())
		res.impl = "ok-but-unparsable"
		return
	}
	signed := c12Signed(fwd)
	secretKept := string(fwd.SharedSecret) == string(orig.SharedSecret)
	payloadKept := proto.Equal(fwd.RegistrationPayload, orig.RegistrationPayload) || c12SameButTypeURL(fwd.RegistrationPayload, orig.RegistrationPayload)
	res.impl = strings.Join([]string{"ok", "C=" + c12Resp(resp), "F=" + c12Resp(fwd.RegistrationResponse), "S=" + signed,
		fmt.Sprintf("src=%d", int(fwd.GetRegistrationSource())), "addr=" + c12HexOrDash(fwd.RegistrationAddress),
		"keep=" + vlib.B(secretKept) + vlib.B(payloadKept)}, "|")
	res.nontrivial = true

	// ---- oracle (independent of the model) ----
	// 1. the client's view is the forwarded view
	if !proto.Equal(resp, fwd.RegistrationResponse) {
		fail("C12:client-view-differs-from-forwarded", "returned "+c12Resp(resp)+" but forwarded "+c12Resp(fwd.RegistrationResponse))
	}
	if c.auth {
		if signed != c12Resp(resp) {
			fail("C12:signed-copy-differs", "signed copy "+signed+" vs returned "+c12Resp(resp))
		}
	} else if signed != "-" {
		fail("C12:forged-signature-forwarded", "an unauthenticated registrar forwarded RegRespBytes/RegRespSignature: "+signed)
	}
	if !payloadKept {
		fail("C12:payload-changed", "the forwarded registration payload differs from the client's")
	}
	if !secretKept {
		fail("C12:secret-changed", "the forwarded shared secret differs from the client's")
	}
	if len(fwd.ProtoReflect().GetUnknown()) != 0 || fwd.DecoyAddress != nil {
		// nothing else of the client's wrapper is forwarded (the request carries neither)
		fail("C12:forged-response-used", "the forwarded wrapper carries fields the registrar never sets")
	}
	// 2. forged fields are discarded
	if c.forged {
		if string(fwd.RegRespBytes) == "forged-response-bytes" || string(fwd.RegRespSignature) == "forged-signature" {
			fail("C12:forged-signature-forwarded", "client-supplied RegRespBytes / RegRespSignature reached the stations")
		}
		for _, r := range []*pb.RegistrationResponse{resp, fwd.RegistrationResponse} {
			if r.GetDstPort() == c12ForgedPort || (r.Ipv4Addr != nil && *r.Ipv4Addr == c12ForgedV4) ||
				(r.TransportParams != nil && r.TransportParams.TypeUrl == c12ForgedParams.TypeUrl) ||
				strings.HasPrefix(hex.EncodeToString(r.Ipv6Addr), "20010db80bad") {
				fail("C12:forged-response-used", "a field of the client-supplied RegistrationResponse survived: "+c12Resp(r))
			}
		}
	}
	// 3. parameter overrides only if allowed
	if c.disable && resp.TransportParams != nil {
		fail("C12:override-despite-disable", "client disabled registrar overrides but the response carries "+c12Params(resp.TransportParams))
	}
	// 4. substituted phantom: from a configured subnet of this transport, never for an excluded phantom
	var selected *uint32
	if c.v4 {
		a := c12V4num(c.sel.v4)
		selected = &a
	}
	substituted := (resp.Ipv4Addr == nil) != (selected == nil) || (selected != nil && *resp.Ipv4Addr != *selected)
	if substituted {
		var subs []c12Subnet
		switch c.tr {
		case pb.TransportType_Min:
			subs = c.minSub
		case pb.TransportType_Prefix:
			subs = c.pfxSub
		}
		if resp.Ipv4Addr != nil {
			for i, s := range subs {
				if s.weight > 0 && c12InNet(s.cidr, *resp.Ipv4Addr) {
					res.chosen = i
				}
			}
		}
		if res.chosen < 0 {
			var conf []string
			for _, s := range subs {
				conf = append(conf, fmt.Sprintf("%q (weight %v) = %v", s.cidr, s.weight, c12MustNet(s.cidr)))
			}
			fail("C12:substitute-outside-configured", fmt.Sprintf("selector gave %v, response carries %s, which is in no weighted override subnet configured for this transport: %s", c.sel.v4, c12Resp(resp), strings.Join(conf, ", ")))
		}
		if !c.enforce {
			fail("C12:substitute-outside-configured", "phantom substituted although subnet overrides are not enforced")
		}
		if selected != nil {
			// "never replaces a phantom that lies in an excluded subnet": any entry of the exclusion list, whatever
			// its other fields say and whatever the transport of the registration
			for _, e := range c.excl {
				if c12InNet(e.cidr, *selected) {
					fail("C12:excluded-replaced", fmt.Sprintf("phantom %v of a %v registration lies in the excluded subnet %v but was replaced by %s", c.sel.v4, c.tr, e, c12Resp(resp)))
				}
			}
		}
		out.Count("oracle:substituted")
		out.Count(fmt.Sprintf("substituted-from-subnet:%d", res.chosen))
	}
	// 5. the station ends up with the same phantom, port and parameters
	res.subs = c12StationOracle(c, snd.got[0], fwd, resp, out, fail)
	return
}

func c12SameButTypeURL(a, b *pb.ClientToStation) bool {
	// UnmarshalAnypbTo fills in / rewrites the type URL of the client's Any in place; nothing else may differ
	if a == nil || b == nil {
		return a == nil && b == nil
	}
	x, y := proto.Clone(a).(*pb.ClientToStation), proto.Clone(b).(*pb.ClientToStation)
	if x.TransportParams != nil && y.TransportParams != nil {
		x.TransportParams.TypeUrl, y.TransportParams.TypeUrl = "", ""
	}
	return proto.Equal(x, y)
}

// ---------------------------------------------------------------------------------------------
// station side

// c12ParsedTok: canonical token for transport parameters in the form the station keeps them (the
// message its transport parsed them into).
func c12ParsedTok(p any) string {
	if p == nil {
		return "-"
	}
	m, ok := p.(proto.Message)
	if !ok || !m.ProtoReflect().IsValid() {
		return "O:other"
	}
	b, err := proto.MarshalOptions{Deterministic: true}.Marshal(m)
	if err != nil {
		return "O:unmarshalable"
	}
	return "O:" + string(m.ProtoReflect().Descriptor().Name()) + "." + hex.EncodeToString(b)
}

// c12AnyTok: what the station's transport makes of an Any (real ParseParams as a parameter of the model).
func c12AnyTok(tr pb.TransportType, libver uint, a *anypb.Any) string {
	if a == nil {
		return "-"
	}
	if t, ok := c12StationTransports[tr]; ok {
		if p, err := t.ParseParams(libver, proto.Clone(a).(*anypb.Any)); err == nil && p != nil {
			return c12ParsedTok(p)
		}
	}
	return "O:unparsed." + hex.EncodeToString(a.Value)
}

func c12AddrTok(ip net.IP) string {
	if ip4 := ip.To4(); ip4 != nil {
		return fmt.Sprintf("4:%d", binary.BigEndian.Uint32(ip4))
	}
	return "r:" + hex.EncodeToString(ip)
}

func c12KindTok(ip net.IP) string {
	switch {
	case ip.To16() == nil:
		return "i"
	case ip.To4() != nil:
		return "4"
	}
	return "6"
}

func c12StationCall(w *pb.C2SWrapper, v6 bool) (reg *lib.DecoyRegistration, err error) {
	defer func() {
		if r := recover(); r != nil {
			reg, err = nil, fmt.Errorf("panic: %v", r)
		}
	}()
	reg, err = c12Station.NewRegistrationC2SWrapper(w, v6)
	if err == nil && reg == nil {
		err = errors.New("nil registration")
	}
	return
}

func c12StationErrKind(err error) string {
	m := err.Error()
	switch {
	case strings.HasPrefix(m, "panic:"):
		return "PANIC " + m
	case strings.Contains(m, "failed to build registration"), strings.Contains(m, "failed to generate keys"):
		return "build"
	case strings.Contains(m, "phantom override is not a valid address"):
		return "override"
	case strings.Contains(m, "registration address is not an IP address"):
		return "regaddr"
	case strings.Contains(m, "IPv6 client chose IPv4 phantom"):
		return "family"
	}
	return "other " + m
}

// c12RejectClass: a stable name for the reason a station refuses a wrapper (the text of the innermost
// error without numbers).
func c12RejectClass(err error) string {
	m := err.Error()
	if strings.Contains(m, "client couldn't support this transport") {
		return "client-version-cannot-support-transport"
	}
	if i := strings.LastIndex(m, ": "); i >= 0 && i+2 < len(m) {
		if _, e := strconv.Atoi(strings.TrimSpace(m[i+2:])); e != nil {
			m = m[i+2:]
		} else {
			m = m[:i]
			if j := strings.LastIndex(m, ": "); j >= 0 {
				m = m[j+2:]
			}
		}
	}
	var b strings.Builder
	dash := false
	for _, r := range strings.ToLower(m) {
		if r >= 'a' && r <= 'z' {
			b.WriteRune(r)
			dash = false
		} else if !dash && b.Len() > 0 {
			b.WriteByte('-')
			dash = true
		}
	}
	out := strings.Trim(b.String(), "-")
	if len(out) > 60 {
		out = out[:60]
	}
	if out == "" {
		out = "unknown"
	}
	return out
}

func c12RespLine(r *pb.RegistrationResponse, tr pb.TransportType, libver uint) string {
	if r == nil {
		return "-"
	}
	f := []string{"-", "-", "-", c12AnyTok(tr, libver, r.TransportParams)}
	if r.Ipv4Addr != nil {
		f[0] = strconv.FormatUint(uint64(*r.Ipv4Addr), 10)
	}
	if r.Ipv6Addr != nil {
		f[1] = hex.EncodeToString(r.Ipv6Addr)
	}
	if r.DstPort != nil {
		f[2] = strconv.FormatUint(uint64(*r.DstPort), 10)
	}
	return strings.Join(f, ",")
}

// c12StationCase runs the real NewRegistrationC2SWrapper on (a copy of) the wrapper for one family and
// builds the driver line for the model's stationApply: the station's own derivation is the same call on the
// wrapper without the response, once with the client's parameters and once with the response's.
func c12StationCase(w *pb.C2SWrapper, v6 bool) (line, impl string, reg *lib.DecoyRegistration) {
	w = proto.Clone(w).(*pb.C2SWrapper)
	if w.GetRegistrationAddress() == nil {
		w.RegistrationAddress = make([]byte, 16) // parseRegMessage
	}
	pl := w.GetRegistrationPayload()
	tr, libver := pl.GetTransport(), uint(pl.GetClientLibVersion())
	rr := w.GetRegistrationResponse()
	derived := func(params *anypb.Any) string {
		x := proto.Clone(w).(*pb.C2SWrapper)
		x.RegistrationResponse = nil
		if x.RegistrationPayload != nil {
			x.RegistrationPayload.TransportParams = nil
			if params != nil {
				x.RegistrationPayload.TransportParams = proto.Clone(params).(*anypb.Any)
			}
		}
		// the checks on the registrant's address are the model's, not part of the derivation
		x.RegistrationAddress = []byte{192, 0, 2, 1}
		r, err := c12StationCall(x, v6)
		if err != nil {
			return "f"
		}
		return fmt.Sprintf("%s:%d", c12AddrTok(r.PhantomIp), r.PhantomPort)
	}
	dC := derived(pl.GetTransportParams())
	dR := dC
	if rr.GetTransportParams() != nil {
		dR = derived(rr.GetTransportParams())
	}
	line = strings.Join([]string{"station", vlib.B(v6), vlib.B(pl.GetDisableRegistrarOverrides()),
		c12AnyTok(tr, libver, pl.GetTransportParams()), dC, dR, c12KindTok(net.IP(w.GetRegistrationAddress())),
		c12RespLine(rr, tr, libver)}, "|")
	var err error
	reg, err = c12StationCall(proto.Clone(w).(*pb.C2SWrapper), v6)
	if err != nil {
		return line, "reject " + c12StationErrKind(err), nil
	}
	impl = strings.Join([]string{"ok", c12AddrTok(reg.PhantomIp), strconv.Itoa(int(reg.PhantomPort)), c12ParsedTok(reg.TransportParams())}, "|")
	return line, impl, reg
}

type c12Sub struct {
	line, impl string
}

// c12StationOracle: the forwarded bytes through the real parseRegMessage; every registration the station
// builds carries the client's phantom (of its family), port and parameters, and the response never makes
// the station build fewer registrations than it builds from the same message without it.
func c12StationOracle(c *c12Case, raw []byte, fwd *pb.C2SWrapper, resp *pb.RegistrationResponse, out *vlib.Out, fail func(string, string)) (subs []c12Sub) {
	parse := func(b []byte) (regs []*lib.DecoyRegistration, err error) {
		defer func() {
			if r := recover(); r != nil {
				regs, err = nil, fmt.Errorf("panic: %v", r)
			}
		}()
		return c12Station.VerifC12ParseRegMessage(b)
	}
	regs, err := parse(raw)
	if err != nil && strings.HasPrefix(err.Error(), "panic:") {
		fail("C12:station-panic", "parseRegMessage panicked on the forwarded message: "+err.Error())
	}
	stripped := proto.Clone(fwd).(*pb.C2SWrapper)
	stripped.RegistrationResponse, stripped.RegRespBytes, stripped.RegRespSignature = nil, nil, nil
	sb, _ := proto.Marshal(stripped)
	bare, _ := parse(sb)
	out.Count(fmt.Sprintf("station:built-%d-of-%d", len(regs), len(bare)))
	if len(regs) < len(bare) {
		// the signature names the class of the station's refusal
		class, why := "unknown", error(nil)
		for _, v6 := range []bool{false, true} {
			if (v6 && fwd.GetRegistrationPayload().GetV6Support()) || (!v6 && fwd.GetRegistrationPayload().GetV4Support()) {
				if _, e := c12StationCall(proto.Clone(fwd).(*pb.C2SWrapper), v6); e != nil {
					class, why = c12RejectClass(e), e
					break
				}
			}
		}
		fail("C12:station-rejects-forwarded:"+class, fmt.Sprintf("the station builds %d registration(s) from the forwarded message but %d from the same message without the registrar's response %s (library version %d, transport %v): %v",
			len(regs), len(bare), c12Resp(fwd.RegistrationResponse), c.libver, c.tr, why))
	}
	clientAny := fwd.GetRegistrationPayload().GetTransportParams()
	for _, reg := range regs {
		v6 := reg.PhantomIp.To4() == nil
		fam := "IPv4"
		if v6 {
			fam = "IPv6"
		}
		out.Count("station:registration-" + fam)
		if v6 {
			if resp.Ipv6Addr != nil && !reg.PhantomIp.Equal(net.IP(resp.Ipv6Addr)) {
				fail("C12:station-phantom-differs", fmt.Sprintf("%s: client was told %v, station registered %v", fam, net.IP(resp.Ipv6Addr), reg.PhantomIp))
			}
		} else if resp.Ipv4Addr != nil && *resp.Ipv4Addr != 0 {
			ip := make(net.IP, 4)
			binary.BigEndian.PutUint32(ip, *resp.Ipv4Addr)
			if !reg.PhantomIp.Equal(ip) {
				fail("C12:station-phantom-differs", fmt.Sprintf("%s: client was told %v, station registered %v", fam, ip, reg.PhantomIp))
			}
		}
		if resp.DstPort != nil && uint32(reg.PhantomPort) != resp.GetDstPort() {
			fail("C12:station-port-differs", fmt.Sprintf("%s: client was told port %d, station registered %d", fam, resp.GetDstPort(), reg.PhantomPort))
		}
		// parameters: the response's if present and allowed, else the client's own
		eff := clientAny
		if resp.TransportParams != nil && !c.disable {
			eff = resp.TransportParams
		}
		var want any
		if t, ok := c12StationTransports[c.tr]; ok {
			var a *anypb.Any
			if eff != nil {
				a = proto.Clone(eff).(*anypb.Any)
			}
			want, _ = t.ParseParams(uint(c.libver), a)
		}
		if got := reg.TransportParams(); c12ParsedTok(got) != c12ParsedTok(want) {
			fail("C12:station-params-differ", fmt.Sprintf("%s: station registered parameters %v, client uses %v", fam, got, want))
		}
	}
	// the model of NewRegistrationC2SWrapper, for the families parseRegMessage may try
	for _, v6 := range []bool{false, true} {
		if (v6 && !fwd.GetRegistrationPayload().GetV6Support()) || (!v6 && !fwd.GetRegistrationPayload().GetV4Support()) {
			continue
		}
		line, impl, _ := c12StationCase(fwd, v6)
		subs = append(subs, c12Sub{line, impl})
		out.Count("station-case:" + strings.SplitN(impl, "|", 2)[0])
	}
	return
}

var c12StationTransports = map[pb.TransportType]lib.Transport{}

// ---------------------------------------------------------------------------------------------
// generators

var c12V4Pool = []string{"203.0.113.7", "198.18.5.9", "192.0.2.200", "10.77.1.3", "172.20.9.9"}
var c12Excl = [][]string{nil, {"203.0.113.0/24"}, {"198.18.0.0/15", "10.77.0.0/16"}, {"2001:db8::/32"}, {"192.0.2.0/24", "203.0.113.0/28"},
	{"203.0.113.99/24", "::ffff:198.18.77.1/111"}}

var c12SubnetSets = [][]c12Subnet{
	nil,
	{{"10.1.0.0/24", 1, 443, prefix.Min}},
	{{"10.1.0.0/24", 1, 443, prefix.Min}, {"10.2.0.0/24", 1, 80, prefix.GetLong}, {"10.3.0.0/24", 1, 22, prefix.OpenSSH2}},
	{{"10.1.0.0/24", 5, 443, prefix.TLSClientHello}, {"10.2.0.0/28", 0, 80, prefix.GetLong}, {"10.3.0.0/16", 3, 53, prefix.DNSOverTCP}, {"10.4.4.0/30", 2, 8080, prefix.HTTPResp}},
	{{"10.1.0.0/24", 0, 443, prefix.Min}, {"10.2.0.0/24", 0, 80, prefix.GetLong}},
	{{"2001:db8:5::/64", 1, 443, prefix.Min}, {"10.9.0.0/24", 1, 443, prefix.PostLong}},
	{{"10.1.0.0/24", 1, 443, prefix.PrefixID(55)}, {"10.2.0.0/24", 2, 80, prefix.GetLong}},
	{{"10.1.0.0/32", 7, 443, prefix.Min}, {"255.255.255.0/24", 1, 80, prefix.TLSAlertFatal}},
	// fractional weights (the configuration type is float64): a truncation to integers gives (0, 1, 0, 2)
	{{"10.1.0.0/24", 0.5, 443, prefix.Min}, {"10.2.0.0/24", 1.5, 80, prefix.GetLong}, {"10.3.0.0/24", 0.25, 22, prefix.OpenSSH2}, {"10.4.0.0/24", 2.75, 53, prefix.DNSOverTCP}},
	// all weights below one
	{{"10.1.0.0/24", 0.125, 443, prefix.TLSClientHello}, {"10.2.0.0/24", 0.375, 80, prefix.HTTPResp}, {"10.3.0.0/24", 0.5, 22, prefix.Min}},
	// very unequal weights
	{{"10.1.0.0/24", 5000, 443, prefix.Min}, {"10.2.0.0/24", 1, 80, prefix.GetLong}, {"10.3.0.0/24", 2500.5, 22, prefix.OpenSSH2}},
	// the same kind of networks as an operator may write them: host bits set (interface-style address, last
	// address), IPv4-mapped spellings, a single address, a prefix length with a leading zero
	{{"10.1.0.77/24", 1, 443, prefix.Min}, {"::ffff:10.2.0.0/120", 1, 80, prefix.GetLong}, {"::ffff:10.3.0.9/124", 2, 22, prefix.OpenSSH2}, {"10.4.4.4/32", 1, 53, prefix.DNSOverTCP}},
	{{"10.1.255.255/16", 3, 443, prefix.TLSClientHello}, {"0:0:0:0:0:FFFF:0a02:0001/120", 1, 80, prefix.HTTPResp}, {"10.3.0.129/25", 2, 22, prefix.Min}, {"2001:db8:5::1/128", 1, 443, prefix.Min}, {"10.5.0.200/024", 1, 8080, prefix.GetLong}},
	// 32 host bits: every IPv4 address (one weighted entry per set: which subnet an address came from stays decidable)
	{{"0.0.0.0/0", 2, 443, prefix.Min}, {"10.2.0.0/24", 0, 80, prefix.GetLong}},
	{{"10.1.2.3/0", 1, 8443, prefix.OpenSSH2}},
	{{"::ffff:10.1.2.3/96", 1, 8080, prefix.GetLong}, {"2001:db8:5::/64", 0, 443, prefix.Min}},
}

func c12PrefixAny(id *int32, rnd *bool, pre []byte, typed bool) *anypb.Any {
	m := &pb.PrefixTransportParams{PrefixId: id, RandomizeDstPort: rnd, Prefix: pre}
	a, _ := anypb.New(m)
	if !typed {
		a.TypeUrl = ""
	}
	return a
}

func c12GenericAny(rnd *bool) *anypb.Any {
	a, _ := anypb.New(&pb.GenericTransportParams{RandomizeDstPort: rnd})
	return a
}

func c12Random(r *vlib.Rand) *c12Case {
	c := &c12Case{transport: map[pb.TransportType]bool{}}
	c.auth = r.Bool()
	c.ovKind = r.Intn(5)
	c.ovPrefix = prefix.PrefixID(r.Intn(10))
	c.enforce = r.Chance(3, 4)
	c.minSub = c12SubnetSets[r.Intn(len(c12SubnetSets))]
	c.pfxSub = c12SubnetSets[r.Intn(len(c12SubnetSets))]
	c.excl = c12RandomExcl(r, c12Excl[r.Intn(len(c12Excl))])
	// the same networks spelled differently (host bits, IPv4-mapped forms, leading zero in the prefix length)
	if r.Chance(1, 4) {
		c.minSub = c12RespellSet(c.minSub, r.Intn(c12Spellings))
		c.pfxSub = c12RespellSet(c.pfxSub, r.Intn(c12Spellings))
		c.excl = c12RespellExcl(c.excl, r.Intn(c12Spellings))
	}
	pcts := []float64{100, 100, 100, 0}
	c.pctMin, c.pctPfx = pcts[r.Intn(4)], pcts[r.Intn(4)]
	c.sel = c12Selector{v4: net.ParseIP(c12V4Pool[r.Intn(len(c12V4Pool))]), v6: net.ParseIP(fmt.Sprintf("2001:db8:77::%x", r.Intn(60000)+1)),
		rp4: r.Chance(3, 4), rp6: r.Chance(3, 4), err4: r.Chance(1, 25), err6: r.Chance(1, 25)}
	if r.Chance(1, 80) {
		c.sel.v4 = net.ParseIP("2001:db8::4") // a selector that breaks its contract
	}
	c.sendFail = r.Chance(1, 30)
	c.transport[pb.TransportType_Min] = r.Chance(9, 10)
	c.transport[pb.TransportType_Prefix] = r.Chance(9, 10)
	c.noPayload = r.Chance(1, 40)
	c.secretLen = 32
	if r.Chance(1, 20) {
		c.secretLen = r.Intn(10)
	}
	c.v4, c.v6 = r.Chance(4, 5), r.Chance(1, 2)
	switch r.Intn(10) {
	case 0:
		c.tr = pb.TransportType_Obfs4
	case 1, 2, 3, 4:
		c.tr = pb.TransportType_Min
	default:
		c.tr = pb.TransportType_Prefix
	}
	c.disable = r.Chance(1, 3)
	c.libver = 4
	if r.Chance(1, 10) {
		c.libver = uint32(r.Intn(4))
	}
	c.gen = 1
	tb, fb := true, false
	rnds := []*bool{nil, &tb, &fb}
	if c.tr == pb.TransportType_Prefix {
		switch r.Intn(8) {
		case 0:
			c.params = nil
		case 1:
			c.params = c12GenericAny(rnds[r.Intn(3)]) // wrong type for this transport
		case 2:
			id := int32(77) // unknown prefix
			c.params = c12PrefixAny(&id, rnds[r.Intn(3)], nil, true)
		default:
			id := int32(r.Intn(10))
			var pre []byte
			if r.Chance(1, 4) {
				pre = []byte("CLIENTPREFIX")
			}
			c.params = c12PrefixAny(&id, rnds[r.Intn(3)], pre, r.Chance(3, 4))
		}
	} else if r.Chance(2, 3) {
		c.params = c12GenericAny(rnds[r.Intn(3)])
	}
	srcs := []pb.RegistrationSource{pb.RegistrationSource_Unspecified, pb.RegistrationSource_API, pb.RegistrationSource_BidirectionalAPI, pb.RegistrationSource_BidirectionalDNS, pb.RegistrationSource_Detector}
	c.source = srcs[r.Intn(len(srcs))]
	if r.Bool() {
		c.regAddr = net.ParseIP("198.51.100.23").To16()
		if r.Chance(1, 4) {
			c.regAddr = net.ParseIP("2001:db8:c::1")
		}
	}
	c.forged = r.Chance(1, 2)
	c.method = []pb.RegistrationSource{pb.RegistrationSource_BidirectionalAPI, pb.RegistrationSource_BidirectionalDNS, pb.RegistrationSource_API}[r.Intn(3)]
	switch r.Intn(4) {
	case 0:
		c.client = nil
	case 1:
		c.client = net.ParseIP("2001:db8:c::2")
	default:
		c.client = net.ParseIP("198.51.100.7").To4()
	}
	c.seed = int64(r.Intn(1 << 30))
	return c
}

// seedFor finds a math/rand seed whose first Float64 lies strictly inside (lo, hi).
func c12SeedFor(lo, hi float64, start int64) int64 {
	key := [3]float64{lo, hi, float64(start)}
	if s, ok := c12SeedMemo[key]; ok {
		return s
	}
	m := (hi - lo) / 8
	for s := start; ; s++ {
		u := mrand.New(mrand.NewSource(s)).Float64()
		if u > lo+m && u < hi-m {
			c12SeedMemo[key] = s
			return s
		}
	}
}

var c12SeedMemo = map[[3]float64]int64{}

// ---------------------------------------------------------------------------------------------

func c12Setup(t *testing.T) string {
	dir, err := os.MkdirTemp("", "verif-c12-")
	if err != nil {
		t.Fatal(err)
	}
	toml := `
[Networks]
    [Networks.1]
        Generation = 1
        [[Networks.1.WeightedSubnets]]
            Weight = 1
            RandomizeDstPort = true
            Subnets = ["100.64.0.0/16", "2001:db8:100::/64"]
`
	path := filepath.Join(dir, "phantom_subnets.toml")
	if err := os.WriteFile(path, []byte(toml), 0o644); err != nil {
		t.Fatal(err)
	}
	os.Setenv("PHANTOM_SUBNET_LOCATION", path)
	lg := log.New()
	lg.SetOutput(io.Discard)
	c12Metrics = metrics.NewMetrics(log.NewEntry(lg), 24*time.Hour)
	seed := make([]byte, ed25519.SeedSize)
	for i := range seed {
		seed[i] = byte(i + 3)
	}
	c12Priv = ed25519.NewKeyFromSeed(seed)
	c12Pub = c12Priv.Public().(ed25519.PublicKey)
	c12ForgedParams = &anypb.Any{TypeUrl: "type.googleapis.com/forged.Marker", Value: []byte{1, 2, 3}}
	// keep the station's own logging out of the test output
	devnull, _ := os.OpenFile(os.DevNull, os.O_WRONLY, 0)
	saved := os.Stdout
	os.Stdout = devnull
	c12Station = lib.NewRegistrationManager(&lib.RegConfig{EnableIPv4: true, EnableIPv6: true})
	os.Stdout = saved
	if c12Station == nil {
		t.Fatal("station RegistrationManager could not be built")
	}
	c12Station.Logger = stationlog.New(io.Discard, "", 0)
	c12StationTransports[pb.TransportType_Min] = min.Transport{}
	// the station knows the prefixes the registrar's override file names (id 77 of the parsed-prefixes
	// override below): a deployment in which the registrar hands out prefixes its stations do not know is a
	// configuration error, not a property of the code
	stPrefix := prefix.DefaultSet()
	stPrefix.SupportedPrefixes[prefix.PrefixID(77)] = stPrefix.SupportedPrefixes[prefix.Min]
	c12StationTransports[pb.TransportType_Prefix] = stPrefix
	for k, v := range c12StationTransports {
		if err := c12Station.AddTransport(k, v); err != nil {
			t.Fatal(err)
		}
	}
	a, b := func() float64 { mrand.Seed(42); return mrand.Float64() }(), mrand.New(mrand.NewSource(42)).Float64()
	if a != b {
		t.Fatalf("re-seeding the global math/rand source does not determine the next Float64 (%v vs %v)", a, b)
	}
	return dir
}

func c12Base() *c12Case {
	return &c12Case{
		transport: map[pb.TransportType]bool{pb.TransportType_Min: true, pb.TransportType_Prefix: true},
		enforce:   true, pctMin: 100, pctPfx: 100,
		sel:       c12Selector{v4: net.ParseIP("203.0.113.7"), v6: net.ParseIP("2001:db8:77::1"), rp4: true, rp6: true},
		secretLen: 32, v4: true, tr: pb.TransportType_Min, libver: 4, gen: 1,
		method: pb.RegistrationSource_BidirectionalAPI, client: net.ParseIP("198.51.100.7").To4(),
	}
}

type c12Emit func(kind string, n int, res c12Out, oracleOnly bool)

// sweep: for every weighted subnet a draw in the middle of its interval must select it.
func c12Sweep(sink *vlib.Out, emit c12Emit, tag string, subs []c12Subnet, tr pb.TransportType) {
	total := 0.0
	for _, s := range subs {
		total += s.weight
	}
	if total == 0 {
		return
	}
	acc, n := 0.0, 0
	for i, s := range subs {
		lo, hi := acc/total, (acc+s.weight)/total
		acc += s.weight
		if s.weight == 0 || !c12MustNet(s.cidr).v4 {
			continue
		}
		for k := 0; k < 3; k++ {
			c := c12Base()
			c.tr = tr
			if tr == pb.TransportType_Prefix {
				id := int32(prefix.Min)
				c.params = c12PrefixAny(&id, nil, nil, true)
				c.pfxSub = subs
			} else {
				c.minSub = subs
			}
			c.auth = k == 1
			c.seed = c12SeedFor(lo, hi, int64(1000*i+333*k))
			res := c12Run(c, sink)
			want := i
			if tr == pb.TransportType_Prefix {
				// a subnet whose prefix id does not exist cannot be applied (configuration error): the
				// registrar keeps the original response
				if px, err := prefix.TryFromID(s.prefixID); err != nil || px == nil {
					want = -1
				}
			}
			if res.ok && res.chosen != want {
				got := "no override subnet (phantom not replaced)"
				if res.chosen >= 0 {
					got = fmt.Sprintf("subnet %d (%s)", res.chosen, subs[res.chosen].cidr)
				}
				res.fails = append(res.fails, [2]string{"C12:weighted-subnet-unreachable",
					fmt.Sprintf("draw u=%.6f lies in the interval [%.6f,%.6f) of subnet %d (%s, weight %v of %v) but the registrar used %s",
						mrand.New(mrand.NewSource(c.seed)).Float64(), lo, hi, i, s.cidr, s.weight, total, got)})
			}
			sink.Count("gen:sweep")
			emit(tag, n, res, false)
			n++
		}
	}
}

func TestVerifC12(t *testing.T) {
	dir := c12Setup(t)
	defer os.RemoveAll(dir)
	out := vlib.Open("C12")
	defer out.Close()

	if rp := vlib.Replay(); rp != "" {
		f, err := os.Open(rp)
		if err != nil {
			t.Fatal(err)
		}
		defer f.Close()
		scn := bufio.NewScanner(f)
		scn.Buffer(make([]byte, 1<<20), 1<<20)
		for scn.Scan() {
			line := scn.Text()
			if !strings.HasPrefix(line, "c12case|") {
				continue
			}
			p := strings.SplitN(line, "|", 5)
			var seed int64
			var n int
			fmt.Sscanf(p[1], "seed=%d", &seed)
			kind := strings.TrimPrefix(p[2], "kind=")
			fmt.Sscanf(p[3], "n=%d", &n)
			os.Setenv("VERIF_SEED", strconv.FormatInt(seed, 10))
			// regenerate everything into a scratch sink; only the named case is reported, verbosely
			scratch := vlib.Open("C12scratch")
			c12All(scratch, func(k string, i int, res c12Out, oracleOnly bool) {
				if k != kind || i != n {
					return
				}
				fmt.Printf("replay %s #%d\n  case : %s\n  impl : %s\n", k, i, res.line, res.impl)
				for _, f := range res.fails {
					fmt.Printf("  ORACLE %s: %s\n", f[0], f[1])
				}
				c12Report(out, k, i, res, oracleOnly)
			})
			scratch.Close()
		}
		return
	}
	c12All(out, func(k string, i int, res c12Out, oracleOnly bool) { c12Report(out, k, i, res, oracleOnly) })
}

func c12Report(out *vlib.Out, tag string, n int, res c12Out, oracleOnly bool) {
	if !oracleOnly {
		out.Case(res.line, res.impl, res.nontrivial)
	}
	for _, sub := range res.subs {
		out.Case(sub.line, sub.impl, strings.HasPrefix(sub.impl, "ok"))
	}
	out.Checked()
	for _, f := range res.fails {
		out.OracleFail(f[0], f[1], fmt.Sprintf("c12case|seed=%d|kind=%s|n=%d|%s", vlib.Seed(), tag, n, res.line))
	}
}

// c12ExclGrid: exhaustive over what an exclusion entry can say (8 transport labels x other fields unset /
// set as in the shipped configuration) x the transport of the registration (Min, Prefix with overrides
// allowed / disabled) x where the entry stands in the list (alone, behind / in front of an entry that does
// not contain the phantom and is labelled with the registration's own or the other transport) x phantom
// inside / outside the entry's network x plain / authenticated registrar with a parameter override.  One
// weighted IPv4 override subnet per transport and 100 %, so that the only thing that can keep the selector's
// phantom is the exclusion list: inside => kept (C12:excluded-replaced otherwise), outside => moved into
// the override subnet of the registration's transport.
func c12ExclGrid(sink *vlib.Out, emit c12Emit) {
	id0 := int32(prefix.Min)
	n := 0
	type reg struct {
		tr      pb.TransportType
		disable bool
	}
	regs := []reg{{pb.TransportType_Min, false}, {pb.TransportType_Prefix, false}, {pb.TransportType_Prefix, true}, {pb.TransportType_Min, true}}
	for _, label := range c12ExclLabels {
		for full := 0; full < 2; full++ {
			entry := c12ExclEntry{cidr: "203.0.113.0/25", transport: label}
			if full == 1 {
				entry.weight, entry.port, entry.prefixID = 28.75, 80, prefix.GetLong
			}
			for _, rg := range regs {
				own, other := "Min_Transport", "Prefix_Transport"
				if rg.tr == pb.TransportType_Prefix {
					own, other = other, own
				}
				lists := [][]c12ExclEntry{
					{entry},
					{{cidr: "192.0.2.0/24", transport: other}, entry},
					{entry, {cidr: "192.0.2.0/24", transport: own}},
					{{cidr: "2001:db8::/32", transport: own}, {cidr: "192.0.2.0/24"}, entry},
				}
				for _, list := range lists {
					for inside := 0; inside < 2; inside++ {
						for k := 0; k < 2; k++ {
							c := c12Base()
							c.tr, c.disable = rg.tr, rg.disable
							c.minSub, c.pfxSub = c12SubnetSets[1], []c12Subnet{{"10.8.0.0/24", 2, 8443, prefix.OpenSSH2}}
							c.excl = list
							c.auth = k == 1
							if k == 1 {
								c.ovKind, c.ovPrefix, c.v6 = 1, prefix.TLSClientHello, true
							}
							if rg.tr == pb.TransportType_Prefix {
								c.params = c12PrefixAny(&id0, nil, nil, true)
							}
							c.sel.v4 = net.ParseIP("203.0.113.7")
							if inside == 0 {
								c.sel.v4 = net.ParseIP("203.0.113.200") // same /24, outside the /25
							}
							c.seed = int64(n)
							res := c12Run(c, sink)
							moves := !(rg.tr == pb.TransportType_Prefix && rg.disable)
							if res.ok && inside == 0 && moves && res.chosen != 0 {
								res.fails = append(res.fails, [2]string{"C12:weighted-subnet-unreachable",
									fmt.Sprintf("a %v registration whose phantom %v lies in no excluded subnet (%v), on a registrar that overrides 100 %% into one weighted subnet, kept its phantom: %s",
										c.tr, c.sel.v4, list, c12Resp(res.resp))})
							}
							sink.Count("gen:exclusion-grid")
							sink.Count(fmt.Sprintf("exclusion-grid:label=%s,reg=%d,inside=%d", c12LabelTok(label), int(rg.tr), inside))
							emit("exclgrid", n, res, false)
							n++
						}
					}
				}
			}
		}
	}
}

// c12All runs every generator; each case is identified by (kind, index) and regenerated from VERIF_SEED.
func c12All(sink *vlib.Out, emit c12Emit) {
	// 1. sweeps over the weighted choice (every weighted subnet must be reachable)
	for si, subs := range c12SubnetSets {
		for _, tr := range []pb.TransportType{pb.TransportType_Min, pb.TransportType_Prefix} {
			c12Sweep(sink, emit, fmt.Sprintf("sweep%d.%d", si, int(tr)), subs, tr)
		}
	}

	// 2. corpus of hand-written cases
	for i, c := range c12Corpus() {
		emit("corpus", i, c12Run(c, sink), false)
		sink.Count("gen:corpus")
	}

	// 2b. every exclusion entry x every registration transport
	c12ExclGrid(sink, emit)

	// 2c. the text of the subnet configuration: the decoder alone, then prefix length x host bits x spelling
	c12CidrLines(sink, emit)
	c12CidrGrid(sink, emit)

	// 3. random cases (0 % / 100 % only: the gate draw is then irrelevant) + twin runs for forged fields
	N := vlib.Budget(30000, 400000)
	for i := 0; i < N; i++ {
		r := vlib.NewRand(fmt.Sprintf("C12/random/%d", i))
		c := c12Random(r)
		res := c12Run(c, sink)
		if c.forged && res.ok && !c.enforce && c.ovKind != 2 {
			// the same request without the forged fields must be answered identically
			c2 := *c
			c2.forged = false
			res2 := c12Run(&c2, sink)
			if res2.impl != res.impl {
				res.fails = append(res.fails, [2]string{"C12:forged-response-used", "answer with forged fields: " + res.impl + " / without: " + res2.impl})
			}
			sink.Count("oracle:twin-run")
		}
		emit("random", i, res, false)
		sink.Count("gen:random")
		sink.Count(fmt.Sprintf("transport:%d", int(c.tr)))
		sink.Count(fmt.Sprintf("override-kind:%d", c.ovKind))
	}

	// 4. intermediate percentages: the gate draw is unknown, so oracle only
	M := vlib.Budget(6000, 80000)
	for i := 0; i < M; i++ {
		r := vlib.NewRand(fmt.Sprintf("C12/pct/%d", i))
		c := c12Random(r)
		c.enforce = true
		c.pctMin = []float64{37.5, 50, -3, 250, 99.99, 0.01}[r.Intn(6)]
		c.pctPfx = []float64{12.5, 50, 1000, 80}[r.Intn(4)]
		emit("pct", i, c12Run(c, sink), true)
		sink.Count("gen:percent-oracle-only")
	}

	// 5. the same requests as unidirectional registrations
	U := vlib.Budget(4000, 50000)
	for i := 0; i < U; i++ {
		r := vlib.NewRand(fmt.Sprintf("C12/uni/%d", i))
		c := c12Random(r)
		c.forged = r.Chance(3, 4)
		emit("uni", i, c12RunUni(c, sink), false)
		sink.Count("gen:unidirectional")
	}

	// 6. the station's rule on wrappers made by hand: every way a response can be absent, malformed or of
	// the wrong family, every kind of registrant address (correspondence only)
	S := vlib.Budget(5000, 60000)
	for i := 0; i < S; i++ {
		r := vlib.NewRand(fmt.Sprintf("C12/station/%d", i))
		w := c12StationWrapper(r)
		res := c12Out{chosen: -1}
		for _, v6 := range []bool{false, true} {
			line, impl, _ := c12StationCase(w, v6)
			if strings.HasPrefix(impl, "reject PANIC") || strings.HasPrefix(impl, "reject other") {
				res.fails = append(res.fails, [2]string{"C12:station-panic", "NewRegistrationC2SWrapper: " + impl})
			}
			res.subs = append(res.subs, c12Sub{line, impl})
			sink.Count("station-direct:" + strings.SplitN(impl, "|", 2)[0])
		}
		res.line = res.subs[0].line
		emit("station", i, res, true)
		sink.Count("gen:station-direct")
	}

	// 7. the processor built by the authenticated constructor, swept as it is
	c12CtorSweep(sink, emit)
}

// c12StationWrapper: a wrapper as a station could receive it, made by hand.
func c12StationWrapper(r *vlib.Rand) *pb.C2SWrapper {
	c := c12Random(r)
	c.noPayload, c.secretLen, c.forged, c.gen = false, 32, false, 1
	if c.tr == pb.TransportType_Obfs4 {
		c.tr = pb.TransportType_Min
	}
	if c.tr == pb.TransportType_Prefix && r.Chance(2, 3) {
		id := int32(r.Intn(10))
		c.params = c12PrefixAny(&id, nil, nil, true)
		c.libver = 4
	}
	w := c.request()
	switch r.Intn(7) {
	case 0:
		w.RegistrationAddress = nil
	case 1:
		w.RegistrationAddress = net.ParseIP("198.51.100.23").To4()
	case 2:
		w.RegistrationAddress = net.ParseIP("198.51.100.23").To16()
	case 3:
		w.RegistrationAddress = net.ParseIP("2001:db8:c::1")
	case 4:
		w.RegistrationAddress = []byte{1, 2, 3, 4, 5}
	case 5:
		w.RegistrationAddress = make([]byte, 16)
	case 6:
		w.RegistrationAddress = make([]byte, 17)
	}
	if r.Chance(1, 8) {
		return w
	}
	rr := &pb.RegistrationResponse{}
	switch r.Intn(4) {
	case 0:
		rr.Ipv4Addr = proto.Uint32(0)
	case 1, 2:
		rr.Ipv4Addr = proto.Uint32(c12V4num(net.ParseIP(c12V4Pool[r.Intn(len(c12V4Pool))])))
	}
	switch r.Intn(8) {
	case 0:
		rr.Ipv6Addr = []byte{}
	case 1:
		rr.Ipv6Addr = net.ParseIP("10.20.30.40").To4()
	case 2:
		rr.Ipv6Addr = net.ParseIP("10.20.30.40").To16()
	case 3:
		rr.Ipv6Addr = []byte{1, 2, 3, 4, 5}
	case 4, 5, 6:
		rr.Ipv6Addr = net.ParseIP(fmt.Sprintf("2001:db8:99::%x", r.Intn(60000)+1))
	}
	switch r.Intn(6) {
	case 0:
		rr.DstPort = proto.Uint32(443)
	case 1:
		rr.DstPort = proto.Uint32(70000)
	case 2:
		rr.DstPort = proto.Uint32(65536)
	case 3, 4:
		rr.DstPort = proto.Uint32(uint32(r.Intn(65536)))
	}
	tb := true
	switch r.Intn(7) {
	case 0:
		id := int32(r.Intn(10))
		rr.TransportParams = c12PrefixAny(&id, nil, nil, true)
	case 1:
		id := int32(77)
		rr.TransportParams = c12PrefixAny(&id, &tb, []byte("HELLO"), true)
	case 2:
		id := int32(55)
		rr.TransportParams = c12PrefixAny(&id, nil, nil, true)
	case 3:
		rr.TransportParams = c12GenericAny(&tb)
	case 4:
		rr.TransportParams = proto.Clone(c12ForgedParams).(*anypb.Any)
	}
	w.RegistrationResponse = rr
	return w
}

var c12AuthProc *RegProcessor
var c12AuthCase = func() *c12Case {
	c := c12Base()
	c.auth, c.ovKind, c.enforce = true, 2, true
	c.minSub, c.pfxSub = c12SubnetSets[3], c12SubnetSets[8]
	// exclusion entries written like the one in the shipped reg_config.toml (every field set)
	c.excl = []c12ExclEntry{{"198.18.0.0/15", "Min_Transport", 28.75, 80, prefix.Min}, {"10.77.0.0/16", "Prefix_Transport", 1, 443, prefix.GetLong}}
	c.pctMin, c.pctPfx = 100, 100
	return c
}

// c12CtorSweep: newRegProcessor (the constructor behind NewRegProcessor: zmq socket with CURVE
// authentication, the deployed override list) is run once per process; its derived fields must equal
// those of NewRegProcessorNoAuth for the same configuration, and a sweep over both transports' override
// subnets goes through the processor it returned.
func c12CtorSweep(sink *vlib.Out, emit c12Emit) {
	proto0 := c12AuthCase()
	all, ex, _, _ := proto0.config()
	var res0 c12Out
	res0.chosen = -1
	if c12AuthProc == nil {
		p, err := newRegProcessor("127.0.0.1", 0, c12Priv, false, nil, proto0.enforce, all, ex, proto0.pctMin, proto0.pctPfx)
		if err != nil {
			panic("c12: newRegProcessor failed: " + err.Error())
		}
		p.sock.Close() // the ZAP handler stays up: it cannot be restarted within one process
		_ = p.AddTransport(pb.TransportType_Min, min.Transport{})
		_ = p.AddTransport(pb.TransportType_Prefix, prefix.DefaultSet())
		c12AuthProc = p
	}
	p := c12AuthProc
	b := proto0.processor(&c12Sender{}) // the fields NewRegProcessorNoAuth derives from the same configuration
	same := p.enforceSubnetOverrides == b.enforceSubnetOverrides &&
		reflect.DeepEqual(p.minOverrideSubnets, b.minOverrideSubnets) && reflect.DeepEqual(p.prefixOverrideSubnets, b.prefixOverrideSubnets) &&
		reflect.DeepEqual(p.minOverrideSubnetsCumulativeWeights, b.minOverrideSubnetsCumulativeWeights) &&
		reflect.DeepEqual(p.prefixOverrideSubnetsCumulativeWeights, b.prefixOverrideSubnetsCumulativeWeights) &&
		reflect.DeepEqual(p.exclusionsFromOverride, b.exclusionsFromOverride) &&
		p.prcntMinRegsToOverride == b.prcntMinRegsToOverride && p.prcntPrefixRegsToOverride == b.prcntPrefixRegsToOverride
	if !same {
		res0.fails = append(res0.fails, [2]string{"C12:constructors-disagree",
			"newRegProcessor and NewRegProcessorNoAuth derive different override subnets / weights / exclusions / percentages from the same configuration"})
	}
	if !p.authenticated || string(p.privkey) != string(c12Priv) {
		res0.fails = append(res0.fails, [2]string{"C12:constructors-disagree", "newRegProcessor did not keep the signing key / is not authenticated"})
	}
	if len(p.regOverrides) != 1 {
		sink.Note(fmt.Sprintf("newRegProcessor installs %d registration overrides (the model assumes one)", len(p.regOverrides)))
	} else if _, ok := p.regOverrides[0].(*overrides.RandPrefixOverride); !ok {
		sink.Note(fmt.Sprintf("newRegProcessor installs a %T, not the random prefix override the sweep assumes", p.regOverrides[0]))
		return
	}
	res0.line = "ctor"
	emit("ctor-fields", 0, res0, true)
	n := 0
	for _, tr := range []pb.TransportType{pb.TransportType_Min, pb.TransportType_Prefix} {
		subs := proto0.minSub
		if tr == pb.TransportType_Prefix {
			subs = proto0.pfxSub
		}
		total, acc := 0.0, 0.0
		for _, s := range subs {
			total += s.weight
		}
		for i, s := range subs {
			lo, hi := acc/total, (acc+s.weight)/total
			acc += s.weight
			if s.weight == 0 {
				continue
			}
			for k := 0; k < 2; k++ {
				c := c12AuthCase()
				c.prebuilt = p
				c.tr = tr
				c.forged = k == 1
				c.v6 = k == 1
				if tr == pb.TransportType_Prefix {
					id := int32(prefix.Min)
					c.params = c12PrefixAny(&id, nil, nil, true)
				}
				c.seed = c12SeedFor(lo, hi, int64(7000*i+91*k))
				res := c12Run(c, sink)
				if res.ok && res.chosen != i {
					res.fails = append(res.fails, [2]string{"C12:weighted-subnet-unreachable",
						fmt.Sprintf("processor built by newRegProcessor: the draw lies in the interval [%.6f,%.6f) of subnet %d (%s) but subnet index %d was used", lo, hi, i, s.cidr, res.chosen)})
				}
				if !res.ok {
					res.fails = append(res.fails, [2]string{"C12:constructors-disagree", "a plain registration failed on the processor built by newRegProcessor: " + res.impl})
				}
				emit("ctor", n, res, false)
				sink.Count("gen:ctor-sweep")
				n++
			}
		}
	}
}

func c12Corpus() []*c12Case {
	var l []*c12Case
	add := func(f func(c *c12Case)) {
		c := c12Base()
		f(c)
		l = append(l, c)
	}
	id0, id1 := int32(prefix.Min), int32(prefix.GetLong)
	tb := true
	// plain dual-stack Min registration, nothing configured
	add(func(c *c12Case) { c.enforce = false; c.v6 = true })
	// forged response / signature, authenticated and not
	add(func(c *c12Case) { c.enforce = false; c.forged = true })
	add(func(c *c12Case) { c.enforce = false; c.forged = true; c.auth = true; c.v6 = true })
	// prefix transport: fixed override allowed / disabled by the client
	add(func(c *c12Case) {
		c.enforce = false
		c.tr = pb.TransportType_Prefix
		c.params = c12PrefixAny(&id0, &tb, nil, true)
		c.ovKind, c.ovPrefix = 1, prefix.OpenSSH2
	})
	add(func(c *c12Case) {
		c.enforce = false
		c.tr = pb.TransportType_Prefix
		c.params = c12PrefixAny(&id0, &tb, nil, true)
		c.ovKind, c.ovPrefix = 1, prefix.OpenSSH2
		c.disable = true
		c.auth = true
	})
	// parsed prefixes override (id outside the default set), random prefix override
	add(func(c *c12Case) {
		c.enforce = false
		c.tr = pb.TransportType_Prefix
		c.params = c12PrefixAny(&id1, nil, nil, false)
		c.ovKind = 3
	})
	add(func(c *c12Case) {
		c.enforce = false
		c.tr = pb.TransportType_Prefix
		c.params = c12PrefixAny(&id1, nil, nil, true)
		c.ovKind = 2
		c.v6 = true
	})
	// subnet overrides: Min, Prefix, excluded phantom, v6-only client, phantoms without random ports
	add(func(c *c12Case) { c.minSub = c12SubnetSets[2]; c.seed = c12SeedFor(0.0, 0.33, 1) })
	add(func(c *c12Case) { c.minSub = c12SubnetSets[2]; c.seed = c12SeedFor(0.34, 0.66, 1); c.forged = true; c.auth = true })
	add(func(c *c12Case) { c.minSub = c12SubnetSets[2]; c.excl = c12PlainExcl("203.0.113.0/24") })
	// the exclusion entry of the shipped reg_config.toml (weight, port and transport = "Min_Transport" set) in
	// front of a Prefix registration, and an entry labelled Prefix_Transport in front of a Min registration
	add(func(c *c12Case) {
		c.tr = pb.TransportType_Prefix
		c.params = c12PrefixAny(&id0, nil, nil, true)
		c.pfxSub = c12SubnetSets[2]
		c.excl = []c12ExclEntry{{"203.0.113.0/25", "Min_Transport", 28.75, 80, prefix.Min}}
	})
	add(func(c *c12Case) {
		c.minSub = c12SubnetSets[2]
		c.excl = []c12ExclEntry{{"203.0.113.0/25", "Prefix_Transport", 10, 443, prefix.GetLong}}
		c.auth, c.v6 = true, true
	})
	add(func(c *c12Case) { c.minSub = c12SubnetSets[2]; c.v4 = false; c.v6 = true; c.client = net.ParseIP("2001:db8:c::2") })
	add(func(c *c12Case) {
		c.tr = pb.TransportType_Prefix
		c.params = c12PrefixAny(&id0, &tb, nil, true)
		c.pfxSub = c12SubnetSets[3]
		c.seed = c12SeedFor(0.51, 0.79, 1)
		c.ovKind, c.ovPrefix = 1, prefix.TLSAlertFatal
	})
	add(func(c *c12Case) {
		c.tr = pb.TransportType_Prefix
		c.params = c12PrefixAny(&id0, &tb, nil, true)
		c.pfxSub = c12SubnetSets[3]
		c.disable = true
	})
	add(func(c *c12Case) { c.minSub = c12SubnetSets[5]; c.seed = c12SeedFor(0.0, 0.5, 1) }) // IPv6 override subnet: helper fails, no substitution
	add(func(c *c12Case) { c.sel.rp4 = false; c.minSub = c12SubnetSets[1] })
	add(func(c *c12Case) {
		c.tr = pb.TransportType_Prefix
		c.params = c12PrefixAny(&id0, nil, nil, true)
		c.pfxSub = c12SubnetSets[6] // first subnet names an unknown prefix id: overridePrefix fails
		c.seed = c12SeedFor(0.0, 0.33, 1)
	})
	// error exits
	add(func(c *c12Case) { c.noPayload = true; c.forged = true })
	add(func(c *c12Case) { c.secretLen = 4 })
	add(func(c *c12Case) { c.sendFail = true })
	add(func(c *c12Case) { c.tr = pb.TransportType_Obfs4 })
	add(func(c *c12Case) { c.sel.err4 = true })
	add(func(c *c12Case) { c.v6 = true; c.sel.err6 = true })
	add(func(c *c12Case) { c.tr = pb.TransportType_Prefix }) // nil params: no port
	// source / address rewriting
	add(func(c *c12Case) {
		c.enforce = false
		c.source = pb.RegistrationSource_API
		c.regAddr = net.ParseIP("198.51.100.23").To16()
	})
	add(func(c *c12Case) {
		c.enforce = false
		c.source = pb.RegistrationSource_BidirectionalAPI
		c.regAddr = net.ParseIP("198.51.100.23").To16()
	})
	add(func(c *c12Case) { c.enforce = false; c.client = nil; c.regAddr = net.ParseIP("198.51.100.23").To16() })
	// the witness of CJ.Props.C12.station_accepts_forwarded_full_refuted (recorded finding): a Prefix
	// registration of a library version that cannot support the transport, without parameters, on a phantom
	// without random-port support, answered with override parameters the station then refuses
	add(func(c *c12Case) {
		c.enforce = false
		c.tr = pb.TransportType_Prefix
		c.libver = 2
		c.sel.rp4 = false
		c.ovKind, c.ovPrefix = 1, prefix.OpenSSH2
	})
	// … and the same client where the registrar attaches nothing: accepted by registrar and station alike
	add(func(c *c12Case) {
		c.enforce = false
		c.tr = pb.TransportType_Prefix
		c.libver = 2
		c.sel.rp4 = false
	})
	return l
}
