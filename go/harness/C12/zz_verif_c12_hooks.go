//go:build verif

package regprocessor

// Support for the C12 harnesses that live in other packages (apiregserver, dnsregserver); exists only
// in the scratch copy the check works on.  A processor built by the real NewRegProcessorNoAuth whose
// zmq sender is replaced by one that keeps the published bytes and whose phantom selector is replaced
// by one with fixed answers that records its arguments.

import (
	"bytes"
	"crypto/ed25519"
	"encoding/binary"
	"errors"
	"fmt"
	"io"
	"net"
	"os"
	"path/filepath"
	"time"

	zmq "github.com/pebbe/zmq4"
	"github.com/refraction-networking/conjure/internal/vlib"
	"github.com/refraction-networking/conjure/pkg/core"
	"github.com/refraction-networking/conjure/pkg/metrics"
	"github.com/refraction-networking/conjure/pkg/phantoms"
	"github.com/refraction-networking/conjure/pkg/transports/wrapping/min"
	"github.com/refraction-networking/conjure/pkg/transports/wrapping/prefix"
	pb "github.com/refraction-networking/conjure/proto"
	log "github.com/sirupsen/logrus"
	"google.golang.org/protobuf/proto"
	"google.golang.org/protobuf/types/known/anypb"
)

type VerifC12Capture struct {
	Fail bool
	Got  [][]byte
}

func (s *VerifC12Capture) SendBytes(b []byte, f zmq.Flag) (int, error) {
	if s.Fail {
		return 0, errors.New("c12: scripted send failure")
	}
	s.Got = append(s.Got, append([]byte(nil), b...))
	return len(b), nil
}
func (s *VerifC12Capture) Close() error { return nil }

type VerifC12SelCall struct {
	Seed     []byte
	Gen, Ver uint
	V6       bool
}

type VerifC12Selector struct {
	V4, V6   net.IP
	RandPort bool
	Calls    []VerifC12SelCall
}

func (s *VerifC12Selector) Select(seed []byte, gen uint, ver uint, v6 bool) (*phantoms.PhantomIP, error) {
	s.Calls = append(s.Calls, VerifC12SelCall{append([]byte(nil), seed...), gen, ver, v6})
	if v6 {
		return phantoms.IP(s.V6, s.RandPort), nil
	}
	return phantoms.IP(s.V4, s.RandPort), nil
}

// VerifC12NewProcessor: privkey nil = as NewRegProcessorNoAuth leaves it; otherwise the processor signs
// with that key (the two fields newRegProcessor sets for an authenticated registrar).
func VerifC12NewProcessor(m *metrics.Metrics, enforce bool, subnets []Subnet, excl []Subnet, pctMin, pctPrefix float64,
	privkey ed25519.PrivateKey, sel *VerifC12Selector, snd *VerifC12Capture) (*RegProcessor, error) {
	p, err := NewRegProcessorNoAuth("127.0.0.1", 0, m, enforce, subnets, excl, pctMin, pctPrefix)
	if err != nil {
		return nil, err
	}
	p.sock.Close()
	p.sock = snd
	p.ipSelector = sel
	if privkey != nil {
		p.authenticated = true
		p.privkey = privkey
	}
	return p, nil
}

// ---------------------------------------------------------------------------------------------
// requests for the entry points (HTTP API, DNS): generated here so that both harnesses use the same ones

const verifC12ForgedPort = 70000
const verifC12ForgedV4 = 0x06060606

type VerifC12Entry struct {
	Auth      bool
	LibVer    uint32
	ClientGen uint32
	Forged    bool
	Req       *pb.C2SWrapper
	Proc      *RegProcessor
	Sel       *VerifC12Selector
	Snd       *VerifC12Capture
	Desc      string
	Excl      []Subnet // the exclusion list the processor was configured with
}

var verifC12Metrics *metrics.Metrics
var verifC12Priv ed25519.PrivateKey

// VerifC12EntrySetup: metrics, signing key and the phantom subnet file the real constructor loads.
func VerifC12EntrySetup() (*metrics.Metrics, func()) {
	dir, err := os.MkdirTemp("", "verif-c12e-")
	if err != nil {
		panic(err)
	}
	toml := "[Networks]\n    [Networks.1]\n        Generation = 1\n        [[Networks.1.WeightedSubnets]]\n            Weight = 1\n            RandomizeDstPort = true\n            Subnets = [\"100.64.0.0/16\", \"2001:db8:100::/64\"]\n"
	path := filepath.Join(dir, "phantom_subnets.toml")
	if err := os.WriteFile(path, []byte(toml), 0o644); err != nil {
		panic(err)
	}
	os.Setenv("PHANTOM_SUBNET_LOCATION", path)
	lg := log.New()
	lg.SetOutput(io.Discard)
	verifC12Metrics = metrics.NewMetrics(log.NewEntry(lg), 24*time.Hour)
	seed := make([]byte, ed25519.SeedSize)
	for i := range seed {
		seed[i] = byte(i + 3)
	}
	verifC12Priv = ed25519.NewKeyFromSeed(seed)
	return verifC12Metrics, func() { os.RemoveAll(dir) }
}

var verifC12Procs = map[string]*RegProcessor{}
var verifC12Excl = map[string][]Subnet{}

// VerifC12EntryCase: request number i of a stream, with the processor it goes to.  source is what the
// entry point expects in RegistrationSource (the DNS server decides by it), 0 = unset / random.
func VerifC12EntryCase(stream string, i int, source pb.RegistrationSource) *VerifC12Entry {
	r := vlib.NewRand(fmt.Sprintf("%s/%d", stream, i))
	e := &VerifC12Entry{Auth: r.Bool(), LibVer: 4, Forged: r.Chance(2, 3)}
	enforce := r.Chance(1, 2)
	cfg := r.Intn(5)
	key := fmt.Sprintf("%v/%v/%d", e.Auth, enforce, cfg)
	e.Sel = &VerifC12Selector{V4: net.ParseIP([]string{"203.0.113.7", "198.18.5.9", "192.0.2.200"}[r.Intn(3)]),
		V6: net.ParseIP(fmt.Sprintf("2001:db8:77::%x", r.Intn(60000)+1)), RandPort: r.Chance(3, 4)}
	e.Snd = &VerifC12Capture{}
	p := verifC12Procs[key]
	if p == nil {
		mk := func(cidr string, w float64, port uint32, tr string, id prefix.PrefixID) Subnet {
			n := Ipnet{}
			if err := n.UnmarshalText([]byte(cidr)); err != nil {
				panic(err)
			}
			return Subnet{CIDR: n, Weight: w, Port: port, Transport: tr, PrefixId: id}
		}
		var subs, excl []Subnet
		if cfg > 0 {
			subs = []Subnet{mk("10.1.0.0/24", 1, 443, "Min_Transport", prefix.Min), mk("10.2.0.0/24", 2.5, 80, "Min_Transport", prefix.Min),
				mk("10.3.0.0/24", 1, 22, "Prefix_Transport", prefix.OpenSSH2), mk("10.4.0.0/24", 0.5, 53, "Prefix_Transport", prefix.DNSOverTCP)}
		}
		switch cfg {
		case 2:
			excl = []Subnet{mk("203.0.113.0/24", 0, 0, "", prefix.Min)}
		case 3:
			// written like the entry of the shipped reg_config.toml: every field set
			excl = []Subnet{mk("203.0.113.0/24", 28.7, 80, "Min_Transport", prefix.Min)}
		case 4:
			excl = []Subnet{mk("198.18.0.0/15", 1, 443, "Prefix_Transport", prefix.GetLong), mk("203.0.113.0/24", 0, 0, "Obfs4_Transport", prefix.Min)}
		}
		var key2 ed25519.PrivateKey
		if e.Auth {
			key2 = verifC12Priv
		}
		var err error
		p, err = VerifC12NewProcessor(verifC12Metrics, enforce, subs, excl, 100, 100, key2, e.Sel, e.Snd)
		if err != nil {
			panic("c12: constructor failed: " + err.Error())
		}
		_ = p.AddTransport(pb.TransportType_Min, min.Transport{})
		_ = p.AddTransport(pb.TransportType_Prefix, prefix.DefaultSet())
		verifC12Procs[key] = p
		verifC12Excl[key] = append([]Subnet(nil), excl...)
	}
	e.Excl = verifC12Excl[key]
	p.sock, p.ipSelector = e.Snd, e.Sel
	e.Proc = p
	tr := pb.TransportType_Min
	if r.Bool() {
		tr = pb.TransportType_Prefix
	}
	e.ClientGen = uint32(r.Intn(6))
	secret := r.Bytes(32)
	covert := "192.0.2.99:443"
	w := &pb.C2SWrapper{SharedSecret: secret, RegistrationPayload: &pb.ClientToStation{
		Transport: &tr, DecoyListGeneration: proto.Uint32(e.ClientGen), CovertAddress: &covert,
		V4Support: proto.Bool(r.Chance(4, 5)), V6Support: proto.Bool(r.Bool()), ClientLibVersion: proto.Uint32(e.LibVer)}}
	if tr == pb.TransportType_Prefix {
		id := int32(r.Intn(10))
		a, _ := anypb.New(&pb.PrefixTransportParams{PrefixId: &id})
		w.RegistrationPayload.TransportParams = a
	}
	if r.Chance(1, 3) {
		w.RegistrationPayload.DisableRegistrarOverrides = proto.Bool(true)
	}
	if source != pb.RegistrationSource_Unspecified {
		src := source
		w.RegistrationSource = &src
	} else if r.Chance(1, 3) {
		src := []pb.RegistrationSource{pb.RegistrationSource_API, pb.RegistrationSource_BidirectionalAPI, pb.RegistrationSource_Detector}[r.Intn(3)]
		w.RegistrationSource = &src
	}
	if r.Chance(1, 3) {
		w.RegistrationAddress = net.ParseIP("198.51.100.23").To16()
	}
	if e.Forged {
		w.RegistrationResponse = &pb.RegistrationResponse{Ipv4Addr: proto.Uint32(verifC12ForgedV4), Ipv6Addr: net.ParseIP("2001:db8:bad::1"),
			DstPort: proto.Uint32(verifC12ForgedPort), TransportParams: &anypb.Any{TypeUrl: "type.googleapis.com/forged.Marker", Value: []byte{1, 2, 3}}}
		w.RegRespBytes = []byte("forged-response-bytes")
		w.RegRespSignature = []byte("forged-signature")
	}
	e.Req = w
	e.Desc = fmt.Sprintf("auth=%v enforce=%v config=%d transport=%v clientGen=%d forged=%v", e.Auth, enforce, cfg, tr, e.ClientGen, e.Forged)
	return e
}

// Check evaluates the property on what the entry point answered (got: the response the client can decode,
// nil if the entry point reported a failure) and what was published.  wantGen is the generation the
// entry point must have used for the selection and forwarded.
func (e *VerifC12Entry) Check(got *pb.RegistrationResponse, wantGen uint32) (fails [][2]string) {
	fail := func(sig, what string) { fails = append(fails, [2]string{sig, what + " [" + e.Desc + "]"}) }
	if got == nil {
		return
	}
	if len(e.Snd.Got) != 1 {
		fail("C12:not-forwarded", fmt.Sprintf("the client got a response but %d messages were published", len(e.Snd.Got)))
		return
	}
	fwd := &pb.C2SWrapper{}
	if err := proto.Unmarshal(e.Snd.Got[0], fwd); err != nil {
		fail("C12:not-forwarded", "published bytes do not parse: "+err.Error())
		return
	}
	view := proto.Clone(got).(*pb.RegistrationResponse)
	view.ClientConf = nil // attached for the client only, after the message to the stations was published
	if !proto.Equal(view, fwd.RegistrationResponse) {
		fail("C12:client-view-differs-from-forwarded", fmt.Sprintf("the entry point answered %v but the stations were sent %v", view, fwd.RegistrationResponse))
	}
	if e.Auth {
		sr := &pb.RegistrationResponse{}
		if !ed25519.Verify(verifC12Priv.Public().(ed25519.PublicKey), fwd.RegRespBytes, fwd.RegRespSignature) ||
			proto.Unmarshal(fwd.RegRespBytes, sr) != nil || !proto.Equal(sr, view) {
			fail("C12:signed-copy-differs", "the signed copy sent to the stations is not the response the client got")
		}
	} else if len(fwd.RegRespBytes) != 0 || len(fwd.RegRespSignature) != 0 {
		fail("C12:forged-signature-forwarded", "an unauthenticated registrar forwarded RegRespBytes / RegRespSignature")
	}
	if e.Forged {
		if bytes.Equal(fwd.RegRespBytes, []byte("forged-response-bytes")) || bytes.Equal(fwd.RegRespSignature, []byte("forged-signature")) {
			fail("C12:forged-signature-forwarded", "client-supplied RegRespBytes / RegRespSignature reached the stations")
		}
		for _, r := range []*pb.RegistrationResponse{got, fwd.RegistrationResponse} {
			if r.GetDstPort() == verifC12ForgedPort || (r.Ipv4Addr != nil && *r.Ipv4Addr == verifC12ForgedV4) ||
				(r.GetTransportParams() != nil && r.GetTransportParams().TypeUrl == "type.googleapis.com/forged.Marker") ||
				(len(r.GetIpv6Addr()) == 16 && r.GetIpv6Addr()[4] == 0x0b && r.GetIpv6Addr()[5] == 0xad) {
				fail("C12:forged-response-used", fmt.Sprintf("a field of the client-supplied RegistrationResponse survived: %v", r))
			}
		}
	}
	// the selection used the client's secret and the generation that is forwarded to the stations
	keys, err := core.GenSharedKeys(uint(e.LibVer), e.Req.SharedSecret, e.Req.GetRegistrationPayload().GetTransport())
	if err == nil {
		for _, k := range e.Sel.Calls {
			if !bytes.Equal(k.Seed, keys.ConjureSeed) || k.Ver != uint(e.LibVer) || k.Gen != uint(fwd.GetRegistrationPayload().GetDecoyListGeneration()) {
				fail("C12:selector-arguments", fmt.Sprintf("phantom selected with generation %d, library version %d; the stations were sent generation %d, version %d",
					k.Gen, k.Ver, fwd.GetRegistrationPayload().GetDecoyListGeneration(), fwd.GetRegistrationPayload().GetClientLibVersion()))
			}
		}
	}
	if g := fwd.GetRegistrationPayload().GetDecoyListGeneration(); g != wantGen {
		fail("C12:selector-arguments", fmt.Sprintf("the stations were sent generation %d, expected %d", g, wantGen))
	}
	if e.Req.GetRegistrationPayload().GetV4Support() && got.Ipv4Addr != nil && view.Ipv4Addr != nil {
		// without subnet overrides the address is the selector's
		if !e.Proc.enforceSubnetOverrides && *got.Ipv4Addr != binary.BigEndian.Uint32(e.Sel.V4.To4()) {
			fail("C12:substitute-outside-configured", "the IPv4 phantom is not the selector's although subnet overrides are off")
		}
		// a phantom inside any configured exclusion is never replaced, whatever else the entry says
		for _, x := range e.Excl {
			if x.CIDR.IPNet.Contains(e.Sel.V4) && *got.Ipv4Addr != binary.BigEndian.Uint32(e.Sel.V4.To4()) {
				fail("C12:excluded-replaced", fmt.Sprintf("phantom %v lies in the excluded subnet %v (transport=%q weight=%v port=%d) but the client was given %v",
					e.Sel.V4, x.CIDR.IPNet, x.Transport, x.Weight, x.Port, uint32ToIPv4(got.Ipv4Addr)))
			}
		}
	}
	return
}
