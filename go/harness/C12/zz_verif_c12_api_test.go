//go:build verif

package apiregserver

// C12 at the HTTP entry point: POST /register-bidirectional handled by the real
// APIRegServer.registerBidirectional in front of a real RegProcessor (built by the real constructor;
// capturing sender, recording selector).  The body the client receives, minus the ClientConf that is
// attached for the client only, must be the response inside the message published to the stations; the
// generation the selection used must be the one that is forwarded (the server replaces an outdated one).
// Oracle only (no model line): the model of RegisterBidirectional is tied by the regprocessor harness.

import (
	"bufio"
	"bytes"
	"fmt"
	"io"
	"net/http"
	"net/http/httptest"
	"os"
	"strings"
	"testing"

	"github.com/refraction-networking/conjure/internal/vlib"
	"github.com/refraction-networking/conjure/pkg/regserver/regprocessor"
	pb "github.com/refraction-networking/conjure/proto"
	log "github.com/sirupsen/logrus"
	"google.golang.org/protobuf/proto"
)

const c12apiServerGen = 3

func c12apiOne(s *APIRegServer, i int) (fails [][2]string, desc string) {
	e := regprocessor.VerifC12EntryCase("C12api", i, pb.RegistrationSource_Unspecified)
	body, _ := proto.Marshal(e.Req)
	r := httptest.NewRequest("POST", "/register-bidirectional", bytes.NewReader(body))
	r.RemoteAddr = []string{"198.51.100.7:4455", "[2001:db8:c::2]:4455"}[i%2]
	if i%5 == 0 {
		r.Header.Add("X-Forwarded-For", "203.0.113.99")
	}
	s.processor = e.Proc
	w := httptest.NewRecorder()
	s.registerBidirectional(w, r)
	res := w.Result()
	defer res.Body.Close()
	desc = fmt.Sprintf("status=%d %s", res.StatusCode, e.Desc)
	if res.StatusCode != http.StatusOK {
		return nil, desc
	}
	b, _ := io.ReadAll(res.Body)
	got := &pb.RegistrationResponse{}
	if err := proto.Unmarshal(b, got); err != nil {
		return [][2]string{{"C12:client-view-differs-from-forwarded", "the body of a 200 answer does not decode: " + err.Error()}}, desc
	}
	wantGen := e.ClientGen
	if e.ClientGen < c12apiServerGen {
		wantGen = c12apiServerGen
	}
	fails = e.Check(got, wantGen)
	if (got.ClientConf != nil) != (e.ClientGen < c12apiServerGen) {
		// not part of the property; kept visible in the histogram only
		desc += " clientconf-unexpected"
	}
	return fails, desc
}

func TestVerifC12API(t *testing.T) {
	m, cleanup := regprocessor.VerifC12EntrySetup()
	defer cleanup()
	out := vlib.Open("C12api")
	defer out.Close()
	lg := log.New()
	lg.SetOutput(io.Discard)
	first := regprocessor.VerifC12EntryCase("C12api", 0, pb.RegistrationSource_Unspecified)
	s, err := NewAPIRegServer(0, first.Proc, &pb.ClientConf{Generation: proto.Uint32(c12apiServerGen)}, lg, false, m)
	if err != nil {
		t.Fatal(err)
	}
	only := map[int]bool{}
	if rp := vlib.Replay(); rp != "" {
		f, err := os.Open(rp)
		if err != nil {
			t.Fatal(err)
		}
		defer f.Close()
		scn := bufio.NewScanner(f)
		scn.Buffer(make([]byte, 1<<20), 1<<20)
		for scn.Scan() {
			var seed int64
			var n int
			if k, _ := fmt.Sscanf(scn.Text(), "c12api|seed=%d|n=%d|", &seed, &n); k == 2 {
				os.Setenv("VERIF_SEED", fmt.Sprint(seed))
				only[n] = true
			}
		}
		if len(only) == 0 {
			return
		}
	}
	N := vlib.Budget(3000, 40000)
	for i := 0; i < N; i++ {
		if len(only) > 0 && !only[i] {
			continue
		}
		fails, desc := c12apiOne(s, i)
		out.Checked()
		out.Count("api:" + strings.SplitN(desc, " ", 2)[0])
		if len(only) > 0 {
			fmt.Printf("replay api #%d: %s\n", i, desc)
		}
		for _, f := range fails {
			if len(only) > 0 {
				fmt.Printf("  ORACLE %s: %s\n", f[0], f[1])
			}
			out.OracleFail(f[0], "HTTP API: "+f[1], fmt.Sprintf("c12api|seed=%d|n=%d|%s", vlib.Seed(), i, desc))
		}
	}
}
