//go:build verif

package lib

// Accessor for the C12 harness (exists only in the scratch copy the check works on): the station's
// parseRegMessage, the function that turns the bytes received from the registrar into registrations.
func (rm *RegistrationManager) VerifC12ParseRegMessage(msg []byte) ([]*DecoyRegistration, error) {
	return rm.parseRegMessage(msg)
}
